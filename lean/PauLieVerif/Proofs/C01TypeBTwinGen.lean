/-
C01, type B - further single legs on ANY base star (core Lean only).

`BaseOK n c a rest L`: the star `c :: a :: rest` (centre `c`, first single leg `a`) on `n` qubits is uniform,
connected, linearly independent, and `L` lists its closure without repetition.  `BaseOK.iter`: adjoining `j`
further single legs (`Z ⊗ a` on a new qubit each, `twinRest`) keeps all that, with `2^j` translates of `L`.
-/
import PauLieVerif.Proofs.C01TypeBTwins

namespace PauLie
namespace C01TypeB
open Closure C01Star

structure BaseOK (n : Nat) (c a : V) (rest L : List V) : Prop where
  unif : Uniform n (c :: a :: rest)
  oac : omega a c = true
  conn : ∀ g ∈ c :: a :: rest, Conn (c :: a :: rest) c g ∧ Conn (c :: a :: rest) g c
  clo : ∀ v, v ∈ L ↔ Clo (c :: a :: rest) v
  nodup : L.Nodup
  indep : Indep (2 * n) (c :: a :: rest)

/-- the legs besides centre and first single leg after `j` further single legs -/
def twinRest : Nat → V → List V → List V
  | 0, _, rest => rest
  | j + 1, a, rest => (false :: true :: padN j a) :: (twinRest j a rest).map pad

/-- the closure after `j` further single legs -/
def twinL : Nat → List V → List V
  | 0, L => L
  | j + 1, L => (twinL j L).map (fun y => false :: false :: y) ++ (twinL j L).map (fun y => false :: true :: y)

theorem length_twinL : ∀ j (L : List V), (twinL j L).length = 2 ^ j * L.length
  | 0, L => by simp [twinL]
  | j + 1, L => by
    simp only [twinL, List.length_append, List.length_map, length_twinL j L]
    generalize L.length = m
    rw [Nat.pow_succ, Nat.mul_comm (2 ^ j) 2, Nat.mul_assoc]; omega

theorem BaseOK.step {n : Nat} {c a : V} {rest L : List V} (h : BaseOK n c a rest L) :
    BaseOK (n + 1) (pad c) (pad a) ((false :: true :: a) :: rest.map pad)
      (L.map (fun y => false :: false :: y) ++ L.map (fun y => false :: true :: y)) := by
  have la : a.length = 2 * n := h.unif a (by simp)
  have mem : ∀ g, g ∈ pad c :: pad a :: (false :: true :: a) :: rest.map pad ↔
      (∃ h' ∈ c :: a :: rest, g = pad h') ∨ g = false :: true :: a := by
    intro g
    simp only [List.mem_cons, List.mem_map]
    constructor
    · rintro (rfl | rfl | rfl | ⟨w, hw, rfl⟩)
      · exact Or.inl ⟨c, Or.inl rfl, rfl⟩
      · exact Or.inl ⟨a, Or.inr (Or.inl rfl), rfl⟩
      · exact Or.inr rfl
      · exact Or.inl ⟨w, Or.inr (Or.inr hw), rfl⟩
    · rintro (⟨w, rfl | rfl | hw, rfl⟩ | rfl)
      · exact Or.inl rfl
      · exact Or.inr (Or.inl rfl)
      · exact Or.inr (Or.inr (Or.inr ⟨w, hw, rfl⟩))
      · exact Or.inr (Or.inr (Or.inl rfl))
  have hpad : ∀ g ∈ c :: a :: rest, pad g ∈ pad c :: pad a :: (false :: true :: a) :: rest.map pad :=
    fun g hg => (mem _).2 (Or.inl ⟨g, hg, rfl⟩)
  have hb : (false :: true :: a) ∈ pad c :: pad a :: (false :: true :: a) :: rest.map pad := (mem _).2 (Or.inr rfl)
  have hU : Uniform (n + 1) (pad c :: pad a :: (false :: true :: a) :: rest.map pad) := by
    intro g hg
    rcases (mem g).1 hg with ⟨w, hw, rfl⟩ | rfl
    · simp [pad, h.unif w hw]; omega
    · simp [la]; omega
  refine ⟨hU, by simpa [pad, omega_cons2] using h.oac, ?_, ?_, ?_, ?_⟩
  · intro g hg
    rcases (mem g).1 hg with ⟨w, hw, rfl⟩ | rfl
    · obtain ⟨i1, i2⟩ := h.conn w hw
      exact ⟨conn_pad hpad i1, conn_pad hpad i2⟩
    · have hc : Clo (pad c :: pad a :: (false :: true :: a) :: rest.map pad) (pad c) := Clo.base (by simp)
      have o : omega (pad c) (false :: true :: a) = true := by
        simp only [pad, omega_cons2]; rw [omega_comm, h.oac]; rfl
      exact ⟨conn_adj hU hc (Clo.base hb) o, conn_adj hU (Clo.base hb) hc (by rw [omega_comm]; exact o)⟩
  · intro v
    rw [twin_clo h.unif (a := a) (r := c) (by simp) h.conn hpad hb (fun g' hg' => (mem g').1 hg') v]
    simp only [List.mem_append, List.mem_map]
    constructor
    · rintro (⟨w, hw, rfl⟩ | ⟨w, hw, rfl⟩)
      · exact ⟨false, w, rfl, (h.clo w).1 hw⟩
      · exact ⟨true, w, rfl, (h.clo w).1 hw⟩
    · rintro ⟨z, w, rfl, hw⟩
      cases z
      · exact Or.inl ⟨w, (h.clo w).2 hw, rfl⟩
      · exact Or.inr ⟨w, (h.clo w).2 hw, rfl⟩
  · rw [List.nodup_append]
    refine ⟨nodup_map_cons2 _ _ h.nodup, nodup_map_cons2 _ _ h.nodup, ?_⟩
    intro x hx y hy hxy
    obtain ⟨w, _, rfl⟩ := List.mem_map.1 hx
    obtain ⟨w', _, rfl⟩ := List.mem_map.1 hy
    simp at hxy
  · have := indep_insert (L := 2 * n) (p := [c, a]) (q := rest) (news := [false :: true :: a])
      (fun v hv => h.unif v (by simp at hv; rcases hv with rfl | rfl <;> simp))
      (fun v hv => h.unif v (by simp [hv]))
      (by intro v hv
          simp only [List.mem_cons, List.not_mem_nil, or_false] at hv
          subst hv; simp [la])
      h.indep (firstLetters_twin _ la)
    exact this

theorem BaseOK.iter {n : Nat} {c a : V} {rest L : List V} (h : BaseOK n c a rest L) :
    ∀ j, BaseOK (n + j) (padN j c) (padN j a) (twinRest j a rest) (twinL j L)
  | 0 => h
  | j + 1 => (h.iter j).step

/-- the size of the closure after `j` further single legs -/
theorem BaseOK.card {n : Nat} {c a : V} {rest L : List V} (h : BaseOK n c a rest L) (j : Nat) :
    (closureList (padN j c :: padN j a :: twinRest j a rest)).1.length = 2 ^ j * L.length := by
  have hj := h.iter j
  rw [← clo_card hj.unif hj.nodup hj.clo, length_twinL]

end C01TypeB
end PauLie
