/-
Componentwise commutator closure (used by C01 "disconnected anticommutation graphs" and by the
two-local families of C19 whose translated generators split into mutually commuting blocks).

If every member of `A` commutes with every member of `B` (all strings of one length) then

  * every member of `Clo A` commutes with every member of `Clo B`            (`omega_clo_clo`);
  * `Clo (A ++ B) x ↔ Clo A x ∨ Clo B x`                                     (`clo_append`);
  * a string in both closures is a *generator* on both sides (`x ∈ A ∧ x ∈ B`) and commutes
    with the whole closure of `A ++ B` (`clo_inter`); hence for `A`, `B` without a common
    member the closures are disjoint (`clo_disjoint`) and
    `|Clo (A ++ B)| = |Clo A| + |Clo B|` (`card_clo_append`); in general the number of common
    members has to be subtracted (`card_clo_append_general`);
  * the n-ary versions over a list of mutually commuting blocks (`clo_flatten`,
    `card_clo_flatten`).

Core Lean only.
-/
import PauLieVerif.Proofs.Closure

namespace PauLie
namespace Comp
open Closure

/-- the blocks commute elementwise -/
def Commute (A B : List V) : Prop := ∀ a ∈ A, ∀ b ∈ B, omega a b = false

instance (A B : List V) : Decidable (Commute A B) := by unfold Commute; exact inferInstance

theorem Commute.symm {A B : List V} (h : Commute A B) : Commute B A :=
  fun b hb a ha => by rw [omega_comm]; exact h a ha b hb

/-- a string commuting with every generator commutes with the whole closure -/
theorem omega_clo_left {n : Nat} {A : List V} (hA : Uniform n A) {y : V}
    (hy : ∀ a ∈ A, omega a y = false) {x : V} (hx : Clo A x) : omega x y = false := by
  induction hx with
  | base h => exact hy _ h
  | step hx' hy' _ ih1 ih2 =>
    rw [omega_add_left _ _ _ ((clo_length hA hx').trans (clo_length hA hy').symm), ih1, ih2]
    rfl

/-- closures of elementwise commuting blocks commute elementwise -/
theorem omega_clo_clo {n : Nat} {A B : List V} (hA : Uniform n A) (hB : Uniform n B)
    (h : Commute A B) {x y : V} (hx : Clo A x) (hy : Clo B y) : omega x y = false := by
  apply omega_clo_left hA _ hx
  intro a ha
  rw [omega_comm]
  exact omega_clo_left hB (fun b hb => by rw [omega_comm]; exact h a ha b hb) hy

/-- **componentwise closure**: the closure of two elementwise commuting blocks is the union of
the closures of the blocks -/
theorem clo_append {n : Nat} {A B : List V} (hA : Uniform n A) (hB : Uniform n B)
    (h : Commute A B) (x : V) : Clo (A ++ B) x ↔ Clo A x ∨ Clo B x := by
  constructor
  · intro hx
    induction hx with
    | base hg =>
      rcases List.mem_append.1 hg with hg | hg
      · exact Or.inl (Clo.base hg)
      · exact Or.inr (Clo.base hg)
    | step _ _ ho ihx ihy =>
      rcases ihx with ihx | ihx <;> rcases ihy with ihy | ihy
      · exact Or.inl (Clo.step ihx ihy ho)
      · rw [omega_clo_clo hA hB h ihx ihy] at ho; cases ho
      · rw [omega_comm, omega_clo_clo hA hB h ihy ihx] at ho; cases ho
      · exact Or.inr (Clo.step ihx ihy ho)
  · rintro (hx | hx)
    · exact clo_mono (fun _ hg => List.mem_append_left _ hg) hx
    · exact clo_mono (fun _ hg => List.mem_append_right _ hg) hx

/-- a member of the closure is a generator or anticommutes with some member of the closure -/
theorem clo_gen_or_anti {n : Nat} {A : List V} (hA : Uniform n A) {x : V} (hx : Clo A x) :
    x ∈ A ∨ ∃ u, Clo A u ∧ omega x u = true := by
  cases hx with
  | base h => exact Or.inl h
  | @step u v hu hv ho =>
    refine Or.inr ⟨u, hu, ?_⟩
    rw [omega_add_left _ _ _ ((clo_length hA hu).trans (clo_length hA hv).symm), omega_self,
      omega_comm v u, ho]
    rfl

/-- **what the two closures can share**: a string lying in the closure of both blocks is a
generator in both blocks and commutes with everything in the closure of `A ++ B` (it spans a
`u(1)` summand that both blocks contain) -/
theorem clo_inter {n : Nat} {A B : List V} (hA : Uniform n A) (hB : Uniform n B)
    (h : Commute A B) {x : V} (hxA : Clo A x) (hxB : Clo B x) :
    x ∈ A ∧ x ∈ B ∧ ∀ y, Clo (A ++ B) y → omega x y = false := by
  have hcA : ∀ y, Clo A y → omega x y = false := fun y hy => by
    rw [omega_comm]; exact omega_clo_clo hA hB h hy hxB
  have hcB : ∀ y, Clo B y → omega x y = false := fun y hy => omega_clo_clo hA hB h hxA hy
  refine ⟨?_, ?_, ?_⟩
  · rcases clo_gen_or_anti hA hxA with hm | ⟨u, hu, ho⟩
    · exact hm
    · rw [hcA u hu] at ho; cases ho
  · rcases clo_gen_or_anti hB hxB with hm | ⟨u, hu, ho⟩
    · exact hm
    · rw [hcB u hu] at ho; cases ho
  · intro y hy
    rcases (clo_append hA hB h y).1 hy with hy | hy
    · exact hcA y hy
    · exact hcB y hy

/-- blocks without a common member have disjoint closures -/
theorem clo_disjoint {n : Nat} {A B : List V} (hA : Uniform n A) (hB : Uniform n B)
    (h : Commute A B) (hd : ∀ x, x ∈ A → x ∉ B) {x : V} (hxA : Clo A x) (hxB : Clo B x) : False :=
  have := clo_inter hA hB h hxA hxB
  hd x this.1 this.2.1

theorem uniform_append {n : Nat} {A B : List V} (hA : Uniform n A) (hB : Uniform n B) :
    Uniform n (A ++ B) := by
  intro g hg
  rcases List.mem_append.1 hg with hg | hg
  · exact hA g hg
  · exact hB g hg

/-- **size**: for elementwise commuting blocks without a common member the closure of the union
has `|Clo A| + |Clo B|` members -/
theorem card_clo_append {n : Nat} {A B : List V} (hA : Uniform n A) (hB : Uniform n B)
    (h : Commute A B) (hd : ∀ x, x ∈ A → x ∉ B) :
    (closureList (A ++ B)).1.length = (closureList A).1.length + (closureList B).1.length := by
  rw [← List.length_append]
  symm
  apply clo_card (uniform_append hA hB)
  · rw [List.nodup_append]
    refine ⟨closureList_nodup A, closureList_nodup B, ?_⟩
    intro a ha b hb hab
    subst hab
    exact clo_disjoint hA hB h hd ((closureList_sound_complete hA).1 ha)
      ((closureList_sound_complete hB).1 hb)
  · intro x
    rw [List.mem_append, closureList_sound_complete hA, closureList_sound_complete hB,
      clo_append hA hB h]

/-- **size, general form**: the common members of the two closures are exactly the common
generators, so they are subtracted once:
`|Clo (A ++ B)| + |{x ∈ Clo A : x ∈ B}| = |Clo A| + |Clo B|`, and `{x ∈ Clo A : x ∈ B}` is the
set of strings that are generators of both blocks -/
theorem card_clo_append_general {n : Nat} {A B : List V} (hA : Uniform n A) (hB : Uniform n B)
    (h : Commute A B) :
    (closureList (A ++ B)).1.length + ((closureList A).1.filter (fun x => B.contains x)).length
      = (closureList A).1.length + (closureList B).1.length ∧
    ∀ x, x ∈ (closureList A).1.filter (fun x => B.contains x) ↔ x ∈ A ∧ x ∈ B := by
  have hcommon : ∀ x, x ∈ (closureList A).1 → (B.contains x = true ↔ x ∈ (closureList B).1) := by
    intro x hx
    rw [List.contains_iff_mem, closureList_sound_complete hB]
    constructor
    · exact Clo.base
    · intro hxB
      exact (clo_inter hA hB h ((closureList_sound_complete hA).1 hx) hxB).2.1
  constructor
  · have hcard := clo_card (uniform_append hA hB)
      (l := (closureList A).1.filter (fun x => !B.contains x) ++ (closureList B).1) (by
        rw [List.nodup_append]
        refine ⟨(closureList_nodup A).filter _, closureList_nodup B, ?_⟩
        intro a ha b hb hab
        subst hab
        rw [List.mem_filter] at ha
        have := (hcommon a ha.1).2 hb
        rw [this] at ha
        simp at ha) (by
        intro x
        rw [List.mem_append, List.mem_filter, closureList_sound_complete hA,
          closureList_sound_complete hB, clo_append hA hB h]
        constructor
        · rintro (⟨hx, _⟩ | hx)
          · exact Or.inl hx
          · exact Or.inr hx
        · rintro (hx | hx)
          · by_cases hb : B.contains x = true
            · exact Or.inr (Clo.base (List.contains_iff_mem.1 hb))
            · exact Or.inl ⟨hx, by simpa using hb⟩
          · exact Or.inr hx)
    rw [← hcard, List.length_append]
    have := length_filter_split (fun x => B.contains x) (fun x => !B.contains x) (fun _ => rfl)
      (closureList A).1
    omega
  · intro x
    rw [List.mem_filter, closureList_sound_complete hA, List.contains_iff_mem]
    constructor
    · rintro ⟨hx, hb⟩
      exact ⟨(clo_inter hA hB h hx (Clo.base hb)).1, hb⟩
    · rintro ⟨ha, hb⟩
      exact ⟨Clo.base ha, hb⟩

/-- generating sets with the same closure have equally long enumerations -/
theorem card_clo_congr {n : Nat} {G G' : List V} (hG : Uniform n G) (hG' : Uniform n G')
    (h : ∀ x, Clo G x ↔ Clo G' x) : (closureList G).1.length = (closureList G').1.length :=
  clo_card hG' (closureList_nodup G) (fun x => by rw [closureList_sound_complete hG, h x])

/-! ### n-ary versions -/

theorem uniform_flatten {n : Nat} {bs : List (List V)} (hU : ∀ A ∈ bs, Uniform n A) :
    Uniform n bs.flatten := by
  intro g hg
  obtain ⟨A, hA, hgA⟩ := List.mem_flatten.1 hg
  exact hU A hA g hgA

theorem commute_flatten {A : List V} {bs : List (List V)} (h : ∀ B ∈ bs, Commute A B) :
    Commute A bs.flatten := by
  intro a ha b hb
  obtain ⟨B, hB, hbB⟩ := List.mem_flatten.1 hb
  exact h B hB a ha b hbB

/-- **componentwise closure, n-ary**: the closure of a list of mutually commuting blocks is the
union of the closures of the blocks -/
theorem clo_flatten {n : Nat} : ∀ {bs : List (List V)}, (∀ A ∈ bs, Uniform n A) →
    bs.Pairwise Commute → ∀ x, Clo bs.flatten x ↔ ∃ A ∈ bs, Clo A x
  | [], _, _, x => by
    constructor
    · intro hx
      exfalso
      induction hx with
      | base h => simp at h
      | step _ _ _ ih _ => exact ih
    · rintro ⟨A, hA, _⟩; simp at hA
  | A :: bs, hU, hp, x => by
    rw [List.pairwise_cons] at hp
    have hUb : ∀ B ∈ bs, Uniform n B := fun B hB => hU B (List.mem_cons_of_mem _ hB)
    rw [List.flatten_cons, clo_append (hU A (List.mem_cons_self ..)) (uniform_flatten hUb)
      (commute_flatten hp.1), clo_flatten hUb hp.2 x]
    simp

/-- **size, n-ary**: mutually commuting blocks, no string in two blocks: the sizes add up -/
theorem card_clo_flatten {n : Nat} : ∀ {bs : List (List V)}, (∀ A ∈ bs, Uniform n A) →
    bs.Pairwise Commute → bs.Pairwise (fun A B => ∀ x, x ∈ A → x ∉ B) →
    (closureList bs.flatten).1.length = (bs.map (fun A => (closureList A).1.length)).sum
  | [], _, _, _ => by decide
  | A :: bs, hU, hp, hd => by
    rw [List.pairwise_cons] at hp hd
    have hUb : ∀ B ∈ bs, Uniform n B := fun B hB => hU B (List.mem_cons_of_mem _ hB)
    rw [List.flatten_cons, card_clo_append (hU A (List.mem_cons_self ..)) (uniform_flatten hUb)
      (commute_flatten hp.1), card_clo_flatten hUb hp.2 hd.2]
    · simp
    · intro x hx hx'
      obtain ⟨B, hB, hxB⟩ := List.mem_flatten.1 hx'
      exact hd.1 B hB x hx hxB

/-- the blocks of the closure are pairwise disjoint as well -/
theorem clo_blocks_disjoint {n : Nat} {bs : List (List V)} (hU : ∀ A ∈ bs, Uniform n A)
    (hp : bs.Pairwise Commute) (hd : bs.Pairwise (fun A B => ∀ x, x ∈ A → x ∉ B)) :
    bs.Pairwise (fun A B => ∀ x, Clo A x → ¬ Clo B x) := by
  induction bs with
  | nil => exact List.Pairwise.nil
  | cons A bs ih =>
    rw [List.pairwise_cons] at hp hd ⊢
    refine ⟨fun B hB x hxA hxB => ?_, ih (fun B hB => hU B (List.mem_cons_of_mem _ hB)) hp.2 hd.2⟩
    exact clo_disjoint (hU A (List.mem_cons_self ..)) (hU B (List.mem_cons_of_mem _ hB))
      (hp.1 B hB) (hd.1 B hB) hxA hxB

/-! non-vacuity: `XI`,`ZI` and `IX`,`IZ` — two commuting copies of su(2) -/
example : Commute [[true, false, false, false], [false, true, false, false]]
    [[false, false, true, false], [false, false, false, true]] := by decide
example : (closureList ([[true, false, false, false], [false, true, false, false]] ++
    [[false, false, true, false], [false, false, false, true]])).1.length = 3 + 3 := by decide +kernel
/-- the disjointness hypothesis cannot be dropped: `A = B = [XI]` -/
example : (closureList ([[true, false, false, false]] ++ [[true, false, false, false]])).1.length = 1 := by
  decide +kernel

end Comp
end PauLie
