/-
Helper lemmas for property C16, part 2: the model's twirl (`SecondMoment.twirl`:
normalisation loop, projection loop, `simplify`) denotes the abstract projection
`proj (basis.map den) (den M)` of `Proofs/C16Proj.lean`, for ANY list `basis` of valid
non-empty combinations (orthogonality is not needed for this step).
-/
import PauLieVerif.Proofs.C12Mul
import PauLieVerif.Proofs.C16Proj
import PauLieVerif.Model.SecondMoment

namespace PauLie
namespace C16

open Matrix Complex C12 SecondMoment

theorem toC_re (t : GR) : (t.toC).re = (t.re : ℝ) := by simp [GR.toC]
theorem toC_im (t : GR) : (t.toC).im = (t.im : ℝ) := by simp [GR.toC]

theorem toC_mul_inv (c : GR) (N : Rat) : (c * (⟨1 / N, 0⟩ : GR)).toC = c.toC / (N : ℂ) := by
  rw [toC_mul]; simp [GR.toC, div_eq_mul_inv]

/-- `tr(a.h @ b)` is the trace inner product of the denoted matrices -/
theorem trace_h_matmul {k : ℕ} {a b : Lin} (ha : Valid k a) (hb : Valid k b) (hne : a ≠ []) :
    ∃ p, Lin.matmul (Lin.h a) b = .ok p ∧ (Lin.trace p).toC = ip (den k a) (den k b) := by
  obtain ⟨p, hp, hden, hval⟩ := matmul_spec (valid_h ha) hb
  refine ⟨p, hp, ?_⟩
  have hne' : Lin.h a ≠ [] := by
    cases a with
    | nil => exact absurd rfl hne
    | cons t a => simp [Lin.h, Lin.mk]
  rw [trace_spec (hval (.inl hne')), hden, den_h]
  rfl

theorem sqNorm_spec {k : ℕ} {q : Lin} (hq : Valid k q) (hne : q ≠ []) :
    ∃ t, sqNorm q = .ok t ∧ t.toC = ip (den k q) (den k q) := by
  obtain ⟨p, hp, ht⟩ := trace_h_matmul hq hq hne
  exact ⟨Lin.trace p, by simp [sqNorm, hp, bind, Except.bind, pure, Except.pure], ht⟩

/-- the sum the projection loop adds: `Σ (tr(Q†M)/N) • Q` over the kept pairs -/
noncomputable def projN (k : ℕ) (nb : List (Lin × Rat)) (M : Matrix (Fin k → Fin 2) (Fin k → Fin 2) ℂ) :
    Matrix (Fin k → Fin 2) (Fin k → Fin 2) ℂ :=
  (nb.map (fun qN => (ip (den k qN.1) M / (qN.2 : ℂ)) • den k qN.1)).sum

/-- normalisation loop: never raises; dropping the vectors of norm 0 and dividing by the
real part of the norm does not change the projection -/
theorem normed_spec {k : ℕ} (basis : List Lin) (hv : ∀ q ∈ basis, Valid k q ∧ q ≠ [])
    (M : Matrix (Fin k → Fin 2) (Fin k → Fin 2) ℂ) :
    ∃ nb, normed basis = .ok nb ∧ (∀ qN ∈ nb, qN.1 ∈ basis) ∧
      projN k nb M = proj (basis.map (den k)) M := by
  induction basis with
  | nil => exact ⟨[], rfl, by simp, rfl⟩
  | cons q basis ih =>
    obtain ⟨nb, hnb, hmem, hproj⟩ := ih (fun q' hq' => hv q' (List.mem_cons_of_mem _ hq'))
    obtain ⟨hqv, hqne⟩ := hv q (List.mem_cons_self ..)
    obtain ⟨t, ht, htc⟩ := sqNorm_spec hqv hqne
    by_cases hpos : t.re > 0
    · refine ⟨(q, t.re) :: nb, by simp [normed, ht, hnb, hpos, bind, Except.bind, pure, Except.pure], ?_, ?_⟩
      · intro qN h
        rcases List.mem_cons.mp h with rfl | h
        · exact List.mem_cons_self ..
        · exact List.mem_cons_of_mem _ (hmem qN h)
      · have hN : ((t.re : Rat) : ℂ) = ip (den k q) (den k q) := by
          rw [← htc]
          apply Complex.ext
          · rw [toC_re]; simp
          · have := ip_self_im (den k q)
            rw [← htc, toC_im] at this
            rw [toC_im, this]; simp
        rw [List.map_cons, proj_cons, ← hproj]
        simp only [projN, List.map_cons, List.sum_cons, hN]
    · refine ⟨nb, by simp [normed, ht, hnb, hpos, bind, Except.bind, pure, Except.pure], ?_, ?_⟩
      · intro qN h; exact List.mem_cons_of_mem _ (hmem qN h)
      · have hz : ip (den k q) (den k q) = 0 := by
          apply ip_self_eq_zero_of_re_le
          rw [← htc, toC_re]
          intro h
          exact hpos (Rat.cast_pos.mp h)
        rw [List.map_cons, proj_cons, hz, div_zero, zero_smul, zero_add, hproj]

theorem twirlStep_spec {k : ℕ} {m q : Lin} (hm : Valid k m) (hq : Valid k q) (hne : q ≠ [])
    (acc : Lin) (N : Rat) :
    ∃ acc', twirlStep m acc (q, N) = .ok acc' ∧
      den k acc' = den k acc + (ip (den k q) (den k m) / (N : ℂ)) • den k q ∧
      (Valid k acc → Valid k acc') := by
  obtain ⟨p, hp, ht⟩ := trace_h_matmul hq hm hne
  by_cases hc : Lin.trace p = GR.zero
  · refine ⟨acc, by simp [twirlStep, hp, hc, bind, Except.bind, pure, Except.pure], ?_, id⟩
    rw [← ht, hc, toC_zero, zero_div, zero_smul, add_zero]
  · refine ⟨Lin.iadd acc (Lin.smul q (Lin.trace p * ⟨1 / N, 0⟩)),
      by simp [twirlStep, hp, hc, bind, Except.bind, pure, Except.pure], ?_,
      fun ha => valid_add ha (valid_smul hq _)⟩
    rw [Lin.iadd, den_add, den_smul, toC_mul_inv, ht]

theorem twirlLoop_spec {k : ℕ} {m : Lin} (hm : Valid k m) (nb : List (Lin × Rat))
    (hv : ∀ qN ∈ nb, Valid k qN.1 ∧ qN.1 ≠ []) (acc : Lin) :
    ∃ r, twirlLoop m acc nb = .ok r ∧ den k r = den k acc + projN k nb (den k m) ∧
      (Valid k acc → Valid k r) := by
  induction nb generalizing acc with
  | nil => exact ⟨acc, rfl, by simp [projN], id⟩
  | cons qN nb ih =>
    obtain ⟨hqv, hqne⟩ := hv qN (List.mem_cons_self ..)
    obtain ⟨acc', hacc, hden, hval⟩ := twirlStep_spec hm hqv hqne acc qN.2
    obtain ⟨r, hr, hrd, hrv⟩ := ih (fun x hx => hv x (List.mem_cons_of_mem _ hx)) acc'
    refine ⟨r, by simp [twirlLoop, hacc, hr, bind, Except.bind], ?_, fun ha => hrv (hval ha)⟩
    rw [hrd, hden]
    simp only [projN, List.map_cons, List.sum_cons]
    abel

theorem den_start (k : ℕ) (m : Lin) :
    den k (Lin.mk [(GR.zero, PS.ident (Lin.getSize m))]) = 0 := by
  rw [den_mk]; simp [term, toC_zero]

/-- **the model's twirl denotes the projection** onto the span of whatever basis
`get_full_quadratic_basis` returned -/
theorem twirl_spec {k : ℕ} {gens : List PS} {basis : List Lin} {m : Lin}
    (hb : getFullQuadraticBasis gens = .ok basis) (hv : ∀ q ∈ basis, Valid k q ∧ q ≠ [])
    (hm : Valid k m) :
    ∃ r, twirl m gens = .ok r ∧ den k r = proj (basis.map (den k)) (den k m) ∧
      (m ≠ [] → Valid k r) := by
  obtain ⟨nb, hnb, hmem, hproj⟩ := normed_spec basis hv (den k m)
  obtain ⟨r, hr, hrd, hrv⟩ := twirlLoop_spec hm nb (fun qN h => hv qN.1 (hmem qN h))
    (Lin.mk [(GR.zero, PS.ident (Lin.getSize m))])
  refine ⟨Lin.simplify r, by simp [twirl, hb, hnb, hr, bind, Except.bind, pure, Except.pure], ?_, ?_⟩
  · rw [den_simplify, hrd, den_start, zero_add, hproj]
  · intro hne
    apply valid_simplify
    apply hrv
    apply valid_mk
    intro t ht
    rw [List.mem_singleton] at ht
    rw [ht, len_ident, getSize_valid hm hne]

end C16
end PauLie
