/-
C13: `average_pauli_weight` (exact part) is the defining sum
`Σ_P |P| · |tr(M(P)A)/2^n|²` over all strings.
-/
import PauLieVerif.Proofs.C13Diag
import Mathlib.Data.Complex.Basic
import Mathlib.Data.Real.Basic

namespace PauLie
namespace Decomp

open Matrix Complex

theorem sum_letter' {β : Type} [AddCommMonoid β] (g : Letter → β) :
    ∑ l, g l = g .I + g .X + g .Y + g .Z := by
  show Finset.sum ⟨{Letter.I, Letter.X, Letter.Y, Letter.Z}, _⟩ g = _
  simp [add_assoc]

theorem sum_cons' {β : Type} [AddCommMonoid β] {n : ℕ} (F : (Fin (n + 1) → Letter) → β) :
    ∑ x, F x = ∑ a : Letter, ∑ x' : Fin n → Letter, F (Fin.cons a x') := by
  rw [← (Fin.consEquiv (fun _ => Letter)).sum_comp, Fintype.sum_prod_type]
  rfl

theorem ofFn_cons {n : ℕ} (l : Letter) (P : Fin n → Letter) :
    List.ofFn (Fin.cons l P : Fin (n + 1) → Letter) = l :: List.ofFn P := by
  rw [List.ofFn_succ]; simp

theorem sumRat_append (a b : List ℚ) : sumRat (a ++ b) = sumRat a + sumRat b := by
  induction a with
  | nil => simp [sumRat]
  | cons x a ih =>
    simp only [sumRat, List.cons_append, List.foldr_cons] at ih ⊢
    rw [ih, add_assoc]

/-- the sum of a vector of length `4^n` is the sum over all strings of the entry at the
string's index (`get_index` enumerates `range(4^n)` exactly once) -/
theorem sumRat_index : ∀ (n : ℕ) (v : List ℚ), v.length = 4 ^ n →
    sumRat v = ∑ P : Fin n → Letter, v.getD (idx4 (List.ofFn P)) 0 := by
  intro n
  induction n with
  | zero =>
    intro v hv
    match v, hv with
    | [a], _ => simp [sumRat, idx4]
  | succ n ih =>
    intro v hv
    obtain ⟨x, y, z, w, rfl, hx, hy, hz, hw⟩ := split4 (4 ^ n) v (by rw [hv, pow_succ]; ring)
    rw [sum_cons', sum_letter']
    simp only [ofFn_cons, idx4, digit, List.length_ofFn]
    have key : ∀ P : Fin n → Letter,
        (x ++ (y ++ (z ++ w))).getD (0 * 4 ^ n + idx4 (List.ofFn P)) 0 = x.getD (idx4 (List.ofFn P)) 0 ∧
        (x ++ (y ++ (z ++ w))).getD (1 * 4 ^ n + idx4 (List.ofFn P)) 0 = y.getD (idx4 (List.ofFn P)) 0 ∧
        (x ++ (y ++ (z ++ w))).getD (2 * 4 ^ n + idx4 (List.ofFn P)) 0 = z.getD (idx4 (List.ofFn P)) 0 ∧
        (x ++ (y ++ (z ++ w))).getD (3 * 4 ^ n + idx4 (List.ofFn P)) 0 = w.getD (idx4 (List.ofFn P)) 0 := by
      intro P
      have hi : idx4 (List.ofFn P) < 4 ^ n := by simpa using idx4_lt (List.ofFn P)
      have := get4 (4 ^ n) (idx4 (List.ofFn P)) x y z w hx hy hz hi
      simp only [List.getD_eq_getElem?_getD, ← List.append_assoc]
      rw [this.1, this.2.1, this.2.2.1, this.2.2.2]
      exact ⟨rfl, rfl, rfl, rfl⟩
    simp only [fun P => (key P).1, fun P => (key P).2.1, fun P => (key P).2.2.1,
      fun P => (key P).2.2.2, ← ih x hx, ← ih y hy, ← ih z hz, ← ih w hw, sumRat_append]
    ring

theorem GR.normSq_cast (g : GR) : ((GR.normSq g : ℚ) : ℝ) = Complex.normSq g.toComplex := by
  have : g.toComplex = ((g.re : ℝ) : ℂ) + ((g.im : ℝ) : ℂ) * I := by
    simp [GR.toComplex]
  rw [this, Complex.normSq_add_mul_I]
  simp only [GR.normSq]
  push_cast
  ring

end Decomp
end PauLie
