/-
Property C02: the loop of the guarded `build` (`MorphG.buildLoopG`) keeps the build-level invariant
`BInv`; at the end, if the ghost is still `ok`, the run is complete and nothing is left in
`unappended`, the canonical vertices generate the closure of the generators and every reported
dependent lies in it (`buildLoopG_sound`, `buildG_sound`).
-/
import PauLieVerif.Proofs.C02Steps
import PauLieVerif.Proofs.C02Erase

namespace PauLie
namespace C02
open Closure Morph MorphG C11L

/-- the state in which the body of the pipeline starts: candidate `l` in hand -/
def startState (st : MG) (l : PS) : MG :=
  { mf := { st.mf with lighting := l },
    ghost := { st.ghost with cand := some l, spare := [], pristine := true, verdict := false } }

theorem pipelineG_eq (l : PS) :
    pipelineG l = ((monadLift (setLighting l) : GM Unit) >>= fun _ => startG l >>= fun _ => pipelineBodyG) := by
  unfold pipelineG pipelineBodyG; rfl

theorem runPipelineG_eq (st : MG) (l : PS) :
    runPipelineG st l = pipelineBodyG.run.run (startState st l) := by
  unfold runPipelineG
  rw [pipelineG_eq, run_bind]
  have h1 : ((monadLift (setLighting l) : GM Unit)).run.run st =
      (.ok (), { mf := { st.mf with lighting := l }, ghost := st.ghost }) := rfl
  rw [h1]
  simp only
  rw [run_bind]
  have h2 : (startG l).run.run ({ mf := { st.mf with lighting := l }, ghost := st.ghost } : MG) =
      (.ok (), startState st l) := rfl
  rw [h2]

theorem runPipelineG_inv (c : Ctx) (hE : FrameLen c) (st : MG) (l : PS) (h : Inv c (startState st l)) :
    Inv c (runPipelineG st l).2 := by
  rw [runPipelineG_eq]; exact pres_pipelineBody (primPres_inv c hE) _ h

/-- the ghost flag never comes back -/
theorem ok_mono_run (st : MG) (l : PS) (h : (runPipelineG st l).2.ghost.ok = true) :
    st.ghost.ok = true := by
  cases hst : st.ghost.ok with
  | true => rfl
  | false =>
    exfalso
    let c : Ctx := { n := 0, G := [], E := [], L0 := [], D0 := [], deps0 := [], K := False }
    have hI : Inv c (startState st l) := fun hok => by
      have : st.ghost.ok = true := hok
      rw [hst] at this; cases this
    have hE : FrameLen c := by
      intro b hb
      have : b ∈ bitsOf ([] : List PS) := hb
      simp at this
    exact (runPipelineG_inv c hE st l hI h).1

/-! ### `list.remove` -/

theorem removeFirst_cons (a : PS) (t : List PS) (p : PS) :
    removeFirst (a :: t) p = if a.beq p then t else a :: removeFirst t p := by
  unfold removeFirst
  rw [List.findIdx?_cons]
  by_cases h : a.beq p = true
  · simp [h]
  · simp only [h, Bool.false_eq_true, if_false]
    cases List.findIdx? (fun x => x.beq p) t with
    | none => rfl
    | some i => rfl

theorem removeFirst_sub (p : PS) : ∀ (u : List PS) (x : V), x ∈ bitsOf (removeFirst u p) → x ∈ bitsOf u
  | [], x, h => by simp [removeFirst] at h
  | a :: t, x, h => by
    rw [removeFirst_cons] at h
    split at h
    · exact List.mem_cons_of_mem _ h
    · rw [bitsOf_cons, List.mem_cons] at h ⊢
      exact h.elim Or.inl (fun h' => Or.inr (removeFirst_sub p t x h'))

theorem removeFirst_sup (p : PS) : ∀ (u : List PS) (x : V), x ∈ bitsOf u →
    x ∈ bitsOf (removeFirst u p) ∨ x = p.bits
  | [], x, h => by simp at h
  | a :: t, x, h => by
    rw [removeFirst_cons]
    rw [bitsOf_cons, List.mem_cons] at h
    split
    · rename_i hb
      rcases h with h | h
      · exact Or.inr (h.trans ((beq_iff _ _).1 hb))
      · exact Or.inl h
    · rw [bitsOf_cons, List.mem_cons]
      rcases h with h | h
      · exact Or.inl (Or.inl h)
      · exact (removeFirst_sup p t x h).elim (fun h' => Or.inl (Or.inr h')) Or.inr

/-! ### the invariant between two pipeline runs -/

structure BFacts (n : Nat) (G : List V) (st : MG) (q u : List PS) : Prop where
  clo : CloEq (bitsOf (st.vertices ++ q ++ u)) G
  len : ∀ b ∈ bitsOf (st.vertices ++ q ++ u), b.length = 2 * n
  deps : ∀ d ∈ st.mf.dependents, Clo G d.bits
  delayed : st.mf.delayed = []
  cand : st.ghost.cand = none
  spare : st.ghost.spare = []

def BInv (n : Nat) (G : List V) (st : MG) (q u : List PS) : Prop :=
  st.ghost.ok = true → BFacts n G st q u

/-- the context of one pipeline run with frame `E` -/
def ctxOf (n : Nat) (G : List V) (st : MG) (E : List PS) (K : Prop) : Ctx :=
  { n := n, G := G, E := E, L0 := st.mf.legs, D0 := st.mf.delayed, deps0 := st.mf.dependents, K := K }

/-- the invariant of the run holds at its start, for every frame `E` that together with the
candidate has the members of the old queue and `unappended` -/
theorem inv_start {n : Nat} {G : List V} {st : MG} {l : PS} {q u E : List PS} {K : Prop}
    (hf : BFacts n G st (l :: q) u) (hK : K)
    (hE : ∀ g, (g = l.bits ∨ g ∈ bitsOf E) ↔ (g = l.bits ∨ g ∈ bitsOf q ∨ g ∈ bitsOf u)) :
    Inv (ctxOf n G st E K) (startState st l) := by
  intro _
  have hpool : ∀ g, g ∈ bitsOf (startState st l).pool ↔ (g ∈ bitsOf st.vertices ∨ g = l.bits) := by
    intro g
    simp [MG.pool, MG.vertices, startState, hf.delayed]
  refine ⟨hK, ?_, ?_, fun _ => ⟨rfl, rfl⟩, rfl⟩
  · refine CloEq.trans (cloEq_of_same_members ?_) hf.clo
    intro g
    have := hE g
    rw [bitsOf_append, List.mem_append, hpool g]
    simp only [bitsOf_append, bitsOf_cons, List.mem_append, List.mem_cons]
    show ((g ∈ bitsOf st.vertices ∨ g = l.bits) ∨ g ∈ bitsOf E) ↔ _
    tauto
  · intro g hg
    apply hf.len g
    have := (hpool g).1 hg
    simp only [bitsOf_append, bitsOf_cons, List.mem_append, List.mem_cons]
    tauto

theorem frameLen_of {n : Nat} {G : List V} {st : MG} {l : PS} {q u E : List PS} {K : Prop}
    (hf : BFacts n G st (l :: q) u)
    (hE : ∀ g, g ∈ bitsOf E → (g = l.bits ∨ g ∈ bitsOf q ∨ g ∈ bitsOf u)) :
    FrameLen (ctxOf n G st E K) := by
  intro g hg
  apply hf.len g
  have := hE g hg
  simp only [bitsOf_append, bitsOf_cons, List.mem_append, List.mem_cons]
  tauto

theorem gSettle_ok {s : MG} (h : (gSettle s).ghost.ok = true) :
    s.ghost.ok = true ∧ s.ghost.cand = none ∧
      ∀ g ∈ bitsOf s.ghost.spare, g ∈ bitsOf (s.vertices ++ s.mf.delayed) := by
  unfold gSettle at h
  simp only [check_ok, Bool.and_eq_true, List.all_eq_true, Option.isNone_iff_eq_none] at h
  refine ⟨h.1.1, h.1.2, ?_⟩
  intro g hg
  obtain ⟨w, hw, rfl⟩ := mem_bitsOf.1 hg
  exact (mem_iff _ _).1 (h.2 w hw)

/-- after a run that ended with `AppendedException` / `DependentException` and the ghost settled -/
theorem facts_after_settle {n : Nat} {G : List V} {st' : MG} {q u : List PS} {c : Ctx}
    (hc : c.n = n ∧ c.G = G ∧ c.E = q ++ u) (hI : Inv c st')
    (hq : ∀ b ∈ bitsOf (q ++ u), b.length = 2 * n)
    (hok : (gSettle st').ghost.ok = true) (deps : List PS) (hdeps : ∀ d ∈ deps, Clo G d.bits) :
    BFacts n G { mf := { st'.mf with delayed := [], dependents := deps }, ghost := (gSettle st').ghost }
      (st'.mf.delayed ++ q) u := by
  obtain ⟨h0, hcand, hsp⟩ := gSettle_ok hok
  obtain ⟨_, a, b, _, _⟩ := hI h0
  obtain ⟨hn, hG, hE⟩ := hc
  rw [hn] at b
  rw [hG, hE] at a
  have hpool : ∀ g, g ∈ bitsOf st'.pool ↔ (g ∈ bitsOf st'.vertices ∨ g ∈ bitsOf st'.mf.delayed) := by
    intro g
    have := hsp g
    simp only [MG.pool, hcand, bitsOf_append, List.mem_append, Option.toList_none, bitsOf_nil,
      List.not_mem_nil, or_false] at this ⊢
    tauto
  refine ⟨?_, ?_, hdeps, rfl, rfl, rfl⟩
  · refine CloEq.trans (cloEq_of_same_members ?_) a
    intro g
    have := hpool g
    simp only [bitsOf_append, List.mem_append] at this ⊢
    show ((g ∈ bitsOf st'.vertices ∨ g ∈ bitsOf st'.mf.delayed ∨ g ∈ bitsOf q) ∨ g ∈ bitsOf u) ↔ _
    tauto
  · intro g hg
    have h1 := hpool g
    have h2 := hq g
    simp only [bitsOf_append, List.mem_append] at hg h2
    have hg' : (g ∈ bitsOf st'.vertices ∨ g ∈ bitsOf st'.mf.delayed ∨ g ∈ bitsOf q) ∨ g ∈ bitsOf u := hg
    rcases hg' with (h | h | h) | h
    · exact b g (h1.2 (Or.inl h))
    · exact b g (h1.2 (Or.inr h))
    · exact h2 (Or.inl h)
    · exact h2 (Or.inr h)

theorem unapp_members (u : List PS) (l : PS) (g : V) :
    (g = l.bits ∨ g ∈ bitsOf (if mem u l then removeFirst u l else u)) ↔ (g = l.bits ∨ g ∈ bitsOf u) := by
  split
  · rename_i hm
    constructor
    · rintro (h | h)
      · exact Or.inl h
      · exact Or.inr (removeFirst_sub l u g h)
    · rintro (h | h)
      · exact Or.inl h
      · exact (removeFirst_sup l u g h).elim Or.inr Or.inl
  · exact Iff.rfl

/-- the run of the pipeline on `l` from a state satisfying the build invariant: `Inv` at its end,
for the frame `E` -/
theorem inv_after_run {n : Nat} {G : List V} {st st' : MG} {l : PS} {q u E : List PS}
    {r : Except Exc Unit} (hrun : runPipelineG st l = (r, st')) (hf : BFacts n G st (l :: q) u)
    (hE : ∀ g, (g = l.bits ∨ g ∈ bitsOf E) ↔ (g = l.bits ∨ g ∈ bitsOf q ∨ g ∈ bitsOf u)) :
    Inv (ctxOf n G st E True) st' := by
  have := runPipelineG_inv (ctxOf n G st E True)
    (frameLen_of hf (fun g hg => (hE g).1 (Or.inr hg))) st l (inv_start hf trivial hE)
  rw [hrun] at this
  exact this

theorem gRequeue_ok {s : MG} (h : (gRequeue s).ghost.ok = true) :
    s.ghost.ok = true ∧ s.ghost.pristine = true := by
  unfold gRequeue at h
  simpa only [check_ok, Bool.and_eq_true] using h

/-- after a run that ended with `NotConnectedException` -/
theorem facts_after_requeue {n : Nat} {G : List V} {st st' : MG} {l : PS} {q u q' u' : List PS}
    (hf : BFacts n G st (l :: q) u) (hI : Inv (ctxOf n G st (q ++ u) True) st')
    (hok : (gRequeue st').ghost.ok = true)
    (hm : ∀ g, (g ∈ bitsOf q' ∨ g ∈ bitsOf u') ↔ (g = l.bits ∨ g ∈ bitsOf q ∨ g ∈ bitsOf u)) :
    BFacts n G { mf := { st'.mf with delayed := [] }, ghost := (gRequeue st').ghost }
      (st'.mf.delayed ++ q') u' := by
  obtain ⟨h0, hpr⟩ := gRequeue_ok hok
  obtain ⟨_, _, _, hp, hd⟩ := hI h0
  obtain ⟨hl, hdel⟩ := hp hpr
  have hl' : st'.mf.legs = st.mf.legs := hl
  have hdel' : st'.mf.delayed = [] := by rw [hdel]; exact hf.delayed
  have hd' : st'.mf.dependents = st.mf.dependents := hd
  have hmem : ∀ g, g ∈ bitsOf (MG.vertices { mf := { st'.mf with delayed := [] }, ghost := (gRequeue st').ghost }
      ++ (st'.mf.delayed ++ q') ++ u') ↔ g ∈ bitsOf (st.vertices ++ (l :: q) ++ u) := by
    intro g
    have := hm g
    simp only [MG.vertices, hl', hdel', bitsOf_append, bitsOf_cons, List.mem_append, List.mem_cons,
      List.nil_append]
    tauto
  refine ⟨?_, ?_, ?_, rfl, rfl, rfl⟩
  · exact CloEq.trans (cloEq_of_same_members hmem) hf.clo
  · intro g hg
    exact hf.len g ((hmem g).1 hg)
  · intro d hdm
    have : d ∈ st'.mf.dependents := hdm
    rw [hd'] at this
    exact hf.deps d this

/-- the loop of the guarded `build` -/
theorem buildLoopG_sound (n : Nat) (G : List V) :
    ∀ (fuel : Nat) (st : MG) (q u : List PS) (t : List String), BInv n G st q u →
      (buildLoopG fuel st q u t).guardsOk = true → (buildLoopG fuel st q u t).res.complete = true →
      (buildLoopG fuel st q u t).res.unappended = [] →
      CloEq (bitsOf (buildLoopG fuel st q u t).res.legs.flatten) G ∧
        ∀ d ∈ (buildLoopG fuel st q u t).res.dependents, Clo G d.bits
  | 0, st, [], u, t => by
    intro hB h1 _ h3
    simp only [buildLoopG, finish] at h1 h3 ⊢
    have hf := hB h1
    subst h3
    refine ⟨?_, hf.deps⟩
    have := hf.clo
    simpa [MG.vertices] using this
  | _ + 1, st, [], u, t => by
    intro hB h1 _ h3
    simp only [buildLoopG, finish] at h1 h3 ⊢
    have hf := hB h1
    subst h3
    refine ⟨?_, hf.deps⟩
    have := hf.clo
    simpa [MG.vertices] using this
  | 0, st, _ :: _, u, t => by
    intro _ _ h2 _
    simp [buildLoopG, finish] at h2
  | fuel + 1, st, l :: q, u, t => by
    intro hB
    have hmono := ok_mono_run st l
    rw [buildLoopG]
    rcases hrun : runPipelineG st l with ⟨r, st'⟩
    rw [hrun] at hmono
    have hmono' : st'.ghost.ok = true → st.ghost.ok = true := hmono
    cases r with
    | ok a =>
      cases a
      simp only
      refine buildLoopG_sound n G fuel _ _ _ _ ?_
      intro h
      simp [gFail, check_ok] at h
    | error e =>
      cases e with
      | appended =>
        simp only [restoreG]
        refine buildLoopG_sound n G fuel _ _ _ _ ?_
        intro hok3
        have hok3' : (gSettle st').ghost.ok = true := hok3
        have hf := hB (hmono' (gSettle_ok hok3').1)
        have hE : ∀ g, (g = l.bits ∨ g ∈ bitsOf (q ++ (if mem u l then removeFirst u l else u))) ↔
            (g = l.bits ∨ g ∈ bitsOf q ∨ g ∈ bitsOf u) := by
          intro g
          have := unapp_members u l g
          simp only [bitsOf_append, List.mem_append]
          tauto
        have hI := inv_after_run hrun hf hE
        have hd : st'.mf.dependents = st.mf.dependents := (hI (gSettle_ok hok3').1).2.2.2.2
        exact facts_after_settle (c := ctxOf n G st _ True) ⟨rfl, rfl, rfl⟩ hI
          (fun b hb => frameLen_of (K := True) hf (fun g hg => (hE g).1 (Or.inr hg)) b hb) hok3'
          st'.mf.dependents (by rw [hd]; exact hf.deps)
      | dependent =>
        simp only [restoreG]
        refine buildLoopG_sound n G fuel _ _ _ _ ?_
        intro hok3
        have hok3' : (gSettle st').ghost.ok = true := hok3
        have hf := hB (hmono' (gSettle_ok hok3').1)
        have hE : ∀ g, (g = l.bits ∨ g ∈ bitsOf (q ++ u)) ↔ (g = l.bits ∨ g ∈ bitsOf q ∨ g ∈ bitsOf u) := by
          intro g
          simp only [bitsOf_append, List.mem_append]
        have hI := inv_after_run hrun hf hE
        have hd : st'.mf.dependents = st.mf.dependents := (hI (gSettle_ok hok3').1).2.2.2.2
        have hl : Clo G l.bits := (hf.clo l.bits).1 (Clo.base (by simp))
        exact facts_after_settle (c := ctxOf n G st _ True) ⟨rfl, rfl, rfl⟩ hI
          (fun b hb => frameLen_of (K := True) hf (fun g hg => (hE g).1 (Or.inr hg)) b hb) hok3'
          (st'.mf.dependents ++ [l]) (by
            intro d hdm
            rcases List.mem_append.1 hdm with h | h
            · rw [hd] at h; exact hf.deps d h
            · rw [List.mem_singleton] at h; subst h; exact hl)
      | notConnected =>
        simp only [restoreG]
        have hE : ∀ g, (g = l.bits ∨ g ∈ bitsOf (q ++ u)) ↔ (g = l.bits ∨ g ∈ bitsOf q ∨ g ∈ bitsOf u) := by
          intro g
          simp only [bitsOf_append, List.mem_append]
        split
        · refine buildLoopG_sound n G fuel _ _ _ _ ?_
          intro hok3
          have hok3' : (gRequeue st').ghost.ok = true := hok3
          have hf := hB (hmono' (gRequeue_ok hok3').1)
          have := facts_after_requeue (q' := q ++ [l]) (u' := u ++ [l]) hf (inv_after_run hrun hf hE) hok3' (by
            intro g
            simp only [bitsOf_append, bitsOf_cons, bitsOf_nil, List.mem_append, List.mem_cons, List.not_mem_nil,
              or_false]
            tauto)
          rw [← List.append_assoc] at this
          exact this
        · rename_i hnm
          refine buildLoopG_sound n G fuel _ _ _ _ ?_
          intro hok3
          have hok3' : (gRequeue st').ghost.ok = true := hok3
          have hf := hB (hmono' (gRequeue_ok hok3').1)
          have hlu : l.bits ∈ bitsOf u := by
            apply (mem_iff u l).1
            simpa using hnm
          exact facts_after_requeue (q' := q) (u' := u) hf (inv_after_run hrun hf hE) hok3' (by
            intro g
            constructor
            · tauto
            · rintro (h | h | h)
              · subst h; exact Or.inr hlu
              · exact Or.inl h
              · exact Or.inr h)
      | outOfFuel =>
        intro _ h2 _
        simp [finish] at h2
      | checkAppended =>
        simp only [restoreG]
        refine buildLoopG_sound n G fuel _ _ _ _ ?_
        intro h
        simp [gFail, check_ok] at h
      | morphErr =>
        simp only [restoreG]
        refine buildLoopG_sound n G fuel _ _ _ _ ?_
        intro h
        simp [gFail, check_ok] at h
      | indexErr =>
        simp only [restoreG]
        refine buildLoopG_sound n G fuel _ _ _ _ ?_
        intro h
        simp [gFail, check_ok] at h
      | py e =>
        simp only [restoreG]
        refine buildLoopG_sound n G fuel _ _ _ _ ?_
        intro h
        simp [gFail, check_ok] at h

/-- the guarded `build`: if every certificate check succeeded, the run is complete and no generator
was given up, the canonical vertices generate the closure of the generators and the reported
dependents lie in it -/
theorem buildG_sound {n : Nat} {gens : List PS} {rg : BuildResultG}
    (hlen : ∀ g ∈ gens, g.bits.length = 2 * n) (h : buildG gens = .ok rg)
    (hok : rg.guardsOk = true) (hc : rg.res.complete = true) (hu : rg.res.unappended = []) :
    CloEq (bitsOf rg.res.legs.flatten) (bitsOf gens) ∧ ∀ d ∈ rg.res.dependents, Clo (bitsOf gens) d.bits := by
  unfold buildG at h
  by_cases he : gens.isEmpty = true
  · simp only [he, if_true, pure, Except.pure, Except.ok.injEq] at h
    subst h
    have : gens = [] := List.isEmpty_iff.1 he
    subst this
    exact ⟨CloEq.refl _, fun d hd => by simp at hd⟩
  · simp only [he, Bool.false_eq_true, if_false] at h
    cases hq : getQueue gens with
    | error e => rw [hq] at h; simp [bind, Except.bind] at h
    | ok qo =>
      rw [hq] at h
      cases qo with
      | none =>
        simp only [bind, Except.bind, pure, Except.pure, Except.ok.injEq] at h
        subst h
        simp at hc
      | some queue =>
        simp only [bind, Except.bind, pure, Except.pure, Except.ok.injEq] at h
        subst h
        refine buildLoopG_sound n (bitsOf gens) _ _ _ _ _ ?_ hok hc hu
        intro hok0
        have hsame : sameMembers queue gens = true := by
          have : (({} : Ghost).check (sameMembers queue gens) "queue").ok = true := hok0
          simpa [check_ok] using this
        have hm := sameMembers_iff hsame
        have hmem : ∀ g, g ∈ bitsOf (MG.vertices { ghost := ({} : Ghost).check (sameMembers queue gens) "queue" }
            ++ queue ++ []) ↔ g ∈ bitsOf gens := by
          intro g
          simp only [MG.vertices, List.append_nil]
          exact hm g
        refine ⟨cloEq_of_same_members hmem, ?_, ?_, rfl, rfl, rfl⟩
        · intro g hg
          obtain ⟨w, hw, rfl⟩ := mem_bitsOf.1 ((hmem g).1 hg)
          exact hlen w hw
        · intro d hd
          simp at hd

/-- every certificate check of the guarded run on `gens` succeeded (executable: command `guards`) -/
def guardsHold (gens : List PS) : Bool :=
  match buildG gens with
  | .ok rg => rg.guardsOk
  | .error _ => false

/-- `buildG_sound` in terms of the plain `build` -/
theorem build_sound {n : Nat} {gens : List PS} {r : BuildResult}
    (hlen : ∀ g ∈ gens, g.bits.length = 2 * n) (h : build gens = .ok r)
    (hg : guardsHold gens = true) (hc : r.complete = true) (hu : r.unappended = []) :
    CloEq (bitsOf r.legs.flatten) (bitsOf gens) ∧ ∀ d ∈ r.dependents, Clo (bitsOf gens) d.bits := by
  unfold guardsHold at hg
  cases hb : buildG gens with
  | error e => rw [hb] at hg; cases hg
  | ok rg =>
    rw [hb] at hg
    have := buildG_ok_build hb
    rw [h] at this
    injection this with this
    subst this
    exact buildG_sound hlen hb hg hc hu

end C02
end PauLie
