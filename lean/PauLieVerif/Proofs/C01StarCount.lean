/-
C01, pure single-leg star, part 2: enumeration and size of the closure, centre, and the block
structure (the anticommutation graph of the closure is complete tripartite with three classes of
2^(k-1) strings each; the classes are the cosets of the group of even products of leaves, which
commutes with everything: 2^(k-1) copies of so(3)).  Core Lean only.
-/
import PauLieVerif.Proofs.C01Star

namespace PauLie
namespace C01Star
open Closure

/-! ### all masks of a given length and parity -/

/-- all masks of length `k` and parity `p` -/
def pmasks : Bool → Nat → List (List Bool)
  | p, 0 => if p then [] else [[]]
  | p, k + 1 => (pmasks p k).map (fun b => false :: b) ++ (pmasks (!p) k).map (fun b => true :: b)

theorem mem_pmasks : ∀ (k : Nat) (p : Bool) (b : List Bool),
    b ∈ pmasks p k ↔ b.length = k ∧ par b = p
  | 0, p, b => by
    cases p
    · simp [pmasks]; intro h; subst h; rfl
    · simp [pmasks]; intro h; subst h; rfl
  | k + 1, p, b => by
    simp only [pmasks, List.mem_append, List.mem_map, mem_pmasks k]
    constructor
    · rintro (⟨a, ⟨h1, h2⟩, rfl⟩ | ⟨a, ⟨h1, h2⟩, rfl⟩)
      · simp [h1, h2]
      · simp [h1, h2]
    · rintro ⟨h1, h2⟩
      match b, h1, h2 with
      | false :: a, h1, h2 => exact Or.inl ⟨a, ⟨by simpa using h1, by simpa using h2⟩, rfl⟩
      | true :: a, h1, h2 =>
        refine Or.inr ⟨a, ⟨by simpa using h1, ?_⟩, rfl⟩
        rw [← h2]; simp

theorem nodup_map_cons (t : Bool) {l : List (List Bool)} (h : l.Nodup) :
    (l.map (fun b => t :: b)).Nodup := by
  rw [List.Nodup, List.pairwise_map]
  exact h.imp (fun hne heq => hne (by simpa using heq))

theorem nodup_pmasks : ∀ (k : Nat) (p : Bool), (pmasks p k).Nodup
  | 0, p => by cases p <;> simp [pmasks]
  | k + 1, p => by
    rw [pmasks, List.nodup_append]
    refine ⟨nodup_map_cons _ (nodup_pmasks k p), nodup_map_cons _ (nodup_pmasks k (!p)), ?_⟩
    intro a ha b hb hab
    obtain ⟨a', _, rfl⟩ := List.mem_map.1 ha
    obtain ⟨b', _, rfl⟩ := List.mem_map.1 hb
    simp at hab

theorem length_pmasks_add : ∀ (k : Nat), (pmasks false k).length + (pmasks true k).length = 2 ^ k
  | 0 => by simp [pmasks]
  | k + 1 => by
    have := length_pmasks_add k
    simp only [pmasks, List.length_append, List.length_map, Bool.not_false, Bool.not_true]
    rw [Nat.pow_succ]; omega

theorem length_pmasks_succ (p : Bool) (k : Nat) : (pmasks p (k + 1)).length = 2 ^ k := by
  have := length_pmasks_add k
  cases p <;> simp only [pmasks, List.length_append, List.length_map, Bool.not_false, Bool.not_true] <;> omega

/-- all masks of length `k` -/
def allMasks (k : Nat) : List (List Bool) := pmasks false k ++ pmasks true k

theorem mem_allMasks {k : Nat} {b : List Bool} : b ∈ allMasks k ↔ b.length = k := by
  simp only [allMasks, List.mem_append, mem_pmasks]
  constructor
  · rintro (h | h) <;> exact h.1
  · intro h; cases hp : par b
    · exact Or.inl ⟨h, rfl⟩
    · exact Or.inr ⟨h, rfl⟩

theorem nodup_allMasks (k : Nat) : (allMasks k).Nodup := by
  rw [allMasks, List.nodup_append]
  refine ⟨nodup_pmasks k false, nodup_pmasks k true, ?_⟩
  intro a ha b hb hab
  subst hab
  have h1 := ((mem_pmasks k false a).1 ha).2
  have h2 := ((mem_pmasks k true a).1 hb).2
  rw [h1] at h2; cases h2

theorem length_allMasks (k : Nat) : (allMasks k).length = 2 ^ k := by
  rw [allMasks, List.length_append, length_pmasks_add]

theorem nodup_map_of_inj_on {α β : Type} {f : α → β} {l : List α} (hnd : l.Nodup)
    (hinj : ∀ a ∈ l, ∀ b ∈ l, f a = f b → a = b) : (l.map f).Nodup := by
  rw [List.Nodup, List.pairwise_map]
  exact List.Pairwise.imp_of_mem (fun ha hb hne heq => hne (hinj _ ha _ hb heq)) hnd

/-! ### the closure as a duplicate-free list -/

/-- the strings `c + ΣS` for the selections of a given parity -/
def listA (m : Nat) (c : V) (ls : List V) (p : Bool) : List V :=
  (pmasks p ls.length).map (fun b => add c (msum m b ls))

/-- the strings `ΣS`, `|S|` odd -/
def listB (m : Nat) (ls : List V) : List V :=
  (pmasks true ls.length).map (fun b => msum m b ls)

/-- the closure of the star, enumerated: even class, odd class, leaf class -/
def starList (m : Nat) (c : V) (ls : List V) : List V :=
  listA m c ls false ++ (listA m c ls true ++ listB m ls)

theorem mem_listA {m : Nat} {c : V} {ls : List V} {p : Bool} {x : V} :
    x ∈ listA m c ls p ↔ ∃ b : List Bool, b.length = ls.length ∧ par b = p ∧ x = add c (msum m b ls) := by
  simp only [listA, List.mem_map, mem_pmasks]
  constructor
  · rintro ⟨b, ⟨h1, h2⟩, rfl⟩; exact ⟨b, h1, h2, rfl⟩
  · rintro ⟨b, h1, h2, rfl⟩; exact ⟨b, ⟨h1, h2⟩, rfl⟩

theorem mem_listB {m : Nat} {ls : List V} {x : V} : x ∈ listB m ls ↔ InB m ls x := by
  simp only [listB, List.mem_map, mem_pmasks, InB]
  constructor
  · rintro ⟨b, ⟨h1, h2⟩, rfl⟩; exact ⟨b, h1, h2, rfl⟩
  · rintro ⟨b, h1, h2, rfl⟩; exact ⟨b, ⟨h1, h2⟩, rfl⟩

theorem inA_iff {m : Nat} {c : V} {ls : List V} {x : V} :
    InA m c ls x ↔ x ∈ listA m c ls false ∨ x ∈ listA m c ls true := by
  simp only [mem_listA, InA]
  constructor
  · rintro ⟨b, h1, rfl⟩
    cases hp : par b
    · exact Or.inl ⟨b, h1, hp, rfl⟩
    · exact Or.inr ⟨b, h1, hp, rfl⟩
  · rintro (⟨b, h1, _, rfl⟩ | ⟨b, h1, _, rfl⟩) <;> exact ⟨b, h1, rfl⟩

theorem mem_starList {m : Nat} {c : V} {ls : List V} {x : V} :
    x ∈ starList m c ls ↔ InA m c ls x ∨ InB m ls x := by
  rw [starList, List.mem_append, List.mem_append, inA_iff, mem_listB, or_assoc]

namespace Star
variable {m : Nat} {c : V} {ls : List V}

theorem nodup_listA (h : Star m c ls) (p : Bool) : (listA m c ls p).Nodup :=
  nodup_map_of_inj_on (nodup_pmasks _ _) (fun _ ha _ hb e =>
    h.injA ((mem_pmasks _ _ _).1 ha).1 ((mem_pmasks _ _ _).1 hb).1 e)

theorem nodup_listB (h : Star m c ls) : (listB m ls).Nodup :=
  nodup_map_of_inj_on (nodup_pmasks _ _) (fun _ ha _ hb e =>
    h.injB ((mem_pmasks _ _ _).1 ha).1 ((mem_pmasks _ _ _).1 hb).1 e)

theorem nodup_starList (h : Star m c ls) : (starList m c ls).Nodup := by
  rw [starList, List.nodup_append]
  refine ⟨h.nodup_listA false, ?_, ?_⟩
  · rw [List.nodup_append]
    refine ⟨h.nodup_listA true, h.nodup_listB, ?_⟩
    intro x hx y hy hxy
    subst hxy
    exact h.disjoint (inA_iff.2 (Or.inr hx)) (mem_listB.1 hy)
  · intro x hx y hy hxy
    subst hxy
    rcases List.mem_append.1 hy with hy | hy
    · obtain ⟨a, ha, pa, e1⟩ := mem_listA.1 hx
      obtain ⟨b, hb, pb, e2⟩ := mem_listA.1 hy
      have := h.injA ha hb (e1.symm.trans e2)
      subst this
      rw [pa] at pb; cases pb
    · exact h.disjoint (inA_iff.2 (Or.inl hx)) (mem_listB.1 hy)

theorem length_listA (p : Bool) (k : Nat) (hk : ls.length = k + 1) : (listA m c ls p).length = 2 ^ k := by
  rw [listA, List.length_map, hk, length_pmasks_succ]

theorem length_listB (k : Nat) (hk : ls.length = k + 1) : (listB m ls).length = 2 ^ k := by
  rw [listB, List.length_map, hk, length_pmasks_succ]

theorem length_starList (k : Nat) (hk : ls.length = k + 1) : (starList m c ls).length = 3 * 2 ^ k := by
  rw [starList, List.length_append, List.length_append, length_listA false k hk,
    length_listA true k hk, length_listB k hk]
  omega

/-- the enumeration is the closure -/
theorem mem_starList_iff_clo (h : Star m c ls) (x : V) : x ∈ starList m c ls ↔ Clo (c :: ls) x := by
  rw [mem_starList, h.clo_star]

/-- **size of the closure of K_{1,k}, k ≥ 1: 3·2^(k-1) = dim (2^(k-1)·so(3))** -/
theorem card_clo {n : Nat} (h : Star (2 * n) c ls) (k : Nat) (hk : ls.length = k + 1) :
    (closureList (c :: ls)).1.length = 3 * 2 ^ k := by
  rw [← clo_card h.uniform h.nodup_starList h.mem_starList_iff_clo, length_starList k hk]

/-! ### centre and block structure -/

/-- signature of a string against the star: (anticommutes with the centre, with the leaf `l`) -/
def sig (c l x : V) : Bool × Bool := (omega x c, omega x l)

theorem sig_A (h : Star m c ls) {l : V} (hl : l ∈ ls) (a : List Bool) (ha : a.length = ls.length) :
    sig c l (add c (msum m a ls)) = (par a, true) := by
  have la := length_msum (m := m) a ls h.ll
  simp only [sig]
  rw [omega_add_left _ _ _ (h.lc.trans la.symm), omega_add_left _ _ _ (h.lc.trans la.symm), omega_self,
    omega_comm (msum m a ls) c, h.omega_c_msum a ha, h.anti l hl, omega_comm (msum m a ls) l,
    omega_msum_comm l a ls h.ll (fun v hv => h.comm l hl v hv)]
  simp

theorem sig_B (h : Star m c ls) {l : V} (hl : l ∈ ls) (b : List Bool) (hb : b.length = ls.length)
    (pb : par b = true) : sig c l (msum m b ls) = (true, false) := by
  simp only [sig]
  rw [omega_comm (msum m b ls) c, h.omega_c_msum b hb, pb, omega_comm (msum m b ls) l,
    omega_msum_comm l b ls h.ll (fun v hv => h.comm l hl v hv)]

/-- **complete tripartite**: two members of the closure anticommute exactly when their signatures
differ -/
theorem omega_iff_sig (h : Star m c ls) {l : V} (hl : l ∈ ls) {x y : V}
    (hx : Clo (c :: ls) x) (hy : Clo (c :: ls) y) :
    omega x y = true ↔ sig c l x ≠ sig c l y := by
  rcases (h.clo_star x).1 hx with ⟨a, ha, rfl⟩ | ⟨a, ha, pa, rfl⟩ <;>
    rcases (h.clo_star y).1 hy with ⟨b, hb, rfl⟩ | ⟨b, hb, pb, rfl⟩
  · rw [h.omega_AA a b ha hb, h.sig_A hl a ha, h.sig_A hl b hb]
    cases par a <;> cases par b <;> simp
  · rw [h.omega_AB a b hb, h.sig_A hl a ha, h.sig_B hl b hb pb, pb]; simp
  · rw [omega_comm, h.omega_AB b a ha, h.sig_A hl b hb, h.sig_B hl a ha pa, pa]; simp
  · rw [h.omega_msum_msum, h.sig_B hl a ha pa, h.sig_B hl b hb pb]; simp

/-- the three signatures that occur -/
theorem sig_values (h : Star m c ls) {l : V} (hl : l ∈ ls) {x : V} (hx : Clo (c :: ls) x) :
    sig c l x = (false, true) ∨ sig c l x = (true, true) ∨ sig c l x = (true, false) := by
  rcases (h.clo_star x).1 hx with ⟨a, ha, rfl⟩ | ⟨a, ha, pa, rfl⟩
  · rw [h.sig_A hl a ha]; cases par a <;> simp
  · rw [h.sig_B hl a ha pa]; simp

/-- the classes are the cosets of the even products of leaves (which commute with the whole
closure): equal signature iff the two strings differ by an even product of leaves -/
theorem sig_eq_iff (h : Star m c ls) {l : V} (hl : l ∈ ls) {x y : V}
    (hx : Clo (c :: ls) x) (hy : Clo (c :: ls) y) :
    sig c l x = sig c l y ↔
      ∃ e : List Bool, e.length = ls.length ∧ par e = false ∧ y = add x (msum m e ls) := by
  constructor
  · intro hs
    rcases (h.clo_star x).1 hx with ⟨a, ha, rfl⟩ | ⟨a, ha, pa, rfl⟩ <;>
      rcases (h.clo_star y).1 hy with ⟨b, hb, rfl⟩ | ⟨b, hb, pb, rfl⟩
    · rw [h.sig_A hl a ha, h.sig_A hl b hb] at hs
      refine ⟨mxor a b, by rw [length_mxor a b (ha.trans hb.symm), ha], ?_, ?_⟩
      · rw [par_mxor a b (ha.trans hb.symm)]; simp at hs; rw [hs]; simp
      · rw [msum_mxor a b ls h.ll ha hb, add_assoc,
          add_add_cancel_left _ _ ((length_msum a ls h.ll).trans (length_msum b ls h.ll).symm)]
    · rw [h.sig_A hl a ha, h.sig_B hl b hb pb] at hs; simp at hs
    · rw [h.sig_A hl b hb, h.sig_B hl a ha pa] at hs; simp at hs
    · refine ⟨mxor a b, by rw [length_mxor a b (ha.trans hb.symm), ha], ?_, ?_⟩
      · rw [par_mxor a b (ha.trans hb.symm), pa, pb]; rfl
      · rw [msum_mxor a b ls h.ll ha hb,
          add_add_cancel_left _ _ ((length_msum a ls h.ll).trans (length_msum b ls h.ll).symm)]
  · rintro ⟨e, he, pe, rfl⟩
    have le := length_msum (m := m) e ls h.ll
    have lxm : x.length = m := by
      rcases (h.clo_star x).1 hx with ⟨a, ha, rfl⟩ | ⟨a, ha, pa, rfl⟩
      · exact length_add_eq h.lc (length_msum a ls h.ll)
      · exact length_msum a ls h.ll
    simp only [sig]
    rw [omega_add_left _ _ _ (lxm.trans le.symm), omega_add_left _ _ _ (lxm.trans le.symm),
      omega_comm (msum m e ls) c, h.omega_c_msum e he, pe, omega_comm (msum m e ls) l,
      omega_msum_comm l e ls h.ll (fun v hv => h.comm l hl v hv)]
    simp

/-- an even product of leaves commutes with the whole closure, and translating by it keeps the
closure -/
theorem even_central (h : Star m c ls) (e : List Bool) (he : e.length = ls.length)
    (pe : par e = false) {x : V} (hx : Clo (c :: ls) x) :
    omega x (msum m e ls) = false ∧ Clo (c :: ls) (add x (msum m e ls)) := by
  rcases (h.clo_star x).1 hx with ⟨a, ha, rfl⟩ | ⟨a, ha, pa, rfl⟩
  · refine ⟨by rw [h.omega_AB a e he, pe], ?_⟩
    rw [add_assoc, ← msum_mxor a e ls h.ll ha he]
    exact h.clo_A _
  · refine ⟨h.omega_msum_msum a e, ?_⟩
    rw [← msum_mxor a e ls h.ll ha he]
    exact h.clo_B _ (by rw [length_mxor a e (ha.trans he.symm), ha])
      (by rw [par_mxor a e (ha.trans he.symm), pa, pe]; rfl)

/-- **the centre of the closure is empty** (k ≥ 1): every member anticommutes with a member -/
theorem centre_empty (h : Star m c ls) {l : V} (hl : l ∈ ls) {x : V} (hx : Clo (c :: ls) x) :
    ∃ y, Clo (c :: ls) y ∧ omega x y = true := by
  rcases (h.clo_star x).1 hx with ⟨a, ha, rfl⟩ | ⟨a, ha, pa, rfl⟩
  · refine ⟨l, Clo.base (by simp [hl]), ?_⟩
    have := h.sig_A hl a ha
    simp only [sig, Prod.mk.injEq] at this
    exact this.2
  · refine ⟨c, Clo.base (by simp), ?_⟩
    rw [omega_comm, h.omega_c_msum a ha, pa]

end Star
end C01Star
end PauLie
