/-
C13: the row/column numbering `num` used by `matOf` is the position of the index in
`allBits n`, the row/column order of the model's `denseMatrix` — which is the order
the harness of C04 compares entry by entry with numpy's `get_matrix()` (`np.kron`).
-/
import PauLieVerif.Proofs.C13Trace

namespace PauLie
namespace Decomp

theorem length_allBits : ∀ n : ℕ, (allBits n).length = 2 ^ n
  | 0 => rfl
  | n + 1 => by simp [allBits, length_allBits n, pow_succ]; ring

/-- the bit list of an index -/
def bitsOf {n : ℕ} (r : Fin n → Fin 2) : List Bool := List.ofFn fun i => decide (r i = 1)

theorem idxOf_bitsOf {n : ℕ} (r : Fin n → Fin 2) : idxOf n (bitsOf r) = r := by
  funext i
  have : ∀ x : Fin 2, bit (decide (x = 1)) = x := by decide
  simp [idxOf, bitsOf, List.getD_eq_getElem?_getD, this]

/-- **layout**: the index with number `num r` in increasing big-endian order is `r` -/
theorem allBits_num : ∀ {n : ℕ} (r : Fin n → Fin 2), (allBits n)[num r]? = some (bitsOf r)
  | 0, r => by simp [allBits, num, bitsOf]
  | n + 1, r => by
    have ih := allBits_num (fun i => r i.succ)
    have hlt := num_lt (fun i => r i.succ)
    have hb : bitsOf r = decide (r 0 = 1) :: bitsOf (fun i => r i.succ) := by
      simp [bitsOf, List.ofFn_succ]
    rw [hb]
    simp only [allBits, num]
    have h01 : r 0 = 0 ∨ r 0 = 1 := by
      have := (r 0).isLt
      rcases Fin.eq_zero_or_eq_succ (r 0) with h | ⟨j, h⟩
      · exact Or.inl h
      · right; rw [h]; have : j = 0 := Subsingleton.elim _ _; subst this; rfl
    rcases h01 with h | h
    · rw [h]
      simp only [Fin.val_zero, zero_mul, add_zero]
      rw [List.getElem?_append_left (by simp [length_allBits]; exact hlt), List.getElem?_map, ih]
      simp
    · rw [h]
      simp only [Fin.val_one, one_mul]
      rw [List.getElem?_append_right (by simp [length_allBits]), List.getElem?_map]
      simp only [List.length_map, length_allBits, Nat.add_sub_cancel, ih]
      simp

end Decomp
end PauLie
