/-
Helpers for property C19, part 11: families generating the full algebra su(2^n).

`full_of_windows`: a set `H` of strings on `n ≥ 2` sites that is closed under products of
anticommuting members and contains every non-identity string supported on two neighbouring sites
contains EVERY non-identity string (peel off the first site: `P·s·r = [P·Q·I…, I·(s+Q)·r]` when the
second letter `s` is not the identity, and `P·I·r = [(P+S)·X·r, S·X·I…]` otherwise).

Also: the enumeration `allV m` of all bit lists of length `m` (duplicate-free, `2^m` members), and
`clo_ne_zero`: the identity string is never in a commutator closure of non-identity generators.
Core Lean only.
-/
import PauLieVerif.Proofs.C19Path
import PauLieVerif.Proofs.C01Span

namespace PauLie
namespace C19
open Closure Graph C01Star

theorem omega_cons2 (a b a' b' : Bool) (s s' : V) :
    omega (a :: b :: s) (a' :: b' :: s') = (((a && b') != (b && a')) != omega s s') := rfl

theorem add_cons2 (a b a' b' : Bool) (s s' : V) :
    add (a :: b :: s) (a' :: b' :: s') = (a != a') :: (b != b') :: add s s' := rfl

theorem exists_anti (c d : Bool) (h : (c || d) = true) :
    ∃ q1 q2 : Bool, ((q1 && d) != (q2 && c)) = true ∧ ((c != q1) || (d != q2)) = true ∧ (q1 || q2) = true := by
  cases c <;> cases d
  · cases h
  · exact ⟨true, false, rfl, rfl, rfl⟩
  · exact ⟨false, true, rfl, rfl, rfl⟩
  · exact ⟨true, false, rfl, rfl, rfl⟩

theorem shiftV_zero_eq (n : Nat) (_hn : 2 ≤ n) (a b c d : Bool) :
    shiftV n 0 [a, b, c, d] = a :: b :: c :: d :: zeroV (2 * (n - 2)) := by
  simp [shiftV, zeroV]

theorem zeroV_add2 (m : Nat) : zeroV (m + 2) = false :: false :: zeroV m := by
  simp [zeroV, List.replicate_succ]

/-- **every non-identity string from the two-site windows** -/
theorem full_of_windows : ∀ (n : Nat), 2 ≤ n → ∀ (H : V → Prop),
    (∀ x y, H x → H y → x.length = 2 * n → y.length = 2 * n → omega x y = true → H (add x y)) →
    (∀ i, i + 2 ≤ n → ∀ g : V, g.length = 4 → g ≠ zeroV 4 → H (shiftV n i g)) →
    ∀ x, x.length = 2 * n → x ≠ zeroV (2 * n) → H x
  | 0, h, _, _, _ => by omega
  | 1, h, _, _, _ => by omega
  | 2, _, H, _, hwin => by
    intro x hx hx0
    have := hwin 0 (by omega) x hx hx0
    simpa [shiftV] using this
  | n + 3, _, H, hcl, hwin => by
    -- strings with the identity on the first site
    have ih := full_of_windows (n + 2) (by omega) (fun r => H (false :: false :: r))
      (by
        intro x y hx hy lx ly ho
        have := hcl _ _ hx hy (by simp [lx]; omega) (by simp [ly]; omega) (by rw [omega_cons2]; simpa using ho)
        rwa [add_cons2] at this)
      (by
        intro i hi g hg hg0
        have := hwin (i + 1) (by omega) g hg hg0
        rwa [shiftV_succ] at this)
    have hz2 : zeroV (2 * (n + 3)) = false :: false :: zeroV (2 * (n + 2)) := by
      rw [show 2 * (n + 3) = 2 * (n + 2) + 2 by omega, zeroV_add2]
    have hz4 : zeroV (2 * (n + 2)) = false :: false :: zeroV (2 * (n + 1)) := by
      rw [show 2 * (n + 2) = 2 * (n + 1) + 2 by omega, zeroV_add2]
    -- Lemma A: first and second letter both non-identity
    have lemA : ∀ (a b c d : Bool) (r' : V), (a || b) = true → (c || d) = true → r'.length = 2 * (n + 1) →
        H (a :: b :: c :: d :: r') := by
      intro a b c d r' hab hcd lr
      obtain ⟨q1, q2, hq, hne, hq0⟩ := exists_anti c d hcd
      have hy : H (shiftV (n + 3) 0 [a, b, q1, q2]) := hwin 0 (by omega) _ rfl (by
        intro e; revert hab hq0; cases a <;> cases b <;> cases q1 <;> cases q2 <;> simp [zeroV] at e ⊢)
      rw [shiftV_zero_eq (n + 3) (by omega), show n + 3 - 2 = n + 1 by omega] at hy
      have hz : H (false :: false :: (c != q1) :: (d != q2) :: r') := by
        apply ih
        · simp [lr]; omega
        · rw [hz4]
          intro e
          injection e with e1 e2
          injection e2 with e2 e3
          rw [e1, e2] at hne
          cases hne
      have := hcl _ _ hy hz (by simp; omega) (by simp [lr]; omega) (by
        simp only [omega_cons2, omega_zero_left]
        revert hq; cases a <;> cases b <;> cases c <;> cases d <;> cases q1 <;> cases q2 <;> simp)
      simp only [add_cons2, add_zero_left _ _ lr] at this
      have e1 : (q1 != (c != q1)) = c := by cases q1 <;> cases c <;> rfl
      have e2 : (q2 != (d != q2)) = d := by cases q2 <;> cases d <;> rfl
      simpa [e1, e2] using this
    intro x hx hx0
    -- split off two sites
    match x, hx, hx0 with
    | [], hx, _ => exfalso; simp at hx <;> omega
    | [_], hx, _ => exfalso; simp at hx <;> omega
    | [_, _], hx, _ => exfalso; simp at hx <;> omega
    | [_, _, _], hx, _ => exfalso; simp at hx <;> omega
    | a :: b :: c :: d :: r', hx, hx0 =>
      have lr : r'.length = 2 * (n + 1) := by simp at hx; omega
      by_cases hab : (a || b) = true
      · by_cases hcd : (c || d) = true
        · exact lemA a b c d r' hab hcd lr
        · have hc : c = false := by cases c <;> simp_all
          have hd : d = false := by cases c <;> cases d <;> simp_all
          subst hc; subst hd
          by_cases hr : r' = zeroV (2 * (n + 1))
          · -- a single-site string on the first site
            subst hr
            have := hwin 0 (by omega) [a, b, false, false] rfl (by
              intro e; revert hab; cases a <;> cases b <;> simp [zeroV] at e ⊢)
            rwa [shiftV_zero_eq (n + 3) (by omega), show n + 3 - 2 = n + 1 by omega] at this
          · -- a gap on the second site
            obtain ⟨s1, s2, hs, hne, hs0⟩ := exists_anti a b hab
            have hw : H ((a != s1) :: (b != s2) :: true :: false :: r') :=
              lemA _ _ true false r' hne rfl lr
            have ht : H (shiftV (n + 3) 0 [s1, s2, true, false]) := hwin 0 (by omega) _ rfl (by
              intro e; simp [zeroV] at e)
            rw [shiftV_zero_eq (n + 3) (by omega), show n + 3 - 2 = n + 1 by omega] at ht
            have := hcl _ _ hw ht (by simp [lr]; omega) (by simp; omega) (by
              simp only [omega_cons2, omega_zero_right]
              revert hs; cases a <;> cases b <;> cases s1 <;> cases s2 <;> simp)
            simp only [add_cons2, add_zero_right _ _ lr] at this
            have e1 : ((a != s1) != s1) = a := by cases a <;> cases s1 <;> rfl
            have e2 : ((b != s2) != s2) = b := by cases b <;> cases s2 <;> rfl
            simpa [e1, e2] using this
      · have ha : a = false := by cases a <;> simp_all
        have hb : b = false := by cases a <;> cases b <;> simp_all
        subst ha; subst hb
        apply ih
        · simp [lr]; omega
        · intro e
          apply hx0
          rw [hz2, e]

/-! ### the identity string is not in a closure -/

theorem clo_ne_zero {n : Nat} {G : List V} (hG : Uniform n G) (hg : ∀ g ∈ G, g ≠ zeroV (2 * n)) {x : V}
    (hx : Clo G x) : x ≠ zeroV (2 * n) := by
  cases hx with
  | base h => exact hg x h
  | @step u w hu hw ho =>
    intro e
    have := (add_eq_zero_iff (clo_length hG hu) (clo_length hG hw)).1 e
    subst this
    rw [omega_self] at ho
    cases ho

/-! ### all bit lists of a given length -/

def allV : Nat → List V
  | 0 => [[]]
  | m + 1 => (allV m).flatMap (fun v => [false :: v, true :: v])

theorem mem_allV : ∀ {m : Nat} {x : V}, x ∈ allV m ↔ x.length = m
  | 0, x => by simp [allV]
  | m + 1, x => by
    simp only [allV, List.mem_flatMap, List.mem_cons, List.not_mem_nil, or_false]
    constructor
    · rintro ⟨v, hv, rfl | rfl⟩ <;> simp [(mem_allV (m := m)).1 hv]
    · intro h
      cases x with
      | nil => simp at h
      | cons a t =>
        refine ⟨t, (mem_allV (m := m)).2 (by simpa using h), ?_⟩
        cases a <;> simp

theorem length_allV : ∀ (m : Nat), (allV m).length = 2 ^ m
  | 0 => rfl
  | m + 1 => by
    rw [allV, List.length_flatMap]
    have : (fun v : V => [false :: v, true :: v].length) = fun _ => 2 := rfl
    rw [this, List.map_const', List.sum_replicate_nat, length_allV m, Nat.pow_succ]

theorem nodup_allV : ∀ (m : Nat), (allV m).Nodup
  | 0 => by simp [allV]
  | m + 1 => by
    rw [allV, List.Nodup, List.pairwise_flatMap]
    constructor
    · intro v _; simp
    · refine List.Pairwise.imp_of_mem ?_ (nodup_allV m)
      intro v w _ _ hne x hx y hy hxy
      simp only [List.mem_cons, List.not_mem_nil, or_false] at hx hy
      subst hxy
      rcases hx with rfl | rfl <;> rcases hy with h | h <;> simp at h <;> exact hne h

/-- the non-identity strings of length `m` -/
def nonzeroV (m : Nat) : List V := (allV m).filter (fun x => x != zeroV m)

theorem mem_nonzeroV {m : Nat} {x : V} : x ∈ nonzeroV m ↔ x.length = m ∧ x ≠ zeroV m := by
  simp [nonzeroV, mem_allV]

theorem nodup_nonzeroV (m : Nat) : (nonzeroV m).Nodup := (nodup_allV m).filter _

theorem length_nonzeroV (m : Nat) : (nonzeroV m).length = 2 ^ m - 1 := by
  have h1 := length_filter_split (fun x => x != zeroV m) (fun x => x == zeroV m) (fun x => by cases h : x == zeroV m <;> simp [bne, h]) (allV m)
  have h2 : ((allV m).filter (fun x => x == zeroV m)).length = 1 := by
    have : ((allV m).filter (fun x => x == zeroV m)).Perm [zeroV m] := by
      rw [List.perm_ext_iff_of_nodup ((nodup_allV m).filter _) (by simp)]
      intro y
      simp only [List.mem_filter, mem_allV, beq_iff_eq, List.mem_singleton]
      exact ⟨fun h => h.2, fun h => ⟨by rw [h]; simp, h⟩⟩
    rw [this.length_eq]; rfl
  rw [length_allV] at h1
  unfold nonzeroV
  omega

end C19
end PauLie
