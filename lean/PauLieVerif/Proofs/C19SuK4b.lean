/-
Helpers for property C19, part 15: kernel-evaluated window fact on four sites - the translates of a17
generate all 255 non-identity strings on four qubits (on three qubits they do not: `C19_refuted`).
-/
import PauLieVerif.Proofs.C19SuK3

namespace PauLie
namespace C19
open Closure

theorem window4_a17 : (nonzeroV (2 * 4)).all (fun y => (closureList (klocalV 4 gensA17)).1.contains y) = true := by
  decide +kernel

end C19
end PauLie
