/-
C01, canonical graphs of types B3 and B2 with one single leg: the B1 star with `t + 1 ≥ 1` legs of length
two whose NEWEST leg `b - d` is continued by a vertex `p` (long leg of length 3: type B3 with `t` legs of
length two) and then by `q` (long leg of length 4: type B2).  One further qubit in front:

    p = Z ⊗ u,   u = Z on the qubit of the newest leg (`uT t`);      q = X ⊗ I…I.

With `Q = QBn (t+1)` on the strings of the B1 star (all strings on `t + 2` qubits):

  * `clo_G3`:  closure of B3 = { I ⊗ y : Q y = 1 } ∪ { Z ⊗ y : Q y = 0, y ≠ I…I }     (4^(t+2) − 1 strings: su(2^(t+2)))
  * `clo_G4`:  closure of B2 = { l ⊗ y : Q y + [l ≠ I] = 1 }                          (dim so(2^(t+3)) strings; needs t ≥ 1)

Lower bounds: the strings with `Q = 0` other than the identity are ONE orbit under moves by the strings with
`Q = 1` (`trans0`; two moves suffice, through a string anticommuting with both), and every non-identity
string anticommutes with a generator (`sep_GB1`).  Core Lean only.
-/
import PauLieVerif.Proofs.C01TypeBTwins

namespace PauLie
namespace C01TypeB
open Closure C01Star

/-- every non-identity string anticommutes with a generator of the B1 star -/
theorem sep_GB1 : ∀ t (y : V), y.length = 2 * (t + 1) → y ≠ zeroV (2 * (t + 1)) → ∃ g ∈ GB1 t, omega g y = true
  | 0, y, h, hne => by
    match y, h with
    | [x, z], _ =>
      cases x <;> cases z
      · exact absurd rfl hne
      · exact ⟨aT 0, by simp [GB1], rfl⟩
      · exact ⟨cT 0, by simp [GB1], rfl⟩
      · exact ⟨cT 0, by simp [GB1], rfl⟩
  | t + 1, y, h, hne => by
    match y, h with
    | x :: z :: y', h =>
      have ly : y'.length = 2 * (t + 1) := by simp at h; omega
      by_cases h0 : y' = zeroV (2 * (t + 1))
      · subst h0
        cases x <;> cases z
        · exfalso; apply hne
          simp [zeroV, List.replicate_succ, Nat.mul_add]
        · exact ⟨_, GB1_d t, by simp [omega_cons2, omega_zero_left]⟩
        · exact ⟨_, GB1_b t, by simp [omega_cons2, omega_zero_right]⟩
        · exact ⟨_, GB1_d t, by simp [omega_cons2, omega_zero_left]⟩
      · obtain ⟨g, hg, ho⟩ := sep_GB1 t y' ly h0
        exact ⟨pad g, GB1_pad t g hg, by simpa [pad, omega_cons2] using ho⟩

/-- `Z` on the qubit of the newest leg of length two -/
def uT (t : Nat) : V := false :: true :: zeroV (2 * (t + 1))

theorem length_uT (t : Nat) : (uT t).length = 2 * (t + 2) := by simp [uT]; omega

theorem QBn_uT (t : Nat) : QBn (t + 1) (uT t) = false := by
  simp [uT, QBn, extQ, QBn_zero t]

/-- **the non-identity strings with `Q = 0` are one orbit** under moves by strings with `Q = 1` -/
theorem trans0 (t : Nat) {P : V → Prop}
    (hP : ∀ v c : V, P v → v.length = 2 * (t + 2) → c.length = 2 * (t + 2) → QBn (t + 1) c = true →
      omega v c = true → P (add v c))
    (hu : P (uT t)) (y : V) (ly : y.length = 2 * (t + 2)) (qy : QBn (t + 1) y = false)
    (_hne : y ≠ zeroV (2 * (t + 2))) : P y := by
  have hQ := QBn_quad (t + 1)
  have L : 2 * (t + 1 + 1) = 2 * (t + 2) := rfl
  -- one move from a singular `s` with `P s` to a singular `y` anticommuting with it
  have move : ∀ s y : V, P s → s.length = 2 * (t + 2) → y.length = 2 * (t + 2) → QBn (t + 1) s = false →
      QBn (t + 1) y = false → omega s y = true → P y := by
    intro s y hs ls ly qs qy ho
    have lw : (add s y).length = 2 * (t + 2) := length_add_eq ls ly
    have qw : QBn (t + 1) (add s y) = true := by rw [hQ s y ls ly, qs, qy, ho]; rfl
    have ow : omega s (add s y) = true := by rw [omega_add_right s s y (by omega), omega_self, ho]; rfl
    have := hP s (add s y) hs ls lw qw ow
    rwa [add_add_cancel_left s y (by omega)] at this
  match y, ly with
  | x :: z :: y', ly =>
    have ly' : y'.length = 2 * (t + 1) := by simp at ly; omega
    have step1 : ∀ (z : Bool) (w : V), w.length = 2 * (t + 1) → QBn (t + 1) (true :: z :: w) = false →
        P (true :: z :: w) := by
      intro z w lw qw
      refine move (uT t) _ hu (length_uT t) (by simp [lw]; omega) (QBn_uT t) qw ?_
      simp [uT, omega_cons2, omega_zero_left]
    cases x
    · cases z
      · -- `I ⊗ y'`, `y' ≠ 0`
        have qy' : QBn t y' = false := by simpa [QBn, extQ] using qy
        have hne' : y' ≠ zeroV (2 * (t + 1)) := by
          intro h0; apply _hne; subst h0
          simp [zeroV, List.replicate_succ, Nat.mul_add]
        obtain ⟨g, hg, ho⟩ := sep_GB1 t y' ly' hne'
        have lg := uniform_GB1 t g hg
        have qg := QBn_gens t g hg
        have qs : QBn (t + 1) (true :: false :: g) = false := by simp [QBn, extQ, qg]
        exact move _ _ (step1 false g lg qs) (by simp [lg]; omega) ly qs qy (by simp [omega_cons2, ho])
      · have qs : QBn (t + 1) (true :: true :: zeroV (2 * (t + 1))) = false := by simp [QBn, extQ, QBn_zero t]
        exact move _ _ (step1 true _ (by simp) qs) (by simp; omega) ly qs qy
          (by simp [omega_cons2, omega_zero_left])
    · exact step1 z y' ly' qy

/-! ### the canonical B3 and B2 stars (one single leg) -/

/-- the B1 star with the newest leg of length two LAST (leg order of the library when that leg is continued) -/
def GB1r (t : Nat) : List V :=
  (GB1 t).map pad ++ [false :: true :: aT t, true :: false :: zeroV (2 * (t + 1))]

theorem mem_GB1r {t : Nat} {g : V} : g ∈ GB1r t ↔ g ∈ GB1 (t + 1) := by
  simp only [GB1r, List.mem_append, List.mem_map, List.mem_cons, List.not_mem_nil, or_false]
  constructor
  · rintro (⟨h, hh, rfl⟩ | rfl | rfl)
    · exact GB1_pad t h hh
    · exact GB1_b t
    · exact GB1_d t
  · intro hg
    rcases GB1_cases t hg with ⟨h, hh, rfl⟩ | rfl | rfl
    · exact Or.inl ⟨h, hh, rfl⟩
    · exact Or.inr (Or.inl rfl)
    · exact Or.inr (Or.inr rfl)

/-- type B3: long leg `b - d - p` -/
def G3 (t : Nat) : List V := (GB1r t).map pad ++ [false :: true :: uT t]

/-- type B2: long leg `b - d - p - q` -/
def G4 (t : Nat) : List V := (GB1r t).map pad ++ [false :: true :: uT t, true :: false :: zeroV (2 * (t + 2))]

theorem G3_pad (t : Nat) : ∀ g ∈ GB1 (t + 1), pad g ∈ G3 t := by
  intro g hg
  simp only [G3, List.mem_append, List.mem_map]
  exact Or.inl ⟨g, mem_GB1r.2 hg, rfl⟩

theorem G4_pad (t : Nat) : ∀ g ∈ GB1 (t + 1), pad g ∈ G4 t := by
  intro g hg
  simp only [G4, List.mem_append, List.mem_map]
  exact Or.inl ⟨g, mem_GB1r.2 hg, rfl⟩

theorem G3_cases {t : Nat} {g : V} (hg : g ∈ G3 t) : (∃ h ∈ GB1 (t + 1), g = pad h) ∨ g = false :: true :: uT t := by
  simp only [G3, List.mem_append, List.mem_map, List.mem_cons, List.not_mem_nil, or_false] at hg
  rcases hg with ⟨h, hh, rfl⟩ | rfl
  · exact Or.inl ⟨h, mem_GB1r.1 hh, rfl⟩
  · exact Or.inr rfl

theorem G4_cases {t : Nat} {g : V} (hg : g ∈ G4 t) :
    g ∈ G3 t ∨ g = true :: false :: zeroV (2 * (t + 2)) := by
  simp only [G4, G3, List.mem_append, List.mem_map, List.mem_cons, List.not_mem_nil, or_false] at hg ⊢
  rcases hg with h | rfl | rfl
  · exact Or.inl (Or.inl h)
  · exact Or.inl (Or.inr rfl)
  · exact Or.inr rfl

theorem G3_sub_G4 (t : Nat) : ∀ g, g ∈ G3 t → g ∈ G4 t := by
  intro g hg
  simp only [G4, G3, List.mem_append, List.mem_map, List.mem_cons, List.not_mem_nil, or_false] at hg ⊢
  rcases hg with h | rfl
  · exact Or.inl h
  · exact Or.inr (Or.inl rfl)

theorem uniform_G3 (t : Nat) : Uniform (t + 3) (G3 t) := by
  intro g hg
  rcases G3_cases hg with ⟨h, hh, rfl⟩ | rfl
  · simp [pad, uniform_GB1 (t + 1) h hh]; omega
  · simp [length_uT]; omega

theorem uniform_G4 (t : Nat) : Uniform (t + 3) (G4 t) := by
  intro g hg
  rcases G4_cases hg with h | rfl
  · exact uniform_G3 t g h
  · simp; omega

/-- membership in the closure of the B3 star -/
def In3 (t : Nat) (v : V) : Prop :=
  ∃ (z : Bool) (y : V), v = false :: z :: y ∧ y.length = 2 * (t + 2) ∧
    ((z = false ∧ QBn (t + 1) y = true) ∨ (z = true ∧ QBn (t + 1) y = false ∧ y ≠ zeroV (2 * (t + 2))))

theorem zero_ne_of_omega {L : Nat} {y y' : V} (ly : y.length = L) (ly' : y'.length = L)
    (ho : omega y y' = true) : add y y' ≠ zeroV L := by
  intro h
  rw [add_eq_zero_iff ly ly'] at h
  subst h
  rw [omega_self] at ho; cases ho

/-- **closure of the B3 star** -/
theorem clo_G3 (t : Nat) (v : V) : Clo (G3 t) v ↔ In3 t v := by
  have hQ := QBn_quad (t + 1)
  constructor
  · intro hv
    induction hv with
    | base hg =>
      rcases G3_cases hg with ⟨h, hh, rfl⟩ | rfl
      · exact ⟨false, h, rfl, uniform_GB1 (t + 1) h hh, Or.inl ⟨rfl, QBn_gens (t + 1) h hh⟩⟩
      · refine ⟨true, uT t, rfl, length_uT t, Or.inr ⟨rfl, QBn_uT t, ?_⟩⟩
        intro h
        have := congrArg (fun l => l.getD 1 false) h
        simp [uT, zeroV, List.replicate_succ, Nat.mul_add] at this
    | step _ _ ho ihx ihy =>
      obtain ⟨z, y, rfl, ly, hy⟩ := ihx
      obtain ⟨z', y', rfl, ly', hy'⟩ := ihy
      have ho' : omega y y' = true := by simpa [omega_cons2] using ho
      have q := hQ y y' ly ly'
      rw [ho'] at q
      refine ⟨z != z', add y y', by simp, length_add_eq ly ly', ?_⟩
      rcases hy with ⟨rfl, q1⟩ | ⟨rfl, q1, _⟩ <;> rcases hy' with ⟨rfl, q2⟩ | ⟨rfl, q2, _⟩
      · exact Or.inl ⟨rfl, by rw [q, q1, q2]; rfl⟩
      · exact Or.inr ⟨rfl, by rw [q, q1, q2]; rfl, zero_ne_of_omega ly ly' ho'⟩
      · exact Or.inr ⟨rfl, by rw [q, q1, q2]; rfl, zero_ne_of_omega ly ly' ho'⟩
      · exact Or.inl ⟨rfl, by rw [q, q1, q2]; rfl⟩
  · rintro ⟨z, y, rfl, ly, ⟨rfl, q⟩ | ⟨rfl, q, hne⟩⟩
    · exact clo_pad (G3_pad t) ((canon1_full (t + 1) y ly).2 q)
    · refine trans0 t (P := fun w => Clo (G3 t) (false :: true :: w)) ?_ ?_ y ly q hne
      · intro w c hw _ lc qc ho
        exact clo_fibre_move (G3_pad t) false true hw ((canon1_full (t + 1) c lc).2 qc) ho
      · exact Clo.base (by simp [G3])

/-- the quadratic form of the B2 star: the new letter counts iff it is not `I` -/
def Q4 (t : Nat) : V → Bool
  | x :: z :: y => (x || z) != QBn (t + 1) y
  | _ => false

theorem Q4_quad (t : Nat) : Quad (2 * (t + 3)) (Q4 t) := by
  intro u v hu hv
  match u, v, hu, hv with
  | x :: z :: y, x' :: z' :: y', hu, hv =>
    have ly : y.length = 2 * (t + 1 + 1) := by simp at hu; omega
    have ly' : y'.length = 2 * (t + 1 + 1) := by simp at hv; omega
    rw [add_cons2, omega_cons2]
    simp only [Q4]
    rw [QBn_quad (t + 1) y y' ly ly']
    cases x <;> cases z <;> cases x' <;> cases z' <;> cases QBn (t + 1) y <;> cases QBn (t + 1) y' <;>
      cases omega y y' <;> rfl

theorem Q4_gens (t : Nat) : ∀ g ∈ G4 t, Q4 t g = true := by
  intro g hg
  rcases G4_cases hg with h | rfl
  · rcases G3_cases h with ⟨h', hh, rfl⟩ | rfl
    · simp [Q4, pad, QBn_gens (t + 1) h' hh]
    · simp [Q4, QBn_uT t]
  · have := QBn_zero (t + 1)
    simp only [Q4]
    rw [show 2 * (t + 2) = 2 * (t + 1 + 1) from rfl, this]; rfl

/-- **closure of the B2 star** (at least one further leg of length two: `t ≥ 1`) -/
theorem clo_G4 (t : Nat) (v : V) (lv : v.length = 2 * (t + 4)) : Clo (G4 (t + 1)) v ↔ Q4 (t + 1) v = true := by
  constructor
  · exact clo_quad (uniform_G4 (t + 1)) (Q4_quad (t + 1)) (Q4_gens (t + 1))
  · intro hq
    match v, lv with
    | x :: z :: y, lv =>
      have ly : y.length = 2 * (t + 3) := by simp at lv; omega
      have mono : ∀ w, Clo (G3 (t + 1)) w → Clo (G4 (t + 1)) w := fun w hw => clo_mono (G3_sub_G4 (t + 1)) hw
      have hq4 : Clo (G4 (t + 1)) (true :: false :: zeroV (2 * (t + 3))) := Clo.base (by simp [G4])
      -- the fibres over `Z` and `Y`
      have hZ : ∀ w : V, w.length = 2 * (t + 3) → QBn (t + 2) w = false → w ≠ zeroV (2 * (t + 3)) →
          Clo (G4 (t + 1)) (false :: true :: w) := fun w lw qw hw =>
        mono _ ((clo_G3 (t + 1) _).2 ⟨true, w, rfl, lw, Or.inr ⟨rfl, qw, hw⟩⟩)
      have hY : ∀ w : V, w.length = 2 * (t + 3) → QBn (t + 2) w = false → w ≠ zeroV (2 * (t + 3)) →
          Clo (G4 (t + 1)) (true :: true :: w) := by
        intro w lw qw hw
        have := Clo.step (hZ w lw qw hw) hq4 (by simp [omega_cons2, omega_zero_right])
        simpa [add_cons2, add_zero_right _ w lw] using this
      -- the fibre over `X`: one witness, then the orbit
      have hne_u : uT (t + 1) ≠ zeroV (2 * (t + 3)) := by
        intro h
        have := congrArg (fun l => l.getD 1 false) h
        simp [uT, zeroV, List.replicate_succ, Nat.mul_add] at this
      have hXu : Clo (G4 (t + 1)) (true :: false :: uT (t + 1)) := by
        have l2 : (pad (uT t)).length = 2 * (t + 3) := by simp [pad, length_uT]; omega
        have q2 : QBn (t + 2) (pad (uT t)) = false := by rw [QBn_pad]; exact QBn_uT t
        have n2 : pad (uT t) ≠ zeroV (2 * (t + 3)) := by
          intro h
          have := congrArg (fun l => l.getD 3 false) h
          simp [pad, uT, zeroV, List.replicate_succ, Nat.mul_add] at this
        have l1 : (false :: true :: uT t).length = 2 * (t + 3) := by simp [length_uT]; omega
        have q1 : QBn (t + 2) (false :: true :: uT t) = false := by
          have := QBn_uT t
          simp [QBn, extQ] at this ⊢
          exact this
        have n1 : (false :: true :: uT t) ≠ zeroV (2 * (t + 3)) := by
          intro h
          have := congrArg (fun l => l.getD 1 false) h
          simp [zeroV, List.replicate_succ, Nat.mul_add] at this
        have o12 : omega (false :: true :: uT t) (pad (uT t)) = false := by
          simp [pad, uT, omega_cons2, omega_zero_left]
        have := Clo.step (hY _ l1 q1 n1) (hZ _ l2 q2 n2) (by rw [omega_cons2, o12]; rfl)
        have e : add (false :: true :: uT t) (pad (uT t)) = uT (t + 1) := by
          simp [pad, uT]
          rw [show 2 * (t + 1 + 1) = (2 * (t + 1)) + 1 + 1 by omega, zeroV_succ, zeroV_succ,
            add_self_of_length (length_zeroV _)]
        rw [add_cons2, e] at this
        simpa using this
      have hX : ∀ w : V, w.length = 2 * (t + 3) → QBn (t + 2) w = false → w ≠ zeroV (2 * (t + 3)) →
          Clo (G4 (t + 1)) (true :: false :: w) := by
        intro w lw qw hw
        refine trans0 (t + 1) (P := fun w => Clo (G4 (t + 1)) (true :: false :: w)) ?_ hXu w lw qw hw
        intro w c hw _ lc qc ho
        exact clo_fibre_move (G4_pad (t + 1)) true false hw ((canon1_full (t + 2) c lc).2 qc) ho
      have hZ0 : Clo (G4 (t + 1)) (false :: true :: zeroV (2 * (t + 3))) := by
        have := Clo.step (hX _ (length_uT (t + 1)) (QBn_uT (t + 1)) hne_u) (hY _ (length_uT (t + 1)) (QBn_uT (t + 1)) hne_u)
          (by rw [omega_cons2, omega_self]; rfl)
        rw [add_cons2, add_self_of_length (length_uT (t + 1))] at this
        simpa using this
      cases x <;> cases z
      · exact clo_pad (G4_pad (t + 1)) ((canon1_full (t + 2) y ly).2 (by simpa [Q4] using hq))
      · have qy : QBn (t + 2) y = false := by simpa [Q4] using hq
        by_cases h0 : y = zeroV (2 * (t + 3))
        · subst h0; exact hZ0
        · exact hZ y ly qy h0
      · have qy : QBn (t + 2) y = false := by simpa [Q4] using hq
        by_cases h0 : y = zeroV (2 * (t + 3))
        · subst h0; exact hq4
        · exact hX y ly qy h0
      · have qy : QBn (t + 2) y = false := by simpa [Q4] using hq
        by_cases h0 : y = zeroV (2 * (t + 3))
        · subst h0
          have := Clo.step hZ0 hq4 (by simp [omega_cons2, omega_zero_right])
          rw [add_cons2, add_self_of_length (length_zeroV _)] at this
          simpa using this
        · exact hY y ly qy h0

end C01TypeB
end PauLie
