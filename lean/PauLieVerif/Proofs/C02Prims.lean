/-
Property C02: the invariant of the guarded reduction and its preservation by every primitive of
`Model/MorphG.lean`, on every exit.

`Inv c s`: if every certificate check so far succeeded (`s.ghost.ok`), then
  (I1) the pool of `s` together with the frame `c.E` (rest of the queue, `unappended`) generates
       the commutator closure of the generators `c.G`;
  (Len) all strings of the pool have `c.n` qubits;
  (Pr) while the ghost says `pristine`, legs and delayed list are those the pipeline run started with;
  (K)  a proposition `c.K` fixed at the start of the run holds (so that facts about the state before
       the run are available at every exit on which the ghost is still `ok`).
-/
import PauLieVerif.Proofs.C02Ghost
import PauLieVerif.Proofs.C02Reads
import Mathlib.Tactic.Tauto

namespace PauLie
namespace C02
open Closure Morph MorphG C11L

structure Ctx where
  n : Nat
  G : List V
  E : List PS
  L0 : List (List PS)
  D0 : List PS
  deps0 : List PS     -- the dependents found before the pipeline run
  K : Prop            -- what was known when the pipeline run started (carried along unchanged)

def Inv (c : Ctx) (s : MG) : Prop :=
  s.ghost.ok = true →
    c.K ∧ CloEq (bitsOf (s.pool ++ c.E)) c.G ∧ (∀ b ∈ bitsOf s.pool, b.length = 2 * c.n) ∧
    (s.ghost.pristine = true → s.mf.legs = c.L0 ∧ s.mf.delayed = c.D0) ∧
    s.mf.dependents = c.deps0

theorem lit_run (l v : PS) (m : MF) : (lit l v).run.run m =
    match l.multiply v with
    | .error e => (.error (.py e), m)
    | .ok p => if (findIn m.legs p).isSome then (.error .dependent, m) else (.ok p, m) := by
  unfold lit
  rw [run_bind]
  cases h : l.multiply v with
  | error e => rfl
  | ok p =>
    have h1 : (liftErr (Except.ok p : Except Err PS) : MFM PS).run.run m = (.ok p, m) := rfl
    rw [h1]
    simp only
    rw [run_bind]
    have h2 : (isIncluded p).run.run m = (.ok (findIn m.legs p).isSome, m) := rfl
    rw [h2]
    simp only
    cases (findIn m.legs p).isSome <;> rfl

theorem findIn_go_isSome (p : PS) : ∀ (legs : List (List PS)) (i : Nat),
    (findIn.go p i legs).isSome = true → p.bits ∈ bitsOf legs.flatten
  | [], i, h => by simp [findIn.go] at h
  | leg :: rest, i, h => by
    rw [findIn.go] at h
    rw [List.flatten_cons, bitsOf_append, List.mem_append]
    cases hl : findInLeg leg p with
    | some j =>
      left
      unfold findInLeg at hl
      have : (leg.findIdx? (fun x => x.beq p)).isSome = true := by rw [hl]; rfl
      rw [List.findIdx?_isSome, List.any_eq_true] at this
      obtain ⟨x, hx, hxp⟩ := this
      exact mem_bitsOf.2 ⟨x, hx, (beq_iff _ _).1 hxp⟩
    | none =>
      right
      rw [hl] at h
      exact findIn_go_isSome p rest (i + 1) h

theorem findIn_isSome {legs : List (List PS)} {p : PS} (h : (findIn legs p).isSome = true) :
    p.bits ∈ bitsOf legs.flatten := findIn_go_isSome p legs 0 h

theorem pool_bits (s : MG) : bitsOf s.pool =
    bitsOf s.vertices ++ bitsOf s.ghost.cand.toList ++ bitsOf s.ghost.spare ++ bitsOf s.mf.delayed := by
  simp [MG.pool]

theorem check_ok (g : Ghost) (b : Bool) (lbl : String) : (g.check b lbl).ok = (g.ok && b) := rfl

/-- the frame: all strings of the rest of the queue have `n` qubits -/
def FrameLen (c : Ctx) : Prop := ∀ b ∈ bitsOf c.E, b.length = 2 * c.n

/-! ### lifted reads -/

theorem pres_lift (c : Ctx) {α} (x : MFM α) [Keeps x] : Pres (Inv c) (monadLift x : GM α) := by
  intro s hs
  show Inv c ((MorphG.liftMF x).run.run s).2
  rw [liftMF_run]
  obtain ⟨h1, h2, h3⟩ := Keeps.keeps (x := x) s.mf
  intro hok
  obtain ⟨k, a, b, d, e⟩ := hs hok
  have hp : MG.pool { mf := (x.run.run s.mf).2, ghost := s.ghost } = s.pool := by
    simp only [MG.pool, MG.vertices, h1, h2]
  refine ⟨k, ?_, ?_, ?_, ?_⟩
  · rw [hp]; exact a
  · rw [hp]; exact b
  · intro hp'; simp only [h1, h2]; exact d hp'
  · simp only [h3]; exact e

/-! ### rearrangements -/

theorem pres_moveG (c : Ctx) {α} (x : MFM α) (upd : MG → Except Exc α → MF → Ghost)
    (hupd : ∀ s r m, (upd s r m).ok = true → s.ghost.ok = true) (hx : KD x) :
    Pres (Inv c) (moveG x upd) := by
  intro s hs
  unfold moveG
  rw [withGhost_run]
  intro hok
  simp only [check_ok, Bool.and_eq_true] at hok
  obtain ⟨⟨hg, hsame⟩, _⟩ := hok
  obtain ⟨k, a, b, _, e⟩ := hs (hupd _ _ _ hg)
  have hm := sameMembers_iff hsame
  refine ⟨k, ?_, ?_, ?_, ?_⟩
  · refine CloEq.trans (cloEq_of_same_members ?_) a
    intro g
    simp only [bitsOf_append, List.mem_append]
    exact or_congr (hm g) Iff.rfl
  · intro g hgm
    exact b g ((hm g).1 hgm)
  · intro hp; cases hp
  · show ((x.run.run s.mf).2).dependents = c.deps0
    rw [hx]; exact e

theorem gTake_ok (v : PS) (g : Ghost) (h : (gTake v g).ok = true) : g.ok = true := by
  unfold gTake at h
  split at h
  · exact h
  · split at h
    · exact h
    · rw [check_ok] at h; simp at h

theorem pres_appendG (c : Ctx) (v lt : PS) : Pres (Inv c) (appendG v lt) := by
  unfold appendG
  refine pres_moveG c _ _ ?_ (kd_append v lt)
  intro s r m h
  cases r with
  | ok a => exact gTake_ok v _ h
  | error e => exact h

theorem pres_removeG (c : Ctx) (v : PS) : Pres (Inv c) (removeG v) := by
  unfold removeG
  refine pres_moveG c _ _ ?_ (kd_remove v)
  intro s r m h
  cases r <;> exact h

theorem pres_appendDelayedG (c : Ctx) (v : PS) : Pres (Inv c) (appendDelayedG v) := by
  unfold appendDelayedG
  refine pres_moveG c _ _ ?_ (kd_appendDelayed v)
  intro s r m h
  exact h

theorem pres_initLegsG (c : Ctx) (l : PS) : Pres (Inv c) (initLegsG l) := by
  unfold initLegsG
  refine pres_moveG c _ _ ?_ (kd_setLegs _)
  intro s r m h
  exact gTake_ok l _ h

/-! ### ghost-only actions -/

theorem pres_uncertifiedG (c : Ctx) : Pres (Inv c) uncertifiedG := by
  intro s _
  unfold uncertifiedG
  rw [modifyThe_run]
  intro hok
  rw [check_ok] at hok
  simp at hok

/-- dropping the candidate when it is generated by the vertices -/
theorem inv_drop_cand {c : Ctx} {s : MG} {lam : PS} (hs : Inv c s) (hok : s.ghost.ok = true)
    (hc : s.ghost.cand = some lam) (hclo : Clo (bitsOf s.vertices) lam.bits) (g' : Ghost)
    (hcand : g'.cand = none) (hspare : g'.spare = s.ghost.spare) (hpr : g'.pristine = s.ghost.pristine) :
    Inv c { mf := s.mf, ghost := g' } := by
  intro _
  obtain ⟨k, a, b, d, e⟩ := hs hok
  have hsub : ∀ g, g ∈ bitsOf (MG.pool { mf := s.mf, ghost := g' } ++ c.E) → g ∈ bitsOf (s.pool ++ c.E) := by
    intro g
    simp only [MG.pool, MG.vertices, hcand, hspare, hc, bitsOf_append, List.mem_append, Option.toList_none,
      Option.toList_some, bitsOf_nil, List.not_mem_nil, or_false]
    tauto
  refine ⟨k, ?_, ?_, ?_, ?_⟩
  · refine CloEq.trans (CloEq.symm (cloEq_drop hsub ?_)) a
    intro g
    simp only [MG.pool, MG.vertices, hcand, hspare, hc, bitsOf_append, List.mem_append, Option.toList_none,
      Option.toList_some, bitsOf_nil, bitsOf_cons, List.mem_cons, List.not_mem_nil, or_false]
    rintro ((((h | h) | h) | h) | h)
    · exact Or.inl (Or.inl (Or.inl (Or.inl h)))
    · subst h
      refine Or.inr (clo_mono ?_ hclo)
      intro x hx
      simp only [List.mem_append]
      exact Or.inl (Or.inl (Or.inl (Or.inl hx)))
    · exact Or.inl (Or.inl (Or.inl (Or.inr h)))
    · exact Or.inl (Or.inl (Or.inr h))
    · exact Or.inl (Or.inr h)
  · intro g hg
    apply b g
    have := hsub g (by rw [bitsOf_append]; exact List.mem_append_left _ hg)
    rw [bitsOf_append, List.mem_append] at this
    rcases this with h | h
    · exact h
    · -- a member of the frame that is also in the new pool: it is in the old pool as well
      revert hg
      simp only [MG.pool, MG.vertices, hcand, hspare, hc, bitsOf_append, List.mem_append, Option.toList_none,
        Option.toList_some, bitsOf_nil, bitsOf_cons, List.mem_cons, List.not_mem_nil, or_false]
      tauto
  · intro hp
    rw [hpr] at hp
    exact d hp
  · exact e

theorem gDepend_ok {x : PS} {cert : Bool} {g : Ghost} (h : (gDepend x cert g).ok = true) :
    g.ok = true ∧ isCand g x = true ∧ cert = true := by
  unfold gDepend at h
  split at h
  · rename_i hc
    simp only [check_ok, Bool.and_eq_true] at h
    exact ⟨h.1, hc, h.2⟩
  · rw [check_ok] at h; simp at h

theorem inv_gDepend {c : Ctx} {s : MG} {x : PS} {cert : Bool} (hs : Inv c s)
    (hclo : s.ghost.ok = true → cert = true → Clo (bitsOf s.vertices) x.bits) :
    Inv c { mf := s.mf, ghost := gDepend x cert s.ghost } := by
  intro hok
  obtain ⟨h1, h2, h3⟩ := gDepend_ok hok
  obtain ⟨lam, hl, hlx⟩ := isCand_iff h2
  have hclo' : Clo (bitsOf s.vertices) lam.bits := by rw [hlx]; exact hclo h1 h3
  have hg : gDepend x cert s.ghost = { s.ghost.check cert "dep-cert" with cand := none, verdict := true } := by
    unfold gDepend; rw [if_pos h2]
  exact inv_drop_cand hs h1 hl hclo' _ (by rw [hg]) (by rw [hg]; rfl) (by rw [hg]; rfl) hok

theorem pres_dependIncludedG (c : Ctx) (l : PS) : Pres (Inv c) (dependIncludedG l) := by
  intro s hs
  unfold dependIncludedG
  rw [modifyThe_run]
  exact inv_gDepend hs (fun _ h => Clo.base ((mem_iff _ _).1 h))

/-! ### `lit` -/

theorem pres_litG (c : Ctx) (hE : FrameLen c) (l v : PS) : Pres (Inv c) (litG l v) := by
  intro s hs
  unfold litG
  rw [withGhost_run, lit_run]
  cases hm : l.multiply v with
  | error e =>
    simp only
    intro hok
    simp only [check_ok, Bool.and_eq_true] at hok
    exact hs hok.1.1.1
  | ok p =>
    have hp := Bridge.multiply_bits hm
    simp only
    by_cases hinc : (findIn s.mf.legs p).isSome = true
    · -- the product is a vertex: the candidate is a commutator of two vertices
      rw [if_pos hinc]
      simp only
      intro hok
      have hok' := hok
      simp only [check_ok, Bool.and_eq_true, beq_iff_eq] at hok'
      obtain ⟨⟨⟨h0, hc⟩, hv⟩, ho, hlen⟩ := hok'
      obtain ⟨lam, hl, hlx⟩ := isCand_iff hc
      obtain ⟨_, _, b, _⟩ := hs h0
      have hpV := findIn_isSome hinc
      have hvV := (mem_iff _ _).1 hv
      have hVlen : ∀ g ∈ bitsOf s.vertices, g.length = 2 * c.n := by
        intro g hg; apply b g; rw [pool_bits]; simp only [List.mem_append]; tauto
      have hlamlen : l.bits.length = 2 * c.n := by
        rw [← hlx]; apply b; rw [pool_bits, hl]; simp
      have hclo : Clo (bitsOf s.vertices) lam.bits := by
        rw [hlx]
        exact clo_of_lit_included hVlen (by rw [← hp]; exact hpV) hvV hlamlen ho
      exact inv_drop_cand hs h0 hl hclo _ rfl rfl rfl hok
    · -- contraction
      rw [if_neg hinc]
      simp only
      intro hok
      simp only [check_ok, Bool.and_eq_true, beq_iff_eq] at hok
      obtain ⟨⟨⟨h0, hc⟩, hv⟩, ho, hlen⟩ := hok
      obtain ⟨lam, hl, hlx⟩ := isCand_iff hc
      obtain ⟨k, a, b, d, e⟩ := hs h0
      have hvV := (mem_iff _ _).1 hv
      have hA : Uniform c.n (bitsOf (s.pool ++ c.E)) := by
        intro g hg
        rw [bitsOf_append, List.mem_append] at hg
        exact hg.elim (b g) (hE g)
      have hlamP : lam.bits ∈ bitsOf s.pool := by rw [pool_bits, hl]; simp
      refine ⟨k, ?_, ?_, ?_, ?_⟩
      · refine CloEq.trans (CloEq.symm (cloEq_contract hA (a := lam.bits) (b := v.bits) ?_ ?_ ?_ ?_ ?_ ?_)) a
        · rw [bitsOf_append]; exact List.mem_append_left _ hlamP
        · rw [bitsOf_append, pool_bits]; simp only [List.mem_append]; tauto
        · rw [hlx]; exact ho
        · rw [hlx, ← hp]
          simp [MG.pool]
        · intro g hg hne
          revert hg
          simp only [MG.pool, MG.vertices, hl, bitsOf_append, List.mem_append, Option.toList_some, bitsOf_cons,
            bitsOf_nil, List.mem_cons, List.not_mem_nil, or_false]
          tauto
        · intro g
          rw [hlx, ← hp]
          simp only [MG.pool, MG.vertices, hl, bitsOf_append, List.mem_append, Option.toList_some, bitsOf_cons,
            bitsOf_nil, List.mem_cons, List.not_mem_nil, or_false]
          tauto
      · intro g
        simp only [MG.pool, MG.vertices, bitsOf_append, List.mem_append, Option.toList_some, bitsOf_cons,
          bitsOf_nil, List.mem_cons, List.not_mem_nil, or_false]
        have hb : ∀ g, g ∈ bitsOf s.pool → g.length = 2 * c.n := b
        simp only [MG.pool, MG.vertices, hl, bitsOf_append, List.mem_append, Option.toList_some, bitsOf_cons,
          bitsOf_nil, List.mem_cons, List.not_mem_nil, or_false] at hb
        rintro (((h | h) | h) | h)
        · exact hb g (by tauto)
        · subst h
          rw [hp]
          exact length_add_eq (by rw [← hlx]; exact hb _ (by tauto)) (hb _ (Or.inl (Or.inl (Or.inl hvV))))
        · exact hb g (by tauto)
        · exact hb g (by tauto)
      · exact d
      · exact e

/-! ### dependency verdicts of `check_dependency_one_leg` -/

theorem mg_eta (s : MG) : ({ mf := s.mf, ghost := s.ghost } : MG) = s := by cases s; rfl

theorem inv_vlen {c : Ctx} {s : MG} (hs : Inv c s) (hok : s.ghost.ok = true) :
    ∀ g ∈ bitsOf s.mf.legs.flatten, g.length = 2 * c.n := by
  intro g hg
  apply (hs hok).2.2.1 g
  rw [pool_bits]
  simp only [List.mem_append]
  exact Or.inl (Or.inl (Or.inl hg))

theorem pres_checkDepG (c : Ctx) (x : PS) : Pres (Inv c) (checkDepG x) := by
  intro s hs
  unfold checkDepG
  rw [withGhost_run]
  have hpure := C11L.pure_check x s.mf
  rw [hpure]
  cases hr : ((checkDependencyOneLeg x).run.run s.mf).1 with
  | ok a => exact hs
  | error e =>
    cases e with
    | dependent =>
      simp only
      split
      · exact inv_gDepend hs (fun hok h => memberCert_sound (inv_vlen hs hok) h)
      · split
        · rename_i lam hl
          refine inv_gDepend hs (fun hok h => ?_)
          rw [Bool.and_eq_true] at h
          exact starTripleCert_sound (inv_vlen hs hok) (memberCert_sound (inv_vlen hs hok) h.1) h.2
        · intro hok
          rw [check_ok] at hok
          simp at hok
    | _ => exact hs

/-! ### `replace` -/

theorem inv_same {c : Ctx} {s s' : MG} (hs : Inv c s) (h0 : s.ghost.ok = true)
    (hsame : sameMembers s'.pool s.pool = true) (hpr : s'.ghost.pristine = false)
    (hdep : s'.mf.dependents = s.mf.dependents) : Inv c s' := by
  intro _
  obtain ⟨k, a, b, _, e⟩ := hs h0
  have hm := sameMembers_iff hsame
  refine ⟨k, ?_, ?_, ?_, ?_⟩
  · refine CloEq.trans (cloEq_of_same_members ?_) a
    intro g
    simp only [bitsOf_append, List.mem_append]
    exact or_congr (hm g) Iff.rfl
  · intro g hgm
    exact b g ((hm g).1 hgm)
  · intro hp; rw [hpr] at hp; cases hp
  · rw [hdep]; exact e

theorem inv_replace {c : Ctx} {s : MG} {mf' : MF} {g' : Ghost} {v vNew : PS} (hs : Inv c s)
    (h0 : s.ghost.ok = true) (hc : g'.cand = s.ghost.cand) (hsp : g'.spare = s.ghost.spare)
    (hpr : g'.pristine = false) (hrep : replaceOk s.vertices mf'.legs.flatten v vNew = true)
    (hsame : sameMembers (s.ghost.cand.toList ++ s.ghost.spare ++ mf'.delayed)
      (s.ghost.cand.toList ++ s.ghost.spare ++ s.mf.delayed) = true)
    (hdep : mf'.dependents = s.mf.dependents) :
    Inv c { mf := mf', ghost := g' } := by
  intro _
  obtain ⟨k, a, b, _, e⟩ := hs h0
  have hm := sameMembers_iff hsame
  have hVlen := inv_vlen hs h0
  obtain ⟨hclo, hlen'⟩ := replaceOk_sound
    (bitsOf (s.ghost.cand.toList ++ s.ghost.spare ++ s.mf.delayed ++ c.E)) hVlen hrep
  have hpool' : ∀ g, g ∈ bitsOf (MG.pool { mf := mf', ghost := g' }) ↔
      (g ∈ bitsOf mf'.legs.flatten ∨ g ∈ bitsOf (s.ghost.cand.toList ++ s.ghost.spare ++ s.mf.delayed)) := by
    intro g
    rw [← hm g]
    simp only [MG.pool, MG.vertices, hc, hsp, bitsOf_append, List.mem_append]
    tauto
  have hpool : ∀ g, g ∈ bitsOf s.pool ↔
      (g ∈ bitsOf s.mf.legs.flatten ∨ g ∈ bitsOf (s.ghost.cand.toList ++ s.ghost.spare ++ s.mf.delayed)) := by
    intro g
    simp only [MG.pool, MG.vertices, bitsOf_append, List.mem_append]
    tauto
  refine ⟨k, ?_, ?_, ?_, ?_⟩
  · refine CloEq.trans (cloEq_of_same_members ?_) (CloEq.trans (CloEq.symm hclo)
      (CloEq.trans (cloEq_of_same_members ?_) a))
    · intro g
      rw [bitsOf_append, List.mem_append, hpool' g]
      rw [bitsOf_append (_ ++ _) c.E]
      simp only [List.mem_append]
      tauto
    · intro g
      rw [bitsOf_append s.pool, List.mem_append (s := bitsOf s.pool), hpool g]
      rw [bitsOf_append (_ ++ _) c.E]
      simp only [List.mem_append]
      tauto
  · intro g hg
    rcases (hpool' g).1 hg with h | h
    · exact hlen' g h
    · exact b g ((hpool g).2 (Or.inr h))
  · intro hp; rw [hpr] at hp; cases hp
  · show mf'.dependents = c.deps0
    rw [hdep]; exact e

theorem pres_replaceG (c : Ctx) (v vNew : PS) : Pres (Inv c) (replaceG v vNew) := by
  intro s hs
  unfold replaceG
  rw [withGhost_run]
  cases hr : ((replace v vNew).run.run s.mf).1 with
  | error e =>
    simp only
    intro hok
    have hok' := hok
    simp only [check_ok, Bool.and_eq_true] at hok'
    exact inv_same hs hok'.1 hok'.2.1 rfl (kd_replace v vNew s.mf) hok
  | ok u =>
    simp only
    intro hok
    have hok' := hok
    simp only [check_ok, Bool.and_eq_true] at hok'
    exact inv_replace hs hok'.1 rfl rfl rfl hok'.2.1.1 hok'.2.1.2 (kd_replace v vNew s.mf) hok

end C02
end PauLie
