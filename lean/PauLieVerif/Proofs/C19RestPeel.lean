/-
Helpers for property C19, part 20: the "peeling" induction for two-local families whose closure is a
proper subset `T` of the non-identity strings (a symmetry-restricted or quadratic-form-restricted
algebra).

Setting.  `T : V → Bool` is the conjectured closed form of the closure, `Cw` the closure on a short
chain of `w0` sites.  A string `x` on `n+1` sites is split as `x = r ++ p` (`p` = the last `k` sites).
All strings of the shapes

      `0…0 ++ g`            (`g` in the last `k` sites of a window of `w0` sites: `Wend`)
      `r ++ b ++ I`         (`b` on `k−1` sites, `T (r ++ b)`:  induction hypothesis)
      `0…0 ++ b ++ I`       (`T (0…0 ++ b)`:                    induction hypothesis)

are known to be generated.  They live in the space `{0, r} × (strings on k sites)`, which is encoded
as strings on `k+1` sites (`absL`, first site `X` = "tail `r` present"): sums and the symplectic form
are those of the encoding (`r + r = 0`, `ω(r, r) = 0`), so whatever the verified enumerator finds in
the closure of `absL` is generated (`abs_sound`).  A family supplies, per "state" of the tail `r`
(the finitely many Booleans through which `T (r ++ b)` depends on `r`), a kernel-evaluated check that
every target `r ++ p` is reached (`peelChk`), possibly after a family-specific reduction of
exceptional targets (`Gen`).

`peel_induction`: the induction over the chain length.  `clo_iff_of_peel`: closure of the translates
`klocalV n gs` = `{x | T x}` for all `n ≥ w0` from (upper bound) `T` holds of the generators and is
preserved by the commutator step, (lower bound) the peeling hypothesis.  Core Lean only.
-/
import PauLieVerif.Proofs.C19Window

namespace PauLie
namespace C19
open Closure Graph C01Star C03

/-- least set containing `A` and closed under sums of anticommuting members -/
inductive Gen (A : V → Prop) : V → Prop
  | base {x : V} : A x → Gen A x
  | step {x y : V} : Gen A x → Gen A y → omega x y = true → Gen A (add x y)

/-- the abstract generators: `tr b` = "`r ++ b` is a target", `t0 b` = "`0 ++ b` is a target" -/
def absL (k : Nat) (tr t0 : V → Bool) (Wend : List V) : List V :=
  Wend.map (fun g => false :: false :: g) ++
  ((allV (2 * (k - 1))).filter tr).map (fun b => true :: false :: (b ++ [false, false])) ++
  ((allV (2 * (k - 1))).filter t0).map (fun b => false :: false :: (b ++ [false, false]))

/-- the kernel-evaluable check: every target `p` (with tail) is in the closure of `absL` -/
def peelChk (k : Nat) (tr t0 tp : V → Bool) (Wend : List V) : Bool :=
  ((allV (2 * k)).filter tp).all (fun p => (closureList (absL k tr t0 Wend)).1.contains (true :: false :: p))

theorem uniform_absL {k : Nat} (hk : 1 ≤ k) {tr t0 : V → Bool} {Wend : List V}
    (hW : ∀ g ∈ Wend, g.length = 2 * k) : Uniform (k + 1) (absL k tr t0 Wend) := by
  intro e he
  simp only [absL, List.mem_append, List.mem_map, List.mem_filter, mem_allV] at he
  rcases he with (⟨g, hg, rfl⟩ | ⟨b, ⟨hb, _⟩, rfl⟩) | ⟨b, ⟨hb, _⟩, rfl⟩
  · simp [hW g hg]; omega
  · simp [hb]; omega
  · simp [hb]; omega

theorem clo_of_peelChk {k : Nat} (hk : 1 ≤ k) {tr t0 tp : V → Bool} {Wend : List V}
    (hW : ∀ g ∈ Wend, g.length = 2 * k) (h : peelChk k tr t0 tp Wend = true) {p : V}
    (hp : p.length = 2 * k) (ht : tp p = true) : Clo (absL k tr t0 Wend) (true :: false :: p) := by
  rw [peelChk, List.all_eq_true] at h
  have := h p (List.mem_filter.2 ⟨mem_allV.2 hp, ht⟩)
  exact (closureList_sound_complete (uniform_absL hk hW)).1 (List.contains_iff_mem.1 this)

/-- whatever is in the closure of the abstract generators is generated -/
theorem abs_sound {k m : Nat} {r : V} (hr : r.length = 2 * m) {L : List V} {H : V → Prop}
    (hcl : ∀ x y, H x → H y → x.length = 2 * (m + k) → y.length = 2 * (m + k) → omega x y = true → H (add x y))
    (hL : ∀ e ∈ L, ∃ f q, e = f :: false :: q ∧ q.length = 2 * k ∧ H ((if f then r else zeroV (2 * m)) ++ q))
    {e : V} (he : Clo L e) :
    ∃ f q, e = f :: false :: q ∧ q.length = 2 * k ∧ H ((if f then r else zeroV (2 * m)) ++ q) := by
  induction he with
  | base hx => exact hL _ hx
  | @step x y _ _ ho ihx ihy =>
    obtain ⟨f1, q1, rfl, l1, h1⟩ := ihx
    obtain ⟨f2, q2, rfl, l2, h2⟩ := ihy
    refine ⟨f1 != f2, add q1 q2, by simp [add], by rw [length_add_eq l1 l2], ?_⟩
    have lt : ∀ f : Bool, (if f then r else zeroV (2 * m)).length = 2 * m := by
      intro f; cases f <;> simp [hr, zeroV]
    have ho' : omega q1 q2 = true := by
      simpa [omega] using ho
    have := hcl _ _ h1 h2 (by simp [lt, l1]; omega) (by simp [lt, l2]; omega) (by
      rw [omega_append _ _ _ _ ((lt f1).trans (lt f2).symm) (by rw [lt]; omega), ho']
      cases f1 <;> cases f2 <;> simp [omega_self, omega_zero_left, omega_zero_right])
    rw [add_append _ _ _ _ ((lt f1).trans (lt f2).symm)] at this
    have e : add (if f1 then r else zeroV (2 * m)) (if f2 then r else zeroV (2 * m)) =
        (if (f1 != f2) then r else zeroV (2 * m)) := by
      cases f1 <;> cases f2 <;>
        simp [add_self_of_length hr, add_zero_left _ _ hr, add_zero_right _ _ hr, add_self_of_length (show (zeroV (2 * m)).length = 2 * m by simp [zeroV])]
    rwa [e] at this

/-- a target reached by the peeling: split, and in the closure of the abstract generators -/
def Good (k _w0 : Nat) (T : V → Bool) (Wend : List V) (N : Nat) (y : V) : Prop :=
  y.length = 2 * N ∧ ∃ m r p, 1 ≤ m ∧ m + k = N ∧ r.length = 2 * m ∧ p.length = 2 * k ∧ y = r ++ p ∧
    Clo (absL k (fun b => T (r ++ b)) (fun b => T (zeroV (2 * m) ++ b)) Wend) (true :: false :: p)

theorem gen_length {A : V → Prop} {N : Nat} (hA : ∀ y, A y → y.length = 2 * N) {x : V} (h : Gen A x) :
    x.length = 2 * N := by
  induction h with
  | base h => exact hA _ h
  | step _ _ _ ih1 ih2 => exact length_add_eq ih1 ih2

theorem emb_snoc {n w j : Nat} (y : V) (h : j + w ≤ n) : emb (n + 1) w j y = emb n w j y ++ [false, false] := by
  simp only [emb, List.append_assoc]
  congr 2
  rw [show n + 1 - w - j = (n - w - j) + 1 by omega, Nat.mul_succ, ← List.replicate_append_replicate]
  rfl

/-- **the peeling induction** -/
theorem peel_induction {k w0 : Nat} {T : V → Bool} {Cw : V → Prop} {Wend : List V}
    (hk : 1 ≤ k) (hkw : k ≤ w0)
    (hW : ∀ g ∈ Wend, g.length = 2 * k ∧ Cw (zeroV (2 * (w0 - k)) ++ g))
    (hbase : ∀ x, x.length = 2 * w0 → T x = true → Cw x)
    (hstep : ∀ (N : Nat) (x : V), w0 + 1 ≤ N → x.length = 2 * N → T x = true → Gen (Good k w0 T Wend N) x) :
    ∀ n, w0 ≤ n → ∀ H : V → Prop,
      (∀ x y, H x → H y → x.length = 2 * n → y.length = 2 * n → omega x y = true → H (add x y)) →
      (∀ j y, j + w0 ≤ n → y.length = 2 * w0 → Cw y → H (emb n w0 j y)) →
      ∀ x, x.length = 2 * n → T x = true → H x := by
  intro n hn
  obtain ⟨d, rfl⟩ := Nat.exists_eq_add_of_le hn
  clear hn
  induction d with
  | zero =>
    intro H _ hwin x hx hT
    have := hwin 0 x (by omega) hx (hbase x hx hT)
    simpa [emb] using this
  | succ d ih =>
    intro H hcl hwin x hx hT
    have hn : w0 ≤ w0 + d := by omega
    rw [← Nat.add_assoc] at hcl hwin hx
    generalize w0 + d = n at *
    -- the induction hypothesis for strings with the identity on the last site
    have ihH : ∀ y, y.length = 2 * n → T y = true → H (y ++ [false, false]) := by
      apply ih (fun r => H (r ++ [false, false]))
      · intro x y h1 h2 lx ly ho
        have := hcl _ _ h1 h2 (by simp [lx]; omega) (by simp [ly]; omega) (by
          rw [omega_append _ _ _ _ (lx.trans ly.symm) (by omega), ho]; rfl)
        rwa [add_append _ _ _ _ (lx.trans ly.symm)] at this
      · intro j y hj ly hy
        have := hwin j y (by omega) ly hy
        rwa [emb_snoc y hj] at this
    have key : ∀ y, Gen (Good k w0 T Wend (n + 1)) y → H y := by
      intro y hy
      induction hy with
      | @base y hy =>
        obtain ⟨ly, m, r, p, hm, hmk, lr, lp, rfl, hc⟩ := hy
        have hcl' : ∀ x y, H x → H y → x.length = 2 * (m + k) → y.length = 2 * (m + k) → omega x y = true →
            H (add x y) := by rw [hmk]; exact hcl
        obtain ⟨f, q, e, _, hq⟩ := abs_sound lr hcl' (L := absL k (fun b => T (r ++ b)) (fun b => T (zeroV (2 * m) ++ b)) Wend)
          (by
            intro e he
            simp only [absL, List.mem_append, List.mem_map, List.mem_filter, mem_allV] at he
            rcases he with (⟨g, hg, rfl⟩ | ⟨b, ⟨hb, hb'⟩, rfl⟩) | ⟨b, ⟨hb, hb'⟩, rfl⟩
            · refine ⟨false, g, rfl, (hW g hg).1, ?_⟩
              have := hwin (n + 1 - w0) (zeroV (2 * (w0 - k)) ++ g) (by omega) (by simp [zeroV, (hW g hg).1]; omega)
                (hW g hg).2
              have e : emb (n + 1) w0 (n + 1 - w0) (zeroV (2 * (w0 - k)) ++ g) = zeroV (2 * m) ++ g := by
                simp only [emb, zeroV, Nat.sub_self, Nat.mul_zero, List.replicate_zero, List.append_nil]
                rw [← List.append_assoc, List.replicate_append_replicate]
                congr 2; omega
              simpa [e] using this
            · refine ⟨true, b ++ [false, false], rfl, by simp [hb]; omega, ?_⟩
              have := ihH (r ++ b) (by simp [lr, hb]; omega) hb'
              simpa using this
            · refine ⟨false, b ++ [false, false], rfl, by simp [hb]; omega, ?_⟩
              have := ihH (zeroV (2 * m) ++ b) (by simp [zeroV, hb]; omega) hb'
              simpa using this)
          hc
        injection e with e1 e2
        injection e2 with _ e3
        subst e1; subst e3
        simpa using hq
      | @step a b ha hb ho iha ihb =>
        have hA : ∀ y, Good k w0 T Wend (n + 1) y → y.length = 2 * (n + 1) := fun y h => h.1
        exact hcl _ _ iha ihb (gen_length hA ha) (gen_length hA hb) ho
    exact key x (hstep (n + 1) x (by omega) hx hT)

/-- the embedded closure of a window lies in the closure of the long chain -/
theorem clo_emb_window {gs : List V} (hg : ∀ g ∈ gs, g.length = 4) {w n j : Nat} (hj : j + w ≤ n) {y : V}
    (hy : Clo (klocalV w gs) y) : Clo (klocalV n gs) (emb n w j y) := by
  have := clo_map (formMap_emb hj) (uniform_klocalV (n := w) hg) hy
  refine clo_mono ?_ this
  intro z hz
  obtain ⟨y, hy', rfl⟩ := List.mem_map.1 hz
  obtain ⟨g, hgm, k', hk', rfl⟩ := mem_klocalV.1 hy'
  rw [emb_shiftV g (by omega) hj]
  exact mem_klocalV.2 ⟨g, hgm, j + k', by omega, rfl⟩

/-- upper bound: a predicate that holds of the generators and is preserved by the commutator step holds
on the closure -/
theorem clo_sub_of_closed {n : Nat} {G : List V} (hU : Uniform n G) {T : V → Bool} (hG : ∀ g ∈ G, T g = true)
    (hT : ∀ x y, x.length = 2 * n → y.length = 2 * n → T x = true → T y = true → omega x y = true →
      T (add x y) = true) {x : V} (hx : Clo G x) : T x = true := by
  induction hx with
  | base h => exact hG _ h
  | @step a b ha hb ho iha ihb => exact hT a b (clo_length hU ha) (clo_length hU hb) iha ihb ho

/-- **closure of the translates = `T`** for all `n ≥ w0` -/
theorem clo_iff_of_peel {gs : List V} (hg : ∀ g ∈ gs, g.length = 4) {k w0 : Nat} {T : V → Bool} {Wend : List V}
    (hk : 1 ≤ k) (hkw : k ≤ w0)
    (hW : ∀ g ∈ Wend, g.length = 2 * k ∧ Clo (klocalV w0 gs) (zeroV (2 * (w0 - k)) ++ g))
    (hbase : ∀ x, x.length = 2 * w0 → T x = true → Clo (klocalV w0 gs) x)
    (hstep : ∀ (N : Nat) (x : V), w0 + 1 ≤ N → x.length = 2 * N → T x = true → Gen (Good k w0 T Wend N) x)
    (hgen : ∀ n, w0 ≤ n → ∀ g ∈ klocalV n gs, T g = true)
    (hT : ∀ n x y, x.length = 2 * n → y.length = 2 * n → T x = true → T y = true → omega x y = true →
      T (add x y) = true)
    {n : Nat} (hn : w0 ≤ n) (x : V) : Clo (klocalV n gs) x ↔ x.length = 2 * n ∧ T x = true := by
  have hU : Uniform n (klocalV n gs) := uniform_klocalV hg
  constructor
  · intro hx
    exact ⟨clo_length hU hx, clo_sub_of_closed hU (hgen n hn) (hT n) hx⟩
  · rintro ⟨hl, hx⟩
    exact peel_induction hk hkw hW hbase hstep n hn (Clo (klocalV n gs))
      (fun _ _ hx hy _ _ ho => Clo.step hx hy ho) (fun j y hj _ hy => clo_emb_window hg hj hy) x hl hx

/-- size of the closure: the number of strings of length `2n` satisfying `T` -/
theorem card_of_peel {gs : List V} (hg : ∀ g ∈ gs, g.length = 4) {T : V → Bool} {n : Nat}
    (h : ∀ x, Clo (klocalV n gs) x ↔ x.length = 2 * n ∧ T x = true) :
    (closureList (klocalV n gs)).1.length = ((allV (2 * n)).filter T).length := by
  rw [← clo_card (uniform_klocalV hg) ((nodup_allV (2 * n)).filter _) (fun x => by
    rw [List.mem_filter, mem_allV, h])]

/-- a target is `Good` when, with the tail `r` = all but the last `k` sites, `T (r ++ ·)` and `T (0 ++ ·)` are the
functions `tr`, `t0` for which the kernel check succeeded -/
theorem good_of_chk {k w0 : Nat} {T : V → Bool} {Wend : List V} {N : Nat} {x : V} (hk : 1 ≤ k)
    (hW : ∀ g ∈ Wend, g.length = 2 * k) (hN : k + 1 ≤ N) (hx : x.length = 2 * N) {tr t0 : V → Bool}
    (h1 : ∀ b, T (x.take (2 * (N - k)) ++ b) = tr b) (h0 : ∀ b, T (zeroV (2 * (N - k)) ++ b) = t0 b)
    (hchk : peelChk k tr t0 tr Wend = true) (hT : T x = true) : Good k w0 T Wend N x := by
  refine ⟨hx, N - k, x.take (2 * (N - k)), x.drop (2 * (N - k)), by omega, by omega, by simp [hx],
    by simp [hx]; omega, (List.take_append_drop _ _).symm, ?_⟩
  rw [show (fun b => T (x.take (2 * (N - k)) ++ b)) = tr from funext h1,
    show (fun b => T (zeroV (2 * (N - k)) ++ b)) = t0 from funext h0]
  apply clo_of_peelChk hk hW hchk (by simp [hx]; omega)
  rw [← h1, List.take_append_drop, hT]

/-! ### counting over `allV` two bits at a time -/

theorem allV_add_two (m : Nat) : allV (m + 2) =
    (allV m).flatMap (fun v => [false :: false :: v, true :: false :: v, false :: true :: v, true :: true :: v]) := by
  simp [allV, List.flatMap_assoc]

theorem length_filter_allV_add_two (P : V → Bool) (m : Nat) :
    ((allV (m + 2)).filter P).length =
      ((allV m).map (fun v => (if P (false :: false :: v) then 1 else 0) + (if P (true :: false :: v) then 1 else 0) +
        (if P (false :: true :: v) then 1 else 0) + (if P (true :: true :: v) then 1 else 0))).sum := by
  rw [allV_add_two, List.filter_flatMap, List.length_flatMap]
  congr 1
  apply List.map_congr_left
  intro v _
  cases h1 : P (false :: false :: v) <;> cases h2 : P (true :: false :: v) <;> cases h3 : P (false :: true :: v) <;>
    cases h4 : P (true :: true :: v) <;> simp [List.filter, h1, h2, h3, h4]

theorem sum_map_ite_add (l : List V) (Q : V → Bool) (a b : Nat) :
    (l.map (fun v => if Q v then a else b)).sum = a * (l.filter Q).length + b * (l.filter (fun v => !Q v)).length := by
  induction l with
  | nil => simp
  | cons v t ih =>
    simp only [List.map_cons, List.sum_cons, ih, List.filter_cons]
    cases Q v <;> simp [Nat.mul_succ] <;> omega

theorem length_filter_not (l : List V) (Q : V → Bool) :
    (l.filter (fun v => !Q v)).length = l.length - (l.filter Q).length := by
  have := length_filter_split Q (fun v => !Q v) (fun _ => rfl) l
  omega

end C19
end PauLie
