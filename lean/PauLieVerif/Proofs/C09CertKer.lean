/-
Transfer of the closure SIZE to a realisation with ONE linear dependency (core Lean only).

`vs = init ++ [w]` with `init` independent and `w = Σ_k init`; `ws` an independent family with the same
anticommutation pattern.  The linear map `Σ_b ws ↦ Σ_b vs` carries `Clo ws` onto `Clo vs`; its kernel is
`{0, Σ_(k ++ [true]) ws}`.  The quadratic form `q` on selections (`q(member) = 1`, polar form "anticommute")
is `1` on every member of `Clo ws`; if it is also `1` on the dependency `k ++ [true]`, two members of
`Clo ws` never differ by the kernel element (`q(x + z) = q(x) + q(z) + ω(x, z) = 1 + 1 + 0`), so the map is
injective on `Clo ws` and the closures have the same number of elements (`transfer_card_ker`).
-/
import PauLieVerif.Proofs.C09CertEq

namespace PauLie
namespace C09Cert
open Closure C01Star C01TypeB

/-- the quadratic form on selections, in terms of the proof-level `msum` -/
theorem qmask_true (m : Nat) (b : List Bool) (v : V) (vs : List V) :
    Cert.qmask m (true :: b) (v :: vs) = ((!omega v (msum m b vs)) != Cert.qmask m b vs) := by
  simp [Cert.qmask, msum_eq]

theorem qmask_false (m : Nat) (b : List Bool) (v : V) (vs : List V) :
    Cert.qmask m (false :: b) (v :: vs) = Cert.qmask m b vs := rfl

theorem qmask_noneMask (m : Nat) : ∀ (k : Nat) (vs : List V), Cert.qmask m (noneMask k) vs = false
  | 0, _ => by simp [noneMask, Cert.qmask]
  | k + 1, [] => by simp [noneMask, List.replicate_succ, Cert.qmask]
  | k + 1, v :: vs => by
    have := qmask_noneMask m k vs
    simp only [noneMask] at this
    simp [noneMask, List.replicate_succ, qmask_false, this]

/-- `q(a + b) = q(a) + q(b) + ω(Σ_a, Σ_b)` -/
theorem qmask_mxor {m : Nat} : ∀ (a b : List Bool) (vs : List V), (∀ v ∈ vs, v.length = m) →
    a.length = vs.length → b.length = vs.length →
    Cert.qmask m (mxor a b) vs
      = ((Cert.qmask m a vs != Cert.qmask m b vs) != omega (msum m a vs) (msum m b vs))
  | [], [], [], _, _, _ => by simp [Cert.qmask, omega_zero_left]
  | [], _, _ :: _, _, h, _ => by simp at h
  | _, [], _ :: _, _, _, h => by simp at h
  | _ :: _, _, [], _, h, _ => by simp at h
  | [], _ :: _, [], _, _, h => by simp at h
  | s :: a, t :: b, v :: vs, hl, ha, hb => by
    have hv := hl v (by simp)
    have hl' : ∀ x ∈ vs, x.length = m := fun x hx => hl x (by simp [hx])
    have ih := qmask_mxor a b vs hl' (by simpa using ha) (by simpa using hb)
    have la := length_msum (m := m) a vs hl'
    have lb := length_msum (m := m) b vs hl'
    have hx := msum_mxor a b vs hl' (by simpa using ha) (by simpa using hb)
    cases s <;> cases t
    · simpa [qmask_false] using ih
    · simp only [mxor_cons, Bool.false_bne, qmask_true, qmask_false, msum_true, msum_false, hx, ih,
        omega_add_right _ _ _ (la.trans lb.symm), omega_add_right _ _ _ (hv.trans lb.symm),
        omega_comm (msum m a vs) v]
      generalize omega v (msum m a vs) = x
      generalize omega v (msum m b vs) = y
      generalize omega (msum m a vs) (msum m b vs) = w
      generalize Cert.qmask m a vs = qa
      generalize Cert.qmask m b vs = qb
      cases x <;> cases y <;> cases w <;> cases qa <;> cases qb <;> rfl
    · simp only [mxor_cons, Bool.true_bne, Bool.not_false, qmask_true, qmask_false, msum_true, msum_false, hx, ih,
        omega_add_right _ _ _ (la.trans lb.symm), omega_add_left _ _ _ (hv.trans la.symm)]
      generalize omega v (msum m a vs) = x
      generalize omega v (msum m b vs) = y
      generalize omega (msum m a vs) (msum m b vs) = w
      generalize Cert.qmask m a vs = qa
      generalize Cert.qmask m b vs = qb
      cases x <;> cases y <;> cases w <;> cases qa <;> cases qb <;> rfl
    · simp only [mxor_cons, bne_self_eq_false, qmask_true, qmask_false, msum_true, ih,
        omega_add_left _ _ _ (hv.trans la.symm), omega_add_right _ _ _ (hv.trans lb.symm), omega_self,
        omega_comm (msum m a vs) v]
      generalize omega v (msum m a vs) = x
      generalize omega v (msum m b vs) = y
      generalize omega (msum m a vs) (msum m b vs) = w
      generalize Cert.qmask m a vs = qa
      generalize Cert.qmask m b vs = qb
      cases x <;> cases y <;> cases w <;> cases qa <;> cases qb <;> rfl

/-- a member is a unit selection with `q = 1`, and the same selection of `ws` is a member of `ws` -/
theorem unit_mask_q {L L' : Nat} : ∀ (vs ws : List V) (x : V), vs.length = ws.length → x ∈ vs →
    (∀ v ∈ vs, v.length = L) → (∀ w ∈ ws, w.length = L') →
    ∃ b : List Bool, b.length = vs.length ∧ msum L b vs = x ∧ msum L' b ws ∈ ws ∧ Cert.qmask L b vs = true
  | [], _, _, _, h, _, _ => by simp at h
  | _ :: _, [], _, h, _, _, _ => by simp at h
  | v :: vs, w :: ws, x, hl, hx, hv, hw => by
    rcases List.mem_cons.1 hx with rfl | hx
    · refine ⟨true :: noneMask vs.length, by simp, ?_, ?_, ?_⟩
      · rw [msum_true, msum_noneMask, add_zero_right L _ (hv _ (by simp))]
      · rw [msum_true, msum_noneMask, add_zero_right L' _ (hw _ (by simp))]; simp
      · rw [qmask_true, msum_noneMask, omega_zero_right, qmask_noneMask]; rfl
    · obtain ⟨b, h1, h2, h3, h4⟩ := unit_mask_q vs ws x (by simpa using hl) hx (fun u hu => hv u (by simp [hu]))
        (fun u hu => hw u (by simp [hu]))
      exact ⟨false :: b, by simp [h1], by simpa using h2, by simp [h3], by simpa [qmask_false] using h4⟩

/-- transfer of the closure, with the value of the quadratic form -/
theorem clo_transfer_q {L L' : Nat} {vs ws : List V} (hp : samePatB vs ws = true)
    (hv : ∀ v ∈ vs, v.length = L) (hw : ∀ w ∈ ws, w.length = L') {x : V} (hx : Clo vs x) :
    ∃ b : List Bool, b.length = vs.length ∧ x = msum L b vs ∧ Clo ws (msum L' b ws) ∧ Cert.qmask L b vs = true := by
  have hl : vs.length = ws.length := samePat_length hp
  induction hx with
  | base hg =>
    obtain ⟨b, h1, h2, h3, h4⟩ := unit_mask_q vs ws _ hl hg hv hw
    exact ⟨b, h1, h2.symm, Clo.base h3, h4⟩
  | step _ _ ho ihx ihy =>
    obtain ⟨a, la, rfl, ca, qa⟩ := ihx
    obtain ⟨b, lb, rfl, cb, qb⟩ := ihy
    refine ⟨mxor a b, by rw [length_mxor a b (la.trans lb.symm), la], (msum_mxor a b vs hv la lb).symm, ?_, ?_⟩
    · rw [msum_mxor a b ws hw (la.trans hl) (lb.trans hl)]
      refine Clo.step ca cb ?_
      rw [← omega_mat hv hw b a vs ws hp hv hw]
      exact ho
    · rw [qmask_mxor a b vs hv la lb, qa, qb, ho]; rfl

theorem noneMask_snoc (k : Nat) : noneMask k ++ [false] = noneMask (k + 1) := by
  simp [noneMask, List.replicate_succ']

/-- the selections of `init ++ [w]` with sum zero, when `init` is independent and `w = Σ_k init` -/
theorem ker_snoc {m : Nat} {init : List V} {w : V} {k : List Bool} (hl : ∀ v ∈ init, v.length = m)
    (hw : w.length = m) (hI : Indep m init) (hk : k.length = init.length) (hkw : msum m k init = w)
    (d : List Bool) (hd : d.length = init.length + 1) (h0 : msum m d (init ++ [w]) = zeroV m) :
    d = noneMask (init.length + 1) ∨ d = k ++ [true] := by
  have hne : d ≠ [] := by intro h; rw [h] at hd; simp at hd
  have hsplit := List.dropLast_concat_getLast hne
  have hdl : d.dropLast.length = init.length := by simp [hd]
  rw [← hsplit] at h0
  rw [msum_snoc (d.getLast hne) w hw d.dropLast init hdl hl] at h0
  cases ht : d.getLast hne with
  | false =>
    rw [ht] at h0
    simp only [Bool.false_eq_true, if_false] at h0
    left
    rw [← hsplit, ht, hI _ hdl h0, noneMask_snoc]
  | true =>
    rw [ht] at h0
    simp only [if_true] at h0
    right
    have e : msum m d.dropLast init = w := (add_eq_zero_iff (length_msum _ _ hl) hw).1 h0
    have := hI.inj hl hdl hk (e.trans hkw.symm)
    rw [← hsplit, ht, this]

/-- **one dependency, `q = 1` on it: the closures have the same size** -/
theorem transfer_card_ker {n n' : Nat} {init ws : List V} {w : V} {k : List Bool}
    (hp : samePatB (init ++ [w]) ws = true)
    (hv : Uniform n (init ++ [w])) (hw : Uniform n' ws) (hIw : Indep (2 * n') ws)
    (hIi : Indep (2 * n) init) (hk : k.length = init.length) (hkw : msum (2 * n) k init = w)
    (hq : Cert.qmask (2 * n') (k ++ [true]) ws = true) :
    (closureList (init ++ [w])).1.length = (closureList ws).1.length := by
  have hl : (init ++ [w]).length = ws.length := samePat_length hp
  have hli : ∀ v ∈ init, v.length = 2 * n := fun v h => hv v (by simp [h])
  have hlw : w.length = 2 * n := hv w (by simp)
  -- the selection of a member of `Clo ws` has `q = 1`
  have hQ : ∀ a : List Bool, a.length = ws.length → Clo ws (msum (2 * n') a ws) →
      Cert.qmask (2 * n') a ws = true := by
    intro a la ca
    obtain ⟨a', la', e, _, qa⟩ := clo_transfer_q (samePatB_symm hp) hw hv ca
    rwa [← hIw.inj hw la la' e] at qa
  -- injectivity on the closure
  have hInj : ∀ a b : List Bool, a.length = (init ++ [w]).length → b.length = (init ++ [w]).length →
      Clo ws (msum (2 * n') a ws) → Clo ws (msum (2 * n') b ws) →
      msum (2 * n) a (init ++ [w]) = msum (2 * n) b (init ++ [w]) → a = b := by
    intro a b la lb ca cb e
    have h0 : msum (2 * n) (mxor a b) (init ++ [w]) = zeroV (2 * n) := by
      rw [msum_mxor a b _ hv la lb, e, add_self_of_length (length_msum b _ hv)]
    have ld : (mxor a b).length = init.length + 1 := by
      rw [length_mxor a b (la.trans lb.symm), la]; simp
    rcases ker_snoc hli hlw hIi hk hkw (mxor a b) ld h0 with h | h
    · apply mxor_eq_noneMask (la.trans lb.symm)
      rw [h, la]; simp
    · exfalso
      have q1 := qmask_mxor a b ws hw (la.trans hl) (lb.trans hl)
      rw [h, hq, hQ a (la.trans hl) ca, hQ b (lb.trans hl) cb,
        ← omega_mat hv hw b a _ ws hp hv hw, e, omega_self] at q1
      cases q1
  let M := (allMasks (init ++ [w]).length).filter (fun b => (closureList ws).1.contains (msum (2 * n') b ws))
  have hM : ∀ b, b ∈ M ↔ b.length = (init ++ [w]).length ∧ Clo ws (msum (2 * n') b ws) := by
    intro b
    simp only [M, List.mem_filter, mem_allMasks, List.contains_iff_mem, closureList_sound_complete hw]
  have hMnd : M.Nodup := (nodup_allMasks _).filter _
  have e1 : (M.map (fun b => msum (2 * n) b (init ++ [w]))).length = (closureList (init ++ [w])).1.length := by
    apply clo_card hv
    · exact nodup_map_of_inj_on hMnd (fun a ha b hb e =>
        hInj a b ((hM a).1 ha).1 ((hM b).1 hb).1 ((hM a).1 ha).2 ((hM b).1 hb).2 e)
    · intro x
      simp only [List.mem_map]
      constructor
      · rintro ⟨b, hb, rfl⟩
        obtain ⟨b', lb', e, c⟩ := clo_transfer (samePatB_symm hp) hw hv ((hM b).1 hb).2
        rwa [← hIw.inj hw (((hM b).1 hb).1.trans hl) lb' e] at c
      · intro hx
        obtain ⟨b, lb, rfl, c⟩ := clo_transfer hp hv hw hx
        exact ⟨b, (hM b).2 ⟨lb, c⟩, rfl⟩
  have e2 : (M.map (fun b => msum (2 * n') b ws)).length = (closureList ws).1.length := by
    apply clo_card hw
    · exact nodup_map_of_inj_on hMnd (fun a ha b hb e =>
        hIw.inj hw (((hM a).1 ha).1.trans hl) (((hM b).1 hb).1.trans hl) e)
    · intro x
      simp only [List.mem_map]
      constructor
      · rintro ⟨b, hb, rfl⟩
        exact ((hM b).1 hb).2
      · intro hx
        obtain ⟨b, lb, rfl, _⟩ := clo_transfer (samePatB_symm hp) hw hv hx
        exact ⟨b, (hM b).2 ⟨lb.trans hl.symm, hx⟩, rfl⟩
  rw [← e1, ← e2, List.length_map, List.length_map]

end C09Cert
end PauLie
