/-
For EVEN `k` the left search succeeds from `X_1` to every non-identity left string: the walk graph of
`left_a_minimal(k) = {X_i, Z_i, Z…Z}` (multiply by a generator that anticommutes with the current string)
is connected on the `4^k - 1` non-identity strings.

Argument (on texts): a single-site generator moves a non-identity letter to any other non-identity
letter, so two texts with the same support are connected (`sconn_sameSupp`); `Z…Z` anticommutes with a
text that has an odd number of `X`/`Y` letters and then turns `I ↔ Z`, `X ↔ Y`.  A text with ODD support is
made all-`X` on its support, `Z…Z` gives full support, hence the all-`Y` text (`conn_odd`).  A text with EVEN,
non-empty support is made `X` on its first support site and `Z` on the others; `Z…Z` then gives support
`{first} ∪ complement`, of size `1 + k - |S|`, odd because `k` is even (`conn_even`).
-/
import PauLieVerif.Proofs.CompilerFuelOdd

namespace PauLie
namespace CompilerSearch
open Compiler C07
open C14 (lanti lmul wanti wmul)

/-- connectivity over a set of generator texts: repeatedly multiply by a generator that anticommutes -/
inductive Conn (G : List Letter → Prop) : List Letter → List Letter → Prop
  | refl (p : List Letter) : Conn G p p
  | step {p r : List Letter} (a : List Letter) (ha : G a) (hw : wanti a p = true) (h : Conn G (wmul a p) r) : Conn G p r

theorem Conn.trans {G : List Letter → Prop} {p q r : List Letter} (h1 : Conn G p q) (h2 : Conn G q r) : Conn G p r := by
  induction h1 with
  | refl p => exact h2
  | step a ha hw _ ih => exact .step a ha hw (ih h2)

theorem Conn.one {G : List Letter → Prop} {p : List Letter} (a : List Letter) (ha : G a) (hw : wanti a p = true) :
    Conn G p (wmul a p) := .step a ha hw (.refl _)

theorem Conn.mono {G G' : List Letter → Prop} (hG : ∀ a, G a → G' a) {p q : List Letter} (h : Conn G p q) :
    Conn G' p q := by
  induction h with
  | refl p => exact .refl p
  | step a ha hw _ ih => exact .step a (hG a ha) hw ih

/-- the single-site generators `X_i`, `Z_i` on `k` sites -/
def SGen (k : Nat) (a : List Letter) : Prop := ∃ i l, i < k ∧ (l = Letter.X ∨ l = Letter.Z) ∧ a = single k i l
/-- `left_a_minimal(k)` as texts -/
def LGen (k : Nat) (a : List Letter) : Prop := SGen k a ∨ a = List.replicate k Letter.Z

theorem LGen_mem {k : Nat} {a : List Letter} (h : LGen k a) : a ∈ leftLetters k := by
  rcases h with ⟨i, l, hi, hl, rfl⟩ | rfl
  · exact mem_leftLetters.mpr (Or.inl ⟨i, hi, by rcases hl with rfl | rfl <;> simp⟩)
  · exact mem_leftLetters.mpr (Or.inr rfl)

theorem single_succ (k i : Nat) (l : Letter) : single (k + 1) (i + 1) l = Letter.I :: single k i l := by
  simp [single, List.replicate_succ]
theorem single_zero (k : Nat) (l : Letter) : single (k + 1) 0 l = l :: ident k := by
  simp [single, List.replicate_succ]

theorem wanti_ident : ∀ (k : Nat) (p : List Letter), wanti (ident k) p = false
  | 0, p => by cases p <;> rfl
  | k + 1, [] => rfl
  | k + 1, c :: p => by
    have := wanti_ident k p
    simp only [ident] at this
    simp [ident, List.replicate_succ, wanti, this]
    cases c <;> rfl

theorem wmul_ident : ∀ (p : List Letter), wmul (ident p.length) p = p
  | [] => rfl
  | c :: p => by
    have := wmul_ident p
    simp only [ident, wmul] at this
    simp only [ident, wmul, List.length_cons, List.replicate_succ, List.zipWith_cons_cons, this]
    cases c <;> rfl

/-- single-site connectivity lifts under a new first site -/
theorem sconn_cons (k : Nat) (c : Letter) {p q : List Letter} (h : Conn (SGen k) p q) :
    Conn (SGen (k + 1)) (c :: p) (c :: q) := by
  induction h with
  | refl p => exact .refl _
  | @step p r a ha hw _ ih =>
    obtain ⟨i, l, hi, hl, rfl⟩ := ha
    refine .step (Letter.I :: single k i l) ⟨i + 1, l, by omega, hl, (single_succ k i l).symm⟩ ?_ ?_
    · simp only [wanti, hw]; cases c <;> rfl
    · have : wmul (Letter.I :: single k i l) (c :: p) = c :: wmul (single k i l) p := by
        simp only [wmul, List.zipWith_cons_cons]; cases c <;> rfl
      rw [this]; exact ih

/-- one move at the first site -/
theorem head_one (l c : Letter) (hl : l = Letter.X ∨ l = Letter.Z) (p : List Letter) (h : lanti l c = true) :
    Conn (SGen (p.length + 1)) (c :: p) (lmul l c :: p) := by
  have hg : SGen (p.length + 1) (l :: ident p.length) := ⟨0, l, by omega, hl, (single_zero _ l).symm⟩
  have hw : wanti (l :: ident p.length) (c :: p) = true := by
    simp only [wanti, wanti_ident, h]; rfl
  have hm : wmul (l :: ident p.length) (c :: p) = lmul l c :: p := by
    have := wmul_ident p
    simp only [wmul] at this ⊢
    simp only [List.zipWith_cons_cons, this]
  have := Conn.one (G := SGen (p.length + 1)) _ hg hw
  rw [hm] at this
  exact this

/-- any non-identity letter at the first site can be turned into any other -/
theorem head_change (c c' : Letter) (hc : c ≠ Letter.I) (hc' : c' ≠ Letter.I) (p : List Letter) :
    Conn (SGen (p.length + 1)) (c :: p) (c' :: p) := by
  cases c <;> cases c' <;> first
    | exact absurd rfl hc
    | exact absurd rfl hc'
    | exact .refl _
    | exact head_one .Z .X (Or.inr rfl) p rfl                                        -- X → Y
    | exact (head_one .Z .X (Or.inr rfl) p rfl).trans (head_one .X .Y (Or.inl rfl) p rfl)   -- X → Z
    | exact head_one .Z .Y (Or.inr rfl) p rfl                                        -- Y → X
    | exact head_one .X .Y (Or.inl rfl) p rfl                                        -- Y → Z
    | exact head_one .X .Z (Or.inl rfl) p rfl                                        -- Z → Y
    | exact (head_one .X .Z (Or.inl rfl) p rfl).trans (head_one .Z .Y (Or.inr rfl) p rfl)   -- Z → X

/-- same support -/
abbrev SameSupp (p q : List Letter) : Prop := List.Forall₂ (fun a b : Letter => (a = Letter.I ↔ b = Letter.I)) p q

/-- **texts with the same support are connected by single-site moves** -/
theorem sconn_sameSupp {p q : List Letter} (h : SameSupp p q) : Conn (SGen p.length) p q := by
  induction h with
  | nil => exact .refl _
  | cons hab hpq ih =>
    rename_i a b p q
    have hlen : p.length = q.length := hpq.length_eq
    refine (sconn_cons p.length a ih).trans ?_
    by_cases ha : a = Letter.I
    · have hb : b = Letter.I := hab.mp ha
      rw [ha, hb]; exact .refl _
    · have hb : b ≠ Letter.I := fun hb => ha (hab.mpr hb)
      have := head_change a b ha hb q
      rw [← hlen] at this
      exact this

theorem sconn_to_lconn {k : Nat} {p q : List Letter} (h : Conn (SGen k) p q) : Conn (LGen k) p q :=
  h.mono (fun _ ha => Or.inl ha)

/-! ### the generator `Z…Z` -/

/-- parity of the number of `X`/`Y` letters -/
def xpar : List Letter → Bool
  | [] => false
  | c :: t => lanti Letter.Z c != xpar t

theorem wanti_allZ : ∀ (p : List Letter), wanti (List.replicate p.length Letter.Z) p = xpar p
  | [] => rfl
  | c :: p => by simp [List.replicate_succ, wanti, xpar, wanti_allZ p]

theorem wmul_allZ : ∀ (p : List Letter), wmul (List.replicate p.length Letter.Z) p = p.map (lmul Letter.Z)
  | [] => rfl
  | c :: p => by
    have := wmul_allZ p
    simp only [wmul] at this
    simp [List.replicate_succ, wmul, this]

theorem conn_allZ (p : List Letter) (h : xpar p = true) : Conn (LGen p.length) p (p.map (lmul Letter.Z)) := by
  have := Conn.one (G := LGen p.length) (p := p) (List.replicate p.length Letter.Z) (Or.inr rfl) (by rw [wanti_allZ, h])
  rw [wmul_allZ] at this
  exact this

/-- parity of the size of the support -/
def oddS : List Letter → Bool
  | [] => false
  | c :: t => (c != Letter.I) != oddS t

/-- parity of the length -/
def lenPar : List Letter → Bool
  | [] => false
  | _ :: t => !lenPar t

/-- some letter is not `I` -/
def hasN : List Letter → Bool
  | [] => false
  | c :: t => (c != Letter.I) || hasN t

def suppTo (x : Letter) (c : Letter) : Letter := if c = Letter.I then Letter.I else x

theorem sameSupp_suppTo (x : Letter) (hx : x ≠ Letter.I) : ∀ (p : List Letter), SameSupp p (p.map (suppTo x))
  | [] => .nil
  | c :: p => .cons (by cases c <;> simp [suppTo, hx]) (sameSupp_suppTo x hx p)

theorem xpar_suppX : ∀ (p : List Letter), xpar (p.map (suppTo .X)) = oddS p
  | [] => rfl
  | c :: p => by simp only [List.map_cons, xpar, oddS, xpar_suppX p]; cases c <;> rfl

theorem xpar_suppZ : ∀ (p : List Letter), xpar (p.map (suppTo .Z)) = false
  | [] => rfl
  | c :: p => by simp only [List.map_cons, xpar, xpar_suppZ p]; cases c <;> rfl

theorem sameSupp_full : ∀ (p : List Letter), SameSupp ((p.map (suppTo .X)).map (lmul .Z)) (List.replicate p.length Letter.Y)
  | [] => .nil
  | c :: p => by
    simp only [List.map_cons, List.length_cons, List.replicate_succ]
    exact .cons (by cases c <;> simp [suppTo, lmul, Letter.ofCode, Letter.code]) (sameSupp_full p)

/-- **odd support ⇒ connected to the all-`Y` text** -/
theorem conn_odd (p : List Letter) (h : oddS p = true) : Conn (LGen p.length) p (List.replicate p.length Letter.Y) := by
  have h1 : Conn (LGen p.length) p (p.map (suppTo .X)) :=
    sconn_to_lconn (sconn_sameSupp (sameSupp_suppTo .X (by decide) p))
  have h2 := conn_allZ (p.map (suppTo .X)) (by rw [xpar_suppX, h])
  have h3 := sconn_to_lconn (sconn_sameSupp (sameSupp_full p))
  simp only [List.length_map] at h2 h3
  exact h1.trans (h2.trans h3)

/-- first support site ↦ `X`, the other support sites ↦ `Z` -/
def mark1 : List Letter → List Letter
  | [] => []
  | c :: t => if c = Letter.I then Letter.I :: mark1 t else Letter.X :: t.map (suppTo .Z)

theorem sameSupp_mark1 : ∀ (p : List Letter), SameSupp p (mark1 p)
  | [] => .nil
  | c :: p => by
    unfold mark1
    split
    · rename_i hc; exact .cons (by simp [hc]) (sameSupp_mark1 p)
    · rename_i hc; exact .cons (by simp [hc]) (sameSupp_suppTo .Z (by decide) p)

theorem length_mark1 (p : List Letter) : (mark1 p).length = p.length := (sameSupp_mark1 p).length_eq.symm

theorem xpar_mark1 : ∀ (p : List Letter), hasN p = true → xpar (mark1 p) = true
  | [], h => by simp [hasN] at h
  | c :: p, h => by
    unfold mark1
    split
    · rename_i hc
      subst hc
      have : hasN p = true := by simpa [hasN] using h
      simp only [xpar, xpar_mark1 p this]; rfl
    · simp only [xpar, xpar_suppZ]; rfl

theorem oddS_compl : ∀ (p : List Letter), oddS ((p.map (suppTo .Z)).map (lmul .Z)) = (lenPar p != oddS p)
  | [] => rfl
  | c :: p => by
    simp only [List.map_cons, oddS, lenPar, oddS_compl p]
    cases c <;> cases lenPar p <;> cases oddS p <;> rfl

theorem oddS_mark1 : ∀ (p : List Letter), hasN p = true →
    oddS ((mark1 p).map (lmul .Z)) = !(lenPar p != oddS p)
  | [], h => by simp [hasN] at h
  | c :: p, h => by
    unfold mark1
    split
    · rename_i hc
      subst hc
      have hp : hasN p = true := by simpa [hasN] using h
      simp only [List.map_cons, oddS, lenPar, oddS_mark1 p hp]
      cases lenPar p <;> cases oddS p <;> rfl
    · rename_i hc
      simp only [List.map_cons, oddS, lenPar, oddS_compl p]
      cases c <;> first | exact absurd rfl hc | (cases lenPar p <;> cases oddS p <;> rfl)

/-- **even length, non-identity ⇒ connected to the all-`Y` text** -/
theorem conn_full (p : List Letter) (heven : lenPar p = false) (hn : hasN p = true) :
    Conn (LGen p.length) p (List.replicate p.length Letter.Y) := by
  cases ho : oddS p with
  | true => exact conn_odd p ho
  | false =>
    have h1 : Conn (LGen p.length) p (mark1 p) := sconn_to_lconn (sconn_sameSupp (sameSupp_mark1 p))
    have h2 := conn_allZ (mark1 p) (xpar_mark1 p hn)
    have h3 := conn_odd ((mark1 p).map (lmul .Z)) (by rw [oddS_mark1 p hn, heven, ho]; rfl)
    simp only [List.length_map, length_mark1] at h2 h3
    exact h1.trans (h2.trans h3)

/-- connectivity over `left_a_minimal(k)` is symmetric -/
theorem Conn.symm_L {k : Nat} {p q : List Letter} (h : Conn (LGen k) p q) (hp : p.length = k) : Conn (LGen k) q p := by
  induction h with
  | refl p => exact .refl p
  | @step p r a ha hw _ ih =>
    have hal : a.length = p.length := by rw [length_of_mem_leftLetters (LGen_mem ha), hp]
    have hml : (wmul a p).length = k := by rw [C14.wmul_length a p hal, length_of_mem_leftLetters (LGen_mem ha)]
    have hback := Conn.one (G := LGen k) (p := wmul a p) a ha (by rw [C14.wanti_wmul a p hal, hw])
    rw [C14.wmul_wmul a p hal] at hback
    exact (ih hml).trans hback

/-- from texts to walks of model strings -/
theorem Conn.walk {k : Nat} {p q : List Letter} (h : Conn (LGen k) p q) (hp : p.length = k) :
    ∃ l, Walk (aset k) (PS.ofLetters p) l (PS.ofLetters q) := by
  induction h with
  | refl p => exact ⟨[], .nil _⟩
  | @step p r a ha hw _ ih =>
    have hak : a.length = k := length_of_mem_leftLetters (LGen_mem ha)
    have hal : a.length = p.length := by rw [hak, hp]
    obtain ⟨l, hl⟩ := ih (by rw [C14.wmul_length a p hal, hak])
    refine ⟨PS.ofLetters a :: l, .cons ⟨List.mem_map.mpr ⟨a, LGen_mem ha, rfl⟩, ?_, C14.multiply_ofLetters hal⟩ hl⟩
    rw [C14.commutes_ofLetters hal, hw]; rfl

theorem lenPar_eq : ∀ (p : List Letter), lenPar p = (p.length % 2 == 1)
  | [] => rfl
  | _ :: p => by
    simp only [lenPar, lenPar_eq p, List.length_cons]
    rcases Nat.mod_two_eq_zero_or_one p.length with h | h <;> simp [Nat.add_mod, h]

/-- **for even `k` every non-identity left string is reachable from `X_1`** over `left_a_minimal(k)` -/
theorem even_reach (k : Nat) (hk : 1 ≤ k) (heven : k % 2 = 0) (v : List Letter) (hv : v.length = k) (hn : hasN v = true) :
    ∃ l, Walk (aset k) (PS.ofLetters (single k 0 .X)) l (PS.ofLetters v) := by
  have hx0 : hasN (single k 0 .X) = true := by
    obtain ⟨k', rfl⟩ : ∃ k', k = k' + 1 := ⟨k - 1, by omega⟩
    rw [single_zero]; rfl
  have hlp : ∀ p : List Letter, p.length = k → lenPar p = false := by
    intro p hp; rw [lenPar_eq, hp, heven]; rfl
  have c1 := conn_full (single k 0 .X) (hlp _ (length_single ..)) hx0
  have c2 := conn_full v (hlp v hv) hn
  rw [length_single] at c1
  rw [hv] at c2
  exact (c1.trans (c2.symm_L hv)).walk (length_single ..)

/-- **for even `k` the walk graph is connected**: any two non-identity left strings are joined by a walk -/
theorem even_connected (k : Nat) (heven : k % 2 = 0) (p q : List Letter) (hp : p.length = k) (hq : q.length = k)
    (hpn : hasN p = true) (hqn : hasN q = true) :
    ∃ l, Walk (aset k) (PS.ofLetters p) l (PS.ofLetters q) := by
  have hlp : ∀ x : List Letter, x.length = k → lenPar x = false := by
    intro x hx; rw [lenPar_eq, hx, heven]; rfl
  have c1 := conn_full p (hlp p hp) hpn
  have c2 := conn_full q (hlp q hq) hqn
  rw [hp] at c1
  rw [hq] at c2
  exact (c1.trans (c2.symm_L hq)).walk hp

end CompilerSearch
end PauLie
