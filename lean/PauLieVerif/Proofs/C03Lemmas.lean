/-
Helper lemmas for property C03, part 1: the list of connected components that
`Graph.components` returns is *canonical* - it depends only on the set of
members of the collection, not on their order or multiplicity.

Route: every component is the connectivity class of a member
(`C14.components_spec`), sorted by the printed text (`strLe`, a total order that
is antisymmetric on synchronised strings); the outer sort key (size descending,
then first member) is a total preorder that is antisymmetric on pairwise
disjoint non-empty lists; two sorted lists that are permutations of each other
under such an order are equal (`List.Perm.eq_of_pairwise`).
-/
import PauLieVerif.Proofs.C14Lemmas
import PauLieVerif.Model.Classify

namespace PauLie
namespace C03

open PS Graph C14

/-! ## the order on printed texts -/

theorem toChar_injective : ∀ a b : Letter, a.toChar = b.toChar → a = b := by
  intro a b h; cases a <;> cases b <;> first | rfl | (exact absurd h (by decide))

theorem map_toChar_inj : ∀ v w : List Letter, v.map Letter.toChar = w.map Letter.toChar → v = w
  | [], [], _ => rfl
  | [], _ :: _, h => by simp at h
  | _ :: _, [], h => by simp at h
  | a :: v, b :: w, h => by
    simp only [List.map_cons, List.cons.injEq] at h
    rw [toChar_injective a b h.1, map_toChar_inj v w h.2]

theorem toString_inj {p q : PS} (hp : p.WF) (hq : q.WF) (h : p.toString = q.toString) : p = q := by
  obtain ⟨v, rfl, _⟩ := exists_letters hp
  obtain ⟨w, rfl, _⟩ := exists_letters hq
  simp only [PS.toString, C18.letters_ofLetters] at h
  have h2 := String.ofList_injective h
  have : v = w := map_toChar_inj v w h2
  rw [this]

theorem strLe_trans (a b c : PS) (h1 : strLe a b = true) (h2 : strLe b c = true) :
    strLe a c = true := by
  simp only [strLe, decide_eq_true_eq] at *
  exact String.le_trans h1 h2

theorem strLe_total (a b : PS) : (strLe a b || strLe b a) = true := by
  simp only [strLe, Bool.or_eq_true, decide_eq_true_eq]
  exact String.le_total _ _

theorem strLe_antisymm {a b : PS} (ha : a.WF) (hb : b.WF) (h1 : strLe a b = true)
    (h2 : strLe b a = true) : a = b := by
  simp only [strLe, decide_eq_true_eq] at *
  exact toString_inj ha hb (String.le_antisymm h1 h2)

/-! ## the order on components -/

/-- the key of the outer sort of `components`: size descending, then first member -/
def compLe (a b : List PS) : Bool :=
  decide (a.length > b.length) || (a.length == b.length &&
    (match a, b with | x :: _, y :: _ => strLe x y | _, _ => true))

theorem components_eq' (verts : List PS) (edges : List (PS × PS)) :
    components verts edges =
      ((rawComps verts edges).map (fun c => c.mergeSort strLe)).mergeSort compLe := rfl

theorem compLe_trans (a b c : List PS) (h1 : compLe a b = true) (h2 : compLe b c = true) :
    compLe a c = true := by
  unfold compLe at *
  simp only [Bool.or_eq_true, decide_eq_true_eq, Bool.and_eq_true, _root_.beq_iff_eq] at *
  rcases h1 with h1 | ⟨h1, h1'⟩
  · rcases h2 with h2 | ⟨h2, _⟩
    · left; omega
    · left; omega
  · rcases h2 with h2 | ⟨h2, h2'⟩
    · left; omega
    · right
      refine ⟨h1.trans h2, ?_⟩
      cases a with
      | nil => simp
      | cons x a =>
        cases c with
        | nil => simp
        | cons z c =>
          cases b with
          | nil => simp at h1
          | cons y b => exact strLe_trans x y z h1' h2'

theorem compLe_total (a b : List PS) : (compLe a b || compLe b a) = true := by
  unfold compLe
  simp only [Bool.or_eq_true, decide_eq_true_eq, Bool.and_eq_true, _root_.beq_iff_eq]
  rcases Nat.lt_trichotomy a.length b.length with h | h | h
  · right; left; exact h
  · cases a with
    | nil => left; right; exact ⟨h, by simp⟩
    | cons x a =>
      cases b with
      | nil => simp at h
      | cons y b =>
        have := strLe_total x y
        simp only [Bool.or_eq_true] at this
        rcases this with t | t
        · left; right; exact ⟨h, t⟩
        · right; right; exact ⟨h.symm, t⟩
  · left; left; exact h

/-- on non-empty lists the key decides the first members -/
theorem compLe_antisymm_head {a b : List PS} (ha : a ≠ []) (h1 : compLe a b = true)
    (h2 : compLe b a = true) :
    ∃ x y, x ∈ a ∧ y ∈ b ∧ strLe x y = true ∧ strLe y x = true := by
  unfold compLe at *
  simp only [Bool.or_eq_true, decide_eq_true_eq, Bool.and_eq_true, _root_.beq_iff_eq] at *
  have hl : a.length = b.length := by
    rcases h1 with h1 | ⟨h1, _⟩
    · rcases h2 with h2 | ⟨h2, _⟩ <;> omega
    · exact h1
  cases a with
  | nil => exact absurd rfl ha
  | cons x a =>
    cases b with
    | nil => simp at hl
    | cons y b =>
      rcases h1 with h1 | ⟨_, h1⟩
      · omega
      · rcases h2 with h2 | ⟨_, h2⟩
        · omega
        · exact ⟨x, y, by simp, by simp, h1, h2⟩

/-! ## `Pairwise` helper -/

theorem pairwise_rel_of_ne {α : Type} {R : α → α → Prop} (hs : ∀ a b, R a b → R b a)
    {l : List α} (hp : l.Pairwise R) {a b : α} (ha : a ∈ l) (hb : b ∈ l) (hne : a ≠ b) : R a b := by
  induction l with
  | nil => cases ha
  | cons x t ih =>
    rw [List.pairwise_cons] at hp
    rcases List.mem_cons.mp ha with rfl | ha'
    · rcases List.mem_cons.mp hb with rfl | hb'
      · exact absurd rfl hne
      · exact hp.1 b hb'
    · rcases List.mem_cons.mp hb with rfl | hb'
      · exact hs _ _ (hp.1 a ha')
      · exact ih hp.2 ha' hb'

/-! ## connectivity depends only on the set of members -/

theorem conn_congr {E E' : List (PS × PS)}
    (h : ∀ c d, ((c, d) ∈ E ∨ (d, c) ∈ E) → ((c, d) ∈ E' ∨ (d, c) ∈ E'))
    {a b : PS} (hc : Conn E a b) : Conn E' a b := by
  induction hc with
  | refl e => exact .refl e
  | tail _ h2 h3 h4 ih => exact .tail ih h2 (h _ _ h3) h4

theorem conn_subgraphEdges {n : Nat} {G G' : List PS} (hG : Uniform n G) (hG' : Uniform n G')
    (hmem : ∀ x, x ∈ G ↔ x ∈ G') {a b : PS} :
    Conn (subgraphEdges G) a b ↔ Conn (subgraphEdges G') a b := by
  constructor
  · apply conn_congr
    intro c d h
    obtain ⟨h1, h2, h3⟩ := (subgraphEdges_symm hG c d).mp h
    exact (subgraphEdges_symm hG' c d).mpr ⟨(hmem c).mp h1, (hmem d).mp h2, h3⟩
  · apply conn_congr
    intro c d h
    obtain ⟨h1, h2, h3⟩ := (subgraphEdges_symm hG' c d).mp h
    exact (subgraphEdges_symm hG c d).mpr ⟨(hmem c).mpr h1, (hmem d).mpr h2, h3⟩

/-! ## facts about the components of a collection -/

structure CompFacts (G : List PS) (cs : List (List PS)) : Prop where
  inner : ∀ c ∈ cs, c.Pairwise (fun a b => strLe a b = true)
  outer : cs.Pairwise (fun a b => compLe a b = true)
  ne : ∀ c ∈ cs, c ≠ []
  nodup : ∀ c ∈ cs, c.Nodup
  sub : ∀ c ∈ cs, ∀ x ∈ c, x ∈ G
  cls : ∀ c ∈ cs, ∃ r ∈ G, r ∈ c ∧ ∀ y, containsPS c y = true ↔ Conn (subgraphEdges G) r y
  disj : cs.Pairwise Disj
  cover : ∀ v ∈ G, ∃ c ∈ cs, containsPS c v = true

theorem compFacts {n : Nat} {G : List PS} (hG : Uniform n G) :
    CompFacts G (components G (subgraphEdges G)) := by
  obtain ⟨hE, hsub⟩ := subgraph_aux hG
  have hE' : ∀ e ∈ subgraphEdges G, containsPS G e.1 = true ∧ containsPS G e.2 = true :=
    fun e he => ⟨containsPS_of_mem (hE e he).1, containsPS_of_mem (hE e he).2⟩
  obtain ⟨s1, s2, s3⟩ := components_spec G (subgraphEdges G) hE'
  refine ⟨?_, ?_, ?_, ?_, hsub, ?_, s2, s3⟩
  · intro c hc
    rw [components_eq', List.mem_mergeSort, List.mem_map] at hc
    obtain ⟨c0, _, rfl⟩ := hc
    exact List.pairwise_mergeSort strLe_trans strLe_total c0
  · rw [components_eq']
    exact List.pairwise_mergeSort compLe_trans compLe_total _
  · intro c hc
    obtain ⟨r, _, hr, _⟩ := s1 c hc
    exact List.ne_nil_of_mem hr
  · intro c hc
    obtain ⟨r, _, _, hb, _⟩ := s1 c hc
    exact List.nodup_iff_pairwise_ne.mpr (hb.imp (fun h e => h (by rw [e])))
  · intro c hc
    obtain ⟨r, hr, hrc, _, _, h⟩ := s1 c hc
    exact ⟨r, hr, hrc, h⟩

/-- a component of `G` is (literally) a component of any collection with the same members -/
theorem comp_transfer {n : Nat} {G G' : List PS} (hG : Uniform n G) (hG' : Uniform n G')
    (hmem : ∀ x, x ∈ G ↔ x ∈ G') {cs cs' : List (List PS)}
    (F : CompFacts G cs) (F' : CompFacts G' cs') : ∀ c ∈ cs, c ∈ cs' := by
  intro c hc
  obtain ⟨r, hr, hrc, hcls⟩ := F.cls c hc
  obtain ⟨c', hc', hc'r⟩ := F'.cover r ((hmem r).mp hr)
  obtain ⟨r', hr', hr'c', hcls'⟩ := F'.cls c' hc'
  have hr'r : Conn (subgraphEdges G') r' r := (hcls' r).mp hc'r
  have hwf : ∀ q ∈ c, q.WF := fun q hq => (hG q (F.sub c hc q hq)).1
  have hwf' : ∀ q ∈ c', q.WF := fun q hq => (hG' q (F'.sub c' hc' q hq)).1
  have key : ∀ y, containsPS c y = true ↔ containsPS c' y = true := by
    intro y
    rw [hcls y, hcls' y, conn_subgraphEdges hG hG' hmem]
    exact ⟨fun h => hr'r.trans h, fun h => hr'r.symm.trans h⟩
  have hperm : c.Perm c' := by
    rw [List.perm_ext_iff_of_nodup (F.nodup c hc) (F'.nodup c' hc')]
    intro y
    constructor
    · intro hy
      exact (containsPS_iff_mem hwf' (hwf y hy)).mp ((key y).mp (containsPS_of_mem hy))
    · intro hy
      exact (containsPS_iff_mem hwf (hwf' y hy)).mp ((key y).mpr (containsPS_of_mem hy))
  have : c = c' := by
    refine List.Perm.eq_of_pairwise ?_ (F.inner c hc) (F'.inner c' hc') hperm
    intro a b ha hb h1 h2
    exact strLe_antisymm (hwf a ha) (hwf' b hb) h1 h2
  rw [this]; exact hc'

theorem comps_nodup {G : List PS} {cs : List (List PS)} (F : CompFacts G cs) : cs.Nodup := by
  rw [List.nodup_iff_pairwise_ne]
  have := F.disj
  rw [List.pairwise_iff_getElem] at this ⊢
  intro i j hi hj hij e
  have hne := F.ne _ (List.getElem_mem hi)
  obtain ⟨x, hx⟩ := List.exists_mem_of_ne_nil _ hne
  exact this i j hi hj hij x hx x (e ▸ hx) rfl

/-- **canonicity**: the components depend only on the set of members -/
theorem components_congr {n : Nat} {G G' : List PS} (hG : Uniform n G) (hG' : Uniform n G')
    (hmem : ∀ x, x ∈ G ↔ x ∈ G') :
    components G (subgraphEdges G) = components G' (subgraphEdges G') := by
  have F := compFacts hG
  have F' := compFacts hG'
  have t1 := comp_transfer hG hG' hmem F F'
  have t2 := comp_transfer hG' hG (fun x => (hmem x).symm) F' F
  have hperm : (components G (subgraphEdges G)).Perm (components G' (subgraphEdges G')) := by
    rw [List.perm_ext_iff_of_nodup (comps_nodup F) (comps_nodup F')]
    exact fun c => ⟨t1 c, t2 c⟩
  refine List.Perm.eq_of_pairwise ?_ F.outer F'.outer hperm
  intro a b ha hb h1 h2
  have hb' := t2 b hb
  apply Classical.byContradiction
  intro hne
  have hd : Disj a b := pairwise_rel_of_ne (fun _ _ h => Disj.symm h) F.disj ha hb' hne
  obtain ⟨x, y, hx, hy, l1, l2⟩ := compLe_antisymm_head (F.ne a ha) h1 h2
  have hxy : x = y :=
    strLe_antisymm (hG x (F.sub a ha x hx)).1 (hG y (F.sub b hb' y hy)).1 l1 l2
  exact hd x hx y hy (by rw [hxy])

theorem uniform_of_mem {n : Nat} {G G' : List PS} (hG : Uniform n G) (hmem : ∀ x, x ∈ G' → x ∈ G) :
    Uniform n G' := fun g hg => hG g (hmem g hg)

/-- `get_subgraphs()` depends only on the set of members -/
theorem getSubgraphs_congr {n : Nat} {G G' : List PS} (hG : Uniform n G)
    (hmem : ∀ x, x ∈ G ↔ x ∈ G') : getSubgraphs G = getSubgraphs G' := by
  have hG' : Uniform n G' := uniform_of_mem hG (fun x => (hmem x).mpr)
  rw [getSubgraphs_eq hG, getSubgraphs_eq hG', components_congr hG hG' hmem]

theorem classify_congr {n : Nat} {G G' : List PS} (hG : Uniform n G)
    (hmem : ∀ x, x ∈ G ↔ x ∈ G') : Classify.classify G = Classify.classify G' := by
  unfold Classify.classify
  rw [getSubgraphs_congr hG hmem]

/-! ## collections of synchronised strings of *different* lengths: `get_graph` raises -/

theorem forIn_error {α β : Type} (e : Err) (l : List α) (f : α → β → Except Err (ForInStep β))
    (h1 : ∀ x ∈ l, ∀ s, (∃ s', f x s = .ok (.yield s')) ∨ f x s = .error e)
    (h2 : ∃ x ∈ l, ∀ s, f x s = .error e) (init : β) :
    forIn l init f = .error e := by
  induction l generalizing init with
  | nil => obtain ⟨x, hx, _⟩ := h2; cases hx
  | cons a t ih =>
    rw [List.forIn_cons]
    rcases h1 a (by simp) init with ⟨s', hs⟩ | he
    · rw [hs]
      simp only [bind, Except.bind]
      obtain ⟨x, hx, hxe⟩ := h2
      rcases List.mem_cons.mp hx with rfl | hx'
      · rw [hxe init] at hs; cases hs
      · exact ih (fun y hy => h1 y (by simp [hy])) ⟨x, hx', hxe⟩ _
    · rw [he]; rfl

theorem adjointMap_len_ne {a b : PS} (h : a.len ≠ b.len) :
    PS.adjointMap a b = .error .valueError := by
  simp [PS.adjointMap, PS.commutesWith, h, bind, Except.bind, throw, throwThe, MonadExceptOf.throw]

theorem getGraph_error {G : List PS} (hWF : ∀ g ∈ G, g.WF)
    (hne : ∃ a ∈ G, ∃ b ∈ G, a.len ≠ b.len) (C : List PS) :
    getGraph G C = .error .valueError := by
  unfold getGraph
  simp only []
  rw [forIn_error .valueError]
  · rfl
  · rintro ⟨a, b⟩ hx s
    obtain ⟨ha, hb⟩ := mem_of_mem_combinations2 hx
    by_cases hl : a.len = b.len
    · left
      obtain ⟨c, r, h1, h2, h3, h4, h5, h6⟩ := adjointMap_spec (hWF a ha) (hWF b hb) hl
      simp only [h5, bind, Except.bind]
      cases c
      · simp only [pure, Except.pure, Bool.false_eq_true, ↓reduceIte]
        split <;> exact ⟨_, rfl⟩
      · exact ⟨_, rfl⟩
    · right
      simp only [adjointMap_len_ne hl, bind, Except.bind]
  · obtain ⟨a, ha, b, hb, hl⟩ := hne
    obtain ⟨i, hi, rfl⟩ := List.getElem_of_mem ha
    obtain ⟨j, hj, rfl⟩ := List.getElem_of_mem hb
    have hij : i ≠ j := by intro e; subst e; exact hl rfl
    rcases Nat.lt_or_gt_of_ne hij with hlt | hlt
    · refine ⟨(G[i], G[j]), (mem_combinations2 G _ _).mpr ⟨i, j, hlt, by simp [hi], by simp [hj]⟩, ?_⟩
      intro s
      simp only [adjointMap_len_ne hl, bind, Except.bind]
    · refine ⟨(G[j], G[i]), (mem_combinations2 G _ _).mpr ⟨j, i, hlt, by simp [hj], by simp [hi]⟩, ?_⟩
      intro s
      simp only [adjointMap_len_ne (Ne.symm hl), bind, Except.bind]

theorem getSubgraphs_error {G : List PS} (hWF : ∀ g ∈ G, g.WF)
    (hne : ∃ a ∈ G, ∃ b ∈ G, a.len ≠ b.len) : getSubgraphs G = .error .valueError := by
  simp only [getSubgraphs, getGraph_error hWF hne, bind, Except.bind]

/-- a collection of synchronised strings is uniform or contains two lengths -/
theorem uniform_or {G : List PS} (hWF : ∀ g ∈ G, g.WF) :
    (∃ n, Uniform n G) ∨ ∃ a ∈ G, ∃ b ∈ G, a.len ≠ b.len := by
  by_cases h : ∃ a ∈ G, ∃ b ∈ G, a.len ≠ b.len
  · exact .inr h
  · left
    cases G with
    | nil => exact ⟨0, fun g hg => by cases hg⟩
    | cons g0 t =>
      refine ⟨g0.len, fun g hg => ⟨hWF g hg, ?_⟩⟩
      apply Classical.byContradiction
      intro hl
      exact h ⟨g, hg, g0, by simp, hl⟩

/-- `get_subgraphs()` depends only on the set of members (synchronised strings of
any lengths: with two different lengths both sides raise `ValueError`) -/
theorem getSubgraphs_congr_wf {G G' : List PS} (hWF : ∀ g ∈ G, g.WF)
    (hmem : ∀ x, x ∈ G ↔ x ∈ G') : getSubgraphs G = getSubgraphs G' := by
  rcases uniform_or hWF with ⟨n, hG⟩ | hne
  · exact getSubgraphs_congr hG hmem
  · have hWF' : ∀ g ∈ G', g.WF := fun g hg => hWF g ((hmem g).mpr hg)
    have hne' : ∃ a ∈ G', ∃ b ∈ G', a.len ≠ b.len := by
      obtain ⟨a, ha, b, hb, hl⟩ := hne
      exact ⟨a, (hmem a).mp ha, b, (hmem b).mp hb, hl⟩
    rw [getSubgraphs_error hWF hne, getSubgraphs_error hWF' hne']

theorem classify_congr_wf {G G' : List PS} (hWF : ∀ g ∈ G, g.WF)
    (hmem : ∀ x, x ∈ G ↔ x ∈ G') : Classify.classify G = Classify.classify G' := by
  unfold Classify.classify
  rw [getSubgraphs_congr_wf hWF hmem]

end C03
end PauLie
