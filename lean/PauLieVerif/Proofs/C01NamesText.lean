/-
Lemmas about the Python string primitives of `Model/AlgebraNames.lean`
(`splitOn`, `join`, `natText`, `summandText`): splitting what was joined,
printing is injective.  Nothing here changes the model.
-/
import PauLieVerif.Model.AlgebraNames
import PauLieVerif.Proofs.C17Lemmas

namespace PauLie
namespace C01Names
open Classify AlgebraNames

/-! ### `split` / `join` -/

theorem splitOn_ne_nil (sep : Char) (t : Text) : splitOn sep t ≠ [] := by
  induction t with
  | nil => simp [splitOn]
  | cons c t ih =>
    unfold splitOn
    split
    · simp
    · split <;> simp

/-- a text without the separator is one piece -/
theorem splitOn_of_not_mem {sep : Char} {t : Text} (h : sep ∉ t) : splitOn sep t = [t] := by
  induction t with
  | nil => rfl
  | cons c t ih =>
    have hc : c ≠ sep := fun e => h (by simp [e])
    have ht : sep ∉ t := fun e => h (List.mem_cons_of_mem _ e)
    simp [splitOn, ih ht, hc]

/-- `(a + sep + b).split(sep) == [a] + b.split(sep)` when `a` has no separator -/
theorem splitOn_append {sep : Char} {a : Text} (b : Text) (h : sep ∉ a) :
    splitOn sep (a ++ sep :: b) = a :: splitOn sep b := by
  induction a with
  | nil =>
    simp only [List.nil_append, splitOn]
    split
    · rename_i heq; exact absurd heq (splitOn_ne_nil _ _)
    · rename_i heq; simp [heq]
  | cons c a ih =>
    have hc : c ≠ sep := fun e => h (by simp [e])
    have ha : sep ∉ a := fun e => h (List.mem_cons_of_mem _ e)
    simp [splitOn, ih ha, hc]

/-- `sep.join(l).split(sep) == l` for a non-empty list of texts without the separator -/
theorem splitOn_join {sep : Char} : ∀ {l : List Text}, l ≠ [] → (∀ a ∈ l, sep ∉ a) →
    splitOn sep (join sep l) = l
  | [], h, _ => absurd rfl h
  | [a], _, h => by simpa [join] using splitOn_of_not_mem (h a (by simp))
  | a :: b :: r, _, h => by
    simp only [join]
    rw [splitOn_append _ (h a (by simp)),
      splitOn_join (l := b :: r) (by simp) (fun x hx => h x (List.mem_cons_of_mem _ hx))]

theorem contains_iff {t : Text} {c : Char} : t.contains c = true ↔ c ∈ t := by
  simp

/-- a text containing the separator splits into at least two pieces -/
theorem splitOn_two_of_mem {sep : Char} {t : Text} (h : sep ∈ t) :
    ∃ a b r, splitOn sep t = a :: b :: r := by
  induction t with
  | nil => simp at h
  | cons c t ih =>
    unfold splitOn
    split
    · rename_i heq; exact absurd heq (splitOn_ne_nil _ _)
    · rename_i hd tl heq
      by_cases hc : c = sep
      · simp [hc]
      · have : sep ∈ t := by
          rcases List.mem_cons.mp h with e | e
          · exact absurd e.symm hc
          · exact e
        obtain ⟨a, b, r, hab⟩ := ih this
        rw [hab] at heq
        simp at heq
        simp [hc, ← heq.2]

/-- unique decomposition at the first separator -/
theorem append_sep_inj {sep : Char} {a a' b b' : Text} (h : sep ∉ a) (h' : sep ∉ a')
    (e : a ++ sep :: b = a' ++ sep :: b') : a = a' ∧ b = b' := by
  induction a generalizing a' with
  | nil =>
    cases a' with
    | nil => simpa using e
    | cons c a' => simp at e; exact absurd e.1 (fun x => h' (by simp [x]))
  | cons c a ih =>
    cases a' with
    | nil => simp at e; exact absurd e.1.symm (fun x => h (by simp [x]))
    | cons c' a' =>
      simp at e
      obtain ⟨h1, h2⟩ := ih (fun x => h (List.mem_cons_of_mem _ x)) (fun x => h' (List.mem_cons_of_mem _ x)) e.2
      exact ⟨by rw [e.1, h1], h2⟩

/-! ### sorting -/

theorem insertBy_perm {α : Type} (le : α → α → Bool) (a : α) (l : List α) : (insertBy le a l).Perm (a :: l) := by
  induction l with
  | nil => exact .refl _
  | cons b l ih =>
    unfold insertBy
    split
    · exact .refl _
    · exact ((List.Perm.cons b ih).trans (List.Perm.swap a b l))

theorem sortBy_perm {α : Type} (le : α → α → Bool) (l : List α) : (sortBy le l).Perm l := by
  induction l with
  | nil => exact .refl _
  | cons a l ih => exact (insertBy_perm le a _).trans (List.Perm.cons a ih)

theorem map_insertBy {α β : Type} {r : α → α → Bool} {s : β → β → Bool} {f : α → β}
    (h : ∀ a b, r a b = s (f a) (f b)) (a : α) (l : List α) :
    (insertBy r a l).map f = insertBy s (f a) (l.map f) := by
  induction l with
  | nil => rfl
  | cons b l ih =>
    simp only [insertBy, List.map_cons, h a b]
    split
    · rfl
    · simp [ih]

theorem map_sortBy {α β : Type} {r : α → α → Bool} {s : β → β → Bool} {f : α → β}
    (h : ∀ a b, r a b = s (f a) (f b)) (l : List α) : (sortBy r l).map f = sortBy s (l.map f) := by
  induction l with
  | nil => rfl
  | cons a l ih =>
    simp only [sortBy, List.foldr_cons, List.map_cons] at ih ⊢
    rw [map_insertBy h, ih]

theorem textLe_total (a b : Text) : textLe a b = true ∨ textLe b a = true := by
  induction a generalizing b with
  | nil => left; cases b <;> rfl
  | cons x a ih =>
    cases b with
    | nil => right; rfl
    | cons y b =>
      simp only [textLe, Bool.or_eq_true, decide_eq_true_eq, Bool.and_eq_true, beq_iff_eq]
      rcases Nat.lt_trichotomy x.toNat y.toNat with h | h | h
      · exact .inl (.inl h)
      · have : x = y := Char.toNat_inj.mp h
        subst this
        rcases ih b with h' | h'
        · exact .inl (.inr ⟨rfl, h'⟩)
        · exact .inr (.inr ⟨rfl, h'⟩)
      · exact .inr (.inl h)

theorem textLe_trans : ∀ (a b c : Text), textLe a b = true → textLe b c = true → textLe a c = true
  | [], _, _, _, _ => by cases ‹Text› <;> rfl
  | _ :: _, [], _, h, _ => by simp [textLe] at h
  | _ :: _, _ :: _, [], _, h => by simp [textLe] at h
  | x :: a, y :: b, z :: c, h1, h2 => by
    simp only [textLe, Bool.or_eq_true, decide_eq_true_eq, Bool.and_eq_true, beq_iff_eq] at h1 h2 ⊢
    rcases h1 with h1 | ⟨rfl, h1⟩
    · rcases h2 with h2 | ⟨rfl, _⟩
      · exact .inl (Nat.lt_trans h1 h2)
      · exact .inl h1
    · rcases h2 with h2 | ⟨rfl, h2⟩
      · exact .inl h2
      · exact .inr ⟨rfl, textLe_trans a b c h1 h2⟩

theorem textLe_antisymm : ∀ (a b : Text), textLe a b = true → textLe b a = true → a = b
  | [], [], _, _ => rfl
  | [], _ :: _, _, h => by simp [textLe] at h
  | _ :: _, [], h, _ => by simp [textLe] at h
  | x :: a, y :: b, h1, h2 => by
    simp only [textLe, Bool.or_eq_true, decide_eq_true_eq, Bool.and_eq_true, beq_iff_eq] at h1 h2
    rcases h1 with h1 | ⟨rfl, h1⟩
    · rcases h2 with h2 | ⟨rfl, _⟩
      · omega
      · omega
    · rcases h2 with h2 | ⟨_, h2⟩
      · omega
      · rw [textLe_antisymm a b h1 h2]

theorem insertBy_sorted {α : Type} {le : α → α → Bool} (tot : ∀ a b, le a b = true ∨ le b a = true)
    (tr : ∀ a b c, le a b = true → le b c = true → le a c = true) (a : α) {l : List α}
    (h : l.Pairwise (fun x y => le x y = true)) : (insertBy le a l).Pairwise (fun x y => le x y = true) := by
  induction l with
  | nil => simp [insertBy]
  | cons b l ih =>
    obtain ⟨hb, hl⟩ := List.pairwise_cons.mp h
    unfold insertBy
    split
    · rename_i hab
      refine List.pairwise_cons.mpr ⟨?_, h⟩
      intro y hy
      rcases List.mem_cons.mp hy with rfl | hy
      · exact hab
      · exact tr _ _ _ hab (hb y hy)
    · rename_i hab
      have hba : le b a = true := (tot a b).resolve_left hab
      refine List.pairwise_cons.mpr ⟨?_, ih hl⟩
      intro y hy
      rcases List.mem_cons.mp ((insertBy_perm le a l).subset hy) with rfl | hy
      · exact hba
      · exact hb y hy

theorem sortTexts_sorted (l : List Text) : (sortTexts l).Pairwise (fun x y => textLe x y = true) := by
  unfold sortTexts sortBy
  induction l with
  | nil => simp
  | cons a l ih => exact insertBy_sorted textLe_total textLe_trans a ih

/-! ### printing numbers -/

theorem natText_eq (n : Nat) : natText n = C17.natToDigits n := rfl

theorem natText_isDigit {n : Nat} {c : Char} (h : c ∈ natText n) : c.isDigit = true :=
  C17.natToDigits_ascii h

theorem natText_ne_nil (n : Nat) : natText n ≠ [] := C17.natToDigits_ne_nil n

theorem natText_inj {m n : Nat} (h : natText m = natText n) : m = n := by
  have hm := C17.valOfDigits_natToDigits m
  have hn := C17.valOfDigits_natToDigits n
  rw [← natText_eq] at hm hn
  rw [h] at hm
  exact hm.symm.trans hn

theorem not_digit_of {c : Char} (hc : c.isDigit = false) (n : Nat) : c ∉ natText n :=
  fun h => by rw [natText_isDigit h] at hc; cases hc

theorem star_not_natText (n : Nat) : '*' ∉ natText n := not_digit_of (by decide) n
theorem plus_not_natText (n : Nat) : '+' ∉ natText n := not_digit_of (by decide) n
theorem rpar_not_natText (n : Nat) : ')' ∉ natText n := not_digit_of (by decide) n

/-! ### printing names and summands -/

theorem nameText_inj {ty ty' : TypeAlgebra} {m m' : Nat} (h : nameText ty m = nameText ty' m') :
    ty = ty' ∧ m = m' := by
  cases ty <;> cases ty' <;> simp [nameText, tyText] at h <;> exact ⟨rfl, natText_inj h⟩

theorem mem_nameText {c : Char} {ty : TypeAlgebra} {m : Nat} :
    c ∈ nameText ty m ↔ (c ∈ tyText ty ∨ c = '(' ∨ c ∈ natText m ∨ c = ')') := by
  simp [nameText]

theorem star_not_nameText (ty : TypeAlgebra) (m : Nat) : '*' ∉ nameText ty m := by
  rw [mem_nameText]
  rintro (h | h | h | h)
  · cases ty <;> simp [tyText] at h
  · exact absurd h (by decide)
  · exact star_not_natText _ h
  · exact absurd h (by decide)

theorem plus_not_nameText (ty : TypeAlgebra) (m : Nat) : '+' ∉ nameText ty m := by
  rw [mem_nameText]
  rintro (h | h | h | h)
  · cases ty <;> simp [tyText] at h
  · exact absurd h (by decide)
  · exact plus_not_natText _ h
  · exact absurd h (by decide)

theorem plus_not_summandText (s : Summand) : '+' ∉ summandText s := by
  unfold summandText
  split
  · exact plus_not_nameText _ _
  · intro h
    simp only [List.mem_append, List.mem_cons] at h
    rcases h with h | h | h
    · exact plus_not_natText _ h
    · exact absurd h (by decide)
    · exact plus_not_nameText _ _ h

/-- a summand's text has a `*` exactly when its multiplicity is printed -/
theorem star_mem_summandText (s : Summand) : '*' ∈ summandText s ↔ s.mult ≠ 1 := by
  unfold summandText
  by_cases h : s.mult = 1
  · simp [h, star_not_nameText]
  · simp [h]

theorem summandText_one {s : Summand} (h : s.mult = 1) : summandText s = nameText s.ty s.size := by
  simp [summandText, h]

theorem summandText_mul {s : Summand} (h : s.mult ≠ 1) :
    summandText s = natText s.mult ++ '*' :: nameText s.ty s.size := by
  simp [summandText, h]

/-- printing summands is injective -/
theorem summandText_inj {s s' : Summand} (h : summandText s = summandText s') : s = s' := by
  have hstar : (s.mult ≠ 1) ↔ (s'.mult ≠ 1) := by
    rw [← star_mem_summandText, ← star_mem_summandText, h]
  by_cases h1 : s.mult = 1
  · have h1' : s'.mult = 1 := Decidable.byContradiction fun hne => (hstar.mpr hne) h1
    rw [summandText_one h1, summandText_one h1'] at h
    obtain ⟨a, b⟩ := nameText_inj h
    cases s; cases s'; simp_all
  · have h1' : s'.mult ≠ 1 := hstar.mp h1
    rw [summandText_mul h1, summandText_mul h1'] at h
    obtain ⟨a, b⟩ := append_sep_inj (star_not_natText _) (star_not_natText _) h
    obtain ⟨c, d⟩ := nameText_inj b
    have := natText_inj a
    cases s; cases s'; simp_all

theorem splitOn_star_summandText {s : Summand} (h : s.mult ≠ 1) :
    splitOn '*' (summandText s) = [natText s.mult, nameText s.ty s.size] := by
  rw [summandText_mul h, splitOn_append _ (star_not_natText _), splitOn_of_not_mem (star_not_nameText _ _)]

/-- `get_algebra().split("+")` gives back the summands -/
theorem splitOn_algebraText {l : List Summand} (h : l ≠ []) :
    splitOn '+' (algebraText l) = l.map summandText := by
  unfold algebraText
  apply splitOn_join (by simpa using h)
  intro a ha
  obtain ⟨s, _, rfl⟩ := List.mem_map.mp ha
  exact plus_not_summandText s

end C01Names
end PauLie
