/-
Helper lemmas for property C16, part 5, clause (a): a symmetry
`Q = Σ_{s ∈ c} M(s) ⊗ (M(l) M(s))` commutes with `M(g) ⊗ 1 + 1 ⊗ M(g)` when `c` is closed
under the moves `s ↦ s·g` (`g` anticommuting with `s`) and `l` commutes with `g`.

The commutator is the sum over `s ∈ c` of
`F(s) = K(s) ⊗ M(l)M(s) + M(s) ⊗ M(l)K(s)`, `K(s) = [M(s), M(g)]`;
`F(s) = 0` when `s` commutes with `g`, and `F(s) + F(s·g) = 0` otherwise
(`K(s) = 2φ M(s·g)`, `K(s·g) = -2φ M(s)` with `φ² = -1`): the terms cancel pairwise
under the involution `s ↔ s·g` (`Finset.sum_involution`).
-/
import PauLieVerif.Proofs.C16Basis
import Mathlib.Algebra.BigOperators.Group.Finset.Basic

namespace PauLie
namespace C16

open Matrix Complex C12 C04 C14 Graph SecondMoment

/-- `M(g) ⊗ 1 + 1 ⊗ M(g)` on `n + n` qubits -/
noncomputable def liftG (n : ℕ) (g : PS) : Mat (n + n) :=
  tens (M (g.vec n)) 1 + tens 1 (M (g.vec n))

/-- in the vocabulary of Pauli-string matrices: `M(g I…I) + M(I…I g)` -/
theorem liftG_eq_M (n : ℕ) (g : PS) :
    liftG n g = M (Fin.append (g.vec n) (fun _ : Fin n => Letter.I))
      + M (Fin.append (fun _ : Fin n => Letter.I) (g.vec n)) := by
  rw [M_append_tens, M_append_tens, M_one]; rfl

/-- `[M(s), M(g)]` -/
noncomputable def Kmat (n : ℕ) (g s : PS) : Mat n :=
  M (s.vec n) * M (g.vec n) - M (g.vec n) * M (s.vec n)

/-- the commutator of one summand with `liftG` -/
noncomputable def Fterm (n : ℕ) (l g s : PS) : Mat (n + n) :=
  tens (M (s.vec n)) (M (l.vec n) * M (s.vec n)) * liftG n g
    - liftG n g * tens (M (s.vec n)) (M (l.vec n) * M (s.vec n))

theorem Fterm_eq (n : ℕ) (l g s : PS)
    (hl : M (g.vec n) * M (l.vec n) = M (l.vec n) * M (g.vec n)) :
    Fterm n l g s = tens (Kmat n g s) (M (l.vec n) * M (s.vec n))
      + tens (M (s.vec n)) (M (l.vec n) * Kmat n g s) := by
  unfold Fterm liftG Kmat
  rw [Matrix.mul_add, Matrix.add_mul, tens_mul, tens_mul, tens_mul, tens_mul]
  simp only [Matrix.mul_one, Matrix.one_mul]
  rw [tens_sub_left, Matrix.mul_sub, tens_sub_right, ← Matrix.mul_assoc (M (g.vec n)), hl,
    Matrix.mul_assoc, Matrix.mul_assoc]
  abel

/-- what anticommutation gives at matrix level -/
theorem anti_K {n : ℕ} {g s s' : PS} (hg : g.WF ∧ g.len = n) (hs : s.WF ∧ s.len = n)
    (ha : anti g s) (hm : PS.multiply s g = .ok s') :
    ∃ φ : ℂ, φ * φ = -1 ∧ Kmat n g s = (2 * φ) • M (s'.vec n) ∧
      Kmat n g s' = (-(2 * φ)) • M (s.vec n) := by
  -- the matrices do not commute
  obtain ⟨b, hb, hbc⟩ := C04_commutes n g s hg.1 hs.1 hg.2 hs.2
  have hbf : b = false := by
    unfold anti at ha; rw [ha] at hb; exact (Except.ok.inj hb).symm
  have hnc : ¬ Commute (M (s.vec n)) (M (g.vec n)) := by
    intro h
    have := hbc.mpr h.symm
    rw [hbf] at this; exact Bool.false_ne_true this
  obtain ⟨_, hex, hall⟩ := C04_adjoint n s g hs.1 hg.1 hs.2 hg.2
  obtain ⟨r, hr⟩ := hex hnc
  obtain ⟨hmr, k, hk, hcomm, _⟩ := hall r hr
  obtain ⟨k', r', hk', hr', _, _, _, hprod⟩ := C04_mul n s g hs.1 hg.1 hs.2 hg.2
  obtain rfl : r = s' := by rw [hmr] at hm; exact Except.ok.inj hm
  obtain rfl : r' = r := by rw [hr'] at hmr; exact Except.ok.inj hmr
  obtain rfl : k' = k := by rw [hk'] at hk; exact Except.ok.inj hk
  set φ : ℂ := (-I) ^ k' with hφ
  set S := M (s.vec n) with hS
  set A := M (g.vec n) with hA
  set R := M (r'.vec n) with hR
  have h1 : S * A = φ • R := hprod
  have h2 : A * S = -(φ • R) := by
    have : A * S = S * A - (2 * φ) • R := by rw [← hcomm]; abel
    rw [this, h1, two_mul, add_smul]; abel
  have h2' : A * S = -(S * A) := by rw [h2, h1]
  have hSS : S * S = 1 := M_mul_self _
  have hAA : A * A = 1 := M_mul_self _
  have hRR : R * R = 1 := M_mul_self _
  -- φ² = -1
  have hsq : (φ * φ) • (1 : Mat n) = -1 := by
    have e1 : (φ • R) * (φ • R) = (φ * φ) • (1 : Mat n) := by
      rw [Matrix.smul_mul, Matrix.mul_smul, hRR, smul_smul]
    have e2 : (S * A) * (S * A) = -1 := by
      calc (S * A) * (S * A) = S * ((A * S) * A) := by simp only [Matrix.mul_assoc]
        _ = S * ((-(S * A)) * A) := by rw [h2']
        _ = -(S * (S * (A * A))) := by simp only [Matrix.neg_mul, Matrix.mul_neg, Matrix.mul_assoc]
        _ = -1 := by rw [hAA, Matrix.mul_one, hSS]
    rw [← e1, ← h1, e2]
  have hφφ : φ * φ = -1 := by
    have h0 : (φ * φ + 1) • (1 : Mat n) = 0 := by rw [add_smul, hsq, one_smul]; abel
    have hone : (1 : Mat n) ≠ 0 := by rw [← M_one]; exact M_ne_zero _
    rcases smul_eq_zero.mp h0 with h | h
    · exact eq_neg_of_add_eq_zero_left h
    · exact absurd h hone
  -- R in terms of S A
  have hR' : R = (-φ) • (S * A) := by
    rw [h1, smul_smul, neg_mul, hφφ, neg_neg, one_smul]
  refine ⟨φ, hφφ, ?_, ?_⟩
  · show S * A - A * S = _
    rw [h1, h2, two_mul, add_smul]; abel
  · show R * A - A * R = _
    have e1 : R * A = (-φ) • S := by
      rw [hR', Matrix.smul_mul, Matrix.mul_assoc, hAA, Matrix.mul_one]
    have e2 : A * R = φ • S := by
      calc A * R = A * ((-φ) • (S * A)) := by rw [← hR']
        _ = (-φ) • ((A * S) * A) := by rw [Matrix.mul_smul, Matrix.mul_assoc]
        _ = (-φ) • ((-(S * A)) * A) := by rw [h2']
        _ = φ • S := by
          rw [Matrix.neg_mul, Matrix.mul_assoc, hAA, Matrix.mul_one, smul_neg, neg_smul, neg_neg]
    rw [e1, e2, ← sub_smul]; congr 1; ring

/-- the partner of `s` under the move by `g` -/
def partner (g s : PS) : PS :=
  if anti g s then (match PS.multiply s g with | .ok r => r | .error _ => s) else s

theorem partner_facts {n : ℕ} {g s : PS} (hg : g.WF ∧ g.len = n) (hs : s.WF ∧ s.len = n)
    (ha : anti g s) :
    PS.multiply s g = .ok (partner g s) ∧ ((partner g s).WF ∧ (partner g s).len = n) ∧
      anti g (partner g s) ∧ partner g (partner g s) = s := by
  obtain ⟨r, hr, hrw, hrl⟩ := multiply_ok hs.1 hg.1 (hs.2.trans hg.2.symm)
  have hp : partner g s = r := by simp [partner, ha, hr]
  have hr' : PS.multiply g s = .ok r := by
    rw [multiply_comm hg.1 hs.1 (hg.2.trans hs.2.symm)]; exact hr
  obtain ⟨_, _, h3, h4⟩ := multiply_facts hg.1 hs.1 (hg.2.trans hs.2.symm) hr'
  have hrv : r.WF ∧ r.len = n := ⟨hrw, hrl.trans hs.2⟩
  have har : anti g r := by unfold anti at ha ⊢; rw [h3, ha]
  have hback : PS.multiply r g = .ok s := by
    rw [multiply_comm hrv.1 hg.1 (hrv.2.trans hg.2.symm)]; exact h4
  rw [hp]
  refine ⟨hr, hrv, har, ?_⟩
  simp [partner, har, hback]

/-- **(a)**, matrix form -/
theorem quadMat_commute {n : ℕ} {G c : List PS} {l g : PS} (hc : VList n c) (hnd : c.Nodup)
    (hclosed : MoveClosed G c) (hl : l.WF ∧ l.len = n) (hg : g ∈ G) (hgv : g.WF ∧ g.len = n)
    (hlg : PS.commutesWith g l = .ok true) :
    quadMat n c l * liftG n g = liftG n g * quadMat n c l := by
  -- M(g) and M(l) commute
  obtain ⟨b, hb, hbc⟩ := C04_commutes n g l hgv.1 hl.1 hgv.2 hl.2
  have hbt : b = true := by rw [hlg] at hb; exact (Except.ok.inj hb).symm
  have hcomm : M (g.vec n) * M (l.vec n) = M (l.vec n) * M (g.vec n) := (hbc.mp hbt).eq
  rw [← sub_eq_zero]
  have hsum : quadMat n c l * liftG n g - liftG n g * quadMat n c l
      = ∑ s ∈ c.toFinset, Fterm n l g s := by
    unfold quadMat
    rw [tens_list_sum_left, tens_list_sum_right, ← List.sum_toFinset _ hnd, ← List.sum_toFinset _ hnd,
      ← Finset.sum_sub_distrib]
    rfl
  rw [hsum]
  have hF0 : ∀ s ∈ c, ¬ anti g s → Fterm n l g s = 0 := by
    intro s hs hna
    obtain ⟨b', hb', hbc'⟩ := C04_commutes n g s hgv.1 (hc s hs).1 hgv.2 (hc s hs).2
    have : b' = true := by
      cases b' with
      | true => rfl
      | false => exact absurd hb' hna
    have hK : Kmat n g s = 0 := by
      unfold Kmat; rw [(hbc'.mp this).eq, sub_self]
    rw [Fterm_eq n l g s hcomm, hK]; simp
  have hpair : ∀ s ∈ c, anti g s → Fterm n l g s + Fterm n l g (partner g s) = 0 := by
    intro s hs ha
    obtain ⟨hm, hpv, _, _⟩ := partner_facts hgv (hc s hs) ha
    obtain ⟨φ, _, hK1, hK2⟩ := anti_K hgv (hc s hs) ha hm
    rw [Fterm_eq n l g s hcomm, Fterm_eq n l g _ hcomm, hK1, hK2]
    simp only [tens_smul_left, tens_smul_right, Matrix.mul_smul]
    rw [neg_smul, neg_smul]; abel
  apply Finset.sum_involution (fun s _ => partner g s)
  · intro s hs
    have hs' := List.mem_toFinset.mp hs
    by_cases ha : anti g s
    · exact hpair s hs' ha
    · have : partner g s = s := by simp [partner, ha]
      rw [this, hF0 s hs' ha, add_zero]
  · intro s hs hne hps
    have hs' := List.mem_toFinset.mp hs
    by_cases ha : anti g s
    · have h2 := hpair s hs' ha
      rw [hps] at h2
      have : (2 : ℂ) • Fterm n l g s = 0 := by rw [two_smul]; exact h2
      rcases smul_eq_zero.mp this with h | h
      · exact absurd h two_ne_zero
      · exact hne h
    · exact hne (hF0 s hs' ha)
  · intro s hs
    have hs' := List.mem_toFinset.mp hs
    apply List.mem_toFinset.mpr
    by_cases ha : anti g s
    · exact hclosed s hs' g hg ha _ (partner_facts hgv (hc s hs') ha).1
    · have : partner g s = s := by simp [partner, ha]
      rw [this]; exact hs'
  · intro s hs
    have hs' := List.mem_toFinset.mp hs
    by_cases ha : anti g s
    · exact (partner_facts hgv (hc s hs') ha).2.2.2
    · have : partner g s = s := by simp [partner, ha]
      rw [this, this]

end C16
end PauLie
