/-
Linear algebra over F2 on bit lists, as needed by the closed forms of the commutator closure of a
canonical star (C01, second half of the classification theorem):

  * `zeroV m`, `msum m b vs` - the sum of the members of `vs` selected by the mask `b`
    ("subset sum" / product up to phase of a subset of Pauli strings);
  * `par b` - parity of a mask, `mxor` - symmetric difference of masks;
  * `Indep m vs` - linear independence: only the empty mask sums to zero;
  * `omega` against subset sums.

Core Lean only.  `Proofs/C01SpanGauss.lean` proves that the executable elimination `Morph.inSpan`
decides membership in `{msum b vs}`.
-/
import PauLieVerif.Proofs.Closure

namespace PauLie
namespace C01Star
open Closure

/-! ### a decision procedure for Boolean identities between `decide`d linear-arithmetic facts -/

theorem bne_true_iff' (a b : Bool) : ((a != b) = true) ↔ ¬ (a = true ↔ b = true) := by
  cases a <;> cases b <;> simp

/-- goal `x = y` with `x y : Bool` built from `!=` and `decide` of linear arithmetic -/
macro "bool_omega" : tactic =>
  `(tactic| (apply Bool.eq_iff_iff.2
             simp only [bne_true_iff', decide_eq_true_eq, Bool.false_eq_true, Bool.true_eq_false, true_iff, iff_true,
               iff_false, false_iff]
             omega))

/-- turn a hypothesis `x = y` of that kind into a proposition `omega` understands -/
macro "bool_prop" "at" h:ident : tactic =>
  `(tactic| (rw [Bool.eq_iff_iff] at $h:ident
             simp only [bne_true_iff', decide_eq_true_eq, Bool.false_eq_true, Bool.true_eq_false, true_iff, iff_true,
               iff_false, false_iff] at $h:ident))

/-- the zero vector (identity string) of length `m` -/
def zeroV (m : Nat) : V := List.replicate m false

@[simp] theorem length_zeroV (m : Nat) : (zeroV m).length = m := by simp [zeroV]

theorem zeroV_succ (m : Nat) : zeroV (m + 1) = false :: zeroV m := by simp [zeroV, List.replicate_succ]

theorem add_zero_right : ∀ (m : Nat) (x : V), x.length = m → add x (zeroV m) = x
  | 0, x, h => by simp [zeroV]; exact List.eq_nil_of_length_eq_zero h
  | m + 1, [], h => by simp at h
  | m + 1, a :: s, h => by
    rw [zeroV_succ, add_cons, add_zero_right m s (by simpa using h)]; simp

theorem add_zero_left (m : Nat) (x : V) (h : x.length = m) : add (zeroV m) x = x := by
  rw [add_comm, add_zero_right m x h]

theorem add_self : ∀ (x : V), add x x = zeroV x.length
  | [] => by simp [zeroV]
  | a :: s => by rw [add_cons, add_self s]; simp [zeroV, List.replicate_succ]

theorem add_self_of_length {m : Nat} {x : V} (h : x.length = m) : add x x = zeroV m := by
  rw [add_self, h]

theorem omega_zero_left : ∀ (m : Nat) (y : V), omega (zeroV m) y = false
  | 0, _ => by simp [zeroV, omega]
  | 1, _ => by simp [zeroV, omega]
  | m + 2, [] => by simp [zeroV, omega, List.replicate_succ]
  | m + 2, [_] => by simp [zeroV, omega, List.replicate_succ]
  | m + 2, _ :: _ :: t => by
    have := omega_zero_left m t
    simp only [zeroV] at this
    simp [zeroV, omega, List.replicate_succ, this]

theorem omega_zero_right (m : Nat) (x : V) : omega x (zeroV m) = false := by
  rw [omega_comm, omega_zero_left]

/-- `x + y = 0` iff `x = y` (equal lengths) -/
theorem add_eq_zero_iff {m : Nat} {x y : V} (hx : x.length = m) (hy : y.length = m) :
    add x y = zeroV m ↔ x = y := by
  constructor
  · intro h
    have := add_add_cancel_right x y (hx.trans hy.symm)
    rw [h, add_zero_left m y hy] at this
    exact this.symm
  · rintro rfl; exact add_self_of_length hx

/-- cancellation -/
theorem add_left_cancel {m : Nat} {x y z : V} (hx : x.length = m) (hy : y.length = m)
    (hz : z.length = m) (h : add x y = add x z) : y = z := by
  have := congrArg (add x) h
  rwa [add_add_cancel_left x y (hx.trans hy.symm), add_add_cancel_left x z (hx.trans hz.symm)] at this

/-! ### subset sums -/

/-- the sum of the members of `vs` selected by the mask `b` (a mask shorter than `vs` selects
nothing beyond its end; entries beyond the end of `vs` are ignored) -/
def msum (m : Nat) : List Bool → List V → V
  | true :: b, v :: vs => add v (msum m b vs)
  | false :: b, _ :: vs => msum m b vs
  | [], _ => zeroV m
  | _ :: _, [] => zeroV m

@[simp] theorem msum_nil_left (m : Nat) (vs : List V) : msum m [] vs = zeroV m := by
  cases vs <;> rfl
@[simp] theorem msum_nil_right (m : Nat) (b : List Bool) : msum m b [] = zeroV m := by
  cases b with
  | nil => rfl
  | cons t b => cases t <;> rfl
@[simp] theorem msum_true (m : Nat) (b : List Bool) (v : V) (vs : List V) :
    msum m (true :: b) (v :: vs) = add v (msum m b vs) := rfl
@[simp] theorem msum_false (m : Nat) (b : List Bool) (v : V) (vs : List V) :
    msum m (false :: b) (v :: vs) = msum m b vs := rfl

theorem length_msum {m : Nat} : ∀ (b : List Bool) (vs : List V), (∀ v ∈ vs, v.length = m) →
    (msum m b vs).length = m
  | [], _, _ => by simp
  | _ :: _, [], _ => by simp
  | true :: b, v :: vs, h => by
    rw [msum_true]
    exact length_add_eq (h v (by simp)) (length_msum b vs (fun x hx => h x (by simp [hx])))
  | false :: b, v :: vs, h => by
    rw [msum_false]; exact length_msum b vs (fun x hx => h x (by simp [hx]))

/-- the all-false mask -/
def noneMask (k : Nat) : List Bool := List.replicate k false

@[simp] theorem length_noneMask (k : Nat) : (noneMask k).length = k := by simp [noneMask]

theorem msum_noneMask (m : Nat) : ∀ (k : Nat) (vs : List V), msum m (noneMask k) vs = zeroV m
  | 0, vs => by simp [noneMask]
  | k + 1, [] => by simp
  | k + 1, v :: vs => by
    have := msum_noneMask m k vs
    simp only [noneMask] at this
    simp [noneMask, List.replicate_succ, this]

/-- parity of a mask -/
def par : List Bool → Bool
  | [] => false
  | t :: b => t != par b

@[simp] theorem par_nil : par [] = false := rfl
@[simp] theorem par_cons (t : Bool) (b : List Bool) : par (t :: b) = (t != par b) := rfl

theorem par_noneMask : ∀ k, par (noneMask k) = false
  | 0 => rfl
  | k + 1 => by
    have := par_noneMask k
    simp only [noneMask] at this
    simp [noneMask, List.replicate_succ, this]

/-- symmetric difference of masks -/
def mxor : List Bool → List Bool → List Bool
  | s :: a, t :: b => (s != t) :: mxor a b
  | _, _ => []

@[simp] theorem mxor_cons (s t : Bool) (a b : List Bool) : mxor (s :: a) (t :: b) = (s != t) :: mxor a b := rfl
@[simp] theorem mxor_nil_left (b : List Bool) : mxor [] b = [] := rfl
@[simp] theorem mxor_nil_right (a : List Bool) : mxor a [] = [] := by cases a <;> rfl

theorem length_mxor : ∀ (a b : List Bool), a.length = b.length → (mxor a b).length = a.length
  | [], _, _ => by simp
  | _ :: _, [], h => by simp at h
  | s :: a, t :: b, h => by simp [length_mxor a b (by simpa using h)]

theorem par_mxor : ∀ (a b : List Bool), a.length = b.length → par (mxor a b) = (par a != par b)
  | [], [], _ => rfl
  | [], _ :: _, h => by simp at h
  | _ :: _, [], h => by simp at h
  | s :: a, t :: b, h => by
    simp only [mxor_cons, par_cons, par_mxor a b (by simpa using h)]
    cases s <;> cases t <;> cases par a <;> cases par b <;> rfl

theorem mxor_self : ∀ (a : List Bool), mxor a a = noneMask a.length
  | [] => rfl
  | s :: a => by simp [mxor_self a, noneMask, List.replicate_succ]

theorem mxor_eq_noneMask : ∀ {a b : List Bool}, a.length = b.length →
    mxor a b = noneMask a.length → a = b
  | [], [], _, _ => rfl
  | [], _ :: _, h, _ => by simp at h
  | _ :: _, [], h, _ => by simp at h
  | s :: a, t :: b, h, e => by
    simp only [mxor_cons, noneMask, List.length_cons, List.replicate_succ, List.cons.injEq] at e
    have := mxor_eq_noneMask (a := a) (b := b) (by simpa using h) (by simpa [noneMask] using e.2)
    subst this
    have : s = t := by
      have := e.1; revert this; cases s <;> cases t <;> simp
    rw [this]

theorem msum_mxor {m : Nat} : ∀ (a b : List Bool) (vs : List V), (∀ v ∈ vs, v.length = m) →
    a.length = vs.length → b.length = vs.length →
    msum m (mxor a b) vs = add (msum m a vs) (msum m b vs)
  | [], [], [], _, _, _ => by simp [add_self_of_length]
  | [], _, _ :: _, _, h, _ => by simp at h
  | _, [], _ :: _, _, _, h => by simp at h
  | _ :: _, _, [], _, h, _ => by simp at h
  | [], _ :: _, [], _, _, h => by simp at h
  | s :: a, t :: b, v :: vs, hl, ha, hb => by
    have hv := hl v (by simp)
    have hl' : ∀ x ∈ vs, x.length = m := fun x hx => hl x (by simp [hx])
    have ih := msum_mxor a b vs hl' (by simpa using ha) (by simpa using hb)
    have la := length_msum (m := m) a vs hl'
    have lb := length_msum (m := m) b vs hl'
    cases s <;> cases t <;> simp only [mxor_cons, bne_self_eq_false, Bool.true_bne, Bool.false_bne,
      Bool.not_false, msum_true, msum_false, ih]
    · rw [add_comm v, add_assoc]
      congr 1; exact add_comm _ _
    · rw [add_assoc]
    · rw [add_assoc, ← add_assoc (msum m a vs) v, add_comm (msum m a vs) v, add_assoc v,
        ← add_assoc v v, add_self_of_length hv, add_zero_left m _ (length_add_eq la lb)]

/-- linear independence over F2 of strings of length `m`: only the empty selection sums to zero -/
def Indep (m : Nat) (vs : List V) : Prop :=
  ∀ b : List Bool, b.length = vs.length → msum m b vs = zeroV m → b = noneMask vs.length

/-- distinct selections of an independent family have distinct sums -/
theorem Indep.inj {m : Nat} {vs : List V} (hI : Indep m vs) (hl : ∀ v ∈ vs, v.length = m)
    {a b : List Bool} (ha : a.length = vs.length) (hb : b.length = vs.length)
    (h : msum m a vs = msum m b vs) : a = b := by
  have h1 : msum m (mxor a b) vs = zeroV m := by
    rw [msum_mxor a b vs hl ha hb, h, add_self_of_length (length_msum b vs hl)]
  have h2 := hI (mxor a b) (by rw [length_mxor a b (ha.trans hb.symm), ha]) h1
  exact mxor_eq_noneMask (ha.trans hb.symm) (by rw [h2, ha])

theorem Indep.tail {m : Nat} {v : V} {vs : List V} (hI : Indep m (v :: vs)) : Indep m vs := by
  intro b hb h
  have := hI (false :: b) (by simp [hb]) (by simpa using h)
  simpa [noneMask, List.replicate_succ] using this

/-- the head of an independent family is not a subset sum of the tail -/
theorem Indep.head_not_span {m : Nat} {v : V} {vs : List V} (hI : Indep m (v :: vs))
    (hv : v.length = m) (b : List Bool) (hb : b.length = vs.length) :
    v ≠ msum m b vs := by
  intro h
  have := hI (true :: b) (by simp [hb]) (by
    rw [msum_true, ← h, add_self_of_length hv])
  simp [noneMask, List.replicate_succ] at this

/-! ### the symplectic form against subset sums -/

/-- a string commuting with every member commutes with every subset sum -/
theorem omega_msum_comm {m : Nat} (x : V) : ∀ (b : List Bool) (vs : List V),
    (∀ v ∈ vs, v.length = m) → (∀ v ∈ vs, omega x v = false) → omega x (msum m b vs) = false
  | [], _, _, _ => by simp [omega_zero_right]
  | _ :: _, [], _, _ => by simp [omega_zero_right]
  | true :: b, v :: vs, hl, hc => by
    have hl' : ∀ y ∈ vs, y.length = m := fun y hy => hl y (by simp [hy])
    rw [msum_true, omega_add_right x v _ ((hl v (by simp)).trans (length_msum b vs hl').symm),
      hc v (by simp), omega_msum_comm x b vs hl' (fun y hy => hc y (by simp [hy]))]
    rfl
  | false :: b, v :: vs, hl, hc => by
    rw [msum_false]
    exact omega_msum_comm x b vs (fun y hy => hl y (by simp [hy])) (fun y hy => hc y (by simp [hy]))

/-- a string anticommuting with every member: parity of the selection -/
theorem omega_msum_anti {m : Nat} (x : V) : ∀ (b : List Bool) (vs : List V),
    (∀ v ∈ vs, v.length = m) → (∀ v ∈ vs, omega x v = true) → b.length = vs.length →
    omega x (msum m b vs) = par b
  | [], _, _, _, _ => by simp [omega_zero_right]
  | _ :: _, [], _, _, h => by simp at h
  | true :: b, v :: vs, hl, hc, hb => by
    have hl' : ∀ y ∈ vs, y.length = m := fun y hy => hl y (by simp [hy])
    rw [msum_true, omega_add_right x v _ ((hl v (by simp)).trans (length_msum b vs hl').symm),
      hc v (by simp), omega_msum_anti x b vs hl' (fun y hy => hc y (by simp [hy])) (by simpa using hb)]
    rfl
  | false :: b, v :: vs, hl, hc, hb => by
    rw [msum_false, omega_msum_anti x b vs (fun y hy => hl y (by simp [hy]))
      (fun y hy => hc y (by simp [hy])) (by simpa using hb)]
    simp

/-- subset sums of a pairwise commuting family commute -/
theorem omega_msum_msum_comm {m : Nat} (vs ws : List V) (hv : ∀ v ∈ vs, v.length = m)
    (hw : ∀ w ∈ ws, w.length = m) (hc : ∀ v ∈ vs, ∀ w ∈ ws, omega v w = false)
    (a b : List Bool) : omega (msum m a vs) (msum m b ws) = false := by
  apply omega_msum_comm _ b ws hw
  intro w hwm
  rw [omega_comm]
  exact omega_msum_comm w a vs hv (fun v hvm => by rw [omega_comm]; exact hc v hvm w hwm)

end C01Star
end PauLie
