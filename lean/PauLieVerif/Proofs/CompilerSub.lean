/-
`SubsystemCompiler.subsystem_compiler` in closed form, as far as the compile pipeline needs it.

`factor_w_orders(W)` lists, for every ordering of the `X`/`Z` factors of the `Y` letters of `W`, the
single-site factors `X_j` / `Z_j` of `W`; `subsystem_compiler` uses the FIRST ordering only
(`facT`: sites in order, `Y = X·Z` in this order).  With `r` the number of factors:
* `r = 0` (`W = I`): the result is `[]`;
* `r = 1` (`W` a single `X_j` or `Z_j`): the result is `[X_1 ⊗ W]`, an element of the universal set;
* `r ≥ 2`: every element of the result is `X_1 ⊗ b_i` for a factor `b_i` with `i ≥ 1` — the FIRST factor
  `b_0` is never used (the loop is `while i >= 1`) — or a helper `A ⊗ I…I` with `A` from the pool of
  all left strings.  Hence (`subsystemCompiler_pivot`) there is a bit of `W` that no element of the
  result has: the product of the elements can never have right block `W`.
-/
import PauLieVerif.Proofs.CompilerPar
import PauLieVerif.Proofs.CompilerFuelOdd

namespace PauLie
namespace CompilerSearch
open Compiler C07

/-! ### `factor_w_orders`: the first ordering -/

/-- labels of the factors of one letter, in the order of the first option of `factor_w_orders` -/
def facLabels : Letter → List Letter
  | .Y => [.X, .Z]
  | .X => [.X]
  | .Z => [.Z]
  | .I => []

/-- the factors of the first ordering, as texts on `m` sites, for the letters from site `j` on -/
def facT (m : Nat) : Nat → List Letter → List (List Letter)
  | _, [] => []
  | j, ch :: rest => (facLabels ch).map (single m j) ++ facT m (j + 1) rest

/-- the options of one site as texts -/
def siteT (m j : Nat) : Letter → List (List (List Letter))
  | .Y => [[single m j .X, single m j .Z], [single m j .Z, single m j .X]]
  | .X => [[single m j .X]]
  | .Z => [[single m j .Z]]
  | .I => [[]]

def optsT (m : Nat) : Nat → List Letter → List (List (List (List Letter)))
  | _, [] => []
  | j, ch :: rest => siteT m j ch :: optsT m (j + 1) rest

def liftT (O : List (List (List (List Letter)))) : List (List (List PS)) :=
  O.map (fun o => o.map (fun seg => seg.map PS.ofLetters))

theorem siteOpts_eq (c : Ctx) (m j : Nat) (hm : c.nRight = (m : Int)) (hj : j < m) (ch : Letter) :
    siteOpts c j ch = .ok ((siteT m j ch).map (fun seg => seg.map PS.ofLetters)) := by
  unfold siteOpts
  rw [hm]
  cases ch <;> simp only [getSingle_eq m j _ hj, liftAt, bind, Except.bind, pure, Except.pure] <;> rfl

theorem siteOptsAll_eq (c : Ctx) (m : Nat) (hm : c.nRight = (m : Int)) :
    ∀ (ls : List Letter) (j : Nat), j + ls.length ≤ m → siteOptsAll c j ls = .ok (liftT (optsT m j ls)) := by
  intro ls
  induction ls with
  | nil => intro j _; rfl
  | cons ch rest ih =>
    intro j hj
    simp only [List.length_cons] at hj
    unfold siteOptsAll
    rw [siteOpts_eq c m j hm (by omega) ch, ih (j + 1) (by omega)]
    rfl

theorem fwRec_head : ∀ (O : List (List (List PS))) (acc : List PS), (∀ o ∈ O, o ≠ []) →
    ∃ tl, (fwRec O acc).1 = (acc ++ O.flatMap (fun o => o.headD [])) :: tl := by
  intro O
  induction O with
  | nil => intro acc _; exact ⟨[], by simp [fwRec]⟩
  | cons o O ih =>
    intro acc hne
    cases o with
    | nil => exact absurd rfl (hne [] (List.mem_cons_self ..))
    | cons seg segs =>
      obtain ⟨tl, htl⟩ := ih (acc ++ seg) (fun o ho => hne o (List.mem_cons_of_mem _ ho))
      unfold fwRec fwSegs
      rcases hfr : fwRec O (acc ++ seg) with ⟨out1, acc1⟩
      rw [hfr] at htl
      simp only at htl
      subst htl
      exact ⟨tl ++ (fwSegs (fwRec O) segs (delTail acc1 seg.length)).1, by simp [List.flatMap_cons]⟩

theorem optsT_ne (m : Nat) : ∀ (ls : List Letter) (j : Nat), ∀ o ∈ liftT (optsT m j ls), o ≠ [] := by
  intro ls
  induction ls with
  | nil => intro j o ho; simp [optsT, liftT] at ho
  | cons ch rest ih =>
    intro j o ho
    simp only [optsT, liftT, List.map_cons, List.mem_cons] at ho
    rcases ho with rfl | ho
    · cases ch <;> simp [siteT]
    · exact ih (j + 1) o ho

theorem optsT_heads (m : Nat) : ∀ (ls : List Letter) (j : Nat),
    (liftT (optsT m j ls)).flatMap (fun o => o.headD []) = (facT m j ls).map PS.ofLetters := by
  intro ls
  induction ls with
  | nil => intro j; rfl
  | cons ch rest ih =>
    intro j
    simp only [optsT, liftT, List.map_cons, List.flatMap_cons, facT, List.map_append]
    have := ih (j + 1)
    simp only [liftT] at this
    rw [this]
    congr 1
    cases ch <;> rfl

/-- **`factor_w_orders(W)`**: never raises on a right block of the right length; its first ordering is
`facT` (with the tag `U = X_1`) -/
theorem factorWOrders_head (c : Ctx) (m : Nat) (hm : c.nRight = (m : Int)) (w : PS) (hw : w.len = m) :
    ∃ tl, factorWOrders c w
      = .ok (((facT m 0 w.letters).map (fun b => (c.uTag, PS.ofLetters b))) :: tl) := by
  unfold factorWOrders
  have h1 : ¬ ((w.len : Int) ≠ c.nRight) := by rw [hm, hw]; simp
  rw [if_neg h1, siteOptsAll_eq c m hm w.letters 0 (by rw [C04.length_letters, hw]; omega)]
  obtain ⟨tl, htl⟩ := fwRec_head (liftT (optsT m 0 w.letters)) [] (optsT_ne m _ _)
  simp only [bind, Except.bind, pure, Except.pure, htl, List.nil_append, optsT_heads, List.map_cons, List.map_map]
  exact ⟨_, rfl⟩

theorem facT_mem (m : Nat) : ∀ (ls : List Letter) (j : Nat) (b : List Letter), b ∈ facT m j ls →
    ∃ s l, j ≤ s ∧ s < j + ls.length ∧ (l = Letter.X ∨ l = Letter.Z) ∧ b = single m s l := by
  intro ls
  induction ls with
  | nil => intro j b hb; simp [facT] at hb
  | cons ch rest ih =>
    intro j b hb
    simp only [facT, List.mem_append, List.mem_map] at hb
    rcases hb with ⟨l, hl, rfl⟩ | hb
    · refine ⟨j, l, Nat.le_refl _, by simp, ?_, rfl⟩
      cases ch <;> simp [facLabels] at hl <;> tauto
    · obtain ⟨s, l, h1, h2, h3, h4⟩ := ih (j + 1) b hb
      exact ⟨s, l, by omega, by simp only [List.length_cons]; omega, h3, h4⟩

end CompilerSearch
end PauLie
