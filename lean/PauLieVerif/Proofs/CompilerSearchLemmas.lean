/-
Helper lemmas for the model of the compiler's search (`Model/CompilerSearch.lean`):
the objects built by the constructors in closed form, for all `N`, `k` — so that
`compile_target` on a concrete input reduces to a term the kernel can evaluate (the parser
behind `get_pauli_string` is defined by well-founded recursion; its results are replaced by
the round-trip theorem of C17).
-/
import PauLieVerif.Model.CompilerSearch
import PauLieVerif.Proofs.C07Lemmas

namespace PauLie
namespace CompilerSearch

open Compiler C07

/-- the pool `_all_left_paulis(k)` as texts -/
def poolLetters (k : Nat) : List (List Letter) := (allTexts k).filter notAllI

theorem allLeftPaulis_eq (k : Nat) :
    allLeftPaulis (k : Int) = .ok ((poolLetters k).map PS.ofLetters) := by
  unfold allLeftPaulis
  rw [Int.toNat_natCast, mapM_ok _ PS.ofLetters _ (fun t _ => (C17.C17_roundtrip_ps t).1)]
  rfl

/-- the fields of `OptimalPauliCompiler(k, N)` / `SubsystemCompiler(k, N)` in closed form -/
def closedCtx (k n : Nat) : Ctx :=
  { k := (k : Int), nTotal := (n : Int), nRight := (n : Int) - (k : Int),
    uTag := PS.ofLetters (single k 0 .X), pool := (poolLetters k).map PS.ofLetters }

theorem mkCtx_eq (k n : Nat) (hk : 2 ≤ k) : mkCtx (k : Int) (n : Int) = .ok (closedCtx k n) := by
  unfold mkCtx
  have h : ¬ ((k : Int) < 2) := by omega
  rw [if_neg h, leftAMinimal_eq, chooseUForB_eq k (by omega), allLeftPaulis_eq]
  rfl

/-- `left_a_minimal(k)` as the model's `compile` sees it -/
def aset (k : Nat) : List PS := (leftLetters k).map PS.ofLetters

theorem compile_eq (k n : Nat) (v w : PS) :
    compile (closedCtx k n) v w = compileWith (closedCtx k n) (aset k) v w := by
  unfold compile
  show (do let a ← liftAt Site.leftAMinimal (leftAMinimal (k : Int)); compileWith (closedCtx k n) a v w) = _
  rw [leftAMinimal_eq]
  rfl

/-- **`compile_target` for admissible input** (all targets, all `2 ≤ k < len`): guards pass, the
constructors succeed, and the call is `compile(V, W)` on the closed-form objects -/
theorem compileTargetB_eq (t : PS) (k n : Nat) (hn : t.len = n) (hk : 2 ≤ k) (hkn : k < n) :
    compileTargetB t (k : Int)
      = compileWith (closedCtx k n) (aset k) (t.getSubstring 0 (k : Int)) (t.getSubstring (k : Int) ((n : Int) - (k : Int))) := by
  unfold compileTargetB
  have hg : ¬ ¬ ((1 : Int) ≤ (k : Int) ∧ (k : Int) < (n : Int)) := by omega
  simp only [hn]
  rw [if_neg hg]
  show (do let c ← mkCtx (k : Int) (n : Int); compile c _ _) = _
  rw [mkCtx_eq k n hk]
  exact compile_eq k n _ _

theorem compileTarget_eq (t : PS) (k n : Nat) (hn : t.len = n) (hk : 2 ≤ k) (hkn : k < n) :
    compileTarget t (k : Int)
      = (compileWith (closedCtx k n) (aset k) (t.getSubstring 0 (k : Int))
          (t.getSubstring (k : Int) ((n : Int) - (k : Int)))).map (·.2) := by
  unfold compileTarget
  rw [compileTargetB_eq t k n hn hk hkn]

/-- outside the admissible range `compile_target` raises ValueError: in its own guard … -/
theorem compileTarget_guard (t : PS) (k : Int) (h : ¬ (1 ≤ k ∧ k < (t.len : Int))) :
    compileTarget t k = .error ⟨.valueError, .compileTarget⟩ := by
  unfold compileTarget compileTargetB
  rw [if_pos h]
  rfl

/-- … or, for `k = 1`, in the constructor -/
theorem compileTarget_guard_init (t : PS) (h : 1 < t.len) :
    compileTarget t 1 = .error ⟨.valueError, .init⟩ := by
  unfold compileTarget compileTargetB
  have hg : ¬ ¬ ((1 : Int) ≤ 1 ∧ (1 : Int) < (t.len : Int)) := by omega
  rw [if_neg hg]
  rfl

end CompilerSearch
end PauLie
