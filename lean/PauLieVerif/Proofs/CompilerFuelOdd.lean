/-
With the fuel bound of `Proofs/CompilerFuel.lean` the odd-`k` obstruction of
`Proofs/CompilerSearchOdd.lean` becomes an exact statement about the exception: for every `N`, every odd
`k`, a target `V ⊗ I…I` whose left block has an even number of non-identity letters makes every one of
the `2k+1` left searches of the `W = I` branch raise `RuntimeError("Left map BFS failed.")` (caught by
`compile`), after which `compile` raises `RuntimeError("Left-only mapping failed.")`.
-/
import PauLieVerif.Proofs.CompilerFuelAll
import PauLieVerif.Proofs.CompilerSearchOdd

namespace PauLie
namespace CompilerSearch
open Compiler C07

theorem aset_wf {k : Nat} {a : PS} (ha : a ∈ aset k) : a.WF ∧ a.len = k := by
  obtain ⟨la, hla, rfl⟩ := aset_mem ha
  exact ⟨C18.wf_ofLetters la, by rw [C18.len_ofLetters, length_of_mem_leftLetters hla]⟩

/-- if every left search raises `RuntimeError`, the loop of the `W = I` branch ends in
`RuntimeError("Left-only mapping failed.")` -/
theorem compileWI_all_fail (c : Ctx) (v w : PS) (A : List PS) :
    ∀ (l : List PS), (∀ a0 ∈ l, leftMapOverA a0 v A = .error ⟨.runtimeError, .leftMapOverA⟩) →
      compileWI c v w A l = .error ⟨.runtimeError, .compile⟩ := by
  intro l
  induction l with
  | nil => intro _; rfl
  | cons a0 rest ih =>
    intro h
    unfold compileWI
    rw [h a0 (List.mem_cons_self ..)]
    exact ih (fun a ha => h a (List.mem_cons_of_mem _ ha))

/-- for odd `k` the left search from a generator to a string of even weight raises exactly
`RuntimeError("Left map BFS failed.")` -/
theorem leftMapOverA_odd_raises (k : Nat) (hodd : k % 2 = 1) (f t : PS) (hf : f ∈ aset k)
    (hq : QL k t.letters = false) :
    leftMapOverA f t (aset k) = .error ⟨.runtimeError, .leftMapOverA⟩ := by
  have hfw := aset_wf hf
  rcases leftMapOverA_total f t (aset k) k hfw (fun a ha => aset_wf ha) with ⟨path, hp⟩ | h
  · exfalso
    obtain ⟨la, hla, rfl⟩ := aset_mem hf
    refine leftMapOverA_odd_obstruction k hodd _ t hfw.1 hfw.2 ?_ path hp
    rw [C18.letters_ofLetters, QL_leftLetters hodd hla, hq]
    decide
  · exact h

theorem getSubstring_left_len (t : PS) (k n : Nat) (hn : t.len = n) (hkn : k ≤ n) :
    (t.getSubstring 0 (k : Int)).len = k := by
  rw [← C04.length_letters]
  have : (t.getSubstring 0 (k : Int)).letters = t.letters.take k := leftPart_letters t k
  rw [this, List.length_take, C04.length_letters, hn]
  omega

theorem getSubstring_right_len (t : PS) (k n : Nat) (hn : t.len = n) :
    (t.getSubstring (k : Int) ((n : Int) - (k : Int))).len = n - k := by
  rw [← C04.length_letters]
  have : (t.getSubstring (k : Int) ((n : Int) - (k : Int))).letters = t.letters.drop k := by
    rw [← hn]; exact rightPart_letters t k
  rw [this, List.length_drop, C04.length_letters, hn]

/-- **C06 fails for every odd `k`, every `N`, with exactly this exception**: a target whose right block is
the identity and whose left block has an even number of non-identity letters makes the model of
`compile_target` raise `RuntimeError` in `compile` (`"Left-only mapping failed."`) -/
theorem compileTarget_odd_wI_raises (t : PS) (k n : Nat) (hn : t.len = n) (hk : 2 ≤ k) (hkn : k < n)
    (hodd : k % 2 = 1)
    (hW : (t.getSubstring (k : Int) ((n : Int) - (k : Int))).isIdentity = true)
    (hQ : QL k (t.letters.take k) = false) :
    compileTarget t (k : Int) = .error ⟨.runtimeError, .compile⟩ := by
  rw [compileTarget_eq t k n hn hk hkn]
  unfold compileWith
  have h1 : ((t.getSubstring 0 (k : Int)).len : Int) = (closedCtx k n).k := by
    rw [getSubstring_left_len t k n hn (by omega)]; rfl
  have h2 : ((t.getSubstring (k : Int) ((n : Int) - (k : Int))).len : Int) = (closedCtx k n).nRight := by
    rw [getSubstring_right_len t k n hn]
    simp only [closedCtx]
    omega
  rw [if_neg (by rw [h1, h2]; simp), if_pos hW]
  rw [compileWI_all_fail]
  · rfl
  · intro a0 ha0
    refine leftMapOverA_odd_raises k hodd a0 _ ha0 ?_
    have : (t.getSubstring 0 (k : Int)).letters = t.letters.take k := leftPart_letters t k
    rw [this, hQ]

end CompilerSearch
end PauLie
