/-
Kernel evaluations of the verified closure checker on concrete universal sets
(anchors of C07).  One pass over the enumerated closure computes its length and
whether a given string occurs, so that each fact costs one evaluation.
-/
import PauLieVerif.Proofs.C07Quad

namespace PauLie
namespace C07

open Closure

/-- the generators of `(N,k)` as bit lists -/
def uBits (N k : Nat) : List V := ((uLetters N k).map PS.ofLetters).map (·.bits)

/-- length of `l` and whether `v` occurs in it, in one pass -/
def scan (v : V) (l : List V) : Nat × Bool :=
  l.foldl (fun acc x => (acc.1 + 1, acc.2 || v == x)) (0, false)

theorem scan_aux (v : V) : ∀ (l : List V) (c : Nat) (b : Bool),
    l.foldl (fun acc x => (acc.1 + 1, acc.2 || v == x)) (c, b) = (c + l.length, b || l.contains v)
  | [], c, b => by simp
  | x :: t, c, b => by
    rw [List.foldl_cons, scan_aux v t]
    simp only [List.length_cons, List.contains_cons, Bool.or_assoc]
    congr 1
    omega

theorem scan_spec (v : V) (l : List V) : scan v l = (l.length, l.contains v) := by
  rw [scan, scan_aux]; simp

theorem of_scan {v : V} {l : List V} {c : Nat} (h : scan v l = (c, false)) : l.length = c ∧ v ∉ l := by
  rw [scan_spec] at h
  have h1 := congrArg Prod.fst h
  have h2 := congrArg Prod.snd h
  simp only at h1 h2
  exact ⟨h1, by simpa using h2⟩

theorem scan_4_3 : scan (PS.ofLetters [.I, .I, .I, .X]).bits (closureList (uBits 4 3)).1 = (136, false) := by
  decide +kernel

theorem scan_3_2 : scan (List.replicate 6 false) (closureList (uBits 3 2)).1 = (63, false) := by
  decide +kernel

end C07
end PauLie
