/-
Helpers for property C19, part 30b: closed forms with site-periodic symmetry strings - the functionals `omP`, `isP`,
`qW` under `++`, `add`, `drop`, shifts of the phase; the closed form `TP` is preserved by the commutator step
(`TP_closed`) and splits along `r ++ b` into the state of the tail and `trP` (`TP_append`).  Core Lean only.
-/
import PauLieVerif.Proofs.C19LastPat

namespace PauLie
namespace C19
open Closure Graph C01Star C03

theorem omP_nil (l : Lt) (i : Nat) : omP l i [] = false := by simp [omP]

theorem omP_append (l : Lt) : ∀ (m i : Nat) (x y : V), x.length = 2 * m → omP l i (x ++ y) = (omP l i x != omP l (i + m) y)
  | 0, i, [], y, _ => by simp [omP]
  | 0, _, _ :: _, _, h => by simp at h
  | m + 1, _, [], _, h => by simp at h
  | m + 1, _, [_], _, h => by simp at h; omega
  | m + 1, i, a :: b :: r, y, h => by
    simp only [List.cons_append, omP, omP_append l m (i + 1) r y (by simp at h; omega)]
    rw [show i + 1 + m = i + (m + 1) by omega]
    cases ((a && (l i).2) != (b && (l i).1)) <;> cases omP l (i + 1) r <;> cases omP l (i + (m + 1)) y <;> rfl

theorem isP_append (l : Lt) : ∀ (m i : Nat) (x y : V), x.length = 2 * m → isP l i (x ++ y) = (isP l i x && isP l (i + m) y)
  | 0, i, [], y, _ => by simp [isP]
  | 0, _, _ :: _, _, h => by simp at h
  | m + 1, _, [], _, h => by simp at h
  | m + 1, _, [_], _, h => by simp at h; omega
  | m + 1, i, a :: b :: r, y, h => by
    simp only [List.cons_append, isP, isP_append l m (i + 1) r y (by simp at h; omega), Bool.and_assoc]
    rw [show i + 1 + m = i + (m + 1) by omega]

theorem omP_add (l : Lt) : ∀ (i : Nat) (x y : V), x.length = y.length → omP l i (add x y) = (omP l i x != omP l i y)
  | _, [], [], _ => by simp [add, omP]
  | _, [], _ :: _, h => by simp at h
  | _, _ :: _, [], h => by simp at h
  | _, [a], [b], _ => by simp [add, omP]
  | _, [_], _ :: _ :: _, h => by simp at h
  | _, _ :: _ :: _, [_], h => by simp at h
  | i, a :: b :: s, c :: d :: t, h => by
    simp only [add, omP, omP_add l (i + 1) s t (by simpa using h)]
    cases a <;> cases b <;> cases c <;> cases d <;> cases (l i).1 <;> cases (l i).2 <;> cases omP l (i + 1) s <;>
      cases omP l (i + 1) t <;> rfl

theorem omP_replicate (l : Lt) : ∀ (m i : Nat), omP l i (List.replicate m false) = false
  | 0, _ => by simp [omP]
  | 1, _ => by simp [omP]
  | m + 2, i => by simp [List.replicate_succ, omP, omP_replicate l m (i + 1)]

theorem isP_zero_succ (l : Lt) (i : Nat) (h : l i ≠ (false, false)) (m : Nat) :
    isP l i (List.replicate (m + 2) false) = false := by
  simp only [List.replicate_succ, isP]
  rcases hl : l i with ⟨a, b⟩
  rw [hl] at h
  revert h; cases a <;> cases b <;> simp

/-- `ω(x, z)` when `z` is the restriction of `l` -/
theorem omega_isP (l : Lt) : ∀ (i : Nat) (x z : V), x.length = z.length → isP l i z = true → omega x z = omP l i x
  | _, [], [], _, _ => by simp [omega, omP]
  | _, [], _ :: _, h, _ => by simp at h
  | _, _ :: _, [], h, _ => by simp at h
  | _, [_], [_], _, hz => by simp [isP] at hz
  | _, [_], _ :: _ :: _, h, _ => by simp at h
  | _, _ :: _ :: _, [_], h, _ => by simp at h
  | i, a :: b :: s, c :: d :: t, h, hz => by
    simp only [isP, Bool.and_eq_true, beq_iff_eq] at hz
    obtain ⟨⟨h1, h2⟩, hz⟩ := hz
    simp only [omega, omP, omega_isP l (i + 1) s t (by simpa using h) hz, h1, h2]

theorem isP_drop (l : Lt) : ∀ (j i : Nat) (x : V), isP l i x = true → isP l (i + j) (x.drop (2 * j)) = true
  | 0, _, x, h => by simpa using h
  | j + 1, _, [], _ => by simp [isP]
  | j + 1, _, [_], h => by simp [isP] at h
  | j + 1, i, a :: b :: r, h => by
    simp only [isP, Bool.and_eq_true] at h
    rw [show 2 * (j + 1) = 2 * j + 1 + 1 by omega, show i + (j + 1) = i + 1 + j by omega]
    simpa using isP_drop l j (i + 1) r h.2

/-- the sum of the restrictions of `l` and `l'` is the restriction of `l + l'` -/
theorem isP_add (l l' : Lt) : ∀ (i : Nat) (x y : V), x.length = y.length → isP l i x = true → isP l' i y = true →
    isP (lAdd l l') i (add x y) = true
  | _, [], [], _, _, _ => by simp [add, isP]
  | _, [], _ :: _, h, _, _ => by simp at h
  | _, _ :: _, [], h, _, _ => by simp at h
  | _, [_], _, _, hx, _ => by simp [isP] at hx
  | _, _ :: _ :: _, [_], _, _, hy => by simp [isP] at hy
  | i, a :: b :: s, c :: d :: t, h, hx, hy => by
    simp only [isP, Bool.and_eq_true, beq_iff_eq] at hx hy
    obtain ⟨⟨h1, h2⟩, hx⟩ := hx
    obtain ⟨⟨h3, h4⟩, hy⟩ := hy
    simp only [add, isP, isP_add l l' (i + 1) s t (by simpa using h) hx hy, lAdd, h1, h2, h3, h4]
    simp

theorem lAdd_sp (A B : Lt) (c1 c2 d1 d2 : Bool) : lAdd (spn A B c1 c2) (spn A B d1 d2) = spn A B (c1 != d1) (c2 != d2) := by
  funext i
  simp only [lAdd, spn]
  cases c1 <;> cases c2 <;> cases d1 <;> cases d2 <;> cases (A i).1 <;> cases (A i).2 <;> cases (B i).1 <;> cases (B i).2 <;> rfl

theorem omP_sp (A B : Lt) (c1 c2 : Bool) : ∀ (i : Nat) (x : V),
    omP (spn A B c1 c2) i x = ((c1 && omP A i x) != (c2 && omP B i x))
  | _, [] => by simp [omP]
  | _, [_] => by simp [omP]
  | i, a :: b :: r => by
    simp only [omP, omP_sp A B c1 c2 (i + 1) r, spn]
    cases c1 <;> cases c2 <;> cases a <;> cases b <;> cases (A i).1 <;> cases (A i).2 <;> cases (B i).1 <;> cases (B i).2 <;>
      cases omP A (i + 1) r <;> cases omP B (i + 1) r <;> rfl

/-- the restriction of the zero member of the span is the identity -/
theorem isP_zero_iff (A B : Lt) : ∀ (i : Nat) (x : V), x.length % 2 = 0 → isP (spn A B false false) i x = isZ x
  | _, [], _ => by simp [isP, isZ]
  | _, [_], h => by simp at h
  | i, a :: b :: r, h => by
    simp only [isP, isZ_cons, isP_zero_iff A B (i + 1) r (by simp at h; omega), spn]
    cases a <;> cases b <;> simp

/-! ### shifting the phase by a period -/

theorem omP_congr {l l' : Lt} : ∀ (x : V) (i i' : Nat), (∀ j, l (i + j) = l' (i' + j)) → omP l i x = omP l' i' x
  | [], _, _, _ => by simp [omP]
  | [_], _, _, _ => by simp [omP]
  | a :: b :: r, i, i', h => by
    have h0 := h 0
    simp only [Nat.add_zero] at h0
    simp only [omP, h0, omP_congr r (i + 1) (i' + 1) (fun j => by
      rw [show i + 1 + j = i + (j + 1) by omega, show i' + 1 + j = i' + (j + 1) by omega]; exact h (j + 1))]

theorem isP_congr {l l' : Lt} : ∀ (x : V) (i i' : Nat), (∀ j, l (i + j) = l' (i' + j)) → isP l i x = isP l' i' x
  | [], _, _, _ => by simp [isP]
  | [_], _, _, _ => by simp [isP]
  | a :: b :: r, i, i', h => by
    have h0 := h 0
    simp only [Nat.add_zero] at h0
    simp only [isP, h0, isP_congr r (i + 1) (i' + 1) (fun j => by
      rw [show i + 1 + j = i + (j + 1) by omega, show i' + 1 + j = i' + (j + 1) by omega]; exact h (j + 1))]

/-- `l` has period `P` -/
def PerP (P : Nat) (l : Lt) : Prop := ∀ i, l (i + P) = l i

theorem PerP.mul {P : Nat} {l : Lt} (h : PerP P l) (i : Nat) : ∀ k, l (i + P * k) = l i
  | 0 => by simp
  | k + 1 => by rw [Nat.mul_succ, ← Nat.add_assoc, h, PerP.mul h i k]

theorem PerP.shift {P : Nat} {l : Lt} (h : PerP P l) (i j : Nat) : l (i + j) = l (i % P + j) := by
  have := h.mul (i % P + j) (i / P)
  rw [← this]
  congr 1
  have := Nat.mod_add_div i P
  omega

theorem PerP.sp {P : Nat} {A B : Lt} (hA : PerP P A) (hB : PerP P B) (c1 c2 : Bool) : PerP P (spn A B c1 c2) := by
  intro i; simp only [C19.spn, hA i, hB i]

theorem trP_mod {P : Nat} {A B w : Lt} (hA : PerP P A) (hB : PerP P B) (hw : PerP P w) (m : Nat)
    (sA sB sQ s3 s4 s5 s6 : Bool) (b : V) :
    trP A B w m sA sB sQ s3 s4 s5 s6 b = trP A B w (m % P) sA sB sQ s3 s4 s5 s6 b := by
  simp only [trP, qW, omP_congr b m (m % P) (hA.shift m), omP_congr b m (m % P) (hB.shift m),
    omP_congr b m (m % P) (hw.shift m), isP_congr b m (m % P) ((hA.sp hB _ _).shift m)]

/-! ### the quadratic form -/

theorem qW_append (w : Lt) (m i : Nat) (x y : V) (h : x.length = 2 * m) :
    qW w i (x ++ y) = (qW w i x != qW w (i + m) y) := by
  simp only [qW, qY_append x y (by omega), omP_append w m i x y h]
  cases qY x <;> cases qY y <;> cases omP w i x <;> cases omP w (i + m) y <;> rfl

theorem qW_add (w : Lt) (i : Nat) (x y : V) (h : x.length = y.length) :
    qW w i (add x y) = ((qW w i x != qW w i y) != omega x y) := by
  simp only [qW, qY_add x y h, omP_add w i x y h]
  cases qY x <;> cases qY y <;> cases omP w i x <;> cases omP w i y <;> cases omega x y <;> rfl

theorem qW_replicate (w : Lt) (m i : Nat) : qW w i (List.replicate m false) = false := by
  simp [qW, qY_replicate, omP_replicate]

/-! ### the closed form -/

theorem TP_iff (A B w : Lt) (i : Nat) (x : V) : TP A B w i x = true ↔ omP A i x = false ∧ omP B i x = false ∧
    qW w i x = true ∧ ∀ c1 c2, isP (spn A B c1 c2) i x = false := by
  simp only [TP, trP, Bool.and_eq_true, Bool.not_eq_true', Bool.true_and, Bool.false_bne]
  constructor
  · rintro ⟨⟨⟨⟨⟨⟨a, b⟩, c⟩, d⟩, e⟩, f⟩, g⟩
    refine ⟨a, b, c, ?_⟩
    intro c1 c2; cases c1 <;> cases c2 <;> assumption
  · rintro ⟨a, b, c, d⟩
    exact ⟨⟨⟨⟨⟨⟨a, b⟩, c⟩, d _ _⟩, d _ _⟩, d _ _⟩, d _ _⟩

theorem TP_closed (A B w : Lt) (n : Nat) (x y : V) (hx : x.length = 2 * n) (hy : y.length = 2 * n)
    (h1 : TP A B w 0 x = true) (h2 : TP A B w 0 y = true) (ho : omega x y = true) : TP A B w 0 (add x y) = true := by
  rw [TP_iff] at h1 h2 ⊢
  have hxy : x.length = y.length := hx.trans hy.symm
  have hl : x.length = (add x y).length := by rw [length_add_eq hx hy, hx]
  have hoz : omega x (add x y) = true := by rw [omega_add_right x x y hxy, omega_self, ho]; rfl
  refine ⟨by rw [omP_add A 0 x y hxy, h1.1, h2.1]; rfl, by rw [omP_add B 0 x y hxy, h1.2.1, h2.2.1]; rfl,
    by rw [qW_add w 0 x y hxy, h1.2.2.1, h2.2.2.1, ho]; rfl, ?_⟩
  intro c1 c2
  cases hz : isP (spn A B c1 c2) 0 (add x y)
  · rfl
  · have h3 := omega_isP _ 0 x (add x y) hl hz
    rw [hoz, omP_sp, h1.1, h1.2.1] at h3
    simp at h3

/-- `TP (r ++ b)` through the state of the tail -/
theorem TP_append (A B w : Lt) (m : Nat) (r b : V) (hr : r.length = 2 * m) :
    TP A B w 0 (r ++ b) = trP A B w m (omP A 0 r) (omP B 0 r) (qW w 0 r) (isP (spn A B false false) 0 r)
      (isP (spn A B true false) 0 r) (isP (spn A B false true) 0 r) (isP (spn A B true true) 0 r) b := by
  simp only [TP, trP, omP_append _ m 0 r b hr, qW_append w m 0 r b hr, isP_append _ m 0 r b hr, Nat.zero_add,
    Bool.true_and, Bool.false_bne]

/-- every non-zero member of the span has no identity letter -/
def NoId (A B : Lt) : Prop := ∀ i c1 c2, (c1 || c2) = true → spn A B c1 c2 i ≠ (false, false)

theorem isP_sp_zeros {A B : Lt} (h : NoId A B) (c1 c2 : Bool) (hc : (c1 || c2) = true) (i m : Nat) :
    isP (spn A B c1 c2) i (List.replicate (2 * (m + 1)) false) = false := by
  rw [show 2 * (m + 1) = 2 * m + 2 by omega]
  exact isP_zero_succ _ i (h i c1 c2 hc) _

/-- the zero tail -/
theorem TP_zero_append {A B w : Lt} (h : NoId A B) (m : Nat) (b : V) :
    TP A B w 0 (zeroV (2 * (m + 1)) ++ b) = t0P A B w (m + 1) b := by
  rw [TP_append A B w (m + 1) _ b (by simp [zeroV]), t0P]
  simp only [zeroV, omP_replicate, qW_replicate]
  rw [isP_sp_zeros h true false rfl, isP_sp_zeros h false true rfl, isP_sp_zeros h true true rfl,
    isP_zero_iff A B 0 _ (by simp), isZ_replicate]

/-- at most one of the four "the tail is the restriction of a member of the span" holds -/
theorem v7_tailP {A B : Lt} (h : NoId A B) : ∀ (r : V), 2 ≤ r.length →
    v7 (isP (spn A B false false) 0 r) (isP (spn A B true false) 0 r) (isP (spn A B false true) 0 r)
      (isP (spn A B true true) 0 r) = true
  | [], h => by simp at h
  | [_], h => by simp at h
  | a :: b :: r, _ => by
    have h1 := h 0 true false rfl
    have h2 := h 0 false true rfl
    have h3 := h 0 true true rfl
    simp only [isP, v7, spn] at h1 h2 h3 ⊢
    revert h1 h2 h3
    cases a <;> cases b <;> cases (A 0).1 <;> cases (A 0).2 <;> cases (B 0).1 <;> cases (B 0).2 <;> simp

end C19
end PauLie
