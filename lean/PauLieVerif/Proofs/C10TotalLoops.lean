/-
A small total-correctness logic for `Except Err` programs written in `do` notation:
`Ok Q x` says "`x` does not raise and its value satisfies `Q`".  Rules for `bind`, `pure`,
`for … in list` (invariant) and `while` (`Lean.Loop`: invariant + decreasing measure; the
one-step unfolding of the loop is `Lean.Loop.forIn_eq_of_monadTail` of core).

Used by Proofs/C10TotalQueue.lean to show that the queue construction of
`MorphFactory.build` never raises on strings of one length.
-/
import PauLieVerif.Model.PS

namespace PauLie
namespace C10Total

/-- `x` returns normally with a value satisfying `Q` -/
def Ok {α : Type} (Q : α → Prop) (x : Except Err α) : Prop := ∃ a, x = .ok a ∧ Q a

theorem Ok.intro {α : Type} {Q : α → Prop} {x : Except Err α} {a : α} (h : x = .ok a) (hq : Q a) :
    Ok Q x := ⟨a, h, hq⟩

theorem Ok.pure {α : Type} {Q : α → Prop} {a : α} (h : Q a) : Ok Q (Pure.pure a : Except Err α) :=
  ⟨a, rfl, h⟩

theorem Ok.ok {α : Type} {Q : α → Prop} {a : α} (h : Q a) : Ok Q (Except.ok a : Except Err α) :=
  ⟨a, rfl, h⟩

theorem Ok.bind {α β : Type} {P : α → Prop} {Q : β → Prop} {x : Except Err α}
    {f : α → Except Err β} (hx : Ok P x) (hf : ∀ a, P a → Ok Q (f a)) : Ok Q (x >>= f) := by
  obtain ⟨a, rfl, ha⟩ := hx
  exact hf a ha

theorem Ok.mono {α : Type} {P Q : α → Prop} {x : Except Err α} (hx : Ok P x)
    (h : ∀ a, P a → Q a) : Ok Q x := by
  obtain ⟨a, e, ha⟩ := hx
  exact ⟨a, e, h a ha⟩

theorem Ok.not_error {α : Type} {Q : α → Prop} {x : Except Err α} (hx : Ok Q x) (e : Err) :
    x ≠ .error e := by
  obtain ⟨a, rfl, _⟩ := hx
  intro h; cases h

/-- the state carried by a loop step -/
def stepVal {β : Type} : ForInStep β → β
  | .done b => b
  | .yield b => b

/-- `for x in l do …` with invariant `I` -/
theorem Ok.forIn_list {α β : Type} (I : β → Prop) (l : List α)
    (f : α → β → Except Err (ForInStep β))
    (h : ∀ x ∈ l, ∀ s, I s → Ok (fun r => I (stepVal r)) (f x s)) (init : β) (hI : I init) :
    Ok I (forIn l init f) := by
  induction l generalizing init with
  | nil => exact ⟨init, rfl, hI⟩
  | cons a t ih =>
    rw [List.forIn_cons]
    obtain ⟨r, hr, hIr⟩ := h a (by simp) init hI
    rw [hr]
    cases r with
    | done b => exact ⟨b, rfl, hIr⟩
    | yield b => exact ih (fun x hx => h x (by simp [hx])) b hIr

/-- `while … do …` / `repeat` with invariant `I` and a measure that decreases at every
`continue` (the loops of the model all carry explicit fuel) -/
theorem Ok.loop {β : Type} (I : β → Prop) (μ : β → Nat)
    (f : Unit → β → Except Err (ForInStep β))
    (h : ∀ s, I s → Ok (fun r => match r with
      | .done b => I b
      | .yield b => I b ∧ μ b < μ s) (f () s)) :
    ∀ (k : Nat) (s : β), μ s < k → I s → Ok I (forIn Lean.Loop.mk s f) := by
  intro k
  induction k with
  | zero => intro s hk; omega
  | succ k ih =>
    intro s hk hI
    show Ok I (Lean.Loop.forIn Lean.Loop.mk s f)
    rw [Lean.Loop.forIn_eq_of_monadTail]
    obtain ⟨r, hr, hIr⟩ := h s hI
    rw [hr]
    cases r with
    | done b => exact ⟨b, rfl, hIr⟩
    | yield b => exact ih b (by have := hIr.2; omega) hIr.1

end C10Total
end PauLie
