/-
Property C03 / C01, full invariant: on a duplicate-free commutator-CLOSED set the checker's
`invOfClosure` does not depend on the order of enumeration (`invOfClosure_perm_closed`).

Proof: the component search returns a system of components that partitions the non-central members
(`Proofs/C03Comps.lean`); the per-component entry is a function (`ofRaw`) of the raw data `K S x` of
the FIRST member `x`; `K S` is constant on components (`Proofs/C03Homog.lean`, transvections), so
the number of components with raw data `k` is `#{y : K S y = k} / k.1` - independent of the
enumeration; finally `mergeSimples` only depends on the multiset of entries
(`C01Names.mergeSimples_perm`).
-/
import PauLieVerif.Proofs.C03Homog
import PauLieVerif.Proofs.C01NamesPerm

namespace PauLie
namespace C03
open Closure Classify

/-- the non-central members -/
def restOf (C : List V) : List V := C.filter (fun x => C.any (fun y => omega x y))

/-- the components `invOfClosure` works with -/
def compsOf (C : List V) : List (List V) := invOfClosure.comps ((restOf C).length + 1) (restOf C) []

theorem invOfClosure_eq' (C : List V) :
    invOfClosure C = ⟨centreCount C, mergeSimples ((compsOf C).map inv1)⟩ := rfl

theorem restOf_perm {C C' : List V} (h : C.Perm C') : (restOf C).Perm (restOf C') := by
  unfold restOf
  have e : (fun x => C.any (fun y => omega x y)) = (fun x => C'.any (fun y => omega x y)) := by
    funext x
    rw [Bool.eq_iff_iff, List.any_eq_true, List.any_eq_true]
    exact ⟨fun ⟨y, hy, ho⟩ => ⟨y, h.mem_iff.1 hy, ho⟩, fun ⟨y, hy, ho⟩ => ⟨y, h.mem_iff.2 hy, ho⟩⟩
  rw [e]
  exact h.filter _

/-- the components of (an enumeration `C'` of) the set `C`, stated over `S = C` -/
theorem compsOf_spec {C C' : List V} (h : C.Perm C') :
    (compsOf C').flatten.Perm (restOf C) ∧ ∀ c ∈ compsOf C', IsComp C c := by
  have hsub : ∀ y ∈ restOf C', y ∈ C := fun y hy => h.mem_iff.2 (mem_of_filter hy)
  obtain ⟨h1, h2⟩ := comps_spec C ((restOf C').length + 1) (restOf C') (by omega) hsub (by
    intro y hy z hz hzn
    cases ho : omega y z with
    | false => rfl
    | true =>
      exfalso
      apply hzn
      unfold restOf
      rw [List.mem_filter]
      refine ⟨h.mem_iff.1 hz, ?_⟩
      rw [List.any_eq_true]
      exact ⟨y, h.mem_iff.1 (hsub y hy), by rw [omega_comm]; exact ho⟩)
  exact ⟨h1.trans (restOf_perm h).symm, h2⟩

theorem nodup_of_mem_flatten {L : List (List V)} (h : L.flatten.Nodup) {c : List V} (hc : c ∈ L) : c.Nodup :=
  (List.sublist_flatten_of_mem hc).nodup h

/-- the raw data of the first member -/
noncomputable def headK (S : List V) (c : List V) : Nat × Nat × Nat :=
  match c with
  | [] => (0, 0, 0)
  | x :: _ => K S x

/-- a duplicate-free component is, up to order, the set of members reachable from its head -/
theorem comp_perm {S : List V} (hnd : S.Nodup) {x : V} {t : List V} (hcnd : (x :: t).Nodup)
    (hr : ∀ y ∈ x :: t, Reach S x y) (hcl : ∀ y ∈ x :: t, ∀ z ∈ S, omega y z = true → z ∈ x :: t) :
    (x :: t).Perm (compL S x) := by
  rw [List.perm_ext_iff_of_nodup hcnd (nodup_compL hnd x)]
  intro y
  rw [mem_compL]
  constructor
  · exact hr y
  · intro h
    induction h with
    | refl _ => exact List.mem_cons_self ..
    | step _ hz ho ih => exact hcl _ ih _ hz ho

theorem inv1_of_isComp {S : List V} (hnd : S.Nodup) {c : List V} (hc : IsComp S c) (hcnd : c.Nodup) :
    inv1 c = ofRaw (headK S c) ∧ c.length = (headK S c).1 := by
  obtain ⟨x, t, rfl, hr, hcl⟩ := hc
  have hp := comp_perm hnd hcnd hr hcl
  refine ⟨?_, ?_⟩
  · rw [inv1_eq_raw, raw_perm hp]; rfl
  · show (x :: t).length = (raw (compL S x) x).1
    rw [← raw_perm hp]; rfl

section Closed
variable {n : Nat} {S : List V}

theorem headK_mem (hS : ClosedSet n S) (hnd : S.Nodup) {c : List V} (hc : IsComp S c) :
    ∀ y ∈ c, K S y = headK S c := by
  obtain ⟨x, t, rfl, hr, _⟩ := hc
  intro y hy
  exact (K_reach hS hnd (hr y hy)).symm

/-- counting members instead of components -/
theorem count_key (hS : ClosedSet n S) (hnd : S.Nodup) (k : Nat × Nat × Nat) : ∀ (cs : List (List V)),
    (∀ c ∈ cs, IsComp S c ∧ c.Nodup) →
    (cs.filter (fun c => headK S c == k)).length * k.1 = (cs.flatten.filter (fun y => K S y == k)).length
  | [], _ => by simp
  | c :: cs, h => by
    have ih := count_key hS hnd k cs (fun c' hc' => h c' (List.mem_cons_of_mem _ hc'))
    obtain ⟨hc, hcnd⟩ := h c (List.mem_cons_self ..)
    have hk := headK_mem hS hnd hc
    have hl := (inv1_of_isComp hnd hc hcnd).2
    rw [List.flatten_cons, List.filter_append, List.length_append, ← ih]
    by_cases e : headK S c = k
    · have h1 : c.filter (fun y => K S y == k) = c :=
        List.filter_eq_self.2 (fun y hy => by rw [hk y hy, e]; simp)
      rw [List.filter_cons_of_pos (by simp [e]), h1, List.length_cons, Nat.add_mul, hl, e]
      omega
    · have h1 : c.filter (fun y => K S y == k) = [] :=
        List.filter_eq_nil_iff.2 (fun y hy => by rw [hk y hy]; simpa using e)
      rw [List.filter_cons_of_neg (by simpa using e), h1]
      simp

/-- two systems of components of the same set have the same multiset of raw data -/
theorem keys_perm (hS : ClosedSet n S) (hnd : S.Nodup) {cs cs' : List (List V)}
    (h : ∀ c ∈ cs, IsComp S c ∧ c.Nodup) (h' : ∀ c ∈ cs', IsComp S c ∧ c.Nodup)
    (hp : cs.flatten.Perm cs'.flatten) : (cs.map (headK S)).Perm (cs'.map (headK S)) := by
  rw [List.perm_iff_count]
  intro k
  rw [List.count_eq_countP, List.count_eq_countP, List.countP_map, List.countP_map,
    List.countP_eq_length_filter, List.countP_eq_length_filter]
  have e1 := count_key hS hnd k cs h
  have e2 := count_key hS hnd k cs' h'
  rw [(hp.filter _).length_eq, ← e2] at e1
  simp only [Function.comp_def]
  by_cases hk : 0 < k.1
  · exact Nat.eq_of_mul_eq_mul_right hk e1
  · have hz : k.1 = 0 := by omega
    have empty : ∀ (ds : List (List V)), (∀ c ∈ ds, IsComp S c ∧ c.Nodup) →
        ds.filter (fun c => headK S c == k) = [] := by
      intro ds hds
      rw [List.filter_eq_nil_iff]
      intro c hc hck
      have hck' : headK S c = k := by simpa using hck
      have hl := (inv1_of_isComp hnd (hds c hc).1 (hds c hc).2).2
      obtain ⟨x, t, rfl, _, _⟩ := (hds c hc).1
      rw [hck', hz] at hl
      simp at hl
    rw [empty cs h, empty cs' h']

/-- **the full invariant of a duplicate-free commutator-closed set does not depend on the order of
enumeration** -/
theorem invOfClosure_perm_closed (hS : ClosedSet n S) (hnd : S.Nodup) {S' : List V} (hp : S.Perm S') :
    invOfClosure S = invOfClosure S' := by
  rw [invOfClosure_eq', invOfClosure_eq', centreCount_perm hp]
  congr 1
  apply C01Names.mergeSimples_perm
  obtain ⟨f1, c1⟩ := compsOf_spec (List.Perm.refl S)
  obtain ⟨f2, c2⟩ := compsOf_spec hp
  have hrnd : (restOf S).Nodup := hnd.filter _
  have n1 : ∀ c ∈ compsOf S, IsComp S c ∧ c.Nodup :=
    fun c hc => ⟨c1 c hc, nodup_of_mem_flatten (f1.nodup_iff.2 hrnd) hc⟩
  have n2 : ∀ c ∈ compsOf S', IsComp S c ∧ c.Nodup :=
    fun c hc => ⟨c2 c hc, nodup_of_mem_flatten (f2.nodup_iff.2 hrnd) hc⟩
  have m1 : (compsOf S).map inv1 = ((compsOf S).map (headK S)).map ofRaw := by
    rw [List.map_map]
    exact List.map_congr_left (fun c hc => (inv1_of_isComp hnd (n1 c hc).1 (n1 c hc).2).1)
  have m2 : (compsOf S').map inv1 = ((compsOf S').map (headK S)).map ofRaw := by
    rw [List.map_map]
    exact List.map_congr_left (fun c hc => (inv1_of_isComp hnd (n2 c hc).1 (n2 c hc).2).1)
  rw [m1, m2]
  exact (keys_perm hS hnd n1 n2 (f1.trans f2.symm)).map _

end Closed

end C03
end PauLie
