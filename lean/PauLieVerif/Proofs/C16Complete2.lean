/-
Helper lemmas for the completeness half of property C16, part 2: from strings to matrices.

  * `comm_cases`: two synchronised strings commute or anticommute, at string level
    (`commutes_with`) and at matrix level simultaneously;
  * `support_pauli`: if some member `g` anticommutes with exactly one of `p`, `q`, the
    coefficient `tr((M p ⊗ M q)ᴴ X)` of an operator commuting with `g ⊗ 1 + 1 ⊗ g` vanishes;
  * `step_pauli`: along a move `s ↦ s·g` of the commutator graph the coefficient of the
    summand `Tm s l = M s ⊗ M l M s` of a symmetry does not change;
  * `conn_const`: hence it is constant along every path (`Conn`) of the graph;
  * `comps_conn`: every component returned by `get_graph_components` is connected from a
    root, and the components cover all `4ⁿ` strings.
-/
import PauLieVerif.Proofs.C16Complete1
import PauLieVerif.Proofs.C16Main

namespace PauLie
namespace C16

open Matrix Complex C12 C04 C14 Graph SecondMoment

/-- one summand of a symmetry: `M(s) ⊗ (M(l) M(s))` -/
noncomputable def Tm (n : ℕ) (s l : PS) : Mat (n + n) :=
  tens (M (s.vec n)) (M (l.vec n) * M (s.vec n))

theorem quadMat_eq_Tm (n : ℕ) (c : List PS) (l : PS) :
    quadMat n c l = (c.map (fun s => Tm n s l)).sum := rfl

theorem vec_congr_bits {n : ℕ} {a b : PS} (h : a.bits = b.bits) : a.vec n = b.vec n := by
  simp [PS.vec, PS.letters, h]

theorem Tm_congr_bits {n : ℕ} {a b : PS} (l : PS) (h : a.bits = b.bits) : Tm n a l = Tm n b l := by
  unfold Tm; rw [vec_congr_bits h]

theorem gg_eq_lift2 (n : ℕ) (g : PS) : gg n g = lift2 (M (g.vec n)) := gg_eq n g

/-- two synchronised strings of the same length commute or anticommute — at the level of
`commutes_with` and of the matrices at once -/
theorem comm_cases {n : ℕ} {g p : PS} (hg : g.WF ∧ g.len = n) (hp : p.WF ∧ p.len = n) :
    (PS.commutesWith g p = .ok true ∧ M (g.vec n) * M (p.vec n) = M (p.vec n) * M (g.vec n)) ∨
    (anti g p ∧ M (g.vec n) * M (p.vec n) = -(M (p.vec n) * M (g.vec n))) := by
  obtain ⟨b, hb, hbc⟩ := C04_commutes n g p hg.1 hp.1 hg.2 hp.2
  cases b with
  | true => exact .inl ⟨hb, (hbc.mp rfl).eq⟩
  | false =>
    right
    refine ⟨hb, ?_⟩
    have hnc : ¬ Commute (M (g.vec n)) (M (p.vec n)) := fun h => Bool.false_ne_true (hbc.mpr h)
    obtain ⟨_, hex, hall⟩ := C04_adjoint n g p hg.1 hp.1 hg.2 hp.2
    obtain ⟨r, hr⟩ := hex hnc
    obtain ⟨hmr, k, hk, hcomm, _⟩ := hall r hr
    obtain ⟨k', r', hk', hr', _, _, _, hprod⟩ := C04_mul n g p hg.1 hp.1 hg.2 hp.2
    obtain rfl : r' = r := by rw [hr'] at hmr; exact Except.ok.inj hmr
    obtain rfl : k' = k := by rw [hk'] at hk; exact Except.ok.inj hk
    have : M (p.vec n) * M (g.vec n)
        = M (g.vec n) * M (p.vec n) - (2 * (-I) ^ k') • M (r'.vec n) := by rw [← hcomm]; abel
    rw [this, hprod, two_mul, add_smul]; abel

theorem not_anti_of_comm {g p : PS} (h : PS.commutesWith g p = .ok true) : ¬ anti g p := by
  intro ha; unfold anti at ha; rw [h] at ha; cases ha

/-- a member anticommuting with exactly one tensor factor kills the coefficient -/
theorem support_pauli {n : ℕ} {g p q : PS} {X : Mat (n + n)} (hg : g.WF ∧ g.len = n)
    (hp : p.WF ∧ p.len = n) (hq : q.WF ∧ q.len = n) (hX : X * gg n g = gg n g * X)
    (h : ¬ (anti g p ↔ anti g q)) : ip (tens (M (p.vec n)) (M (q.vec n))) X = 0 := by
  rw [gg_eq_lift2] at hX
  rcases comm_cases hg hp with ⟨cp, mp⟩ | ⟨ap, mp⟩ <;> rcases comm_cases hg hq with ⟨cq, mq⟩ | ⟨aq, mq⟩
  · exact absurd ⟨fun a => absurd a (not_anti_of_comm cp), fun a => absurd a (not_anti_of_comm cq)⟩ h
  · exact support_right (M_mul_self _) (M_conjTranspose _) hX mp mq
  · exact support_left (M_mul_self _) (M_conjTranspose _) hX mp mq
  · exact absurd ⟨fun _ => aq, fun _ => ap⟩ h

/-- **one move of the commutator graph**: `s ↦ s' = s·g` with `g` anticommuting with `s`
leaves the coefficient of the summand `M s ⊗ M l M s` unchanged (`l` commuting with `g`) -/
theorem step_pauli {n : ℕ} {g s s' l : PS} {X : Mat (n + n)} (hg : g.WF ∧ g.len = n)
    (hs : s.WF ∧ s.len = n) (hl : l.WF ∧ l.len = n) (hX : X * gg n g = gg n g * X)
    (ha : anti g s) (hm : PS.multiply s g = .ok s') (hlg : PS.commutesWith g l = .ok true) :
    ip (Tm n s l) X = ip (Tm n s' l) X := by
  rw [gg_eq_lift2] at hX
  have hAS : M (g.vec n) * M (s.vec n) = -(M (s.vec n) * M (g.vec n)) := by
    rcases comm_cases hg hs with ⟨c, _⟩ | ⟨_, m⟩
    · exact absurd ha (not_anti_of_comm c)
    · exact m
  have hAL : M (g.vec n) * M (l.vec n) = M (l.vec n) * M (g.vec n) := by
    rcases comm_cases hg hl with ⟨_, m⟩ | ⟨a, _⟩
    · exact m
    · exact absurd a (not_anti_of_comm hlg)
  obtain ⟨k, r, _, hr, _, _, _, hprod⟩ := C04_mul n g s hg.1 hs.1 hg.2 hs.2
  obtain rfl : r = s' := by
    rw [multiply_comm hg.1 hs.1 (hg.2.trans hs.2.symm), hm] at hr
    exact (Except.ok.inj hr).symm
  set A := M (g.vec n) with hA
  set S := M (s.vec n) with hS
  set Lm := M (l.vec n) with hLm
  set S' := M (r.vec n) with hS'
  set φ : ℂ := (-I) ^ k with hφ
  have hAA : A * A = 1 := M_mul_self _
  have hSS : S * S = 1 := M_mul_self _
  have hS'S' : S' * S' = 1 := M_mul_self _
  -- φ² = -1
  have hφφ : φ * φ = -1 := by
    have e1 : (A * S) * (A * S) = (φ * φ) • (1 : Mat n) := by
      rw [hprod, Matrix.smul_mul, Matrix.mul_smul, hS'S', smul_smul]
    have e2 : (A * S) * (A * S) = -1 := by
      calc (A * S) * (A * S) = (-(S * A)) * (A * S) := by rw [← hAS]
        _ = -(S * ((A * A) * S)) := by simp only [Matrix.neg_mul, Matrix.mul_assoc]
        _ = -1 := by rw [hAA, Matrix.one_mul, hSS]
    have h0 : (φ * φ + 1) • (1 : Mat n) = 0 := by
      rw [add_smul, ← e1, e2, one_smul]; abel
    have hone : (1 : Mat n) ≠ 0 := by rw [← M_one]; exact M_ne_zero _
    rcases smul_eq_zero.mp h0 with h | h
    · exact eq_neg_of_add_eq_zero_left h
    · exact absurd h hone
  have hQ : A * (Lm * S) = -((Lm * S) * A) := by
    rw [← Matrix.mul_assoc, hAL, Matrix.mul_assoc, hAS, Matrix.mul_neg, Matrix.mul_assoc]
  have hrel := step_rel hAA (M_conjTranspose _) hX hAS hQ
  have e : tens (A * S) (A * (Lm * S)) = -Tm n r l := by
    have e1 : A * (Lm * S) = φ • (Lm * S') := by
      rw [← Matrix.mul_assoc, hAL, Matrix.mul_assoc, hprod, Matrix.mul_smul]
    rw [e1, hprod, tens_smul_left, tens_smul_right, smul_smul, hφφ]
    simp [Tm, hLm, hS']
  rw [e, ip_neg_left] at hrel
  unfold Tm
  exact eq_of_sub_eq_zero (by rw [sub_eq_add_neg]; exact hrel)

/-- **constancy along paths**: for an operator commuting with every `g ⊗ 1 + 1 ⊗ g` and a
linear symmetry `l`, the coefficient of `M s ⊗ M l M s` is the same at both ends of a path
of the commutator graph -/
theorem conn_const {n : ℕ} {G : List PS} {E : List (PS × PS)} {l : PS} {X : Mat (n + n)}
    (hG : Uniform n G)
    (hedge : ∀ P Q, (P, Q) ∈ E → (P.WF ∧ P.len = n) ∧ ∃ g ∈ G, anti g P ∧ PS.multiply P g = .ok Q)
    (hl : l.WF ∧ l.len = n) (hlc : ∀ g ∈ G, PS.commutesWith g l = .ok true)
    (hX : ∀ g ∈ G, X * gg n g = gg n g * X) {r s : PS} (h : Conn E r s) :
    ip (Tm n s l) X = ip (Tm n r l) X := by
  induction h with
  | refl hb => rw [Tm_congr_bits l hb]
  | @tail b c d e _ h2 h3 h4 ih =>
    rw [← Tm_congr_bits l h4, ← ih, Tm_congr_bits l h2]
    rcases h3 with h3 | h3
    · obtain ⟨hc, g, hg, ha, hm⟩ := hedge c d h3
      exact (step_pauli (hG g hg) hc hl (hX g hg) ha hm (hlc g hg)).symm
    · obtain ⟨hd, g, hg, ha, hm⟩ := hedge d c h3
      exact step_pauli (hG g hg) hd hl (hX g hg) ha hm (hlc g hg)

/-- the components `get_graph_components` returns: each is connected from a root, and
together they cover every string on `n` qubits -/
theorem comps_conn {n : ℕ} {G : List PS} (hG : Uniform n G) (hne : G ≠ []) {cs : List (List PS)}
    (hcs : getGraphComponents G true = .ok cs) (hV : ∀ c ∈ cs, VList n c) :
    ∃ E : List (PS × PS),
      (∀ P Q, (P, Q) ∈ E →
        (P.WF ∧ P.len = n) ∧ ∃ g ∈ G, anti g P ∧ PS.multiply P g = .ok Q) ∧
      (∀ c ∈ cs, ∃ r ∈ c, ∀ s ∈ c, Conn E r s) ∧
      (∀ v : PS, v.WF ∧ v.len = n → ∃ c ∈ cs, v ∈ c) := by
  obtain ⟨E, hE, ⟨hall, _, _⟩, hedge⟩ := C14_commutator_graph hG hne
  have hmemE : ∀ e ∈ E, e.1 ∈ PS.genAll n ∧ e.2 ∈ PS.genAll n := by
    rintro ⟨P, Q⟩ he
    obtain ⟨⟨i, j, _, hi, hj⟩, _⟩ := (hedge P Q).mp he
    exact ⟨List.mem_of_getElem? hi, List.mem_of_getElem? hj⟩
  have hEv : ∀ e ∈ E, containsPS (PS.genAll n) e.1 = true ∧ containsPS (PS.genAll n) e.2 = true :=
    fun e he => ⟨containsPS_of_mem (hmemE e he).1, containsPS_of_mem (hmemE e he).2⟩
  obtain ⟨h1, _, h3⟩ := components_spec (PS.genAll n) E hEv
  have hemp : G.isEmpty = false := by cases G with
    | nil => exact absurd rfl hne
    | cons _ _ => rfl
  have hcs' : getGraphComponents G true = .ok (components (PS.genAll n) E) := by
    simp [getGraphComponents, hE, hemp, bind, Except.bind, pure, Except.pure]
  obtain rfl : components (PS.genAll n) E = cs := by
    rw [hcs] at hcs'; exact (Except.ok.inj hcs').symm
  refine ⟨E, ?_, ?_, ?_⟩
  · intro P Q he
    exact ⟨(hall P).mp (hmemE _ he).1, ((hedge P Q).mp he).2⟩
  · intro c hc
    obtain ⟨r, _, hrc, _, _, hconn⟩ := h1 c hc
    exact ⟨r, hrc, fun s hs => (hconn s).mp (containsPS_of_mem hs)⟩
  · intro v hv
    obtain ⟨c, hc, hcv⟩ := h3 v ((hall v).mpr hv)
    exact ⟨c, hc, (containsPS_iff_mem (fun x hx => (hV c hc x hx).1) hv.1).mp hcv⟩

theorem sum_map_const {α : Type} (c : List α) (f : α → ℂ) (κ : ℂ) (h : ∀ s ∈ c, f s = κ) :
    (c.map f).sum = (c.length : ℂ) * κ := by
  induction c with
  | nil => simp
  | cons a c ih =>
    rw [List.map_cons, List.sum_cons, h a (List.mem_cons_self ..),
      ih (fun s hs => h s (List.mem_cons_of_mem _ hs)), List.length_cons]
    push_cast; ring

end C16
end PauLie
