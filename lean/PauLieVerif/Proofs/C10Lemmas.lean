/-
Helper lemmas for Properties/C10.lean: what the padding helpers of the collection
(`PS.expand`, `expandAll`, `processing`, `collInit`) do to a list of strings.
-/
import PauLieVerif.Model.Collection

namespace PauLie
namespace C10
open Collection

/-- `y` is `x` followed by identity letters (possibly none) -/
def Ext (x y : PS) : Prop := ∃ k : Nat, y.bits = x.bits ++ List.replicate (2 * k) false

/-- element-wise `Ext`: same length, same order, every string only padded -/
inductive ExtList : List PS → List PS → Prop
  | nil : ExtList [] []
  | cons {x y : PS} {l l' : List PS} : Ext x y → ExtList l l' → ExtList (x :: l) (y :: l')

theorem ext_refl (x : PS) : Ext x x := ⟨0, by simp⟩

theorem extList_refl : ∀ l : List PS, ExtList l l
  | [] => ExtList.nil
  | x :: l => ExtList.cons (ext_refl x) (extList_refl l)

theorem extList_length {l l' : List PS} (h : ExtList l l') : l.length = l'.length := by
  induction h with
  | nil => rfl
  | cons _ _ ih => simp [ih]

theorem expand_ext {p p' : PS} {n : Int} (h : p.expand n = .ok p') : Ext p p' := by
  unfold PS.expand PS.identity at h
  split at h
  · cases h
  · simp only [bind, Except.bind, pure, Except.pure] at h
    cases h
    exact ⟨(n - ↑p.len).toNat, by simp [PS.tensor, PS.ofBits]⟩

theorem expand_ok_of_le (p : PS) (n : Nat) (h : p.len ≤ n) : ∃ p', p.expand (n : Int) = .ok p' := by
  unfold PS.expand PS.identity
  have : ¬ ((n : Int) - (p.len : Int) < 0) := by omega
  simp [this, bind, Except.bind, pure, Except.pure]

theorem expandAll_ext : ∀ {gens l : List PS} {n : Int}, expandAll gens n = .ok l → ExtList gens l
  | [], l, n, h => by
    simp [expandAll, pure, Except.pure] at h
    subst h; exact ExtList.nil
  | g :: gens, l, n, h => by
    unfold expandAll at h
    rw [List.mapM_cons] at h
    cases hg : g.expand n with
    | error e => simp [hg, bind, Except.bind] at h
    | ok g' =>
      cases hr : gens.mapM (fun g => g.expand n) with
      | error e => simp [hg, hr, bind, Except.bind] at h
      | ok r =>
        simp [hg, hr, bind, Except.bind, pure, Except.pure] at h
        subst h
        exact ExtList.cons (expand_ext hg) (expandAll_ext (n := n) hr)

theorem expandAll_ok : ∀ (gens : List PS) (n : Nat), (∀ g ∈ gens, g.len ≤ n) →
    ∃ l, expandAll gens (n : Int) = .ok l
  | [], n, _ => ⟨[], rfl⟩
  | g :: gens, n, h => by
    obtain ⟨g', hg⟩ := expand_ok_of_le g n (h g (List.mem_cons_self))
    obtain ⟨r, hr⟩ := expandAll_ok gens n (fun x hx => h x (List.mem_cons_of_mem _ hx))
    refine ⟨g' :: r, ?_⟩
    unfold expandAll at hr ⊢
    rw [List.mapM_cons]
    simp [hg, hr, bind, Except.bind, pure, Except.pure]

theorem foldl_max_ge (f : PS → Nat) : ∀ (l : List PS) (m : Nat),
    m ≤ l.foldl (fun m g => max m (f g)) m ∧ ∀ g ∈ l, f g ≤ l.foldl (fun m g => max m (f g)) m
  | [], m => ⟨Nat.le_refl _, fun _ h => by cases h⟩
  | x :: l, m => by
    have ih := foldl_max_ge f l (max m (f x))
    simp only [List.foldl_cons]
    refine ⟨Nat.le_trans (Nat.le_max_left _ _) ih.1, ?_⟩
    intro g hg
    rcases List.mem_cons.mp hg with rfl | hg
    · exact Nat.le_trans (Nat.le_max_right _ _) ih.1
    · exact ih.2 g hg

theorem le_longest {gens : List PS} {g : PS} (h : g ∈ gens) : g.len ≤ longest gens :=
  (foldl_max_ge PS.len gens 0).2 g h

/-- `_processing` never raises; it pads either the new string or all the old ones -/
theorem processing_spec (gens : List PS) (p : PS) :
    ∃ l p', processing gens p = .ok (l, p') ∧ ExtList gens l ∧ Ext p p' := by
  unfold processing
  split
  · exact ⟨gens, p, rfl, extList_refl _, ext_refl _⟩
  · simp only
    split
    · next hlt =>
      obtain ⟨p', hp⟩ := expand_ok_of_le p (longest gens) (Nat.le_of_lt hlt)
      refine ⟨gens, p', ?_, extList_refl _, expand_ext hp⟩
      simp [hp, bind, Except.bind, pure, Except.pure]
    · split
      · next hgt =>
        obtain ⟨l, hl⟩ := expandAll_ok gens p.len
          (fun g hg => Nat.le_trans (le_longest hg) (Nat.le_of_lt hgt))
        refine ⟨l, p, ?_, expandAll_ext hl, ext_refl _⟩
        simp [hl, bind, Except.bind, pure, Except.pure]
      · exact ⟨gens, p, rfl, extList_refl _, ext_refl _⟩

theorem padMapM_spec (L : Nat) : ∀ (gens : List PS), (∀ g ∈ gens, g.len ≤ L) →
    ∃ l, gens.mapM (fun g => if g.len < L then g.expand (L : Int) else Except.ok g) = .ok l ∧ ExtList gens l
  | [], _ => ⟨[], rfl, ExtList.nil⟩
  | g :: gens, hb => by
    obtain ⟨r, hr, hext⟩ := padMapM_spec L gens (fun x hx => hb x (List.mem_cons_of_mem _ hx))
    rw [List.mapM_cons]
    by_cases hlt : g.len < L
    · obtain ⟨g', hg⟩ := expand_ok_of_le g L (Nat.le_of_lt hlt)
      refine ⟨g' :: r, ?_, ExtList.cons (expand_ext hg) hext⟩
      simp [hlt, hg, hr, bind, Except.bind, pure, Except.pure]
    · refine ⟨g :: r, ?_, ExtList.cons (ext_refl g) hext⟩
      simp [hlt, hr, bind, Except.bind, pure, Except.pure]

/-- `PauliStringCollection(generators)`: never raises, only pads -/
theorem collInit_spec (gens : List PS) : ∃ l, Graph.collInit gens = .ok l ∧ ExtList gens l := by
  unfold Graph.collInit
  split
  · next h =>
    have : gens = [] := by simpa using h
    subst this
    exact ⟨[], rfl, ExtList.nil⟩
  · exact padMapM_spec _ gens (fun g hg => (foldl_max_ge PS.len gens 0).2 g hg)

end C10
end PauLie
