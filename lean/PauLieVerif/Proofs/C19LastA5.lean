/-
Helpers for property C19, part 31: family a5 (`XY`,`YZ`), table row `_a5(n)` (period 6 in n).

Closed form: the strings commuting with `A = X Y Z X Y Z …` and `B = Y Z X Y Z X …` that carry an odd number of `Y`
and are not in the span of `A`, `B` (`T5 = TP a5A a5B a5W 0`).  Instance of `clo_pat` (`Proofs/C19LastPatStep.lean`)
with period 3; n = 3, 4 by kernel evaluation.
-/
import PauLieVerif.Proofs.C19LastPatStep
import PauLieVerif.Proofs.C19LastA5b
import PauLieVerif.Proofs.C19LastA5c
import PauLieVerif.Proofs.C19LastA5d

namespace PauLie
namespace C19
open Closure Graph C01Star C03

/-- a translate of a two-site word satisfies the closed form when the word does at its position -/
theorem TP_shiftV {A B w : Lt} (hne : NoId A B) {n k : Nat} (hn : 3 ≤ n) (hk : k + 2 ≤ n) {g : V} (hg : g.length = 4)
    (h1 : omP A k g = false) (h2 : omP B k g = false) (h3 : qW w k g = true) : TP A B w 0 (shiftV n k g) = true := by
  rw [TP_iff]
  have hz : (List.replicate (2 * k) false).length = 2 * k := by simp
  have hg' : g.length = 2 * 2 := hg
  have e1 : ∀ l : Lt, omP l 0 (shiftV n k g) = omP l k g := by
    intro l
    rw [shiftV, omP_append l k 0 _ _ hz, omP_append l 2 (0 + k) _ _ hg', omP_replicate, omP_replicate, Nat.zero_add]
    cases omP l k g <;> rfl
  have e3 : qW w 0 (shiftV n k g) = true := by
    rw [shiftV, qW_append w k 0 _ _ hz, qW_append w 2 (0 + k) _ _ hg', qW_replicate, qW_replicate, Nat.zero_add, h3]; rfl
  refine ⟨by rw [e1, h1], by rw [e1, h2], e3, ?_⟩
  intro c1 c2
  by_cases hc : (c1 || c2) = true
  · rw [shiftV, isP_append _ k 0 _ _ hz, isP_append _ 2 (0 + k) _ _ hg']
    by_cases h0 : k = 0
    · subst h0
      rw [show 2 * (n - 2 - 0) = 2 * ((n - 3) + 1) by omega, isP_sp_zeros hne c1 c2 hc]; simp
    · rw [show 2 * k = 2 * ((k - 1) + 1) by omega, isP_sp_zeros hne c1 c2 hc]; simp
  · have hcc : c1 = false ∧ c2 = false := by revert hc; cases c1 <;> cases c2 <;> simp
    rw [hcc.1, hcc.2, isP_zero_iff A B 0 _ (by rw [length_shiftV hg hk]; omega)]
    cases hzz : isZ (shiftV n k g)
    · rfl
    · rw [(isZ_iff _).1 hzz, zeroV, qW_replicate] at e3; cases e3

theorem per_a5A : PerP 3 a5A := by intro i; simp [a5A]
theorem per_a5B : PerP 3 a5B := by intro i; simp [a5B]
theorem per_a5W : PerP 3 a5W := by intro i; rfl

theorem noId_a5 : NoId a5A a5B := by
  intro i c1 c2 hc
  have h : i % 3 = 0 ∨ i % 3 = 1 ∨ i % 3 = 2 := by omega
  revert hc
  rcases h with h | h | h <;> cases c1 <;> cases c2 <;> simp [spn, a5A, a5B, h]

theorem chkA5 : ∀ ph, ph < 3 → chkP a5A a5B a5W ph
  | 0, _ => chkA5_0
  | 1, _ => chkA5_1
  | 2, _ => chkA5_2
  | _ + 3, h => by omega

/-- closed form of a5 -/
def T5 : V → Bool := TP a5A a5B a5W 0

theorem gen_a5 : ∀ n, 5 ≤ n → ∀ g ∈ klocalV n gensA5, T5 g = true := by
  intro n hn g hg
  obtain ⟨g0, hg0, k, hk, rfl⟩ := mem_klocalV.1 hg
  have key : ∀ ph, ph < 3 → ∀ g ∈ gensA5, omP a5A ph g = false ∧ omP a5B ph g = false ∧ qW a5W ph g = true := by decide
  have hk3 := key (k % 3) (Nat.mod_lt _ (by omega)) g0 hg0
  refine TP_shiftV noId_a5 (by omega) (by omega) (lenA5 g0 hg0) ?_ ?_ ?_
  · rw [omP_congr g0 k (k % 3) (per_a5A.shift k)]; exact hk3.1
  · rw [omP_congr g0 k (k % 3) (per_a5B.shift k)]; exact hk3.2.1
  · rw [qW, omP_congr g0 k (k % 3) (per_a5W.shift k)]; exact hk3.2.2

/-- **a5**: the closure for every n ≥ 3 -/
theorem clo_a5 {n : Nat} (hn : 3 ≤ n) (x : V) : Clo (klocalV n gensA5) x ↔ x.length = 2 * n ∧ T5 x = true := by
  by_cases h5 : 5 ≤ n
  · refine clo_pat lenA5 per_a5A per_a5B per_a5W (by omega) noId_a5 chkA5 chA5 ?_ gen_a5 h5 x
    intro x hx hq
    have := List.all_eq_true.1 base_a5 x (List.mem_filter.2 ⟨mem_allV.2 hx, hq⟩)
    exact (closureList_sound_complete (uniform_klocalV lenA5)).1 (List.contains_iff_mem.1 this)
  · obtain rfl | rfl : n = 3 ∨ n = 4 := by omega
    · exact clo_iff_of_listChk lenA5 base_a5_3 x
    · exact clo_iff_of_listChk lenA5 base_a5_4 x

end C19
end PauLie
