/-
Helpers for property C19, part 31a: family a5 (`XY`,`YZ`) - the periodic strings and the kernel-evaluated checks, phase 0.
-/
import PauLieVerif.Proofs.C19LastPat

namespace PauLie
namespace C19
open Closure Graph C01Star C03

/-- `X Y Z X Y Z …` -/
def a5A : Lt := fun i => if i % 3 = 0 then (true, false) else if i % 3 = 1 then (true, true) else (false, true)
/-- `Y Z X Y Z X …` -/
def a5B : Lt := fun i => if i % 3 = 0 then (true, true) else if i % 3 = 1 then (false, true) else (true, false)
def a5W : Lt := fun _ => (false, false)

theorem chkA5_0 : chkP a5A a5B a5W 0 := by
  unfold chkP; decide +kernel

end C19
end PauLie
