/-
Property C01, type-A canonical stars, FULL invariants: the closure of a type-A star (path of `m`
vertices with extra single legs `es` at its second vertex; `m = 2` is the pure single-leg star) is a
fibred so(m+1) set with fibres of `2^|es|` members (`Proofs/C01SoFib.lean`), hence

    invOfClosure (closure) = invOfName [2^|es| · so(m+1)]        (m = 2 or m ≥ 4).
-/
import PauLieVerif.Proofs.C01SoFib
import PauLieVerif.Proofs.C01TypeAList

namespace PauLie
namespace C01Star
open Closure Classify C03 C19

namespace TypeA
variable {L m : Nat} {v : Nat → V} {es : List V}

/-- the fibre over the interval `p`: all its translates by central elements -/
def fibT (L : Nat) (v : Nat → V) (es : List V) (p : Nat × Nat) : List V :=
  (allMasks es.length).map (fun z => add (iv L v p.1 p.2) (zed L v es z))

theorem listT_eq : listT L v m es = fibS (m + 1) (fibT L v es) := rfl

theorem omega_iv_sh (h : TypeA L v m es) {a b c d : Nat} (hab : a < b) (hb : b ≤ m) (hcd : c < d) (hd : d ≤ m) :
    omega (iv L v a b) (iv L v c d) = sh (a, b) (c, d) := by
  rw [h.path.omega_iv (by omega) hb (by omega) hd]
  unfold sh
  bool_omega

theorem soFib (h : TypeA L v m es) : SoFib (m + 1) (2 ^ es.length) (fibT L v es) := by
  refine ⟨Nat.pow_pos (by omega), ?_, ?_⟩
  · intro p _
    rw [fibT, List.length_map, length_allMasks]
  · intro p hp q hq x hx y hy
    obtain ⟨h1, h2⟩ := mem_pairs.1 hp
    obtain ⟨h3, h4⟩ := mem_pairs.1 hq
    obtain ⟨z, hz, rfl⟩ := List.mem_map.1 hx
    obtain ⟨z', hz', rfl⟩ := List.mem_map.1 hy
    rw [h.omega_Iz (by omega) (by omega) (by omega) (by omega) (mem_allMasks.1 hz) (mem_allMasks.1 hz')]
    exact h.omega_iv_sh h1 (by omega) h3 (by omega)

theorem closedSet_listT {n : Nat} (h : TypeA (2 * n) v m es) : ClosedSet n (listT (2 * n) v m es) := by
  constructor
  · intro x hx
    obtain ⟨a, b, z, hab, hb, _, rfl⟩ := mem_listT.1 hx
    exact length_add_eq (h.path.length_iv (by omega) hb) (h.length_zed z)
  · intro x hx y hy ho
    exact mem_listT.2 (h.closed (mem_listT.1 hx) (mem_listT.1 hy) ho)

/-- **full invariant of the closed form** -/
theorem inv_listT {n : Nat} (h : TypeA (2 * n) v m es) (hm : m = 2 ∨ 4 ≤ m) :
    invOfClosure (listT (2 * n) v m es) = invOfName [⟨.SO, m + 1, 2 ^ es.length⟩] := by
  have := invOfClosure_soFib h.soFib (n := n) (by rw [← listT_eq]; exact h.closedSet_listT)
    (by rw [← listT_eq]; exact h.nodup_listT) (by omega)
  rwa [← listT_eq] at this

/-- **full invariant of the closure of a type-A star** -/
theorem inv_clo {n : Nat} (h : TypeA (2 * n) v m es) (hm : m = 2 ∨ 4 ≤ m) :
    invOfClosure (closureList (gensA v m es)).1 = invOfName [⟨.SO, m + 1, 2 ^ es.length⟩] := by
  rw [invOfClosure_perm_closed (closedSet_closureList h.uniformA) (closureList_nodup _)
    (S' := listT (2 * n) v m es)
    ((List.perm_ext_iff_of_nodup (closureList_nodup _) h.nodup_listT).2 (fun x => by
      rw [closureList_sound_complete h.uniformA, h.clo_typeA, mem_listT]))]
  exact h.inv_listT hm

end TypeA

/-- the closure of the vertices of a type-A canonical star, in the order of the legs: full invariant -/
theorem TypeAL.inv_clo {n : Nat} {c l1 : V} {ls' ps : List V} (h : TypeAL (2 * n) c l1 ls' ps)
    (hr : ps.length ≠ 1) :
    invOfClosure (closureList (c :: (l1 :: ls') ++ ps)).1 = invOfName [⟨.SO, ps.length + 3, 2 ^ ls'.length⟩] := by
  have hF := h.toF
  have h1 := hF.inv_clo (by omega)
  have hg : TypeA.gensA (nth (2 * n) (l1 :: c :: ps)) (ps.length + 2) ls' = (l1 :: c :: ps) ++ ls' := by
    have := gensF_nth (2 * n) (l1 :: c :: ps)
    simp only [List.length_cons] at this
    rw [TypeA.gensA, this]
  rw [hg] at h1
  have hU1 : Uniform n ((l1 :: c :: ps) ++ ls') := h.len
  have hmem : ∀ g, g ∈ c :: (l1 :: ls') ++ ps ↔ g ∈ (l1 :: c :: ps) ++ ls' := by
    intro g; simp only [List.cons_append, List.mem_cons, List.mem_append]
    constructor
    · rintro (h | h | h | h)
      · exact Or.inr (Or.inl h)
      · exact Or.inl h
      · exact Or.inr (Or.inr (Or.inr h))
      · exact Or.inr (Or.inr (Or.inl h))
    · rintro (h | h | h | h)
      · exact Or.inr (Or.inl h)
      · exact Or.inl h
      · exact Or.inr (Or.inr (Or.inr h))
      · exact Or.inr (Or.inr (Or.inl h))
  have hU2 : Uniform n (c :: (l1 :: ls') ++ ps) := fun g hg' => hU1 g ((hmem g).1 hg')
  have hclo : ∀ x, Clo (c :: (l1 :: ls') ++ ps) x ↔ Clo ((l1 :: c :: ps) ++ ls') x := fun x =>
    ⟨clo_mono (fun g hg' => (hmem g).1 hg'), clo_mono (fun g hg' => (hmem g).2 hg')⟩
  rw [invOfClosure_perm_closed (closedSet_closureList hU2) (closureList_nodup _)
    (closure_perm_of_clo_iff hU2 hU1 hclo), h1]

end C01Star
end PauLie
