/-
The second family of C06 failures for odd `k`, for every `N`: a target `V ⊗ X_j` or `V ⊗ Z_j` (right
block a single `X` or `Z`) whose left block `V ≠ I` has an even number of non-identity letters.
`subsystem_compiler` returns `[X_1 ⊗ W]`, its left factor is `X_1` (odd weight), and the left search
from `X_1` to `V` raises `RuntimeError("Left map BFS failed.")`, which `compile` does not catch in this
branch.
-/
import PauLieVerif.Proofs.CompilerValid

namespace PauLie
namespace CompilerSearch
open Compiler C07

theorem subsystemCompiler_one (c : Ctx) (m : Nat) (hm : c.nRight = (m : Int)) (w : PS) (hw : w.len = m)
    (b : List Letter) (hT : facT m 0 w.letters = [b]) :
    subsystemCompiler c w = .ok [PS.tensor c.uTag (PS.ofLetters b)] := by
  unfold subsystemCompiler
  have h1 : ¬ ((w.len : Int) ≠ c.nRight) := by rw [hm, hw]; simp
  rw [if_neg h1]
  obtain ⟨tl, htl⟩ := factorWOrders_head c m hm w hw
  simp only [htl, bind, Except.bind, hT]
  simp [subLoop, pure, Except.pure]

theorem single_not_identity (m j : Nat) (l : Letter) (hj : j < m) (hl : l = Letter.X ∨ l = Letter.Z) :
    (PS.ofLetters (single m j l)).isIdentity = false := by
  cases h : (PS.ofLetters (single m j l)).isIdentity with
  | false => rfl
  | true =>
    exfalso
    unfold PS.isIdentity at h
    have hb : (PS.ofLetters (single m j l)).bits = List.replicate (PS.ofLetters (single m j l)).bits.length false := by
      simpa using h
    have hz : ∀ p, (encode (single m j l)).getD p false = false := by
      intro p
      rw [← bits_ofLetters, hb, List.getD_eq_getElem?_getD, List.getElem?_replicate]
      split <;> rfl
    rcases hl with rfl | rfl
    · have := hz (2 * j)
      rw [(encode_getD _ j).1, single_getD] at this
      simp [hj, Letter.code] at this
    · have := hz (2 * j + 1)
      rw [(encode_getD _ j).2, single_getD] at this
      simp [hj, Letter.code] at this

theorem X0_mem_aset (k : Nat) (hk : 1 ≤ k) : PS.ofLetters (single k 0 .X) ∈ aset k := by
  refine List.mem_map.mpr ⟨single k 0 .X, ?_, rfl⟩
  exact mem_leftLetters.mpr (Or.inl ⟨0, by omega, Or.inl rfl⟩)

/-- **C06 fails for every odd `k`, every `N`, on `V ⊗ X_j` / `V ⊗ Z_j` with `V ≠ I` of even weight**: the model of
`compile_target` raises `RuntimeError` in `left_map_over_a` -/
theorem compileTarget_odd_single_raises (t : PS) (k n j : Nat) (l : Letter) (ht : t.WF) (hn : t.len = n)
    (hk : 2 ≤ k) (hkn : k < n) (hodd : k % 2 = 1) (hj : j < n - k) (hl : l = Letter.X ∨ l = Letter.Z)
    (hW : t.letters.drop k = single (n - k) j l)
    (hV : (t.getSubstring 0 (k : Int)).isIdentity = false)
    (hQ : QL k (t.letters.take k) = false) :
    compileTarget t (k : Int) = .error ⟨.runtimeError, .leftMapOverA⟩ := by
  rw [compileTarget_eq t k n hn hk hkn]
  obtain ⟨hve, hwe⟩ := target_split t k n ht hn hk hkn
  have hvQ : QL k (t.getSubstring 0 (k : Int)).letters = false := by
    rw [hve, C18.letters_ofLetters]; exact hQ
  rw [hW] at hwe
  rw [hwe]
  unfold compileWith
  have h1 : ((t.getSubstring 0 (k : Int)).len : Int) = (closedCtx k n).k := by
    rw [getSubstring_left_len t k n hn (by omega)]; rfl
  have h2 : ((PS.ofLetters (single (n - k) j l)).len : Int) = (closedCtx k n).nRight := by
    rw [C18.len_ofLetters, length_single, closedCtx_nRight k n hkn]
  rw [if_neg (by rw [h1, h2]; simp), if_neg (by rw [single_not_identity _ _ _ hj hl]; simp),
    if_pos (by rw [hV]; rfl)]
  unfold compileVNeI
  have hsub := subsystemCompiler_one (closedCtx k n) (n - k) (closedCtx_nRight k n hkn)
    (PS.ofLetters (single (n - k) j l)) (by rw [C18.len_ofLetters, length_single]) (single (n - k) j l)
    (by rw [C18.letters_ofLetters]; exact facT_single _ _ _ hl hj)
  have hg : PS.tensor (closedCtx k n).uTag (PS.ofLetters (single (n - k) j l))
      = PS.ofLetters (single k 0 .X ++ single (n - k) j l) := tensor_ofLetters _ _
  have hlf : leftFactor (closedCtx k n) [PS.ofLetters (single k 0 .X ++ single (n - k) j l)]
      = .ok (PS.ofLetters (single k 0 .X)) := by
    unfold leftFactor cNested
    simp only [nestedCommutatorResult, nestedLoop, liftAt, bind, Except.bind, pure, Except.pure]
    have hs := (target_split (PS.ofLetters (single k 0 .X ++ single (n - k) j l)) k n (C18.wf_ofLetters _)
      (by rw [C18.len_ofLetters, List.length_append, length_single, length_single]; omega) hk hkn).1
    rw [C18.letters_ofLetters, List.take_left' (length_single ..)] at hs
    show Except.ok (leftPart _ ((k : Nat) : Int)) = _
    unfold leftPart
    rw [hs]
  rw [hsub, hg]
  simp only [bind, Except.bind, hlf]
  rw [leftMapOverA_odd_raises k hodd _ _ (X0_mem_aset k (by omega)) hvQ]
  rfl

end CompilerSearch
end PauLie
