/-
Helper lemmas for property C04 (product / commutation / adjoint / conjugation of
Pauli strings at the level of `2^n × 2^n` matrices).
-/
import PauLieVerif.Spec.PauliMatrix
import Mathlib.Tactic.Linarith
import Mathlib.Algebra.Group.Int.Even

namespace PauLie
namespace C04

open Matrix Complex

/-! ## A. Per-site algebra -/

/-- `1` for `true`, `0` for `false` (one bit of a `count_and`). -/
def b2z (b : Bool) : ℤ := if b then 1 else 0

/-- x-part (`bits_even`) and z-part (`bits_odd`) of a letter. -/
abbrev cx (l : Letter) : Bool := l.code.1
abbrev cz (l : Letter) : Bool := l.code.2

/-- Product letter: xor of the code bits. -/
def lmul (a b : Letter) : Letter := Letter.ofCode (cx a != cx b) (cz a != cz b)

/-- One site's contribution to the exponent `f` in `sign`. -/
def fsite (a b : Letter) : ℤ :=
  2 * b2z (cx a && cz b) + b2z (cz a && cx a) + b2z (cz b && cx b)
    - b2z ((cx a != cx b) && (cz a != cz b))

/-- One site's phase, as an explicit table. -/
def ph : Letter → Letter → ℂ
  | .I, _ => 1
  | _, .I => 1
  | .X, .X => 1
  | .Y, .Y => 1
  | .Z, .Z => 1
  | .X, .Y => I
  | .Y, .Z => I
  | .Z, .X => I
  | .Y, .X => -I
  | .Z, .Y => -I
  | .X, .Z => -I

theorem lmul_comm (a b : Letter) : lmul a b = lmul b a := by
  cases a <;> cases b <;> rfl

theorem lmul_self (a : Letter) : lmul a a = .I := by cases a <;> rfl

theorem code_lmul (a b : Letter) :
    (lmul a b).code = ((cx a != cx b), (cz a != cz b)) := by
  cases a <;> cases b <;> rfl

theorem code_ofCode (a b : Bool) : (Letter.ofCode a b).code = (a, b) := by
  cases a <;> cases b <;> rfl

theorem ofCode_code (l : Letter) : Letter.ofCode l.code.1 l.code.2 = l := by
  cases l <;> rfl

theorem negI_sq : (-I : ℂ) ^ 2 = -1 := by
  have : (-I : ℂ) ^ 2 = I * I := by ring
  rw [this, Complex.I_mul_I]

theorem negI_pow_four : (-I : ℂ) ^ 4 = 1 := by
  have : (-I : ℂ) ^ 4 = ((-I) ^ 2) ^ 2 := by ring
  rw [this, negI_sq]; norm_num

theorem negI_ne_zero : (-I : ℂ) ≠ 0 := neg_ne_zero.mpr Complex.I_ne_zero

theorem ph_eq_zpow (a b : Letter) : ph a b = (-I : ℂ) ^ (fsite a b) := by
  have h3 : (-I : ℂ) ^ (3 : ℤ) = I := by
    have : (-I : ℂ) ^ (3 : ℕ) = -(I * I) * I := by ring
    rw [show ((3 : ℤ)) = ((3 : ℕ) : ℤ) by rfl, zpow_natCast, this, Complex.I_mul_I]; ring
  have hm1 : (-I : ℂ) ^ (-1 : ℤ) = I := by
    rw [zpow_neg_one, inv_neg, Complex.inv_I, neg_neg]
  have h1 : (-I : ℂ) ^ (1 : ℤ) = -I := zpow_one _
  have h4 : (-I : ℂ) ^ (4 : ℤ) = 1 := by
    rw [show ((4 : ℤ)) = ((4 : ℕ) : ℤ) by rfl, zpow_natCast, negI_pow_four]
  cases a <;> cases b <;> simp [ph, fsite, b2z, cx, cz, Letter.code, h3, hm1, h1, h4]

theorem ph_ne_zero (a b : Letter) : ph a b ≠ 0 := by
  rw [ph_eq_zpow]; exact zpow_ne_zero _ negI_ne_zero

theorem ph_self (a : Letter) : ph a a = 1 := by cases a <;> rfl

/-- Per-site product of Pauli matrices. -/
theorem σ_mul (a b : Letter) : σ a * σ b = ph a b • σ (lmul a b) := by
  cases a <;> cases b <;>
    (ext i j; fin_cases i <;> fin_cases j <;>
      simp [σ, ph, lmul, cx, cz, Letter.code, Letter.ofCode, Matrix.mul_apply, Fin.sum_univ_two])

theorem σ_I : σ .I = 1 := by
  ext i j; fin_cases i <;> fin_cases j <;> simp [σ]

/-- Per-site complex conjugation: only `Y` changes sign. -/
theorem σ_conj (a : Letter) (i j : Fin 2) :
    (starRingEnd ℂ) (σ a i j) = (-1 : ℂ) ^ (if cz a && cx a then 1 else 0 : ℕ) * σ a i j := by
  cases a <;> fin_cases i <;> fin_cases j <;> simp [σ, cx, cz, Letter.code]

/-! ## B. Matrix-level product -/

theorem M_mul {n : ℕ} (P Q : Fin n → Letter) :
    M P * M Q = (∏ i, ph (P i) (Q i)) • M (fun i => lmul (P i) (Q i)) := by
  ext r c
  simp only [Matrix.mul_apply, M_apply, Matrix.smul_apply, smul_eq_mul]
  calc ∑ k : Fin n → Fin 2, (∏ i, σ (P i) (r i) (k i)) * ∏ i, σ (Q i) (k i) (c i)
      = ∑ k : Fin n → Fin 2, ∏ i, (σ (P i) (r i) (k i) * σ (Q i) (k i) (c i)) := by
        simp only [Finset.prod_mul_distrib]
    _ = ∏ i, ∑ j : Fin 2, σ (P i) (r i) j * σ (Q i) j (c i) := by
        rw [Finset.prod_univ_sum, Fintype.piFinset_univ]
    _ = ∏ i, (σ (P i) * σ (Q i)) (r i) (c i) := by
        simp only [Matrix.mul_apply]
    _ = ∏ i, (ph (P i) (Q i) * σ (lmul (P i) (Q i)) (r i) (c i)) := by
        simp only [σ_mul, Matrix.smul_apply, smul_eq_mul]
    _ = _ := by rw [Finset.prod_mul_distrib]

theorem M_one {n : ℕ} : M (fun _ : Fin n => Letter.I) = 1 := by
  ext r c
  rw [M_apply, Matrix.one_apply]
  by_cases h : r = c
  · subst h; simp [σ_I]
  · rw [if_neg h]
    obtain ⟨i, hi⟩ := Function.ne_iff.mp h
    exact Finset.prod_eq_zero (Finset.mem_univ i) (by simp [σ_I, hi])

/-- Every Pauli-string matrix is an involution (hence invertible). -/
theorem M_mul_self {n : ℕ} (P : Fin n → Letter) : M P * M P = 1 := by
  rw [M_mul]
  simp [ph_self, lmul_self, M_one]

theorem M_ne_zero {n : ℕ} (P : Fin n → Letter) : M P ≠ 0 := by
  intro h
  have := M_mul_self P
  rw [h, zero_mul] at this
  exact zero_ne_one this

/-- Entry-wise complex conjugate. -/
theorem M_conj {n : ℕ} (P : Fin n → Letter) :
    (M P).map (starRingEnd ℂ)
      = (∏ i, (-1 : ℂ) ^ (if cz (P i) && cx (P i) then 1 else 0 : ℕ)) • M P := by
  ext r c
  simp only [Matrix.map_apply, M_apply, map_prod, σ_conj, Finset.prod_mul_distrib,
    Matrix.smul_apply, smul_eq_mul]

/-! ## C. Encoding lemmas -/

theorem evens_encode (w : List Letter) : evens (encode w) = w.map cx := by
  induction w with
  | nil => rfl
  | cons a w ih => simp [encode, evens, ih]

theorem odds_encode (w : List Letter) : odds (encode w) = w.map cz := by
  induction w with
  | nil => rfl
  | cons a w ih => simp [encode, odds, ih]

theorem length_encode (w : List Letter) : (encode w).length = 2 * w.length := by
  induction w with
  | nil => rfl
  | cons a w ih => simp [encode, ih]; omega

theorem decode_encode (w : List Letter) : decode (encode w) = w := by
  induction w with
  | nil => rfl
  | cons a w ih => simp [encode, decode, ih, ofCode_code]

theorem encode_decode : ∀ b : List Bool, b.length % 2 = 0 → encode (decode b) = b
  | [], _ => rfl
  | [a], h => by simp at h
  | a :: b :: t, h => by
    have ht : t.length % 2 = 0 := by simp at h; omega
    simp [decode, encode, code_ofCode, encode_decode t ht]

theorem length_decode : ∀ b : List Bool, (decode b).length = b.length / 2
  | [] => rfl
  | [a] => by simp [decode]
  | a :: b :: t => by simp [decode, length_decode t]; omega

/-- xor of encodings is the encoding of the letter-wise product. -/
theorem xor_encode (w v : List Letter) :
    List.zipWith (fun x y => x != y) (encode w) (encode v) = encode (List.zipWith lmul w v) := by
  induction w generalizing v with
  | nil => simp [encode]
  | cons a w ih =>
    cases v with
    | nil => simp [encode]
    | cons b v => simp [encode, ih, code_lmul]

/-- A well-formed Pauli string is determined by its letters. -/
theorem WF_eq_ofLetters {p : PS} (h : p.WF) : p = PS.ofLetters p.letters := by
  obtain ⟨bits, even, odd⟩ := p
  obtain ⟨h1, h2, h3⟩ := h
  simp only at h1 h2 h3
  subst h1 h2
  simp [PS.ofLetters, PS.letters, PS.ofBits, encode_decode bits h3]

theorem WF_ofLetters (w : List Letter) : (PS.ofLetters w).WF := by
  simp [PS.WF, PS.ofLetters, PS.ofBits, length_encode]

theorem len_ofLetters (w : List Letter) : (PS.ofLetters w).len = w.length := by
  simp [PS.len, PS.ofLetters, PS.ofBits, length_encode]

theorem letters_ofLetters (w : List Letter) : (PS.ofLetters w).letters = w := by
  simp [PS.letters, PS.ofLetters, PS.ofBits, decode_encode]

theorem length_letters (p : PS) : p.letters.length = p.len := by
  simp [PS.letters, PS.len, length_decode]

theorem WF_bits_length {p : PS} (h : p.WF) : p.bits.length = 2 * p.len := by
  have := h.2.2
  unfold PS.len
  omega

/-! ## D. The model on `ofLetters` operands -/

/-- `count_and(P.bits_even, Q.bits_odd)` -/
def cntA (w v : List Letter) : ℕ :=
  List.count true (List.zipWith (fun a b => cx a && cz b) w v)

/-- `count_and(P.bits_odd, P.bits_even)`: the number of `Y`s. -/
def cntY (w : List Letter) : ℕ := List.count true (List.map (fun a => cz a && cx a) w)

/-- `count_and(P.bits_even ^ Q.bits_even, P.bits_odd ^ Q.bits_odd)` -/
def cntD (w v : List Letter) : ℕ :=
  List.count true
    (List.zipWith (fun x1 x2 => x1 && x2) (List.zipWith (fun a b => cx a != cx b) w v)
      (List.zipWith (fun a b => cz a != cz b) w v))

/-- The integer `f` computed by `sign`. -/
def modelF (w v : List Letter) : ℤ := 2 * (cntA w v : ℤ) + cntY w + cntY v - cntD w v

theorem sign_ofLetters {w v : List Letter} (h : w.length = v.length) :
    PS.sign (PS.ofLetters w) (PS.ofLetters v) = .ok (modelF w v % 4).toNat := by
  simp [PS.sign, PS.ofLetters, PS.ofBits, PS.len, PS.countAnd, PS.xorBits, evens_encode,
    odds_encode, length_encode, h, bind, Except.bind]
  rfl

theorem commutes_ofLetters {w v : List Letter} (h : w.length = v.length) :
    PS.commutesWith (PS.ofLetters w) (PS.ofLetters v)
      = .ok (cntA w v % 2 == cntA v w % 2) := by
  simp [PS.commutesWith, PS.ofLetters, PS.ofBits, PS.len, PS.countAnd, evens_encode,
    odds_encode, length_encode, h, bind, Except.bind]
  rfl

theorem multiply_ofLetters {w v : List Letter} (h : w.length = v.length) :
    PS.multiply (PS.ofLetters w) (PS.ofLetters v) = .ok (PS.ofLetters (List.zipWith lmul w v)) := by
  simp [PS.multiply, PS.ofLetters, PS.ofBits, PS.xorBits, length_encode, h, bind, Except.bind,
    xor_encode]
  rfl

theorem adjoint_ofLetters {w v : List Letter} (h : w.length = v.length) :
    PS.adjointMap (PS.ofLetters w) (PS.ofLetters v)
      = .ok (if (cntA w v % 2 == cntA v w % 2) = true then none
             else some (PS.ofLetters (List.zipWith lmul w v))) := by
  unfold PS.adjointMap
  rw [commutes_ofLetters h]
  by_cases hc : (cntA w v % 2 == cntA v w % 2) = true
  · simp [hc, bind, Except.bind]; rfl
  · simp [hc, bind, Except.bind, PS.ofLetters, PS.ofBits, PS.xorBits, length_encode, h, xor_encode]
    rfl

theorem conj_ofLetters (w : List Letter) :
    PS.complexConj (PS.ofLetters w) = .ok (cntY w % 2) := by
  simp [PS.complexConj, PS.ofLetters, PS.ofBits, PS.countAnd, evens_encode, odds_encode,
    bind, Except.bind]
  rfl


/-! ## E. Lists versus `Fin n`-indexed products -/

theorem prod_vecOf₂ (g : Letter → Letter → ℂ) (n : ℕ) (w v : List Letter)
    (hw : w.length = n) (hv : v.length = n) :
    ∏ i : Fin n, g (vecOf n w i) (vecOf n v i) = (List.zipWith g w v).prod := by
  induction n generalizing w v with
  | zero =>
    obtain rfl := List.length_eq_zero_iff.mp hw
    simp
  | succ n ih =>
    match w, v, hw, hv with
    | a :: w, b :: v, hw, hv =>
      rw [Fin.prod_univ_succ]
      simp only [vecOf_cons_zero, vecOf_cons_succ, List.zipWith_cons_cons, List.prod_cons]
      rw [ih w v (by simpa using hw) (by simpa using hv)]

theorem prod_vecOf (g : Letter → ℂ) (n : ℕ) (w : List Letter) (hw : w.length = n) :
    ∏ i : Fin n, g (vecOf n w i) = (w.map g).prod := by
  have := prod_vecOf₂ (fun a _ => g a) n w w hw hw
  simpa using this

theorem vecOf_zipWith_lmul (n : ℕ) (w v : List Letter)
    (hw : w.length = n) (hv : v.length = n) :
    vecOf n (List.zipWith lmul w v) = fun i => lmul (vecOf n w i) (vecOf n v i) := by
  induction n generalizing w v with
  | zero => funext i; exact i.elim0
  | succ n ih =>
    match w, v, hw, hv with
    | a :: w, b :: v, hw, hv =>
      funext i
      refine Fin.cases ?_ (fun j => ?_) i
      · simp
      · simp only [List.zipWith_cons_cons, vecOf_cons_succ]
        rw [ih w v (by simpa using hw) (by simpa using hv)]

theorem zipWith_lmul_comm (w v : List Letter) :
    List.zipWith lmul w v = List.zipWith lmul v w :=
  List.zipWith_comm_of_comm lmul_comm

/-! ## F. The exponent formula is additive over sites -/

theorem cntD_comm (w v : List Letter) : cntD w v = cntD v w := by
  unfold cntD
  rw [List.zipWith_comm_of_comm (f := fun a b => cx a != cx b) (fun a b => by
        cases a <;> cases b <;> rfl) (l := w) (l' := v),
      List.zipWith_comm_of_comm (f := fun a b => cz a != cz b) (fun a b => by
        cases a <;> cases b <;> rfl) (l := w) (l' := v)]

theorem modelF_swap (w v : List Letter) :
    modelF w v = modelF v w + 2 * ((cntA w v : ℤ) - cntA v w) := by
  unfold modelF
  rw [cntD_comm w v]
  ring

theorem modelF_eq_sum (w v : List Letter) (h : w.length = v.length) :
    modelF w v = (List.zipWith fsite w v).sum := by
  induction w generalizing v with
  | nil =>
    obtain rfl : v = [] := List.length_eq_zero_iff.mp h.symm
    simp [modelF, cntA, cntY, cntD]
  | cons a w ih =>
    cases v with
    | nil => simp at h
    | cons b v =>
      have ih' := ih v (by simpa using h)
      simp only [List.zipWith_cons_cons, List.sum_cons, ← ih']
      simp only [modelF, cntA, cntY, cntD, List.zipWith_cons_cons, List.map_cons,
        List.count_cons, fsite, b2z]
      cases a <;> cases b <;> simp [cx, cz, Letter.code] <;> ring

/-- The product of per-site phases. -/
def phase (w v : List Letter) : ℂ := (List.zipWith ph w v).prod

theorem zpow_sum_eq_prod (l : List ℤ) :
    (-I : ℂ) ^ l.sum = (l.map (fun k => (-I : ℂ) ^ k)).prod := by
  induction l with
  | nil => simp
  | cons a l ih => simp [zpow_add₀ negI_ne_zero, ih]

theorem phase_eq_zpow (w v : List Letter) (h : w.length = v.length) :
    phase w v = (-I : ℂ) ^ (modelF w v) := by
  rw [modelF_eq_sum w v h, zpow_sum_eq_prod, phase]
  congr 1
  rw [List.map_zipWith]
  congr 1
  funext a b
  exact ph_eq_zpow a b

/-- Reducing the exponent mod 4 (as `sign` does) does not change `(-i)^f`. -/
theorem negI_pow_mod (f : ℤ) : (-I : ℂ) ^ (f % 4).toNat = (-I : ℂ) ^ f := by
  have h0 : 0 ≤ f % 4 := Int.emod_nonneg _ (by norm_num)
  have h4 : (-I : ℂ) ^ (4 : ℤ) = 1 := by
    rw [show ((4 : ℤ)) = ((4 : ℕ) : ℤ) by rfl, zpow_natCast, negI_pow_four]
  conv_rhs => rw [← Int.mul_ediv_add_emod f 4, zpow_add₀ negI_ne_zero, zpow_mul, h4, one_zpow, one_mul]
  rw [← zpow_natCast, Int.toNat_of_nonneg h0]

theorem phase_ne_zero (w v : List Letter) (h : w.length = v.length) : phase w v ≠ 0 := by
  rw [phase_eq_zpow w v h]; exact zpow_ne_zero _ negI_ne_zero

/-- Swapping the operands changes the phase by the sign `(-1)^(a - a')`. -/
theorem phase_swap (w v : List Letter) (h : w.length = v.length) :
    phase w v = phase v w * (-1 : ℂ) ^ ((cntA w v : ℤ) - cntA v w) := by
  rw [phase_eq_zpow w v h, phase_eq_zpow v w h.symm, modelF_swap w v,
    zpow_add₀ negI_ne_zero, zpow_mul]
  congr 2
  rw [show ((2 : ℤ)) = ((2 : ℕ) : ℤ) by rfl, zpow_natCast, negI_sq]

theorem even_sub_iff (a b : ℕ) : Even ((a : ℤ) - b) ↔ (a % 2 == b % 2) = true := by
  rw [Int.even_iff, beq_iff_eq]
  omega

theorem prod_conj_sign (w : List Letter) :
    (w.map (fun a => (-1 : ℂ) ^ (if cz a && cx a then 1 else 0 : ℕ))).prod
      = (-1 : ℂ) ^ (cntY w % 2) := by
  have hmod : ∀ k : ℕ, (-1 : ℂ) ^ (k % 2) = (-1 : ℂ) ^ k := by
    intro k
    conv_rhs => rw [← Nat.div_add_mod k 2, pow_add, pow_mul]
    simp
  rw [hmod]
  induction w with
  | nil => simp [cntY]
  | cons a w ih =>
    simp only [List.map_cons, List.prod_cons, ih]
    cases a <;> simp [cntY, cx, cz, Letter.code, pow_succ]


/-! ## G. Matrix statements for letter lists -/

theorem neg_one_zpow_eq_one_iff (m : ℤ) : (-1 : ℂ) ^ m = 1 ↔ Even m := by
  constructor
  · intro h
    by_contra hne
    rw [Int.not_even_iff_odd] at hne
    rw [hne.neg_one_zpow] at h
    norm_num at h
  · exact fun h => h.neg_one_zpow

/-- The exponent returned by `sign` on letter lists. -/
def signExp (w v : List Letter) : ℕ := (modelF w v % 4).toNat

theorem signExp_lt (w v : List Letter) : signExp w v < 4 := by
  unfold signExp
  have h0 : 0 ≤ modelF w v % 4 := Int.emod_nonneg _ (by norm_num)
  have h1 : modelF w v % 4 < 4 := Int.emod_lt_of_pos _ (by norm_num)
  omega

theorem phase_eq_pow (w v : List Letter) (h : w.length = v.length) :
    phase w v = (-I : ℂ) ^ signExp w v := by
  rw [signExp, negI_pow_mod, phase_eq_zpow w v h]

theorem M_mul_list (n : ℕ) (w v : List Letter) (hw : w.length = n) (hv : v.length = n) :
    M (vecOf n w) * M (vecOf n v)
      = ((-I : ℂ) ^ signExp w v) • M (vecOf n (List.zipWith lmul w v)) := by
  rw [M_mul, prod_vecOf₂ ph n w v hw hv, ← vecOf_zipWith_lmul n w v hw hv,
    ← phase_eq_pow w v (hw.trans hv.symm), phase]

theorem commute_list (n : ℕ) (w v : List Letter) (hw : w.length = n) (hv : v.length = n) :
    (cntA w v % 2 == cntA v w % 2) = true ↔ Commute (M (vecOf n w)) (M (vecOf n v)) := by
  have hlen : w.length = v.length := hw.trans hv.symm
  rw [commute_iff_eq, M_mul_list n w v hw hv, M_mul_list n v w hv hw, zipWith_lmul_comm v w,
    ← phase_eq_pow w v hlen, ← phase_eq_pow v w hlen.symm, ← even_sub_iff,
    ← neg_one_zpow_eq_one_iff]
  have hsw := phase_swap w v hlen
  have hne := phase_ne_zero v w hlen.symm
  have hR := M_ne_zero (vecOf n (List.zipWith lmul w v))
  constructor
  · intro h1
    rw [hsw, h1, mul_one]
  · intro h
    have h2 : (phase w v - phase v w) • M (vecOf n (List.zipWith lmul w v)) = 0 := by
      rw [sub_smul, h, sub_self]
    rcases smul_eq_zero.mp h2 with h3 | h3
    · have h4 : phase v w * (-1 : ℂ) ^ ((cntA w v : ℤ) - cntA v w) = phase v w * 1 := by
        rw [← hsw, mul_one]; exact sub_eq_zero.mp h3
      exact mul_left_cancel₀ hne h4
    · exact absurd h3 hR

theorem commutator_list (n : ℕ) (w v : List Letter) (hw : w.length = n) (hv : v.length = n)
    (hnc : ¬ (cntA w v % 2 == cntA v w % 2) = true) :
    M (vecOf n w) * M (vecOf n v) - M (vecOf n v) * M (vecOf n w)
      = (2 * (-I : ℂ) ^ signExp w v) • M (vecOf n (List.zipWith lmul w v)) := by
  have hlen : w.length = v.length := hw.trans hv.symm
  rw [← even_sub_iff, Int.not_even_iff_odd] at hnc
  have hsw := phase_swap v w hlen.symm
  have hodd : Odd ((cntA v w : ℤ) - cntA w v) := by
    have : (cntA v w : ℤ) - cntA w v = -((cntA w v : ℤ) - cntA v w) := by ring
    rw [this]; exact hnc.neg
  rw [hodd.neg_one_zpow] at hsw
  rw [M_mul_list n w v hw hv, M_mul_list n v w hv hw, zipWith_lmul_comm v w,
    ← phase_eq_pow w v hlen, ← phase_eq_pow v w hlen.symm, hsw, ← sub_smul]
  congr 1
  ring

theorem commutator_ne_zero_list (n : ℕ) (w v : List Letter) :
    (2 * (-I : ℂ) ^ signExp w v) • M (vecOf n (List.zipWith lmul w v)) ≠ 0 :=
  smul_ne_zero (mul_ne_zero two_ne_zero (pow_ne_zero _ negI_ne_zero)) (M_ne_zero _)

theorem M_conj_list (n : ℕ) (w : List Letter) (hw : w.length = n) :
    (M (vecOf n w)).map (starRingEnd ℂ) = ((-1 : ℂ) ^ (cntY w % 2)) • M (vecOf n w) := by
  rw [M_conj, prod_vecOf (fun a => (-1 : ℂ) ^ (if cz a && cx a then 1 else 0 : ℕ)) n w hw,
    prod_conj_sign]

end C04
end PauLie
