/-
Property C02: the read-only actions of the plain factory (`Model/Morph.lean`) that the guarded
steps lift keep legs and delayed list (`Keeps`, found by instance resolution in the step proofs).
-/
import PauLieVerif.Proofs.C02Logic

namespace PauLie
namespace C02
open Morph MorphG C11L

theorem pure_filterAuxM {α} (f : α → MFM Bool) (hf : ∀ a, C11L.Pure (f a)) :
    ∀ (l acc : List α), C11L.Pure (List.filterAuxM f l acc)
  | [], acc => C11L.pure_pure _
  | h :: t, acc => by
    rw [List.filterAuxM]
    exact C11L.pure_bind (hf h) (fun b => pure_filterAuxM f hf t _)

theorem pure_filterM {α} (f : α → MFM Bool) (hf : ∀ a, C11L.Pure (f a)) (l : List α) :
    C11L.Pure (l.filterM f) := by
  unfold List.filterM
  exact C11L.pure_bind (pure_filterAuxM f hf l []) (fun _ => C11L.pure_pure _)

macro "pure1" : tactic => `(tactic| first
  | with_reducible exact pure_getLegs
  | with_reducible exact pure_get
  | with_reducible exact C11L.pure_pure _
  | with_reducible exact pure_throw _
  | with_reducible exact pure_liftErr _
  | with_reducible apply pure_filterM
  | with_reducible apply pure_forIn
  | with_reducible apply pure_ite
  | with_reducible apply C11L.pure_bind
  | split
  | with_reducible intro _
  | dsimp only)

theorem pure_idx {α} (l : List α) (i : Int) : C11L.Pure (idx l i) := by
  unfold idx; repeat' pure1
theorem pure_getLighting : C11L.Pure getLighting := by unfold getLighting; repeat' pure1
theorem pure_getLitsOf (l : PS) (vs : List PS) : C11L.Pure (getLitsOf l vs) := by
  unfold getLitsOf; repeat' pure1
theorem pure_getVertices : C11L.Pure getVertices := by unfold getVertices; repeat' pure1
theorem pure_getLits (l : PS) : C11L.Pure (getLits l) := by
  unfold getLits
  exact C11L.pure_bind pure_getVertices (fun _ => pure_getLitsOf _ _)
theorem pure_isEmpty : C11L.Pure isEmpty := by unfold isEmpty; repeat' pure1
theorem pure_isEmptyLegs : C11L.Pure isEmptyLegs := by unfold isEmptyLegs; repeat' pure1
theorem pure_find (v : PS) : C11L.Pure (find v) := by unfold find; repeat' pure1
theorem pure_isIncluded (v : PS) : C11L.Pure (isIncluded v) := by
  unfold isIncluded; exact C11L.pure_bind (pure_find v) (fun _ => C11L.pure_pure _)
theorem pure_getCenter : C11L.Pure getCenter := by unfold getCenter; repeat' pure1
theorem pure_getLongLeg : C11L.Pure getLongLeg := by
  unfold getLongLeg
  repeat' (first | with_reducible exact pure_isEmptyLegs | with_reducible exact pure_idx _ _ | pure1)
theorem pure_getOneVertex : C11L.Pure getOneVertex := by
  unfold getOneVertex
  repeat' (first | with_reducible exact pure_isEmptyLegs | with_reducible exact pure_idx _ _ | pure1)
theorem pure_getOneVertices : C11L.Pure getOneVertices := by
  unfold getOneVertices
  repeat' (first | with_reducible exact pure_isEmptyLegs | pure1)
theorem pure_getPQ (l : PS) : C11L.Pure (getPQ l) := by
  unfold getPQ
  repeat' (first | with_reducible exact pure_getOneVertices | with_reducible exact pure_getLitsOf _ _ | pure1)
theorem pure_getTwoLegs : C11L.Pure getTwoLegs := by
  unfold getTwoLegs
  repeat' (first | with_reducible exact pure_isEmptyLegs | pure1)
theorem pure_isTwoLeg : C11L.Pure isTwoLeg := by
  unfold isTwoLeg
  repeat' (first | with_reducible exact pure_getTwoLegs | with_reducible exact pure_getLongLeg | pure1)
theorem pure_dropLastPy {α} (l : List α) : C11L.Pure (dropLastPy l) := by
  unfold dropLastPy; repeat' pure1
theorem pure_lit (l v : PS) : C11L.Pure (lit l v) := by
  unfold lit
  repeat' (first | with_reducible exact pure_isIncluded _ | pure1)

instance {α} (l : List α) (i : Int) : Keeps (idx l i) := keeps_of_pure (pure_idx l i)
instance : Keeps getLighting := keeps_of_pure pure_getLighting
instance : Keeps getLegs := keeps_of_pure pure_getLegs
instance (l : PS) (vs : List PS) : Keeps (getLitsOf l vs) := keeps_of_pure (pure_getLitsOf l vs)
instance : Keeps getVertices := keeps_of_pure pure_getVertices
instance (l : PS) : Keeps (getLits l) := keeps_of_pure (pure_getLits l)
instance : Keeps isEmpty := keeps_of_pure pure_isEmpty
instance : Keeps isEmptyLegs := keeps_of_pure pure_isEmptyLegs
instance (v : PS) : Keeps (isIncluded v) := keeps_of_pure (pure_isIncluded v)
instance : Keeps getCenter := keeps_of_pure pure_getCenter
instance : Keeps getLongLeg := keeps_of_pure pure_getLongLeg
instance : Keeps getOneVertex := keeps_of_pure pure_getOneVertex
instance : Keeps getOneVertices := keeps_of_pure pure_getOneVertices
instance (l : PS) : Keeps (getPQ l) := keeps_of_pure (pure_getPQ l)
instance : Keeps getTwoLegs := keeps_of_pure pure_getTwoLegs
instance : Keeps isTwoLeg := keeps_of_pure pure_isTwoLeg
instance {α} (l : List α) : Keeps (dropLastPy l) := keeps_of_pure (pure_dropLastPy l)
instance {α} (x : Except Err α) : Keeps (liftErr x) := keeps_of_pure (pure_liftErr x)
instance (l : PS) : Keeps (setLighting l) := ⟨fun _ => ⟨rfl, rfl, rfl⟩⟩

/-! the writing primitives do not touch the list of dependents -/

theorem kd_setLegs (l : List (List PS)) : KD (setLegs l) := fun _ => rfl
theorem kd_appendDelayed (v : PS) : KD (appendDelayed v) := fun _ => rfl

macro "kd1" : tactic => `(tactic| first
  | with_reducible exact kd_of_pure pure_getLegs
  | with_reducible exact kd_of_pure pure_get
  | with_reducible exact kd_of_pure (pure_find _)
  | with_reducible exact kd_of_pure (pure_idx _ _)
  | with_reducible exact kd_setLegs _
  | with_reducible exact kd_pure _
  | with_reducible exact kd_throw _
  | with_reducible apply kd_ite
  | with_reducible apply kd_bind
  | split
  | with_reducible intro _
  | dsimp only)

theorem kd_append (v lt : PS) : KD (append v lt) := by unfold append; repeat' kd1
theorem kd_remove (v : PS) : KD (remove v) := by unfold remove; repeat' kd1
theorem kd_replace (v w : PS) : KD (replace v w) := by unfold replace; repeat' kd1

end C02
end PauLie
