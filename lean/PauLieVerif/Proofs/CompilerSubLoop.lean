/-
The elements of `subsystem_compiler(W)` (model: `Compiler.subsystemCompiler`), for every `W`:
each is `U_i ⊗ B_i` for a pair of the first ordering with index `i ≥ 1`, or a helper `A ⊗ I…I` with `A`
in the pool of left strings (`subsystemCompiler_elems`); the first pair is used only when it is the
only one (`r = 1`), where the result is `[U_0 ⊗ B_0]`.
`Post P x`: if `x` returns `a` then `P a`.
-/
import PauLieVerif.Proofs.CompilerSub

namespace PauLie
namespace CompilerSearch
open Compiler C07

/-- partial-correctness assertion on a model computation -/
structure Post {α} (P : α → Prop) (x : Except Fail α) : Prop where
  out : ∀ a, x = .ok a → P a

theorem Post.of_pure {α} {P : α → Prop} {a : α} (h : P a) : Post P (pure a : Except Fail α) :=
  ⟨by intro b hb; cases hb; exact h⟩
theorem Post.of_throw {α} {P : α → Prop} (e : Fail) : Post P (throw e : Except Fail α) :=
  ⟨by intro b hb; cases hb⟩
theorem Post.of_error {α} {P : α → Prop} (e : Fail) : Post P (Except.error e : Except Fail α) :=
  ⟨by intro b hb; cases hb⟩
theorem Post.of_bind {α β} {Q : α → Prop} {P : β → Prop} {x : Except Fail α} {f : α → Except Fail β}
    (hx : Post Q x) (hf : ∀ a, Q a → Post P (f a)) : Post P (x >>= f) := ⟨by
  intro b hb
  cases x with
  | error e => cases hb
  | ok a => exact (hf a (hx.out a rfl)).out b hb⟩
theorem Post.of_bind_any {α β} {P : β → Prop} {x : Except Fail α} {f : α → Except Fail β}
    (hf : ∀ a, Post P (f a)) : Post P (x >>= f) :=
  Post.of_bind (Q := fun _ => True) ⟨fun _ _ => trivial⟩ (fun a _ => hf a)
theorem Post.self {α} (x : Except Fail α) : Post (fun a => x = .ok a) x := ⟨fun _ h => h⟩
theorem Post.mono {α} {P Q : α → Prop} {x : Except Fail α} (h : Post P x) (hpq : ∀ a, P a → Q a) : Post Q x :=
  ⟨fun a ha => hpq a (h.out a ha)⟩

/-! ### the helper choices return pool elements -/

theorem findA2_post (u a1 : PS) (i1 : Nat) : ∀ (l : List PS) (j : Nat),
    Post (fun o => ∀ a2, o = some a2 → a2 ∈ l) (findA2 u a1 i1 l j) := by
  intro l
  induction l with
  | nil => intro j; unfold findA2; exact Post.of_pure (by intro a2 h; cases h)
  | cons a rest ih =>
    intro j
    have ih' : ∀ j, Post (fun o => ∀ a2, o = some a2 → a2 ∈ a :: rest) (findA2 u a1 i1 rest j) :=
      fun j => (ih j).mono (fun o h a2 ha => List.mem_cons_of_mem _ (h a2 ha))
    unfold findA2
    split
    · exact ih' _
    · apply Post.of_bind_any; intro b
      split
      · exact ih' _
      · apply Post.of_bind_any; intro b2
        split
        · exact Post.of_pure (by intro a2 h; cases h; exact List.mem_cons_self ..)
        · exact ih' _

theorem findA1_post (pool : List PS) (u : PS) : ∀ (l : List PS) (i : Nat),
    Post (fun p => p.1 ∈ l ∧ p.2 ∈ pool) (findA1 pool u l i) := by
  intro l
  induction l with
  | nil => intro i; unfold findA1; exact Post.of_throw _
  | cons a rest ih =>
    intro i
    have ih' : ∀ i, Post (fun p => p.1 ∈ a :: rest ∧ p.2 ∈ pool) (findA1 pool u rest i) :=
      fun i => (ih i).mono (fun p h => ⟨List.mem_cons_of_mem _ h.1, h.2⟩)
    unfold findA1
    apply Post.of_bind_any; intro b
    split
    · exact ih' _
    · apply Post.of_bind (findA2_post u a i pool 0)
      intro o ho
      split
      · rename_i a2
        exact Post.of_pure ⟨List.mem_cons_self .., ho a2 rfl⟩
      · exact ih' _

theorem chooseA1A2_post (c : Ctx) (u : PS) : Post (fun p => p.1 ∈ c.pool ∧ p.2 ∈ c.pool) (chooseA1A2 c u) :=
  findA1_post _ _ _ _

theorem chooseAprime_post (u pLeft : PS) : ∀ (l : List PS), Post (fun a => a ∈ l) (chooseAprime u pLeft l) := by
  intro l
  induction l with
  | nil => unfold chooseAprime; exact Post.of_throw _
  | cons a rest ih =>
    have ih' : Post (fun x => x ∈ a :: rest) (chooseAprime u pLeft rest) :=
      ih.mono (fun x h => List.mem_cons_of_mem _ h)
    unfold chooseAprime
    apply Post.of_bind_any; intro b
    split
    · exact ih'
    · apply Post.of_bind_any; intro b2
      split
      · exact Post.of_pure (List.mem_cons_self ..)
      · exact ih'

/-! ### the loop of `subsystem_compiler` -/

/-- what an element of the result of `subsystem_compiler` can be -/
def SubElem (c : Ctx) (uiBi : List (PS × PS)) (g : PS) : Prop :=
  (∃ i ui bi, 1 ≤ i ∧ uiBi[i]? = some (ui, bi) ∧ g = PS.tensor ui bi) ∨ (∃ a ∈ c.pool, extendLeft c a = .ok g)

theorem subLoop_post (c : Ctx) (uiBi : List (PS × PS)) :
    ∀ (fuel i : Nat) (gRev H : List PS) (used : List (Nat × Nat)), (∀ g ∈ gRev, SubElem c uiBi g) →
      Post (fun out => ∀ g ∈ out, SubElem c uiBi g) (subLoop c uiBi fuel i gRev H used) := by
  intro fuel
  induction fuel with
  | zero => intro i gRev H used _; unfold subLoop; exact Post.of_throw _
  | succ fuel ih =>
    intro i gRev H used hg
    unfold subLoop
    split
    · exact Post.of_pure (fun g hx => hg g (List.mem_reverse.mp hx))
    · rename_i hi
      have hi' : 1 ≤ i := by omega
      apply Post.of_bind (Q := fun x => uiBi[i]? = some x)
      · split
        · rename_i x hx; exact Post.of_pure hx
        · exact Post.of_throw _
      · rintro ⟨ui, bi⟩ hx
        have hcur : ∀ g ∈ PS.tensor ui bi :: gRev, SubElem c uiBi g := by
          intro g hgm
          rcases List.mem_cons.mp hgm with rfl | hgm
          · exact Or.inl ⟨i, ui, bi, hi', hx, rfl⟩
          · exact hg g hgm
        dsimp only
        apply Post.of_bind_any; rintro ⟨pL, pR⟩
        dsimp only
        apply Post.of_bind_any; intro pm
        split
        · split
          · exact ih _ _ _ _ hcur
          · apply Post.of_bind (chooseA1A2_post c ui)
            rintro ⟨a1, a2⟩ ⟨h1, h2⟩
            dsimp only
            apply Post.of_bind (Post.self _); intro e1 he1
            apply Post.of_bind (Post.self _); intro e2 he2
            apply ih
            intro g hgm
            rcases List.mem_cons.mp hgm with rfl | hgm
            · exact Or.inr ⟨a2, h2, he2⟩
            · rcases List.mem_cons.mp hgm with rfl | hgm
              · exact Or.inr ⟨a1, h1, he1⟩
              · exact hg g hgm
        · apply Post.of_bind_any; intro bc
          split
          · split
            · exact ih _ _ _ _ hcur
            · apply Post.of_bind (chooseAprime_post ui pL c.pool); intro ap hap
              apply Post.of_bind (Post.self _); intro e he
              apply ih
              intro g hgm
              rcases List.mem_cons.mp hgm with rfl | hgm
              · exact Or.inr ⟨ap, hap, he⟩
              · exact hg g hgm
          · exact ih _ _ _ _ hcur

/-- **the elements of `subsystem_compiler(W)`** (any context whose right size is `m`, any `W` of length `m`):
with `T` the factors of the first ordering and `U` the tag,
* `T = []`  ⇒ the result is `[]`;
* `T = [b]` ⇒ the result is `[U ⊗ b]`;
* otherwise every element is `U ⊗ T[i]` with `i ≥ 1`, or `A ⊗ I…I` with `A` in the pool -/
theorem subsystemCompiler_elems (c : Ctx) (m : Nat) (hm : c.nRight = (m : Int)) (w : PS) (hw : w.len = m)
    (gp : List PS) (h : subsystemCompiler c w = .ok gp) :
    (facT m 0 w.letters = [] ∧ gp = []) ∨
    (∃ b, facT m 0 w.letters = [b] ∧ gp = [PS.tensor c.uTag (PS.ofLetters b)]) ∨
    (2 ≤ (facT m 0 w.letters).length ∧ ∀ g ∈ gp,
      (∃ i b, 1 ≤ i ∧ (facT m 0 w.letters)[i]? = some b ∧ g = PS.tensor c.uTag (PS.ofLetters b)) ∨
      (∃ a ∈ c.pool, extendLeft c a = .ok g)) := by
  unfold subsystemCompiler at h
  have h1 : ¬ ((w.len : Int) ≠ c.nRight) := by rw [hm, hw]; simp
  rw [if_neg h1] at h
  obtain ⟨tl, htl⟩ := factorWOrders_head c m hm w hw
  simp only [htl, bind, Except.bind] at h
  generalize hT : facT m 0 w.letters = T at h ⊢
  match T, hT with
  | [], _ =>
    left
    simp [pure, Except.pure] at h
    exact ⟨rfl, h⟩
  | [b], _ =>
    right; left
    refine ⟨b, rfl, ?_⟩
    simp [subLoop, pure, Except.pure] at h
    exact h.symm
  | b0 :: b1 :: T', _ =>
    right; right
    refine ⟨by simp, ?_⟩
    set uiBi := List.map (fun b => (c.uTag, PS.ofLetters b)) (b0 :: b1 :: T') with huiBi
    have hlen : uiBi.length = T'.length + 2 := by simp [huiBi]
    cases hlast : uiBi.getLast? with
    | none =>
      rw [List.getLast?_eq_getElem?] at hlast
      have : uiBi.length - 1 < uiBi.length := by omega
      simp at hlast
      rw [hlast] at hlen
      simp at hlen
    | some ub =>
      obtain ⟨u, b⟩ := ub
      simp only [hlast] at h
      have hinit : ∀ g ∈ [PS.tensor u b], SubElem c uiBi g := by
        intro g hg
        simp only [List.mem_singleton] at hg
        subst hg
        rw [List.getLast?_eq_getElem?] at hlast
        exact Or.inl ⟨uiBi.length - 1, u, b, by omega, hlast, rfl⟩
      have hall := (subLoop_post c uiBi _ _ _ _ _ hinit).out gp h
      intro g hg
      rcases hall g hg with ⟨i, ui, bi, hi, hget, rfl⟩ | hr
      · left
        simp only [huiBi, List.getElem?_map] at hget
        cases hTi : (b0 :: b1 :: T')[i]? with
        | none => simp [hTi] at hget
        | some bt =>
          simp [hTi] at hget
          obtain ⟨rfl, rfl⟩ := hget
          exact ⟨i, bt, hi, hTi, rfl⟩
      · exact Or.inr hr

end CompilerSearch
end PauLie
