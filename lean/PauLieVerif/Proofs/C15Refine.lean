/-
C15, part 4: the source-level models (`averageOtoc`, `averageGraphComplexity`,
`fourpoint` on `PS`) compute exactly the bit-list cores on collections of
synchronised strings of one length; in particular they never raise there.
Core Lean only (reuses the C14 lemmas on `commutesWith` / `adjointMap` /
`getCommutatorGraph`).
-/
import PauLieVerif.Proofs.C15Spec
import PauLieVerif.Proofs.C14Lemmas
import PauLieVerif.Properties.C14

namespace PauLie
namespace Otoc
open Closure Graph

/-! ## Bits-level reading of the `PS` operations -/

theorem omega_encode : ∀ (v w : List Letter), omega (encode v) (encode w) = C14.wanti v w
  | [], w => by cases w <;> simp [encode, omega, C14.wanti]
  | _ :: _, [] => by simp [encode, omega, C14.wanti]
  | a :: v, b :: w => by
    simp only [encode, omega, C14.wanti, C14.lanti, omega_encode v w]
    cases a <;> cases b <;> rfl

theorem add_eq_zipWith : ∀ (x y : V), add x y = List.zipWith (fun a b => a != b) x y
  | [], y => by simp
  | _ :: _, [] => by simp
  | a :: s, b :: t => by simp [add_eq_zipWith s t]

theorem add_encode (v w : List Letter) : add (encode v) (encode w) = encode (C14.wmul v w) := by
  rw [add_eq_zipWith, C14.xor_encode]

theorem bits_ofLetters (v : List Letter) : (PS.ofLetters v).bits = encode v := rfl

theorem bits_length {n : Nat} {p : PS} (h : p.WF ∧ p.len = n) : p.bits.length = 2 * n := by
  have h1 := h.1.2.2
  have h2 := h.2
  unfold PS.len at h2
  omega

theorem commutesWith_bits {n : Nat} {p q : PS} (hp : p.WF ∧ p.len = n) (hq : q.WF ∧ q.len = n) :
    PS.commutesWith p q = .ok (!omega p.bits q.bits) := by
  obtain ⟨v, rfl, hv⟩ := C14.exists_letters hp.1
  obtain ⟨w, rfl, hw⟩ := C14.exists_letters hq.1
  rw [C14.commutes_ofLetters (by rw [hv, hw, hp.2, hq.2]), bits_ofLetters, bits_ofLetters,
    omega_encode]

theorem adjointMap_bits {n : Nat} {p q : PS} (hp : p.WF ∧ p.len = n) (hq : q.WF ∧ q.len = n) :
    PS.adjointMap p q =
      .ok (if omega p.bits q.bits then some (PS.ofBits (add p.bits q.bits)) else none) := by
  obtain ⟨v, rfl, hv⟩ := C14.exists_letters hp.1
  obtain ⟨w, rfl, hw⟩ := C14.exists_letters hq.1
  rw [C14.adjoint_ofLetters (by rw [hv, hw, hp.2, hq.2]), bits_ofLetters, bits_ofLetters,
    omega_encode, add_encode]
  rfl

theorem multiply_bits {n : Nat} {p q : PS} (hp : p.WF ∧ p.len = n) (hq : q.WF ∧ q.len = n) :
    PS.multiply p q = .ok (PS.ofBits (add p.bits q.bits)) := by
  obtain ⟨v, rfl, hv⟩ := C14.exists_letters hp.1
  obtain ⟨w, rfl, hw⟩ := C14.exists_letters hq.1
  rw [C14.multiply_ofLetters (by rw [hv, hw, hp.2, hq.2]), bits_ofLetters, bits_ofLetters,
    add_encode]
  rfl

theorem wf_ofBits_len {n : Nat} {b : V} (h : b.length = 2 * n) :
    (PS.ofBits b).WF ∧ (PS.ofBits b).len = n := by
  refine ⟨C18.wf_ofBits b (by omega), ?_⟩
  show b.length / 2 = n
  omega

theorem containsPS_eq (l : List PS) (p : PS) :
    containsPS l p = (l.map (·.bits)).contains p.bits := by
  rw [Bool.eq_iff_iff, C14.containsPS_iff_bits]
  simp [eq_comm]

theorem omega_pos {x y : V} (h : omega x y = true) : 2 ≤ x.length := by
  match x, y, h with
  | _ :: _ :: _, _, _ => simp

theorem uniform_bits {n : Nat} {G : List PS} (hG : C14.Uniform n G) :
    Uniform n (G.map (·.bits)) := by
  intro g hg
  obtain ⟨p, hp, rfl⟩ := List.mem_map.1 hg
  exact bits_length (hG p hp)

/-! ## `average_otoc` -/

def toRes (R : ResPS) : Res := ⟨R.visited.map (·.bits), R.anti, R.size, R.done⟩

theorem children_cons (g : V) (gs vis : List V) (t : V) :
    children (g :: gs) vis t =
      if omega t g = true ∧ vis.contains (add t g) = false then add t g :: children gs vis t
      else children gs vis t := by
  unfold children expand
  cases ho : omega t g
  · simp [ho]
  · by_cases hc : add t g ∈ vis
    · simp [ho, hc]
    · simp [ho, hc]

/-- the `for g in generators` loop appends exactly `children` -/
theorem pushComms_refines {n : Nat} {t : PS} (ht : t.WF ∧ t.len = n) (vis : List PS) :
    ∀ (gs q : List PS), C14.Uniform n gs → (∀ p, p ∈ q → p.WF ∧ p.len = n) →
      ∃ q', pushComms t vis gs q = .ok q' ∧ (∀ p, p ∈ q' → p.WF ∧ p.len = n) ∧
        q'.map (·.bits) = q.map (·.bits) ++ children (gs.map (·.bits)) (vis.map (·.bits)) t.bits
  | [], q, _, hq => ⟨q, rfl, hq, by simp [children, expand]⟩
  | g :: gs, q, hG, hq => by
    have hg := hG g (List.mem_cons_self ..)
    have hGs : C14.Uniform n gs := fun p hp => hG p (List.mem_cons_of_mem _ hp)
    rw [List.map_cons, children_cons]
    unfold pushComms
    rw [adjointMap_bits ht hg]
    cases ho : omega t.bits g.bits with
    | false =>
      simp only [Bool.false_eq_true, if_false, false_and, bind, Except.bind]
      exact pushComms_refines ht vis gs q hGs hq
    | true =>
      have hlen : (add t.bits g.bits).length = 2 * n :=
        length_add_eq (bits_length ht) (bits_length hg)
      have hc := wf_ofBits_len hlen
      have hpos : (PS.ofBits (add t.bits g.bits)).len > 0 := by
        have := omega_pos ho
        have := bits_length ht
        rw [hc.2]; omega
      simp only [if_true, true_and, bind, Except.bind, hpos, containsPS_eq]
      show ∃ q', (if (vis.map (·.bits)).contains (add t.bits g.bits) = false then _ else _) = _ ∧ _
      cases hcon : (vis.map (·.bits)).contains (add t.bits g.bits) with
      | true =>
        simp only [Bool.true_eq_false, if_false]
        exact pushComms_refines ht vis gs q hGs hq
      | false =>
        simp only [if_true]
        obtain ⟨q', h1, h2, h3⟩ := pushComms_refines ht vis gs (q ++ [PS.ofBits (add t.bits g.bits)]) hGs
          (by
            intro p hp
            rcases List.mem_append.1 hp with hp | hp
            · exact hq p hp
            · simp at hp; subst hp; exact hc)
        refine ⟨q', h1, h2, ?_⟩
        rw [h3]; simp [PS.ofBits]

theorem loopPS_refines {n : Nat} {gens : List PS} (hG : C14.Uniform n gens) {w : PS}
    (hw : w.WF ∧ w.len = n) :
    ∀ (fuel : Nat) (vis q : List PS) (a s : Nat), (∀ p, p ∈ q → p.WF ∧ p.len = n) →
      ∃ R, loopPS gens w fuel vis q a s = .ok R ∧
        toRes R = otocLoop (gens.map (·.bits)) w.bits fuel (vis.map (·.bits)) (q.map (·.bits)) a s
  | 0, vis, q, a, s, _ => ⟨_, rfl, by cases q <;> rfl⟩
  | fuel + 1, vis, [], a, s, _ => ⟨_, rfl, rfl⟩
  | fuel + 1, vis, t :: rest, a, s, hq => by
    have ht := hq t (List.mem_cons_self ..)
    have hrest : ∀ p, p ∈ rest → p.WF ∧ p.len = n := fun p hp => hq p (List.mem_cons_of_mem _ hp)
    rw [List.map_cons, otocLoop_cons]
    unfold loopPS
    rw [containsPS_eq]
    cases hc : (vis.map (·.bits)).contains t.bits with
    | true =>
      simp only [if_true]
      exact loopPS_refines hG hw fuel vis rest a s hrest
    | false =>
      simp only [Bool.false_eq_true, if_false]
      rw [commutesWith_bits hw ht]
      obtain ⟨q', h1, h2, h3⟩ := pushComms_refines ht (t :: vis) gens rest hG hrest
      simp only [bind, Except.bind, h1]
      obtain ⟨R, hR1, hR2⟩ := loopPS_refines hG hw fuel (t :: vis) q'
        (if (!omega w.bits t.bits) = true then a else a + 1) (s + 1) h2
      refine ⟨R, hR1, ?_⟩
      rw [hR2, h3, List.map_cons]
      cases omega w.bits t.bits <;> rfl

/-- `average_otoc` on a collection never raises and returns the core's result -/
theorem averageOtoc_refines {n : Nat} {gens : List PS} (hG : C14.Uniform n gens) {v w : PS}
    (hv : v.WF ∧ v.len = n) (hw : w.WF ∧ w.len = n) :
    ∃ R, averageOtoc gens v w = .ok R ∧ toRes R = otocCore (gens.map (·.bits)) v.bits w.bits := by
  unfold averageOtoc otocCore
  obtain ⟨R, h1, h2⟩ := loopPS_refines hG hw (otocFuel gens.length v.len) [] [v] 0 0
    (by intro p hp; simp at hp; subst hp; exact hv)
  refine ⟨R, h1, ?_⟩
  rw [h2, List.length_map]
  rfl

/-! ## `average_graph_complexity` -/

theorem mem_adjV {edges : List (V × V)} {z y : V} :
    y ∈ adjV edges z ↔ (z, y) ∈ edges ∨ (y, z) ∈ edges := by
  unfold adjV
  rw [List.mem_filterMap]
  constructor
  · rintro ⟨⟨a, b⟩, he, h⟩
    by_cases h1 : a = z
    · subst h1; simp at h; subst h; exact Or.inl he
    · by_cases h2 : b = z
      · subst h2; simp [h1] at h; subst h; exact Or.inr he
      · simp [h1, h2] at h
  · rintro (he | he)
    · exact ⟨(z, y), he, by simp⟩
    · by_cases h1 : y = z
      · subst h1; exact ⟨(y, y), he, by simp⟩
      · exact ⟨(y, z), he, by simp [h1]⟩

/-- neighbours in the modelled commutator graph (keyed by bits) are exactly the
generator moves -/
theorem adjV_commutator {n : Nat} {G : List PS} (hG : C14.Uniform n G) (hne : G ≠ [])
    {E : List (PS × PS)} (hE : getCommutatorGraph G = .ok (PS.genAll n, E))
    {z : V} (hz : z.length = 2 * n) (y : V) :
    y ∈ adjV (E.map (fun e => (e.1.bits, e.2.bits))) z ↔ y ∈ expand (G.map (·.bits)) z := by
  obtain ⟨E0, hE0, ⟨hall, _, _⟩, hedge⟩ := C14.C14_commutator_graph hG hne
  have hEE : E0 = E := by rw [hE] at hE0; cases hE0; rfl
  subst hEE
  have hmemE : ∀ P Q, (P, Q) ∈ E0 → (P.WF ∧ P.len = n) ∧ (Q.WF ∧ Q.len = n) := by
    intro P Q h
    obtain ⟨⟨i, j, _, hi, hj⟩, _⟩ := (hedge P Q).1 h
    exact ⟨(hall P).1 (List.mem_of_getElem? hi), (hall Q).1 (List.mem_of_getElem? hj)⟩
  have hund : ∀ P Q, (P.WF ∧ P.len = n) → (Q.WF ∧ Q.len = n) →
      (((P, Q) ∈ E0 ∨ (Q, P) ∈ E0) ↔ ∃ g ∈ G, C14.anti g P ∧ PS.multiply P g = .ok Q) := by
    intro P Q hP hQ
    obtain ⟨E1, h1, h2⟩ := C14.C14_commutator_graph_undirected hG hne P Q hP hQ
    have : E1 = E0 := by rw [hE] at h1; cases h1; rfl
    subst this; exact h2
  have key : ∀ P Q, (P.WF ∧ P.len = n) → (Q.WF ∧ Q.len = n) →
      ((∃ g ∈ G, C14.anti g P ∧ PS.multiply P g = .ok Q) ↔
        Q.bits ∈ expand (G.map (·.bits)) P.bits) := by
    intro P Q hP hQ
    rw [mem_expand]
    constructor
    · rintro ⟨g, hg, ha, hm⟩
      have hgu := hG g hg
      unfold C14.anti at ha
      rw [commutesWith_bits hgu hP] at ha
      rw [multiply_bits hP hgu] at hm
      refine ⟨g.bits, List.mem_map.2 ⟨g, hg, rfl⟩, ?_, ?_⟩
      · rw [omega_comm]; cases h : omega g.bits P.bits
        · rw [h] at ha; cases ha
        · rfl
      · cases hm; rfl
    · rintro ⟨gb, hgb, ho, hq⟩
      obtain ⟨g, hg, rfl⟩ := List.mem_map.1 hgb
      have hgu := hG g hg
      refine ⟨g, hg, ?_, ?_⟩
      · unfold C14.anti; rw [commutesWith_bits hgu hP, omega_comm, ho]; rfl
      · rw [multiply_bits hP hgu]
        congr 1
        exact C14.eq_of_bits_eq (wf_ofBits_len (length_add_eq (bits_length hP) (bits_length hgu))).1
          hQ.1 (by rw [hq]; rfl)
  rw [mem_adjV]
  simp only [List.mem_map, Prod.mk.injEq, Prod.exists]
  constructor
  · rintro (⟨P, Q, he, rfl, rfl⟩ | ⟨Q, P, he, rfl, rfl⟩)
    · obtain ⟨hP, hQ⟩ := hmemE P Q he
      exact (key P Q hP hQ).1 ((hund P Q hP hQ).1 (Or.inl he))
    · obtain ⟨hQ, hP⟩ := hmemE Q P he
      exact (key P Q hP hQ).1 ((hund P Q hP hQ).1 (Or.inr he))
  · intro hy
    have hyl : y.length = 2 * n := by
      obtain ⟨g, hg, _, rfl⟩ := mem_expand.1 hy
      exact length_add_eq hz (uniform_bits hG g hg)
    have hP := wf_ofBits_len hz
    have hQ := wf_ofBits_len hyl
    rcases (hund _ _ hP hQ).2 ((key _ _ hP hQ).2 hy) with he | he
    · exact Or.inl ⟨_, _, he, rfl, rfl⟩
    · exact Or.inr ⟨_, _, he, rfl, rfl⟩

/-- `average_graph_complexity` on a non-empty collection and a string of its
length never raises; it returns the sum of the values and the size of the
dictionary computed by the BFS core with the generator moves as neighbours,
for *some* neighbour function `nbrs` satisfying the hypothesis of `splCore_spec` -/
theorem averageGraphComplexity_refines {n : Nat} {G : List PS} (hG : C14.Uniform n G) (hne : G ≠ [])
    {p : PS} (hp : p.WF ∧ p.len = n) :
    ∃ nbrs : V → List V,
      (∀ z, z.length = 2 * n → ∀ y, y ∈ nbrs z ↔ y ∈ expand (G.map (·.bits)) z) ∧
      averageGraphComplexity G p =
        .ok (((splCore nbrs p.bits).1.map Prod.snd).sum, (splCore nbrs p.bits).1.length,
          (splCore nbrs p.bits).2) := by
  obtain ⟨E, hE, ⟨hall, _, _⟩, _⟩ := C14.C14_commutator_graph hG hne
  refine ⟨adjV (E.map (fun e => (e.1.bits, e.2.bits))), fun z hz y => adjV_commutator hG hne hE hz y, ?_⟩
  unfold averageGraphComplexity
  rw [hE]
  have hin : ((PS.genAll n).map (·.bits)).contains p.bits = true := by
    rw [List.contains_iff_mem]
    exact List.mem_map.2 ⟨p, (hall p).2 hp, rfl⟩
  simp only [hin, Bool.true_eq_false, if_false]

/-! ## `fourpoint` -/

theorem fourpoint_spec {n : Nat} {G : List PS} (hG : C14.Uniform n G) (hne : G ≠ [])
    {p q r s : PS} (hp : p.WF ∧ p.len = n) (hq : q.WF ∧ q.len = n) (hr : r.WF ∧ r.len = n)
    (hs : s.WF ∧ s.len = n) :
    ∃ R, averageOtoc G p q = .ok R ∧
      ((add r.bits p.bits = add q.bits s.bits ∧
          (∀ g, g ∈ G → omega g.bits (add q.bits s.bits) = false) →
        fourpoint G p q r s = .ok (some R)) ∧
       (¬ (add r.bits p.bits = add q.bits s.bits ∧
          (∀ g, g ∈ G → omega g.bits (add q.bits s.bits) = false)) →
        fourpoint G p q r s = .ok none)) := by
  obtain ⟨R, hR, _⟩ := averageOtoc_refines hG hp hq
  obtain ⟨L, hL, hmem, _, _⟩ := C14.C14_commutants hG hne
  refine ⟨R, hR, ?_⟩
  have hqsl : (add q.bits s.bits).length = 2 * n := length_add_eq (bits_length hq) (bits_length hs)
  have hqs := wf_ofBits_len hqsl
  have hcont : containsPS L (PS.ofBits (add q.bits s.bits)) = true ↔
      ∀ g, g ∈ G → omega g.bits (add q.bits s.bits) = false := by
    rw [C14.containsPS_iff_mem (fun x hx => ((hmem x).1 hx).1) hqs.1, hmem]
    constructor
    · rintro ⟨_, _, h⟩ g hg
      have := h g hg
      rw [commutesWith_bits (hG g hg) hqs] at this
      cases ho : omega g.bits (PS.ofBits (add q.bits s.bits)).bits
      · exact ho
      · rw [ho] at this; cases this
    · intro h
      refine ⟨hqs.1, hqs.2, fun g hg => ?_⟩
      rw [commutesWith_bits (hG g hg) hqs]
      have : omega g.bits (PS.ofBits (add q.bits s.bits)).bits = false := h g hg
      rw [this]; rfl
  have hbeq : (PS.ofBits (add r.bits p.bits)).beq (PS.ofBits (add q.bits s.bits)) = true ↔
      add r.bits p.bits = add q.bits s.bits := by
    simp [PS.beq, PS.ofBits]
  unfold fourpoint
  rw [hL, multiply_bits hr hp, multiply_bits hq hs]
  simp only [bind, Except.bind, hR]
  constructor
  · rintro ⟨h1, h2⟩
    rw [if_pos ⟨hbeq.2 h1, hcont.2 h2⟩]
  · intro h
    rw [if_neg]
    rintro ⟨h1, h2⟩
    exact h ⟨hbeq.1 h1, hcont.1 h2⟩

end Otoc
end PauLie
