/-
C01, canonical graphs of type B1 in general: centre, `j + 1` single legs, `t` legs of length two - the
canonical realisation `canonK j t` on `t + 1 + j` qubits (every further single leg is `Z ⊗ a` on a new
qubit in front), its closure (`2^j` translates of `{QBn t = 1}`, `canonK_clo`), the size
`2^j · (2^(2t+1) + 2^t)` (`card_canonK`) and its linear independence (`indep_canonK`).  Core Lean only.
-/
import PauLieVerif.Proofs.C01TypeBCanon
import PauLieVerif.Proofs.C01TypeBIndep

namespace PauLie
namespace C01TypeB
open Closure C01Star

/-- `j` identity letters in front -/
def padN : Nat → V → V
  | 0, y => y
  | j + 1, y => pad (padN j y)

theorem length_padN : ∀ (j : Nat) (y : V), (padN j y).length = y.length + 2 * j
  | 0, _ => rfl
  | j + 1, y => by simp [padN, pad, length_padN j y]; omega

/-- the further single legs, the newest first -/
def twinsK : Nat → Nat → List V
  | 0, _ => []
  | j + 1, t => (false :: true :: padN j (aT t)) :: (twinsK j t).map pad

/-- everything but centre and first single leg -/
def restK (j t : Nat) : List V := twinsK j t ++ (pairsB t).map (padN j)

/-- canonical realisation: centre, `j + 1` single legs, `t` legs of length two (leg order of the library) -/
def canonK (j t : Nat) : List V := padN j (cT t) :: padN j (aT t) :: restK j t

theorem canonK_zero (t : Nat) : canonK 0 t = GB1 t := by
  simp [canonK, restK, twinsK, padN, GB1]

theorem restK_succ (j t : Nat) :
    restK (j + 1) t = [false :: true :: padN j (aT t)] ++ (restK j t).map pad := by
  simp [restK, twinsK, padN, List.map_append, Function.comp_def]

theorem canonK_succ (j t : Nat) :
    canonK (j + 1) t = [padN j (cT t), padN j (aT t)].map pad ++
      ([false :: true :: padN j (aT t)] ++ (restK j t).map pad) := by
  rw [canonK, restK_succ]; rfl

theorem canonK_split (j t : Nat) : canonK j t = [padN j (cT t), padN j (aT t)] ++ restK j t := rfl

theorem GB1_succ (t : Nat) : GB1 (t + 1) = [cT t, aT t].map pad ++
    ([false :: true :: aT t, true :: false :: zeroV (2 * (t + 1))] ++ (pairsB t).map pad) := rfl

theorem GB1_split (t : Nat) : GB1 t = [cT t, aT t] ++ pairsB t := rfl

theorem mem_canonK_succ {j t : Nat} {g : V} :
    g ∈ canonK (j + 1) t ↔ (∃ h ∈ canonK j t, g = pad h) ∨ g = false :: true :: padN j (aT t) := by
  rw [canonK_succ, canonK_split]
  simp only [List.mem_append, List.mem_map, List.mem_cons, List.not_mem_nil, or_false]
  constructor
  · rintro (⟨h, hh, rfl⟩ | rfl | ⟨h, hh, rfl⟩)
    · exact Or.inl ⟨h, Or.inl hh, rfl⟩
    · exact Or.inr rfl
    · exact Or.inl ⟨h, Or.inr hh, rfl⟩
  · rintro (⟨h, hh | hh, rfl⟩ | rfl)
    · exact Or.inl ⟨h, hh, rfl⟩
    · exact Or.inr (Or.inr ⟨h, hh, rfl⟩)
    · exact Or.inr (Or.inl rfl)

theorem uniform_canonK : ∀ j t, Uniform (t + 1 + j) (canonK j t)
  | 0, t => by rw [canonK_zero]; exact uniform_GB1 t
  | j + 1, t => by
    intro g hg
    rcases mem_canonK_succ.1 hg with ⟨h, hh, rfl⟩ | rfl
    · have := uniform_canonK j t h hh
      simp [pad, this]; omega
    · simp [length_padN, length_aT]; omega

theorem aK_mem (j t : Nat) : padN j (aT t) ∈ canonK j t := by simp [canonK]
theorem cK_mem (j t : Nat) : padN j (cT t) ∈ canonK j t := by simp [canonK]

theorem omega_aK_cK : ∀ j t, omega (padN j (aT t)) (padN j (cT t)) = true
  | 0, t => omega_aT_cT t
  | j + 1, t => by simpa [padN, pad, omega_cons2] using omega_aK_cK j t

theorem conn_canonK : ∀ j t, ∀ g ∈ canonK j t,
    Conn (canonK j t) (padN j (cT t)) g ∧ Conn (canonK j t) g (padN j (cT t))
  | 0, t => by
    rw [canonK_zero]; exact conn_GB1 t
  | j + 1, t => by
    intro g hg
    have hpad : ∀ h ∈ canonK j t, pad h ∈ canonK (j + 1) t := fun h hh => mem_canonK_succ.2 (Or.inl ⟨h, hh, rfl⟩)
    rcases mem_canonK_succ.1 hg with ⟨h, hh, rfl⟩ | rfl
    · obtain ⟨i1, i2⟩ := conn_canonK j t h hh
      exact ⟨conn_pad hpad i1, conn_pad hpad i2⟩
    · have hU := uniform_canonK (j + 1) t
      have hc : Clo (canonK (j + 1) t) (padN (j + 1) (cT t)) := Clo.base (cK_mem (j + 1) t)
      have hb : Clo (canonK (j + 1) t) (false :: true :: padN j (aT t)) := Clo.base hg
      have o : omega (padN (j + 1) (cT t)) (false :: true :: padN j (aT t)) = true := by
        simp only [padN, pad, omega_cons2]
        rw [omega_comm, omega_aK_cK j t]; rfl
      exact ⟨conn_adj hU hc hb o, conn_adj hU hb hc (by rw [omega_comm]; exact o)⟩

/-- the closure as a list: `2^j` translates of `{Q = 1}` -/
def LK : Nat → Nat → List V
  | 0, t => LQ t true
  | j + 1, t => (LK j t).map (fun y => false :: false :: y) ++ (LK j t).map (fun y => false :: true :: y)

theorem canonK_clo : ∀ j t (v : V), v ∈ LK j t ↔ Clo (canonK j t) v
  | 0, t, v => by
    rw [canonK_zero, LK, mem_LQ]
    constructor
    · rintro ⟨l, q⟩; exact (canon1_full t v l).2 q
    · intro h
      have l := clo_length (uniform_GB1 t) h
      exact ⟨l, (canon1_full t v l).1 h⟩
  | j + 1, t, v => by
    have hpad : ∀ h ∈ canonK j t, pad h ∈ canonK (j + 1) t := fun h hh => mem_canonK_succ.2 (Or.inl ⟨h, hh, rfl⟩)
    rw [twin_clo (uniform_canonK j t) (aK_mem j t) (conn_canonK j t) hpad (mem_canonK_succ.2 (Or.inr rfl))
      (fun g' hg' => mem_canonK_succ.1 hg') v]
    simp only [LK, List.mem_append, List.mem_map]
    constructor
    · rintro (⟨w, hw, rfl⟩ | ⟨w, hw, rfl⟩)
      · exact ⟨false, w, rfl, (canonK_clo j t w).1 hw⟩
      · exact ⟨true, w, rfl, (canonK_clo j t w).1 hw⟩
    · rintro ⟨z, w, rfl, hw⟩
      cases z
      · exact Or.inl ⟨w, (canonK_clo j t w).2 hw, rfl⟩
      · exact Or.inr ⟨w, (canonK_clo j t w).2 hw, rfl⟩

theorem nodup_LK : ∀ j t, (LK j t).Nodup
  | 0, t => nodup_LQ t true
  | j + 1, t => by
    simp only [LK]
    rw [List.nodup_append]
    refine ⟨nodup_map_cons2 _ _ (nodup_LK j t), nodup_map_cons2 _ _ (nodup_LK j t), ?_⟩
    intro a ha b hb hab
    obtain ⟨w, _, rfl⟩ := List.mem_map.1 ha
    obtain ⟨w', _, rfl⟩ := List.mem_map.1 hb
    simp at hab

theorem length_LK : ∀ j t, (LK j t).length = 2 ^ j * (2 ^ (2 * t + 1) + 2 ^ t)
  | 0, t => by simp [LK, (length_LQ t).1]
  | j + 1, t => by
    simp only [LK, List.length_append, List.length_map, length_LK j t]
    generalize 2 ^ (2 * t + 1) + 2 ^ t = m
    rw [Nat.pow_succ, Nat.mul_comm (2 ^ j) 2, Nat.mul_assoc]; omega

/-- **size of the closure of the canonical B1 star** -/
theorem card_canonK (j t : Nat) :
    (closureList (canonK j t)).1.length = 2 ^ j * (2 ^ (2 * t + 1) + 2 ^ t) := by
  rw [← clo_card (uniform_canonK j t) (nodup_LK j t) (canonK_clo j t), length_LK]

/-! ### independence -/

theorem indep_GB1 : ∀ t, Indep (2 * (t + 1)) (GB1 t)
  | 0 => indepB_sound _ (uniform_GB1 0) (by decide)
  | t + 1 => by
    have hU := uniform_GB1 t
    have h := indep_insert (L := 2 * (t + 1)) (p := [cT t, aT t]) (q := pairsB t)
      (news := [false :: true :: aT t, true :: false :: zeroV (2 * (t + 1))])
      (fun v hv => hU v (by rw [GB1_split]; exact List.mem_append_left _ hv))
      (fun v hv => hU v (by rw [GB1_split]; exact List.mem_append_right _ hv))
      (by intro v hv
          simp only [List.mem_cons, List.not_mem_nil, or_false] at hv
          rcases hv with rfl | rfl <;> simp [length_aT])
      (by rw [← GB1_split]; exact indep_GB1 t)
      (firstLetters_pair (aT t) (length_aT t))
    rw [GB1_succ]
    exact h

theorem indep_canonK : ∀ j t, Indep (2 * (t + 1 + j)) (canonK j t)
  | 0, t => by rw [canonK_zero]; exact indep_GB1 t
  | j + 1, t => by
    have hU := uniform_canonK j t
    have la : (padN j (aT t)).length = 2 * (t + 1 + j) := hU _ (aK_mem j t)
    have h := indep_insert (L := 2 * (t + 1 + j)) (p := [padN j (cT t), padN j (aT t)]) (q := restK j t)
      (news := [false :: true :: padN j (aT t)])
      (fun v hv => hU v (by rw [canonK_split]; exact List.mem_append_left _ hv))
      (fun v hv => hU v (by rw [canonK_split]; exact List.mem_append_right _ hv))
      (by intro v hv
          simp only [List.mem_cons, List.not_mem_nil, or_false] at hv
          subst hv; simp [la])
      (by rw [← canonK_split]; exact indep_canonK j t)
      (firstLetters_twin _ la)
    rw [canonK_succ]
    exact h

end C01TypeB
end PauLie
