/-
Helpers for property C19, part 32: family a3 (`XX`,`YZ`), table row `_a3(n)` (period 8 in n).

Closed form: the strings commuting with `A = X X X X …` and `B = Y Z Y Z …` for which `#Y + ω(x, I Z X Y I Z X Y …)`
is odd and that are not in the span of `A`, `B` (`T3 = TP a3A a3B a3W 0`).  Instance of `clo_pat`
(`Proofs/C19LastPatStep.lean`) with period 4; n = 3, 4 by kernel evaluation.
-/
import PauLieVerif.Proofs.C19LastA5
import PauLieVerif.Proofs.C19LastA3b
import PauLieVerif.Proofs.C19LastA3c
import PauLieVerif.Proofs.C19LastA3d
import PauLieVerif.Proofs.C19LastA3e

namespace PauLie
namespace C19
open Closure Graph C01Star C03

theorem per_a3A : PerP 4 a3A := by intro i; rfl
theorem per_a3B : PerP 4 a3B := by intro i; simp only [a3B]; rw [show (i + 4) % 2 = i % 2 by omega]
theorem per_a3W : PerP 4 a3W := by intro i; simp [a3W]

theorem noId_a3 : NoId a3A a3B := by
  intro i c1 c2 hc
  have h : i % 2 = 0 ∨ i % 2 = 1 := by omega
  revert hc
  rcases h with h | h <;> cases c1 <;> cases c2 <;> simp [spn, a3A, a3B, h]

theorem chkA3 : ∀ ph, ph < 4 → chkP a3A a3B a3W ph
  | 0, _ => chkA3_0
  | 1, _ => chkA3_1
  | 2, _ => chkA3_2
  | 3, _ => chkA3_3
  | _ + 4, h => by omega

/-- closed form of a3 -/
def T3 : V → Bool := TP a3A a3B a3W 0

theorem gen_a3 : ∀ n, 5 ≤ n → ∀ g ∈ klocalV n gensA3, T3 g = true := by
  intro n hn g hg
  obtain ⟨g0, hg0, k, hk, rfl⟩ := mem_klocalV.1 hg
  have key : ∀ ph, ph < 4 → ∀ g ∈ gensA3, omP a3A ph g = false ∧ omP a3B ph g = false ∧ qW a3W ph g = true := by decide
  have hk3 := key (k % 4) (Nat.mod_lt _ (by omega)) g0 hg0
  refine TP_shiftV noId_a3 (by omega) (by omega) (lenA3 g0 hg0) ?_ ?_ ?_
  · rw [omP_congr g0 k (k % 4) (per_a3A.shift k)]; exact hk3.1
  · rw [omP_congr g0 k (k % 4) (per_a3B.shift k)]; exact hk3.2.1
  · rw [qW, omP_congr g0 k (k % 4) (per_a3W.shift k)]; exact hk3.2.2

/-- **a3**: the closure for every n ≥ 3 -/
theorem clo_a3 {n : Nat} (hn : 3 ≤ n) (x : V) : Clo (klocalV n gensA3) x ↔ x.length = 2 * n ∧ T3 x = true := by
  by_cases h5 : 5 ≤ n
  · refine clo_pat lenA3 per_a3A per_a3B per_a3W (by omega) noId_a3 chkA3 chA3 ?_ gen_a3 h5 x
    intro x hx hq
    have := List.all_eq_true.1 base_a3 x (List.mem_filter.2 ⟨mem_allV.2 hx, hq⟩)
    exact (closureList_sound_complete (uniform_klocalV lenA3)).1 (List.contains_iff_mem.1 this)
  · obtain rfl | rfl : n = 3 ∨ n = 4 := by omega
    · exact clo_iff_of_listChk lenA3 base_a3_3 x
    · exact clo_iff_of_listChk lenA3 base_a3_4 x

end C19
end PauLie
