/-
Translator tie for the census → name part of the classifier (properties C01, C09).
`Generated.censusTable` is regenerated from the live package on every run
(harness/gen_tables_classifier.py): for every leg profile of a box it holds what
`Morph.counts()`, `get_properties()`, `get_algebra_properties()`, the copy count of
`Classification.get_algebra()` and `get_dla_dim()` answer (or that they raise).
`census_tie` proves the Lean model equal to it, row by row.
-/
import PauLieVerif.Generated.Tables
import PauLieVerif.Model.Classify

namespace PauLie
namespace Tie
open Classify

/-- a star with `a` single legs, `b` legs of length two, a leg of length `c` and one of length `d`
(`d = 9`: nothing but the centre) -/
def synLegs (a b c d : Nat) : List (List PS) :=
  let p := PS.ofLetters [.X]
  if d == 9 then [[p]] else
  [[p]] ++ List.replicate a [p] ++ List.replicate b [p, p] ++
    (if c > 0 then [List.replicate c p] else []) ++ (if d > 0 then [List.replicate d p] else [])

def tgCode : TypeGraph → Nat | .A => 0 | .B1 => 1 | .B2 => 2 | .B3 => 3 | .NONE => 4
def taCode : TypeAlgebra → Nat | .U => 0 | .SU => 1 | .SP => 2 | .SO => 3

def toOpt {α} : Except Err α → Option α
  | .ok a => some a
  | .error _ => none

def censusRow (k : Nat × Nat × Nat × Nat) :
    (Nat × Nat × Nat × Nat) × Option (Nat × Nat × Nat) × Option (Nat × Nat × Nat × Nat) ×
      Option (Nat × Nat × Nat) × Option (Nat × Nat × Nat) × Option Nat :=
  let legs := synLegs k.1 k.2.1 k.2.2.1 k.2.2.2
  let m : MorphR := ⟨legs, [], [], [], true⟩
  (k, toOpt (counts legs),
   (toOpt (getProperties legs)).map (fun r => (tgCode r.1, r.2.1, r.2.2.1, r.2.2.2)),
   (toOpt (getAlgebraProperties legs)).map (fun r => (taCode r.1, r.2.1, r.2.2)),
   (toOpt (summandsOf [m])).bind (fun l => match l with | [s] => some (s.mult, taCode s.ty, s.size) | _ => none),
   toOpt (dlaDimOfMorphs [m]))

/-- **census tie**: on every profile of the box the model answers what the Python answers -/
theorem census_tie : Generated.censusTable.all (fun r => censusRow r.1 == r) = true := by
  decide +kernel

theorem census_rows : Generated.censusTable.length = 7 * 7 * 11 * 2 + 1 := by decide +kernel

end Tie
end PauLie
