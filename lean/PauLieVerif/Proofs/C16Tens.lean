/-
Helper lemmas for property C16, part 3: the Kronecker product `tens A B` of a matrix on
`n` qubits and a matrix on `m` qubits as a matrix on `n + m` qubits (index functions
`Fin (n+m) → Fin 2`, first `n` bits for the first factor — the layout of
`Fin.append`, `C12.M_append`), with the mixed-product, adjoint and trace rules.
-/
import PauLieVerif.Proofs.C12Kron
import PauLieVerif.Proofs.C16Proj
import Mathlib.Logic.Equiv.Fin.Basic

namespace PauLie
namespace C16

open Matrix Complex C12 C04

abbrev Idx (n : ℕ) := Fin n → Fin 2
abbrev Mat (n : ℕ) := Matrix (Idx n) (Idx n) ℂ

def fst {n m : ℕ} (r : Idx (n + m)) : Idx n := fun i => r (Fin.castAdd m i)
def snd {n m : ℕ} (r : Idx (n + m)) : Idx m := fun i => r (Fin.natAdd n i)

theorem append_fst_snd {n m : ℕ} (r : Idx (n + m)) : Fin.append (fst r) (snd r) = r :=
  Fin.append_castAdd_natAdd

@[simp] theorem fst_append {n m : ℕ} (a : Idx n) (b : Idx m) : fst (Fin.append a b) = a := by
  funext i; simp [fst]

@[simp] theorem snd_append {n m : ℕ} (a : Idx n) (b : Idx m) : snd (Fin.append a b) = b := by
  funext i; simp [snd]

/-- Kronecker product, entry-wise -/
def tens {n m : ℕ} (A : Mat n) (B : Mat m) : Mat (n + m) :=
  Matrix.of (fun r c => A (fst r) (fst c) * B (snd r) (snd c))

@[simp] theorem tens_apply {n m : ℕ} (A : Mat n) (B : Mat m) (r c : Idx (n + m)) :
    tens A B r c = A (fst r) (fst c) * B (snd r) (snd c) := rfl

/-- a matrix on `n + m` qubits is determined by its entries at appended indices -/
theorem ext_append {n m : ℕ} {X Y : Mat (n + m)}
    (h : ∀ (r c : Idx n) (r' c' : Idx m), X (Fin.append r r') (Fin.append c c') = Y (Fin.append r r') (Fin.append c c')) :
    X = Y := by
  ext r c
  rw [← append_fst_snd r, ← append_fst_snd c]
  exact h _ _ _ _

/-- the matrix of a concatenated string is the Kronecker product -/
theorem M_append_tens {n m : ℕ} (P : Fin n → Letter) (Q : Fin m → Letter) :
    M (Fin.append P Q) = tens (M P) (M Q) := by
  apply ext_append
  intro r c r' c'
  rw [M_append]; simp

theorem tens_add_left {n m : ℕ} (A A' : Mat n) (B : Mat m) :
    tens (A + A') B = tens A B + tens A' B := by
  ext r c; simp [add_mul]

theorem tens_add_right {n m : ℕ} (A : Mat n) (B B' : Mat m) :
    tens A (B + B') = tens A B + tens A B' := by
  ext r c; simp [mul_add]

theorem tens_sub_left {n m : ℕ} (A A' : Mat n) (B : Mat m) :
    tens (A - A') B = tens A B - tens A' B := by
  ext r c; simp [sub_mul]

theorem tens_sub_right {n m : ℕ} (A : Mat n) (B B' : Mat m) :
    tens A (B - B') = tens A B - tens A B' := by
  ext r c; simp [mul_sub]

theorem tens_smul_left {n m : ℕ} (x : ℂ) (A : Mat n) (B : Mat m) :
    tens (x • A) B = x • tens A B := by
  ext r c; simp [mul_assoc]

theorem tens_smul_right {n m : ℕ} (x : ℂ) (A : Mat n) (B : Mat m) :
    tens A (x • B) = x • tens A B := by
  ext r c; simp [mul_left_comm]

@[simp] theorem tens_zero_left {n m : ℕ} (B : Mat m) : tens (0 : Mat n) B = 0 := by
  ext r c; simp

@[simp] theorem tens_zero_right {n m : ℕ} (A : Mat n) : tens A (0 : Mat m) = 0 := by
  ext r c; simp

/-- sums over indices of `n + m` qubits split -/
theorem sum_idx_add {n m : ℕ} (f : Idx (n + m) → ℂ) :
    ∑ x : Idx (n + m), f x = ∑ a : Idx n, ∑ b : Idx m, f (Fin.append a b) := by
  rw [← Fintype.sum_prod_type']
  exact (Fintype.sum_equiv (Fin.appendEquiv n m) _ _ (fun _ => rfl)).symm

/-- mixed-product rule -/
theorem tens_mul {n m : ℕ} (A A' : Mat n) (B B' : Mat m) :
    tens A B * tens A' B' = tens (A * A') (B * B') := by
  ext r c
  simp only [Matrix.mul_apply, tens_apply]
  rw [sum_idx_add, Finset.sum_mul_sum]
  apply Finset.sum_congr rfl; intro a _
  apply Finset.sum_congr rfl; intro b _
  simp only [fst_append, snd_append]
  ring

theorem tens_conjTranspose {n m : ℕ} (A : Mat n) (B : Mat m) :
    (tens A B)ᴴ = tens Aᴴ Bᴴ := by
  ext r c; simp [Matrix.conjTranspose_apply]

theorem trace_tens {n m : ℕ} (A : Mat n) (B : Mat m) :
    (tens A B).trace = A.trace * B.trace := by
  simp only [Matrix.trace, Matrix.diag_apply, tens_apply]
  rw [sum_idx_add, Finset.sum_mul_sum]
  apply Finset.sum_congr rfl; intro a _
  apply Finset.sum_congr rfl; intro b _
  simp only [fst_append, snd_append]

theorem ip_tens {n m : ℕ} (A A' : Mat n) (B B' : Mat m) :
    ip (tens A B) (tens A' B') = ip A A' * ip B B' := by
  simp only [ip, tens_conjTranspose, tens_mul, trace_tens]

theorem tens_list_sum_left {n m : ℕ} {α : Type} (l : List α) (f : α → Mat n) (g : α → Mat m) (X : Mat (n + m)) :
    (l.map (fun s => tens (f s) (g s))).sum * X = (l.map (fun s => tens (f s) (g s) * X)).sum := by
  induction l with
  | nil => simp
  | cons a l ih => simp [Matrix.add_mul, ih]

theorem tens_list_sum_right {n m : ℕ} {α : Type} (l : List α) (f : α → Mat n) (g : α → Mat m) (X : Mat (n + m)) :
    X * (l.map (fun s => tens (f s) (g s))).sum = (l.map (fun s => X * tens (f s) (g s))).sum := by
  induction l with
  | nil => simp
  | cons a l ih => simp [Matrix.mul_add, ih]

end C16
end PauLie
