/-
Helpers for property C19, part 23: families with a translation-invariant symmetry string `L L … L` (a13, a20:
`X…X`; a7: `X…X`, `Y…Y`, `Z…Z`).

 * the linear functionals `parZ x = ω(x, X…X)`, `parX x = ω(x, Z…Z)`, the predicate `isL l₁ l₂` ("every site
   carries the letter (l₁,l₂)"), with their behaviour under `++`, `add`, `drop`;
 * the peeling of `Proofs/C19RestPeel.lean` with a fixed tail cannot reach a target `r ++ LLL` (its two summands
   would commute); `exc`: for such a target `x ≠ L…L` the string `y = u_i u_last` (the letter `u` at the first site
   `i` of `x` that does not carry `L`, and at the last site; `u ≠ L`, `u` commutes with `x_i`) anticommutes with
   `x`, commutes with every uniform string, and neither `y` nor `x + y` ends in three equal letters - so `x` is
   the commutator of two targets that ARE reached (`exc_spec`).
Core Lean only.
-/
import PauLieVerif.Proofs.C19RestA15

namespace PauLie
namespace C19
open Closure Graph C01Star C03

/-- parity of the z bits: `ω(x, X…X)` -/
def parZ : V → Bool
  | _ :: b :: r => b != parZ r
  | _ => false

/-- parity of the x bits: `ω(x, Z…Z)` -/
def parX : V → Bool
  | a :: _ :: r => a != parX r
  | _ => false

/-- every site carries the letter `(l1, l2)` -/
def isL (l1 l2 : Bool) : V → Bool
  | a :: b :: r => (a == l1) && (b == l2) && isL l1 l2 r
  | [] => true
  | [_] => false

theorem parZ_append : ∀ (x y : V), x.length % 2 = 0 → parZ (x ++ y) = (parZ x != parZ y)
  | [], y, _ => by simp [parZ]
  | [_], _, h => by simp at h
  | a :: b :: r, y, h => by
    simp only [List.cons_append, parZ, parZ_append r y (by simp at h; omega)]
    cases b <;> cases parZ r <;> cases parZ y <;> rfl

theorem parX_append : ∀ (x y : V), x.length % 2 = 0 → parX (x ++ y) = (parX x != parX y)
  | [], y, _ => by simp [parX]
  | [_], _, h => by simp at h
  | a :: b :: r, y, h => by
    simp only [List.cons_append, parX, parX_append r y (by simp at h; omega)]
    cases a <;> cases parX r <;> cases parX y <;> rfl

theorem isL_append (l1 l2 : Bool) : ∀ (x y : V), x.length % 2 = 0 → isL l1 l2 (x ++ y) = (isL l1 l2 x && isL l1 l2 y)
  | [], y, _ => by simp [isL]
  | [_], _, h => by simp at h
  | a :: b :: r, y, h => by
    simp only [List.cons_append, isL, isL_append l1 l2 r y (by simp at h; omega), Bool.and_assoc]

theorem parZ_replicate : ∀ (m : Nat), parZ (List.replicate m false) = false
  | 0 => rfl
  | 1 => rfl
  | m + 2 => by simp [List.replicate_succ, parZ, parZ_replicate m]

theorem parX_replicate : ∀ (m : Nat), parX (List.replicate m false) = false
  | 0 => rfl
  | 1 => rfl
  | m + 2 => by simp [List.replicate_succ, parX, parX_replicate m]

theorem isL_zero_succ (l1 l2 : Bool) (h : (l1 || l2) = true) (m : Nat) : isL l1 l2 (List.replicate (m + 2) false) = false := by
  simp only [List.replicate_succ, isL]
  revert h; cases l1 <;> cases l2 <;> simp

theorem parZ_add : ∀ (x y : V), x.length = y.length → parZ (add x y) = (parZ x != parZ y)
  | [], [], _ => rfl
  | [], _ :: _, h => by simp at h
  | _ :: _, [], h => by simp at h
  | [a], [b], _ => by simp [add, parZ]
  | [_], _ :: _ :: _, h => by simp at h
  | _ :: _ :: _, [_], h => by simp at h
  | a :: b :: s, c :: d :: t, h => by
    simp only [add, parZ, parZ_add s t (by simpa using h)]
    cases b <;> cases d <;> cases parZ s <;> cases parZ t <;> rfl

theorem parX_add : ∀ (x y : V), x.length = y.length → parX (add x y) = (parX x != parX y)
  | [], [], _ => rfl
  | [], _ :: _, h => by simp at h
  | _ :: _, [], h => by simp at h
  | [a], [b], _ => by simp [add, parX]
  | [_], _ :: _ :: _, h => by simp at h
  | _ :: _ :: _, [_], h => by simp at h
  | a :: b :: s, c :: d :: t, h => by
    simp only [add, parX, parX_add s t (by simpa using h)]
    cases a <;> cases c <;> cases parX s <;> cases parX t <;> rfl

/-- `ω(x, L…L)` through the two parities -/
theorem omega_isL (l1 l2 : Bool) : ∀ (x z : V), x.length = z.length → isL l1 l2 z = true →
    omega x z = ((l2 && parX x) != (l1 && parZ x))
  | [], [], _, _ => by simp [omega, parX, parZ]
  | [], _ :: _, h, _ => by simp at h
  | _ :: _, [], h, _ => by simp at h
  | [_], [_], _, hz => by simp [isL] at hz
  | [_], _ :: _ :: _, h, _ => by simp at h
  | _ :: _ :: _, [_], h, _ => by simp at h
  | a :: b :: s, c :: d :: t, h, hz => by
    simp only [isL, Bool.and_eq_true, beq_iff_eq] at hz
    obtain ⟨⟨rfl, rfl⟩, hz⟩ := hz
    simp only [omega, parX, parZ, omega_isL c d s t (by simpa using h) hz]
    cases a <;> cases b <;> cases c <;> cases d <;> cases parX s <;> cases parZ s <;> rfl

theorem isZ_drop (x : V) (j : Nat) (h : isZ x = true) : isZ (x.drop j) = true := by
  simp only [isZ, List.all_eq_true] at *
  exact fun b hb => h b (List.mem_of_mem_drop hb)

theorem isL_drop (l1 l2 : Bool) : ∀ (j : Nat) (x : V), isL l1 l2 x = true → isL l1 l2 (x.drop (2 * j)) = true
  | 0, x, h => by simpa using h
  | j + 1, [], _ => by simp [isL]
  | j + 1, [_], h => by simp [isL] at h
  | j + 1, a :: b :: r, h => by
    simp only [isL, Bool.and_eq_true] at h
    rw [show 2 * (j + 1) = 2 * j + 1 + 1 by omega]
    simpa using isL_drop l1 l2 j r h.2

theorem drop_add : ∀ (j : Nat) (x y : V), (add x y).drop j = add (x.drop j) (y.drop j)
  | 0, _, _ => rfl
  | j + 1, [], y => by simp [add]
  | j + 1, _ :: _, [] => by
    simp only [add, List.drop_nil]
    cases List.drop (j + 1) (_ :: _) <;> rfl
  | j + 1, a :: s, b :: t => by simp [add, drop_add j s t]

/-! ### the exceptional targets -/

/-- the letter `u` for a site letter `(a, b) ≠ L`: `≠ I`, `≠ L`, commuting with `(a, b)` -/
def uOf (l1 l2 a b : Bool) : Bool × Bool :=
  if a || b then (a, b) else (if l1 && !l2 then (false, true) else (true, false))

theorem uOf_spec (l1 l2 a b : Bool) (hL : (l1 || l2) = true) (hne : ¬(a = l1 ∧ b = l2)) :
    ((uOf l1 l2 a b).1 || (uOf l1 l2 a b).2) = true ∧ ¬((uOf l1 l2 a b).1 = l1 ∧ (uOf l1 l2 a b).2 = l2) ∧
    (((uOf l1 l2 a b).1 && b) != ((uOf l1 l2 a b).2 && a)) = false := by
  revert hL hne; cases l1 <;> cases l2 <;> cases a <;> cases b <;> simp [uOf]

/-- `u` at the first site not carrying `L` and at the last site -/
def exc (l1 l2 : Bool) : V → V
  | a :: b :: t =>
    if a = l1 ∧ b = l2 then false :: false :: exc l1 l2 t
    else (uOf l1 l2 a b).1 :: (uOf l1 l2 a b).2 :: (zeroV (t.length - 2) ++ [(uOf l1 l2 a b).1, (uOf l1 l2 a b).2])
  | t => t

theorem exc_spec (l1 l2 : Bool) (hL : (l1 || l2) = true) : ∀ (x : V) (N : Nat), x.length = 2 * N → 4 ≤ N →
    x.drop (2 * (N - 3)) = [l1, l2, l1, l2, l1, l2] → isL l1 l2 x = false →
    (exc l1 l2 x).length = 2 * N ∧
    (∃ u1 u2, (u1 || u2) = true ∧ ¬(u1 = l1 ∧ u2 = l2) ∧ (exc l1 l2 x).drop (2 * (N - 3)) = [false, false, false, false, u1, u2]) ∧
    omega (exc l1 l2 x) x = true ∧ parZ (exc l1 l2 x) = false ∧ parX (exc l1 l2 x) = false
  | [], N, hx, hN, _, _ => by simp at hx; omega
  | [_], N, hx, _, _, _ => by simp at hx; omega
  | a :: b :: t, N, hx, hN, hd, hl => by
    have lt : t.length = 2 * (N - 1) := by simp at hx; omega
    by_cases hab : a = l1 ∧ b = l2
    · -- the first site carries L: recurse
      obtain ⟨rfl, rfl⟩ := hab
      have hlt : isL a b t = false := by simpa [isL] using hl
      have hd' : t.drop (2 * (N - 1 - 3)) = [a, b, a, b, a, b] := by
        rw [show 2 * (N - 3) = 2 * (N - 1 - 3) + 1 + 1 by omega] at hd
        simpa using hd
      have hN' : 4 ≤ N - 1 := by
        by_cases h4 : N = 4
        · subst h4
          simp at hd'
          rw [hd'] at hlt
          simp [isL] at hlt
        · omega
      obtain ⟨h1, ⟨u1, u2, hu, hne, h2⟩, h3, h4, h5⟩ := exc_spec a b hL t (N - 1) lt hN' hd' hlt
      simp only [exc, and_self, if_true]
      refine ⟨by simp [h1]; omega, ⟨u1, u2, hu, hne, ?_⟩, ?_, by simp [parZ, h4], by simp [parX, h5]⟩
      · rw [show 2 * (N - 3) = 2 * (N - 1 - 3) + 1 + 1 by omega]
        simpa using h2
      · simp [omega, h3]
    · -- the first site does not carry L
      obtain ⟨hu, hne, hc⟩ := uOf_spec l1 l2 a b hL hab
      simp only [exc, hab, if_false]
      rw [show t.length - 2 = 2 * N - 4 by omega]
      generalize (uOf l1 l2 a b).1 = u1 at *
      generalize (uOf l1 l2 a b).2 = u2 at *
      have hlast : t.drop (2 * N - 4) = [l1, l2] := by
        have := congrArg (List.drop 4) hd
        rw [List.drop_drop] at this
        have e : (a :: b :: t).drop (2 * (N - 3) + 4) = t.drop (2 * N - 4) := by
          rw [show 2 * (N - 3) + 4 = (2 * N - 4) + 1 + 1 by omega]; rfl
        rw [e] at this
        simpa using this
      obtain ⟨t0, ht0, rfl⟩ : ∃ t0 : V, t0.length = 2 * N - 4 ∧ t = t0 ++ [l1, l2] :=
        ⟨t.take (2 * N - 4), by simp [lt]; omega, by rw [← hlast, List.take_append_drop]⟩
      have hz : (zeroV (2 * N - 4)).length = 2 * N - 4 := by simp [zeroV]
      refine ⟨by simp [zeroV]; omega, ⟨u1, u2, hu, hne, ?_⟩, ?_, ?_, ?_⟩
      · rw [show 2 * (N - 3) = (2 * N - 8) + 1 + 1 by omega]
        simp only [List.drop_succ_cons]
        rw [List.drop_append_of_le_length (by rw [hz]; omega)]
        simp only [zeroV, List.drop_replicate]
        rw [show 2 * N - 4 - (2 * N - 8) = 4 by omega]
        rfl
      · simp only [omega]
        rw [omega_append _ _ _ _ (by rw [hz, ht0]) (by rw [hz]; omega), omega_zero_left]
        have : (((u1 && l2) != (u2 && l1))) = true := by
          revert hu hne hL; cases u1 <;> cases u2 <;> cases l1 <;> cases l2 <;> simp
        simp [omega, hc, this]
      · simp only [parZ]
        rw [parZ_append _ _ (by rw [hz]; omega), zeroV, parZ_replicate]
        simp [parZ]
      · simp only [parX]
        rw [parX_append _ _ (by rw [hz]; omega), zeroV, parX_replicate]
        simp [parX]

/-- the variant of `good_of_chk` with a separate target predicate (targets ending in `LLL` excluded) -/
theorem good_of_chk' {k w0 : Nat} {T : V → Bool} {Wend : List V} {N : Nat} {x : V} (hk : 1 ≤ k)
    (hW : ∀ g ∈ Wend, g.length = 2 * k) (hN : k + 1 ≤ N) (hx : x.length = 2 * N) {tr t0 tp : V → Bool}
    (h1 : ∀ b, T (x.take (2 * (N - k)) ++ b) = tr b) (h0 : ∀ b, T (zeroV (2 * (N - k)) ++ b) = t0 b)
    (hchk : peelChk k tr t0 tp Wend = true) (hT : tp (x.drop (2 * (N - k))) = true) : Good k w0 T Wend N x := by
  refine ⟨hx, N - k, x.take (2 * (N - k)), x.drop (2 * (N - k)), by omega, by omega, by simp [hx],
    by simp [hx]; omega, (List.take_append_drop _ _).symm, ?_⟩
  rw [show (fun b => T (x.take (2 * (N - k)) ++ b)) = tr from funext h1,
    show (fun b => T (zeroV (2 * (N - k)) ++ b)) = t0 from funext h0]
  exact clo_of_peelChk hk hW hchk (by simp [hx]; omega) hT

end C19
end PauLie
