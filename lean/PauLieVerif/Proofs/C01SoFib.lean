/-
Property C01, closed forms with FULL invariants: a commutator-closed set fibred over the pairs
`a < b < M`, `S = ⋃_p F p`, every fibre of `k ≥ 1` members, members of the fibres `p`, `q`
anticommuting exactly when the pairs share exactly one index (`SoFib`): this is `so(M) ⊗ C[Z]` with a
central group `Z` of order `k` (`k = 1`: the bilinears of a Majorana family; `k = 2^j`: the closure
of a type-A canonical star).  For `M = 3` and for every `M ≥ 5`

    invOfClosure S = invOfName [k · so(M)]

(one connected block of `k · M(M−1)/2` strings; `k` of them have the anticommutation pattern of a given
one, `k · (1 + (M−2)(M−3)/2)` commute with it).  Uses `invOfClosure_of_blocks`.
-/
import PauLieVerif.Proofs.C19SoInv

namespace PauLie
namespace C19
open Closure Classify C03

/-- the pairs share exactly one index -/
def sh (p q : Nat × Nat) : Bool :=
  (decide (p.1 = q.1 ∨ p.1 = q.2)) != (decide (p.2 = q.1 ∨ p.2 = q.2))

structure SoFib (M k : Nat) (F : Nat × Nat → List V) : Prop where
  kpos : 0 < k
  len : ∀ p ∈ pairs M, (F p).length = k
  om : ∀ p ∈ pairs M, ∀ q ∈ pairs M, ∀ x ∈ F p, ∀ y ∈ F q, omega x y = sh p q

/-- the fibred set -/
def fibS (M : Nat) (F : Nat × Nat → List V) : List V := (pairs M).flatMap F

theorem length_filter_flatMap {α : Type} (F : α → List V) (P : V → Bool) (P0 : α → Bool) (k : Nat) :
    ∀ (Lp : List α), (∀ p ∈ Lp, (F p).length = k) → (∀ p ∈ Lp, ∀ x ∈ F p, P x = P0 p) →
    ((Lp.flatMap F).filter P).length = (Lp.filter P0).length * k
  | [], _, _ => by simp
  | p :: t, hl, hP => by
    have ih := length_filter_flatMap F P P0 k t (fun q hq => hl q (List.mem_cons_of_mem _ hq))
      (fun q hq => hP q (List.mem_cons_of_mem _ hq))
    rw [List.flatMap_cons, List.filter_append, List.length_append, ih]
    by_cases e : P0 p = true
    · have : (F p).filter P = F p := List.filter_eq_self.2 (fun x hx => by rw [hP p (List.mem_cons_self ..) x hx, e])
      rw [this, hl p (List.mem_cons_self ..), List.filter_cons_of_pos e, List.length_cons, Nat.add_mul]
      omega
    · have : (F p).filter P = [] := List.filter_eq_nil_iff.2 (fun x hx => by
        rw [hP p (List.mem_cons_self ..) x hx]; exact e)
      rw [this, List.filter_cons_of_neg e]
      simp

theorem filter_unique' {α : Type} {l : List α} {p : α → Bool} {x : α} (hnd : l.Nodup) (hx : x ∈ l) (hp : p x = true)
    (hu : ∀ y ∈ l, p y = true → y = x) : (l.filter p).length = 1 := by
  have : (l.filter p).Perm [x] := by
    rw [List.perm_ext_iff_of_nodup (hnd.filter _) (by simp)]
    intro y
    rw [List.mem_filter, List.mem_singleton]
    exact ⟨fun h => hu y h.1 h.2, fun h => h ▸ ⟨hx, hp⟩⟩
  rw [this.length_eq]; rfl

/-! ### combinatorics of pairs -/

theorem mem_pairs_mk {M a b : Nat} (hab : a ≠ b) (ha : a < M) (hb : b < M) :
    ∃ q ∈ pairs M, (q = (a, b) ∨ q = (b, a)) := by
  rcases Nat.lt_or_gt_of_ne hab with h | h
  · exact ⟨(a, b), mem_pairs.2 ⟨h, hb⟩, Or.inl rfl⟩
  · exact ⟨(b, a), mem_pairs.2 ⟨h, ha⟩, Or.inr rfl⟩

theorem pair_partner {M : Nat} (hM : 3 ≤ M) : ∀ p ∈ pairs M, ∃ q ∈ pairs M, sh p q = true := by
  intro p hp
  obtain ⟨a, b⟩ := p
  obtain ⟨hab, hb⟩ := mem_pairs.1 hp
  simp only at hab hb
  have : ∃ c, c < M ∧ c ≠ a ∧ c ≠ b := by
    by_cases h0 : a ≠ 0 ∧ b ≠ 0
    · exact ⟨0, by omega, by omega, by omega⟩
    · by_cases h1 : a ≠ 1 ∧ b ≠ 1
      · exact ⟨1, by omega, by omega, by omega⟩
      · exact ⟨2, by omega, by omega, by omega⟩
  obtain ⟨c, hc, hca, hcb⟩ := this
  obtain ⟨q, hq, e | e⟩ := mem_pairs_mk (M := M) (a := a) (b := c) (Ne.symm hca) (by omega) hc
  · subst e
    refine ⟨_, hq, ?_⟩
    have h1 : b ≠ a := by omega
    simp [sh, h1, Ne.symm hcb]
  · subst e
    refine ⟨_, hq, ?_⟩
    have h1 : b ≠ a := by omega
    simp [sh, h1, Ne.symm hcb]

/-- the pairs with the pattern of (0,1): only (0,1) itself, for M = 3 or M ≥ 5 -/
theorem pattern_unique {M : Nat} (hM : M = 3 ∨ 5 ≤ M) :
    ((pairs M).filter (fun p => (pairs M).all (fun q => sh p q == sh (0, 1) q))).length = 1 := by
  rcases hM with rfl | hM
  · decide
  · have h01 : ((0, 1) : Nat × Nat) ∈ pairs M := mem_pairs.2 ⟨by simp, by simp; omega⟩
    apply filter_unique' (nodup_pairs M) h01
    · simp
    · intro p hp hP
      rw [List.all_eq_true] at hP
      obtain ⟨c, d⟩ := p
      obtain ⟨hcd, hd⟩ := mem_pairs.1 hp
      simp only at hcd hd
      have t1 := hP _ h01
      simp only [sh, beq_iff_eq] at t1
      by_cases hc0 : c = 0
      · subst hc0
        by_cases hd1 : d = 1
        · subst hd1; rfl
        · exfalso
          have e1 : d ≠ 0 := by omega
          simp [hd1, e1] at t1
      · by_cases hc1 : c = 1
        · subst hc1
          exfalso
          have e1 : d ≠ 0 := by omega
          have e2 : d ≠ 1 := by omega
          simp [e1, e2] at t1
        · exfalso
          have : ∃ f, f < M ∧ 2 ≤ f ∧ f ≠ c ∧ f ≠ d := by
            by_cases h2 : c ≠ 2 ∧ d ≠ 2
            · exact ⟨2, by omega, by omega, by omega, by omega⟩
            · by_cases h3 : c ≠ 3 ∧ d ≠ 3
              · exact ⟨3, by omega, by omega, by omega, by omega⟩
              · exact ⟨4, by omega, by omega, by omega, by omega⟩
          obtain ⟨f, hf, hf2, hfc, hfd⟩ := this
          have t2 := hP (0, f) (mem_pairs.2 ⟨by simp; omega, hf⟩)
          have e1 : c ≠ f := Ne.symm hfc
          have e2 : d ≠ f := Ne.symm hfd
          have e3 : d ≠ 0 := by omega
          have e4 : (1 : Nat) ≠ f := by omega
          simp [sh, hc0, e1, e2, e3, e4] at t2

theorem count_commuting {M : Nat} (hM : 2 ≤ M) :
    ((pairs M).filter (fun q => !(sh (0, 1) q))).length = 1 + (M - 2) * (M - 3) / 2 := by
  have : (pairs M).filter (fun q => !(sh (0, 1) q)) = (pairs M).filter qComm := by
    apply List.filter_congr
    intro q hq
    obtain ⟨c, d⟩ := q
    obtain ⟨hcd, _⟩ := mem_pairs.1 hq
    simp only at hcd
    simp only [sh, qComm]
    by_cases c0 : 0 = c <;> by_cases c1 : 1 = c <;> by_cases d0 : 0 = d <;> by_cases d1 : 1 = d <;>
      first | omega | (simp [c0, c1, d0, d1] <;> omega)
  obtain ⟨k, rfl⟩ : ∃ k, M = k + 2 := ⟨M - 2, by omega⟩
  rw [this, count_qComm, length_pairs]
  simp only [Nat.add_sub_cancel]
  rw [show k + 2 - 3 = k - 1 by omega]

section Fib
variable {n M k : Nat} {F : Nat × Nat → List V}

theorem mem_fibS {x : V} : x ∈ fibS M F ↔ ∃ p ∈ pairs M, x ∈ F p := by
  simp [fibS, List.mem_flatMap]

theorem fib_nonempty (h : SoFib M k F) {p : Nat × Nat} (hp : p ∈ pairs M) : ∃ x, x ∈ F p := by
  have := h.len p hp
  cases hF : F p with
  | nil => rw [hF, List.length_nil] at this; have := h.kpos; omega
  | cons x t => exact ⟨x, List.mem_cons_self ..⟩

theorem fib_all (h : SoFib M k F) (g : V → Bool) (G : Nat × Nat → Bool)
    (hg : ∀ q ∈ pairs M, ∀ z ∈ F q, g z = G q) : (fibS M F).all g = (pairs M).all G := by
  rw [Bool.eq_iff_iff, List.all_eq_true, List.all_eq_true]
  constructor
  · intro H q hq
    obtain ⟨z, hz⟩ := fib_nonempty h hq
    rw [← hg q hq z hz]
    exact H z (mem_fibS.2 ⟨q, hq, hz⟩)
  · intro H z hz
    obtain ⟨q, hq, hzq⟩ := mem_fibS.1 hz
    rw [hg q hq z hzq]
    exact H q hq

theorem fib_partner (h : SoFib M k F) (hM : 3 ≤ M) : ∀ x ∈ fibS M F, ∃ y ∈ fibS M F, omega x y = true := by
  intro x hx
  obtain ⟨p, hp, hxp⟩ := mem_fibS.1 hx
  obtain ⟨q, hq, hs⟩ := pair_partner hM p hp
  obtain ⟨y, hy⟩ := fib_nonempty h hq
  exact ⟨y, mem_fibS.2 ⟨q, hq, hy⟩, by rw [h.om p hp q hq x hxp y hy, hs]⟩

theorem fib_reach (h : SoFib M k F) (hM : 3 ≤ M) {x0 : V} (hx0 : x0 ∈ F (0, 1)) :
    ∀ x ∈ fibS M F, Reach (fibS M F) x0 x := by
  have h01 : ((0, 1) : Nat × Nat) ∈ pairs M := mem_pairs.2 ⟨by simp, by simp; omega⟩
  have m0 : x0 ∈ fibS M F := mem_fibS.2 ⟨_, h01, hx0⟩
  have r0 : Reach (fibS M F) x0 x0 := Reach.refl m0
  -- one step between fibres over pairs sharing one index
  have step : ∀ {p q : Nat × Nat} {y z : V}, p ∈ pairs M → q ∈ pairs M → y ∈ F p → z ∈ F q → sh p q = true →
      Reach (fibS M F) x0 y → Reach (fibS M F) x0 z := by
    intro p q y z hp hq hy hz hs hr
    exact Reach.step hr (mem_fibS.2 ⟨q, hq, hz⟩) (by rw [h.om p hp q hq y hy z hz, hs])
  intro x hx
  obtain ⟨p, hp, hxp⟩ := mem_fibS.1 hx
  obtain ⟨a, b⟩ := p
  obtain ⟨hab, hb⟩ := mem_pairs.1 hp
  simp only at hab hb
  by_cases ha0 : a = 0
  · subst ha0
    by_cases hb1 : b = 1
    · subst hb1
      -- through the fibre over (0,2)
      have h02 : ((0, 2) : Nat × Nat) ∈ pairs M := mem_pairs.2 ⟨by simp, by simp; omega⟩
      obtain ⟨y, hy⟩ := fib_nonempty h h02
      exact step h02 hp hy hxp (by decide) (step h01 h02 hx0 hy (by decide) r0)
    · exact step h01 hp hx0 hxp (by
        have e1 : b ≠ 0 := by omega
        simp [sh, Ne.symm hb1, Ne.symm e1]) r0
  · by_cases ha1 : a = 1
    · subst ha1
      exact step h01 hp hx0 hxp (by
        have e1 : b ≠ 1 := by omega
        have e2 : (0 : Nat) ≠ b := by omega
        simp [sh, e2]) r0
    · have h0a : ((0, a) : Nat × Nat) ∈ pairs M := mem_pairs.2 ⟨by simp; omega, by simp; omega⟩
      obtain ⟨y, hy⟩ := fib_nonempty h h0a
      refine step h0a hp hy hxp ?_ (step h01 h0a hx0 hy ?_ r0)
      · have e1 : (0 : Nat) ≠ a := by omega
        have e2 : (0 : Nat) ≠ b := by omega
        have e3 : a ≠ b := by omega
        simp [sh, e1, e2]
      · have e1 : (1 : Nat) ≠ a := by omega
        simp [sh, e1]

theorem length_fibS (h : SoFib M k F) : (fibS M F).length = M * (M - 1) / 2 * k := by
  have := length_filter_flatMap F (fun _ => true) (fun _ => true) k (pairs M) h.len (fun _ _ _ _ => rfl)
  rw [List.filter_eq_self.2 (fun _ _ => rfl), List.filter_eq_self.2 (fun _ _ => rfl)] at this
  rw [fibS, this, length_pairs]

/-- **the full invariant of a fibred so(M) set** -/
theorem invOfClosure_soFib (h : SoFib M k F) (hS : ClosedSet n (fibS M F)) (hnd : (fibS M F).Nodup)
    (hM : M = 3 ∨ 5 ≤ M) : invOfClosure (fibS M F) = invOfName [⟨.SO, M, k⟩] := by
  have hM3 : 3 ≤ M := by omega
  have hp := fib_partner h hM3
  have h01 : ((0, 1) : Nat × Nat) ∈ pairs M := mem_pairs.2 ⟨by simp, by simp; omega⟩
  -- the head of the list
  obtain ⟨t, ht⟩ := pairs_head M (by omega)
  obtain ⟨x0, hx0⟩ := fib_nonempty h h01
  obtain ⟨x1, t1, hF⟩ : ∃ x1 t1, F (0, 1) = x1 :: t1 := by
    cases hF : F (0, 1) with
    | nil => rw [hF] at hx0; simp at hx0
    | cons a b => exact ⟨a, b, rfl⟩
  have hx1 : x1 ∈ F (0, 1) := by rw [hF]; exact List.mem_cons_self ..
  have hhead : fibS M F = x1 :: (t1 ++ t.flatMap F) := by
    rw [fibS, ht, List.flatMap_cons, hF]; rfl
  have hcomp : IsComp (fibS M F) (fibS M F) :=
    ⟨x1, _, hhead, fib_reach h hM3 hx1, fun _ _ z hz _ => hz⟩
  -- the raw data
  have hraw : raw (fibS M F) x1 = (M * (M - 1) / 2 * k, 1 * k, (1 + (M - 2) * (M - 3) / 2) * k) := by
    unfold raw
    refine Prod.ext (length_fibS h) (Prod.ext ?_ ?_)
    · show ((fibS M F).filter _).length = 1 * k
      rw [← pattern_unique hM]
      apply length_filter_flatMap F _ _ k (pairs M) h.len
      intro p hp' x hx
      apply fib_all h
      intro q hq z hz
      rw [h.om p hp' q hq x hx z hz, h.om _ h01 q hq x1 hx1 z hz]
    · show ((fibS M F).filter _).length = _
      rw [← count_commuting (by omega : 2 ≤ M)]
      apply length_filter_flatMap F _ _ k (pairs M) h.len
      intro p hp' x hx
      rw [h.om _ h01 p hp' x1 hx1 x hx]
  have hinv1 : inv1 (fibS M F) = (M * (M - 1) / 2, labelOfBlock (M * (M - 1) / 2) (1 + (M - 2) * (M - 3) / 2), k) := by
    rw [hhead, inv1_eq_raw, ← hhead, hraw]
    simp only [ofRaw, Nat.one_mul, Nat.mul_div_cancel _ h.kpos]
  rw [invOfClosure_of_blocks hS hnd (bs := [fibS M F])
    (by intro c hc; simp only [List.mem_singleton] at hc; subst hc; exact ⟨hcomp, hnd⟩)
    (by rw [restOf_eq_self hp]; simp), centreCount_zero hp]
  simp only [List.map_cons, List.map_nil, hinv1]
  rcases hM with rfl | hM
  · have : labelOfBlock (3 * (3 - 1) / 2) (1 + (3 - 2) * (3 - 3) / 2) = 0 := by decide
    have e : invOfName [⟨.SO, 3, k⟩] = ⟨0, mergeSimples [(3, 0, k)]⟩ := by
      simp [invOfName, simpleDim, dimSO, labelOfName]
    rw [this, e]
  · rw [labelOfBlock_so M hM]
    obtain ⟨j, rfl⟩ : ∃ j, M = j + 5 := ⟨M - 5, by omega⟩
    rfl

end Fib

end C19
end PauLie
