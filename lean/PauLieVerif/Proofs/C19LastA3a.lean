/-
Helpers for property C19, part 32a: family a3 (`XX`,`YZ`) - the periodic strings and the kernel-evaluated peeling checks,
phase 0.
-/
import PauLieVerif.Proofs.C19LastPat

namespace PauLie
namespace C19
open Closure Graph C01Star C03

/-- `X X X X …` -/
def a3A : Lt := fun _ => (true, false)
/-- `Y Z Y Z …` -/
def a3B : Lt := fun i => if i % 2 = 0 then (true, true) else (false, true)
/-- `I Z X Y I Z X Y …` -/
def a3W : Lt := fun i => if i % 4 = 0 then (false, false) else if i % 4 = 1 then (false, true) else if i % 4 = 2 then (true, false)
  else (true, true)

theorem chkA3_0 : chkP a3A a3B a3W 0 := by
  unfold chkP; decide +kernel

end C19
end PauLie
