/-
Helper lemmas for the completeness half of property C16, part 1: pure matrix algebra.

`Lg = A ⊗ 1 + 1 ⊗ A` for a Hermitian involution `A` (a Pauli-string matrix).  If `X`
commutes with `Lg` then `tr((Lg Y − Y Lg)ᴴ X) = 0` for every `Y` (`ip_comm_zero`); three
choices of `Y` give the three relations on the Pauli coefficients `tr((P ⊗ Q)ᴴ X)` of `X`:

  * `A` anticommutes with `P`, commutes with `Q`   ⇒ coefficient `0`   (`support_left`),
  * `A` commutes with `P`, anticommutes with `Q`   ⇒ coefficient `0`   (`support_right`),
  * `A` anticommutes with both ⇒ coefficient of `P ⊗ Q` = − coefficient of `AP ⊗ AQ`
    (`step_rel`).

Also: a matrix with vanishing trace pairing against every Pauli-string matrix is zero
(`eq_zero_of_pauli_orth`, from the completeness relation `Decomp.pauli_complete`), and
`proj Qs X` lies in the span of `Qs`.
-/
import PauLieVerif.Proofs.C16Tens
import PauLieVerif.Proofs.C13Recon
import Mathlib.LinearAlgebra.Span.Basic

namespace PauLie
namespace C16

open Matrix Complex C12 C04

/-- `A ⊗ 1 + 1 ⊗ A` -/
noncomputable def lift2 {n : ℕ} (A : Mat n) : Mat (n + n) := tens A 1 + tens 1 A

theorem lift2_conjTranspose {n : ℕ} {A : Mat n} (hA : Aᴴ = A) : (lift2 A)ᴴ = lift2 A := by
  unfold lift2
  rw [Matrix.conjTranspose_add, tens_conjTranspose, tens_conjTranspose, hA,
    Matrix.conjTranspose_one]

/-- the commutator with a Hermitian `L` is (anti-)self-adjoint for the trace pairing: if `X`
commutes with `L`, every commutator `[L, Y]` is trace-orthogonal to `X` -/
theorem ip_comm_zero {ι : Type} [Fintype ι] [DecidableEq ι] {L X : Matrix ι ι ℂ} (hL : Lᴴ = L)
    (hX : X * L = L * X) (Y : Matrix ι ι ℂ) : ip (L * Y - Y * L) X = 0 := by
  unfold ip
  rw [Matrix.conjTranspose_sub, Matrix.conjTranspose_mul, Matrix.conjTranspose_mul, hL,
    Matrix.sub_mul, Matrix.trace_sub, Matrix.mul_assoc, Matrix.mul_assoc, ← hX,
    ← Matrix.mul_assoc Yᴴ X L, Matrix.trace_mul_comm (Yᴴ * X) L, sub_self]

theorem ip_smul_left {ι : Type} [Fintype ι] (c : ℂ) (A B : Matrix ι ι ℂ) :
    ip (c • A) B = star c * ip A B := by
  simp [ip, Matrix.conjTranspose_smul, Matrix.trace_smul]

theorem ip_add_left' {ι : Type} [Fintype ι] (A B C : Matrix ι ι ℂ) :
    ip (A + B) C = ip A C + ip B C := by
  simp [ip, Matrix.conjTranspose_add, Matrix.add_mul, Matrix.trace_add]

theorem ip_neg_left {ι : Type} [Fintype ι] (A B : Matrix ι ι ℂ) : ip (-A) B = -ip A B := by
  simp [ip, Matrix.conjTranspose_neg, Matrix.trace_neg]

section rel
variable {n : ℕ} {A P Q : Mat n} {X : Mat (n + n)}

theorem two_ip_eq_zero {ι : Type} [Fintype ι] {T X : Matrix ι ι ℂ} (h : ip (T + T) X = 0) :
    ip T X = 0 := by
  rw [ip_add_left'] at h
  have h2 : (2 : ℂ) * ip T X = 0 := by rw [two_mul]; exact h
  exact (mul_eq_zero.mp h2).resolve_left two_ne_zero

/-- `A` anticommutes with `P` and commutes with `Q`: the coefficient of `P ⊗ Q` vanishes -/
theorem support_left (hAA : A * A = 1) (hAH : Aᴴ = A) (hX : X * lift2 A = lift2 A * X)
    (hP : A * P = -(P * A)) (hQ : A * Q = Q * A) : ip (tens P Q) X = 0 := by
  have h := ip_comm_zero (lift2_conjTranspose hAH) hX (tens (A * P) Q)
  have e : lift2 A * tens (A * P) Q - tens (A * P) Q * lift2 A = tens P Q + tens P Q := by
    unfold lift2
    rw [Matrix.add_mul, Matrix.mul_add, tens_mul, tens_mul, tens_mul, tens_mul]
    simp only [Matrix.one_mul, Matrix.mul_one]
    have e1 : A * (A * P) = P := by rw [← Matrix.mul_assoc, hAA, Matrix.one_mul]
    have e2 : A * P * A = -P := by
      rw [hP, Matrix.neg_mul, Matrix.mul_assoc, hAA, Matrix.mul_one]
    rw [e1, e2, hQ]
    have e3 : tens (-P) Q = -tens P Q := by
      have := tens_smul_left (-1 : ℂ) P Q
      simpa using this
    rw [e3]; abel
  rw [e] at h
  exact two_ip_eq_zero h

/-- `A` commutes with `P` and anticommutes with `Q`: the coefficient of `P ⊗ Q` vanishes -/
theorem support_right (hAA : A * A = 1) (hAH : Aᴴ = A) (hX : X * lift2 A = lift2 A * X)
    (hP : A * P = P * A) (hQ : A * Q = -(Q * A)) : ip (tens P Q) X = 0 := by
  have h := ip_comm_zero (lift2_conjTranspose hAH) hX (tens P (A * Q))
  have e : lift2 A * tens P (A * Q) - tens P (A * Q) * lift2 A = tens P Q + tens P Q := by
    unfold lift2
    rw [Matrix.add_mul, Matrix.mul_add, tens_mul, tens_mul, tens_mul, tens_mul]
    simp only [Matrix.one_mul, Matrix.mul_one]
    have e1 : A * (A * Q) = Q := by rw [← Matrix.mul_assoc, hAA, Matrix.one_mul]
    have e2 : A * Q * A = -Q := by
      rw [hQ, Matrix.neg_mul, Matrix.mul_assoc, hAA, Matrix.mul_one]
    rw [e1, e2, hP]
    have e3 : tens P (-Q) = -tens P Q := by
      have := tens_smul_right (-1 : ℂ) P Q
      simpa using this
    rw [e3]; abel
  rw [e] at h
  exact two_ip_eq_zero h

/-- `A` anticommutes with both: the coefficients of `P ⊗ Q` and of `AP ⊗ AQ` are opposite -/
theorem step_rel (hAA : A * A = 1) (hAH : Aᴴ = A) (hX : X * lift2 A = lift2 A * X)
    (hP : A * P = -(P * A)) (hQ : A * Q = -(Q * A)) :
    ip (tens P Q) X + ip (tens (A * P) (A * Q)) X = 0 := by
  have h := ip_comm_zero (lift2_conjTranspose hAH) hX (tens (A * P) Q)
  have e : lift2 A * tens (A * P) Q - tens (A * P) Q * lift2 A
      = (tens P Q + tens (A * P) (A * Q)) + (tens P Q + tens (A * P) (A * Q)) := by
    unfold lift2
    rw [Matrix.add_mul, Matrix.mul_add, tens_mul, tens_mul, tens_mul, tens_mul]
    simp only [Matrix.one_mul, Matrix.mul_one]
    have e1 : A * (A * P) = P := by rw [← Matrix.mul_assoc, hAA, Matrix.one_mul]
    have e2 : A * P * A = -P := by
      rw [hP, Matrix.neg_mul, Matrix.mul_assoc, hAA, Matrix.mul_one]
    have e4 : Q * A = -(A * Q) := by rw [hQ, neg_neg]
    rw [e1, e2, e4]
    have e3 : tens (-P) Q = -tens P Q := by
      have := tens_smul_left (-1 : ℂ) P Q
      simpa using this
    have e5 : tens (A * P) (-(A * Q)) = -tens (A * P) (A * Q) := by
      have := tens_smul_right (-1 : ℂ) (A * P) (A * Q)
      simpa using this
    rw [e3, e5]; abel
  rw [e] at h
  have := two_ip_eq_zero h
  rwa [ip_add_left'] at this

end rel

/-- **the Pauli-string matrices span**: a matrix whose trace pairing with every `M P`
vanishes is zero -/
theorem eq_zero_of_pauli_orth {N : ℕ} (X : Mat N) (h : ∀ P : Fin N → Letter, ip (M P) X = 0) :
    X = 0 := by
  rw [← Decomp.pauli_complete X]
  apply Finset.sum_eq_zero
  intro P _
  have := h P
  rw [ip, M_conjTranspose] at this
  rw [this]; simp

/-- the projection is a linear combination of the family -/
theorem proj_mem_span {ι : Type} [Fintype ι] (Qs : List (Matrix ι ι ℂ)) (X : Matrix ι ι ℂ) :
    proj Qs X ∈ Submodule.span ℂ {Q | Q ∈ Qs} := by
  induction Qs with
  | nil => simp
  | cons Q Qs ih =>
    rw [proj_cons]
    apply Submodule.add_mem
    · exact Submodule.smul_mem _ _ (Submodule.subset_span (List.mem_cons_self ..))
    · exact Submodule.span_mono (fun B hB => List.mem_cons_of_mem _ hB) ih

end C16
end PauLie
