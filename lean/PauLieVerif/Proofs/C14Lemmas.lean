/-
Helper lemmas for property C14 (commutants, anticommutation graph, connected
components, commutator graph, pair counts) of the executable model
`PauLie.Graph` (Model/Graph.lean).  Core Lean only.
-/
import PauLieVerif.Model.Graph
import PauLieVerif.Proofs.C18Lemmas
import PauLieVerif.Properties.C18

namespace PauLie
namespace C14

open PS Graph

/-! ## 0. Decidability of statements about `Except` values (for `decide` examples) -/

instance decEqExcept {α : Type} [DecidableEq α] : DecidableEq (Except Err α) := fun a b =>
  match a, b with
  | .ok x, .ok y => if h : x = y then isTrue (by rw [h]) else isFalse (fun e => by cases e; exact h rfl)
  | .error x, .error y =>
    if h : x = y then isTrue (by rw [h]) else isFalse (fun e => by cases e; exact h rfl)
  | .ok _, .error _ => isFalse (fun e => by cases e)
  | .error _, .ok _ => isFalse (fun e => by cases e)

/-! ## 1. Spec-level predicates -/

/-- `p` and `q` anticommute (the model's `commutes_with` answers `False`). -/
def anti (p q : PS) : Prop := PS.commutesWith p q = .ok false

instance (p q : PS) : Decidable (anti p q) := by unfold anti; exact inferInstance

/-- a collection: all members synchronised and of the same length `n` -/
def Uniform (n : Nat) (G : List PS) : Prop := ∀ g ∈ G, g.WF ∧ g.len = n

instance (n : Nat) (G : List PS) : Decidable (Uniform n G) := by
  unfold Uniform; exact inferInstance

/-! ## 2. Letter-level algebra -/

/-- two letters anticommute -/
def lanti (a b : Letter) : Bool := (a.code.1 && b.code.2) != (b.code.1 && a.code.2)

/-- product letter (phase dropped): xor of the code bits -/
def lmul (a b : Letter) : Letter := Letter.ofCode (a.code.1 != b.code.1) (a.code.2 != b.code.2)

/-- parity of the number of anticommuting sites -/
def wanti : List Letter → List Letter → Bool
  | a :: v, b :: w => lanti a b != wanti v w
  | _, _ => false

def wmul (v w : List Letter) : List Letter := List.zipWith lmul v w

theorem lanti_comm (a b : Letter) : lanti a b = lanti b a := by cases a <;> cases b <;> rfl
theorem lanti_lmul (a b : Letter) : lanti a (lmul a b) = lanti a b := by cases a <;> cases b <;> rfl
theorem lmul_lmul (a b : Letter) : lmul a (lmul a b) = b := by cases a <;> cases b <;> rfl
theorem code_lmul (a b : Letter) :
    (lmul a b).code = ((a.code.1 != b.code.1), (a.code.2 != b.code.2)) := by
  cases a <;> cases b <;> rfl

theorem wanti_comm (v w : List Letter) : wanti v w = wanti w v := by
  induction v generalizing w with
  | nil => cases w <;> rfl
  | cons a v ih =>
    cases w with
    | nil => rfl
    | cons b w => simp [wanti, ih w, lanti_comm a b]

theorem wmul_length (v w : List Letter) (h : v.length = w.length) : (wmul v w).length = v.length := by
  simp [wmul, h]

theorem wanti_wmul (v w : List Letter) (h : v.length = w.length) :
    wanti v (wmul v w) = wanti v w := by
  induction v generalizing w with
  | nil => cases w <;> rfl
  | cons a v ih =>
    cases w with
    | nil => simp at h
    | cons b w =>
      have := ih w (by simpa using h)
      simp only [wmul] at this
      simp [wanti, wmul, this, lanti_lmul]

theorem wmul_wmul (v w : List Letter) (h : v.length = w.length) : wmul v (wmul v w) = w := by
  induction v generalizing w with
  | nil => cases w with
    | nil => rfl
    | cons _ _ => simp at h
  | cons a v ih =>
    cases w with
    | nil => simp at h
    | cons b w =>
      have := ih w (by simpa using h)
      simp only [wmul] at this
      simp [wmul, this, lmul_lmul]

theorem wanti_nil_left (w : List Letter) : wanti [] w = false := by cases w <;> rfl

/-! ## 3. The model's `commutesWith` / `multiply` / `adjointMap` on synchronised strings -/

theorem parity_step (A B : Nat) (x y r : Bool) (h : (A % 2 == B % 2) = !r) :
    ((A + (if x then 1 else 0)) % 2 == (B + (if y then 1 else 0)) % 2) = !((x != y) != r) := by
  cases x <;> cases y <;> cases r <;> simp at h ⊢ <;> omega

theorem parity_aux (v w : List Letter) :
    ((List.zipWith (fun x y => x && y) (v.map (fun l => l.code.1)) (w.map (fun l => l.code.2))).count true % 2
      == (List.zipWith (fun x y => x && y) (w.map (fun l => l.code.1)) (v.map (fun l => l.code.2))).count true % 2)
      = !wanti v w := by
  induction v generalizing w with
  | nil => cases w <;> simp [wanti]
  | cons a v ih =>
    cases w with
    | nil => simp [wanti]
    | cons b w =>
      simp only [List.map_cons, List.zipWith_cons_cons, List.count_cons, wanti, lanti]
      have := parity_step _ _ (a.code.1 && b.code.2) (b.code.1 && a.code.2) _ (ih w)
      simpa using this

theorem commutes_ofLetters {v w : List Letter} (h : v.length = w.length) :
    PS.commutesWith (PS.ofLetters v) (PS.ofLetters w) = .ok (!wanti v w) := by
  simp only [PS.commutesWith, PS.ofLetters, PS.ofBits, PS.len, PS.countAnd, C18.evens_encode,
    C18.odds_encode, C18.encode_length, List.length_map, h, bind, Except.bind]
  simp only [ne_eq, not_true_eq_false, ↓reduceIte, pure, Except.pure]
  rw [parity_aux]

theorem xor_encode (w v : List Letter) :
    List.zipWith (fun x y => x != y) (encode w) (encode v) = encode (wmul w v) := by
  induction w generalizing v with
  | nil => simp [encode, wmul]
  | cons a w ih =>
    cases v with
    | nil => simp [encode, wmul]
    | cons b v =>
      have := ih v
      simp only [wmul] at this
      simp [encode, wmul, this, code_lmul]

theorem multiply_ofLetters {v w : List Letter} (h : v.length = w.length) :
    PS.multiply (PS.ofLetters v) (PS.ofLetters w) = .ok (PS.ofLetters (wmul v w)) := by
  simp only [PS.multiply, PS.ofLetters, PS.ofBits, PS.xorBits, C18.encode_length, h, bind,
    Except.bind, xor_encode]
  simp [pure, Except.pure]

theorem adjoint_ofLetters {v w : List Letter} (h : v.length = w.length) :
    PS.adjointMap (PS.ofLetters v) (PS.ofLetters w)
      = .ok (if wanti v w then some (PS.ofLetters (wmul v w)) else none) := by
  unfold PS.adjointMap
  rw [commutes_ofLetters h]
  cases hc : wanti v w
  · simp [bind, Except.bind, pure, Except.pure]
  · simp [bind, Except.bind, pure, Except.pure, PS.ofLetters, PS.ofBits, PS.xorBits, h, xor_encode]

/-! ## 4. Synchronised strings of equal length -/

theorem exists_letters {p : PS} (h : p.WF) : ∃ w, p = PS.ofLetters w ∧ w.length = p.len :=
  ⟨p.letters, C18.eq_ofLetters_of_WF p h, by simp [PS.letters, PS.len, C18.decode_length]⟩

theorem wf_ofLetters (w : List Letter) : (PS.ofLetters w).WF := C18.wf_ofLetters' w

theorem len_ofLetters (w : List Letter) : (PS.ofLetters w).len = w.length := C18.len_ofLetters w

/-- equality of the `bits` view decides equality of synchronised strings -/
theorem eq_of_bits_eq {p q : PS} (hp : p.WF) (hq : q.WF) (h : p.bits = q.bits) : p = q := by
  rw [C18.eq_ofLetters_of_WF p hp, C18.eq_ofLetters_of_WF q hq]
  simp only [PS.letters, h]

theorem beq_iff_bits (p q : PS) : p.beq q = true ↔ p.bits = q.bits := by
  simp [PS.beq]

theorem beq_iff_eq {p q : PS} (hp : p.WF) (hq : q.WF) : p.beq q = true ↔ p = q :=
  ⟨fun h => eq_of_bits_eq hp hq ((beq_iff_bits p q).mp h), fun h => by subst h; simp [PS.beq]⟩

/-- `commutes_with` never raises on synchronised strings of equal length -/
theorem commutesWith_ok {p q : PS} (hp : p.WF) (hq : q.WF) (hl : p.len = q.len) :
    ∃ b, PS.commutesWith p q = .ok b := by
  obtain ⟨v, rfl, hv⟩ := exists_letters hp
  obtain ⟨w, rfl, hw⟩ := exists_letters hq
  exact ⟨_, commutes_ofLetters (by rw [hv, hw, hl])⟩

/-- the product never raises on synchronised strings of equal length, and is again one -/
theorem multiply_ok {p q : PS} (hp : p.WF) (hq : q.WF) (hl : p.len = q.len) :
    ∃ r, PS.multiply p q = .ok r ∧ r.WF ∧ r.len = p.len := by
  obtain ⟨v, rfl, hv⟩ := exists_letters hp
  obtain ⟨w, rfl, hw⟩ := exists_letters hq
  have h : v.length = w.length := by rw [hv, hw, hl]
  exact ⟨_, multiply_ofLetters h, wf_ofLetters _, by rw [len_ofLetters, len_ofLetters, wmul_length _ _ h]⟩

theorem commutesWith_comm {p q : PS} (hp : p.WF) (hq : q.WF) (hl : p.len = q.len) :
    PS.commutesWith p q = PS.commutesWith q p := by
  obtain ⟨v, rfl, hv⟩ := exists_letters hp
  obtain ⟨w, rfl, hw⟩ := exists_letters hq
  have h : v.length = w.length := by rw [hv, hw, hl]
  rw [commutes_ofLetters h, commutes_ofLetters h.symm, wanti_comm]

/-- `ω(P, P*Q) = ω(P, Q)` and `P*(P*Q) = Q` -/
theorem multiply_facts {p q r : PS} (hp : p.WF) (hq : q.WF) (hl : p.len = q.len)
    (hm : PS.multiply p q = .ok r) :
    r.WF ∧ r.len = p.len ∧ PS.commutesWith p r = PS.commutesWith p q ∧ PS.multiply p r = .ok q := by
  obtain ⟨v, rfl, hv⟩ := exists_letters hp
  obtain ⟨w, rfl, hw⟩ := exists_letters hq
  have h : v.length = w.length := by rw [hv, hw, hl]
  rw [multiply_ofLetters h] at hm
  cases hm
  have h' : v.length = (wmul v w).length := (wmul_length _ _ h).symm
  refine ⟨wf_ofLetters _, by rw [len_ofLetters, len_ofLetters, wmul_length _ _ h], ?_, ?_⟩
  · rw [commutes_ofLetters h', commutes_ofLetters h, wanti_wmul _ _ h]
  · rw [multiply_ofLetters h', wmul_wmul _ _ h]

/-- `adjoint_map` (the `^` operator) in terms of `commutes_with` and the product -/
theorem adjointMap_spec {p q : PS} (hp : p.WF) (hq : q.WF) (hl : p.len = q.len) :
    ∃ b r, PS.commutesWith p q = .ok b ∧ PS.multiply p q = .ok r ∧ r.WF ∧ r.len = p.len ∧
      PS.adjointMap p q = .ok (if b then none else some r) ∧ (b = false → 0 < p.len) := by
  obtain ⟨v, rfl, hv⟩ := exists_letters hp
  obtain ⟨w, rfl, hw⟩ := exists_letters hq
  have h : v.length = w.length := by rw [hv, hw, hl]
  refine ⟨_, _, commutes_ofLetters h, multiply_ofLetters h, wf_ofLetters _,
    by rw [len_ofLetters, len_ofLetters, wmul_length _ _ h], ?_, ?_⟩
  · rw [adjoint_ofLetters h]; cases wanti v w <;> rfl
  · intro hb
    rw [len_ofLetters]
    cases v with
    | nil => simp [wanti_nil_left] at hb
    | cons _ _ => simp

theorem anti_pos_len {p q : PS} (hp : p.WF) (hq : q.WF) (hl : p.len = q.len) (h : anti p q) :
    0 < p.len := by
  obtain ⟨b, r, h1, _, _, _, _, h6⟩ := adjointMap_spec hp hq hl
  unfold anti at h
  rw [h1] at h
  exact h6 (by cases h; rfl)

theorem anti_comm {p q : PS} (hp : p.WF) (hq : q.WF) (hl : p.len = q.len) : anti p q ↔ anti q p := by
  unfold anti; rw [commutesWith_comm hp hq hl]

/-- the identity commutes with everything of its length -/
theorem ident_commutes {n : Nat} {p : PS} (hp : p.WF) (hl : p.len = n) :
    PS.commutesWith (PS.ident n) p = .ok true := by
  obtain ⟨w, rfl, hw⟩ := exists_letters hp
  have e : PS.ident n = PS.ofLetters (List.replicate n Letter.I) := by
    simp [PS.ident, PS.ofLetters, C18.encode_replicate_I]
  rw [e, commutes_ofLetters (by simp [hw, hl])]
  congr 1
  have : ∀ (n : Nat) (w : List Letter), wanti (List.replicate n Letter.I) w = false := by
    intro n
    induction n with
    | zero => intro w; exact wanti_nil_left w
    | succ n ih =>
      intro w
      cases w with
      | nil => rfl
      | cons b w => simp only [List.replicate_succ, wanti, ih w]; cases b <;> rfl
  rw [this]; rfl

/-! ## 5. `containsPS` -/

theorem containsPS_iff_bits (l : List PS) (p : PS) :
    containsPS l p = true ↔ ∃ q ∈ l, q.bits = p.bits := by
  simp [containsPS, PS.beq]

theorem containsPS_iff_mem {l : List PS} {p : PS} (hl : ∀ q ∈ l, q.WF) (hp : p.WF) :
    containsPS l p = true ↔ p ∈ l := by
  rw [containsPS_iff_bits]
  constructor
  · rintro ⟨q, hq, hb⟩
    rwa [← eq_of_bits_eq (hl q hq) hp hb]
  · intro h; exact ⟨p, h, rfl⟩

/-! ## 6. Loops in `Except` -/

theorem forIn_yield_ok {α β : Type} (l : List α) (f : α → β → Except Err (ForInStep β))
    (g : α → β → β) (h : ∀ x ∈ l, ∀ s, f x s = .ok (.yield (g x s))) (init : β) :
    forIn l init f = .ok (l.foldl (fun s x => g x s) init) := by
  induction l generalizing init with
  | nil => rfl
  | cons a t ih =>
    rw [List.forIn_cons, h a (by simp)]
    simp only [bind, Except.bind, List.foldl_cons]
    exact ih (fun x hx => h x (by simp [hx])) _

theorem filterAuxM_ok {α : Type} (p : α → Except Err Bool) (q : α → Bool) (l acc : List α)
    (h : ∀ a ∈ l, p a = .ok (q a)) :
    List.filterAuxM p l acc = .ok ((l.filter q).reverse ++ acc) := by
  induction l generalizing acc with
  | nil => rfl
  | cons a t ih =>
    rw [List.filterAuxM, h a (by simp)]
    simp only [bind, Except.bind]
    rw [ih _ (fun x hx => h x (by simp [hx]))]
    cases hq : q a <;> simp [hq]

theorem filterM_ok {α : Type} (p : α → Except Err Bool) (q : α → Bool) (l : List α)
    (h : ∀ a ∈ l, p a = .ok (q a)) :
    List.filterM p l = .ok (l.filter q) := by
  simp [List.filterM, filterAuxM_ok p q l [] h, bind, Except.bind, pure, Except.pure]

theorem foldl_append_flatMap {α β : Type} (k : α → List β) (l : List α) (init : List β) :
    l.foldl (fun s x => s ++ k x) init = init ++ l.flatMap k := by
  induction l generalizing init with
  | nil => simp
  | cons a t ih => simp [ih]

/-! ## 7. `combinations2` -/

theorem mem_combinations2 {α : Type} (l : List α) (a b : α) :
    (a, b) ∈ combinations2 l ↔ ∃ i j : Nat, i < j ∧ l[i]? = some a ∧ l[j]? = some b := by
  induction l with
  | nil => simp [combinations2]
  | cons x t ih =>
    simp only [combinations2, List.mem_append, List.mem_map, Prod.mk.injEq, ih]
    constructor
    · rintro (⟨y, hy, rfl, rfl⟩ | ⟨i, j, hij, hi, hj⟩)
      · obtain ⟨j, hj, rfl⟩ := List.getElem_of_mem hy
        exact ⟨0, j + 1, by omega, rfl, by simp⟩
      · exact ⟨i + 1, j + 1, by omega, by simpa using hi, by simpa using hj⟩
    · rintro ⟨i, j, hij, hi, hj⟩
      cases i with
      | zero =>
        cases j with
        | zero => omega
        | succ j =>
          left
          simp only [List.getElem?_cons_zero, Option.some.injEq] at hi
          simp only [List.getElem?_cons_succ] at hj
          exact ⟨b, List.mem_of_getElem? hj, hi, rfl⟩
      | succ i =>
        cases j with
        | zero => omega
        | succ j =>
          right
          exact ⟨i, j, by omega, by simpa using hi, by simpa using hj⟩

theorem mem_of_mem_combinations2 {α : Type} {l : List α} {a b : α} (h : (a, b) ∈ combinations2 l) :
    a ∈ l ∧ b ∈ l := by
  obtain ⟨i, j, _, hi, hj⟩ := (mem_combinations2 l a b).mp h
  exact ⟨List.mem_of_getElem? hi, List.mem_of_getElem? hj⟩

theorem combinations2_length {α : Type} (l : List α) :
    (combinations2 l).length = l.length * (l.length - 1) / 2 := by
  induction l with
  | nil => simp [combinations2]
  | cons x t ih =>
    simp only [combinations2, List.length_append, List.length_map, ih, List.length_cons,
      Nat.add_sub_cancel]
    cases ht : t.length with
    | zero => rfl
    | succ m =>
      simp only [Nat.add_sub_cancel]
      have : (m + 1 + 1) * (m + 1) = (m + 1) * m + 2 * (m + 1) := by
        rw [Nat.mul_comm (m + 1 + 1) (m + 1), show m + 1 + 1 = m + 2 by rfl, Nat.mul_add,
          Nat.mul_comm (m + 1) 2]
      rw [this, Nat.add_mul_div_left _ _ (by omega : 0 < 2)]
      omega

/-! ## 8. `getGraph` -/

/-- contribution of one pair to the edge list of `get_graph(generators, commutators)` -/
def edgeOf (C : List PS) (ab : PS × PS) : List (PS × PS × PS) :=
  match PS.commutesWith ab.1 ab.2, PS.multiply ab.1 ab.2 with
  | .ok false, .ok c => if C.isEmpty || containsPS C c then [(ab.1, ab.2, c)] else []
  | _, _ => []

/-- the edge list: anticommuting pairs in `combinations` order, labelled by the product,
filtered by `commutators` when that list is non-empty -/
def edgeSpec (C G : List PS) : List (PS × PS × PS) := (combinations2 G).flatMap (edgeOf C)

theorem getGraph_eq {n : Nat} {G : List PS} (hG : Uniform n G) (C : List PS) :
    getGraph G C = .ok (G, edgeSpec C G) := by
  unfold getGraph
  simp only []
  rw [forIn_yield_ok _ _ (fun x s => s ++ edgeOf C x)]
  · simp only [bind, Except.bind, pure, Except.pure, foldl_append_flatMap, List.nil_append, edgeSpec]
  · rintro ⟨a, b⟩ hx s
    obtain ⟨ha, hb⟩ := mem_of_mem_combinations2 hx
    obtain ⟨haw, hal⟩ := hG a ha
    obtain ⟨hbw, hbl⟩ := hG b hb
    obtain ⟨c, r, h1, h2, h3, h4, h5, h6⟩ := adjointMap_spec haw hbw (hal.trans hbl.symm)
    simp only [h5, bind, Except.bind, edgeOf, h1, h2]
    cases c
    · have : 0 < r.len := by rw [h4]; exact h6 rfl
      simp only [pure, Except.pure, Bool.false_eq_true, ↓reduceIte]
      by_cases hc : C.isEmpty = true ∨ containsPS C r = true
      · have hc' : (C.isEmpty || containsPS C r) = true := by simpa using hc
        rw [if_pos (And.intro this hc), if_pos hc']
      · have hc' : ¬ (C.isEmpty || containsPS C r) = true := by simpa using hc
        rw [if_neg (fun h => hc h.2), if_neg hc', List.append_nil]
    · simp [pure, Except.pure]

theorem mem_edgeSpec (G C : List PS) (a b c : PS) :
    (a, b, c) ∈ edgeSpec C G ↔
      (a, b) ∈ combinations2 G ∧ PS.commutesWith a b = .ok false ∧ PS.multiply a b = .ok c
        ∧ (C = [] ∨ containsPS C c = true) := by
  simp only [edgeSpec, List.mem_flatMap]
  constructor
  · rintro ⟨⟨a', b'⟩, hx, hm⟩
    simp only [edgeOf] at hm
    split at hm
    · rename_i c' h1 h2
      split at hm
      · rename_i hc
        simp only [List.mem_singleton, Prod.mk.injEq] at hm
        obtain ⟨rfl, rfl, rfl⟩ := hm
        exact ⟨hx, h1, h2, by simpa using hc⟩
      · simp at hm
    · simp at hm
  · rintro ⟨hx, h1, h2, hc⟩
    refine ⟨(a, b), hx, ?_⟩
    have hc' : (C.isEmpty || containsPS C c) = true := by simpa using hc
    simp [edgeOf, h1, h2, hc']

/-! ## 9. `getCommutants` -/

theorem forIn_yield_inv {α β : Type} (I : β → Prop) (l : List α)
    (f : α → β → Except Err (ForInStep β)) (g : α → β → β)
    (h : ∀ x ∈ l, ∀ s, I s → f x s = .ok (.yield (g x s)) ∧ I (g x s)) (init : β) (hI : I init) :
    forIn l init f = .ok (l.foldl (fun s x => g x s) init) := by
  induction l generalizing init with
  | nil => rfl
  | cons a t ih =>
    rw [List.forIn_cons, (h a (by simp) init hI).1]
    simp only [bind, Except.bind, List.foldl_cons]
    exact ih (fun x hx => h x (by simp [hx])) _ (h a (by simp) init hI).2

/-- Boolean reading of `g.commutes_with(p)` (errors read as `false`) -/
def cwB (g p : PS) : Bool :=
  match PS.commutesWith g p with
  | .ok b => b
  | .error _ => false

theorem cwB_iff (g p : PS) : cwB g p = true ↔ PS.commutesWith g p = .ok true := by
  unfold cwB
  split <;> rename_i h <;> simp [h]

theorem filter_const_true {α : Type} (L : List α) : L.filter (fun _ => true) = L :=
  List.filter_eq_self.mpr (fun _ _ => rfl)

theorem foldl_filter_all {α β : Type} (q : β → α → Bool) (G : List β) (L : List α) :
    G.foldl (fun s g => s.filter (q g)) L = L.filter (fun p => G.all (fun g => q g p)) := by
  induction G generalizing L with
  | nil => simp [filter_const_true]
  | cons g t ih =>
    simp only [List.foldl_cons, ih, List.filter_filter, List.all_cons]
    apply List.filter_congr
    intro x _
    exact Bool.and_comm _ _

theorem genAll_uniform (n : Nat) : Uniform n (PS.genAll n) := (C18.C18_enum n).2

theorem getCommutants_eq {n : Nat} {G : List PS} (hG : Uniform n G) (hne : G ≠ []) :
    getCommutants G = .ok ((PS.genAll n).filter (fun p => G.all (fun g => cwB g p))) := by
  cases G with
  | nil => exact absurd rfl hne
  | cons g0 t =>
    have hn : g0.len = n := (hG g0 (by simp)).2
    simp only [getCommutants, hn]
    rw [forIn_yield_inv (fun s => ∀ p ∈ s, p.WF ∧ p.len = n) _ _ (fun g s => s.filter (cwB g))]
    · simp only [bind, Except.bind, pure, Except.pure, foldl_filter_all]
    · intro g hg s hs
      obtain ⟨hgw, hgl⟩ := hG g hg
      rw [filterM_ok _ (cwB g) s]
      · exact ⟨rfl, fun p hp => hs p (List.mem_filter.mp hp).1⟩
      · intro p hp
        obtain ⟨hpw, hpl⟩ := hs p hp
        obtain ⟨b, hb⟩ := commutesWith_ok hgw hpw (hgl.trans hpl.symm)
        simp [cwB, hb]
    · exact genAll_uniform n

/-! ## 10. Pair counts -/

/-- Boolean reading of "the pair anticommutes" -/
def antiB (ab : PS × PS) : Bool :=
  match PS.commutesWith ab.1 ab.2 with
  | .ok false => true
  | _ => false

theorem antiB_iff (a b : PS) : antiB (a, b) = true ↔ anti a b := by
  unfold antiB anti
  split <;> rename_i h
  · simp [h]
  · simp only [Bool.false_eq_true, false_iff]; exact fun h' => h h'

theorem foldl_count {α : Type} (q : α → Bool) (l : List α) (init : Nat) :
    l.foldl (fun c x => c + (if q x then 1 else 0)) init = init + l.countP q := by
  induction l generalizing init with
  | nil => simp
  | cons a t ih =>
    simp only [List.foldl_cons, ih, List.countP_cons]
    omega

theorem foldl_count2 {α : Type} (q : α → Bool) (l : List α) (init : Nat × Nat) :
    l.foldl (fun (s : Nat × Nat) x => (s.1 + (if q x then 1 else 0), s.2 + 1)) init
      = (init.1 + l.countP q, init.2 + l.length) := by
  induction l generalizing init with
  | nil => simp
  | cons a t ih =>
    simp only [List.foldl_cons, ih, List.countP_cons, List.length_cons]
    ext <;> simp <;> omega

theorem pair_cw {n : Nat} {G : List PS} (hG : Uniform n G) {a b : PS}
    (hx : (a, b) ∈ combinations2 G) :
    PS.commutesWith a b = .ok (!antiB (a, b)) ∧ ∃ r, PS.multiply a b = .ok r := by
  obtain ⟨ha, hb⟩ := mem_of_mem_combinations2 hx
  obtain ⟨haw, hal⟩ := hG a ha
  obtain ⟨hbw, hbl⟩ := hG b hb
  obtain ⟨c, r, h1, h2, _⟩ := adjointMap_spec haw hbw (hal.trans hbl.symm)
  refine ⟨?_, r, h2⟩
  rw [h1]; cases c <;> simp [antiB, h1]

theorem anticommutationPair_eq {n : Nat} {G : List PS} (hG : Uniform n G) :
    anticommutationPair G = .ok ((combinations2 G).countP antiB) := by
  unfold anticommutationPair
  simp only []
  rw [forIn_yield_ok _ _ (fun x c => c + (if antiB x then 1 else 0))]
  · simp [bind, Except.bind, pure, Except.pure, foldl_count]
  · rintro ⟨a, b⟩ hx c
    simp only [(pair_cw hG hx).1, bind, Except.bind, pure, Except.pure]
    cases antiB (a, b) <;> simp

theorem anticommutationFraction_eq {n : Nat} {G : List PS} (hG : Uniform n G) :
    anticommutationFraction G =
      if (combinations2 G).length = 0 then .error .zeroDivision
      else .ok ((combinations2 G).countP antiB, (combinations2 G).length) := by
  unfold anticommutationFraction
  simp only []
  rw [forIn_yield_ok _ _ (fun x (s : Nat × Nat) => (s.1 + (if antiB x then 1 else 0), s.2 + 1))]
  · simp only [bind, Except.bind, pure, Except.pure, foldl_count2, Nat.zero_add]
    by_cases h : (combinations2 G).length = 0
    · simp [h, throw, throwThe, MonadExceptOf.throw]
    · simp [h]
  · rintro ⟨a, b⟩ hx c
    simp only [(pair_cw hG hx).1, bind, Except.bind, pure, Except.pure]
    cases antiB (a, b) <;> simp

theorem edgeSpec_length {n : Nat} {G : List PS} (hG : Uniform n G) :
    (edgeSpec [] G).length = (combinations2 G).countP antiB := by
  unfold edgeSpec
  have : ∀ l : List (PS × PS), (∀ x ∈ l, x ∈ combinations2 G) →
      (l.flatMap (edgeOf [])).length = l.countP antiB := by
    intro l
    induction l with
    | nil => simp
    | cons x t ih =>
      intro h
      obtain ⟨a, b⟩ := x
      obtain ⟨h1, r, h2⟩ := pair_cw hG (h (a, b) (by simp))
      simp only [List.flatMap_cons, List.length_append, ih (fun y hy => h y (by simp [hy])),
        List.countP_cons]
      cases hb : antiB (a, b) <;> simp [edgeOf, h1, h2, hb] <;> omega
  exact this _ (fun _ h => h)

theorem combinations2_length_eq_zero {α : Type} (l : List α) :
    (combinations2 l).length = 0 ↔ l.length ≤ 1 := by
  match l with
  | [] => simp [combinations2]
  | [a] => simp [combinations2]
  | a :: b :: t => simp [combinations2]

/-! ## 11. The commutator graph -/

theorem getCommutatorGraph_eq {n : Nat} {G : List PS} (hG : Uniform n G) (hne : G ≠ []) :
    getCommutatorGraph G =
      .ok (PS.genAll n, (edgeSpec G (PS.genAll n)).map (fun e => (e.1, e.2.1))) := by
  cases G with
  | nil => exact absurd rfl hne
  | cons g0 t =>
    have hn : g0.len = n := (hG g0 (by simp)).2
    simp only [getCommutatorGraph, hn]
    rw [filterM_ok _ (fun _ => true) _ (fun p hp => ident_commutes (genAll_uniform n p hp).1
      (genAll_uniform n p hp).2)]
    simp only [filter_const_true, bind, Except.bind, getGraph_eq (genAll_uniform n), pure,
      Except.pure]

theorem commutator_edge_iff {n : Nat} {G : List PS} (hG : Uniform n G) {P Q : PS}
    (hP : P.WF ∧ P.len = n) (hQ : Q.WF ∧ Q.len = n) :
    (PS.commutesWith P Q = .ok false ∧ ∃ c, PS.multiply P Q = .ok c ∧ containsPS G c = true) ↔
      ∃ g ∈ G, anti g P ∧ PS.multiply P g = .ok Q := by
  have hGw : ∀ q ∈ G, q.WF := fun q hq => (hG q hq).1
  constructor
  · rintro ⟨h1, c, h2, h3⟩
    obtain ⟨hcw, hcl, h4, h5⟩ := multiply_facts hP.1 hQ.1 (hP.2.trans hQ.2.symm) h2
    have hc : c ∈ G := (containsPS_iff_mem hGw hcw).mp h3
    refine ⟨c, hc, ?_, h5⟩
    rw [anti_comm hcw hP.1 hcl]
    unfold anti; rw [h4, h1]
  · rintro ⟨g, hg, h1, h2⟩
    obtain ⟨hgw, hgl⟩ := hG g hg
    obtain ⟨_, _, h4, h5⟩ := multiply_facts hP.1 hgw (hP.2.trans hgl.symm) h2
    rw [anti_comm hgw hP.1 (hgl.trans hP.2.symm)] at h1
    refine ⟨by rw [h4]; exact h1, g, h5, (containsPS_iff_mem hGw hgw).mpr hg⟩

/-! ## 12. `collInit` -/

theorem mapM_ok {α β : Type} (f : α → Except Err β) (g : α → β) (l : List α)
    (h : ∀ a ∈ l, f a = .ok (g a)) : l.mapM f = .ok (l.map g) := by
  induction l with
  | nil => rfl
  | cons a t ih =>
    rw [List.mapM_cons, h a (by simp), ih (fun x hx => h x (by simp [hx]))]
    rfl

/-- the longest length, as computed by `collInit` -/
def maxLen (gens : List PS) : Nat := gens.foldl (fun m g => max m g.len) 0

theorem foldl_max_spec (gens : List PS) (init : Nat) :
    init ≤ gens.foldl (fun m g => max m g.len) init ∧
    (∀ g ∈ gens, g.len ≤ gens.foldl (fun m g => max m g.len) init) ∧
    (gens.foldl (fun m g => max m g.len) init = init ∨
      ∃ g ∈ gens, g.len = gens.foldl (fun m g => max m g.len) init) := by
  induction gens generalizing init with
  | nil => simp
  | cons a t ih =>
    obtain ⟨h1, h2, h3⟩ := ih (max init a.len)
    simp only [List.foldl_cons, List.mem_cons, forall_eq_or_imp, exists_eq_or_imp]
    refine ⟨by omega, ⟨by omega, h2⟩, ?_⟩
    rcases h3 with h3 | ⟨g, hg, h3⟩
    · rw [h3]
      by_cases hc : a.len ≤ init
      · left; omega
      · right; left; omega
    · right; right; exact ⟨g, hg, h3⟩

/-- `g` padded with identities to length `n` -/
def padTo (n : Nat) (g : PS) : PS :=
  PS.ofLetters (g.letters ++ List.replicate (n - g.len) Letter.I)

theorem padTo_spec {n : Nat} {g : PS} (hl : g.len ≤ n) :
    (padTo n g).WF ∧ (padTo n g).len = n := by
  refine ⟨wf_ofLetters _, ?_⟩
  rw [padTo, len_ofLetters]
  simp only [PS.letters, C18.decode_length, List.length_append, List.length_replicate]
  unfold PS.len at hl ⊢; omega

theorem collInit_eq (gens : List PS) (h : ∀ g ∈ gens, g.WF) :
    collInit gens = .ok (gens.map (padTo (maxLen gens))) := by
  unfold collInit
  split
  · rename_i he
    rw [List.isEmpty_iff] at he
    subst he; rfl
  · apply mapM_ok
    intro a ha
    have hle : a.len ≤ maxLen gens := (foldl_max_spec gens 0).2.1 a ha
    show (if a.len < maxLen gens then a.expand (maxLen gens) else .ok a) = _
    split
    · obtain ⟨r, h1, h2, h3, _⟩ := (C18.C18_fresh_expand a (h a ha) (maxLen gens)).1 (by omega)
      rw [h1, C18.C18_observe r h2, h3]
      simp [padTo]
    · have e : maxLen gens - a.len = 0 := by omega
      rw [padTo, e]
      simp only [List.replicate_zero, List.append_nil]
      rw [← C18.C18_observe a (h a ha)]

theorem collInit_uniform (gens : List PS) (h : ∀ g ∈ gens, g.WF) :
    collInit gens = .ok (gens.map (padTo (maxLen gens)))
    ∧ Uniform (maxLen gens) (gens.map (padTo (maxLen gens)))
    ∧ (∀ g ∈ gens, g.len ≤ maxLen gens ∧
        (padTo (maxLen gens) g).letters = g.letters ++ List.replicate (maxLen gens - g.len) Letter.I)
    ∧ (gens ≠ [] → ∃ g ∈ gens, g.len = maxLen gens) := by
  have hm := foldl_max_spec gens 0
  refine ⟨collInit_eq gens h, ?_, ?_, ?_⟩
  · intro g hg
    obtain ⟨a, ha, rfl⟩ := List.mem_map.mp hg
    exact padTo_spec (hm.2.1 a ha)
  · intro g hg
    exact ⟨hm.2.1 g hg, by rw [padTo, C18.letters_ofLetters]⟩
  · intro hne
    rcases hm.2.2 with h0 | h0
    · cases gens with
      | nil => exact absurd rfl hne
      | cons a t =>
        refine ⟨a, by simp, ?_⟩
        have := hm.2.1 a (by simp)
        unfold maxLen
        omega
    · exact h0

/-! ## 13. Connected components -/

/-- no two members with the same `bits` (`PS.beq`-distinct) -/
def BNodup (l : List PS) : Prop := l.Pairwise (fun x y => x.bits ≠ y.bits)

/-- the neighbour query of `components` -/
def adjOf (edges : List (PS × PS)) (v : PS) : List PS :=
  edges.filterMap (fun (a, b) => if a.beq v then some b else if b.beq v then some a else none)

/-- connectivity up to `PS.beq`: reflexive-transitive-symmetric closure of the edge
relation, where strings with equal `bits` are identified -/
inductive Conn (E : List (PS × PS)) : PS → PS → Prop
  | refl {a b : PS} : a.bits = b.bits → Conn E a b
  | tail {a b c d e : PS} : Conn E a b → b.bits = c.bits → ((c, d) ∈ E ∨ (d, c) ∈ E) →
      d.bits = e.bits → Conn E a e

theorem Conn.congr_right {E a b c} (h : Conn E a b) (e : b.bits = c.bits) : Conn E a c := by
  cases h with
  | refl h => exact .refl (h.trans e)
  | tail h1 h2 h3 h4 => exact .tail h1 h2 h3 (h4.trans e)

theorem Conn.trans {E a b c} (h1 : Conn E a b) (h2 : Conn E b c) : Conn E a c := by
  induction h2 with
  | refl h => exact h1.congr_right h
  | tail _ h2 h3 h4 ih => exact .tail ih h2 h3 h4

theorem Conn.symm {E a b} (h : Conn E a b) : Conn E b a := by
  induction h with
  | refl h => exact .refl h.symm
  | tail _ h2 h3 h4 ih =>
    exact Conn.trans (.tail (.refl h4.symm) rfl h3.symm h2.symm) ih

theorem adjOf_sound {E : List (PS × PS)} {v y : PS} (h : y ∈ adjOf E v) :
    ∃ c, c.bits = v.bits ∧ ((c, y) ∈ E ∨ (y, c) ∈ E) := by
  simp only [adjOf, List.mem_filterMap] at h
  obtain ⟨⟨a, b⟩, hab, h⟩ := h
  simp only at h
  split at h
  · rename_i h1
    cases h
    exact ⟨a, (beq_iff_bits _ _).mp h1, .inl hab⟩
  · split at h
    · rename_i h1
      cases h
      exact ⟨b, (beq_iff_bits _ _).mp h1, .inr hab⟩
    · cases h

theorem adjOf_complete {E : List (PS × PS)} {v c d : PS} (hc : c.bits = v.bits)
    (h : (c, d) ∈ E ∨ (d, c) ∈ E) : ∃ y ∈ adjOf E v, y.bits = d.bits := by
  rcases h with h | h
  · refine ⟨d, ?_, rfl⟩
    simp only [adjOf, List.mem_filterMap]
    exact ⟨(c, d), h, by simp [(beq_iff_bits c v).mpr hc]⟩
  · by_cases hd : d.bits = v.bits
    · refine ⟨c, ?_, hc.trans hd.symm⟩
      simp only [adjOf, List.mem_filterMap]
      exact ⟨(d, c), h, by simp [(beq_iff_bits d v).mpr hd]⟩
    · refine ⟨d, ?_, rfl⟩
      simp only [adjOf, List.mem_filterMap]
      have : d.beq v = false := by
        cases hb : d.beq v
        · rfl
        · exact absurd ((beq_iff_bits d v).mp hb) hd
      exact ⟨(d, c), h, by simp [this, (beq_iff_bits c v).mpr hc]⟩

theorem containsPS_congr {l : List PS} {x y : PS} (h : x.bits = y.bits) :
    containsPS l x = true ↔ containsPS l y = true := by
  simp only [containsPS_iff_bits, h]

theorem containsPS_of_mem {l : List PS} {x : PS} (h : x ∈ l) : containsPS l x = true :=
  (containsPS_iff_bits l x).mpr ⟨x, h, rfl⟩

theorem containsPS_append {l m : List PS} {x : PS} :
    containsPS (l ++ m) x = true ↔ containsPS l x = true ∨ containsPS m x = true := by
  simp [containsPS]

/-! ### `dedupPS` -/

theorem dedup_fold_spec (l acc : List PS) (hacc : BNodup acc) :
    let R := l.foldl (fun acc x => if containsPS acc x then acc else acc ++ [x]) acc
    BNodup R ∧ (∀ x ∈ R, x ∈ acc ∨ x ∈ l) ∧ (∀ x ∈ acc, x ∈ R) ∧
      (∀ x ∈ l, containsPS R x = true) := by
  induction l generalizing acc with
  | nil => simp [hacc]
  | cons a t ih =>
    simp only [List.foldl_cons]
    by_cases hc : containsPS acc a = true
    · rw [if_pos hc]
      obtain ⟨h1, h2, h3, h4⟩ := ih acc hacc
      refine ⟨h1, ?_, h3, ?_⟩
      · intro x hx
        rcases h2 x hx with h | h
        · exact .inl h
        · exact .inr (by simp [h])
      · intro x hx
        rcases List.mem_cons.mp hx with rfl | hx
        · obtain ⟨q, hq, hb⟩ := (containsPS_iff_bits _ _).mp hc
          exact (containsPS_iff_bits _ _).mpr ⟨q, h3 q hq, hb⟩
        · exact h4 x hx
    · rw [if_neg hc]
      have hacc' : BNodup (acc ++ [a]) := by
        unfold BNodup
        rw [List.pairwise_append]
        refine ⟨hacc, by simp, ?_⟩
        intro x hx y hy hb
        simp only [List.mem_singleton] at hy
        subst hy
        exact hc ((containsPS_iff_bits _ _).mpr ⟨x, hx, hb⟩)
      obtain ⟨h1, h2, h3, h4⟩ := ih (acc ++ [a]) hacc'
      refine ⟨h1, ?_, fun x hx => h3 x (by simp [hx]), ?_⟩
      · intro x hx
        rcases h2 x hx with h | h
        · rcases List.mem_append.mp h with h | h
          · exact .inl h
          · exact .inr (by simp at h; simp [h])
        · exact .inr (by simp [h])
      · intro x hx
        rcases List.mem_cons.mp hx with rfl | hx
        · exact containsPS_of_mem (h3 _ (by simp))
        · exact h4 x hx

theorem dedupPS_spec (l : List PS) :
    BNodup (dedupPS l) ∧ (∀ x ∈ dedupPS l, x ∈ l) ∧ (∀ x ∈ l, containsPS (dedupPS l) x = true) := by
  obtain ⟨h1, h2, _, h4⟩ := dedup_fold_spec l [] (by simp [BNodup])
  refine ⟨h1, ?_, h4⟩
  intro x hx
  rcases h2 x hx with h | h
  · simp at h
  · exact h

/-- counting: a `beq`-duplicate-free list inside `V` (up to `beq`) is no longer than `V` -/
theorem length_le_of_BNodup {L V : List PS} (hL : BNodup L)
    (hsub : ∀ y ∈ L, containsPS V y = true) : L.length ≤ V.length := by
  have h1 : (L.map PS.bits).Nodup := by
    rw [List.nodup_iff_pairwise_ne, List.pairwise_map]; exact hL
  have h2 : L.map PS.bits ⊆ V.map PS.bits := by
    intro b hb
    obtain ⟨y, hy, rfl⟩ := List.mem_map.mp hb
    obtain ⟨q, hq, hqb⟩ := (containsPS_iff_bits _ _).mp (hsub y hy)
    exact List.mem_map.mpr ⟨q, hq, hqb⟩
  simpa using h1.length_le_of_subset h2

/-! ### the `grow` loop -/

theorem grow_zero (adj : PS → List PS) (comp fr : List PS) :
    components.grow adj 0 comp fr = comp := by
  simp [components.grow]

theorem grow_nil (adj : PS → List PS) (fuel : Nat) (comp : List PS) :
    components.grow adj (fuel + 1) comp [] = comp := by
  simp [components.grow]

theorem grow_cons (adj : PS → List PS) (fuel : Nat) (comp rest : List PS) (x : PS) :
    components.grow adj (fuel + 1) comp (x :: rest) =
      components.grow adj fuel (comp ++ dedupPS ((adj x).filter (fun y => !containsPS comp y)))
        (rest ++ dedupPS ((adj x).filter (fun y => !containsPS comp y))) := by
  simp [components.grow]

/-- Invariant-based specification of `grow`.  The state is `comp = done ++ frontier`;
every iteration moves one element from the frontier to `done`, so the fuel
`V.length + 1` is never exhausted with a non-empty frontier. -/
theorem grow_spec (E : List (PS × PS)) (V : List PS) (S : PS → Prop) (root : PS)
    (hSV : ∀ y, S y → containsPS V y = true)
    (hSadj : ∀ v y, y ∈ adjOf E v → S y)
    (fuel : Nat) (done frontier : List PS)
    (H1 : BNodup (done ++ frontier))
    (H2 : ∀ y ∈ done ++ frontier, S y)
    (H3 : ∀ d ∈ done, ∀ y ∈ adjOf E d, containsPS (done ++ frontier) y = true)
    (H4 : ∀ y ∈ done ++ frontier, Conn E root y)
    (H5 : V.length ≤ fuel + done.length) :
    let R := components.grow (adjOf E) fuel (done ++ frontier) frontier
    BNodup R ∧ (∀ y ∈ R, S y) ∧ (∀ d ∈ R, ∀ y ∈ adjOf E d, containsPS R y = true) ∧
      (∀ y ∈ R, Conn E root y) ∧ (∀ y ∈ done ++ frontier, y ∈ R) := by
  have hlen : (done ++ frontier).length ≤ V.length :=
    length_le_of_BNodup H1 (fun y hy => hSV y (H2 y hy))
  induction fuel generalizing done frontier with
  | zero =>
    have hf : frontier = [] := by
      apply List.eq_nil_of_length_eq_zero
      simp only [List.length_append] at hlen; omega
    subst hf
    simp only [grow_zero, List.append_nil] at *
    exact ⟨H1, H2, H3, H4, fun y hy => hy⟩
  | succ fuel ih =>
    cases frontier with
    | nil =>
      simp only [grow_nil, List.append_nil] at *
      exact ⟨H1, H2, H3, H4, fun y hy => hy⟩
    | cons x rest =>
      simp only [grow_cons]
      generalize hnew : dedupPS ((adjOf E x).filter (fun y => !containsPS (done ++ x :: rest) y)) = new
      obtain ⟨n1, n2, n3⟩ := dedupPS_spec ((adjOf E x).filter (fun y => !containsPS (done ++ x :: rest) y))
      rw [hnew] at n1 n2 n3
      have hnewmem : ∀ y ∈ new, y ∈ adjOf E x ∧ ¬ containsPS (done ++ x :: rest) y = true := by
        intro y hy
        have := List.mem_filter.mp (n2 y hy)
        exact ⟨this.1, by simpa using this.2⟩
      have e : done ++ x :: rest ++ new = (done ++ [x]) ++ (rest ++ new) := by simp
      have hx : x ∈ done ++ x :: rest := by simp
      have H1' : BNodup (done ++ x :: rest ++ new) := by
        unfold BNodup
        rw [List.pairwise_append]
        refine ⟨H1, n1, ?_⟩
        intro a ha b hb hab
        exact (hnewmem b hb).2 ((containsPS_iff_bits _ _).mpr ⟨a, ha, hab⟩)
      have H2' : ∀ y ∈ done ++ x :: rest ++ new, S y := by
        intro y hy
        rcases List.mem_append.mp hy with h | h
        · exact H2 y h
        · exact hSadj x y (hnewmem y h).1
      have H3' : ∀ d ∈ done ++ [x], ∀ y ∈ adjOf E d, containsPS (done ++ x :: rest ++ new) y = true := by
        intro d hd y hy
        rw [containsPS_append]
        rcases List.mem_append.mp hd with h | h
        · exact .inl (H3 d h y hy)
        · simp only [List.mem_singleton] at h
          subst h
          by_cases hc : containsPS (done ++ d :: rest) y = true
          · exact .inl hc
          · exact .inr (n3 y (List.mem_filter.mpr ⟨hy, by simpa using hc⟩))
      have H4' : ∀ y ∈ done ++ x :: rest ++ new, Conn E root y := by
        intro y hy
        rcases List.mem_append.mp hy with h | h
        · exact H4 y h
        · obtain ⟨c, hc, hcy⟩ := adjOf_sound (hnewmem y h).1
          exact .tail (H4 x hx) hc.symm hcy rfl
      have H5' : V.length ≤ fuel + (done ++ [x]).length := by
        simp only [List.length_append, List.length_singleton]; omega
      have hlen' : (done ++ [x] ++ (rest ++ new)).length ≤ V.length := by
        rw [← e]
        exact length_le_of_BNodup H1' (fun y hy => hSV y (H2' y hy))
      have := ih (done ++ [x]) (rest ++ new) (by rw [← e]; exact H1') (by rw [← e]; exact H2')
        (by rw [← e]; exact H3') (by rw [← e]; exact H4') H5' hlen'
      rw [← e] at this
      obtain ⟨c1, c2, c3, c4, c5⟩ := this
      exact ⟨c1, c2, c3, c4, fun y hy => c5 y (List.mem_append_left _ hy)⟩

/-- the component grown from a vertex `v` is the `Conn`-class of `v` -/
theorem grow_root (E : List (PS × PS)) (V : List PS) (S : PS → Prop) (v : PS)
    (hSV : ∀ y, S y → containsPS V y = true)
    (hSadj : ∀ v y, y ∈ adjOf E v → S y) (hv : S v) :
    let R := components.grow (adjOf E) (V.length + 1) [v] [v]
    BNodup R ∧ (∀ y ∈ R, S y) ∧ v ∈ R ∧ (∀ y, containsPS R y = true ↔ Conn E v y) := by
  obtain ⟨c1, c2, c3, c4, c5⟩ := grow_spec E V S v hSV hSadj (V.length + 1) [] [v]
    (by simp [BNodup]) (by simpa using hv) (by simp) (by simpa using Conn.refl rfl) (by simp)
  simp only [List.nil_append] at c1 c2 c3 c4 c5
  refine ⟨c1, c2, c5 v (by simp), ?_⟩
  intro y
  constructor
  · intro h
    obtain ⟨q, hq, hb⟩ := (containsPS_iff_bits _ _).mp h
    exact (c4 q hq).congr_right hb
  · intro h
    induction h with
    | refl h => exact (containsPS_iff_bits _ _).mpr ⟨v, c5 v (by simp), h⟩
    | tail _ h2 h3 h4 ih =>
      obtain ⟨q, hq, hb⟩ := (containsPS_iff_bits _ _).mp ih
      obtain ⟨y', hy', hyb⟩ := adjOf_complete (hb.trans h2).symm h3
      have := c3 q hq y' hy'
      exact (containsPS_congr (hyb.trans h4)).mp this

/-! ### the outer loop and the two sorts -/

/-- `c` is the `Conn`-class of one of the vertices -/
def IsClass (E : List (PS × PS)) (V : List PS) (S : PS → Prop) (c : List PS) : Prop :=
  ∃ r ∈ V, r ∈ c ∧ BNodup c ∧ (∀ y ∈ c, S y) ∧ ∀ y, containsPS c y = true ↔ Conn E r y

/-- no string of `c` is `beq` to a string of `d` -/
def Disj (c d : List PS) : Prop := ∀ x ∈ c, ∀ y ∈ d, x.bits ≠ y.bits

theorem Disj.symm {c d : List PS} (h : Disj c d) : Disj d c :=
  fun x hx y hy e => h y hy x hx e.symm

/-- the list of components before sorting -/
def rawComps (verts : List PS) (edges : List (PS × PS)) : List (List PS) :=
  (dedupPS verts).foldl (fun (acc : List (List PS)) v =>
    if acc.any (fun c => containsPS c v) then acc
    else acc ++ [components.grow (adjOf edges) ((dedupPS verts).length + 1) [v] [v]]) []

theorem components_eq (verts : List PS) (edges : List (PS × PS)) :
    components verts edges =
      ((rawComps verts edges).map (fun c => c.mergeSort strLe)).mergeSort (fun a b =>
        decide (a.length > b.length) || (a.length == b.length &&
          (match a, b with | x :: _, y :: _ => strLe x y | _, _ => true))) := rfl

theorem fold_spec (E : List (PS × PS)) (V : List PS) (S : PS → Prop)
    (hSV : ∀ y, S y → containsPS V y = true)
    (hSadj : ∀ v y, y ∈ adjOf E v → S y)
    (l : List PS) (hl : ∀ v ∈ l, v ∈ V ∧ S v) (acc : List (List PS))
    (hA1 : ∀ c ∈ acc, IsClass E V S c) (hA2 : acc.Pairwise Disj) :
    let R := l.foldl (fun (acc : List (List PS)) v =>
      if acc.any (fun c => containsPS c v) then acc
      else acc ++ [components.grow (adjOf E) (V.length + 1) [v] [v]]) acc
    (∀ c ∈ R, IsClass E V S c) ∧ R.Pairwise Disj ∧ (∀ c ∈ acc, c ∈ R) ∧
      (∀ v ∈ l, ∃ c ∈ R, containsPS c v = true) := by
  induction l generalizing acc with
  | nil => simp only [List.foldl_nil]; exact ⟨hA1, hA2, fun c hc => hc, by simp⟩
  | cons v t ih =>
    simp only [List.foldl_cons]
    have hl' : ∀ v ∈ t, v ∈ V ∧ S v := fun x hx => hl x (by simp [hx])
    by_cases hc : (acc.any (fun c => containsPS c v)) = true
    · rw [if_pos hc]
      obtain ⟨r1, r2, r3, r4⟩ := ih hl' acc hA1 hA2
      refine ⟨r1, r2, r3, ?_⟩
      intro x hx
      rcases List.mem_cons.mp hx with rfl | hx
      · obtain ⟨c, hc1, hc2⟩ := List.any_eq_true.mp hc
        exact ⟨c, r3 c hc1, hc2⟩
      · exact r4 x hx
    · rw [if_neg hc]
      obtain ⟨g1, g2, g3, g4⟩ := grow_root E V S v hSV hSadj (hl v (by simp)).2
      generalize components.grow (adjOf E) (V.length + 1) [v] [v] = cv at g1 g2 g3 g4
      have hcls : IsClass E V S cv := ⟨v, (hl v (by simp)).1, g3, g1, g2, g4⟩
      have hA1' : ∀ c ∈ acc ++ [cv], IsClass E V S c := by
        intro c hc'
        rcases List.mem_append.mp hc' with h | h
        · exact hA1 c h
        · simp only [List.mem_singleton] at h; subst h; exact hcls
      have hA2' : (acc ++ [cv]).Pairwise Disj := by
        rw [List.pairwise_append]
        refine ⟨hA2, by simp, ?_⟩
        intro d hd c' hc' x hx y hy hxy
        simp only [List.mem_singleton] at hc'
        subst hc'
        obtain ⟨r, _, _, _, _, hr⟩ := hA1 d hd
        apply hc
        rw [List.any_eq_true]
        refine ⟨d, hd, ?_⟩
        have h1 : Conn E r y := (hr y).mp ((containsPS_iff_bits _ _).mpr ⟨x, hx, hxy⟩)
        have h2 : Conn E v y := (g4 y).mp (containsPS_of_mem hy)
        exact (hr v).mpr (h1.trans h2.symm)
      obtain ⟨r1, r2, r3, r4⟩ := ih hl' (acc ++ [cv]) hA1' hA2'
      refine ⟨r1, r2, fun c hc' => r3 c (by simp [hc']), ?_⟩
      intro x hx
      rcases List.mem_cons.mp hx with rfl | hx
      · exact ⟨cv, r3 cv (by simp), containsPS_of_mem g3⟩
      · exact r4 x hx

/-- vertices and edge endpoints -/
def IsNode (verts : List PS) (edges : List (PS × PS)) (y : PS) : Prop :=
  y ∈ verts ∨ ∃ e ∈ edges, y = e.1 ∨ y = e.2

theorem rawComps_spec (verts : List PS) (edges : List (PS × PS))
    (hE : ∀ e ∈ edges, containsPS verts e.1 = true ∧ containsPS verts e.2 = true) :
    (∀ c ∈ rawComps verts edges, IsClass edges (dedupPS verts)
        (fun y => containsPS (dedupPS verts) y = true ∧ IsNode verts edges y) c) ∧
    (rawComps verts edges).Pairwise Disj ∧
    (∀ v ∈ verts, ∃ c ∈ rawComps verts edges, containsPS c v = true) := by
  obtain ⟨d1, d2, d3⟩ := dedupPS_spec verts
  have hV : ∀ y, containsPS verts y = true → containsPS (dedupPS verts) y = true := by
    intro y hy
    obtain ⟨q, hq, hb⟩ := (containsPS_iff_bits _ _).mp hy
    exact (containsPS_congr hb).mp (d3 q hq)
  obtain ⟨r1, r2, _, r4⟩ := fold_spec edges (dedupPS verts)
    (fun y => containsPS (dedupPS verts) y = true ∧ IsNode verts edges y)
    (fun y h => h.1)
    (by
      intro v y hy
      obtain ⟨c, _, hc⟩ := adjOf_sound hy
      rcases hc with hc | hc
      · exact ⟨hV y (hE _ hc).2, .inr ⟨_, hc, .inr rfl⟩⟩
      · exact ⟨hV y (hE _ hc).1, .inr ⟨_, hc, .inl rfl⟩⟩)
    (dedupPS verts) (fun v hv => ⟨hv, containsPS_of_mem hv, .inl (d2 v hv)⟩) [] (by simp) (by simp)
  refine ⟨r1, r2, ?_⟩
  intro v hv
  obtain ⟨q, hq, hb⟩ := (containsPS_iff_bits _ _).mp (d3 v hv)
  obtain ⟨c, hc1, hc2⟩ := r4 q hq
  exact ⟨c, hc1, (containsPS_congr hb).mp hc2⟩

theorem containsPS_perm {l m : List PS} (h : l.Perm m) (x : PS) :
    containsPS l x = true ↔ containsPS m x = true := by
  simp only [containsPS_iff_bits]
  constructor
  · rintro ⟨q, hq, hb⟩; exact ⟨q, h.mem_iff.mp hq, hb⟩
  · rintro ⟨q, hq, hb⟩; exact ⟨q, h.mem_iff.mpr hq, hb⟩

/-- Specification of `components` (edges between vertices): every component is the
`Conn`-class of a vertex, the components are pairwise `beq`-disjoint and cover
the vertices. -/
theorem components_spec (verts : List PS) (edges : List (PS × PS))
    (hE : ∀ e ∈ edges, containsPS verts e.1 = true ∧ containsPS verts e.2 = true) :
    (∀ c ∈ components verts edges, ∃ r ∈ verts, r ∈ c ∧ BNodup c ∧
        (∀ y ∈ c, containsPS verts y = true ∧ IsNode verts edges y) ∧
        ∀ y, containsPS c y = true ↔ Conn edges r y) ∧
    (components verts edges).Pairwise Disj ∧
    (∀ v ∈ verts, ∃ c ∈ components verts edges, containsPS c v = true) := by
  obtain ⟨r1, r2, r3⟩ := rawComps_spec verts edges hE
  obtain ⟨_, d2, _⟩ := dedupPS_spec verts
  rw [components_eq]
  refine ⟨?_, ?_, ?_⟩
  · intro c hc
    rw [(List.mergeSort_perm _ _).mem_iff, List.mem_map] at hc
    obtain ⟨c0, hc0, rfl⟩ := hc
    have hp := List.mergeSort_perm c0 strLe
    obtain ⟨r, hr, h1, h2, h3, h4⟩ := r1 c0 hc0
    refine ⟨r, d2 r hr, hp.mem_iff.mpr h1, ?_, ?_, ?_⟩
    · exact (hp.pairwise_iff (fun h => Ne.symm h)).mpr h2
    · intro y hy
      obtain ⟨a, b⟩ := h3 y (hp.mem_iff.mp hy)
      obtain ⟨q, hq, hb⟩ := (containsPS_iff_bits _ _).mp a
      exact ⟨(containsPS_iff_bits _ _).mpr ⟨q, d2 q hq, hb⟩, b⟩
    · intro y; rw [containsPS_perm hp]; exact h4 y
  · rw [(List.mergeSort_perm _ _).pairwise_iff Disj.symm, List.pairwise_map]
    refine r2.imp ?_
    intro c d h x hx y hy
    exact h x ((List.mergeSort_perm c strLe).mem_iff.mp hx) y ((List.mergeSort_perm d strLe).mem_iff.mp hy)
  · intro v hv
    obtain ⟨c, hc1, hc2⟩ := r3 v hv
    refine ⟨c.mergeSort strLe, ?_, (containsPS_perm (List.mergeSort_perm c strLe) v).mpr hc2⟩
    rw [(List.mergeSort_perm _ _).mem_iff, List.mem_map]
    exact ⟨c, hc1, rfl⟩

/-! ### plain equality on synchronised strings -/

/-- reflexive-transitive-symmetric closure of a relation -/
inductive Connected (r : PS → PS → Prop) : PS → PS → Prop
  | refl (a : PS) : Connected r a a
  | tail {a b c : PS} : Connected r a b → (r b c ∨ r c b) → Connected r a c

theorem Connected.trans {r a b c} (h1 : Connected r a b) (h2 : Connected r b c) :
    Connected r a c := by
  induction h2 with
  | refl => exact h1
  | tail _ e ih => exact .tail ih e

theorem Connected.symm {r a b} (h : Connected r a b) : Connected r b a := by
  induction h with
  | refl => exact .refl _
  | tail _ e ih => exact Connected.trans (.tail (.refl _) e.symm) ih

theorem Connected.single {r : PS → PS → Prop} {a b} (h : r a b) : Connected r a b :=
  .tail (.refl a) (.inl h)

/-- it is the least equivalence relation containing `r` -/
theorem Connected.least {r s : PS → PS → Prop} (hrefl : ∀ a, s a a) (hsymm : ∀ a b, s a b → s b a)
    (htrans : ∀ a b c, s a b → s b c → s a c) (hrs : ∀ a b, r a b → s a b) {a b : PS}
    (h : Connected r a b) : s a b := by
  induction h with
  | refl => exact hrefl _
  | tail _ e ih =>
    rcases e with e | e
    · exact htrans _ _ _ ih (hrs _ _ e)
    · exact htrans _ _ _ ih (hsymm _ _ (hrs _ _ e))

theorem Connected.congr {r s : PS → PS → Prop}
    (h : ∀ x y, (r x y ∨ r y x) → (s x y ∨ s y x)) {a b : PS} (hc : Connected r a b) :
    Connected s a b := by
  induction hc with
  | refl => exact .refl _
  | tail _ e ih => exact .tail ih (h _ _ e)

theorem conn_of_connected {E : List (PS × PS)} {a b : PS}
    (h : Connected (fun x y => (x, y) ∈ E) a b) : Conn E a b := by
  induction h with
  | refl => exact .refl rfl
  | tail _ e ih => exact .tail ih rfl e rfl

theorem connected_of_conn {E : List (PS × PS)} (hE : ∀ e ∈ E, e.1.WF ∧ e.2.WF) {a b : PS}
    (ha : a.WF) (h : Conn E a b) :
    ∀ b', b'.WF → b'.bits = b.bits → Connected (fun x y => (x, y) ∈ E) a b' := by
  induction h with
  | refl h =>
    intro b' hb' hbb
    rw [eq_of_bits_eq hb' ha (hbb.trans h.symm)]
    exact .refl _
  | @tail b0 c d e _ h2 h3 h4 ih =>
    intro b' hb' hbb
    have hcd : c.WF ∧ d.WF := by
      rcases h3 with h3 | h3
      · exact hE _ h3
      · exact (hE _ h3).symm
    have : b' = d := eq_of_bits_eq hb' hcd.2 (hbb.trans h4.symm)
    subst this
    exact .tail (ih c hcd.1 h2.symm) h3

theorem wanti_self (v : List Letter) : wanti v v = false := by
  induction v with
  | nil => rfl
  | cons a v ih => simp only [wanti, ih]; cases a <;> rfl

theorem not_anti_self {p : PS} (hp : p.WF) : ¬ anti p p := by
  obtain ⟨v, rfl, _⟩ := exists_letters hp
  unfold anti
  rw [commutes_ofLetters rfl, wanti_self]
  simp

/-- the edges handed to `components` by `get_subgraphs` -/
def subgraphEdges (G : List PS) : List (PS × PS) :=
  (edgeSpec [] G).map (fun (a, b, _) => (a, b))

theorem mem_subgraphEdges {n : Nat} {G : List PS} (hG : Uniform n G) (a b : PS) :
    (a, b) ∈ subgraphEdges G ↔ (a, b) ∈ combinations2 G ∧ anti a b := by
  simp only [subgraphEdges, List.mem_map]
  constructor
  · rintro ⟨⟨a', b', c⟩, h, he⟩
    simp only [Prod.mk.injEq] at he
    obtain ⟨rfl, rfl⟩ := he
    have := (mem_edgeSpec G [] a' b' c).mp h
    exact ⟨this.1, this.2.1⟩
  · rintro ⟨h1, h2⟩
    obtain ⟨_, r, hr⟩ := pair_cw hG h1
    exact ⟨(a, b, r), (mem_edgeSpec G [] a b r).mpr ⟨h1, h2, hr, .inl rfl⟩, rfl⟩

theorem subgraphEdges_symm {n : Nat} {G : List PS} (hG : Uniform n G) (x y : PS) :
    ((x, y) ∈ subgraphEdges G ∨ (y, x) ∈ subgraphEdges G) ↔ (x ∈ G ∧ y ∈ G ∧ anti x y) := by
  rw [mem_subgraphEdges hG, mem_subgraphEdges hG]
  constructor
  · rintro (⟨h1, h2⟩ | ⟨h1, h2⟩)
    · obtain ⟨hx, hy⟩ := mem_of_mem_combinations2 h1
      exact ⟨hx, hy, h2⟩
    · obtain ⟨hy, hx⟩ := mem_of_mem_combinations2 h1
      exact ⟨hx, hy, (anti_comm (hG y hy).1 (hG x hx).1 ((hG y hy).2.trans (hG x hx).2.symm)).mp h2⟩
  · rintro ⟨hx, hy, h⟩
    obtain ⟨i, hi, rfl⟩ := List.getElem_of_mem hx
    obtain ⟨j, hj, rfl⟩ := List.getElem_of_mem hy
    have hne : i ≠ j := by
      intro e; subst e
      exact not_anti_self (hG _ hx).1 h
    rcases Nat.lt_or_gt_of_ne hne with hlt | hlt
    · left
      exact ⟨(mem_combinations2 G _ _).mpr ⟨i, j, hlt, by simp [hi], by simp [hj]⟩, h⟩
    · right
      refine ⟨(mem_combinations2 G _ _).mpr ⟨j, i, hlt, by simp [hj], by simp [hi]⟩, ?_⟩
      exact (anti_comm (hG _ hx).1 (hG _ hy).1 ((hG _ hx).2.trans (hG _ hy).2.symm)).mp h

theorem getSubgraphs_eq {n : Nat} {G : List PS} (hG : Uniform n G) :
    getSubgraphs G = .ok (components G (subgraphEdges G)) := by
  simp only [getSubgraphs, getGraph_eq hG, bind, Except.bind, pure, Except.pure, subgraphEdges]

/-! ### commutativity of the product -/

theorem lmul_comm (a b : Letter) : lmul a b = lmul b a := by cases a <;> cases b <;> rfl

theorem wmul_comm (v w : List Letter) : wmul v w = wmul w v := by
  induction v generalizing w with
  | nil => cases w <;> rfl
  | cons a v ih =>
    cases w with
    | nil => rfl
    | cons b w =>
      have := ih w
      simp only [wmul] at this
      simp [wmul, this, lmul_comm a b]

theorem multiply_comm {p q : PS} (hp : p.WF) (hq : q.WF) (hl : p.len = q.len) :
    PS.multiply p q = PS.multiply q p := by
  obtain ⟨v, rfl, hv⟩ := exists_letters hp
  obtain ⟨w, rfl, hw⟩ := exists_letters hq
  have h : v.length = w.length := by rw [hv, hw, hl]
  rw [multiply_ofLetters h, multiply_ofLetters h.symm, wmul_comm]

/-- the edge condition of the commutator graph is symmetric in `P`, `Q` -/
theorem commutator_cond_symm {n : Nat} {G : List PS} (hG : Uniform n G) {P Q : PS}
    (hP : P.WF ∧ P.len = n) (hQ : Q.WF ∧ Q.len = n)
    (h : ∃ g ∈ G, anti g P ∧ PS.multiply P g = .ok Q) :
    ∃ g ∈ G, anti g Q ∧ PS.multiply Q g = .ok P := by
  obtain ⟨g, hg, h1, h2⟩ := h
  obtain ⟨hgw, hgl⟩ := hG g hg
  have hlen : g.len = P.len := hgl.trans hP.2.symm
  rw [multiply_comm hP.1 hgw hlen.symm] at h2
  obtain ⟨_, _, h3, h4⟩ := multiply_facts hgw hP.1 hlen h2
  refine ⟨g, hg, ?_, ?_⟩
  · unfold anti at h1 ⊢; rw [h3, h1]
  · rw [multiply_comm hQ.1 hgw (hQ.2.trans hgl.symm)]; exact h4

theorem subgraph_aux {n : Nat} {G : List PS} (hG : Uniform n G) :
    (∀ e ∈ subgraphEdges G, e.1 ∈ G ∧ e.2 ∈ G) ∧
    (∀ c ∈ components G (subgraphEdges G), ∀ x ∈ c, x ∈ G) := by
  have hE : ∀ e ∈ subgraphEdges G, e.1 ∈ G ∧ e.2 ∈ G := by
    rintro ⟨a, b⟩ he
    exact mem_of_mem_combinations2 ((mem_subgraphEdges hG a b).mp he).1
  refine ⟨hE, ?_⟩
  intro c hc x hx
  obtain ⟨_, _, _, _, hn, _⟩ := (components_spec G (subgraphEdges G)
    (fun e he => ⟨containsPS_of_mem (hE e he).1, containsPS_of_mem (hE e he).2⟩)).1 c hc
  rcases (hn x hx).2 with h | ⟨e, he, h | h⟩
  · exact h
  · rw [h]; exact (hE e he).1
  · rw [h]; exact (hE e he).2


end C14
end PauLie
