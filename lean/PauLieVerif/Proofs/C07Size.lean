/-
Size, length and distinctness of the universal set in closed form (`uLetters`),
for ALL `N` and `2 ≤ k < N`.
-/
import PauLieVerif.Proofs.C07Lemmas
import Mathlib.Data.List.Nodup

namespace PauLie
namespace C07

open List

theorem getElem?_single (n i p : Nat) (l : Letter) :
    (single n i l)[p]? = if p < n then (if i = p then some l else some Letter.I) else none := by
  simp only [single, getElem?_set, getElem?_replicate, length_replicate]
  by_cases hp : p < n
  · by_cases hip : i = p
    · subst hip; simp [hp]
    · simp [hp, hip]
  · by_cases hip : i = p
    · subst hip; simp [hp]
    · simp [hp, hip]

theorem single_inj {n i j : Nat} {l m : Letter} (hi : i < n) (hl : l ≠ Letter.I)
    (h : single n i l = single n j m) : i = j ∧ l = m := by
  have h1 := congrArg (fun w => w[i]?) h
  simp only [getElem?_single, hi, if_true] at h1
  by_cases hji : j = i
  · subst hji
    simp at h1
    exact ⟨rfl, h1⟩
  · simp [hji] at h1
    exact absurd h1 hl

theorem single_ne_replicate {n i : Nat} {l m : Letter} (hn : 2 ≤ n) (hm : m ≠ Letter.I) :
    single n i l ≠ replicate n m := by
  intro h
  -- a site different from `i`
  have h1 := congrArg (fun w => w[if i = 0 then 1 else 0]?) h
  simp only [getElem?_single, getElem?_replicate] at h1
  by_cases hi : i = 0
  · subst hi
    have : (1 : Nat) < n := by omega
    simp [this] at h1
    exact hm h1.symm
  · have : (0 : Nat) < n := by omega
    simp [hi, this] at h1
    exact hm h1.symm

theorem single_ne_ident {n i : Nat} {l : Letter} (hi : i < n) (hl : l ≠ Letter.I) :
    single n i l ≠ ident n := by
  intro h
  have h1 := congrArg (fun w => w[i]?) h
  simp only [getElem?_single, getElem?_replicate, hi, if_true] at h1
  simp at h1
  exact hl h1

theorem length_flatten_pairs {α : Type} (f g : Nat → α) (l : List Nat) :
    ((l.map (fun i => [f i, g i])).flatten).length = 2 * l.length := by
  induction l with
  | nil => rfl
  | cons a t ih => simp [ih]; omega

theorem length_leftLetters (k : Nat) : (leftLetters k).length = 2 * k + 1 := by
  rw [leftLetters, length_append, length_flatten_pairs]
  simp

theorem mem_leftLetters {k : Nat} {a : List Letter} :
    a ∈ leftLetters k ↔ (∃ i, i < k ∧ (a = single k i .X ∨ a = single k i .Z)) ∨ a = replicate k Letter.Z := by
  simp only [leftLetters, mem_append, mem_flatten, mem_map, mem_range, mem_singleton]
  constructor
  · rintro (⟨l, ⟨i, hi, rfl⟩, ha⟩ | h)
    · left
      refine ⟨i, hi, ?_⟩
      simpa using ha
    · exact Or.inr h
  · rintro (⟨i, hi, ha⟩ | h)
    · left
      exact ⟨_, ⟨i, hi, rfl⟩, by simpa using ha⟩
    · exact Or.inr h

theorem length_of_mem_leftLetters {k : Nat} {a : List Letter} (h : a ∈ leftLetters k) : a.length = k := by
  rcases mem_leftLetters.mp h with ⟨i, _, rfl | rfl⟩ | rfl <;> simp

theorem nodup_leftLetters {k : Nat} (hk : 2 ≤ k) : (leftLetters k).Nodup := by
  unfold leftLetters
  rw [nodup_append]
  refine ⟨?_, by simp, ?_⟩
  · rw [nodup_flatten]
    constructor
    · intro l hl
      obtain ⟨i, hi, rfl⟩ := mem_map.mp hl
      have hi' : i < k := mem_range.mp hi
      simp only [nodup_cons, mem_singleton, not_mem_nil, not_false_eq_true, nodup_nil, and_true]
      intro h
      have := (single_inj hi' (by decide) h).2
      cases this
    · rw [pairwise_map]
      refine Pairwise.imp_of_mem ?_ (pairwise_lt_range (n := k))
      intro a b ha hb hab
      have hak : a < k := mem_range.mp ha
      intro x hx1 hx2
      simp only [mem_cons, not_mem_nil, or_false] at hx1 hx2
      rcases hx1 with rfl | rfl <;> rcases hx2 with h | h <;>
      · have := (single_inj hak (by decide) h).1
        omega
  · intro a ha b hb
    simp only [mem_singleton] at hb
    subst hb
    obtain ⟨l, hl, hal⟩ := mem_flatten.mp ha
    obtain ⟨i, _, rfl⟩ := mem_map.mp hl
    simp only [mem_cons, not_mem_nil, or_false] at hal
    rcases hal with rfl | rfl <;> exact single_ne_replicate hk (by decide)

/-- every member of the universal set is a text of length `N` -/
theorem length_of_mem_uLetters {N k : Nat} (hkN : k ≤ N) {w : List Letter} (h : w ∈ uLetters N k) :
    w.length = N := by
  simp only [uLetters, mem_append, mem_map] at h
  rcases h with ⟨a, ha, rfl⟩ | ⟨b, hb, rfl⟩
  · simp [length_of_mem_leftLetters ha]; omega
  · rcases hb with ⟨j, _, rfl⟩ | ⟨j, _, rfl⟩ <;> simp <;> omega

theorem length_uLetters (N k : Nat) (hkN : k ≤ N) : (uLetters N k).length = 2 * N + 1 := by
  simp [uLetters, length_leftLetters]
  omega

theorem nodup_uLetters {N k : Nat} (hk : 2 ≤ k) : (uLetters N k).Nodup := by
  unfold uLetters
  rw [nodup_append]
  refine ⟨?_, ?_, ?_⟩
  · exact Nodup.map_on (fun x _ y _ h => append_cancel_right h) (nodup_leftLetters hk)
  · refine Nodup.map_on (fun x _ y _ h => append_cancel_left h) ?_
    rw [nodup_append]
    refine ⟨?_, ?_, ?_⟩
    · refine Nodup.map_on ?_ nodup_range
      intro x hx y _ h
      exact (single_inj (mem_range.mp hx) (by decide) h).1
    · refine Nodup.map_on ?_ nodup_range
      intro x hx y _ h
      exact (single_inj (mem_range.mp hx) (by decide) h).1
    · intro a ha b hb
      obtain ⟨i, hi, rfl⟩ := mem_map.mp ha
      obtain ⟨j, _, rfl⟩ := mem_map.mp hb
      intro h
      have := (single_inj (mem_range.mp hi) (by decide) h).2
      cases this
  · intro a ha b hb h
    obtain ⟨a', ha', rfl⟩ := mem_map.mp ha
    obtain ⟨b', hb', rfl⟩ := mem_map.mp hb
    have hl : a'.length = (single k 0 Letter.X).length := by
      rw [length_of_mem_leftLetters ha', length_single]
    have h2 := (append_inj h hl).2
    rcases mem_append.mp hb' with hb' | hb' <;>
    · obtain ⟨j, hj, rfl⟩ := mem_map.mp hb'
      exact single_ne_ident (mem_range.mp hj) (by decide) h2.symm

theorem ofLetters_injective : Function.Injective PS.ofLetters := by
  intro a b h
  have := congrArg PS.letters h
  simpa [C18.letters_ofLetters] using this

end C07
end PauLie
