/-
Property C02 at the level of the whole collection: `classify` reduces every connected component on
its own (`get_subgraphs`, proved a partition in `Properties/C14.lean`); the per-component statements
of `Proofs/C02Build.lean` add up.
-/
import PauLieVerif.Proofs.C02Build
import PauLieVerif.Properties.C14

namespace PauLie
namespace C02
open Closure Morph MorphG Classify

theorem cloEq_append {A A' B B' : List V} (h1 : CloEq A A') (h2 : CloEq B B') :
    CloEq (A ++ B) (A' ++ B') := by
  intro x
  apply clo_eq_of_mutual
  · intro g hg
    rcases List.mem_append.1 hg with h | h
    · exact clo_mono (fun _ h' => List.mem_append_left _ h') ((h1 g).1 (Clo.base h))
    · exact clo_mono (fun _ h' => List.mem_append_right _ h') ((h2 g).1 (Clo.base h))
  · intro g hg
    rcases List.mem_append.1 hg with h | h
    · exact clo_mono (fun _ h' => List.mem_append_left _ h') ((h1 g).2 (Clo.base h))
    · exact clo_mono (fun _ h' => List.mem_append_right _ h') ((h2 g).2 (Clo.base h))

/-- what `classify` does with the list of components -/
def morphOf (sub : List PS) : Except Err MorphR := do
  let r ← Morph.build sub
  return ⟨r.legs, r.dependents, r.unappended, r.tags, r.complete⟩

theorem classify_eq (G : List PS) : classify G = (Graph.getSubgraphs G >>= fun subs => subs.mapM morphOf) := rfl

theorem mapM_sound {n : Nat} : ∀ (subs : List (List PS)) (ms : List MorphR),
    subs.mapM morphOf = .ok ms →
    (∀ sub ∈ subs, (∀ g ∈ sub, g.bits.length = 2 * n) ∧ guardsHold sub = true) →
    (∀ m ∈ ms, m.complete = true ∧ m.unappended = []) →
    CloEq (bitsOf (verticesOf ms)) (bitsOf subs.flatten) ∧
      ∀ d ∈ dependentsOf ms, Clo (bitsOf subs.flatten) d.bits
  | [], ms, h, _, _ => by
    simp only [List.mapM_nil, pure, Except.pure, Except.ok.injEq] at h
    subst h
    exact ⟨CloEq.refl _, fun d hd => by simp [dependentsOf] at hd⟩
  | sub :: rest, ms, h, hs, hm => by
    rw [List.mapM_cons] at h
    cases hb : morphOf sub with
    | error e => rw [hb] at h; simp [bind, Except.bind] at h
    | ok m =>
      rw [hb] at h
      cases hr : rest.mapM morphOf with
      | error e => rw [hr] at h; simp [bind, Except.bind] at h
      | ok ms' =>
        rw [hr] at h
        simp only [bind, Except.bind, pure, Except.pure, Except.ok.injEq] at h
        subst h
        unfold morphOf at hb
        cases hbd : Morph.build sub with
        | error e => rw [hbd] at hb; simp [bind, Except.bind] at hb
        | ok r =>
          rw [hbd] at hb
          simp only [bind, Except.bind, pure, Except.pure, Except.ok.injEq] at hb
          subst hb
          obtain ⟨hlen, hg⟩ := hs sub (by simp)
          obtain ⟨hc, hu⟩ := hm _ (List.mem_cons_self ..)
          obtain ⟨h1, h2⟩ := build_sound hlen hbd hg hc hu
          obtain ⟨i1, i2⟩ := mapM_sound rest ms' hr (fun s hs' => hs s (List.mem_cons_of_mem _ hs'))
            (fun m hm' => hm m (List.mem_cons_of_mem _ hm'))
          constructor
          · simp only [verticesOf, List.map_cons, List.flatten_cons, bitsOf_append]
            exact cloEq_append h1 i1
          · intro d hd
            simp only [dependentsOf, List.map_cons, List.flatten_cons, List.mem_append] at hd
            simp only [List.flatten_cons, bitsOf_append]
            rcases hd with hd | hd
            · exact clo_mono (fun _ h' => List.mem_append_left _ h') (h2 d hd)
            · exact clo_mono (fun _ h' => List.mem_append_right _ h') (i2 d hd)

/-- the collection-level statement -/
theorem classify_sound {n : Nat} {G : List PS} (hG : C14.Uniform n G) {ms : List MorphR}
    (h : classify G = .ok ms)
    (hg : ∀ subs, Graph.getSubgraphs G = .ok subs → ∀ sub ∈ subs, guardsHold sub = true)
    (hm : ∀ m ∈ ms, m.complete = true ∧ m.unappended = []) :
    CloEq (bitsOf (verticesOf ms)) (bitsOf G) ∧ ∀ d ∈ dependentsOf ms, Clo (bitsOf G) d.bits := by
  obtain ⟨cs, hcs, _, hsub, _, _, hmem⟩ := C14.C14_subgraphs_partition hG
  rw [classify_eq, hcs] at h
  have h' : cs.mapM morphOf = .ok ms := h
  have hbits : ∀ g ∈ G, g.bits.length = 2 * n := by
    intro g hg'
    obtain ⟨hwf, hl⟩ := hG g hg'
    unfold PS.len at hl
    have := hwf.2.2
    omega
  obtain ⟨a, b⟩ := mapM_sound (n := n) cs ms h'
    (fun sub hs => ⟨fun g hg' => hbits g ((hsub sub hs).2.2 g hg'), hg cs hcs sub hs⟩) hm
  have hsame : CloEq (bitsOf cs.flatten) (bitsOf G) := cloEq_of_same_members (by
    intro x
    simp only [mem_bitsOf]
    constructor
    · rintro ⟨q, hq, rfl⟩; exact ⟨q, (hmem q).1 hq, rfl⟩
    · rintro ⟨q, hq, rfl⟩; exact ⟨q, (hmem q).2 hq, rfl⟩)
  exact ⟨CloEq.trans a hsame, fun d hd => (hsame d.bits).1 (b d hd)⟩

end C02
end PauLie
