/-
Property C02: every step of the guarded pipeline (`Model/MorphG.lean`) preserves the invariant
`Inv` of `Proofs/C02Prims.lean` on every exit — each step is a composition of guarded primitives
and lifted reads, walked through by `pres1`.
-/
import PauLieVerif.Proofs.C02Prims

namespace PauLie
namespace C02
open Closure Morph MorphG C11L

/-- a state predicate that every guarded primitive (and every lifted read) preserves on every exit -/
structure PrimPres (P : MG → Prop) : Prop where
  lift : ∀ {α} (x : MFM α) [Keeps x], Pres P (monadLift x : GM α)
  litG : ∀ l v, Pres P (litG l v)
  appendG : ∀ v lt, Pres P (appendG v lt)
  removeG : ∀ v, Pres P (removeG v)
  replaceG : ∀ v w, Pres P (replaceG v w)
  appendDelayedG : ∀ v, Pres P (appendDelayedG v)
  checkDepG : ∀ x, Pres P (checkDepG x)
  initLegsG : ∀ l, Pres P (initLegsG l)
  dependIncludedG : ∀ l, Pres P (dependIncludedG l)
  uncertifiedG : Pres P uncertifiedG

/-- the invariant of property C02 is such a predicate -/
theorem primPres_inv (c : Ctx) (hE : FrameLen c) : PrimPres (Inv c) where
  lift x := pres_lift c x
  litG := pres_litG c hE
  appendG := pres_appendG c
  removeG := pres_removeG c
  replaceG := pres_replaceG c
  appendDelayedG := pres_appendDelayedG c
  checkDepG := pres_checkDepG c
  initLegsG := pres_initLegsG c
  dependIncludedG := pres_dependIncludedG c
  uncertifiedG := pres_uncertifiedG c

section
variable {P : MG → Prop} (hP : PrimPres P)
include hP

macro "pres1" : tactic => `(tactic| first
  | with_reducible exact pres_pure _
  | with_reducible exact pres_throw _
  | with_reducible exact PrimPres.lift ‹_› _
  | with_reducible exact PrimPres.litG ‹_› _ _
  | with_reducible exact PrimPres.appendG ‹_› _ _
  | with_reducible exact PrimPres.removeG ‹_› _
  | with_reducible exact PrimPres.replaceG ‹_› _ _
  | with_reducible exact PrimPres.appendDelayedG ‹_› _
  | with_reducible exact PrimPres.checkDepG ‹_› _
  | with_reducible exact PrimPres.initLegsG ‹_› _
  | with_reducible exact PrimPres.dependIncludedG ‹_› _
  | with_reducible exact PrimPres.uncertifiedG ‹_›
  | with_reducible apply pres_ite
  | with_reducible apply pres_forIn
  | with_reducible apply pres_foldlM
  | with_reducible apply pres_bind
  | with_reducible intro _
  | split
  | dsimp only)

theorem pres_appendToCenter (l : PS) : Pres P (appendToCenterG l) := by
  unfold appendToCenterG
  repeat' pres1

theorem pres_twoCenter (l : PS) : Pres P (appendToTwoCenterG l) := by
  unfold appendToTwoCenterG
  repeat' pres1

theorem pres_truncate : Pres P truncateLongLegG := by
  unfold truncateLongLegG
  repeat' pres1

theorem pres_litSeq (l : PS) (vs : List PS) : Pres P (litSeqG l vs) := by
  unfold litSeqG
  exact pres_foldlM _ (fun a b => hP.litG a b) vs l

macro "pres_steps" : tactic => `(tactic| repeat' (first
  | with_reducible exact pres_litSeq ‹_› _ _
  | with_reducible exact pres_twoCenter ‹_› _
  | with_reducible exact pres_appendToCenter ‹_› _
  | with_reducible exact pres_truncate ‹_›
  | pres1))

theorem pres_stepI : Pres P appendThreeGraphG := by
  unfold appendThreeGraphG
  pres_steps

theorem pres_stepII : Pres P appendOneLegsInDifferentStateG := by
  unfold appendOneLegsInDifferentStateG
  pres_steps

theorem pres_fast : Pres P appendFastG := by
  unfold appendFastG
  pres_steps

theorem pres_litCenter : Pres P litCenterG := by
  unfold litCenterG
  pres_steps

macro "pl" : tactic => `(tactic| (apply pres_bind; (· exact PrimPres.lift ‹_› _); intro _))

/-- Step III; the join points of the `do` block are extracted and proved once -/
theorem pres_stepIII : Pres P litOnlyLongLegG := by
  unfold litOnlyLongLegG
  pl; pl; pl; pl; pl
  extract_lets j j'
  have hj : ∀ r l, Pres P (j r l) := by
    intro r l
    simp -zeta only [j]
    pl; pl
    extract_lets k
    have hk : ∀ r t, Pres P (k r t) := by
      intro r t
      simp -zeta only [k]
      apply pres_ite
      · pl; exact pres_pure _
      · pl
        extract_lets p4 p3
        have h4 : ∀ r l, Pres P (p4 r l) := by
          intro r l
          simp -zeta only [p4]
          pres_steps
        have h3 : ∀ r l, Pres P (p3 r l) := by
          intro r l
          simp -zeta only [p3]
          pl
          extract_lets li q5
          have h5 : ∀ r, Pres P (q5 r) := by
            intro r
            simp -zeta only [q5]
            repeat' (first | with_reducible exact h4 () _ | pres1)
          clear_value q5
          repeat' (first | with_reducible exact h4 () _ | with_reducible exact h5 _ | pres1)
        clear_value p4 p3
        repeat' (first | with_reducible exact h3 () _ | with_reducible exact pres_litSeq ‹_› _ _ | pres1)
    clear_value k
    repeat' (first | with_reducible exact hk () _ | pres1)
  have hj' : ∀ r l, Pres P (j' r l) := by
    intro r l
    simp only [j']
    apply pres_bind (hP.litG _ _); intro _
    exact hj () _
  clear_value j j'
  repeat' (first | with_reducible exact hj () _ | with_reducible exact hj' () _ | pres1)

theorem pres_reduceRound (ll : List PS) (n : Nat) (l : PS) : Pres P (reduceRoundG ll n l) := by
  unfold reduceRoundG
  pres_steps

theorem pres_reduceLoop (ll : List PS) (n : Nat) : ∀ (fuel : Nat) (l : PS),
    Pres P (reduceLoopG ll n fuel l)
  | 0, l => by unfold reduceLoopG; exact pres_throw _
  | fuel + 1, l => by
    unfold reduceLoopG
    apply pres_bind (pres_reduceRound hP ll n l)
    intro r
    cases r with
    | none => exact pres_pure _
    | some l' => exact pres_reduceLoop ll n fuel l'

theorem pres_stepIV : Pres P reduceLongLegMoreThanOneLitsG := by
  unfold reduceLongLegMoreThanOneLitsG
  repeat' (first | with_reducible exact pres_reduceLoop ‹_› _ _ _ _ | pres1)

theorem pres_stepV : Pres P appendLongLegFirstAndCenterLitG := by
  unfold appendLongLegFirstAndCenterLitG
  pres_steps

theorem pres_stepVI : Pres P appendLongLegOnlyLastLitG := by
  unfold appendLongLegOnlyLastLitG
  pres_steps

theorem pres_stepVII : Pres P appendLongLegLastAndFirstLitG := by
  unfold appendLongLegLastAndFirstLitG
  pres_steps

/-- the pipeline after the candidate has been taken in hand -/
def pipelineBodyG : GM Unit := do
  appendThreeGraphG
  appendOneLegsInDifferentStateG
  appendFastG
  litOnlyLongLegG
  litCenterG
  reduceLongLegMoreThanOneLitsG
  appendLongLegFirstAndCenterLitG
  appendLongLegOnlyLastLitG
  appendLongLegLastAndFirstLitG

theorem pres_pipelineBody : Pres P pipelineBodyG := by
  unfold pipelineBodyG
  repeat' (first
    | with_reducible exact pres_stepI ‹_›
    | with_reducible exact pres_stepII ‹_›
    | with_reducible exact pres_fast ‹_›
    | with_reducible exact pres_stepIII ‹_›
    | with_reducible exact pres_litCenter ‹_›
    | with_reducible exact pres_stepIV ‹_›
    | with_reducible exact pres_stepV ‹_›
    | with_reducible exact pres_stepVI ‹_›
    | with_reducible exact pres_stepVII ‹_›
    | pres1)

end
end C02
end PauLie
