/-
Property C02: every step of the guarded pipeline (`Model/MorphG.lean`) preserves the invariant
`Inv` of `Proofs/C02Prims.lean` on every exit — each step is a composition of guarded primitives
and lifted reads, walked through by `pres1`.
-/
import PauLieVerif.Proofs.C02Prims

namespace PauLie
namespace C02
open Closure Morph MorphG C11L

-- every step lemma takes the frame hypothesis `hE`, whether or not the step contains a `lit`
set_option linter.unusedSectionVars false

section
variable (c : Ctx) (hE : FrameLen c)
include hE

macro "pres1" : tactic => `(tactic| first
  | with_reducible exact pres_pure _
  | with_reducible exact pres_throw _
  | with_reducible exact pres_lift _ _
  | with_reducible exact pres_litG _ ‹_› _ _
  | with_reducible exact pres_appendG _ _ _
  | with_reducible exact pres_removeG _ _
  | with_reducible exact pres_replaceG _ _ _
  | with_reducible exact pres_appendDelayedG _ _
  | with_reducible exact pres_checkDepG _ _
  | with_reducible exact pres_initLegsG _ _
  | with_reducible exact pres_dependIncludedG _ _
  | with_reducible exact pres_uncertifiedG _
  | with_reducible apply pres_ite
  | with_reducible apply pres_forIn
  | with_reducible apply pres_foldlM
  | with_reducible apply pres_bind
  | with_reducible intro _
  | split
  | dsimp only)

theorem pres_appendToCenter (l : PS) : Pres (Inv c) (appendToCenterG l) := by
  unfold appendToCenterG
  repeat' pres1

theorem pres_twoCenter (l : PS) : Pres (Inv c) (appendToTwoCenterG l) := by
  unfold appendToTwoCenterG
  repeat' pres1

theorem pres_truncate : Pres (Inv c) truncateLongLegG := by
  unfold truncateLongLegG
  repeat' pres1

theorem pres_litSeq (l : PS) (vs : List PS) : Pres (Inv c) (litSeqG l vs) := by
  unfold litSeqG
  exact pres_foldlM _ (fun a b => pres_litG c hE a b) vs l

macro "pres_steps" : tactic => `(tactic| repeat' (first
  | with_reducible exact pres_litSeq _ ‹_› _ _
  | with_reducible exact pres_twoCenter _ ‹_› _
  | with_reducible exact pres_appendToCenter _ ‹_› _
  | with_reducible exact pres_truncate _ ‹_›
  | pres1))

theorem pres_stepI : Pres (Inv c) appendThreeGraphG := by
  unfold appendThreeGraphG
  pres_steps

theorem pres_stepII : Pres (Inv c) appendOneLegsInDifferentStateG := by
  unfold appendOneLegsInDifferentStateG
  pres_steps

theorem pres_fast : Pres (Inv c) appendFastG := by
  unfold appendFastG
  pres_steps

theorem pres_litCenter : Pres (Inv c) litCenterG := by
  unfold litCenterG
  pres_steps

macro "pl" : tactic => `(tactic| (apply pres_bind (pres_lift _ _); intro _))

/-- Step III; the join points of the `do` block are extracted and proved once -/
theorem pres_stepIII : Pres (Inv c) litOnlyLongLegG := by
  unfold litOnlyLongLegG
  pl; pl; pl; pl; pl
  extract_lets j j'
  have hj : ∀ r l, Pres (Inv c) (j r l) := by
    intro r l
    simp -zeta only [j]
    pl; pl
    extract_lets k
    have hk : ∀ r t, Pres (Inv c) (k r t) := by
      intro r t
      simp -zeta only [k]
      apply pres_ite
      · pl; exact pres_pure _
      · pl
        extract_lets p4 p3
        have h4 : ∀ r l, Pres (Inv c) (p4 r l) := by
          intro r l
          simp -zeta only [p4]
          pres_steps
        have h3 : ∀ r l, Pres (Inv c) (p3 r l) := by
          intro r l
          simp -zeta only [p3]
          pl
          extract_lets li q5
          have h5 : ∀ r, Pres (Inv c) (q5 r) := by
            intro r
            simp -zeta only [q5]
            repeat' (first | with_reducible exact h4 () _ | pres1)
          clear_value q5
          repeat' (first | with_reducible exact h4 () _ | with_reducible exact h5 _ | pres1)
        clear_value p4 p3
        repeat' (first | with_reducible exact h3 () _ | with_reducible exact pres_litSeq _ ‹_› _ _ | pres1)
    clear_value k
    repeat' (first | with_reducible exact hk () _ | pres1)
  have hj' : ∀ r l, Pres (Inv c) (j' r l) := by
    intro r l
    simp only [j']
    apply pres_bind (pres_litG c hE _ _); intro _
    exact hj () _
  clear_value j j'
  repeat' (first | with_reducible exact hj () _ | with_reducible exact hj' () _ | pres1)

theorem pres_reduceRound (ll : List PS) (n : Nat) (l : PS) : Pres (Inv c) (reduceRoundG ll n l) := by
  unfold reduceRoundG
  pres_steps

theorem pres_reduceLoop (ll : List PS) (n : Nat) : ∀ (fuel : Nat) (l : PS),
    Pres (Inv c) (reduceLoopG ll n fuel l)
  | 0, l => by unfold reduceLoopG; exact pres_throw _
  | fuel + 1, l => by
    unfold reduceLoopG
    apply pres_bind (pres_reduceRound c hE ll n l)
    intro r
    cases r with
    | none => exact pres_pure _
    | some l' => exact pres_reduceLoop ll n fuel l'

theorem pres_stepIV : Pres (Inv c) reduceLongLegMoreThanOneLitsG := by
  unfold reduceLongLegMoreThanOneLitsG
  repeat' (first | with_reducible exact pres_reduceLoop _ ‹_› _ _ _ _ | pres1)

theorem pres_stepV : Pres (Inv c) appendLongLegFirstAndCenterLitG := by
  unfold appendLongLegFirstAndCenterLitG
  pres_steps

theorem pres_stepVI : Pres (Inv c) appendLongLegOnlyLastLitG := by
  unfold appendLongLegOnlyLastLitG
  pres_steps

theorem pres_stepVII : Pres (Inv c) appendLongLegLastAndFirstLitG := by
  unfold appendLongLegLastAndFirstLitG
  pres_steps

/-- the pipeline after the candidate has been taken in hand -/
def pipelineBodyG : GM Unit := do
  appendThreeGraphG
  appendOneLegsInDifferentStateG
  appendFastG
  litOnlyLongLegG
  litCenterG
  reduceLongLegMoreThanOneLitsG
  appendLongLegFirstAndCenterLitG
  appendLongLegOnlyLastLitG
  appendLongLegLastAndFirstLitG

theorem pres_pipelineBody : Pres (Inv c) pipelineBodyG := by
  unfold pipelineBodyG
  repeat' (first
    | with_reducible exact pres_stepI _ ‹_›
    | with_reducible exact pres_stepII _ ‹_›
    | with_reducible exact pres_fast _ ‹_›
    | with_reducible exact pres_stepIII _ ‹_›
    | with_reducible exact pres_litCenter _ ‹_›
    | with_reducible exact pres_stepIV _ ‹_›
    | with_reducible exact pres_stepV _ ‹_›
    | with_reducible exact pres_stepVI _ ‹_›
    | with_reducible exact pres_stepVII _ ‹_›
    | pres1)

end
end C02
end PauLie
