/-
Helper lemmas for the completeness half of property C16, part 3: the assembly.

`commutant_orth_zero`: an operator on `2n` qubits that commutes with every `g ⊗ 1 + 1 ⊗ g`
and is trace-orthogonal to every returned symmetry is zero.  Proof: all its Pauli
coefficients `tr((M p ⊗ M q)ᴴ R)` vanish —
  * if some member anticommutes with exactly one of `p`, `q`: `support_pauli`;
  * otherwise `l = q·p` is a linear symmetry, `M q = φ M l M p`, `p` lies in a component `c`,
    the coefficient of `M s ⊗ M l M s` is constant on `c` (`conn_const`), and `|c|` times this
    constant is `tr(Q_{c,l}ᴴ R) = 0` (a symmetry that the zero filter removed is the zero
    matrix, so the pairing vanishes in that case too) —
and the Pauli-string matrices span (`eq_zero_of_pauli_orth`).

Consequences: every member of the commutant equals its projection (`commutant_eq_proj`), the
commutant is the span of the symmetries and its dimension is their number
(`length_eq_finrank`).
-/
import PauLieVerif.Proofs.C16Complete2
import PauLieVerif.Proofs.C16Indep

namespace PauLie
namespace C16

open Matrix Complex C12 C04 C14 Graph SecondMoment

theorem ip_zero_left {ι : Type} [Fintype ι] (B : Matrix ι ι ℂ) : ip (0 : Matrix ι ι ℂ) B = 0 := by
  simp [ip]

/-- every letter vector is the vector of a synchronised string -/
theorem exists_ps_vec {n : ℕ} (P : Fin n → Letter) : ∃ p : PS, (p.WF ∧ p.len = n) ∧ p.vec n = P := by
  refine ⟨PS.ofLetters (List.ofFn P), ⟨WF_ofLetters _, ?_⟩, ?_⟩
  · rw [C04.len_ofLetters, List.length_ofFn]
  · rw [PS.vec, C04.letters_ofLetters, vecOf_ofFn]

/-- all coefficients on pairs `(p, q)` vanish -/
theorem coeff_zero {n : ℕ} {G : List PS} (hG : Uniform n G) (hne : G ≠ []) {basis : List Lin}
    (hb : getFullQuadraticBasis G = .ok basis) (R : Mat (n + n))
    (hR : ∀ g ∈ G, R * gg n g = gg n g * R)
    (hO : ∀ q ∈ basis, ip (den (n + n) q) R = 0)
    {p q : PS} (hp : p.WF ∧ p.len = n) (hq : q.WF ∧ q.len = n) :
    ip (tens (M (p.vec n)) (M (q.vec n))) R = 0 := by
  by_cases hsym : ∀ g ∈ G, (anti g p ↔ anti g q)
  swap
  · obtain ⟨g, hsym⟩ := not_forall.mp hsym
    obtain ⟨hg, hng⟩ := Classical.not_imp.mp hsym
    exact support_pauli (hG g hg) hp hq (hR g hg) hng
  obtain ⟨cs, L, hL, hcs, hcomp, _, hLv, _, hLc, hb'⟩ := basis_spec hG hne
  obtain rfl : (fullList cs L).filter (fun q => !Lin.isZero q) = basis := by
    rw [hb] at hb'; exact (Except.ok.inj hb').symm
  obtain ⟨L', hL', hLmem, _, _⟩ := C14_commutants hG hne
  have hLL : L' = L := by rw [hL] at hL'; exact (Except.ok.inj hL').symm
  rw [hLL] at hLmem
  have hV : ∀ c ∈ cs, VList n c := fun c hc => (hcomp c hc).2.2.1
  obtain ⟨E, hedge, hroot, hcover⟩ := comps_conn hG hne hcs hV
  -- the linear symmetry l = q·p
  obtain ⟨k, l, _, _, _, hlw, hll, hprod⟩ := C04_mul n q p hq.1 hp.1 hq.2 hp.2
  have hlv : l.WF ∧ l.len = n := ⟨hlw, hll⟩
  set φ : ℂ := (-I) ^ k with hφ
  have hφ0 : φ ≠ 0 := pow_ne_zero _ (neg_ne_zero.mpr Complex.I_ne_zero)
  have hMl : M (l.vec n) = φ⁻¹ • (M (q.vec n) * M (p.vec n)) := by
    rw [hprod, smul_smul, inv_mul_cancel₀ hφ0, one_smul]
  have hlc : ∀ g ∈ G, PS.commutesWith g l = .ok true := by
    intro g hg
    obtain ⟨b, hb1, hb2⟩ := C04_commutes n g l (hG g hg).1 hlw (hG g hg).2 hll
    have hcm : Commute (M (g.vec n)) (M (l.vec n)) := by
      have hqp : M (g.vec n) * (M (q.vec n) * M (p.vec n))
          = (M (q.vec n) * M (p.vec n)) * M (g.vec n) := by
        rcases comm_cases (hG g hg) hp with ⟨cp, mp⟩ | ⟨ap, mp⟩ <;>
          rcases comm_cases (hG g hg) hq with ⟨cq, mq⟩ | ⟨aq, mq⟩
        · rw [← Matrix.mul_assoc, mq, Matrix.mul_assoc, mp, Matrix.mul_assoc]
        · exact absurd ((hsym g hg).mpr aq) (not_anti_of_comm cp)
        · exact absurd ((hsym g hg).mp ap) (not_anti_of_comm cq)
        · rw [← Matrix.mul_assoc, mq, Matrix.neg_mul, Matrix.mul_assoc, mp, Matrix.mul_neg,
            neg_neg, Matrix.mul_assoc]
      show M (g.vec n) * M (l.vec n) = M (l.vec n) * M (g.vec n)
      rw [hMl, Matrix.mul_smul, hqp, Matrix.smul_mul]
    rw [hb1, hb2.mpr hcm]
  have hlL : l ∈ L := (hLmem l).mpr ⟨hlw, hll, hlc⟩
  -- M q = φ • (M l * M p)
  have hMq : M (q.vec n) = φ • (M (l.vec n) * M (p.vec n)) := by
    rw [hMl, Matrix.smul_mul, smul_smul, mul_inv_cancel₀ hφ0, one_smul, Matrix.mul_assoc,
      M_mul_self, Matrix.mul_one]
  have hT : tens (M (p.vec n)) (M (q.vec n)) = φ • Tm n p l := by
    rw [hMq, tens_smul_right]; rfl
  rw [hT, ip_smul_left]
  -- the component of p
  obtain ⟨c, hc, hpc⟩ := hcover p hp
  obtain ⟨r, _, hconn⟩ := hroot c hc
  have hconst : ∀ s ∈ c, ip (Tm n s l) R = ip (Tm n r l) R :=
    fun s hs => conn_const hG hedge hlv hlc hR (hconn s hs)
  -- the symmetry of (c, l) pairs to zero with R
  have hQ : ip (quadMat n c l) R = 0 := by
    obtain ⟨_, hval, hden⟩ := quadOf_spec (hV c hc) hlv
    by_cases hz : Lin.isZero (quadOf c l) = true
    · rw [← hden, (C12_isZero (n + n) _ hval).mp hz, ip_zero_left]
    · rw [← hden]
      apply hO
      exact List.mem_filter.mpr ⟨mem_fullList.mpr ⟨c, hc, l, hlL, rfl⟩, by simpa using hz⟩
  have hsum : (List.map ((fun A => ip A R) ∘ fun s => Tm n s l) c).sum
      = (c.length : ℂ) * ip (Tm n r l) R :=
    sum_map_const c _ _ (fun s hs => hconst s hs)
  rw [quadMat_eq_Tm, ip_list_sum_left, List.map_map, hsum] at hQ
  have hlen : (c.length : ℂ) ≠ 0 := by
    have : c.length ≠ 0 := fun h => (hcomp c hc).1 (List.eq_nil_of_length_eq_zero h)
    exact_mod_cast this
  rw [hconst p hpc, (mul_eq_zero.mp hQ).resolve_left hlen, mul_zero]

/-- **the key lemma**: in the commutant, orthogonal to every returned symmetry ⇒ zero -/
theorem commutant_orth_zero {n : ℕ} {G : List PS} (hG : Uniform n G) (hne : G ≠ [])
    {basis : List Lin} (hb : getFullQuadraticBasis G = .ok basis) (R : Mat (n + n))
    (hR : ∀ g ∈ G, R * gg n g = gg n g * R)
    (hO : ∀ q ∈ basis, ip (den (n + n) q) R = 0) : R = 0 := by
  apply eq_zero_of_pauli_orth
  intro P
  obtain ⟨p, hp, hpv⟩ := exists_ps_vec (fun i : Fin n => P (Fin.castAdd n i))
  obtain ⟨q, hq, hqv⟩ := exists_ps_vec (fun i : Fin n => P (Fin.natAdd n i))
  have hP : P = Fin.append (p.vec n) (q.vec n) := by
    rw [hpv, hqv]; exact (Fin.append_castAdd_natAdd (f := P)).symm
  rw [hP, M_append_tens]
  exact coeff_zero hG hne hb R hR hO hp hq

/-- **completeness**: every operator in the commutant is its own projection onto the
returned symmetries -/
theorem commutant_eq_proj {n : ℕ} {G : List PS} (hG : Uniform n G) (hne : G ≠ [])
    {basis : List Lin} (hb : getFullQuadraticBasis G = .ok basis)
    (hc : ∀ q ∈ basis, ∀ g ∈ G, den (n + n) q * gg n g = gg n g * den (n + n) q)
    (hO : Orthogonal (basis.map (den (n + n)))) (X : Mat (n + n))
    (hX : ∀ g ∈ G, X * gg n g = gg n g * X) :
    proj (basis.map (den (n + n))) X = X := by
  have h0 : X - proj (basis.map (den (n + n))) X = 0 := by
    apply commutant_orth_zero hG hne hb
    · intro g hg
      rw [Matrix.sub_mul, Matrix.mul_sub, hX g hg]
      congr 1
      apply proj_commute
      intro Q hQ
      obtain ⟨q, hq, rfl⟩ := List.mem_map.mp hQ
      exact hc q hq g hg
    · intro q hq
      exact ip_residual hO X _ (List.mem_map.mpr ⟨q, hq, rfl⟩)
  exact (eq_of_sub_eq_zero h0).symm

/-- a pairwise orthogonal family of non-zero matrices that spans a subspace: its length is
the dimension -/
theorem length_eq_finrank {ι : Type} [Fintype ι] (W : Submodule ℂ (Matrix ι ι ℂ))
    (Qs : List (Matrix ι ι ℂ)) (hO : Orthogonal Qs) (hmem : ∀ Q ∈ Qs, Q ∈ W)
    (hspan : ∀ X ∈ W, X ∈ Submodule.span ℂ {Q | Q ∈ Qs}) :
    Qs.length = Module.finrank ℂ W := by
  have hli := linearIndependent_of_orthogonal W Qs hO hmem
  have hli' : LinearIndependent ℂ (fun i : Fin Qs.length => Qs[i]) :=
    hli.map' W.subtype (Submodule.ker_subtype W)
  have hrange : Set.range (fun i : Fin Qs.length => Qs[i]) = {Q | Q ∈ Qs} := by
    ext Q
    simp only [Set.mem_range]
    show (∃ y : Fin Qs.length, Qs[y] = Q) ↔ Q ∈ Qs
    constructor
    · rintro ⟨i, rfl⟩; exact List.getElem_mem _
    · intro h
      obtain ⟨i, hi, rfl⟩ := List.getElem_of_mem h
      exact ⟨⟨i, hi⟩, rfl⟩
  have hW : W = Submodule.span ℂ (Set.range (fun i : Fin Qs.length => Qs[i])) := by
    rw [hrange]
    apply le_antisymm
    · exact fun X hX => hspan X hX
    · exact Submodule.span_le.mpr (fun Q hQ => hmem Q hQ)
  have h := finrank_span_eq_card hli'
  rw [Fintype.card_fin] at h
  rw [← h]
  exact (congrArg (fun V : Submodule ℂ (Matrix ι ι ℂ) => Module.finrank ℂ V) hW).symm

end C16
end PauLie
