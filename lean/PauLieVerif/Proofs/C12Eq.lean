/-
Helper lemmas for property C12, part 3: the dictionaries of `simplify`, `__eq__`
and `is_zero` compute the collected coefficients, so that (with linear
independence, part 2) `==` decides equality of the denoted matrices and
`is_zero` decides whether the denoted matrix vanishes.
-/
import PauLieVerif.Proofs.C12Mul

namespace PauLie
namespace C12

open Matrix Complex C04

/-- value of a key, `0` when absent (`defaultdict`) -/
def dcoef (d : Dict) (k : List Letter) : GR := (Lin.dictGet? d k).getD GR.zero

/-- the keys of the dictionary are pairwise different -/
def KeysNodup (d : Dict) : Prop := (d.map Prod.fst).Nodup

/-- collected coefficient of the *text* `k` in a term list -/
def lcoef (k : List Letter) (a : Lin) : ℂ :=
  (a.map (fun t => if t.2.letters = k then t.1.toC else 0)).sum

/-! ### `dictAdd` -/

theorem dictGet?_dictAdd (d : Dict) (k k' : List Letter) (c : GR) :
    Lin.dictGet? (Lin.dictAdd d k c) k'
      = if k = k' then some (dcoef d k + c) else Lin.dictGet? d k' := by
  induction d with
  | nil =>
    by_cases h : k = k' <;> simp [Lin.dictAdd, Lin.dictGet?, dcoef, h]
  | cons e d ih =>
    obtain ⟨k0, v⟩ := e
    unfold Lin.dictAdd
    by_cases h0 : k0 = k
    · subst h0
      by_cases h : k0 = k' <;> simp [Lin.dictGet?, dcoef, h]
    · rw [if_neg h0]
      by_cases h : k = k'
      · subst h
        simp [Lin.dictGet?, h0, ih, dcoef]
      · by_cases h1 : k0 = k' <;> simp [Lin.dictGet?, ih, h, h1]

theorem dcoef_dictAdd (d : Dict) (k k' : List Letter) (c : GR) :
    dcoef (Lin.dictAdd d k c) k' = if k = k' then dcoef d k + c else dcoef d k' := by
  unfold dcoef
  rw [dictGet?_dictAdd]
  by_cases h : k = k' <;> simp [h, dcoef]

theorem mem_keys_dictAdd (d : Dict) (k k' : List Letter) (c : GR) :
    k' ∈ (Lin.dictAdd d k c).map Prod.fst ↔ k' = k ∨ k' ∈ d.map Prod.fst := by
  induction d with
  | nil => simp [Lin.dictAdd]
  | cons e d ih =>
    obtain ⟨k0, v⟩ := e
    unfold Lin.dictAdd
    by_cases h0 : k0 = k
    · subst h0; simp
    · rw [if_neg h0, List.map_cons, List.mem_cons, ih]
      simp only [List.map_cons, List.mem_cons]
      tauto

theorem keysNodup_dictAdd {d : Dict} (k : List Letter) (c : GR) (hd : KeysNodup d) :
    KeysNodup (Lin.dictAdd d k c) := by
  induction d with
  | nil => simp [Lin.dictAdd, KeysNodup]
  | cons e d ih =>
    obtain ⟨k0, v⟩ := e
    have hd' : k0 ∉ d.map Prod.fst ∧ KeysNodup d := by
      simpa [KeysNodup, List.nodup_cons] using hd
    unfold Lin.dictAdd
    by_cases h0 : k0 = k
    · subst h0
      simpa [KeysNodup, List.nodup_cons] using hd
    · rw [if_neg h0]
      show ((k0 :: (Lin.dictAdd d k c).map Prod.fst)).Nodup
      rw [List.nodup_cons, mem_keys_dictAdd]
      exact ⟨fun h => h.elim h0 hd'.1, ih hd'.2⟩

theorem keysNodup_sumInto {d : Dict} (l : Lin) (hd : KeysNodup d) : KeysNodup (Lin.sumInto d l) := by
  induction l generalizing d with
  | nil => exact hd
  | cons t l ih => exact ih (keysNodup_dictAdd _ _ hd)

theorem keysNodup_sumByKey (l : Lin) : KeysNodup (Lin.sumByKey l) :=
  keysNodup_sumInto l (by simp [KeysNodup])

theorem toC_dcoef_sumInto (d : Dict) (l : Lin) (k : List Letter) :
    (dcoef (Lin.sumInto d l) k).toC = (dcoef d k).toC + lcoef k l := by
  induction l generalizing d with
  | nil => simp [Lin.sumInto, lcoef]
  | cons t l ih =>
    rw [Lin.sumInto, ih, dcoef_dictAdd]
    have : lcoef k (t :: l) = (if t.2.letters = k then t.1.toC else 0) + lcoef k l := by
      simp [lcoef]
    rw [this]
    by_cases h : t.2.letters = k
    · subst h; simp [toC_add, add_assoc]
    · simp [h]

theorem toC_dcoef_sumByKey (l : Lin) (k : List Letter) :
    (dcoef (Lin.sumByKey l) k).toC = lcoef k l := by
  rw [Lin.sumByKey, toC_dcoef_sumInto]
  simp [dcoef, Lin.dictGet?, toC_zero]

/-! ### lookup versus membership -/

theorem mem_of_dictGet? {d : Dict} {k : List Letter} {v : GR} (h : Lin.dictGet? d k = some v) :
    (k, v) ∈ d := by
  induction d with
  | nil => simp [Lin.dictGet?] at h
  | cons e d ih =>
    obtain ⟨k0, v0⟩ := e
    unfold Lin.dictGet? at h
    by_cases h0 : k0 = k
    · rw [if_pos h0] at h
      cases h; subst h0
      exact List.mem_cons_self ..
    · rw [if_neg h0] at h
      exact List.mem_cons_of_mem _ (ih h)

theorem dictGet?_eq_none {d : Dict} {k : List Letter} (h : k ∉ d.map Prod.fst) :
    Lin.dictGet? d k = none := by
  induction d with
  | nil => rfl
  | cons e d ih =>
    obtain ⟨k0, v0⟩ := e
    simp only [List.map_cons, List.mem_cons, not_or] at h
    unfold Lin.dictGet?
    rw [if_neg (fun e => h.1 e.symm)]
    exact ih h.2

theorem dictGet?_of_mem {d : Dict} (hd : KeysNodup d) {k : List Letter} {v : GR} (h : (k, v) ∈ d) :
    Lin.dictGet? d k = some v := by
  induction d with
  | nil => cases h
  | cons e d ih =>
    obtain ⟨k0, v0⟩ := e
    have hd' : k0 ∉ d.map Prod.fst ∧ KeysNodup d := by
      simpa [KeysNodup, List.nodup_cons] using hd
    unfold Lin.dictGet?
    rcases List.mem_cons.mp h with h | h
    · cases h; simp
    · have hk : k ∈ d.map Prod.fst := List.mem_map.mpr ⟨(k, v), h, rfl⟩
      have : k0 ≠ k := fun e => hd'.1 (e ▸ hk)
      rw [if_neg this]
      exact ih hd'.2 h

theorem dictGet?_iff_mem {d : Dict} (hd : KeysNodup d) (k : List Letter) (v : GR) :
    Lin.dictGet? d k = some v ↔ (k, v) ∈ d :=
  ⟨mem_of_dictGet?, dictGet?_of_mem hd⟩

/-- the non-zero part of a dictionary -/
def nz (d : Dict) : Dict := d.filter (fun e => e.2 ≠ GR.zero)

theorem keysNodup_nz {d : Dict} (hd : KeysNodup d) : KeysNodup (nz d) :=
  List.Nodup.sublist (List.Sublist.map _ List.filter_sublist) hd

theorem dictGet?_nz {d : Dict} (hd : KeysNodup d) (k : List Letter) (v : GR) :
    Lin.dictGet? (nz d) k = some v ↔ Lin.dictGet? d k = some v ∧ v ≠ GR.zero := by
  rw [dictGet?_iff_mem (keysNodup_nz hd), dictGet?_iff_mem hd]
  simp [nz, List.mem_filter]

theorem nz_eq_nil_iff {d : Dict} (hd : KeysNodup d) :
    nz d = [] ↔ ∀ k, dcoef d k = GR.zero := by
  constructor
  · intro h k
    unfold dcoef
    cases hg : Lin.dictGet? d k with
    | none => rfl
    | some v =>
      have hm := mem_of_dictGet? hg
      by_contra hv
      have : (k, v) ∈ nz d := by simp [nz, List.mem_filter, hm]; exact hv
      rw [h] at this; cases this
  · intro h
    apply List.filter_eq_nil_iff.mpr
    intro e he
    obtain ⟨k, v⟩ := e
    have := h k
    unfold dcoef at this
    rw [dictGet?_of_mem hd he] at this
    simpa using this

/-- lookups in the non-zero parts agree everywhere iff the coefficient functions agree -/
theorem nz_lookup_iff {d1 d2 : Dict} (h1 : KeysNodup d1) (h2 : KeysNodup d2) :
    (∀ k, Lin.dictGet? (nz d1) k = Lin.dictGet? (nz d2) k) ↔ ∀ k, dcoef d1 k = dcoef d2 k := by
  constructor
  · intro h k
    have hk := h k
    unfold dcoef
    cases g1 : Lin.dictGet? d1 k with
    | none =>
      cases g2 : Lin.dictGet? d2 k with
      | none => rfl
      | some w =>
        by_cases hw : w = GR.zero
        · simp [hw]
        · have : Lin.dictGet? (nz d2) k = some w := (dictGet?_nz h2 k w).mpr ⟨g2, hw⟩
          rw [← hk] at this
          have := ((dictGet?_nz h1 k w).mp this).1
          rw [g1] at this; cases this
    | some v =>
      by_cases hv : v = GR.zero
      · subst hv
        cases g2 : Lin.dictGet? d2 k with
        | none => rfl
        | some w =>
          by_cases hw : w = GR.zero
          · simp [hw]
          · have : Lin.dictGet? (nz d2) k = some w := (dictGet?_nz h2 k w).mpr ⟨g2, hw⟩
            rw [← hk] at this
            have := ((dictGet?_nz h1 k w).mp this).1
            rw [g1] at this
            cases this
            exact absurd rfl hw
      · have : Lin.dictGet? (nz d1) k = some v := (dictGet?_nz h1 k v).mpr ⟨g1, hv⟩
        rw [hk] at this
        have := ((dictGet?_nz h2 k v).mp this).1
        rw [this]
  · intro h k
    have key : ∀ v, Lin.dictGet? (nz d1) k = some v ↔ Lin.dictGet? (nz d2) k = some v := by
      intro v
      rw [dictGet?_nz h1, dictGet?_nz h2]
      have hk := h k
      unfold dcoef at hk
      constructor
      · rintro ⟨g, hv⟩
        rw [g] at hk
        cases g2 : Lin.dictGet? d2 k with
        | none => rw [g2] at hk; exact absurd (by simpa using hk) hv
        | some w =>
          rw [g2] at hk
          simp only [Option.getD_some] at hk
          subst hk
          exact ⟨rfl, hv⟩
      · rintro ⟨g, hv⟩
        rw [g] at hk
        cases g1 : Lin.dictGet? d1 k with
        | none => rw [g1] at hk; exact absurd (by simpa using hk.symm) hv
        | some w =>
          rw [g1] at hk
          simp only [Option.getD_some] at hk
          subst hk
          exact ⟨rfl, hv⟩
    cases g : Lin.dictGet? (nz d1) k with
    | none =>
      cases g' : Lin.dictGet? (nz d2) k with
      | none => rfl
      | some w => rw [(key w).mpr g'] at g; cases g
    | some v => exact ((key v).mp g).symm

/-! ### `dictSet` and the dictionary comprehension of `__eq__` -/

theorem dictSet_fresh {d : Dict} {k : List Letter} (c : GR) (h : k ∉ d.map Prod.fst) :
    Lin.dictSet d k c = d ++ [(k, c)] := by
  induction d with
  | nil => rfl
  | cons e d ih =>
    obtain ⟨k0, v0⟩ := e
    simp only [List.map_cons, List.mem_cons, not_or] at h
    unfold Lin.dictSet
    rw [if_neg (fun e => h.1 e.symm), ih h.2]
    rfl

theorem foldl_dictSet (acc : Dict) (l : Lin)
    (h : (acc ++ l.map (fun t => (t.2.letters, t.1))).map Prod.fst |>.Nodup) :
    l.foldl (fun d t => Lin.dictSet d t.2.letters t.1) acc
      = acc ++ l.map (fun t => (t.2.letters, t.1)) := by
  induction l generalizing acc with
  | nil => simp
  | cons t l ih =>
    rw [List.foldl_cons]
    have hfresh : t.2.letters ∉ acc.map Prod.fst := by
      intro hm
      simp only [List.map_cons, List.map_append, List.nodup_append] at h
      exact h.2.2 _ hm _ (List.mem_cons_self ..) rfl
    rw [dictSet_fresh _ hfresh, ih]
    · simp
    · simpa using h

theorem nonzeroTerms_eq (d : Dict) :
    Lin.nonzeroTerms d = (nz d).map (fun e => (e.2, PS.ofLetters e.1)) := rfl

/-- The dictionary `__eq__` builds is the non-zero part of the collected terms. -/
theorem eqDict_eq (a : Lin) : Lin.eqDict a = nz (Lin.sumByKey a) := by
  have hmain : ∀ D : Dict, KeysNodup D → (∀ e ∈ D, e.2 ≠ GR.zero) →
      ((Lin.mk (D.map (fun e => (e.2, PS.ofLetters e.1)))).filter (fun t => t.1 ≠ GR.zero)).foldl
        (fun d t => Lin.dictSet d t.2.letters t.1) [] = D := by
    intro D hD hnz
    have h1 : Lin.mk (D.map (fun e => (e.2, PS.ofLetters e.1)))
        = D.map (fun e => (e.2, PS.ofLetters e.1)) := by
      simp [Lin.mk, letters_ofLetters]
    rw [h1]
    have h2 : (D.map (fun e => (e.2, PS.ofLetters e.1))).filter (fun t => t.1 ≠ GR.zero)
        = D.map (fun e => (e.2, PS.ofLetters e.1)) := by
      apply List.filter_eq_self.mpr
      intro t ht
      obtain ⟨e, he, rfl⟩ := List.mem_map.mp ht
      simpa using hnz e he
    rw [h2]
    have h3 : (D.map (fun e => (e.2, PS.ofLetters e.1))).map (fun t => (t.2.letters, t.1)) = D := by
      rw [List.map_map]
      conv_rhs => rw [← List.map_id D]
      apply List.map_congr_left
      intro e _
      simp [letters_ofLetters]
    rw [foldl_dictSet]
    · rw [h3]; rfl
    · rw [h3]; simpa [KeysNodup] using hD
  unfold Lin.eqDict Lin.simplify
  by_cases ha : a.isEmpty = true
  · rw [if_pos ha, List.isEmpty_iff.mp ha]; rfl
  · rw [if_neg ha]
    simp only
    by_cases hs : (Lin.nonzeroTerms (Lin.sumByKey a)).isEmpty = true
    · rw [if_pos hs]
      have : nz (Lin.sumByKey a) = [] := by
        have := List.isEmpty_iff.mp hs
        rw [nonzeroTerms_eq] at this
        exact List.map_eq_nil_iff.mp this
      rw [this]
      simp [Lin.mk]
    · rw [if_neg hs, nonzeroTerms_eq]
      apply hmain _ (keysNodup_nz (keysNodup_sumByKey a))
      intro e he
      have := (List.mem_filter.mp he).2
      simpa using this

/-! ### `__eq__` and `is_zero` in terms of coefficients -/

theorem eq_iff_dcoef (a b : Lin) :
    Lin.eq a b = true ↔ ∀ k, dcoef (Lin.sumByKey a) k = dcoef (Lin.sumByKey b) k := by
  have h1 := keysNodup_sumByKey a
  have h2 := keysNodup_sumByKey b
  have n1 := keysNodup_nz h1
  have n2 := keysNodup_nz h2
  rw [← nz_lookup_iff h1 h2]
  unfold Lin.eq
  rw [eqDict_eq, eqDict_eq]
  generalize nz (Lin.sumByKey a) = d1 at n1 ⊢
  generalize nz (Lin.sumByKey b) = d2 at n2 ⊢
  have bool_lem : ∀ (A B C : Bool),
      (if (!(A && B)) = true then false else C) = true ↔ (A = true ∧ B = true) ∧ C = true := by
    intro A B C; cases A <;> cases B <;> simp
  simp only [bool_lem, List.all_eq_true, decide_eq_true_eq]
  constructor
  · rintro ⟨⟨_, hk2⟩, hv⟩ k
    cases g : Lin.dictGet? d1 k with
    | some v => exact (hv (k, v) (mem_of_dictGet? g)).symm
    | none =>
      cases g' : Lin.dictGet? d2 k with
      | none => rfl
      | some w =>
        have := hk2 (k, w) (mem_of_dictGet? g')
        simp only at this
        rw [g] at this; cases this
  · intro h
    refine ⟨⟨?_, ?_⟩, ?_⟩
    · intro e he
      rw [← h, dictGet?_of_mem n1 (show (e.1, e.2) ∈ d1 from he)]; rfl
    · intro e he
      rw [h, dictGet?_of_mem n2 (show (e.1, e.2) ∈ d2 from he)]; rfl
    · intro e he
      rw [← h, dictGet?_of_mem n1 (show (e.1, e.2) ∈ d1 from he)]

theorem isZero_iff_dcoef (a : Lin) :
    Lin.isZero a = true ↔ ∀ k, dcoef (Lin.sumByKey a) k = GR.zero := by
  rw [← nz_eq_nil_iff (keysNodup_sumByKey a)]
  unfold Lin.isZero Lin.simplify
  by_cases ha : a.isEmpty = true
  · rw [if_pos ha, List.isEmpty_iff.mp ha]
    simp [Lin.sumByKey, Lin.sumInto, nz]
  · rw [if_neg ha]
    simp only
    by_cases hs : (Lin.nonzeroTerms (Lin.sumByKey a)).isEmpty = true
    · rw [if_pos hs]
      have : nz (Lin.sumByKey a) = [] := by
        have := List.isEmpty_iff.mp hs
        rw [nonzeroTerms_eq] at this
        exact List.map_eq_nil_iff.mp this
      simp [this, Lin.mk]
    · rw [if_neg hs]
      have hne : nz (Lin.sumByKey a) ≠ [] := by
        intro h
        apply hs
        rw [nonzeroTerms_eq, h]; rfl
      constructor
      · intro hall
        exfalso
        obtain ⟨e, he⟩ := List.exists_mem_of_ne_nil _ hne
        have hmem : (e.2, PS.ofLetters (PS.ofLetters e.1).letters) ∈
            Lin.mk (Lin.nonzeroTerms (Lin.sumByKey a)) := by
          rw [nonzeroTerms_eq, Lin.mk, List.map_map]
          exact List.mem_map.mpr ⟨e, he, rfl⟩
        have := List.all_eq_true.mp hall _ hmem
        have hz : e.2 = GR.zero := by simpa using this
        have := (List.mem_filter.mp he).2
        simp [hz] at this
      · intro h; exact absurd h hne

/-! ### texts versus `Fin n → Letter` -/

theorem vecOf_injective {n : ℕ} {w v : List Letter} (hw : w.length = n) (hv : v.length = n)
    (h : vecOf n w = vecOf n v) : w = v := by
  apply List.ext_getElem (hw.trans hv.symm)
  intro i h1 h2
  have := congrFun h ⟨i, hw ▸ h1⟩
  simpa [vecOf, List.getD_eq_getElem?_getD, List.getElem?_eq_getElem h1,
    List.getElem?_eq_getElem h2] using this

theorem lcoef_eq_coef {n : ℕ} {a : Lin} (ha : Valid n a) (k : List Letter) (hk : k.length = n) :
    lcoef k a = coef n (vecOf n k) a := by
  induction a with
  | nil => rfl
  | cons t a ih =>
    have ht := (valid_cons.mp ha).1
    have hl : t.2.letters.length = n := (length_letters _).trans ht.2
    have : lcoef k (t :: a) = (if t.2.letters = k then t.1.toC else 0) + lcoef k a := by
      simp [lcoef]
    rw [this, coef_cons, ih (valid_cons.mp ha).2]
    congr 1
    by_cases h : t.2.letters = k
    · simp [h, PS.vec]
    · have : ¬ t.2.vec n = vecOf n k := fun e => h (vecOf_injective hl hk e)
      simp [h, this]

theorem lcoef_wrong_length {n : ℕ} {a : Lin} (ha : Valid n a) (k : List Letter) (hk : k.length ≠ n) :
    lcoef k a = 0 := by
  induction a with
  | nil => rfl
  | cons t a ih =>
    have ht := (valid_cons.mp ha).1
    have hl : t.2.letters.length = n := (length_letters _).trans ht.2
    have : lcoef k (t :: a) = (if t.2.letters = k then t.1.toC else 0) + lcoef k a := by
      simp [lcoef]
    rw [this, ih (valid_cons.mp ha).2]
    have : ¬ t.2.letters = k := fun e => hk (e ▸ hl)
    simp [this]

theorem dcoef_iff_coef {n : ℕ} {a b : Lin} (ha : Valid n a) (hb : Valid n b) :
    (∀ k, dcoef (Lin.sumByKey a) k = dcoef (Lin.sumByKey b) k) ↔
      ∀ P : Fin n → Letter, coef n P a = coef n P b := by
  constructor
  · intro h P
    have hk : (List.ofFn P).length = n := by simp
    have := congrArg GR.toC (h (List.ofFn P))
    rw [toC_dcoef_sumByKey, toC_dcoef_sumByKey, lcoef_eq_coef ha _ hk, lcoef_eq_coef hb _ hk,
      vecOf_ofFn] at this
    exact this
  · intro h k
    apply toC_injective
    rw [toC_dcoef_sumByKey, toC_dcoef_sumByKey]
    by_cases hk : k.length = n
    · rw [lcoef_eq_coef ha _ hk, lcoef_eq_coef hb _ hk, h]
    · rw [lcoef_wrong_length ha _ hk, lcoef_wrong_length hb _ hk]

theorem sumByKey_nil : Lin.sumByKey [] = [] := rfl

theorem eq_spec {n : ℕ} {a b : Lin} (ha : Valid n a) (hb : Valid n b) :
    Lin.eq a b = true ↔ den n a = den n b := by
  rw [eq_iff_dcoef, dcoef_iff_coef ha hb, den_eq_iff_coef]

theorem isZero_spec {n : ℕ} {a : Lin} (ha : Valid n a) :
    Lin.isZero a = true ↔ den n a = 0 := by
  rw [isZero_iff_dcoef, den_eq_zero_iff_coef]
  have := dcoef_iff_coef ha (valid_nil n)
  simpa [sumByKey_nil, dcoef, Lin.dictGet?] using this

end C12
end PauLie
