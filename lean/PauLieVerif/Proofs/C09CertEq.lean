/-
The executable family checks of `Model/Cert.lean` are copies (the model may not import proof modules);
here every copy is proved EQUAL to the original the family theorems are stated with.  Core Lean only.
-/
import PauLieVerif.Model.Cert
import PauLieVerif.Properties.C01TypeB

namespace PauLie
namespace C09Cert
open Closure

theorem bitsOf_eq : Cert.bitsOf = C02.bitsOf := rfl
theorem zeroV_eq : Cert.zeroV = C01Star.zeroV := rfl
theorem nth_eq : Cert.nth = C01Star.nth := rfl
theorem adj_eq : Cert.adj = C01Star.adj := rfl
theorem pad_eq : Cert.pad = C01TypeB.pad := rfl

theorem indepB_eq : ∀ vs : List V, Cert.indepB vs = C01Star.indepB vs
  | [] => rfl
  | v :: vs => by simp [Cert.indepB, C01Star.indepB, indepB_eq vs]

theorem typeAB_eq (L : Nat) (c l1 : V) (ls' ps : List V) :
    Cert.typeAB L c l1 ls' ps = C01Star.typeAB L c l1 ls' ps := by
  simp only [Cert.typeAB, C01Star.typeAB, indepB_eq, nth_eq, adj_eq]

theorem patRow_eq (x y : V) : ∀ vs ws : List V, Cert.patRow x y vs ws = C01TypeB.patRow x y vs ws
  | [], [] => rfl
  | [], _ :: _ => rfl
  | _ :: _, [] => rfl
  | v :: vs, w :: ws => by simp [Cert.patRow, C01TypeB.patRow, patRow_eq x y vs ws]

theorem samePat_eq : ∀ vs ws vs' ws' : List V, Cert.samePat vs ws vs' ws' = C01TypeB.samePat vs ws vs' ws'
  | [], [], _, _ => rfl
  | [], _ :: _, _, _ => rfl
  | _ :: _, [], _, _ => rfl
  | v :: vs, w :: ws, vs', ws' => by
    simp [Cert.samePat, C01TypeB.samePat, samePat_eq vs ws vs' ws', patRow_eq]

theorem samePatB_eq (vs ws : List V) : Cert.samePatB vs ws = C01TypeB.samePatB vs ws := samePat_eq _ _ _ _

theorem padN_eq : ∀ (j : Nat) (y : V), Cert.padN j y = C01TypeB.padN j y
  | 0, _ => rfl
  | j + 1, y => by simp [Cert.padN, C01TypeB.padN, padN_eq j y, pad_eq]

theorem aT_eq : ∀ t, Cert.aT t = C01TypeB.aT t
  | 0 => rfl
  | t + 1 => by simp [Cert.aT, C01TypeB.aT, aT_eq t, pad_eq]

theorem cT_eq : ∀ t, Cert.cT t = C01TypeB.cT t
  | 0 => rfl
  | t + 1 => by simp [Cert.cT, C01TypeB.cT, cT_eq t, pad_eq]

theorem pairsB_eq : ∀ t, Cert.pairsB t = C01TypeB.pairsB t
  | 0 => rfl
  | t + 1 => by simp [Cert.pairsB, C01TypeB.pairsB, pairsB_eq t, aT_eq, pad_eq, zeroV_eq]

theorem twinsK_eq : ∀ j t, Cert.twinsK j t = C01TypeB.twinsK j t
  | 0, _ => rfl
  | j + 1, t => by simp [Cert.twinsK, C01TypeB.twinsK, twinsK_eq j t, aT_eq, pad_eq, padN_eq]

theorem padN_fun_eq (j : Nat) : Cert.padN j = C01TypeB.padN j := funext (padN_eq j)

theorem canonK_eq (j t : Nat) : Cert.canonK j t = C01TypeB.canonK j t := by
  simp [Cert.canonK, C01TypeB.canonK, Cert.restK, C01TypeB.restK, twinsK_eq, pairsB_eq, padN_fun_eq, aT_eq, cT_eq]

theorem twinRest_eq : ∀ (j : Nat) (a : V) (rest : List V), Cert.twinRest j a rest = C01TypeB.twinRest j a rest
  | 0, _, _ => rfl
  | j + 1, a, rest => by simp [Cert.twinRest, C01TypeB.twinRest, twinRest_eq j a rest, pad_eq, padN_eq]

theorem uT_eq (t : Nat) : Cert.uT t = C01TypeB.uT t := rfl

theorem rest3_eq (t : Nat) : Cert.rest3 t = C01TypeB.rest3 t := by
  simp [Cert.rest3, C01TypeB.rest3, pairsB_eq, aT_eq, pad_eq, zeroV_eq, uT_eq]

theorem rest4_eq (t : Nat) : Cert.rest4 t = C01TypeB.rest4 t := by
  simp [Cert.rest4, C01TypeB.rest4, pairsB_eq, aT_eq, pad_eq, zeroV_eq, uT_eq]

theorem canon3_eq (j t : Nat) : Cert.canon3 j t = C01TypeB.canon3 j t := by
  simp [Cert.canon3, C01TypeB.canon3, twinRest_eq, rest3_eq, padN_eq, aT_eq, cT_eq, pad_eq]

theorem canon4_eq (j t : Nat) : Cert.canon4 j t = C01TypeB.canon4 j t := by
  simp [Cert.canon4, C01TypeB.canon4, twinRest_eq, rest4_eq, padN_eq, aT_eq, cT_eq, pad_eq]

theorem typeB1B_eq (L : Nat) (vs : List V) (j t : Nat) : Cert.typeB1B L vs j t = C01TypeB.typeB1B L vs j t := by
  simp only [Cert.typeB1B, C01TypeB.typeB1B, samePatB_eq, canonK_eq, indepB_eq]

theorem realisesB_eq (L : Nat) (vs canon : List V) : Cert.realisesB L vs canon = C01TypeB.realisesB L vs canon := by
  simp only [Cert.realisesB, C01TypeB.realisesB, samePatB_eq, indepB_eq]

theorem typeALegs_eq : Cert.typeALegs = C01Star.typeALegs := rfl
theorem typeB1Legs_eq : Cert.typeB1Legs = C01TypeB.typeB1Legs := rfl
theorem typeBLongLegs_eq : Cert.typeBLongLegs = C01TypeB.typeBLongLegs := rfl

theorem msum_eq (m : Nat) : ∀ (b : List Bool) (vs : List V), Cert.msum m b vs = C01Star.msum m b vs
  | [], _ => by simp [Cert.msum, zeroV_eq]
  | _ :: _, [] => by simp [Cert.msum, zeroV_eq]
  | true :: b, v :: vs => by simp [Cert.msum, msum_eq m b vs]
  | false :: b, v :: vs => by simp [Cert.msum, msum_eq m b vs]

end C09Cert
end PauLie
