/-
C01, type A, list form: a canonical star with centre `c`, single legs `l1 :: ls'` and long leg `ps`
(possibly empty) - hypotheses on lists of bit vectors, an executable check of them (`typeAB`), and the
transfer to the function-indexed form of `Proofs/C01TypeA.lean`: the path is `l1 :: c :: ps`, the
extra legs are `ls'`.  Core Lean only (plus the Gaussian elimination of `Model/Morph.lean`).
-/
import PauLieVerif.Proofs.C01TypeACount
import PauLieVerif.Proofs.C01PathList
import PauLieVerif.Proofs.C01SpanGauss

namespace PauLie
namespace C01Star
open Closure

theorem msum_append {L : Nat} : ∀ (b1 : List Bool) (vs : List V) (b2 : List Bool) (es : List V),
    b1.length = vs.length → (∀ e ∈ es, e.length = L) →
    msum L (b1 ++ b2) (vs ++ es) = add (msum L b1 vs) (msum L b2 es)
  | [], [], b2, es, _, hl => by simp [add_zero_left L _ (length_msum b2 es hl)]
  | [], _ :: _, _, _, h, _ => by simp at h
  | _ :: _, [], _, _, h, _ => by simp at h
  | t :: b1, v :: vs, b2, es, h, hl => by
    have ih := msum_append b1 vs b2 es (by simpa using h) hl
    cases t
    · simpa using ih
    · simp only [List.cons_append, msum_true, ih, add_assoc]

/-- adjacency in a path -/
def adj (i j : Nat) : Bool := decide (i + 1 = j ∨ j + 1 = i)

/-- the hypotheses of a type-A canonical star on bit lists -/
structure TypeAL (L : Nat) (c l1 : V) (ls' ps : List V) : Prop where
  len : ∀ x ∈ (l1 :: c :: ps) ++ ls', x.length = L
  om : ∀ i j, i < (l1 :: c :: ps).length → j < (l1 :: c :: ps).length →
    omega (nth L (l1 :: c :: ps) i) (nth L (l1 :: c :: ps) j) = adj i j
  ec : ∀ e ∈ ls', omega c e = true
  e1 : ∀ e ∈ ls', omega l1 e = false
  ep : ∀ e ∈ ls', ∀ p ∈ ps, omega p e = false
  ee : ∀ e ∈ ls', ∀ e' ∈ ls', omega e e' = false
  indep : Indep L ((l1 :: c :: ps) ++ ls')

theorem TypeAL.toF {L : Nat} {c l1 : V} {ls' ps : List V} (h : TypeAL L c l1 ls' ps) :
    TypeA L (nth L (l1 :: c :: ps)) (ps.length + 2) ls' := by
  have hlp : ∀ x ∈ l1 :: c :: ps, x.length = L := fun x hx => h.len x (List.mem_append_left _ hx)
  have hle : ∀ x ∈ ls', x.length = L := fun x hx => h.len x (List.mem_append_right _ hx)
  have hlen2 : (l1 :: c :: ps).length = ps.length + 2 := by simp
  -- joint independence
  have joint : ∀ (f : Nat → Bool) (b : List Bool), b.length = ls'.length →
      add (fsum L (nth L (l1 :: c :: ps)) f (ps.length + 2)) (msum L b ls') = zeroV L →
      b = noneMask ls'.length ∧ ∀ i, i < ps.length + 2 → f i = false := by
    intro f b hb hz
    rw [← hlen2, fsum_eq_msum _ hlp f _ (Nat.le_refl _), List.take_length,
      ← msum_append _ _ _ _ (by simp) hle] at hz
    have := h.indep _ (by simp [hb]; omega) hz
    have e : noneMask ((l1 :: c :: ps) ++ ls').length = noneMask (ps.length + 2) ++ noneMask ls'.length := by
      simp only [noneMask, List.replicate_append_replicate, List.length_append, List.length_cons]
    rw [e] at this
    have h2 := List.append_inj this (by simp)
    refine ⟨h2.2, fun i hi => ?_⟩
    have h3 := congrArg (fun l => l[i]?) h2.1
    simp only [noneMask] at h3
    simpa [hi] using h3
  refine ⟨⟨fun i hi => hlp _ (nth_mem (by omega)), ?_, ?_⟩, by omega, hle, ?_, ?_, h.ee, joint⟩
  · intro i j hi hj
    exact h.om i j (by omega) (by omega)
  · -- independence of the path alone
    intro f hf i hi
    have := joint f (noneMask ls'.length) (by simp) (by
      rw [msum_noneMask, hf, add_self_of_length (length_zeroV L)])
    exact this.2 i hi
  · intro e he
    have : nth L (l1 :: c :: ps) 1 = c := by simp [nth]
    rw [this]; exact h.ec e he
  · intro e he i hi hi1
    cases i with
    | zero =>
      have : nth L (l1 :: c :: ps) 0 = l1 := by simp [nth]
      rw [this]; exact h.e1 e he
    | succ i =>
      cases i with
      | zero => exact absurd rfl hi1
      | succ i =>
        have hi' : i < ps.length := by omega
        have : nth L (l1 :: c :: ps) (i + 1 + 1) = ps[i] := by simp [nth, hi']
        rw [this]; exact h.ep e he _ (List.getElem_mem hi')

/-- executable check of the hypotheses -/
def typeAB (L : Nat) (c l1 : V) (ls' ps : List V) : Bool :=
  let vs := l1 :: c :: ps
  (vs ++ ls').all (fun x => x.length == L)
  && (List.range vs.length).all (fun i => (List.range vs.length).all (fun j =>
        omega (nth L vs i) (nth L vs j) == adj i j))
  && ls'.all (fun e => omega c e && !omega l1 e && ps.all (fun p => !omega p e) && ls'.all (fun e' => !omega e e'))
  && indepB (vs ++ ls')

theorem typeAB_sound {L : Nat} {c l1 : V} {ls' ps : List V} (h : typeAB L c l1 ls' ps = true) :
    TypeAL L c l1 ls' ps := by
  simp only [typeAB, Bool.and_eq_true, List.all_eq_true, beq_iff_eq, List.mem_range, Bool.not_eq_true'] at h
  obtain ⟨⟨⟨h1, h2⟩, h3⟩, h4⟩ := h
  exact ⟨h1, fun i j hi hj => h2 i hi j hj, fun e he => (h3 e he).1.1.1, fun e he => (h3 e he).1.1.2,
    fun e he p hp => (h3 e he).1.2 p hp, fun e he e' he' => (h3 e he).2 e' he', indepB_sound _ h1 h4⟩

theorem typeAB_complete {L : Nat} {c l1 : V} {ls' ps : List V} (h : TypeAL L c l1 ls' ps) :
    typeAB L c l1 ls' ps = true := by
  simp only [typeAB, Bool.and_eq_true, List.all_eq_true, beq_iff_eq, List.mem_range, Bool.not_eq_true']
  exact ⟨⟨⟨h.len, fun i hi j hj => h.om i j hi hj⟩,
    fun e he => ⟨⟨⟨h.ec e he, h.e1 e he⟩, fun p hp => h.ep e he p hp⟩, fun e' he' => h.ee e he e' he'⟩⟩,
    indepB_complete _ h.len h.indep⟩

/-- the closure of the vertices of a type-A canonical star, in the order of the legs: size -/
theorem TypeAL.card_clo {n : Nat} {c l1 : V} {ls' ps : List V} (h : TypeAL (2 * n) c l1 ls' ps) :
    (closureList (c :: (l1 :: ls') ++ ps)).1.length = (ps.length + 3) * (ps.length + 2) / 2 * 2 ^ ls'.length := by
  have hF := h.toF
  have h1 := hF.card_clo
  have hg : TypeA.gensA (nth (2 * n) (l1 :: c :: ps)) (ps.length + 2) ls' = (l1 :: c :: ps) ++ ls' := by
    have := gensF_nth (2 * n) (l1 :: c :: ps)
    simp only [List.length_cons] at this
    rw [TypeA.gensA, this]
  rw [hg] at h1
  have hU1 : Uniform n ((l1 :: c :: ps) ++ ls') := h.len
  have hmem : ∀ g, g ∈ c :: (l1 :: ls') ++ ps ↔ g ∈ (l1 :: c :: ps) ++ ls' := by
    intro g; simp only [List.cons_append, List.mem_cons, List.mem_append]
    constructor
    · rintro (h | h | h | h)
      · exact Or.inr (Or.inl h)
      · exact Or.inl h
      · exact Or.inr (Or.inr (Or.inr h))
      · exact Or.inr (Or.inr (Or.inl h))
    · rintro (h | h | h | h)
      · exact Or.inr (Or.inl h)
      · exact Or.inl h
      · exact Or.inr (Or.inr (Or.inr h))
      · exact Or.inr (Or.inr (Or.inl h))
  have hU2 : Uniform n (c :: (l1 :: ls') ++ ps) := fun g hg' => hU1 g ((hmem g).1 hg')
  have hclo : ∀ x, Clo (c :: (l1 :: ls') ++ ps) x ↔ Clo ((l1 :: c :: ps) ++ ls') x := fun x =>
    ⟨clo_mono (fun g hg' => (hmem g).1 hg'), clo_mono (fun g hg' => (hmem g).2 hg')⟩
  have := clo_card hU2 (closureList_nodup ((l1 :: c :: ps) ++ ls'))
    (fun x => by rw [closureList_sound_complete hU1, hclo])
  rw [← this, h1]

/-! ### a path in list order: executable check -/

/-- executable check of `PathL` -/
def pathB (L : Nat) (vs : List V) : Bool :=
  vs.all (fun x => x.length == L)
  && (List.range vs.length).all (fun i => (List.range vs.length).all (fun j =>
        omega (nth L vs i) (nth L vs j) == adj i j))
  && indepB vs

theorem pathB_sound {L : Nat} {vs : List V} (h : pathB L vs = true) : PathL L vs := by
  simp only [pathB, Bool.and_eq_true, List.all_eq_true, beq_iff_eq, List.mem_range] at h
  obtain ⟨⟨h1, h2⟩, h3⟩ := h
  exact ⟨h1, fun i j hi hj => h2 i hi j hj, indepB_sound _ h1 h3⟩

theorem pathB_complete {L : Nat} {vs : List V} (h : PathL L vs) : pathB L vs = true := by
  simp only [pathB, Bool.and_eq_true, List.all_eq_true, beq_iff_eq, List.mem_range]
  exact ⟨⟨h.len, fun i hi j hj => h.om i j hi hj⟩, indepB_complete _ h.len h.indep⟩

end C01Star
end PauLie
