/-
Helpers for property C19, part 29a: family a9 (`XY`,`XZ`), table row `sp(2^(n-2))` - definitions and the
kernel-evaluated checks.

Closed form (`T9`): the closure is the set of strings that commute with `X` on the first site and with `Z X` on
the first two sites and carry an ODD number of `X` letters (`qX`, a quadratic form with polarisation `omega`).
-/
import PauLieVerif.Proofs.C19LastMap

namespace PauLie
namespace C19
open Closure Graph C01Star C03

/-- parity of the number of `X` letters -/
def qX : V → Bool
  | a :: b :: r => (a && !b) != qX r
  | _ => false

/-- commutes with `X I I …` (`b0 = 0`) and with `Z X I …` (`a0 = b1`), and has an odd number of `X` -/
def T9 : V → Bool
  | a0 :: b0 :: a1 :: b1 :: r => !b0 && (a0 == b1) && qX (a0 :: b0 :: a1 :: b1 :: r)
  | _ => false

/-- the strings on three sites with an odd number of `X` -/
def wendQX : List V := (allV 6).filter qX

def gensA9 : List V := [vXY, vXZ]

theorem lenA9 : ∀ g ∈ gensA9, g.length = 4 := by simp [gensA9, vXY, vXZ]

theorem chk_qX : ∀ s : Bool, peelChk 3 (fun b => s != qX b) (fun b => false != qX b) (fun p => s != qX p) wendQX = true := by
  decide +kernel

/-- closure = closed form on a short chain, decided by the verified enumerator -/
def listChk (gs : List V) (n : Nat) (T : V → Bool) : Bool :=
  (allV (2 * n)).all (fun x => (closureList (klocalV n gs)).1.contains x == T x)

theorem clo_iff_of_listChk {gs : List V} (hg : ∀ g ∈ gs, g.length = 4) {n : Nat} {T : V → Bool}
    (h : listChk gs n T = true) (x : V) : Clo (klocalV n gs) x ↔ x.length = 2 * n ∧ T x = true := by
  have hU : Uniform n (klocalV n gs) := uniform_klocalV hg
  rw [listChk, List.all_eq_true] at h
  constructor
  · intro hx
    have hl := clo_length hU hx
    have := h x (mem_allV.2 hl)
    rw [beq_iff_eq, List.contains_iff_mem.2 ((closureList_sound_complete hU).2 hx)] at this
    exact ⟨hl, this.symm⟩
  · rintro ⟨hl, hT⟩
    have := h x (mem_allV.2 hl)
    rw [beq_iff_eq, hT] at this
    exact (closureList_sound_complete hU).1 (List.contains_iff_mem.1 this)

theorem base_a9_3 : listChk gensA9 3 T9 = true := by decide +kernel
theorem base_a9_4 : listChk gensA9 4 T9 = true := by decide +kernel

end C19
end PauLie
