/-
Helpers for property C19, part 13: kernel-evaluated window facts on three sites - the translates of
a18, a19, a21, a22 generate all 63 non-identity strings on three qubits.
-/
import PauLieVerif.Proofs.C19Window
import PauLieVerif.Proofs.C19MajSite

namespace PauLie
namespace C19
open Closure

def vYZ : V := [true, true, false, true]
def vZX : V := [false, true, true, false]
def vZY : V := [false, true, true, true]

def gensA12 : List V := [vXX, vXY, vYZ]
def gensA17 : List V := [vXX, vXY, vZX]
def gensA18 : List V := [vXX, vXZ, vYY, vZY]
def gensA19 : List V := [vXX, vXY, vZX, vYZ]
def gensA21 : List V := [vXX, vYY, vXY, vZX]
def gensA22 : List V := [vXX, vXY, vXZ, vYX]

theorem window3_a18 : (nonzeroV (2 * 3)).all (fun y => (closureList (klocalV 3 gensA18)).1.contains y) = true := by
  decide +kernel
theorem window3_a19 : (nonzeroV (2 * 3)).all (fun y => (closureList (klocalV 3 gensA19)).1.contains y) = true := by
  decide +kernel
theorem window3_a21 : (nonzeroV (2 * 3)).all (fun y => (closureList (klocalV 3 gensA21)).1.contains y) = true := by
  decide +kernel
theorem window3_a22 : (nonzeroV (2 * 3)).all (fun y => (closureList (klocalV 3 gensA22)).1.contains y) = true := by
  decide +kernel

end C19
end PauLie
