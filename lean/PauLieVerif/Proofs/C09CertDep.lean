/-
Soundness of the leg-profile checks of `Model/Cert.lean` for canonical vertices with ONE linear dependency
(type A with an odd path, type B3: e.g. `so(6)` on two qubits, `su(2^n)` on `n` qubits).
-/
import PauLieVerif.Proofs.C09CertLegs

namespace PauLie
namespace C09Cert
open Closure Classify C01Star C01TypeB

theorem uniform_liftLast {L : Nat} {init : List V} {w : V} (h : ∀ v ∈ init ++ [w], v.length = L) :
    ∀ x ∈ Cert.liftLast init w, x.length = L + 2 := by
  intro x hx
  simp only [Cert.liftLast, List.mem_append, List.mem_map, List.mem_singleton] at hx
  rcases hx with ⟨v, hv, rfl⟩ | rfl
  · simp [Cert.pad, h v (by simp [hv])]
  · simp [h w (by simp)]

/-- the core of the dependent case: the closure of `init ++ [w]` is as large as that of the lifted family -/
theorem depCore_card {n : Nat} {init : List V} {w : V} (h : Cert.depCore (2 * n) init w = true) :
    Uniform n (init ++ [w]) ∧ Uniform (n + 1) (Cert.liftLast init w) ∧
    (closureList (init ++ [w])).1.length = (closureList (Cert.liftLast init w)).1.length := by
  unfold Cert.depCore at h
  simp only [Bool.and_eq_true] at h
  obtain ⟨⟨⟨⟨hlen, hIi⟩, hpat⟩, hIw⟩, hs⟩ := h
  have hv : Uniform n (init ++ [w]) := by
    intro v hv
    have := List.all_eq_true.1 hlen v hv
    simpa using this
  have hw' : Uniform (n + 1) (Cert.liftLast init w) := by
    intro x hx
    have := uniform_liftLast hv x hx
    omega
  refine ⟨hv, hw', ?_⟩
  cases hsol : Cert.solve init w with
  | none => rw [hsol] at hs; cases hs
  | some k =>
    rw [hsol] at hs
    simp only [Bool.and_eq_true, beq_iff_eq, decide_eq_true_eq] at hs
    obtain ⟨⟨hk, hkw⟩, hq⟩ := hs
    rw [msum_eq] at hkw
    rw [samePatB_eq] at hpat
    rw [indepB_eq] at hIi hIw
    have e : 2 * n + 2 = 2 * (n + 1) := by omega
    rw [e] at hq
    have hli : ∀ v ∈ init, v.length = 2 * n := fun v h => hv v (by simp [h])
    exact transfer_card_ker hpat hv hw' (indepB_sound _ hw' hIw) (indepB_sound _ hli hIi) hk hkw hq

/-- the dimension formula on a type-A leg profile (shape only) -/
theorem typeA_dlaDim (c l1 : PS) (ls' ps : List PS) (hr : ps.length ≠ 1)
    (deps unapp : List PS) (tags : List String) (complete : Bool) :
    dlaDimOfMorphs [⟨typeALegs c (l1 :: ls') ps, deps, unapp, tags, complete⟩]
      = .ok (2 ^ ls'.length * dimSO (ps.length + 3)) := by
  have hs : ∀ leg ∈ (l1 :: ls').map (fun l => [l]), leg.length = 1 := by
    intro leg hleg
    obtain ⟨l, _, rfl⟩ := List.mem_map.1 hleg
    rfl
  have hkk : ((l1 :: ls').map (fun l => [l])).length = ls'.length + 1 := by simp
  have ht : IsTail ps.length (if ps.isEmpty then [] else [ps]) := by
    cases ps with
    | nil => exact Or.inl ⟨rfl, rfl⟩
    | cons p ps' =>
      refine Or.inr ⟨?_, p :: ps', rfl, rfl⟩
      simp only [List.length_cons] at hr ⊢
      omega
  have := dlaDim_typeA (legs := typeALegs c (l1 :: ls') ps) (cleg := [c]) rfl hs hkk (by omega) ht
    deps unapp tags complete
  rwa [Nat.add_sub_cancel] at this

theorem certAdep_sound {n : Nat} {legs : List (List PS)} {c : PS} {singles ps : List PS}
    (h : Cert.certAdep (2 * n) legs c singles ps = true) : Good n legs := by
  cases singles with
  | nil => simp [Cert.certAdep] at h
  | cons l1 ls' =>
    simp only [Cert.certAdep] at h
    split at h
    next w w' hw hw' =>
      simp only [Bool.and_eq_true, decide_eq_true_eq, bne_iff_ne, ne_eq] at h
      obtain ⟨⟨⟨⟨⟨⟨hlegs, hr⟩, hvs⟩, hws⟩, hpl⟩, hA⟩, hD⟩ := h
      obtain ⟨hU, hU', hcard⟩ := depCore_card hD
      have e : 2 * n + 2 = 2 * (n + 1) := by omega
      rw [typeAB_eq, e] at hA
      have hS := typeAB_sound hA
      have hsize := C01TypeA_size hS
      rw [← hws, List.length_map, hpl] at hsize
      have hbl : (Cert.bitsOf ls').length = ls'.length := by simp [Cert.bitsOf]
      rw [hbl] at hsize
      rw [← hvs] at hcard hU
      simp only [bitsOf_eq] at hcard hU
      rw [typeALegs_eq] at hlegs
      refine good_of_len hU (hcard.trans hsize) ?_
      intro deps unapp tags complete
      rw [hlegs]
      exact typeA_dlaDim c l1 ls' ps hr deps unapp tags complete
    next => cases h

/-- the dimension formula on a B3 leg profile (shape only) -/
theorem typeB3_dlaDim (c : PS) (singles long : List PS) (twos : List (List PS)) {j t : Nat}
    (hj : singles.length = j + 1) (ht : twos.length = t) (h2 : ∀ leg ∈ twos, leg.length = 2) (ht1 : t ≥ 1)
    (hl : long.length = 3) (deps unapp : List PS) (tags : List String) (complete : Bool) :
    dlaDimOfMorphs [⟨typeBLongLegs c singles twos long, deps, unapp, tags, complete⟩]
      = .ok (2 ^ j * dimSU (2 ^ (t + 2))) := by
  have hk : (singles.map (fun l => [l])).length = j + 1 := by simp [hj]
  have hB : (3 = 0 ∧ t ≥ 2) ∨ ((3 = 3 ∨ 3 = 4) ∧ t ≥ 1) := Or.inr ⟨Or.inl rfl, ht1⟩
  have hr : IsTailB 3 [long] := Or.inr ⟨by omega, long, rfl, hl⟩
  have := dlaDim_typeB (legs := typeBLongLegs c singles twos long) (cleg := [c]) (r := 3) rfl
    (hs_singles singles) h2 hk ht hr (by omega) hB deps unapp tags complete
  simpa [nameB, Summand.dim] using this

theorem certB3dep_sound {n : Nat} {legs : List (List PS)} {c : PS} {singles long : List PS} {twos : List (List PS)}
    (h : Cert.certB3dep (2 * n) legs c singles twos long = true) : Good n legs := by
  cases singles with
  | nil => simp [Cert.certB3dep] at h
  | cons l1 ls' =>
    simp only [Cert.certB3dep] at h
    split at h
    next w hw =>
      simp only [Bool.and_eq_true, decide_eq_true_eq, beq_iff_eq] at h
      obtain ⟨⟨⟨⟨⟨⟨hlegs, h2⟩, ht1⟩, hl⟩, hvs⟩, hB⟩, hD⟩ := h
      obtain ⟨hU, hU', hcard⟩ := depCore_card hD
      have e : 2 * n + 2 = 2 * (n + 1) := by omega
      rw [realisesB_eq, canon3_eq, e] at hB
      have hS := realisesB_sound hB
      have hsize := C01TypeB3_size hS
      rw [← hvs] at hcard hU
      simp only [bitsOf_eq] at hcard hU
      rw [typeBLongLegs_eq] at hlegs
      refine good_of_len hU (hcard.trans hsize) ?_
      intro deps unapp tags complete
      rw [hlegs]
      exact typeB3_dlaDim c (l1 :: ls') long twos rfl rfl (all_len2 h2) ht1 hl deps unapp tags complete
    next => cases h

end C09Cert
end PauLie
