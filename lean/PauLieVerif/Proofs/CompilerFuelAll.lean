/-
No loop of the model of the compiler ever runs out of fuel.

Four loops of `Model/CompilerSearch.lean` run on fuel (`while` loops and recursive generators of the
Python code): the BFS of `left_map_over_a` (`lmLoop`, treated in `Proofs/CompilerFuel.lean`), the
`while i >= 1` loop of `subsystem_compiler` (`subLoop`) and the two interleaving generators (`inter3`,
`inter4`).  Everything else is structural recursion over a list or over the depth counter of
`_bfs_case3`.  Here:
* `subLoop_nf`   — each iteration either decrements `i` or records a helper for `i` (after which the next
  iteration decrements), so `2·i + [no helper recorded for i]` drops; the model passes `2·r + 1`;
* `inter3_nf`, `inter4_nf` — each recursive call removes one element; the model passes the total length + 1;
* `compileTarget_nf` — hence `compile_target`, for EVERY input, never yields the out-of-fuel value.
`NoFuel x` says: if `x` is an error, it is not tagged with the pseudo-site `fuel`.
-/
import PauLieVerif.Proofs.CompilerFuel

namespace PauLie
namespace CompilerSearch
open Compiler

/-- the result is not the model's out-of-fuel value (nor any other error tagged with the pseudo-site `fuel`) -/
structure NoFuel {α} (x : Except Fail α) : Prop where
  out : ∀ e, x = .error e → e.site ≠ .fuel

theorem NoFuel.of_pure {α} (a : α) : NoFuel (Pure.pure a : Except Fail α) := ⟨by intro e h; cases h⟩
theorem NoFuel.of_ok {α} (a : α) : NoFuel (Except.ok a : Except Fail α) := ⟨by intro e h; cases h⟩
theorem NoFuel.of_throw {α} (er : Err) (s : Site) (hs : s ≠ .fuel) : NoFuel (throw ⟨er, s⟩ : Except Fail α) := ⟨by
  intro e h
  simp [throw, throwThe, MonadExceptOf.throw] at h
  subst h; exact hs⟩
theorem NoFuel.of_error {α} (er : Err) (s : Site) (hs : s ≠ .fuel) : NoFuel (Except.error ⟨er, s⟩ : Except Fail α) := ⟨by
  intro e h
  cases h; exact hs⟩
theorem NoFuel.of_liftAt {α} (s : Site) (hs : s ≠ .fuel) (x : Except Err α) : NoFuel (liftAt s x) := ⟨by
  intro e h
  cases x with
  | ok a => cases h
  | error e' => simp [Compiler.liftAt] at h; subst h; exact hs⟩
theorem NoFuel.of_bind {α β} {x : Except Fail α} {f : α → Except Fail β} (hx : NoFuel x) (hf : ∀ a, NoFuel (f a)) :
    NoFuel (x >>= f) := ⟨by
  intro e h
  cases x with
  | ok a => exact (hf a).out e h
  | error e' =>
    simp [Bind.bind, Except.bind] at h
    subst h
    exact hx.out _ rfl⟩

macro "nofuel_step" : tactic => `(tactic| first
  | exact NoFuel.of_pure _
  | exact NoFuel.of_ok _
  | (apply NoFuel.of_throw; decide)
  | (apply NoFuel.of_error; decide)
  | (apply NoFuel.of_liftAt; decide)
  | assumption
  | (apply NoFuel.of_bind)
  | (intro _)
  | split
  | (dsimp only))

theorem cCommutes_nf (a b : PS) : NoFuel (cCommutes a b) := by unfold cCommutes; nofuel_step
theorem cMultiply_nf (a b : PS) : NoFuel (cMultiply a b) := by unfold cMultiply; nofuel_step
theorem cNested_nf (G : List PS) : NoFuel (cNested G) := by unfold cNested; nofuel_step


theorem leftMapOverA_nf (f t : PS) (A : List PS) : NoFuel (leftMapOverA f t A) :=
  ⟨fun e h => (leftMapOverA_error f t A e h).site_ne_fuel⟩

theorem allLeftPaulis_nf (k : Int) : NoFuel (allLeftPaulis k) := by unfold allLeftPaulis; nofuel_step

theorem mkCtx_nf (k n : Int) : NoFuel (mkCtx k n) := by
  unfold mkCtx
  repeat (first | exact allLeftPaulis_nf _ | nofuel_step)

theorem extendLeft_nf (c : Ctx) (a : PS) : NoFuel (extendLeft c a) := by
  unfold extendLeft
  repeat nofuel_step

theorem siteOpts_nf (c : Ctx) (j : Nat) (ch : Letter) : NoFuel (siteOpts c j ch) := by
  unfold siteOpts
  repeat nofuel_step

theorem siteOptsAll_nf (c : Ctx) : ∀ (l : List Letter) (j : Nat), NoFuel (siteOptsAll c j l) := by
  intro l
  induction l with
  | nil => intro j; unfold siteOptsAll; nofuel_step
  | cons ch rest ih =>
    intro j
    unfold siteOptsAll
    repeat (first | exact siteOpts_nf _ _ _ | apply ih | nofuel_step)

theorem factorWOrders_nf (c : Ctx) (w : PS) : NoFuel (factorWOrders c w) := by
  unfold factorWOrders
  repeat (first | exact siteOptsAll_nf _ _ _ | nofuel_step)

theorem findA2_nf (u a1 : PS) (i1 : Nat) : ∀ (l : List PS) (j : Nat), NoFuel (findA2 u a1 i1 l j) := by
  intro l
  induction l with
  | nil => intro j; unfold findA2; nofuel_step
  | cons a rest ih =>
    intro j
    unfold findA2
    repeat (first | exact cCommutes_nf _ _ | apply ih | nofuel_step)

theorem findA1_nf (pool : List PS) (u : PS) : ∀ (l : List PS) (i : Nat), NoFuel (findA1 pool u l i) := by
  intro l
  induction l with
  | nil => intro i; unfold findA1; nofuel_step
  | cons a rest ih =>
    intro i
    unfold findA1
    repeat (first | exact cCommutes_nf _ _ | exact findA2_nf _ _ _ _ _ | apply ih | nofuel_step)

theorem chooseA1A2_nf (c : Ctx) (u : PS) : NoFuel (chooseA1A2 c u) := findA1_nf _ _ _ _

theorem chooseAprime_nf (u pLeft : PS) : ∀ (l : List PS), NoFuel (chooseAprime u pLeft l) := by
  intro l
  induction l with
  | nil => unfold chooseAprime; nofuel_step
  | cons a rest ih =>
    unfold chooseAprime
    repeat (first | exact cCommutes_nf _ _ | exact ih | nofuel_step)

theorem mulAll_nf : ∀ (l : List PS) (p : PS), NoFuel (mulAll p l) := by
  intro l
  induction l with
  | nil => intro p; unfold mulAll; nofuel_step
  | cons a rest ih =>
    intro p
    unfold mulAll
    repeat (first | exact cMultiply_nf _ _ | apply ih | nofuel_step)

theorem restFullAfter_nf (c : Ctx) (uiBi : List (PS × PS)) (i : Nat) (helpers : List PS) :
    NoFuel (restFullAfter c uiBi i helpers) := by
  unfold restFullAfter
  repeat (first | exact mulAll_nf _ _ | nofuel_step)

/-- the measure of the `while i >= 1` loop of `subsystem_compiler` -/
def subMeasure (i : Nat) (used : List (Nat × Nat)) : Nat :=
  2 * i + (if (used.lookup i).getD 0 ≥ 1 then 0 else 1)

theorem lookup_self (i v : Nat) (used : List (Nat × Nat)) : (((i, v) :: used).lookup i).getD 0 = v := by
  simp [List.lookup]

/-- **the `while i >= 1` loop of `subsystem_compiler` ends before its fuel** -/
theorem subLoop_nf (c : Ctx) (uiBi : List (PS × PS)) :
    ∀ (fuel i : Nat) (gRev H : List PS) (used : List (Nat × Nat)), subMeasure i used < fuel →
      NoFuel (subLoop c uiBi fuel i gRev H used) := by
  intro fuel
  induction fuel with
  | zero => intro i gRev H used h; omega
  | succ fuel ih =>
    intro i gRev H used hm
    unfold subMeasure at hm
    have hdec : ∀ (g : List PS) (H' : List PS), 1 ≤ i → NoFuel (subLoop c uiBi fuel (i - 1) g H' used) := by
      intro g H' hi
      apply ih
      unfold subMeasure
      split <;> split at hm <;> omega
    have hstay : ∀ (g : List PS) (H' : List PS), ¬ ((used.lookup i).getD 0 ≥ 1) →
        NoFuel (subLoop c uiBi fuel i g H' ((i, (used.lookup i).getD 0 + 1) :: used)) := by
      intro g H' hc
      apply ih
      unfold subMeasure
      rw [lookup_self]
      rw [if_neg hc] at hm
      simp
      omega
    unfold subLoop
    split
    · nofuel_step
    · rename_i hi
      have hi' : 1 ≤ i := by omega
      repeat (first
        | exact restFullAfter_nf _ _ _ _ | exact cMultiply_nf _ _ | exact cCommutes_nf _ _
        | exact chooseA1A2_nf _ _ | exact chooseAprime_nf _ _ _ | exact extendLeft_nf _ _
        | exact hdec _ _ hi' | (apply hstay; assumption) | nofuel_step)

theorem subsystemCompiler_nf (c : Ctx) (w : PS) : NoFuel (subsystemCompiler c w) := by
  unfold subsystemCompiler
  repeat (first | exact factorWOrders_nf _ _ | nofuel_step)
  apply subLoop_nf
  unfold subMeasure
  have h0 : ∀ m : Nat, (List.lookup (α := Nat) (β := Nat) m []).getD 0 = 0 := fun _ => rfl
  rw [h0, if_neg (by omega)]
  rename_i uiBi _ _ _ _ heq
  have hne : uiBi.length ≠ 0 := by
    intro hz
    have := List.length_eq_zero_iff.mp hz
    subst this
    simp at heq
  omega

theorem leftFactor_nf (c : Ctx) (ops : List PS) : NoFuel (leftFactor c ops) := by
  unfold leftFactor
  repeat (first | exact cNested_nf _ | nofuel_step)

theorem checkRes_nf (c : Ctx) (v w : List Letter) (G : List PS) : NoFuel (checkRes c v w G) := by
  unfold checkRes
  repeat (first | exact cNested_nf _ | nofuel_step)

theorem firstOk_nf (chk : List PS → Except Fail Bool) (hc : ∀ s, NoFuel (chk s)) :
    ∀ (l : List (List PS)) (i : Nat), NoFuel (firstOk chk l i) := by
  intro l
  induction l with
  | nil => intro i; unfold firstOk; nofuel_step
  | cons s rest ih =>
    intro i
    unfold firstOk
    repeat (first | exact hc _ | apply ih | nofuel_step)

theorem candLabels_nf (c : Ctx) (w : PS) (j : Nat) : ∀ (l : List Letter), NoFuel (candLabels c w j l) := by
  intro l
  induction l with
  | nil => unfold candLabels; nofuel_step
  | cons lab rest ih =>
    unfold candLabels
    repeat (first | exact cMultiply_nf _ _ | exact cCommutes_nf _ _ | exact ih | nofuel_step)

theorem candSites_nf (c : Ctx) (w : PS) : ∀ (l : List Letter) (j : Nat), NoFuel (candSites c w j l) := by
  intro l
  induction l with
  | nil => intro j; unfold candSites; nofuel_step
  | cons ch rest ih =>
    intro j
    unfold candSites
    repeat (first | exact candLabels_nf _ _ _ _ | apply ih | nofuel_step)

theorem candidateDecompositions_nf (c : Ctx) (w : PS) : NoFuel (candidateDecompositions c w) := by
  unfold candidateDecompositions
  repeat (first | exact candSites_nf _ _ _ _ | nofuel_step)

/-- **`_all_interleavings_preserving` ends before its fuel**: every recursive call removes one element -/
theorem inter3_nf (chk : List PS → Except Fail Bool) (hc : ∀ s, NoFuel (chk s)) (cap : Nat) :
    ∀ (fuel : Nat) (A B C pre : List PS) (count : Nat), A.length + B.length + C.length < fuel →
      NoFuel (inter3 chk cap fuel A B C pre count) := by
  intro fuel
  induction fuel with
  | zero => intro A B C pre count h; omega
  | succ fuel ih =>
    intro A B C pre count hl
    unfold inter3
    split
    · nofuel_step
    · split
      · repeat (first | exact hc _ | nofuel_step)
      · repeat (first
          | (apply ih; simp only [List.length_cons] at hl ⊢; omega)
          | nofuel_step)

/-- **`_all_interleavings_preserving4` ends before its fuel** -/
theorem inter4_nf (chk : List PS → Except Fail Bool) (hc : ∀ s, NoFuel (chk s)) (cap : Nat) :
    ∀ (fuel : Nat) (A B C D pre : List PS) (count : Nat), A.length + B.length + C.length + D.length < fuel →
      NoFuel (inter4 chk cap fuel A B C D pre count) := by
  intro fuel
  induction fuel with
  | zero => intro A B C D pre count h; omega
  | succ fuel ih =>
    intro A B C D pre count hl
    unfold inter4
    split
    · nofuel_step
    · split
      · repeat (first | exact hc _ | nofuel_step)
      · repeat (first
          | (apply ih; simp only [List.length_cons] at hl ⊢; omega)
          | nofuel_step)

theorem firstSome_nf {α} : ∀ (l : List (Unit → Except Fail (Option α))), (∀ f ∈ l, NoFuel (f ())) →
    NoFuel (firstSome l) := by
  intro l
  induction l with
  | nil => intro _; unfold firstSome; nofuel_step
  | cons f rest ih =>
    intro h
    unfold firstSome
    have h1 := h f (List.mem_cons_self ..)
    have h2 := ih (fun g hg => h g (List.mem_cons_of_mem _ hg))
    repeat nofuel_step

theorem case3BestReordering_nf (c : Ctx) (G1 G2 Aext : List PS) (w : PS) :
    NoFuel (case3BestReordering c G1 G2 Aext w) := by
  unfold case3BestReordering
  have hc : ∀ s, NoFuel (checkRes c (List.replicate c.k.toNat Letter.I) (key w) s) := fun s => checkRes_nf _ _ _ _
  have h3 : ∀ (l : List (List PS × List PS × List PS)), NoFuel (firstSome (l.map
      (fun (g : List PS × List PS × List PS) => fun (_ : Unit) => do
        let (_, r) ← inter3 (checkRes c (List.replicate c.k.toNat Letter.I) (key w)) 60000
          (g.1.length + g.2.1.length + g.2.2.length + 1) g.1 g.2.1 g.2.2 [] 0
        pure <| r))) := by
    intro l
    apply firstSome_nf
    intro f hf
    obtain ⟨g, _, rfl⟩ := List.mem_map.mp hf
    repeat (first | (apply inter3_nf _ hc; omega) | nofuel_step)
  have h4 : ∀ (l : List (List PS × List PS × List PS × List PS)), NoFuel (firstSome (l.map
      (fun (g : List PS × List PS × List PS × List PS) => fun (_ : Unit) => do
        let (g1, g2, a1, a2) := g
        match (← firstOk (checkRes c (List.replicate c.k.toNat Letter.I) (key w))
            [g1 ++ a1 ++ g2 ++ a2, g2 ++ a1 ++ g1 ++ a2, a1 ++ g1 ++ a2 ++ g2, a1 ++ g2 ++ a2 ++ g1] 0) with
        | some (_, s) => pure <| some s
        | none =>
          let (_, r) ← inter4 (checkRes c (List.replicate c.k.toNat Letter.I) (key w)) 120000
            (g1.length + g2.length + a1.length + a2.length + 1) g1 g2 a1 a2 [] 0
          pure <| r))) := by
    intro l
    apply firstSome_nf
    intro f hf
    obtain ⟨g, _, rfl⟩ := List.mem_map.mp hf
    obtain ⟨g1, g2, a1, a2⟩ := g
    repeat (first | exact firstOk_nf _ hc _ _ | (apply inter4_nf _ hc; omega) | nofuel_step)
  repeat (first | exact firstOk_nf _ hc _ _ | exact h3 _ | exact h4 _ | nofuel_step)

theorem bfsOps_nf (c : Ctx) (tL tR : List Letter) (depth : Nat) (res : Option PS) (seqRev : List PS) :
    ∀ (l : List PS) (nodes : Nat) (visited : Array Bool) (nfRev : List (Option PS × List PS)),
      NoFuel (bfsOps c tL tR depth res seqRev l nodes visited nfRev) := by
  intro l
  induction l with
  | nil => intro nodes visited nfRev; unfold bfsOps; nofuel_step
  | cons op rest ih =>
    intro nodes visited nfRev
    unfold bfsOps
    repeat (first | apply ih | nofuel_step)

theorem bfsFrontier_nf (c : Ctx) (S : List PS) (tL tR : List Letter) (depth : Nat) :
    ∀ (l : List (Option PS × List PS)) (nodes : Nat) (visited : Array Bool) (nfRev : List (Option PS × List PS)),
      NoFuel (bfsFrontier c S tL tR depth l nodes visited nfRev) := by
  intro l
  induction l with
  | nil => intro nodes visited nfRev; unfold bfsFrontier; nofuel_step
  | cons x rest ih =>
    intro nodes visited nfRev
    obtain ⟨res, seqRev⟩ := x
    unfold bfsFrontier
    repeat (first | exact bfsOps_nf _ _ _ _ _ _ _ _ _ _ | apply ih | nofuel_step)

theorem bfsDepths_nf (c : Ctx) (S : List PS) (tL tR : List Letter) (tableSize : Nat) :
    ∀ (rem depth : Nat) (frontier : List (Option PS × List PS)) (nodes : Nat),
      NoFuel (bfsDepths c S tL tR tableSize rem depth frontier nodes) := by
  intro rem
  induction rem with
  | zero => intro depth frontier nodes; unfold bfsDepths; nofuel_step
  | succ rem ih =>
    intro depth frontier nodes
    unfold bfsDepths
    repeat (first | exact bfsFrontier_nf _ _ _ _ _ _ _ _ _ | apply ih | nofuel_step)

theorem bfsCase3_nf (c : Ctx) (w : PS) : NoFuel (bfsCase3 c w) := by
  unfold bfsCase3
  repeat (first | exact bfsDepths_nf _ _ _ _ _ _ _ _ _ | nofuel_step)

theorem extendAll_nf (c : Ctx) : ∀ (l : List PS), NoFuel (extendAll c l) := by
  intro l
  induction l with
  | nil => unfold extendAll; nofuel_step
  | cons a rest ih =>
    unfold extendAll
    repeat (first | exact extendLeft_nf _ _ | exact ih | nofuel_step)

theorem compileWI_nf (c : Ctx) (v w : PS) (aset : List PS) : ∀ (l : List PS), NoFuel (compileWI c v w aset l) := by
  intro l
  induction l with
  | nil => unfold compileWI; nofuel_step
  | cons a0 rest ih =>
    unfold compileWI
    split
    · exact ih
    · rename_i e _ hlm
      exact ⟨fun e' h => by cases h; exact (leftMapOverA_nf a0 v aset).out e hlm⟩
    · repeat (first | exact extendLeft_nf _ _ | exact extendAll_nf _ _ | exact checkRes_nf _ _ _ _ | exact ih | nofuel_step)

theorem compileVNeI_nf (c : Ctx) (v w : PS) (aset : List PS) : NoFuel (compileVNeI c v w aset) := by
  unfold compileVNeI
  repeat (first
    | exact subsystemCompiler_nf _ _ | exact leftFactor_nf _ _ | exact leftMapOverA_nf _ _ _
    | exact extendAll_nf _ _ | exact firstOk_nf _ (fun s => checkRes_nf _ _ _ s) _ _ | nofuel_step)

theorem tryDecomps_nf (c : Ctx) (w : PS) (aset : List PS) : ∀ (l : List (PS × PS)), NoFuel (tryDecomps c w aset l) := by
  intro l
  induction l with
  | nil => unfold tryDecomps; nofuel_step
  | cons p rest ih =>
    obtain ⟨w1, w2⟩ := p
    unfold tryDecomps
    repeat (first
      | exact subsystemCompiler_nf _ _ | exact leftFactor_nf _ _ | exact leftMapOverA_nf _ _ _
      | exact extendAll_nf _ _ | exact case3BestReordering_nf _ _ _ _ _ | exact ih | nofuel_step)

theorem compileVI_nf (c : Ctx) (w : PS) (aset : List PS) : NoFuel (compileVI c w aset) := by
  unfold compileVI
  repeat (first
    | exact candidateDecompositions_nf _ _ | exact tryDecomps_nf _ _ _ _ | exact bfsCase3_nf _ _
    | exact subsystemCompiler_nf _ _ | exact leftFactor_nf _ _ | exact leftMapOverA_nf _ _ _
    | exact extendAll_nf _ _ | exact cMultiply_nf _ _ | nofuel_step)

theorem compileWith_nf (c : Ctx) (aset : List PS) (v w : PS) : NoFuel (compileWith c aset v w) := by
  unfold compileWith
  repeat (first | exact compileWI_nf _ _ _ _ _ | exact compileVNeI_nf _ _ _ _ | exact compileVI_nf _ _ _ | nofuel_step)

theorem compile_nf (c : Ctx) (v w : PS) : NoFuel (compile c v w) := by
  unfold compile
  repeat (first | exact compileWith_nf _ _ _ _ | nofuel_step)

theorem compileTargetB_nf (t : PS) (k : Int) : NoFuel (compileTargetB t k) := by
  unfold compileTargetB
  repeat (first | exact mkCtx_nf _ _ | exact compile_nf _ _ _ | nofuel_step)

/-- **`compile_target` never runs out of fuel** (the model, EVERY input — any string, any `k`): an error
result is never tagged with the pseudo-site `fuel`; it is one of the Python exceptions of the code -/
theorem compileTarget_nf (t : PS) (k : Int) : NoFuel (compileTarget t k) := by
  unfold compileTarget
  refine ⟨fun e h => ?_⟩
  cases hB : compileTargetB t k with
  | ok r => rw [hB] at h; cases h
  | error e' =>
    rw [hB] at h
    cases h
    exact (compileTargetB_nf t k).out _ hB

end CompilerSearch
end PauLie
