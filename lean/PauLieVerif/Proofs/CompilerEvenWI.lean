/-
For EVEN `k` the `W = I` branch of `compile` never raises: the first left search (from `X_1`) reaches the
requested left string (`even_reach`), the extended walk passes the self-check, and `compile` returns
through its verified return.  So C06 holds (and with `C05_wI_valid` also C05) on all targets `V ⊗ I…I`,
`V ≠ I`, for every `N` and every even `2 ≤ k < N`.
-/
import PauLieVerif.Proofs.CompilerEven
import PauLieVerif.Proofs.CompilerOddSingle

namespace PauLie
namespace CompilerSearch
open Compiler C07
open C14 (lanti lmul wanti wmul)

theorem wanti_append : ∀ (a p i j : List Letter), a.length = p.length →
    wanti (a ++ i) (p ++ j) = (wanti a p != wanti i j)
  | [], [], i, j, _ => by simp [wanti]
  | [], _ :: _, _, _, h => by simp at h
  | _ :: _, [], _, _, h => by simp at h
  | x :: a, y :: p, i, j, h => by
    have := wanti_append a p i j (by simpa using h)
    simp only [List.cons_append, wanti, this]
    cases lanti x y <;> cases wanti a p <;> cases wanti i j <;> rfl

theorem wmul_append (a p i j : List Letter) (h : a.length = p.length) :
    wmul (a ++ i) (p ++ j) = wmul a p ++ wmul i j := by
  simp only [wmul]
  exact List.zipWith_append h

theorem wanti_ext (a p : List Letter) (m : Nat) (h : a.length = p.length) :
    wanti (a ++ ident m) (p ++ ident m) = wanti a p := by
  rw [wanti_append a p _ _ h, wanti_ident]; cases wanti a p <;> rfl

theorem wmul_ext (a p : List Letter) (m : Nat) (h : a.length = p.length) :
    wmul (a ++ ident m) (p ++ ident m) = wmul a p ++ ident m := by
  rw [wmul_append a p _ _ h]
  have := wmul_ident (ident m)
  simp only [ident, List.length_replicate] at this ⊢
  rw [this]

theorem of_mem_aset_list (k : Nat) : ∀ (l : List PS), (∀ x ∈ l, x ∈ aset k) →
    ∃ ls : List (List Letter), l = ls.map PS.ofLetters ∧ ∀ la ∈ ls, la ∈ leftLetters k
  | [], _ => ⟨[], rfl, fun _ h => by cases h⟩
  | x :: l, h => by
    obtain ⟨la, hla, rfl⟩ := aset_mem (h x (List.mem_cons_self ..))
    obtain ⟨ls, rfl, hls⟩ := of_mem_aset_list k l (fun y hy => h y (List.mem_cons_of_mem _ hy))
    exact ⟨la :: ls, rfl, fun z hz => by
      rcases List.mem_cons.mp hz with rfl | hz
      · exact hla
      · exact hls z hz⟩

theorem extendAll_letters (k n : Nat) (hkn : k < n) : ∀ (ls : List (List Letter)),
    extendAll (closedCtx k n) (ls.map PS.ofLetters) = .ok (ls.map (fun la => PS.ofLetters (la ++ ident (n - k))))
  | [] => rfl
  | la :: ls => by
    simp only [List.map_cons, extendAll, extendLeft_closed k n hkn, extendAll_letters k n hkn ls, bind, Except.bind,
      pure, Except.pure]

/-- a walk on the left block, extended by identities, is a non-vanishing nested commutator -/
theorem walk_nested (k m : Nat) : ∀ (ls : List (List Letter)) (p : List Letter) (r : PS),
    Walk (aset k) (PS.ofLetters p) (ls.map PS.ofLetters) r → p.length = k → (∀ la ∈ ls, la.length = k) →
    ∃ q, r = PS.ofLetters q ∧ q.length = k ∧
      nestedLoop (PS.ofLetters (p ++ ident m)) (ls.map (fun la => PS.ofLetters (la ++ ident m)))
        = .ok (some (PS.ofLetters (q ++ ident m))) := by
  intro ls
  induction ls with
  | nil =>
    intro p r hw hp _
    cases hw
    exact ⟨p, rfl, hp, rfl⟩
  | cons la ls ih =>
    intro p r hw hp hls
    simp only [List.map_cons] at hw
    cases hw with
    | cons hst hrest =>
      obtain ⟨_, hc, hm⟩ := hst
      have hla : la.length = p.length := by rw [hls la (List.mem_cons_self ..), hp]
      rw [C14.multiply_ofLetters hla] at hm
      cases hm
      rw [C14.commutes_ofLetters hla] at hc
      have hwa : wanti la p = true := by
        have : (!wanti la p) = false := by simpa using hc
        simpa using this
      obtain ⟨q, hq, hql, hnest⟩ := ih (wmul la p) r hrest (by rw [C14.wmul_length la p hla, hla, hp])
        (fun x hx => hls x (List.mem_cons_of_mem _ hx))
      refine ⟨q, hq, hql, ?_⟩
      have hlen2 : (la ++ ident m).length = (p ++ ident m).length := by simp [hla]
      simp only [List.map_cons, nestedLoop, adApply, C14.commutes_ofLetters hlen2, C14.multiply_ofLetters hlen2,
        wanti_ext la p m hla, hwa, wmul_ext la p m hla, bind, Except.bind, pure, Except.pure]
      simpa using hnest

theorem aset_head (k : Nat) (hk : 1 ≤ k) : ∃ rest, aset k = PS.ofLetters (single k 0 .X) :: rest := by
  obtain ⟨k', rfl⟩ : ∃ k', k = k' + 1 := ⟨k - 1, by omega⟩
  have h : (aset (k' + 1)).head? = some (PS.ofLetters (single (k' + 1) 0 .X)) := by
    simp [aset, leftLetters, List.range_succ_eq_map]
  exact List.head?_eq_some_iff.mp h

/-- a non-identity text has a non-identity letter -/
theorem hasN_of_not_identity (p : List Letter) (h : (PS.ofLetters p).isIdentity = false) : hasN p = true := by
  cases hh : hasN p with
  | true => rfl
  | false =>
    exfalso
    have hall : ∀ (q : List Letter), hasN q = false → encode q = List.replicate (encode q).length false := by
      intro q
      induction q with
      | nil => intro _; rfl
      | cons c q ih =>
        intro hq
        simp only [hasN, Bool.or_eq_false_iff] at hq
        have hc : c = Letter.I := by
          have := hq.1
          cases c <;> first | rfl | (exact absurd this (by decide))
        subst hc
        have := ih hq.2
        simp only [encode, Letter.code, List.length_cons, List.replicate_succ]
        rw [← this]
    have : (PS.ofLetters p).isIdentity = true := by
      unfold PS.isIdentity
      rw [bits_ofLetters]
      simpa using hall p hh
    rw [this] at h
    cases h

/-- **the `W = I` branch returns for even `k`** (all `N`, every even `2 ≤ k < N`, every well-formed target
`V ⊗ I…I` with `V ≠ I`): the model of `compile_target` returns a sequence, through the verified return -/
theorem compileTarget_even_wI_returns (t : PS) (k n : Nat) (ht : t.WF) (hn : t.len = n) (hk : 2 ≤ k) (hkn : k < n)
    (heven : k % 2 = 0)
    (hW : (t.getSubstring (k : Int) ((n : Int) - (k : Int))).isIdentity = true)
    (hV : (t.getSubstring 0 (k : Int)).isIdentity = false) :
    ∃ s, compileTargetB t (k : Int) = .ok (.wI, s) := by
  rw [compileTargetB_eq t k n hn hk hkn]
  obtain ⟨hve, hwe⟩ := target_split t k n ht hn hk hkn
  unfold compileWith
  have h1 : ((t.getSubstring 0 (k : Int)).len : Int) = (closedCtx k n).k := by
    rw [getSubstring_left_len t k n hn (by omega)]; rfl
  have h2 : ((t.getSubstring (k : Int) ((n : Int) - (k : Int))).len : Int) = (closedCtx k n).nRight := by
    rw [getSubstring_right_len t k n hn, closedCtx_nRight k n hkn]
  rw [if_neg (by rw [h1, h2]; simp), if_pos hW]
  obtain ⟨rest, hrest⟩ := aset_head k (by omega)
  have hvl : (t.letters.take k).length = k := by rw [List.length_take, C04.length_letters, hn]; omega
  have hvn : hasN (t.letters.take k) = true := hasN_of_not_identity _ (by rw [← hve]; exact hV)
  obtain ⟨l0, hwalk0⟩ := even_reach k (by omega) heven _ hvl hvn
  -- the search from X_1 returns
  have hX0 : (PS.ofLetters (single k 0 .X)).WF ∧ (PS.ofLetters (single k 0 .X)).len = k :=
    aset_wf (X0_mem_aset k (by omega))
  obtain ⟨seqA, hseq⟩ := ((leftMapOverA_iff (PS.ofLetters (single k 0 .X)) (t.getSubstring 0 (k : Int)) (aset k) k hX0
    (fun a ha => aset_wf ha)).1).mpr ⟨l0, _, hwalk0, by rw [hve]⟩
  obtain ⟨r, hwalk, hkey⟩ := leftMapOverA_sound _ _ _ _ hseq
  obtain ⟨ls, rfl, hls⟩ := of_mem_aset_list k seqA hwalk.mem
  obtain ⟨q, rfl, hql, hnest⟩ := walk_nested k (n - k) ls (single k 0 .X) r hwalk (length_single ..)
    (fun la h => length_of_mem_leftLetters (hls la h))
  rw [show ∀ v w, compileWI (closedCtx k n) v w (aset k) (aset k)
      = compileWI (closedCtx k n) v w (aset k) (PS.ofLetters (single k 0 .X) :: rest) from
    fun v w => by rw [← hrest]]
  unfold compileWI
  rw [hseq]
  simp only [extendLeft_closed k n hkn, extendAll_letters k n hkn, bind, Except.bind]
  have hchk : checkRes (closedCtx k n) (key (t.getSubstring 0 (k : Int)))
      (key (t.getSubstring (k : Int) ((n : Int) - (k : Int))))
      (PS.ofLetters (single k 0 .X ++ ident (n - k)) :: ls.map (fun la => PS.ofLetters (la ++ ident (n - k))))
      = .ok true := by
    unfold checkRes cNested
    simp only [nestedCommutatorResult, hnest, liftAt, bind, Except.bind, pure, Except.pure]
    have e1 : (leftPart (PS.ofLetters (q ++ ident (n - k))) (closedCtx k n).k).letters = key (t.getSubstring 0 (k : Int)) := by
      show (leftPart _ ((k : Nat) : Int)).letters = _
      rw [leftPart_letters, C18.letters_ofLetters, List.take_left' hql]
      have : key (PS.ofLetters q) = key (t.getSubstring 0 (k : Int)) := hkey
      simpa [key, C18.letters_ofLetters] using this
    have e2 : (rightPart (PS.ofLetters (q ++ ident (n - k))) (closedCtx k n).k).letters
        = key (t.getSubstring (k : Int) ((n : Int) - (k : Int))) := by
      show (rightPart _ ((k : Nat) : Int)).letters = _
      rw [rightPart_letters, C18.letters_ofLetters, List.drop_left' hql]
      have := isIdentity_letters _ hW
      rw [getSubstring_right_len t k n hn] at this
      exact this.symm
    rw [e1, e2]
    simp
  rw [hchk]
  exact ⟨_, rfl⟩

end CompilerSearch
end PauLie
