/-
Helper lemmas for the graph helpers of `Model/GraphExtra.lean` (next to C14).  Core Lean only;
built on `Proofs/C14Lemmas.lean`.
-/
import PauLieVerif.Model.GraphExtra
import PauLieVerif.Properties.C14

namespace PauLie
namespace C14Extra
open PS Graph GraphExtra C14

/-- Boolean reading of "`p` and `g` anticommute" (errors read as `false`) -/
def aB (p g : PS) : Bool :=
  match PS.commutesWith p g with
  | .ok b => !b
  | .error _ => false

theorem aB_iff (p g : PS) : aB p g = true ↔ anti p g := by
  unfold aB anti
  split <;> rename_i h <;> simp [h]

/-! ### string level -/

theorem cw_ok {n : Nat} {p g : PS} (hp : p.WF ∧ p.len = n) (hg : g.WF ∧ g.len = n) :
    PS.commutesWith p g = .ok (cwB p g) := by
  obtain ⟨b, hb⟩ := commutesWith_ok hp.1 hg.1 (hp.2.trans hg.2.symm)
  simp [cwB, hb]

theorem acw_ok {n : Nat} {p g : PS} (hp : p.WF ∧ p.len = n) (hg : g.WF ∧ g.len = n) :
    (do return !(← PS.commutesWith p g) : Except Err Bool) = .ok (aB p g) := by
  obtain ⟨b, hb⟩ := commutesWith_ok hp.1 hg.1 (hp.2.trans hg.2.symm)
  simp [aB, hb, bind, Except.bind, pure, Except.pure]

theorem psCommutants_some {n : Nat} {p : PS} {L : List PS} (hp : p.WF ∧ p.len = n) (hL : Uniform n L) :
    psCommutants p (some L) = .ok (L.filter (cwB p)) :=
  filterM_ok _ _ _ (fun g hg => cw_ok hp (hL g hg))

theorem psAntiCommutants_some {n : Nat} {p : PS} {L : List PS} (hp : p.WF ∧ p.len = n) (hL : Uniform n L) :
    psAntiCommutants p (some L) = .ok (L.filter (aB p)) :=
  filterM_ok _ _ _ (fun g hg => acw_ok hp (hL g hg))

theorem psCommutants_none {n : Nat} {p : PS} (hp : p.WF ∧ p.len = n) :
    psCommutants p none = .ok ((PS.genAll n).filter (cwB p)) := by
  have := psCommutants_some hp (genAll_uniform n)
  simpa [psCommutants, hp.2] using this

theorem psAntiCommutants_none {n : Nat} {p : PS} (hp : p.WF ∧ p.len = n) :
    psAntiCommutants p none = .ok ((PS.genAll n).filter (aB p)) := by
  have := psAntiCommutants_some hp (genAll_uniform n)
  simpa [psAntiCommutants, hp.2] using this

/-- a search list holding a string of another length makes the comprehension raise -/
theorem filterAuxM_raises {α : Type} (f : α → Except Err Bool)
    (hf : ∀ a, (∃ b, f a = .ok b) ∨ f a = .error .valueError) :
    ∀ (l acc : List α), (∃ a ∈ l, f a = .error .valueError) → List.filterAuxM f l acc = .error .valueError
  | [], _, h => by obtain ⟨a, ha, _⟩ := h; simp at ha
  | a :: l, acc, h => by
    rw [List.filterAuxM]
    rcases hf a with ⟨b, hb⟩ | hb
    · rw [hb]
      simp only [bind, Except.bind]
      apply filterAuxM_raises f hf l
      obtain ⟨x, hx, hxe⟩ := h
      rcases List.mem_cons.mp hx with rfl | hx
      · rw [hb] at hxe; cases hxe
      · exact ⟨x, hx, hxe⟩
    · rw [hb]; rfl

theorem filterM_raises {α : Type} (f : α → Except Err Bool)
    (hf : ∀ a, (∃ b, f a = .ok b) ∨ f a = .error .valueError) (l : List α)
    (h : ∃ a ∈ l, f a = .error .valueError) : l.filterM f = .error .valueError := by
  simp [List.filterM, filterAuxM_raises f hf l [] h, bind, Except.bind]

theorem countAnd_cases (a b : List Bool) :
    (∃ k, PS.countAnd a b = .ok k) ∨ PS.countAnd a b = .error .valueError := by
  unfold PS.countAnd
  split
  · right; rfl
  · left; exact ⟨_, rfl⟩

theorem commutesWith_cases (p g : PS) :
    (∃ b, PS.commutesWith p g = .ok b) ∨ PS.commutesWith p g = .error .valueError := by
  unfold PS.commutesWith
  by_cases h : p.len ≠ g.len
  · right; simp [h, throw, throwThe, MonadExceptOf.throw, bind, Except.bind]
  · simp only [h, if_false, bind, Except.bind, pure, Except.pure]
    rcases countAnd_cases p.even g.odd with ⟨k, hk⟩ | hk <;> rw [hk]
    · rcases countAnd_cases g.even p.odd with ⟨m, hm⟩ | hm <;> rw [hm]
      · left; exact ⟨_, rfl⟩
      · right; rfl
    · right; rfl

theorem commutesWith_len {p g : PS} (h : p.len ≠ g.len) : PS.commutesWith p g = .error .valueError := by
  simp [PS.commutesWith, h, throw, throwThe, MonadExceptOf.throw, bind, Except.bind]

/-! ### nested pairs -/

theorem containsPair_iff {l : List (PS × PS)} {x : PS × PS} (hl : ∀ y ∈ l, y.1.WF ∧ y.2.WF)
    (hx : x.1.WF ∧ x.2.WF) : containsPair l x = true ↔ x ∈ l := by
  unfold containsPair
  rw [List.any_eq_true]
  constructor
  · rintro ⟨y, hy, hb⟩
    simp only [Bool.and_eq_true] at hb
    have e1 := (beq_iff_eq (hl y hy).1 hx.1).mp hb.1
    have e2 := (beq_iff_eq (hl y hy).2 hx.2).mp hb.2
    have : y = x := Prod.ext e1 e2
    exact this ▸ hy
  · intro h
    exact ⟨x, h, by simp [PS.beq]⟩

theorem dedupPairs_spec (l : List (PS × PS)) (hl : ∀ y ∈ l, y.1.WF ∧ y.2.WF) :
    (dedupPairs l).Nodup ∧ ∀ x, x ∈ dedupPairs l ↔ x ∈ l := by
  unfold dedupPairs
  suffices H : ∀ (l acc : List (PS × PS)), (∀ y ∈ l, y.1.WF ∧ y.2.WF) → (∀ y ∈ acc, y.1.WF ∧ y.2.WF) → acc.Nodup →
      (l.foldl (fun acc x => if containsPair acc x then acc else acc ++ [x]) acc).Nodup ∧
      ∀ x, x ∈ l.foldl (fun acc x => if containsPair acc x then acc else acc ++ [x]) acc ↔ (x ∈ acc ∨ x ∈ l) by
    obtain ⟨h1, h2⟩ := H l [] hl (by simp) List.nodup_nil
    exact ⟨h1, fun x => by simpa using h2 x⟩
  intro l
  induction l with
  | nil => intro acc _ _ hn; simpa using hn
  | cons a t ih =>
    intro acc hl hacc hn
    simp only [List.foldl_cons]
    have ha := hl a (by simp)
    have ht : ∀ y ∈ t, y.1.WF ∧ y.2.WF := fun y hy => hl y (List.mem_cons_of_mem _ hy)
    by_cases hc : containsPair acc a = true
    · rw [if_pos hc]
      obtain ⟨h1, h2⟩ := ih acc ht hacc hn
      refine ⟨h1, fun x => ?_⟩
      rw [h2 x]
      have : a ∈ acc := (containsPair_iff hacc ha).mp hc
      constructor
      · rintro (h | h)
        · exact .inl h
        · exact .inr (List.mem_cons_of_mem _ h)
      · rintro (h | h)
        · exact .inl h
        · rcases List.mem_cons.mp h with rfl | h
          · exact .inl this
          · exact .inr h
    · rw [if_neg hc]
      have hna : a ∉ acc := fun h => hc ((containsPair_iff hacc ha).mpr h)
      have hacc' : ∀ y ∈ acc ++ [a], y.1.WF ∧ y.2.WF := by
        intro y hy
        rcases List.mem_append.mp hy with h | h
        · exact hacc y h
        · simp at h; subst h; exact ha
      have hn' : (acc ++ [a]).Nodup := by
        rw [List.nodup_append]
        refine ⟨hn, by simp, ?_⟩
        intro x hx y hy
        simp at hy; subst hy
        exact fun e => hna (e ▸ hx)
      obtain ⟨h1, h2⟩ := ih (acc ++ [a]) ht hacc' hn'
      refine ⟨h1, fun x => ?_⟩
      rw [h2 x]
      simp only [List.mem_append, List.mem_cons, List.not_mem_nil, or_false]
      constructor
      · rintro ((h | h) | h)
        · exact .inl h
        · exact .inr (.inl h)
        · exact .inr (.inr h)
      · rintro (h | h | h)
        · exact .inl (.inl h)
        · exact .inl (.inr h)
        · exact .inr h

/-- the canonical pair of a member `g` anticommuting with `p` -/
def pairOf (p g : PS) : PS × PS :=
  match g.multiply p with
  | .ok adj => if g.lt adj then (g, adj) else (adj, g)
  | .error _ => (g, g)

theorem nestedPair_ok {n : Nat} {p g : PS} (hp : p.WF ∧ p.len = n) (hg : g.WF ∧ g.len = n) :
    nestedPair p g = .ok (pairOf p g) ∧ (pairOf p g).1.WF ∧ (pairOf p g).2.WF := by
  obtain ⟨r, hr, hrw, _⟩ := multiply_ok hg.1 hp.1 (hg.2.trans hp.2.symm)
  have h1 : nestedPair p g = .ok (pairOf p g) := by
    simp only [nestedPair, pairOf, hr, bind, Except.bind, pure, Except.pure]
  refine ⟨h1, ?_⟩
  simp only [pairOf, hr]
  split
  · exact ⟨hg.1, hrw⟩
  · exact ⟨hrw, hg.1⟩

/-! ### collection level -/

theorem collInit_uniform_id {n : Nat} {L : List PS} (hL : Uniform n L) : collInit L = .ok L := by
  cases L with
  | nil => rfl
  | cons a t =>
    have h := (C14_collection (a :: t) (fun g hg => (hL g hg).1)).1
    rw [h]
    congr 1
    have hm : maxLen (a :: t) = n := by
      obtain ⟨g, hg, hgl⟩ := (C14_collection (a :: t) (fun g hg => (hL g hg).1)).2.2.2 (by simp)
      rw [← hgl]; exact (hL g hg).2
    rw [hm]
    have hpad : ∀ g ∈ a :: t, padTo n g = g := by
      intro g hg
      have e : n - g.len = 0 := by rw [(hL g hg).2]; omega
      rw [padTo, e]
      simp only [List.replicate_zero, List.append_nil]
      exact (C18.C18_observe g (hL g hg).1).symm
    exact (List.map_congr_left hpad).trans (List.map_id _)

theorem filter_uniform {n : Nat} {L : List PS} (hL : Uniform n L) (q : PS → Bool) : Uniform n (L.filter q) :=
  fun g hg => hL g (List.mem_filter.mp hg).1

theorem antiRound_some {n : Nat} {p : PS} {L : List PS} (hp : p.WF ∧ p.len = n) (hL : Uniform n L) :
    antiRound (some L) p = .ok (some (L.filter (aB p))) := by
  unfold antiRound
  rw [psAntiCommutants_some hp hL]
  simp only [bind, Except.bind, pure, Except.pure]
  rw [collInit_uniform_id (filter_uniform hL _)]

theorem foldlM_antiRound {n : Nat} : ∀ (G L : List PS), Uniform n G → Uniform n L →
    G.foldlM antiRound (some L) = .ok (some (L.filter (fun h => G.all (fun g => aB g h))))
  | [], L, _, _ => by simp [pure, Except.pure, filter_const_true]
  | g :: G, L, hG, hL => by
    rw [List.foldlM_cons, antiRound_some (hG g (by simp)) hL]
    simp only [bind, Except.bind]
    rw [foldlM_antiRound G _ (fun x hx => hG x (List.mem_cons_of_mem _ hx)) (filter_uniform hL _)]
    simp only [List.filter_filter, List.all_cons]
    congr 2
    apply List.filter_congr
    intro x _
    exact Bool.and_comm _ _

theorem collAntiCommutants_other {n : Nat} {G H : List PS} (hG : Uniform n G) (hne : G ≠ []) (hH : Uniform n H) :
    collAntiCommutants G (.other H) = .ok (H.filter (fun h => G.all (fun g => aB g h))) := by
  cases G with
  | nil => exact absurd rfl hne
  | cons p rest =>
    simp only [collAntiCommutants]
    rw [foldlM_antiRound (p :: rest) H hG hH]
    rfl

theorem collAntiCommutants_none {n : Nat} {G : List PS} (hG : Uniform n G) (hne : G ≠ []) :
    collAntiCommutants G .none = .ok ((PS.genAll n).filter (fun h => G.all (fun g => aB g h))) := by
  cases G with
  | nil => exact absurd rfl hne
  | cons p rest =>
    have hp := hG p (by simp)
    simp only [collAntiCommutants, List.foldlM_cons]
    have h1 : antiRound none p = .ok (some ((PS.genAll n).filter (aB p))) := by
      unfold antiRound
      rw [psAntiCommutants_none hp]
      simp only [bind, Except.bind, pure, Except.pure]
      rw [collInit_uniform_id (filter_uniform (genAll_uniform n) _)]
    rw [h1]
    simp only [bind, Except.bind]
    rw [foldlM_antiRound rest _ (fun x hx => hG x (List.mem_cons_of_mem _ hx)) (filter_uniform (genAll_uniform n) _)]
    simp only [List.filter_filter, List.all_cons, pure, Except.pure, Option.getD]
    congr 1
    apply List.filter_congr
    intro x _
    exact Bool.and_comm _ _

theorem collAntiCommutants_same {n : Nat} {p : PS} {rest : List PS} (hG : Uniform n (p :: rest)) :
    collAntiCommutants (p :: rest) .same = .ok ((p :: rest).filter (aB p)) := by
  simp only [collAntiCommutants]
  rw [psAntiCommutants_some (hG p (by simp)) hG]
  simp only [bind, Except.bind]
  exact collInit_uniform_id (filter_uniform hG _)

theorem aB_self {p : PS} (hp : p.WF) : aB p p = false := by
  rw [Bool.eq_false_iff]
  intro h
  exact not_anti_self hp ((aB_iff p p).mp h)

/-! ### `get_commutates` / `get_anti_commutates` -/

theorem collCommutates_eq {n : Nat} {S : List PS} {p : PS} (hS : Uniform n S) (hp : p.WF ∧ p.len = n)
    (self : List PS) (gens : Option (List PS)) (hsel : gens.getD self = S) :
    collCommutates self p gens = .ok (S.filter (fun g => !g.beq p && cwB g p)) := by
  unfold collCommutates
  rw [hsel, filterM_ok _ (fun g => !g.beq p && cwB g p) S]
  · simp only [bind, Except.bind]
    exact collInit_uniform_id (filter_uniform hS _)
  · intro g hg
    by_cases hb : g.beq p = true
    · simp [hb, pure, Except.pure]
    · simp only [hb, Bool.false_eq_true, if_false]
      rw [cw_ok (hS g hg) hp]
      simp [hb]

theorem collAntiCommutates_eq {n : Nat} {S : List PS} {p : PS} (hS : Uniform n S) (hp : p.WF ∧ p.len = n)
    (self : List PS) (gens : Option (List PS)) (hsel : gens.getD self = S) :
    collAntiCommutates self p gens = .ok (S.filter (fun g => !g.beq p && aB p g)) := by
  unfold collAntiCommutates
  rw [hsel, filterM_ok _ (fun g => !g.beq p && aB p g) S]
  · simp only [bind, Except.bind]
    exact collInit_uniform_id (filter_uniform hS _)
  · intro g hg
    by_cases hb : g.beq p = true
    · simp [hb, pure, Except.pure]
    · simp only [hb, Bool.false_eq_true, if_false]
      rw [acw_ok hp (hS g hg)]
      simp [hb]

/-! ### isolated vertices of the commutator graph -/

theorem dedupPS_of_BNodup {l : List PS} (h : BNodup l) : dedupPS l = l := by
  unfold dedupPS
  suffices H : ∀ (l acc : List PS), BNodup (acc ++ l) →
      l.foldl (fun acc x => if containsPS acc x then acc else acc ++ [x]) acc = acc ++ l by
    simpa using H l [] (by simpa using h)
  intro l
  induction l with
  | nil => intro acc _; simp
  | cons a t ih =>
    intro acc hn
    have hc : containsPS acc a = false := by
      rw [Bool.eq_false_iff]
      intro hc
      obtain ⟨q, hq, hb⟩ := (containsPS_iff_bits _ _).mp hc
      have := (List.pairwise_append.mp hn).2.2 q hq a (by simp)
      exact this hb
    simp only [List.foldl_cons, hc, Bool.false_eq_true, if_false]
    rw [ih (acc ++ [a]) (by simpa using hn)]
    simp

theorem genAll_BNodup (n : Nat) : BNodup (PS.genAll n) := by
  have hn := C18.C18_enum_nodup n
  rw [List.nodup_iff_pairwise_ne] at hn
  unfold BNodup
  rw [List.pairwise_iff_getElem] at hn ⊢
  intro i j hi hj hij hb
  exact hn i j hi hj hij (eq_of_bits_eq (genAll_uniform n _ (List.getElem_mem hi)).1
    (genAll_uniform n _ (List.getElem_mem hj)).1 hb)

theorem all_cwB_iff {n : Nat} {G : List PS} (hG : Uniform n G) {v : PS} (hv : v.WF ∧ v.len = n) :
    G.all (fun g => cwB g v) = true ↔ ¬ ∃ g ∈ G, anti g v := by
  rw [List.all_eq_true]
  constructor
  · rintro h ⟨g, hg, ha⟩
    have := (cwB_iff g v).mp (h g hg)
    unfold anti at ha
    rw [this] at ha
    cases ha
  · intro h g hg
    obtain ⟨b, hb⟩ := commutesWith_ok (hG g hg).1 hv.1 ((hG g hg).2.trans hv.2.symm)
    cases b with
    | true => exact (cwB_iff g v).mpr hb
    | false => exact absurd ⟨g, hg, hb⟩ h

/-- the isolated vertices of the commutator graph are the commutant, in the same order -/
theorem isolates_eq {n : Nat} {G : List PS} (hG : Uniform n G) (hne : G ≠ []) {E : List (PS × PS)}
    (hE : getCommutatorGraph G = .ok (PS.genAll n, E)) :
    isolates (PS.genAll n) E = (PS.genAll n).filter (fun p => G.all (fun g => cwB g p)) := by
  unfold isolates
  rw [dedupPS_of_BNodup (genAll_BNodup n)]
  apply List.filter_congr
  intro v hv
  have hvw := genAll_uniform n v hv
  have key : E.any (fun e => e.1.beq v || e.2.beq v) = true ↔ ∃ g ∈ G, anti g v := by
    obtain ⟨E', hE', _, hchar⟩ := C14_commutator_graph hG hne
    have : E = E' := by rw [hE] at hE'; cases hE'; rfl
    subst this
    rw [List.any_eq_true]
    constructor
    · rintro ⟨⟨P, Q⟩, he, hb⟩
      obtain ⟨⟨i, j, _, hi, hj⟩, hg⟩ := (hchar P Q).mp he
      have hP := genAll_uniform n P (List.mem_of_getElem? hi)
      have hQ := genAll_uniform n Q (List.mem_of_getElem? hj)
      simp only [Bool.or_eq_true] at hb
      rcases hb with hb | hb
      · have : P = v := (beq_iff_eq hP.1 hvw.1).mp hb
        subst this
        obtain ⟨g, hg1, hg2, _⟩ := hg
        exact ⟨g, hg1, hg2⟩
      · have : Q = v := (beq_iff_eq hQ.1 hvw.1).mp hb
        subst this
        obtain ⟨g, hg1, hg2, _⟩ := commutator_cond_symm hG hP hQ hg
        exact ⟨g, hg1, hg2⟩
    · rintro ⟨g, hg, ha⟩
      obtain ⟨hgw, hgl⟩ := hG g hg
      obtain ⟨Q, hm, hQw, hQl⟩ := multiply_ok hvw.1 hgw (hvw.2.trans hgl.symm)
      obtain ⟨E', hE', hund⟩ := C14_commutator_graph_undirected hG hne v Q hvw ⟨hQw, hQl.trans hvw.2⟩
      have : E = E' := by rw [hE] at hE'; cases hE'; rfl
      subst this
      rcases hund.mpr ⟨g, hg, ha, hm⟩ with h | h
      · exact ⟨(v, Q), h, by simp [PS.beq]⟩
      · exact ⟨(Q, v), h, by simp [PS.beq]⟩
  rw [Bool.eq_iff_iff]
  simp only [Bool.not_eq_true', ← Bool.not_eq_true]
  rw [key, all_cwB_iff hG hvw]

/-! ### charges -/

theorem foldlM_ok {α β : Type} (f : β → α → Except Err β) (g : β → α → β) :
    ∀ (l : List α) (init : β), (∀ x ∈ l, ∀ acc, f acc x = .ok (g acc x)) → l.foldlM f init = .ok (l.foldl g init)
  | [], _, _ => rfl
  | a :: t, init, h => by
    rw [List.foldlM_cons, h a (by simp)]
    simp only [bind, Except.bind, List.foldl_cons]
    exact foldlM_ok f g t _ (fun x hx => h x (List.mem_cons_of_mem _ hx))

/-- the pure step of `non_commuting_charges` -/
def chargeStep (acc : List PS) (cq : PS × PS) : List PS :=
  if antiB cq then
    let acc := if containsPS acc cq.1 then acc else acc ++ [cq.1]
    if containsPS acc cq.2 then acc else acc ++ [cq.2]
  else acc

theorem chargesOf_eq {n : Nat} {L : List PS} (hL : Uniform n L) :
    chargesOf L = .ok ((combinations2 L).foldl chargeStep []) := by
  unfold chargesOf
  apply foldlM_ok
  intro cq hcq acc
  obtain ⟨h1, h2⟩ := mem_of_mem_combinations2 (a := cq.1) (b := cq.2) hcq
  obtain ⟨b, hb⟩ := commutesWith_ok (hL _ h1).1 (hL _ h2).1 ((hL _ h1).2.trans (hL _ h2).2.symm)
  simp only [chargeStep, antiB, hb, bind, Except.bind, pure, Except.pure]
  cases b <;> simp

theorem chargeStep_spec {acc : List PS} {cq : PS × PS} (hacc : ∀ x ∈ acc, x.WF) (hcq : cq.1.WF ∧ cq.2.WF)
    (hn : acc.Nodup) :
    (chargeStep acc cq).Nodup ∧ (∀ x ∈ chargeStep acc cq, x.WF) ∧
    ∀ x, x ∈ chargeStep acc cq ↔ (x ∈ acc ∨ (antiB cq = true ∧ (x = cq.1 ∨ x = cq.2))) := by
  unfold chargeStep
  by_cases ha : antiB cq = true
  · simp only [ha, if_true]
    -- first insertion
    have step : ∀ (A : List PS) (y : PS), (∀ x ∈ A, x.WF) → y.WF → A.Nodup →
        (if containsPS A y then A else A ++ [y]).Nodup ∧ (∀ x ∈ (if containsPS A y then A else A ++ [y]), x.WF) ∧
        ∀ x, x ∈ (if containsPS A y then A else A ++ [y]) ↔ (x ∈ A ∨ x = y) := by
      intro A y hA hy hAn
      by_cases hc : containsPS A y = true
      · rw [if_pos hc]
        have : y ∈ A := (containsPS_iff_mem hA hy).mp hc
        refine ⟨hAn, hA, fun x => ⟨fun h => .inl h, ?_⟩⟩
        rintro (h | rfl)
        · exact h
        · exact this
      · rw [if_neg hc]
        have : y ∉ A := fun h => hc ((containsPS_iff_mem hA hy).mpr h)
        refine ⟨?_, ?_, fun x => by simp⟩
        · rw [List.nodup_append]
          exact ⟨hAn, by simp, fun a ha b hb => by simp at hb; subst hb; exact fun e => this (e ▸ ha)⟩
        · intro x hx
          rcases List.mem_append.mp hx with h | h
          · exact hA x h
          · simp at h; subst h; exact hy
    obtain ⟨n1, w1, m1⟩ := step acc cq.1 hacc hcq.1 hn
    obtain ⟨n2, w2, m2⟩ := step _ cq.2 w1 hcq.2 n1
    refine ⟨n2, w2, fun x => ?_⟩
    rw [m2 x, m1 x]
    constructor
    · rintro ((h | h) | h)
      · exact .inl h
      · exact .inr ⟨trivial, .inl h⟩
      · exact .inr ⟨trivial, .inr h⟩
    · rintro (h | ⟨_, h | h⟩)
      · exact .inl (.inl h)
      · exact .inl (.inr h)
      · exact .inr h
  · simp only [ha, Bool.false_eq_true, if_false]
    exact ⟨hn, hacc, fun x => by simp [ha]⟩

theorem foldl_chargeStep_spec : ∀ (pairs : List (PS × PS)) (acc : List PS), (∀ x ∈ acc, x.WF) →
    (∀ cq ∈ pairs, cq.1.WF ∧ cq.2.WF) → acc.Nodup →
    (pairs.foldl chargeStep acc).Nodup ∧
    ∀ x, x ∈ pairs.foldl chargeStep acc ↔ (x ∈ acc ∨ ∃ cq ∈ pairs, antiB cq = true ∧ (x = cq.1 ∨ x = cq.2))
  | [], acc, _, _, hn => ⟨hn, fun x => by simp⟩
  | cq :: t, acc, hacc, hp, hn => by
    obtain ⟨n1, w1, m1⟩ := chargeStep_spec hacc (hp cq (by simp)) hn
    obtain ⟨n2, m2⟩ := foldl_chargeStep_spec t _ w1 (fun c hc => hp c (List.mem_cons_of_mem _ hc)) n1
    refine ⟨n2, fun x => ?_⟩
    rw [List.foldl_cons, m2 x, m1 x]
    constructor
    · rintro ((h | h) | ⟨c, hc, h⟩)
      · exact .inl h
      · exact .inr ⟨cq, by simp, h⟩
      · exact .inr ⟨c, List.mem_cons_of_mem _ hc, h⟩
    · rintro (h | ⟨c, hc, h⟩)
      · exact .inl (.inl h)
      · rcases List.mem_cons.mp hc with rfl | hc
        · exact .inl (.inr h)
        · exact .inr ⟨c, hc, h⟩

/-- `non_commuting_charges` on a list of synchronised strings of one length -/
theorem chargesOf_spec {n : Nat} {L : List PS} (hL : Uniform n L) :
    ∃ R, chargesOf L = .ok R ∧ R.Nodup ∧ ∀ P, P ∈ R ↔ (P ∈ L ∧ ∃ Q ∈ L, anti P Q) := by
  have hpairs : ∀ cq ∈ combinations2 L, cq.1.WF ∧ cq.2.WF := by
    intro cq hcq
    obtain ⟨h1, h2⟩ := mem_of_mem_combinations2 (a := cq.1) (b := cq.2) hcq
    exact ⟨(hL _ h1).1, (hL _ h2).1⟩
  obtain ⟨hn, hm⟩ := foldl_chargeStep_spec (combinations2 L) [] (by simp) hpairs List.nodup_nil
  refine ⟨_, chargesOf_eq hL, hn, fun P => ?_⟩
  rw [hm P]
  simp only [List.not_mem_nil, false_or]
  constructor
  · rintro ⟨⟨c, q⟩, hcq, ha, h⟩
    obtain ⟨h1, h2⟩ := mem_of_mem_combinations2 hcq
    have hanti : anti c q := (antiB_iff c q).mp ha
    rcases h with rfl | rfl
    · exact ⟨h1, q, h2, hanti⟩
    · exact ⟨h2, c, h1, (anti_comm (hL _ h1).1 (hL _ h2).1 ((hL _ h1).2.trans (hL _ h2).2.symm)).mp hanti⟩
  · rintro ⟨hP, Q, hQ, ha⟩
    have hne : P ≠ Q := fun e => not_anti_self (hL P hP).1 (e ▸ ha)
    obtain ⟨i, hi, rfl⟩ := List.mem_iff_getElem.mp hP
    obtain ⟨j, hj, rfl⟩ := List.mem_iff_getElem.mp hQ
    have hij : i ≠ j := fun e => hne (by subst e; rfl)
    rcases Nat.lt_or_gt_of_ne hij with h | h
    · exact ⟨(L[i], L[j]), (mem_combinations2 L _ _).mpr ⟨i, j, h, by simp [hi], by simp [hj]⟩,
        (antiB_iff _ _).mpr ha, .inl rfl⟩
    · refine ⟨(L[j], L[i]), (mem_combinations2 L _ _).mpr ⟨j, i, h, by simp [hj], by simp [hi]⟩, ?_, .inr rfl⟩
      exact (antiB_iff _ _).mpr ((anti_comm (hL _ hP).1 (hL _ hQ).1 ((hL _ hP).2.trans (hL _ hQ).2.symm)).mp ha)

end C14Extra
end PauLie
