/-
Helper lemmas for property C18 (synchronisation of the three bit views of a
Pauli string under in-place edits).  Core Lean only.
-/
import PauLieVerif.Model.PS

namespace PauLie
namespace C18

open PS

/-! ### codec -/

theorem ofCode_code (l : Letter) : Letter.ofCode l.code.1 l.code.2 = l := by
  cases l <;> rfl

theorem code_ofCode (a b : Bool) : (Letter.ofCode a b).code = (a, b) := by
  cases a <;> cases b <;> rfl

@[simp] theorem encode_length (w : List Letter) : (encode w).length = 2 * w.length := by
  induction w with
  | nil => rfl
  | cons l t ih => simp [encode, ih]; omega

theorem evens_encode (w : List Letter) : evens (encode w) = w.map (fun l => l.code.1) := by
  induction w with
  | nil => rfl
  | cons l t ih => simp [encode, evens, ih]

theorem odds_encode (w : List Letter) : odds (encode w) = w.map (fun l => l.code.2) := by
  induction w with
  | nil => rfl
  | cons l t ih => simp [encode, odds, ih]

@[simp] theorem decode_encode (w : List Letter) : decode (encode w) = w := by
  induction w with
  | nil => rfl
  | cons l t ih => simp [encode, decode, ih, ofCode_code]

theorem encode_decode (b : List Bool) (h : b.length % 2 = 0) : encode (decode b) = b := by
  fun_induction decode b with
  | case1 a b t ih =>
    simp only [List.length_cons] at h
    simp [encode, code_ofCode, ih (by omega)]
  | case2 t hne =>
    match t, hne with
    | [], _ => rfl
    | [a], _ => simp at h
    | a :: b :: t, hne => exact absurd rfl (hne a b t)

theorem decode_length (b : List Bool) : (decode b).length = b.length / 2 := by
  fun_induction decode b with
  | case1 a b t ih => simp [ih]; omega
  | case2 t hne =>
    match t, hne with
    | [], _ => rfl
    | [a], _ => simp
    | a :: b :: t, hne => exact absurd rfl (hne a b t)

theorem decode_append (a b : List Bool) (h : a.length % 2 = 0) :
    decode (a ++ b) = decode a ++ decode b := by
  fun_induction decode a with
  | case1 x y t ih =>
    simp only [List.length_cons] at h
    simp [decode, ih (by omega)]
  | case2 t hne =>
    match t, hne with
    | [], _ => simp
    | [a], _ => simp at h
    | a :: b :: t, hne => exact absurd rfl (hne a b t)

theorem encode_append (a b : List Letter) : encode (a ++ b) = encode a ++ encode b := by
  induction a with
  | nil => rfl
  | cons l t ih => simp [encode, ih]

theorem encode_replicate_I (n : Nat) :
    encode (List.replicate n Letter.I) = List.replicate (2 * n) false := by
  induction n with
  | zero => rfl
  | succ n ih =>
    rw [List.replicate_succ, encode, ih, show 2 * (n + 1) = (2 * n + 1) + 1 by omega,
      List.replicate_succ, List.replicate_succ]
    rfl

/-! ### Python indexing -/

/-- `pyIndex?` only depends on the length -/
def pyIdx (n : Nat) (i : Int) : Option Nat :=
  if 0 ≤ i ∧ i < (n : Int) then some i.toNat
  else if i < 0 ∧ -(n : Int) ≤ i then some (i + n).toNat
  else none

theorem pyIndex?_eq {α} (l : List α) (i : Int) : pyIndex? l i = pyIdx l.length i := rfl

theorem pyIdx_lt {n : Nat} {i : Int} {k : Nat} (h : pyIdx n i = some k) : k < n := by
  unfold pyIdx at h
  split at h
  · simp at h; omega
  · split at h
    · simp at h; omega
    · simp at h

theorem pyIdx_even (n : Nat) (j : Int) :
    pyIdx (2 * n) (2 * j) = (pyIdx n j).map (fun k => 2 * k) := by
  unfold pyIdx
  split <;> split <;> (try split) <;> (try split) <;> simp <;> omega

theorem pyIdx_odd (n : Nat) (j : Int) :
    pyIdx (2 * n) (2 * j + 1) = (pyIdx n j).map (fun k => 2 * k + 1) := by
  unfold pyIdx
  split <;> split <;> (try split) <;> (try split) <;> simp <;> omega

theorem getD_encode_even (v : List Letter) (i : Nat) (h : i < v.length) :
    PS.getD (encode v) (2 * i) = v[i].code.1 := by
  induction v generalizing i with
  | nil => simp at h
  | cons l t ih =>
    cases i with
    | zero => simp [encode, PS.getD]
    | succ i =>
      have := ih i (by simpa using h)
      simp [PS.getD] at this
      simp [encode, PS.getD, show 2 * (i + 1) = 2 * i + 1 + 1 by omega, this]

theorem getD_encode_odd (v : List Letter) (i : Nat) (h : i < v.length) :
    PS.getD (encode v) (2 * i + 1) = v[i].code.2 := by
  induction v generalizing i with
  | nil => simp at h
  | cons l t ih =>
    cases i with
    | zero => simp [encode, PS.getD]
    | succ i =>
      have := ih i (by simpa using h)
      simp [PS.getD] at this
      simp [encode, PS.getD, show 2 * (i + 1) + 1 = (2 * i + 1) + 1 + 1 by omega, this]

theorem encode_set (w : List Letter) (k : Nat) (l : Letter) :
    ((encode w).set (2 * k) l.code.1).set (2 * k + 1) l.code.2 = encode (w.set k l) := by
  induction w generalizing k with
  | nil => simp [encode]
  | cons x t ih =>
    cases k with
    | zero => simp [encode]
    | succ k =>
      simp [encode, show 2 * (k + 1) = 2 * k + 1 + 1 by omega, ih]

/-! ### one loop iteration of `set_substring` on synchronised states -/

theorem ofLetters_eq (w : List Letter) :
    ofLetters w = ⟨encode w, w.map (fun l => l.code.1), w.map (fun l => l.code.2)⟩ := by
  simp [ofLetters, ofBits, evens_encode, odds_encode]

theorem setOne_ofLetters (w v : List Letter) (start : Int) (i : Nat) (hi : i < v.length) :
    setOne (ofLetters w) start (ofLetters v) i =
      match pyIdx w.length (start + i) with
      | some k => (ofLetters (w.set k v[i]), none)
      | none => (ofLetters w, some .indexError) := by
  have e1 : ∀ b : List Bool, b.length = 2 * w.length →
      pyIndex? b (2 * start + 2 * i) = (pyIdx w.length (start + i)).map (fun k => 2 * k) := by
    intro b hb
    rw [pyIndex?_eq, hb, ← pyIdx_even]; congr 1; omega
  have e2 : ∀ b : List Bool, b.length = 2 * w.length →
      pyIndex? b (2 * start + 2 * i + 1) = (pyIdx w.length (start + i)).map (fun k => 2 * k + 1) := by
    intro b hb
    rw [pyIndex?_eq, hb, ← pyIdx_odd]; congr 1; omega
  have e3 : ∀ b : List Bool, b.length = w.length →
      pyIndex? b (start + i) = pyIdx w.length (start + i) := by
    intro b hb
    rw [pyIndex?_eq, hb]
  cases hk : pyIdx w.length (start + i) with
  | none =>
    simp [setOne, pySet, ofLetters_eq, e1 (encode w) (by simp), hk]
  | some k =>
    simp only [setOne, pySet, ofLetters_eq]
    rw [e1 (encode w) (by simp), hk]
    simp only [Option.map_some]
    rw [e2 _ (by simp), hk]
    simp only [Option.map_some]
    rw [e3 _ (by simp), hk]
    simp only []
    rw [e3 _ (by simp), hk]
    simp only [getD_encode_even v i hi, getD_encode_odd v i hi, encode_set]
    simp [PS.getD, hi, List.map_set]

/-! ### the loop of `set_substring` at the level of letters -/

/-- Letter-level specification of the Python loop of `set_substring`: for
`i, i+1, …` (`fuel` iterations) write letter `v[i]` at Python index `start + i`
(negative indices count from the end); stop at the first IndexError, keeping
what has been written so far. -/
def writeFrom (w : List Letter) (start : Int) (v : List Letter) :
    Nat → Nat → List Letter × Option Err
  | _, 0 => (w, none)
  | i, fuel + 1 =>
    match pyIndex? w (start + i) with
    | some k => writeFrom (w.set k (v.getD i Letter.I)) start v (i + 1) fuel
    | none => (w, some Err.indexError)

theorem len_ofLetters (w : List Letter) : (ofLetters w).len = w.length := by
  simp [PS.len, ofLetters, ofBits]

theorem letters_ofLetters (w : List Letter) : (ofLetters w).letters = w := by
  simp [PS.letters, ofLetters, ofBits]

theorem setLoop_ofLetters (w v : List Letter) (start : Int) (i fuel : Nat)
    (h : i + fuel ≤ v.length) :
    setLoop (ofLetters w) start (ofLetters v) i fuel =
      (ofLetters (writeFrom w start v i fuel).1, (writeFrom w start v i fuel).2) := by
  induction fuel generalizing w i with
  | zero => simp [setLoop, writeFrom]
  | succ fuel ih =>
    have hi : i < v.length := by omega
    rw [setLoop, setOne_ofLetters w v start i hi, writeFrom, pyIndex?_eq]
    cases hk : pyIdx w.length (start + i) with
    | none => simp
    | some k =>
      simp only []
      rw [ih _ _ (by omega)]
      simp [List.getD_eq_getElem?_getD, hi]

theorem writeFrom_length (w v : List Letter) (start : Int) (i fuel : Nat) :
    (writeFrom w start v i fuel).1.length = w.length := by
  induction fuel generalizing w i with
  | zero => simp [writeFrom]
  | succ fuel ih =>
    rw [writeFrom]
    cases hk : pyIndex? w (start + i) with
    | none => simp
    | some k => simp [ih]

theorem writeFrom_congr (w v v' : List Letter) (start start' : Int) (i fuel : Nat)
    (h1 : ∀ d, d < fuel → pyIdx w.length (start + (i + d : Nat)) = pyIdx w.length (start' + (i + d : Nat)))
    (h2 : ∀ d, d < fuel → v.getD (i + d) Letter.I = v'.getD (i + d) Letter.I) :
    writeFrom w start v i fuel = writeFrom w start' v' i fuel := by
  induction fuel generalizing w i with
  | zero => simp [writeFrom]
  | succ fuel ih =>
    rw [writeFrom, writeFrom, pyIndex?_eq, pyIndex?_eq]
    have a1 := h1 0 (by omega)
    have a2 := h2 0 (by omega)
    simp only [Nat.add_zero] at a1 a2
    rw [← a1, ← a2]
    cases hk : pyIdx w.length (start + i) with
    | none => rfl
    | some k =>
      simp only []
      apply ih
      · intro d hd
        have := h1 (d + 1) (by omega)
        simpa [List.length_set, show i + (d + 1) = i + 1 + d by omega] using this
      · intro d hd
        have := h2 (d + 1) (by omega)
        simpa [show i + (d + 1) = i + 1 + d by omega] using this

theorem writeFrom_add (w v : List Letter) (start : Int) (i f1 f2 : Nat) :
    writeFrom w start v i (f1 + f2) =
      match writeFrom w start v i f1 with
      | (w', none) => writeFrom w' start v (i + f1) f2
      | r => r := by
  induction f1 generalizing w i with
  | zero => simp [writeFrom]
  | succ f1 ih =>
    rw [show f1 + 1 + f2 = (f1 + f2) + 1 by omega, writeFrom, writeFrom]
    cases hk : pyIndex? w (start + i) with
    | none => rfl
    | some k =>
      simp only []
      rw [ih, show i + 1 + f1 = i + (f1 + 1) by omega]

theorem writeFrom_shift (w v : List Letter) (start : Int) (i d fuel : Nat) :
    writeFrom w start v (i + d) fuel = writeFrom w (start + d) (v.drop d) i fuel := by
  induction fuel generalizing w i with
  | zero => simp [writeFrom]
  | succ fuel ih =>
    rw [writeFrom, writeFrom]
    have e : start + ((i + d : Nat) : Int) = start + (d : Int) + (i : Int) := by omega
    rw [e]
    cases hk : pyIndex? w (start + d + i) with
    | none => rfl
    | some k =>
      simp only []
      rw [show i + d + 1 = (i + 1) + d by omega, ih]
      simp [List.getD_eq_getElem?_getD, Nat.add_comm]

/-! ### closed form for a non-negative start -/

theorem pyIdx_nonneg {n : Nat} {j : Int} (h : 0 ≤ j) :
    pyIdx n j = if j.toNat < n then some j.toNat else none := by
  unfold pyIdx
  split <;> split <;> (try split) <;> simp at * <;> omega

theorem writeFrom_nonneg_getElem? (w v : List Letter) (start : Int) (hs : 0 ≤ start) (i fuel : Nat)
    (h : i + fuel ≤ v.length) (j : Nat) :
    (writeFrom w start v i fuel).1[j]? =
      if start.toNat + i ≤ j ∧ j < start.toNat + i + fuel ∧ j < w.length then v[j - start.toNat]?
      else w[j]? := by
  induction fuel generalizing w i with
  | zero => simp [writeFrom]; intros; omega
  | succ fuel ih =>
    rw [writeFrom, pyIndex?_eq, pyIdx_nonneg (by omega)]
    have e : (start + (i : Int)).toNat = start.toNat + i := by omega
    rw [e]
    split
    · rw [ih _ _ (by omega)]
      simp only [List.length_set, List.getElem?_set, List.getD_eq_getElem?_getD]
      grind
    · grind

theorem writeFrom_nonneg_err (w v : List Letter) (start : Int) (hs : 0 ≤ start) (i fuel : Nat) :
    (writeFrom w start v i fuel).2 =
      if start.toNat + i + fuel ≤ w.length ∨ fuel = 0 then none else some Err.indexError := by
  induction fuel generalizing w i with
  | zero => simp [writeFrom]
  | succ fuel ih =>
    rw [writeFrom, pyIndex?_eq, pyIdx_nonneg (by omega)]
    have e : (start + (i : Int)).toNat = start.toNat + i := by omega
    rw [e]
    split
    · rw [ih]
      simp only [List.length_set]
      grind
    · grind

theorem writeFrom_nonneg (w v : List Letter) (start : Int) (hs : 0 ≤ start) :
    writeFrom w start v 0 v.length =
      (w.take start.toNat ++ v.take (w.length - start.toNat) ++ w.drop (start.toNat + v.length),
       if start.toNat + v.length ≤ w.length ∨ v.length = 0 then none else some Err.indexError) := by
  apply Prod.ext
  · apply List.ext_getElem?
    intro j
    rw [writeFrom_nonneg_getElem? w v start hs 0 v.length (by omega)]
    simp only [List.getElem?_append, List.getElem?_take, List.getElem?_drop, List.length_take, List.length_append]
    grind
  · simpa using writeFrom_nonneg_err w v start hs 0 v.length
/-! ### negative start -/

theorem pyIdx_shift {n : Nat} {j : Int} (h : j < 0) (h2 : -(n : Int) ≤ j) :
    pyIdx n j = pyIdx n (j + n) := by
  unfold pyIdx
  split <;> split <;> (try split) <;> (try split) <;> simp at * <;> omega

theorem pyIdx_below {n : Nat} {j : Int} (h : j < -(n : Int)) : pyIdx n j = none := by
  unfold pyIdx
  split <;> (try split) <;> simp at * <;> omega

/-- a start below `-len`: the first assignment already raises -/
theorem writeFrom_below (w v : List Letter) (start : Int) (h : start < -(w.length : Int)) :
    writeFrom w start v 0 v.length = (w, if v.length = 0 then none else some Err.indexError) := by
  cases hv : v.length with
  | zero => simp [writeFrom]
  | succ n =>
    rw [writeFrom, pyIndex?_eq, pyIdx_below (by omega)]
    simp

/-- window entirely at negative indices: same as writing at `start + len` -/
theorem writeFrom_negwin (w v : List Letter) (start : Int) (h : start < 0)
    (h2 : -(w.length : Int) ≤ start) (h3 : start + v.length ≤ 0) :
    writeFrom w start v 0 v.length =
      (w.take (start + w.length).toNat ++ v ++ w.drop ((start + w.length).toNat + v.length), none) := by
  rw [writeFrom_congr w v v start (start + w.length) 0 v.length
        (by intro d hd; rw [pyIdx_shift (by omega) (by omega)]; congr 1; omega) (by intros; rfl),
      writeFrom_nonneg _ _ _ (by omega)]
  have e : v.take (w.length - (start + w.length).toNat) = v := by
    apply List.take_of_length_le; omega
  rw [e]
  have : (start + (w.length : Int)).toNat + v.length ≤ w.length := by omega
  simp [this]

/-- negative start with wrap-around: the part of the window at negative indices is
written at `start + len`, the rest from index 0 -/
theorem writeFrom_neg (w v : List Letter) (start : Int) (h : start < 0)
    (h2 : -(w.length : Int) ≤ start) :
    writeFrom w start v 0 v.length =
      writeFrom (writeFrom w (start + w.length) (v.take (-start).toNat) 0 (v.take (-start).toNat).length).1
        0 (v.drop (-start).toNat) 0 (v.drop (-start).toNat).length := by
  generalize hm : (-start).toNat = m
  have hv : v.length = min m v.length + (v.length - m) := by omega
  have h1 : writeFrom w start v 0 (min m v.length) =
      writeFrom w (start + w.length) (v.take m) 0 (v.take m).length := by
    rw [List.length_take]
    apply writeFrom_congr
    · intro d hd; rw [pyIdx_shift (by omega) (by omega)]; congr 1; omega
    · intro d hd
      simp only [List.getD_eq_getElem?_getD, List.getElem?_take]
      rw [if_pos (by omega)]
  have h1e : (writeFrom w (start + w.length) (v.take m) 0 (v.take m).length).2 = none := by
    rw [writeFrom_nonneg _ _ _ (by omega)]
    have : (start + (w.length : Int)).toNat + (v.take m).length ≤ w.length := by
      rw [List.length_take]; omega
    rw [if_pos (Or.inl this)]
  rw [hv, writeFrom_add, h1]
  generalize hr : writeFrom w (start + w.length) (v.take m) 0 (v.take m).length = r at h1e
  obtain ⟨r1, r2⟩ := r
  simp only at h1e
  subst h1e
  simp only [List.length_drop]
  by_cases hc : v.length ≤ m
  · rw [show v.length - m = 0 by omega]; simp [writeFrom]
  · rw [show 0 + min m v.length = 0 + m by omega, writeFrom_shift]
    congr 1; omega


/-! ### the invariant -/

theorem wf_ofBits' (b : List Bool) (h : b.length % 2 = 0) : (ofBits b).WF :=
  ⟨rfl, rfl, h⟩

theorem wf_ofLetters' (w : List Letter) : (ofLetters w).WF :=
  wf_ofBits' _ (by simp)

theorem eq_ofLetters_of_WF (s : PS) (h : s.WF) : s = ofLetters s.letters := by
  obtain ⟨b, e, o⟩ := s
  obtain ⟨h1, h2, h3⟩ := h
  simp only at h1 h2 h3
  subst h1 h2
  simp [ofLetters, PS.letters, ofBits, encode_decode b h3]

theorem ofBits_eq_ofLetters (b : List Bool) (h : b.length % 2 = 0) :
    ofBits b = ofLetters (decode b) := by
  simp [ofLetters, encode_decode b h]

/-! ### binary increment -/

/-- little-endian value -/
def valLE : List Bool → Nat
  | [] => 0
  | a :: t => (if a then 1 else 0) + 2 * valLE t

theorem valLE_append (r s : List Bool) : valLE (r ++ s) = valLE r + 2 ^ r.length * valLE s := by
  induction r with
  | nil => simp [valLE]
  | cons a t ih => simp only [List.cons_append, valLE, ih, List.length_cons, Nat.pow_succ]; rw [Nat.mul_add, Nat.mul_comm (2 ^ t.length) 2, Nat.mul_assoc]; omega

theorem foldl_eq_valLE (b : List Bool) (acc : Nat) :
    b.foldl (fun acc x => 2 * acc + (if x then 1 else 0)) acc
      = acc * 2 ^ b.length + valLE b.reverse := by
  induction b generalizing acc with
  | nil => simp [valLE]
  | cons a t ih =>
    simp only [List.foldl_cons, ih, List.reverse_cons, valLE_append, List.length_reverse, valLE,
      List.length_cons, Nat.pow_succ]
    rw [Nat.add_mul, Nat.mul_comm (2 ^ t.length) 2, ← Nat.mul_assoc, Nat.mul_comm acc 2]
    cases a <;> simp <;> omega

theorem bitsToNat_eq (b : List Bool) : bitsToNat b = valLE b.reverse := by
  unfold bitsToNat
  rw [foldl_eq_valLE]; simp

theorem valLE_lt (r : List Bool) : valLE r < 2 ^ r.length := by
  induction r with
  | nil => simp [valLE]
  | cons a t ih => simp only [valLE, List.length_cons, Nat.pow_succ]; split <;> omega

theorem go_length (r : List Bool) : (incBits.go r).length = r.length := by
  induction r with
  | nil => rfl
  | cons a t ih => cases a <;> simp [incBits.go, ih]

theorem valLE_go (r : List Bool) : valLE (incBits.go r) = (valLE r + 1) % 2 ^ r.length := by
  induction r with
  | nil => simp [incBits.go, valLE]
  | cons a t ih =>
    have hl := valLE_lt t
    cases a
    · simp only [incBits.go, valLE, List.length_cons, Nat.pow_succ]
      rw [Nat.mod_eq_of_lt (by simp; omega)]; simp; omega
    · simp only [incBits.go, valLE, List.length_cons, Nat.pow_succ, ih]
      have : (1 + 2 * valLE t + 1) % (2 ^ t.length * 2) = 2 * ((valLE t + 1) % 2 ^ t.length) := by
        rw [show 1 + 2 * valLE t + 1 = 2 * (valLE t + 1) by omega, Nat.mul_comm (2 ^ t.length) 2,
          Nat.mul_mod_mul_left]
      simpa using this.symm

theorem incBits_length (b : List Bool) : (incBits b).length = b.length := by
  simp [incBits, go_length]

theorem bitsToNat_incBits (b : List Bool) :
    bitsToNat (incBits b) = (bitsToNat b + 1) % 2 ^ b.length := by
  simp [bitsToNat_eq, incBits, valLE_go]

theorem bitsToNat_lt (b : List Bool) : bitsToNat b < 2 ^ b.length := by
  rw [bitsToNat_eq]; simpa using valLE_lt b.reverse

theorem valLE_inj (a b : List Bool) (hl : a.length = b.length) (h : valLE a = valLE b) : a = b := by
  induction a generalizing b with
  | nil => cases b with
    | nil => rfl
    | cons _ _ => simp at hl
  | cons x s ih =>
    cases b with
    | nil => simp at hl
    | cons y t =>
      simp only [valLE] at h
      have : s = t := ih t (by simpa using hl) (by split at h <;> split at h <;> omega)
      subst this
      cases x <;> cases y <;> simp at h ⊢

theorem bitsToNat_inj (a b : List Bool) (hl : a.length = b.length)
    (h : bitsToNat a = bitsToNat b) : a = b := by
  rw [bitsToNat_eq, bitsToNat_eq] at h
  have := valLE_inj _ _ (by simpa using hl) h
  simpa using this

theorem valLE_replicate_true (n : Nat) : valLE (List.replicate n true) = 2 ^ n - 1 := by
  induction n with
  | zero => rfl
  | succ n ih =>
    have := Nat.one_le_two_pow (n := n)
    simp only [List.replicate_succ, valLE, ih, Nat.pow_succ]; simp; omega

theorem bitsToNat_replicate_true (n : Nat) : bitsToNat (List.replicate n true) = 2 ^ n - 1 := by
  simp [bitsToNat_eq, valLE_replicate_true]

theorem valLE_replicate_false (n : Nat) : valLE (List.replicate n false) = 0 := by
  induction n with
  | zero => rfl
  | succ n ih => simp [List.replicate_succ, valLE, ih]

theorem bitsToNat_replicate_false (n : Nat) : bitsToNat (List.replicate n false) = 0 := by
  simp [bitsToNat_eq, valLE_replicate_false]

/-! ### enumeration -/

theorem genAllFrom_spec (cur last : PS) (L : Nat) (hc : cur.bits.length = L)
    (hlast : last.bits = List.replicate L true) (fuel : Nat)
    (hf : 2 ^ L - 1 - bitsToNat cur.bits ≤ fuel) :
    (genAllFrom cur last fuel).map (fun p => bitsToNat p.bits)
        = List.range' (bitsToNat cur.bits) (2 ^ L - bitsToNat cur.bits)
      ∧ ∀ p ∈ genAllFrom cur last fuel, p = ofBits p.bits ∧ p.bits.length = L := by
  induction fuel generalizing cur with
  | zero =>
    have := bitsToNat_lt cur.bits
    rw [hc] at this
    have e : 2 ^ L - bitsToNat cur.bits = 1 := by omega
    simp [genAllFrom, e, PS.copy, ofBits, hc]
  | succ fuel ih =>
    have hlt := bitsToNat_lt cur.bits
    rw [hc] at hlt
    rw [genAllFrom]
    by_cases hb : cur.beq last = true
    · have : cur.bits = List.replicate L true := by simpa [PS.beq, hlast] using hb
      have e : bitsToNat cur.bits = 2 ^ L - 1 := by rw [this, bitsToNat_replicate_true]
      have e' : 2 ^ L - bitsToNat cur.bits = 1 := by omega
      rw [if_pos hb]
      simp [e', PS.copy, ofBits, hc]
    · rw [if_neg hb]
      have hne : bitsToNat cur.bits ≠ 2 ^ L - 1 := by
        intro e
        apply hb
        have : cur.bits = List.replicate L true :=
          bitsToNat_inj _ _ (by simp [hc]) (by rw [e, bitsToNat_replicate_true])
        simp [PS.beq, hlast, this]
      have hinc : bitsToNat cur.inc.bits = bitsToNat cur.bits + 1 := by
        simp only [PS.inc, ofBits, bitsToNat_incBits, hc]
        exact Nat.mod_eq_of_lt (by omega)
      have hl : cur.inc.bits.length = L := by simp [PS.inc, ofBits, incBits_length, hc]
      obtain ⟨ih1, ih2⟩ := ih cur.inc hl (by omega)
      constructor
      · rw [List.map_cons, ih1, hinc,
          show 2 ^ L - bitsToNat cur.bits = (2 ^ L - (bitsToNat cur.bits + 1)) + 1 by omega,
          List.range'_succ]
        simp [PS.copy, ofBits]
      · intro p hp
        rcases List.mem_cons.mp hp with rfl | hp
        · simp [PS.copy, ofBits, hc]
        · exact ih2 p hp


/-! ### error exits of the loop -/

theorem writeFrom_err (w v : List Letter) (start : Int) (i fuel : Nat) (e : Err)
    (h : (writeFrom w start v i fuel).2 = some e) :
    e = Err.indexError ∧ ∃ k, k < fuel ∧ pyIndex? w (start + (i + k : Nat)) = none ∧
      (∀ d, d < k → (pyIndex? w (start + (i + d : Nat))).isSome) ∧
      writeFrom w start v i k = ((writeFrom w start v i fuel).1, none) := by
  induction fuel generalizing w i with
  | zero => simp [writeFrom] at h
  | succ fuel ih =>
    rw [writeFrom] at h ⊢
    cases hk : pyIndex? w (start + i) with
    | none =>
      rw [hk] at h
      simp only [Option.some.injEq] at h
      exact ⟨h.symm, 0, by omega, by simpa using hk, by intro d hd; omega, by simp [writeFrom]⟩
    | some k0 =>
      rw [hk] at h
      simp only [] at h ⊢
      obtain ⟨he, k, hk1, hk2, hk3, hk4⟩ := ih _ _ h
      refine ⟨he, k + 1, by omega, ?_, ?_, ?_⟩
      · rw [pyIndex?_eq] at hk2 ⊢
        rw [List.length_set] at hk2
        rw [← hk2]; congr 1; omega
      · intro d hd
        cases d with
        | zero => simp [hk]
        | succ d =>
          have := hk3 d (by omega)
          rw [pyIndex?_eq] at this ⊢
          rw [List.length_set] at this
          rw [show start + ((i + (d + 1) : Nat) : Int) = start + ((i + 1 + d : Nat) : Int) by omega]
          exact this
      · rw [writeFrom, hk]
        exact hk4

theorem writeFrom_ok (w v : List Letter) (start : Int) (i fuel : Nat)
    (h : (writeFrom w start v i fuel).2 = none) :
    ∀ d, d < fuel → (pyIndex? w (start + (i + d : Nat))).isSome := by
  induction fuel generalizing w i with
  | zero => intro d hd; omega
  | succ fuel ih =>
    rw [writeFrom] at h
    cases hk : pyIndex? w (start + i) with
    | none => rw [hk] at h; simp at h
    | some k0 =>
      rw [hk] at h
      simp only [] at h
      intro d hd
      cases d with
      | zero => simp [hk]
      | succ d =>
        have := ih _ _ h d (by omega)
        rw [pyIndex?_eq] at this ⊢
        rw [List.length_set] at this
        rw [show start + ((i + (d + 1) : Nat) : Int) = start + ((i + 1 + d : Nat) : Int) by omega]
        exact this

end C18
end PauLie
