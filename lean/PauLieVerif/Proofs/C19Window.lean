/-
Helpers for property C19, part 12: the window argument for families generating su(2^n).

If on a chain of `w` sites the translates of the generators `gs` generate EVERY non-identity string
(decided once by kernel evaluation of the verified enumerator, `w = 3` or `4`), then on every longer
chain they do: each pair of neighbouring sites lies in a window of `w` consecutive sites, the
translates inside the window are the embedded translates of the `w`-chain (`emb`, a form map), so
all two-site strings are generated, and `full_of_windows` gives the rest.  Hence the closure has
`4^n − 1` members.  Core Lean only.
-/
import PauLieVerif.Proofs.C19FullGen
import PauLieVerif.Proofs.C03Spec

namespace PauLie
namespace C19
open Closure Graph C01Star C03

/-- a string on `w` sites placed on sites `j … j+w−1` of `n` -/
def emb (n w j : Nat) (x : V) : V :=
  List.replicate (2 * j) false ++ (x ++ List.replicate (2 * (n - w - j)) false)

theorem formMap_emb {n w j : Nat} (h : j + w ≤ n) : FormMap w n (emb n w j) where
  len x hx := by simp [emb, hx]; omega
  add x y hx hy := by
    simp only [emb]
    rw [add_append _ _ _ _ rfl, add_append x y _ _ (hx.trans hy.symm), add_replicate_false, add_replicate_false]
  om x y hx hy := by
    simp only [emb]
    rw [omega_append _ _ _ _ rfl (by simp), omega_append x y _ _ (hx.trans hy.symm) (by omega), omega_self, omega_self]
    cases omega x y <;> rfl
  inj x y _ _ h := List.append_cancel_right (List.append_cancel_left h)

theorem emb_shiftV {n w j k : Nat} (g : V) (hk : k + 2 ≤ w) (h : j + w ≤ n) :
    emb n w j (shiftV w k g) = shiftV n (j + k) g := by
  simp only [emb, shiftV, List.append_assoc]
  rw [← List.append_assoc (List.replicate (2 * j) false), List.replicate_append_replicate,
    List.replicate_append_replicate]
  congr 3 <;> omega

theorem shiftV_ne_zero {n k : Nat} {g : V} (hg : g.length = 4) (hg0 : g ≠ zeroV 4) (hk : k + 2 ≤ n) :
    shiftV n k g ≠ zeroV (2 * n) := by
  intro e
  have hz : zeroV (2 * n) = List.replicate (2 * k) false ++ (zeroV 4 ++ List.replicate (2 * (n - 2 - k)) false) := by
    simp only [zeroV, List.replicate_append_replicate]
    congr 1; omega
  rw [shiftV, hz] at e
  have := List.append_cancel_left e
  exact hg0 (List.append_inj this (by simp [hg])).1

/-- **window argument**: full on `w` sites ⇒ full on every `n ≥ w` sites -/
theorem clo_full_of_window {gs : List V} (hg : ∀ g ∈ gs, g.length = 4) (hg0 : ∀ g ∈ gs, g ≠ zeroV 4) {w : Nat}
    (hw : 2 ≤ w) (hwin : ∀ y, y.length = 2 * w → y ≠ zeroV (2 * w) → Clo (klocalV w gs) y) {n : Nat}
    (hn : w ≤ n) (x : V) : Clo (klocalV n gs) x ↔ x.length = 2 * n ∧ x ≠ zeroV (2 * n) := by
  have hU : Uniform n (klocalV n gs) := uniform_klocalV hg
  constructor
  · intro hx
    refine ⟨clo_length hU hx, clo_ne_zero hU ?_ hx⟩
    intro y hy
    obtain ⟨g, hgm, k, hk, rfl⟩ := mem_klocalV.1 hy
    exact shiftV_ne_zero (hg g hgm) (hg0 g hgm) (by omega)
  · rintro ⟨hl, hx0⟩
    refine full_of_windows n (by omega) (Clo (klocalV n gs)) (fun _ _ hx hy _ _ ho => Clo.step hx hy ho) ?_ x hl hx0
    intro i hi g' hg' hg0'
    -- the window containing the sites i, i+1
    obtain ⟨j, k, hjk, hk, hj⟩ : ∃ j k, i = j + k ∧ k + 2 ≤ w ∧ j + w ≤ n := by
      by_cases h : i + w ≤ n
      · exact ⟨i, 0, by omega, by omega, h⟩
      · exact ⟨n - w, i - (n - w), by omega, by omega, by omega⟩
    subst hjk
    rw [← emb_shiftV g' hk hj]
    have hy := hwin (shiftV w k g') (length_shiftV hg' hk) (shiftV_ne_zero hg' hg0' hk)
    have := clo_map (formMap_emb hj) (uniform_klocalV (n := w) hg) hy
    refine clo_mono ?_ this
    intro z hz
    obtain ⟨y, hy', rfl⟩ := List.mem_map.1 hz
    obtain ⟨g, hgm, k', hk', rfl⟩ := mem_klocalV.1 hy'
    rw [emb_shiftV g (by omega) hj]
    exact mem_klocalV.2 ⟨g, hgm, j + k', by omega, rfl⟩

/-- **size**: `4^n − 1 = dim su(2^n)` -/
theorem card_full_of_window {gs : List V} (hg : ∀ g ∈ gs, g.length = 4) (hg0 : ∀ g ∈ gs, g ≠ zeroV 4) {w : Nat}
    (hw : 2 ≤ w) (hwin : ∀ y, y.length = 2 * w → y ≠ zeroV (2 * w) → Clo (klocalV w gs) y) {n : Nat}
    (hn : w ≤ n) : (closureList (klocalV n gs)).1.length = 4 ^ n - 1 := by
  rw [← clo_card (uniform_klocalV hg) (nodup_nonzeroV (2 * n)) (fun x => by
    rw [mem_nonzeroV, clo_full_of_window hg hg0 hw hwin hn]), length_nonzeroV, Nat.pow_mul]

/-- the hypothesis of the window argument from a kernel-evaluated enumeration -/
theorem window_of_list {gs : List V} (hg : ∀ g ∈ gs, g.length = 4) {w : Nat}
    (h : (nonzeroV (2 * w)).all (fun y => (closureList (klocalV w gs)).1.contains y) = true) :
    ∀ y, y.length = 2 * w → y ≠ zeroV (2 * w) → Clo (klocalV w gs) y := by
  intro y hl h0
  rw [List.all_eq_true] at h
  have := h y (mem_nonzeroV.2 ⟨hl, h0⟩)
  exact (closureList_sound_complete (uniform_klocalV hg)).1 (List.contains_iff_mem.1 this)

end C19
end PauLie
