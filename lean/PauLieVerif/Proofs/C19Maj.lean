/-
Helpers for property C19, part 5: "free-fermion" families.  Generalises `Proofs/C19Path.lean` from
the concrete Jordan–Wigner strings `Z^k Y I^(n-1-k)` to ANY family `w 0 … w (M-1)` of pairwise
anticommuting strings of one length (a *Majorana family*, `Maj L M w`):

  * the bilinears `bil w a b = w a + w b` (a ≠ b) satisfy the relations of the units `E_ab` of
    so(M): two of them anticommute exactly when they share one index, and then their product is the
    bilinear on the two other indices (`omega_bil`, `bil_step`);
  * distinct index pairs give distinct strings (`bil_inj`);
  * if every generator of `G` is a bilinear and every consecutive bilinear `w k + w (k+1)` lies in
    the closure of `G`, then the closure of `G` is exactly the set of all M(M−1)/2 bilinears
    (`clo_maj`, `card_clo_maj`) — the Pauli basis of so(M);
  * a sub-family of a Majorana family is one (`Maj.comp`); bilinears on disjoint index sets commute
    (`omega_bil_disjoint`).

Core Lean only.
-/
import PauLieVerif.Proofs.C19Path

namespace PauLie
namespace C19
open Closure

/-- `w 0 … w (M-1)`: strings of length `L`, pairwise anticommuting -/
structure Maj (L M : Nat) (w : Nat → V) : Prop where
  len : ∀ i, i < M → (w i).length = L
  anti : ∀ a b, a < M → b < M → omega (w a) (w b) = decide (a ≠ b)

/-- the bilinear `w a + w b` -/
def bil (w : Nat → V) (a b : Nat) : V := add (w a) (w b)

theorem bil_comm (w : Nat → V) (a b : Nat) : bil w a b = bil w b a := add_comm _ _

namespace Maj
variable {L M : Nat} {w : Nat → V}

theorem length_bil (h : Maj L M w) {a b : Nat} (ha : a < M) (hb : b < M) : (bil w a b).length = L :=
  length_add_eq (h.len a ha) (h.len b hb)

theorem omega_bil (h : Maj L M w) {a b c d : Nat} (ha : a < M) (hb : b < M) (hc : c < M) (hd : d < M) :
    omega (bil w a b) (bil w c d) =
      (((decide (a ≠ c)) != (decide (a ≠ d))) != ((decide (b ≠ c)) != (decide (b ≠ d)))) := by
  unfold bil
  rw [omega_add_left _ _ _ ((h.len a ha).trans (h.len b hb).symm),
    omega_add_right _ _ _ ((h.len c hc).trans (h.len d hd).symm),
    omega_add_right _ _ _ ((h.len c hc).trans (h.len d hd).symm),
    h.anti a c ha hc, h.anti a d ha hd, h.anti b c hb hc, h.anti b d hb hd]

/-- bilinears on disjoint index pairs commute -/
theorem omega_bil_disjoint (h : Maj L M w) {a b c d : Nat} (ha : a < M) (hb : b < M) (hc : c < M) (hd : d < M)
    (h1 : a ≠ c) (h2 : a ≠ d) (h3 : b ≠ c) (h4 : b ≠ d) : omega (bil w a b) (bil w c d) = false := by
  rw [h.omega_bil ha hb hc hd]
  simp [h1, h2, h3, h4]

/-- two bilinears that anticommute share exactly one index; their product is the bilinear on the
two other indices -/
theorem bil_step (h : Maj L M w) {a b c d : Nat} (hab : a < b) (hb : b < M) (hcd : c < d) (hd : d < M)
    (ho : omega (bil w a b) (bil w c d) = true) :
    ∃ p q, p < q ∧ q < M ∧ add (bil w a b) (bil w c d) = bil w p q ∧ (p = a ∨ p = b ∨ p = c ∨ p = d) ∧
      (q = a ∨ q = b ∨ q = c ∨ q = d) := by
  have ha : a < M := by omega
  have hc : c < M := by omega
  rw [h.omega_bil ha hb hc hd] at ho
  have La := h.len a ha
  have Lb := h.len b hb
  have Lc := h.len c hc
  have Ld := h.len d hd
  by_cases h1 : a = c
  · subst h1
    by_cases h2 : b = d
    · subst h2
      have hne : a ≠ b := by omega
      simp [hne, hne.symm] at ho
    · rcases Nat.lt_or_gt_of_ne h2 with hlt | hlt
      · exact ⟨b, d, hlt, hd, add_share La Lb Ld, by simp, by simp⟩
      · exact ⟨d, b, hlt, hb, by rw [bil_comm w d b]; exact add_share La Lb Ld, by simp, by simp⟩
  · by_cases h2 : b = d
    · subst h2
      rcases Nat.lt_or_gt_of_ne h1 with hlt | hlt
      · exact ⟨a, c, hlt, by omega, by rw [bil_comm w a b, bil_comm w c b]; exact add_share Lb La Lc,
          by simp, by simp⟩
      · exact ⟨c, a, hlt, by omega, by
          rw [bil_comm w a b, bil_comm w c b, bil_comm w c a]; exact add_share Lb La Lc, by simp, by simp⟩
    · by_cases h3 : a = d
      · subst h3
        exact ⟨c, b, by omega, hb, by rw [bil_comm w c a, bil_comm w c b]; exact add_share La Lb Lc,
          by simp, by simp⟩
      · by_cases h4 : b = c
        · subst h4
          exact ⟨a, d, by omega, hd, by rw [bil_comm w a b]; exact add_share Lb La Ld, by simp, by simp⟩
        · simp [h1, h2, h3, h4] at ho

theorem bil_chain (h : Maj L M w) {a b d : Nat} (hab : a < b) (hbd : b < d) (hd : d < M) :
    omega (bil w a b) (bil w b d) = true ∧ add (bil w a b) (bil w b d) = bil w a d := by
  constructor
  · rw [h.omega_bil (by omega) (by omega) (by omega) hd]
    have h1 : a ≠ b := by omega
    have h2 : a ≠ d := by omega
    have h3 : b ≠ d := by omega
    simp [h1, h2, h3]
  · rw [bil_comm w a b]
    exact add_share (h.len b (by omega)) (h.len a (by omega)) (h.len d hd)

/-- two bilinears sharing their first index anticommute; the product is the bilinear on the others -/
theorem bil_share (h : Maj L M w) {p a b : Nat} (hp : p < M) (ha : a < M) (hb : b < M) (h1 : p ≠ a) (h2 : p ≠ b)
    (h3 : a ≠ b) : omega (bil w p a) (bil w p b) = true ∧ add (bil w p a) (bil w p b) = bil w a b := by
  constructor
  · rw [h.omega_bil hp ha hp hb]
    simp [h2, h3, Ne.symm h1]
  · exact add_share (h.len p hp) (h.len a ha) (h.len b hb)

/-- the same in a closure -/
theorem clo_share (h : Maj L M w) {G : List V} {p a b : Nat} (hp : p < M) (ha : a < M) (hb : b < M) (h1 : p ≠ a)
    (h2 : p ≠ b) (h3 : a ≠ b) (c1 : Clo G (bil w p a)) (c2 : Clo G (bil w p b)) : Clo G (bil w a b) := by
  have hh := h.bil_share hp ha hb h1 h2 h3
  rw [← hh.2]
  exact Clo.step c1 c2 hh.1

/-- the set of bilinears is closed under commutators: a closure generated by bilinears consists of
bilinears -/
theorem clo_sub (h : Maj L M w) {G : List V} (hG : ∀ g ∈ G, ∃ p q, p < q ∧ q < M ∧ g = bil w p q) {x : V}
    (hx : Clo G x) : ∃ a b, a < b ∧ b < M ∧ x = bil w a b := by
  induction hx with
  | base hg => exact hG _ hg
  | step _ _ ho ihx ihy =>
    obtain ⟨a, b, hab, hb, rfl⟩ := ihx
    obtain ⟨c, d, hcd, hd, rfl⟩ := ihy
    obtain ⟨p, q, hpq, hq, e, _, _⟩ := h.bil_step hab hb hcd hd ho
    exact ⟨p, q, hpq, hq, e⟩

/-- the consecutive bilinears generate all bilinears -/
theorem clo_sup (h : Maj L M w) {G : List V} (hc : ∀ k, k + 1 < M → Clo G (bil w k (k + 1))) {a b : Nat}
    (hab : a < b) (hb : b < M) : Clo G (bil w a b) := by
  obtain ⟨d, rfl⟩ : ∃ d, b = a + d + 1 := ⟨b - a - 1, by omega⟩
  clear hab
  induction d with
  | zero => exact hc a hb
  | succ d ih =>
    have hh := h.bil_chain (a := a) (b := a + d + 1) (d := a + (d + 1) + 1) (by omega) (by omega) hb
    rw [← hh.2]
    exact Clo.step (ih (by omega)) (hc (a + d + 1) hb) hh.1

/-- **closure of a generating set of bilinears**: all bilinears -/
theorem clo_maj (h : Maj L M w) {G : List V} (hG : ∀ g ∈ G, ∃ p q, p < q ∧ q < M ∧ g = bil w p q)
    (hc : ∀ k, k + 1 < M → Clo G (bil w k (k + 1))) (x : V) :
    Clo G x ↔ ∃ a b, a < b ∧ b < M ∧ x = bil w a b :=
  ⟨h.clo_sub hG, fun ⟨_, _, hab, hb, e⟩ => e ▸ h.clo_sup hc hab hb⟩

theorem omega_w_bil (h : Maj L M w) {t a b : Nat} (ht : t < M) (ha : a < M) (hb : b < M) :
    omega (w t) (bil w a b) = (decide (t ≠ a) != decide (t ≠ b)) := by
  unfold bil
  rw [omega_add_right _ _ _ ((h.len a ha).trans (h.len b hb).symm), h.anti t a ht ha, h.anti t b ht hb]

theorem bil_inj (h : Maj L M w) {a b c d : Nat} (hab : a < b) (hb : b < M) (hcd : c < d) (hd : d < M)
    (e : bil w a b = bil w c d) : a = c ∧ b = d := by
  have h1 := h.omega_w_bil (t := a) (a := a) (b := b) (by omega) (by omega) hb
  have h2 := h.omega_w_bil (t := b) (a := a) (b := b) hb (by omega) hb
  rw [e, h.omega_w_bil (by omega) (by omega) hd] at h1
  rw [e, h.omega_w_bil hb (by omega) hd] at h2
  have ha : a ≠ b := by omega
  simp only [ne_eq, not_true_eq_false, decide_false, ha, ha.symm, not_false_eq_true, decide_true] at h1 h2
  by_cases e1 : a = c <;> by_cases e2 : a = d <;> by_cases e3 : b = c <;> by_cases e4 : b = d <;>
    simp [e1, e2, e3, e4] at h1 h2 <;> omega

/-- the duplicate-free list of all bilinears -/
def bils (w : Nat → V) (M : Nat) : List V := (pairs M).map (fun p => bil w p.1 p.2)

theorem nodup_bils (h : Maj L M w) : (bils w M).Nodup := by
  rw [bils, List.Nodup, List.pairwise_map]
  refine List.Pairwise.imp_of_mem ?_ (nodup_pairs M)
  intro p q hp hq hne heq
  obtain ⟨h1, h2⟩ := mem_pairs.1 hp
  obtain ⟨h3, h4⟩ := mem_pairs.1 hq
  obtain ⟨e1, e2⟩ := h.bil_inj h1 h2 h3 h4 heq
  exact hne (Prod.ext e1 e2)

theorem mem_bils {x : V} : x ∈ bils w M ↔ ∃ a b, a < b ∧ b < M ∧ x = bil w a b := by
  simp only [bils, List.mem_map, Prod.exists, mem_pairs]
  constructor
  · rintro ⟨a, b, ⟨h1, h2⟩, rfl⟩; exact ⟨a, b, h1, h2, rfl⟩
  · rintro ⟨a, b, h1, h2, rfl⟩; exact ⟨a, b, ⟨h1, h2⟩, rfl⟩

theorem uniform_of {n : Nat} (h : Maj (2 * n) M w) {G : List V}
    (hG : ∀ g ∈ G, ∃ p q, p < q ∧ q < M ∧ g = bil w p q) : Uniform n G := by
  intro g hg
  obtain ⟨p, q, hpq, hq, rfl⟩ := hG g hg
  exact h.length_bil (by omega) hq

/-- **size**: M(M−1)/2 = dim so(M) -/
theorem card_clo_maj {n : Nat} (h : Maj (2 * n) M w) {G : List V}
    (hG : ∀ g ∈ G, ∃ p q, p < q ∧ q < M ∧ g = bil w p q)
    (hc : ∀ k, k + 1 < M → Clo G (bil w k (k + 1))) : (closureList G).1.length = M * (M - 1) / 2 := by
  rw [← clo_card (h.uniform_of hG) h.nodup_bils (fun x => by rw [mem_bils, h.clo_maj hG hc]), bils,
    List.length_map, length_pairs]

/-- a sub-family (injective re-indexing) of a Majorana family is a Majorana family -/
theorem comp (h : Maj L M w) {M' : Nat} {σ : Nat → Nat} (hσ : ∀ i, i < M' → σ i < M)
    (hinj : ∀ i j, i < M' → j < M' → σ i = σ j → i = j) : Maj L M' (fun i => w (σ i)) := by
  refine ⟨fun i hi => h.len _ (hσ i hi), fun a b ha hb => ?_⟩
  rw [h.anti _ _ (hσ a ha) (hσ b hb)]
  by_cases e : a = b
  · subst e; simp
  · have : σ a ≠ σ b := fun e' => e (hinj a b ha hb e')
    simp [e, this]

end Maj

end C19
end PauLie
