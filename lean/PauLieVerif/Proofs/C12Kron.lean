/-
Helper lemmas for property C12, part 4: the tensor-type operations `kron`, `rkron`
and `quadratic` (the latter is what C16 builds on).  Matrices on `n + m` qubits are
addressed entry-wise by `Fin.append r r'` (first `n` index bits, then `m`).
-/
import PauLieVerif.Proofs.C12Mul

namespace PauLie
namespace C12

open Matrix Complex C04

theorem encode_append (w v : List Letter) : encode (w ++ v) = encode w ++ encode v := by
  induction w with
  | nil => rfl
  | cons l w ih => simp [encode, ih]

theorem tensor_ofLetters (w v : List Letter) :
    PS.tensor (PS.ofLetters w) (PS.ofLetters v) = PS.ofLetters (w ++ v) := by
  simp [PS.tensor, PS.ofLetters, PS.ofBits, encode_append]

theorem vecOf_append (n m : ℕ) (w v : List Letter) (hw : w.length = n) :
    vecOf (n + m) (w ++ v) = Fin.append (vecOf n w) (vecOf m v) := by
  funext i
  refine Fin.addCases (fun j => ?_) (fun j => ?_) i
  · rw [Fin.append_left]
    simp only [vecOf, Fin.val_castAdd, List.getD_eq_getElem?_getD]
    rw [List.getElem?_append_left (by rw [hw]; exact j.isLt)]
  · rw [Fin.append_right]
    simp only [vecOf, Fin.val_natAdd, List.getD_eq_getElem?_getD]
    rw [List.getElem?_append_right (by rw [hw]; exact Nat.le_add_right n j), hw, Nat.add_sub_cancel_left]

/-- The matrix of a concatenated string is the Kronecker product, entry-wise. -/
theorem M_append {n m : ℕ} (P : Fin n → Letter) (Q : Fin m → Letter)
    (r c : Fin n → Fin 2) (r' c' : Fin m → Fin 2) :
    M (Fin.append P Q) (Fin.append r r') (Fin.append c c') = M P r c * M Q r' c' := by
  simp only [M_apply, Fin.prod_univ_add, Fin.append_left, Fin.append_right]

theorem vec_tensor {n m : ℕ} {p q : PS} (hp : p.WF ∧ p.len = n) (hq : q.WF) :
    (p.tensor q).vec (n + m) = Fin.append (p.vec n) (q.vec m) := by
  rw [WF_eq_ofLetters hp.1, WF_eq_ofLetters hq, tensor_ofLetters]
  simp only [PS.vec, letters_ofLetters]
  exact vecOf_append n m _ _ ((length_letters p).trans hp.2)

theorem valid_tensor {n m : ℕ} {p q : PS} (hp : p.WF ∧ p.len = n) (hq : q.WF ∧ q.len = m) :
    (p.tensor q).WF ∧ (p.tensor q).len = n + m := by
  rw [WF_eq_ofLetters hp.1, WF_eq_ofLetters hq.1, tensor_ofLetters]
  refine ⟨WF_ofLetters _, ?_⟩
  rw [len_ofLetters, List.length_append, length_letters, length_letters, hp.2, hq.2]

theorem kron_spec {n m : ℕ} {a : Lin} {p : PS} (ha : Valid n a) (hp : p.WF ∧ p.len = m)
    (r c : Fin n → Fin 2) (r' c' : Fin m → Fin 2) :
    den (n + m) (Lin.kron a p) (Fin.append r r') (Fin.append c c')
      = den n a r c * M (p.vec m) r' c' := by
  rw [Lin.kron, den_mk]
  induction a with
  | nil => simp
  | cons t a ih =>
    rw [List.map_cons, den_cons, den_cons, Matrix.add_apply, Matrix.add_apply,
      ih (valid_cons.mp ha).2, add_mul]
    congr 1
    simp only [term, Matrix.smul_apply, smul_eq_mul]
    rw [vec_tensor (valid_cons.mp ha).1 hp.1, M_append, mul_assoc]

theorem rkron_spec {n m : ℕ} {a : Lin} {p : PS} (ha : Valid n a) (hp : p.WF ∧ p.len = m)
    (r c : Fin n → Fin 2) (r' c' : Fin m → Fin 2) :
    den (m + n) (Lin.rkron a p) (Fin.append r' r) (Fin.append c' c)
      = M (p.vec m) r' c' * den n a r c := by
  rw [Lin.rkron, den_mk]
  induction a with
  | nil => simp
  | cons t a ih =>
    rw [List.map_cons, den_cons, den_cons, Matrix.add_apply, Matrix.add_apply,
      ih (valid_cons.mp ha).2, mul_add]
    congr 1
    simp only [term, Matrix.smul_apply, smul_eq_mul]
    rw [vec_tensor hp (valid_cons.mp ha).1.1, M_append]
    ring

theorem valid_kron {n m : ℕ} {a : Lin} {p : PS} (ha : Valid n a) (hp : p.WF ∧ p.len = m) :
    Valid (n + m) (Lin.kron a p) ∧ Valid (m + n) (Lin.rkron a p) := by
  constructor
  · apply valid_mk
    intro t ht
    obtain ⟨u, hu, rfl⟩ := List.mem_map.mp ht
    exact (valid_tensor (ha u hu) hp).2
  · apply valid_mk
    intro t ht
    obtain ⟨u, hu, rfl⟩ := List.mem_map.mp ht
    exact (valid_tensor hp (ha u hu)).2

/-! ### `quadratic` -/

/-- the value the property of C16 is stated with: `Σ c · M(S)[r,c] · (M(L) M(S))[r',c']` -/
def quadSum (n : ℕ) (L : Fin n → Letter) (a : Lin) (r c r' c' : Fin n → Fin 2) : ℂ :=
  (a.map (fun t => t.1.toC * M (t.2.vec n) r c * (M L * M (t.2.vec n)) r' c')).sum

theorem quadTerm_spec {n : ℕ} {L : PS} {t : GR × PS} (hL : L.WF ∧ L.len = n)
    (ht : t.2.WF ∧ t.2.len = n) :
    ∃ u, Lin.quadTerm L t = .ok u ∧ u.2.len = n + n ∧
      ∀ r c r' c' : Fin n → Fin 2,
        term (n + n) u (Fin.append r r') (Fin.append c c')
          = t.1.toC * M (t.2.vec n) r c * (M (L.vec n) * M (t.2.vec n)) r' c' := by
  obtain ⟨k, R, hs, hm, _, hwf, hlen, hM⟩ := C04_mul n L t.2 hL.1 ht.1 hL.2 ht.2
  refine ⟨(t.1 * GR.negIPow k, PS.ofLetters (t.2.letters ++ R.letters)), ?_, ?_, ?_⟩
  · simp [Lin.quadTerm, hs, hm, bind, Except.bind, pure, Except.pure]
  · rw [len_ofLetters, List.length_append, length_letters, length_letters, ht.2, hlen]
  · intro r c r' c'
    simp only [term, Matrix.smul_apply, smul_eq_mul, toC_mul, toC_negIPow]
    rw [vec_ofLetters, vecOf_append n n _ _ ((length_letters _).trans ht.2), M_append, hM,
      Matrix.smul_apply, smul_eq_mul]
    simp only [PS.vec]
    ring

theorem quadratic_spec {n : ℕ} {L : PS} {a : Lin} (hL : L.WF ∧ L.len = n) (ha : Valid n a) :
    ∃ q, Lin.quadratic a L = .ok q ∧ Valid (n + n) q ∧
      ∀ r c r' c' : Fin n → Fin 2,
        den (n + n) q (Fin.append r r') (Fin.append c c') = quadSum n (L.vec n) a r c r' c' := by
  have key : ∃ ts, a.mapM (Lin.quadTerm L) = .ok ts ∧ (∀ u ∈ ts, u.2.len = n + n) ∧
      ∀ r c r' c' : Fin n → Fin 2,
        den (n + n) ts (Fin.append r r') (Fin.append c c') = quadSum n (L.vec n) a r c r' c' := by
    induction a with
    | nil => exact ⟨[], rfl, by simp, by intros; simp [quadSum]⟩
    | cons t a ih =>
      obtain ⟨u, hu, hul, hud⟩ := quadTerm_spec hL (valid_cons.mp ha).1
      obtain ⟨ts, hts, htl, htd⟩ := ih (valid_cons.mp ha).2
      refine ⟨u :: ts, ?_, ?_, ?_⟩
      · simp [List.mapM_cons, hu, hts, bind, Except.bind, pure, Except.pure]
      · intro v hv
        rcases List.mem_cons.mp hv with rfl | hv
        · exact hul
        · exact htl v hv
      · intro r c r' c'
        rw [den_cons, Matrix.add_apply, hud, htd]
        simp [quadSum]
  obtain ⟨ts, hts, htl, htd⟩ := key
  refine ⟨Lin.mk ts, ?_, valid_mk htl, ?_⟩
  · simp [Lin.quadratic, hts, bind, Except.bind, pure, Except.pure]
  · intro r c r' c'
    rw [den_mk, htd]

/-! ### printing: the sort is a permutation -/

theorem den_insertSorted (n : ℕ) (t : GR × PS) (l : Lin) :
    den n (Lin.insertSorted t l) = term n t + den n l := by
  induction l with
  | nil => simp [Lin.insertSorted]
  | cons u l ih =>
    unfold Lin.insertSorted
    split
    · rw [den_cons, ih, den_cons]; abel
    · simp

theorem den_sortTerms (n : ℕ) (l : Lin) : den n (Lin.sortTerms l) = den n l := by
  have gen : ∀ acc : Lin, den n (l.foldl (fun acc t => Lin.insertSorted t acc) acc)
      = den n acc + den n l := by
    induction l with
    | nil => intro acc; simp
    | cons t l ih =>
      intro acc
      rw [List.foldl_cons, ih, den_insertSorted, den_cons]; abel
  rw [Lin.sortTerms, gen]; simp

theorem mem_insertSorted (t u : GR × PS) (l : Lin) :
    u ∈ Lin.insertSorted t l ↔ u = t ∨ u ∈ l := by
  induction l with
  | nil => simp [Lin.insertSorted]
  | cons v l ih =>
    unfold Lin.insertSorted
    split
    · rw [List.mem_cons, ih, List.mem_cons]; tauto
    · simp

theorem valid_sortTerms {n : ℕ} {l : Lin} (hl : Valid n l) : Valid n (Lin.sortTerms l) := by
  have gen : ∀ acc : Lin, Valid n acc → Valid n (l.foldl (fun acc t => Lin.insertSorted t acc) acc) := by
    induction l with
    | nil => intro acc h; exact h
    | cons t l ih =>
      intro acc hacc
      rw [List.foldl_cons]
      apply ih (valid_cons.mp hl).2
      intro u hu
      rcases (mem_insertSorted t u acc).mp hu with rfl | hu
      · exact (valid_cons.mp hl).1
      · exact hacc u hu
  exact gen [] (valid_nil n)

/-- `" + "`/`" - "` joining of the formatted terms, as in `__str__` -/
def joinTerms : List String → String
  | [] => ""
  | t0 :: rest =>
    rest.foldl (fun acc t =>
      if t.startsWith "-" then acc ++ " - " ++ (t.drop 1).toString else acc ++ " + " ++ t) t0

theorem str_eq (a : Lin) :
    Lin.str a =
      if Lin.isZero a then "0*" ++ String.ofList (List.replicate (Lin.getSize a) 'I')
      else joinTerms ((Lin.sortTerms (Lin.simplify a)).map
        (fun t => Lin.formatTerm t.1 t.2.toString)) := by
  unfold Lin.str
  split
  · rfl
  · simp only
    cases (Lin.sortTerms (Lin.simplify a)).map (fun t => Lin.formatTerm t.1 t.2.toString) <;> rfl

end C12
end PauLie
