/-
C01, type A in general, part 2: uniqueness of the form `I + zed z` (joint linear independence),
the duplicate-free enumeration and the size 2^|es| · m(m+1)/2 of the closure.  Core Lean only.
-/
import PauLieVerif.Proofs.C01TypeA

namespace PauLie
namespace C01Star
open Closure

theorem add_right_cancel {L : Nat} {x y z : V} (hx : x.length = L) (hy : y.length = L) (hz : z.length = L)
    (h : add x z = add y z) : x = y := by
  rw [add_comm x z, add_comm y z] at h
  exact add_left_cancel hz hx hy h

namespace TypeA
variable {L : Nat} {v : Nat → V} {m : Nat} {es : List V}

/-- the form `I + zed z` is unique -/
theorem form_inj (h : TypeA L v m es) {a b c d : Nat} {z z' : List Bool} (hab : a < b) (hb : b ≤ m)
    (hcd : c < d) (hd : d ≤ m) (hz : z.length = es.length) (hz' : z'.length = es.length)
    (e : add (iv L v a b) (zed L v es z) = add (iv L v c d) (zed L v es z')) : (a = c ∧ b = d) ∧ z = z' := by
  have hm := h.hm
  have hlen := h.path.len
  -- the four path parts as `fsum`s
  have e1 := h.path.iv_eq_fsum (a := a) (b := b) (by omega) hb
  have e2 := h.path.iv_eq_fsum (a := c) (b := d) (by omega) hd
  have p1 : (if par z then v 0 else zeroV L) = fsum L v (fun i => par z && decide (i = 0)) m := by
    rw [fsum_single (par z) 0 m hlen]
    have : decide (0 < m) = true := by simp; omega
    simp [this]
  have p2 : (if par z' then v 0 else zeroV L) = fsum L v (fun i => par z' && decide (i = 0)) m := by
    rw [fsum_single (par z') 0 m hlen]
    have : decide (0 < m) = true := by simp; omega
    simp [this]
  have lI1 := h.path.length_iv (a := a) (b := b) (by omega) hb
  have lZ1 := h.length_zed z
  have key : add (fsum L v (fun i => ((decide (i < a) != decide (i < b)) != (decide (i < c) != decide (i < d))) !=
        ((par z && decide (i = 0)) != (par z' && decide (i = 0)))) m) (msum L (mxor z z') es) = zeroV L := by
    rw [fsum_xor (fun i => (decide (i < a) != decide (i < b)) != (decide (i < c) != decide (i < d)))
        (fun i => (par z && decide (i = 0)) != (par z' && decide (i = 0))) m hlen,
      fsum_xor (fun i => decide (i < a) != decide (i < b)) (fun i => decide (i < c) != decide (i < d)) m hlen,
      fsum_xor (fun i => par z && decide (i = 0)) (fun i => par z' && decide (i = 0)) m hlen,
      ← e1, ← e2, ← p1, ← p2, msum_mxor z z' es h.el hz hz']
    have : add (add (add (iv L v a b) (iv L v c d))
          (add (if par z then v 0 else zeroV L) (if par z' then v 0 else zeroV L)))
          (add (msum L z es) (msum L z' es))
        = add (add (iv L v a b) (zed L v es z)) (add (iv L v c d) (zed L v es z')) := by
      unfold zed; ac_rfl
    rw [this, ← e, add_self_of_length (length_add_eq lI1 lZ1)]
  obtain ⟨k1, _⟩ := h.indep _ (mxor z z') (by rw [length_mxor z z' (hz.trans hz'.symm), hz]) key
  have hzz : z = z' := mxor_eq_noneMask (hz.trans hz'.symm) (by rw [k1, hz])
  subst hzz
  refine ⟨?_, rfl⟩
  have := add_right_cancel lI1 (h.path.length_iv (a := c) (b := d) (by omega) hd) lZ1 e
  exact h.path.iv_inj hab hb hcd hd this

/-- the closure, enumerated: for every interval, all its translates by central elements -/
def listT (L : Nat) (v : Nat → V) (m : Nat) (es : List V) : List V :=
  (C19.pairs (m + 1)).flatMap (fun p => (allMasks es.length).map (fun z => add (iv L v p.1 p.2) (zed L v es z)))

theorem mem_listT {x : V} : x ∈ listT L v m es ↔ InT L v m es x := by
  simp only [listT, List.mem_flatMap, List.mem_map, mem_allMasks, Prod.exists, C19.mem_pairs, InT]
  constructor
  · rintro ⟨a, b, ⟨h1, h2⟩, z, hz, rfl⟩; exact ⟨a, b, z, h1, by omega, hz, rfl⟩
  · rintro ⟨a, b, z, h1, h2, hz, rfl⟩; exact ⟨a, b, ⟨h1, by omega⟩, z, hz, rfl⟩

theorem nodup_listT (h : TypeA L v m es) : (listT L v m es).Nodup := by
  rw [listT, List.Nodup, List.pairwise_flatMap]
  constructor
  · intro p hp
    obtain ⟨h1, h2⟩ := C19.mem_pairs.1 hp
    apply nodup_map_of_inj_on (nodup_allMasks _)
    intro z hz z' hz' e
    exact (h.form_inj h1 (by omega) h1 (by omega) (mem_allMasks.1 hz) (mem_allMasks.1 hz') e).2
  · refine List.Pairwise.imp_of_mem ?_ (C19.nodup_pairs (m + 1))
    intro p q hp hq hne x hx y hy hxy
    obtain ⟨h1, h2⟩ := C19.mem_pairs.1 hp
    obtain ⟨h3, h4⟩ := C19.mem_pairs.1 hq
    obtain ⟨z, hz, rfl⟩ := List.mem_map.1 hx
    obtain ⟨z', hz', rfl⟩ := List.mem_map.1 hy
    obtain ⟨⟨e1, e2⟩, _⟩ := h.form_inj h1 (by omega) h3 (by omega) (mem_allMasks.1 hz) (mem_allMasks.1 hz') hxy
    exact hne (Prod.ext e1 e2)

theorem length_listT : (listT L v m es).length = (m + 1) * m / 2 * 2 ^ es.length := by
  rw [listT, List.length_flatMap]
  have : (fun p : Nat × Nat => ((allMasks es.length).map (fun z => add (iv L v p.1 p.2) (zed L v es z))).length)
      = fun _ => 2 ^ es.length := by
    funext p; rw [List.length_map, length_allMasks]
  rw [this, List.map_const', List.sum_replicate_nat, C19.length_pairs]
  rfl

theorem uniformA {n : Nat} (h : TypeA (2 * n) v m es) : Uniform n (gensA v m es) := by
  intro g hg
  rcases List.mem_append.1 hg with hg | hg
  · exact h.path.uniformF g hg
  · exact h.el g hg

/-- **size of the closure of a type-A star**: 2^|es| · m(m+1)/2 -/
theorem card_clo {n : Nat} (h : TypeA (2 * n) v m es) :
    (closureList (gensA v m es)).1.length = (m + 1) * m / 2 * 2 ^ es.length := by
  rw [← clo_card h.uniformA h.nodup_listT (fun x => by rw [mem_listT, h.clo_typeA]), length_listT]

end TypeA
end C01Star
end PauLie
