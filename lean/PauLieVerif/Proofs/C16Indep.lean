/-
Helper lemmas for property C16, part 7: a trace-orthogonal family of non-zero matrices
inside a subspace is linearly independent, so its length is at most the dimension of the
subspace (the proved half `≤` of the completeness count).
-/
import PauLieVerif.Proofs.C16Main
import Mathlib.LinearAlgebra.FiniteDimensional.Defs
import Mathlib.LinearAlgebra.Dimension.Constructions
import Mathlib.LinearAlgebra.Dimension.Finite
import Mathlib.LinearAlgebra.Matrix.ToLin

namespace PauLie
namespace C16

open Matrix Complex

variable {ι : Type} [Fintype ι] [DecidableEq ι]

omit [DecidableEq ι] in
theorem ip_finset_sum {κ : Type} (A : Matrix ι ι ℂ) (s : Finset κ) (f : κ → Matrix ι ι ℂ) :
    ip A (∑ j ∈ s, f j) = ∑ j ∈ s, ip A (f j) := by
  simp [ip, Matrix.mul_sum, Matrix.trace_sum]

omit [DecidableEq ι] in
theorem orth_index {Qs : List (Matrix ι ι ℂ)} (hO : Orthogonal Qs) (i j : Fin Qs.length)
    (h : i ≠ j) : ip Qs[i] Qs[j] = 0 := by
  have hp := List.pairwise_iff_getElem.mp hO.1
  rcases Nat.lt_or_gt_of_ne (Fin.val_ne_of_ne h) with hlt | hlt
  · exact hp i j i.isLt j.isLt hlt
  · exact ip_eq_zero_symm (hp j i j.isLt i.isLt hlt)

omit [DecidableEq ι] in
theorem linearIndependent_of_orthogonal (W : Submodule ℂ (Matrix ι ι ℂ))
    (Qs : List (Matrix ι ι ℂ)) (hO : Orthogonal Qs) (hmem : ∀ Q ∈ Qs, Q ∈ W) :
    LinearIndependent ℂ
      (fun i : Fin Qs.length => (⟨Qs[i], hmem _ (List.getElem_mem _)⟩ : W)) := by
  rw [linearIndependent_iff']
  intro s g hsum i hi
  have h0 : (∑ j ∈ s, g j • Qs[j]) = 0 := by
    have := congrArg (Submodule.subtype W) hsum
    simpa using this
  have h1 := congrArg (ip Qs[i]) h0
  rw [ip_finset_sum, ip_zero_right, Finset.sum_eq_single i] at h1
  · rw [ip_smul_right] at h1
    exact (mul_eq_zero.mp h1).resolve_right (hO.2 _ (List.getElem_mem _))
  · intro j _ hji
    rw [ip_smul_right, orth_index hO i j hji.symm, mul_zero]
  · intro h; exact absurd hi h

omit [DecidableEq ι] in
theorem length_le_finrank (W : Submodule ℂ (Matrix ι ι ℂ))
    (Qs : List (Matrix ι ι ℂ)) (hO : Orthogonal Qs) (hmem : ∀ Q ∈ Qs, Q ∈ W) :
    Qs.length ≤ Module.finrank ℂ W := by
  have h := (linearIndependent_of_orthogonal W Qs hO hmem).fintype_card_le_finrank
  simpa using h

end C16
end PauLie
