/-
Correctness of the F2 elimination `Morph.inSpan` (the integer XOR basis of the repaired
`check_dependency_one_leg`): on strings of one length,

    inSpan vs x = true  ↔  x is the sum of a subset of vs                       (`inSpan_iff`)

and an executable linear-independence test built on it (`indepB_sound`).  Core Lean only.
-/
import PauLieVerif.Model.Morph
import PauLieVerif.Proofs.C01Star

namespace PauLie
namespace C01Star
open Closure Morph

/-! ### bits -/

theorem xorB_eq_add : ∀ (a b : List Bool), xorB a b = add a b
  | [], b => by simp [xorB]
  | _ :: _, [] => by simp [xorB]
  | a :: s, b :: t => by
    have := xorB_eq_add s t
    simp only [xorB] at this
    simp [xorB, this]

/-- bit `i` of a string (false beyond the end) -/
def bit (x : V) (i : Nat) : Bool := x.getD i false

@[simp] theorem bit_nil (i : Nat) : bit [] i = false := by simp [bit]
@[simp] theorem bit_cons_zero (a : Bool) (s : V) : bit (a :: s) 0 = a := by simp [bit]
@[simp] theorem bit_cons_succ (a : Bool) (s : V) (i : Nat) : bit (a :: s) (i + 1) = bit s i := by simp [bit]

theorem bit_add : ∀ (x y : V) (i : Nat), x.length = y.length → bit (add x y) i = (bit x i != bit y i)
  | [], [], _, _ => by simp
  | [], _ :: _, _, h => by simp at h
  | _ :: _, [], _, h => by simp at h
  | a :: s, b :: t, 0, _ => by simp
  | a :: s, b :: t, i + 1, h => by simp [bit_add s t i (by simpa using h)]

theorem bit_zeroV : ∀ (m i : Nat), bit (zeroV m) i = false
  | 0, _ => by simp [zeroV]
  | m + 1, 0 => by simp [zeroV_succ]
  | m + 1, i + 1 => by simp [zeroV_succ, bit_zeroV m i]

theorem leadIdx_nil : leadIdx [] = none := rfl
theorem leadIdx_true (s : V) : leadIdx (true :: s) = some 0 := by simp [leadIdx, List.findIdx?_cons]
theorem leadIdx_false (s : V) : leadIdx (false :: s) = (leadIdx s).map (· + 1) := by
  simp [leadIdx, List.findIdx?_cons]

theorem leadIdx_some : ∀ (x : V) (i : Nat), leadIdx x = some i →
    bit x i = true ∧ ∀ j, j < i → bit x j = false
  | [], _, h => by simp [leadIdx_nil] at h
  | true :: s, i, h => by
    rw [leadIdx_true] at h
    have : i = 0 := by simpa using h.symm
    subst this; simp
  | false :: s, i, h => by
    rw [leadIdx_false] at h
    cases hs : leadIdx s with
    | none => rw [hs] at h; simp at h
    | some k =>
      rw [hs] at h
      have : i = k + 1 := by simpa using h.symm
      subst this
      obtain ⟨h1, h2⟩ := leadIdx_some s k hs
      refine ⟨by simpa using h1, ?_⟩
      intro j hj
      cases j with
      | zero => simp
      | succ j => simpa using h2 j (by omega)

theorem leadIdx_none : ∀ (x : V), leadIdx x = none → x = zeroV x.length
  | [], _ => by simp [zeroV]
  | true :: s, h => by rw [leadIdx_true] at h; cases h
  | false :: s, h => by
    rw [leadIdx_false] at h
    have hs : leadIdx s = none := by cases hh : leadIdx s <;> simp [hh] at h ⊢
    have := leadIdx_none s hs
    simp only [List.length_cons, zeroV_succ]
    rw [← this]

theorem leadIdx_zeroV : ∀ (m : Nat), leadIdx (zeroV m) = none
  | 0 => rfl
  | m + 1 => by rw [zeroV_succ, leadIdx_false, leadIdx_zeroV m]; rfl

theorem all_not_iff : ∀ (x : V), (x.all (fun b => !b)) = true ↔ x = zeroV x.length
  | [] => by simp [zeroV]
  | a :: s => by
    have := all_not_iff s
    simp only [List.all_cons, Bool.and_eq_true, this, List.length_cons, zeroV_succ, List.cons.injEq]
    cases a <;> simp

/-! ### the span as a predicate -/

/-- sums of members of `S` (strings of length `m`) -/
inductive Span (m : Nat) (S : List V) : V → Prop
  | zero : Span m S (zeroV m)
  | add {v x : V} : v ∈ S → Span m S x → Span m S (Closure.add v x)

theorem Span.length {m : Nat} {S : List V} (hS : ∀ v ∈ S, v.length = m) {x : V} (h : Span m S x) :
    x.length = m := by
  induction h with
  | zero => simp
  | add hv _ ih => exact length_add_eq (hS _ hv) ih

theorem Span.mono {m : Nat} {S T : List V} (hST : ∀ v ∈ S, v ∈ T) {x : V} (h : Span m S x) : Span m T x := by
  induction h with
  | zero => exact Span.zero
  | add hv _ ih => exact Span.add (hST _ hv) ih

theorem Span.mem {m : Nat} {S : List V} (hS : ∀ v ∈ S, v.length = m) {v : V} (hv : v ∈ S) : Span m S v := by
  have := Span.add hv (Span.zero (m := m) (S := S))
  rwa [add_zero_right m v (hS v hv)] at this

theorem Span.sum {m : Nat} {S : List V} (hS : ∀ v ∈ S, v.length = m) {x y : V} (hx : Span m S x)
    (hy : Span m S y) : Span m S (Closure.add x y) := by
  induction hx with
  | zero => rwa [add_zero_left m y (hy.length hS)]
  | add hv _ ih => rw [add_assoc]; exact Span.add hv ih

theorem Span.trans {m : Nat} {S T : List V} (hT : ∀ v ∈ T, v.length = m) (hST : ∀ v ∈ S, Span m T v) {x : V}
    (h : Span m S x) : Span m T x := by
  induction h with
  | zero => exact Span.zero
  | add hv _ ih => exact Span.sum hT (hST _ hv) ih

theorem span_of_msum {m : Nat} : ∀ (b : List Bool) (S : List V), Span m S (msum m b S)
  | [], _ => by simpa using Span.zero
  | _ :: _, [] => by simpa using Span.zero
  | true :: b, v :: S => by
    rw [msum_true]
    exact Span.add (by simp) ((span_of_msum b S).mono (fun x hx => by simp [hx]))
  | false :: b, v :: S => by
    rw [msum_false]
    exact (span_of_msum b S).mono (fun x hx => by simp [hx])

/-- the span is the set of subset sums -/
theorem span_iff_msum {m : Nat} {S : List V} (hS : ∀ v ∈ S, v.length = m) {x : V} :
    Span m S x ↔ ∃ b : List Bool, b.length = S.length ∧ x = msum m b S := by
  constructor
  · intro h
    induction h with
    | zero => exact ⟨noneMask S.length, by simp, (msum_noneMask m _ S).symm⟩
    | add hv _ ih =>
      obtain ⟨b, hb, rfl⟩ := ih
      obtain ⟨u, hu, _, e⟩ := exists_unit_mask m S _ hv hS
      refine ⟨mxor u b, by rw [length_mxor u b (hu.trans hb.symm), hu], ?_⟩
      rw [msum_mxor u b S hS hu hb, e]
  · rintro ⟨b, _, rfl⟩; exact span_of_msum b S

/-! ### `reduceBy` -/

/-- one elimination step -/
def redStep (x b : V) : V :=
  match leadIdx b with
  | some i => if bit x i then xorB x b else x
  | none => x

theorem reduceBy_nil (x : V) : reduceBy [] x = x := rfl
theorem reduceBy_cons (b : V) (B : List V) (x : V) : reduceBy (b :: B) x = reduceBy B (redStep x b) := rfl

theorem redStep_some {x b : V} {i : Nat} (h : leadIdx b = some i) :
    redStep x b = if bit x i then xorB x b else x := by
  unfold redStep; rw [h]

theorem redStep_none {x b : V} (h : leadIdx b = none) : redStep x b = x := by
  unfold redStep; rw [h]

theorem redStep_cases (x b : V) :
    redStep x b = x ∨ (redStep x b = Closure.add x b ∧ ∃ i, leadIdx b = some i ∧ bit x i = true) := by
  cases h : leadIdx b with
  | none => exact Or.inl (redStep_none h)
  | some i =>
    rw [redStep_some h]
    by_cases hx : bit x i = true
    · right; rw [if_pos hx]; exact ⟨xorB_eq_add x b, i, rfl, hx⟩
    · left; rw [if_neg hx]

/-- the reduced string differs from the input by a sum of basis members -/
theorem reduceBy_span {m : Nat} : ∀ (B : List V) (x : V), (∀ b ∈ B, b.length = m) → x.length = m →
    ∃ s, Span m B s ∧ reduceBy B x = Closure.add x s
  | [], x, _, hx => ⟨zeroV m, Span.zero, by rw [reduceBy_nil, add_zero_right m x hx]⟩
  | b :: B, x, hB, hx => by
    rw [reduceBy_cons]
    have hb := hB b (by simp)
    rcases redStep_cases x b with h | ⟨h, _⟩
    · obtain ⟨s, hs, e⟩ := reduceBy_span B x (fun y hy => hB y (by simp [hy])) hx
      exact ⟨s, hs.mono (fun y hy => by simp [hy]), by rw [h, e]⟩
    · obtain ⟨s, hs, e⟩ := reduceBy_span B (Closure.add x b) (fun y hy => hB y (by simp [hy]))
        (length_add_eq hx hb)
      exact ⟨Closure.add b s, Span.add (by simp) (hs.mono (fun y hy => by simp [hy])),
        by rw [h, e, add_assoc]⟩

theorem length_reduceBy {m : Nat} (B : List V) (x : V) (hB : ∀ b ∈ B, b.length = m) (hx : x.length = m) :
    (reduceBy B x).length = m := by
  obtain ⟨s, hs, e⟩ := reduceBy_span B x hB hx
  rw [e]; exact length_add_eq hx (hs.length hB)

/-- the leading position of a basis member, as a relation -/
def Lead (b : V) (i : Nat) : Prop := leadIdx b = some i

/-- echelon form: every member has a leading bit, leading positions strictly increase -/
def Ech (B : List V) : Prop :=
  (∀ b ∈ B, ∃ i, Lead b i) ∧ B.Pairwise (fun a b => ∀ i j, Lead a i → Lead b j → i < j)

theorem Ech.tail {b : V} {B : List V} (h : Ech (b :: B)) : Ech B :=
  ⟨fun x hx => h.1 x (by simp [hx]), (List.pairwise_cons.1 h.2).2⟩

/-- later members vanish at the leading position of the head -/
theorem Ech.bit_tail {b : V} {B : List V} (h : Ech (b :: B)) {i : Nat} (hi : Lead b i) :
    ∀ y ∈ B, bit y i = false := by
  intro y hy
  obtain ⟨j, hj⟩ := h.1 y (by simp [hy])
  have := (List.pairwise_cons.1 h.2).1 y hy i j hi hj
  exact (leadIdx_some y j hj).2 i this

theorem bit_span_false {m : Nat} {S : List V} (hS : ∀ v ∈ S, v.length = m) {i : Nat}
    (h0 : ∀ v ∈ S, bit v i = false) {x : V} (hx : Span m S x) : bit x i = false := by
  induction hx with
  | zero => exact bit_zeroV m i
  | add hv hx' ih =>
    rw [bit_add _ _ i ((hS _ hv).trans (hx'.length hS).symm), h0 _ hv, ih]; rfl

/-- a position where all basis members vanish is not touched by the reduction -/
theorem bit_reduceBy_keep {m : Nat} (B : List V) (x : V) (hB : ∀ b ∈ B, b.length = m) (hx : x.length = m)
    {i : Nat} (h0 : ∀ b ∈ B, bit b i = false) : bit (reduceBy B x) i = bit x i := by
  obtain ⟨s, hs, e⟩ := reduceBy_span B x hB hx
  rw [e, bit_add _ _ i (hx.trans (hs.length hB).symm), bit_span_false hB h0 hs]
  simp

/-- **the reduction annihilates the span of an echelon basis** -/
theorem reduceBy_of_span {m : Nat} : ∀ (B : List V), Ech B → (∀ b ∈ B, b.length = m) →
    ∀ (y : V), Span m B y → reduceBy B y = zeroV m
  | [], _, _, y, hy => by
    rw [reduceBy_nil]
    cases hy with
    | zero => rfl
    | add hv _ => simp at hv
  | b :: B, hE, hB, y, hy => by
    have hb := hB b (by simp)
    have hB' : ∀ x ∈ B, x.length = m := fun x hx => hB x (by simp [hx])
    obtain ⟨i, hi⟩ := hE.1 b (by simp)
    have hbi : bit b i = true := (leadIdx_some b i hi).1
    have htail := hE.bit_tail hi
    -- split y = (t·b) + y' with y' in the span of the tail
    have key : ∃ y', Span m B y' ∧ (y = y' ∨ y = Closure.add b y') := by
      clear hbi htail
      induction hy with
      | zero => exact ⟨zeroV m, Span.zero, Or.inl rfl⟩
      | @add v x hv hx ih =>
        obtain ⟨y', hy', e⟩ := ih
        have ly' := hy'.length hB'
        rcases List.mem_cons.1 hv with rfl | hv
        · rcases e with rfl | rfl
          · exact ⟨x, hy', Or.inr rfl⟩
          · exact ⟨y', hy', Or.inl (add_add_cancel_left v y' (hb.trans ly'.symm))⟩
        · rcases e with rfl | rfl
          · exact ⟨Closure.add v x, Span.add hv hy', Or.inl rfl⟩
          · refine ⟨Closure.add v y', Span.add hv hy', Or.inr ?_⟩
            rw [← add_assoc, add_comm v b, add_assoc]
    obtain ⟨y', hy', e⟩ := key
    have ly' := hy'.length hB'
    have hy'i : bit y' i = false := bit_span_false hB' htail hy'
    rw [reduceBy_cons]
    have : redStep y b = y' := by
      have hi' : leadIdx b = some i := hi
      rw [redStep_some hi']
      rcases e with rfl | rfl
      · rw [if_neg (by rw [hy'i]; simp)]
      · have : bit (Closure.add b y') i = true := by
          have := bit_add b y' i (hb.trans ly'.symm)
          rw [hbi, hy'i] at this
          exact this
        rw [if_pos this, xorB_eq_add, add_comm b y', add_add_cancel_right y' b (ly'.trans hb.symm)]
    rw [this]
    exact reduceBy_of_span B hE.tail hB' y' hy'

/-- the reduced string vanishes at every leading position of an echelon basis -/
theorem bit_reduceBy_lead {m : Nat} : ∀ (B : List V), Ech B → (∀ b ∈ B, b.length = m) →
    ∀ (x : V), x.length = m → ∀ b ∈ B, ∀ i, Lead b i → bit (reduceBy B x) i = false
  | [], _, _, _, _, b, hb, _, _ => by simp at hb
  | b0 :: B, hE, hB, x, hx, b, hb, i, hi => by
    have hb0 := hB b0 (by simp)
    have hB' : ∀ y ∈ B, y.length = m := fun y hy => hB y (by simp [hy])
    rw [reduceBy_cons]
    have lx1 : (redStep x b0).length = m := by
      rcases redStep_cases x b0 with h | ⟨h, _⟩
      · rw [h]; exact hx
      · rw [h]; exact length_add_eq hx hb0
    rcases List.mem_cons.1 hb with rfl | hb
    · -- the head: cleared by the step, then untouched
      rw [bit_reduceBy_keep B _ hB' lx1 (hE.bit_tail hi)]
      have hbi : bit b i = true := (leadIdx_some b i hi).1
      have hi' : leadIdx b = some i := hi
      rw [redStep_some hi']
      by_cases hxi : bit x i = true
      · rw [if_pos hxi, xorB_eq_add, bit_add x b i (hx.trans hb0.symm), hbi, hxi]; rfl
      · rw [if_neg hxi]; simpa using hxi
    · exact bit_reduceBy_lead B hE.tail hB' _ lx1 b hb i hi

/-! ### `insertBasis` keeps the echelon form -/

theorem drop_length_takeWhile {α : Type} (p : α → Bool) : ∀ (l : List α),
    l.drop (l.takeWhile p).length = l.dropWhile p
  | [] => rfl
  | a :: l => by
    by_cases h : p a = true
    · rw [List.takeWhile_cons_of_pos h, List.dropWhile_cons_of_pos h]
      simpa using drop_length_takeWhile p l
    · rw [List.takeWhile_cons_of_neg h, List.dropWhile_cons_of_neg h]; rfl

theorem of_mem_takeWhile {α : Type} {p : α → Bool} {l : List α} {a : α} (h : a ∈ l.takeWhile p) : p a = true := by
  have := List.all_takeWhile (l := l) (p := p)
  rw [List.all_eq_true] at this
  exact this a h

theorem mem_insertBasis {B : List V} {r x : V} : x ∈ insertBasis B r → x = r ∨ x ∈ B := by
  unfold insertBasis
  cases leadIdx r with
  | none => exact fun h => Or.inr h
  | some i =>
    simp only [List.mem_append, List.mem_cons]
    rintro (h | rfl | h)
    · exact Or.inr (List.takeWhile_subset _ h)
    · exact Or.inl rfl
    · exact Or.inr (List.mem_of_mem_drop h)

theorem insertBasis_none {B : List V} {r : V} (h : leadIdx r = none) : insertBasis B r = B := by
  unfold insertBasis; rw [h]

theorem mem_insertBasis_of_mem {B : List V} {r x : V} (hx : x ∈ B) : x ∈ insertBasis B r := by
  unfold insertBasis
  cases leadIdx r with
  | none => exact hx
  | some i =>
    simp only
    rw [List.mem_append, List.mem_cons]
    rw [← List.takeWhile_append_dropWhile (p := fun b => match leadIdx b with | some j => decide (j < i) | none => true) (l := B)] at hx
    rcases List.mem_append.1 hx with h | h
    · exact Or.inl h
    · right; right
      rw [drop_length_takeWhile]
      exact h

theorem self_mem_insertBasis {B : List V} {r : V} {i : Nat} (h : leadIdx r = some i) : r ∈ insertBasis B r := by
  unfold insertBasis; rw [h]; simp

/-- splitting an echelon list at a leading position that does not occur -/
theorem ech_insert {B : List V} {r : V} {i : Nat} (hE : Ech B) (hr : Lead r i)
    (hne : ∀ b ∈ B, ¬ Lead b i) : Ech (insertBasis B r) := by
  have hri : leadIdx r = some i := hr
  let p : V → Bool := fun b => match leadIdx b with | some j => decide (j < i) | none => true
  have hsplit : insertBasis B r = B.takeWhile p ++ r :: B.dropWhile p := by
    unfold insertBasis; rw [hri]
    simp only
    rw [drop_length_takeWhile]
    rfl
  have hB : B = B.takeWhile p ++ B.dropWhile p := (List.takeWhile_append_dropWhile).symm
  have hlt : ∀ b ∈ B.takeWhile p, ∀ j, Lead b j → j < i := by
    intro b hb j hj
    have := of_mem_takeWhile hb
    have hj' : leadIdx b = some j := hj
    simp only [p, hj'] at this
    simpa using this
  -- every member of the second part has a larger leading position
  have hgt : ∀ b ∈ B.dropWhile p, ∀ j, Lead b j → i < j := by
    intro b hb j hj
    cases hd : B.dropWhile p with
    | nil => rw [hd] at hb; simp at hb
    | cons d D =>
      have hdp : p d = false := by
        have := List.head_dropWhile_not p (l := B) (by rw [hd]; simp)
        simpa [hd] using this
      have hdB : d ∈ B := by
        have : d ∈ B.dropWhile p := by rw [hd]; simp
        exact List.dropWhile_subset _ this
      obtain ⟨jd, hjd⟩ := hE.1 d hdB
      have hjd' : leadIdx d = some jd := hjd
      have h1 : ¬ jd < i := by
        simp only [p, hjd'] at hdp
        simpa using hdp
      have h2 : jd ≠ i := by
        intro e; subst e; exact hne d hdB hjd
      have h3 : i < jd := by omega
      rw [hd] at hb
      rcases List.mem_cons.1 hb with rfl | hb
      · have : jd = j := by
          have : leadIdx b = some j := hj
          rw [hjd'] at this; simpa using this
        omega
      · have hpw : (d :: D).Pairwise (fun a b => ∀ i j, Lead a i → Lead b j → i < j) := by
          rw [← hd]
          exact hE.2.sublist (List.dropWhile_sublist p)
        have := (List.pairwise_cons.1 hpw).1 b hb jd j hjd hj
        omega
  rw [hsplit]
  constructor
  · intro b hb
    rcases List.mem_append.1 hb with h | h
    · exact hE.1 b (List.takeWhile_subset _ h)
    · rcases List.mem_cons.1 h with rfl | h
      · exact ⟨i, hr⟩
      · exact hE.1 b (List.dropWhile_subset _ h)
  · rw [List.pairwise_append]
    refine ⟨hE.2.sublist (List.takeWhile_sublist p), ?_, ?_⟩
    · rw [List.pairwise_cons]
      refine ⟨?_, hE.2.sublist (List.dropWhile_sublist p)⟩
      intro b hb i' j hi' hj
      have : i' = i := by
        have h1 : leadIdx r = some i' := hi'
        rw [hri] at h1; simpa using h1.symm
      subst this
      exact hgt b hb j hj
    · intro a ha b hb i' j hi' hj
      have h1 := hlt a ha i' hi'
      rcases List.mem_cons.1 hb with rfl | hb
      · have : j = i := by
          have h2 : leadIdx b = some j := hj
          rw [hri] at h2; simpa using h2.symm
        omega
      · have := hgt b hb j hj
        omega

/-! ### the elimination loop -/

/-- the basis built from `vs` -/
def basisOf (vs : List V) : List V := vs.foldl (fun basis v => insertBasis basis (reduceBy basis v)) []

theorem inSpan_eq (vs : List V) (x : V) : inSpan vs x = (reduceBy (basisOf vs) x).all (fun b => !b) := rfl

/-- invariant of the loop: echelon, uniform length, same span as the strings consumed -/
structure BInv (m : Nat) (P B : List V) : Prop where
  ech : Ech B
  len : ∀ b ∈ B, b.length = m
  sub : ∀ b ∈ B, Span m P b
  sup : ∀ v ∈ P, Span m B v

theorem binv_step {m : Nat} {P B : List V} {v : V} (hP : ∀ p ∈ P, p.length = m) (hv : v.length = m)
    (h : BInv m P B) : BInv m (P ++ [v]) (insertBasis B (reduceBy B v)) := by
  have hPv : ∀ p ∈ P ++ [v], p.length = m := by
    intro p hp
    rcases List.mem_append.1 hp with hp | hp
    · exact hP p hp
    · simp at hp; subst hp; exact hv
  obtain ⟨s, hs, e⟩ := reduceBy_span B v h.len hv
  have lr := length_reduceBy B v h.len hv
  have ls := hs.length h.len
  have hsP : Span m (P ++ [v]) s :=
    Span.trans hPv (fun b hb => (h.sub b hb).mono (fun p hp => by simp [hp])) hs
  have hrP : Span m (P ++ [v]) (reduceBy B v) := by
    rw [e]; exact Span.add (by simp) hsP
  have hlen' : ∀ b ∈ insertBasis B (reduceBy B v), b.length = m := by
    intro b hb
    rcases mem_insertBasis hb with rfl | hb
    · exact lr
    · exact h.len b hb
  cases hl : leadIdx (reduceBy B v) with
  | none =>
    have hz : reduceBy B v = zeroV m := by rw [leadIdx_none _ hl, lr]
    rw [insertBasis_none hl]
    refine ⟨h.ech, h.len, fun b hb => (h.sub b hb).mono (fun p hp => by simp [hp]), ?_⟩
    intro p hp
    rcases List.mem_append.1 hp with hp | hp
    · exact h.sup p hp
    · simp at hp; subst hp
      -- v = s
      have : p = s := by
        rw [e] at hz
        exact (add_eq_zero_iff hv ls).1 hz
      rw [this]; exact hs
  | some i =>
    refine ⟨?_, hlen', ?_, ?_⟩
    · apply ech_insert h.ech hl
      intro b hb hbi
      have h0 := bit_reduceBy_lead B h.ech h.len v hv b hb i hbi
      rw [(leadIdx_some _ i hl).1] at h0
      cases h0
    · intro b hb
      rcases mem_insertBasis hb with rfl | hb
      · exact hrP
      · exact (h.sub b hb).mono (fun p hp => by simp [hp])
    · intro p hp
      rcases List.mem_append.1 hp with hp | hp
      · exact (h.sup p hp).mono (fun b hb => mem_insertBasis_of_mem hb)
      · simp at hp; subst hp
        -- v = r + s
        have e2 : p = Closure.add (reduceBy B p) s := by
          rw [e, add_assoc, add_self_of_length ls, add_zero_right m p hv]
        have : Span m (insertBasis B (reduceBy B p)) (Closure.add (reduceBy B p) s) := Span.sum hlen' (Span.mem hlen' (self_mem_insertBasis hl))
          (hs.mono (fun b hb => mem_insertBasis_of_mem hb))
        rwa [← e2] at this

theorem binv_fold {m : Nat} : ∀ (vs P B : List V), (∀ p ∈ P, p.length = m) → (∀ v ∈ vs, v.length = m) →
    BInv m P B → BInv m (P ++ vs) (vs.foldl (fun basis v => insertBasis basis (reduceBy basis v)) B)
  | [], P, B, _, _, h => by simpa using h
  | v :: vs, P, B, hP, hvs, h => by
    have hv := hvs v (by simp)
    have h1 := binv_step hP hv h
    have := binv_fold vs (P ++ [v]) _ (by
      intro p hp
      rcases List.mem_append.1 hp with hp | hp
      · exact hP p hp
      · simp at hp; subst hp; exact hv) (fun x hx => hvs x (by simp [hx])) h1
    simpa using this

theorem binv_basisOf {m : Nat} (vs : List V) (hvs : ∀ v ∈ vs, v.length = m) : BInv m vs (basisOf vs) := by
  have := binv_fold vs [] [] (by simp) hvs
    ⟨⟨by simp, List.Pairwise.nil⟩, by simp, by simp, by simp⟩
  simpa [basisOf] using this

/-- **correctness of the span test of `check_dependency_one_leg`** -/
theorem inSpan_iff {m : Nat} {vs : List V} {x : V} (hvs : ∀ v ∈ vs, v.length = m) (hx : x.length = m) :
    inSpan vs x = true ↔ ∃ b : List Bool, b.length = vs.length ∧ x = msum m b vs := by
  have hI := binv_basisOf vs hvs
  rw [← span_iff_msum hvs, inSpan_eq, all_not_iff, length_reduceBy _ x hI.len hx]
  constructor
  · intro h
    obtain ⟨s, hs, e⟩ := reduceBy_span (basisOf vs) x hI.len hx
    rw [e] at h
    have : x = s := (add_eq_zero_iff hx (hs.length hI.len)).1 h
    rw [this]
    exact Span.trans hvs hI.sub hs
  · intro h
    exact reduceBy_of_span _ hI.ech hI.len x (Span.trans hI.len hI.sup h)

/-! ### an executable independence test -/

/-- no member is a sum of later members -/
def indepB : List V → Bool
  | [] => true
  | v :: vs => !inSpan vs v && indepB vs

theorem indepB_sound {m : Nat} : ∀ (vs : List V), (∀ v ∈ vs, v.length = m) → indepB vs = true → Indep m vs
  | [], _, _ => by
    intro b hb _
    simp at hb; subst hb; rfl
  | v :: vs, hl, h => by
    simp only [indepB, Bool.and_eq_true, Bool.not_eq_true'] at h
    have hv := hl v (by simp)
    have hl' : ∀ x ∈ vs, x.length = m := fun x hx => hl x (by simp [hx])
    have ih := indepB_sound vs hl' h.2
    intro b hb hz
    match b, hb with
    | false :: b, hb =>
      rw [msum_false] at hz
      have := ih b (by simpa using hb) hz
      simp [this, noneMask, List.replicate_succ]
    | true :: b, hb =>
      exfalso
      rw [msum_true] at hz
      have e : v = msum m b vs := (add_eq_zero_iff hv (length_msum b vs hl')).1 hz
      have : inSpan vs v = true := (inSpan_iff hl' hv).2 ⟨b, by simpa using hb, e⟩
      rw [h.1] at this; cases this

theorem indepB_complete {m : Nat} : ∀ (vs : List V), (∀ v ∈ vs, v.length = m) → Indep m vs → indepB vs = true
  | [], _, _ => rfl
  | v :: vs, hl, hI => by
    have hv := hl v (by simp)
    have hl' : ∀ x ∈ vs, x.length = m := fun x hx => hl x (by simp [hx])
    simp only [indepB, Bool.and_eq_true, Bool.not_eq_true']
    refine ⟨?_, indepB_complete vs hl' hI.tail⟩
    cases hs : inSpan vs v with
    | false => rfl
    | true =>
      obtain ⟨b, hb, e⟩ := (inSpan_iff hl' hv).1 hs
      exact absurd e (hI.head_not_span hv b hb)

end C01Star
end PauLie
