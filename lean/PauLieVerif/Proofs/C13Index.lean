/-
C13, list level: the index a string looks up (`get_index`, `get_diagonal_index`), the
recursive per-qubit Pauli transform `coefL` / `coefD`, and the theorem that the
iterative loops put `coefL P b` at position `get_index(P)`; the weight table.
-/
import PauLieVerif.Proofs.C13Loop
import PauLieVerif.Proofs.C04Lemmas

namespace PauLie
namespace Decomp

open C04 (cx cz)

/-! ### the index convention -/

/-- base-4 digit of a letter: `2·x + z` from `CODEC` (`I=00, Z=01, X=10, Y=11`) -/
def digit : Letter → ℕ
  | .I => 0 | .Z => 1 | .X => 2 | .Y => 3

/-- the base-4 number of a string, first letter most significant -/
def idx4 : List Letter → ℕ
  | [] => 0
  | l :: P => digit l * 4 ^ P.length + idx4 P

theorem digit_lt (l : Letter) : digit l < 4 := by cases l <;> simp [digit]

theorem idx4_lt : ∀ P : List Letter, idx4 P < 4 ^ P.length
  | [] => by simp [idx4]
  | l :: P => by
    have := idx4_lt P
    have := digit_lt l
    simp only [idx4, List.length_cons, pow_succ]
    nlinarith

theorem idx4_append_singleton (P : List Letter) (l : Letter) :
    idx4 (P ++ [l]) = 4 * idx4 P + digit l := by
  induction P with
  | nil => simp [idx4]
  | cons a P ih =>
    simp only [List.cons_append, idx4, ih, List.length_append, List.length_cons, List.length_nil,
      pow_succ]
    ring

theorem foldl_encode (P : List Letter) : ∀ acc : ℕ,
    (encode P).foldl (fun acc x => 2 * acc + (if x then 1 else 0)) acc
      = acc * 4 ^ P.length + idx4 P := by
  induction P with
  | nil => intro acc; simp [encode, idx4]
  | cons l P ih =>
    intro acc
    simp only [encode, List.foldl_cons, ih, idx4, List.length_cons, pow_succ]
    cases l <;> simp [Letter.code, digit] <;> ring

theorem bitsToNat_encode (P : List Letter) : PS.bitsToNat (encode P) = idx4 P := by
  simpa [PS.bitsToNat] using foldl_encode P 0

/-- **`get_index` of a string is its base-4 number** (`ba2int` of the interleaved bits). -/
theorem getIndex_ofLetters (P : List Letter) (hP : P ≠ []) :
    (PS.ofLetters P).getIndex = .ok (idx4 P) := by
  unfold PS.getIndex
  have : (PS.ofLetters P).bits = encode P := rfl
  rw [this, bitsToNat_encode]
  cases P with
  | nil => exact absurd rfl hP
  | cons l P => simp [encode]

/-- the base-2 number of a bit list, first bit most significant -/
def idx2 : List Bool → ℕ
  | [] => 0
  | a :: z => (if a then 1 else 0) * 2 ^ z.length + idx2 z

theorem idx2_lt : ∀ z : List Bool, idx2 z < 2 ^ z.length
  | [] => by simp [idx2]
  | a :: z => by
    have := idx2_lt z
    simp only [idx2, List.length_cons, pow_succ]
    cases a <;> simp <;> omega

theorem foldl_bits (z : List Bool) : ∀ acc : ℕ,
    z.foldl (fun acc x => 2 * acc + (if x then 1 else 0)) acc = acc * 2 ^ z.length + idx2 z := by
  induction z with
  | nil => intro acc; simp [idx2]
  | cons a z ih =>
    intro acc
    simp only [List.foldl_cons, ih, idx2, List.length_cons, pow_succ]
    ring

theorem bitsToNat_eq (z : List Bool) : PS.bitsToNat z = idx2 z := by
  simpa [PS.bitsToNat] using foldl_bits z 0

theorem idx2_eq_zero (z : List Bool) : idx2 z = 0 ↔ ∀ a ∈ z, a = false := by
  induction z with
  | nil => simp [idx2]
  | cons a z ih =>
    have : 0 < 2 ^ z.length := by positivity
    cases a <;> simp [idx2, ih]

/-- **`get_diagonal_index`**: the base-2 number of the z-parts if no letter has an
x-part (only `I`/`Z`), `-1` otherwise. -/
theorem getDiagonalIndex_ofLetters (P : List Letter) (hP : P ≠ []) :
    (PS.ofLetters P).getDiagonalIndex
      = .ok (if ∀ l ∈ P, cx l = false then (idx2 (P.map cz) : ℤ) else -1) := by
  unfold PS.getDiagonalIndex
  have he : (PS.ofLetters P).even = P.map cx := C04.evens_encode P
  have ho : (PS.ofLetters P).odd = P.map cz := C04.odds_encode P
  rw [he, ho, bitsToNat_eq, bitsToNat_eq]
  have hne : ¬ ((P.map cx).isEmpty = true ∨ (P.map cz).isEmpty = true) := by
    cases P with
    | nil => exact absurd rfl hP
    | cons l P => simp
  rw [if_neg hne]
  by_cases h : ∀ l ∈ P, cx l = false
  · have : idx2 (P.map cx) = 0 := (idx2_eq_zero _).mpr (by simpa using h)
    rw [if_pos h]; simp [this]
  · have : idx2 (P.map cx) ≠ 0 := fun e => h (by simpa using (idx2_eq_zero _).mp e)
    rw [if_neg h]; simp [this]

/-! ### the recursive per-qubit transform -/

/-- one qubit of the transform: the coefficient of letter `l` from the four blocks
`A₀₀, A₁₁, A₀₁, A₁₀` (as the butterfly computes it) -/
def comb : Letter → GR → GR → GR → GR → GR
  | .I, x, y, _, _ => GR.half (x + y)
  | .Z, x, y, _, _ => GR.half (x - y)
  | .X, _, _, z, w => GR.half (z + w)
  | .Y, _, _, z, w => GR.half (GR.mulI (z - w))

/-- **the recursive Pauli transform**: the coefficient of the string `P` in a
Pauli-ordered vector `b` of length `4^|P|`, one letter (= one qubit, = one block
level) at a time. -/
def coefL : List Letter → List GR → GR
  | [], b => b.headD GR.zero
  | l :: P, b =>
    let h := 4 ^ P.length
    comb l (coefL P (b.take h)) (coefL P ((b.drop h).take h))
      (coefL P ((b.drop (2 * h)).take h)) (coefL P (b.drop (3 * h)))

theorem coefL_blocks (l : Letter) (P : List Letter) (x y z w : List GR)
    (hx : x.length = 4 ^ P.length) (hy : y.length = 4 ^ P.length) (hz : z.length = 4 ^ P.length) :
    coefL (l :: P) (x ++ (y ++ (z ++ w)))
      = comb l (coefL P x) (coefL P y) (coefL P z) (coefL P w) := by
  have d1 : (x ++ (y ++ (z ++ w))).drop (4 ^ P.length) = y ++ (z ++ w) := List.drop_left' hx
  have d2 : (x ++ (y ++ (z ++ w))).drop (2 * 4 ^ P.length) = z ++ w := by
    have : 2 * 4 ^ P.length = 4 ^ P.length + 4 ^ P.length := by ring
    rw [this, ← List.drop_drop, d1, List.drop_left' hy]
  have d3 : (x ++ (y ++ (z ++ w))).drop (3 * 4 ^ P.length) = w := by
    have : 3 * 4 ^ P.length = 2 * 4 ^ P.length + 4 ^ P.length := by ring
    rw [this, ← List.drop_drop, d2, List.drop_left' hz]
  simp only [coefL, d1, d2, d3, List.take_left' hx, List.take_left' hy, List.take_left' hz]

theorem getElem?_zipWith_some {α β γ} (f : α → β → γ) (x : List α) (y : List β) (i : ℕ) (a : α) (b : β)
    (hx : x[i]? = some a) (hy : y[i]? = some b) : (List.zipWith f x y)[i]? = some (f a b) := by
  simp [List.getElem?_zipWith, hx, hy]

/-- access into four consecutive blocks of length `h` -/
theorem get4 {α} (h i : ℕ) (q0 q1 q2 q3 : List α) (h0 : q0.length = h) (h1 : q1.length = h)
    (h2 : q2.length = h) (hi : i < h) :
    (q0 ++ q1 ++ q2 ++ q3)[0 * h + i]? = q0[i]? ∧ (q0 ++ q1 ++ q2 ++ q3)[1 * h + i]? = q1[i]? ∧
    (q0 ++ q1 ++ q2 ++ q3)[2 * h + i]? = q2[i]? ∧ (q0 ++ q1 ++ q2 ++ q3)[3 * h + i]? = q3[i]? := by
  refine ⟨?_, ?_, ?_, ?_⟩
  · rw [List.getElem?_append_left (by simp; omega), List.getElem?_append_left (by simp; omega),
      List.getElem?_append_left (by omega)]
    simp
  · rw [List.getElem?_append_left (by simp; omega), List.getElem?_append_left (by simp; omega),
      List.getElem?_append_right (by omega)]
    congr 1; omega
  · rw [List.getElem?_append_left (by simp; omega), List.getElem?_append_right (by simp; omega)]
    congr 1; simp; omega
  · rw [List.getElem?_append_right (by simp; omega)]
    congr 1; simp; omega

/-- **Loop ↔ recursive transform.**  After the `n` passes of `matrix_decomposition`
on a vector of length `4^n`, the entry at the index of the string `P` is the
recursive transform `coefL P` of the input vector. -/
theorem passes4_coef : ∀ (P : List Letter) (b : List GR), b.length = 4 ^ P.length →
    (passes4 P.length b)[idx4 P]? = some (coefL P b) := by
  intro P
  induction P with
  | nil =>
    intro b hb
    match b, hb with
    | [a], _ => rfl
  | cons l P ih =>
    intro b hb
    obtain ⟨x, y, z, w, rfl, hx, hy, hz, hw⟩ :=
      split4 (4 ^ P.length) b (by rw [hb, List.length_cons, pow_succ]; ring)
    have l' (a : List GR) (ha : a.length = 4 ^ P.length) : (passes4 P.length a).length = 4 ^ P.length := by
      rw [passes4_length P.length 1 a (by simpa using ha), ha]
    rw [List.length_cons, passes4_succ_blocks _ x y z w hx hy hz hw,
      butterfly4_blocks _ _ _ _ _ (l' x hx) (l' y hy) (l' z hz) (l' w hw),
      coefL_blocks l P x y z w hx hy hz]
    have hi := idx4_lt P
    have lz {f g : GR → GR → GR} {a c : List GR} (ha : a.length = 4 ^ P.length) (hc : c.length = 4 ^ P.length) :
        (List.zipWith f (passes4 P.length a) (passes4 P.length c)).length = 4 ^ P.length := by
      simp [l' a ha, l' c hc]
    obtain ⟨g0, g1, g2, g3⟩ := get4 (4 ^ P.length) (idx4 P)
      (List.zipWith (fun a b => GR.half (a + b)) (passes4 P.length x) (passes4 P.length y))
      (List.zipWith (fun a b => GR.half (a - b)) (passes4 P.length x) (passes4 P.length y))
      (List.zipWith (fun a b => GR.half (a + b)) (passes4 P.length z) (passes4 P.length w))
      (List.zipWith (fun a b => GR.half (GR.mulI (a - b))) (passes4 P.length z) (passes4 P.length w))
      (by simp [l' x hx, l' y hy]) (by simp [l' x hx, l' y hy]) (by simp [l' z hz, l' w hw]) hi
    cases l
    · simp only [idx4, digit]; rw [g0]; exact getElem?_zipWith_some _ _ _ _ _ _ (ih x hx) (ih y hy)
    · simp only [idx4, digit]; rw [g2]; exact getElem?_zipWith_some _ _ _ _ _ _ (ih z hz) (ih w hw)
    · simp only [idx4, digit]; rw [g3]; exact getElem?_zipWith_some _ _ _ _ _ _ (ih z hz) (ih w hw)
    · simp only [idx4, digit]; rw [g1]; exact getElem?_zipWith_some _ _ _ _ _ _ (ih x hx) (ih y hy)

/-! ### the diagonal variant -/

def combD : Bool → GR → GR → GR
  | false, x, y => GR.half (x + y)
  | true, x, y => GR.half (x - y)

/-- recursive transform of a diagonal: coefficient of the `I/Z` string with z-parts `s` -/
def coefD : List Bool → List GR → GR
  | [], b => b.headD GR.zero
  | a :: s, b => combD a (coefD s (b.take (2 ^ s.length))) (coefD s (b.drop (2 ^ s.length)))

theorem coefD_blocks (a : Bool) (s : List Bool) (x y : List GR) (hx : x.length = 2 ^ s.length) :
    coefD (a :: s) (x ++ y) = combD a (coefD s x) (coefD s y) := by
  simp only [coefD, List.take_left' hx, List.drop_left' hx]

theorem passes2_coef : ∀ (s : List Bool) (b : List GR), b.length = 2 ^ s.length →
    (passes2 s.length b)[idx2 s]? = some (coefD s b) := by
  intro s
  induction s with
  | nil =>
    intro b hb
    match b, hb with
    | [a], _ => rfl
  | cons a s ih =>
    intro b hb
    obtain ⟨x, y, rfl, hx, hy⟩ :=
      split2 (2 ^ s.length) b (by rw [hb, List.length_cons, pow_succ]; ring)
    have l' (c : List GR) (hc : c.length = 2 ^ s.length) : (passes2 s.length c).length = 2 ^ s.length := by
      rw [passes2_length s.length 1 c (by simpa using hc), hc]
    rw [List.length_cons, passes2_succ_blocks _ x y hx hy,
      butterfly2_blocks _ _ _ (l' x hx) (l' y hy), coefD_blocks a s x y hx]
    have hi := idx2_lt s
    cases a
    · simp only [idx2, Bool.false_eq_true, if_false, zero_mul, zero_add]
      rw [List.getElem?_append_left (by simp [l' x hx, l' y hy]; omega)]
      exact getElem?_zipWith_some _ _ _ _ _ _ (ih x hx) (ih y hy)
    · simp only [idx2, if_true, one_mul]
      rw [List.getElem?_append_right (by simp [l' x hx, l' y hy])]
      simp only [List.length_zipWith, l' x hx, l' y hy, min_self, Nat.add_sub_cancel_left]
      exact getElem?_zipWith_some _ _ _ _ _ _ (ih x hx) (ih y hy)

/-! ### the weight table -/

/-- number of non-identity letters -/
def letterCount (P : List Letter) : ℕ := (P.filter (· ≠ Letter.I)).length

theorem digitWeight_idx4 (P : List Letter) :
    digitWeight 0 P.length (idx4 P) = letterCount P := by
  induction P using List.reverseRecOn with
  | nil => rfl
  | append_singleton P l ih =>
    rw [idx4_append_singleton, List.length_append, List.length_singleton, digitWeight]
    have hd := digit_lt l
    have h1 : (4 * idx4 P + digit l) % 4 = digit l := by omega
    have h2 : (4 * idx4 P + digit l) / 4 = idx4 P := by omega
    rw [h1, h2, ih]
    simp only [letterCount, List.filter_append, List.length_append]
    cases l <;> simp [digit] <;> omega

/-- **the weight table and `get_index` use the same index**: entry `get_index(P)` of
`get_pauli_weights(n)` is the number of non-identity letters of `P`. -/
theorem getPauliWeights_idx4 (P : List Letter) :
    ∃ w, getPauliWeights (P.length : ℤ) 0 = .ok w ∧ w.length = 4 ^ P.length ∧
      w[idx4 P]? = some (letterCount P) := by
  refine ⟨(List.range (4 ^ P.length)).map (digitWeight 0 P.length), ?_, ?_, ?_⟩
  · unfold getPauliWeights
    rw [if_neg (by omega)]
    simp
  · simp
  · simp only [List.getElem?_map, List.getElem?_range (idx4_lt P),
      Option.map_some, digitWeight_idx4]

end Decomp
end PauLie
