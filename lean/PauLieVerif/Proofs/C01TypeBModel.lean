/-
C01, connection of the B-type canonical stars to the model of the classifier: the census of a star with
`k ≥ 1` single legs, `t` legs of length two and an optional long leg of length `r`, and the name the
table gives it:

    r = 0, t ≥ 2   (type B1)   2^(k-1) * sp(2^t)
    r = 3, t ≥ 1   (type B3)   2^(k-1) * su(2^(t+2))
    r = 4, t ≥ 1   (type B2)   2^(k-1) * so(2^(t+3))

Core Lean only; the loop of `Morph.counts` as a fold is taken from `Proofs/C01StarModel.lean`.
-/
import PauLieVerif.Proofs.C01StarModel

namespace PauLie
namespace C01TypeB
open Classify C01Star

theorem rawFold_twos : ∀ (L rest : List (List PS)) (s : Nat × Nat × Nat), (∀ leg ∈ L, leg.length = 2) →
    (L ++ rest).foldlM rawStep s = rest.foldlM rawStep (s.1, s.2.1 + L.length, s.2.2)
  | [], rest, s, _ => by simp
  | leg :: L, rest, s, h => by
    have h1 : leg.length = 2 := h leg (by simp)
    rw [List.cons_append, List.foldlM_cons]
    have : rawStep s leg = .ok (s.1, s.2.1 + 1, s.2.2) := by simp [rawStep, h1]
    rw [this]
    simp only [bind, Except.bind]
    rw [rawFold_twos L rest _ (fun l hl => h l (by simp [hl]))]
    simp only [List.length_cons]
    have e : s.2.1 + 1 + L.length = s.2.1 + (L.length + 1) := by omega
    rw [e]

/-- the optional long leg of a B-type star: nothing (`r = 0`) or one leg of length `r ≥ 3` -/
def IsTailB (r : Nat) (tail : List (List PS)) : Prop :=
  (r = 0 ∧ tail = []) ∨ (r ≥ 3 ∧ ∃ leg, tail = [leg] ∧ leg.length = r)

/-- the raw census of a star: `k` single legs, `t` legs of length two, long leg `r` -/
theorem rawCounts_star {legs singles twos tail : List (List PS)} {cleg : List PS} {k t r : Nat}
    (hlegs : legs = cleg :: (singles ++ (twos ++ tail))) (hs : ∀ leg ∈ singles, leg.length = 1)
    (ht : ∀ leg ∈ twos, leg.length = 2) (hk : singles.length = k) (htl : twos.length = t) (hr : IsTailB r tail) :
    rawCounts legs = .ok (k, t, r) := by
  rw [rawCounts_eq, hlegs, List.drop_one, List.tail_cons, rawFold_singles singles _ _ hs,
    rawFold_twos twos _ _ ht, hk, htl]
  rcases hr with ⟨rfl, rfl⟩ | ⟨hr, leg, rfl, hl⟩
  · simp [pure, Except.pure]
  · have h1 : ¬ r = 1 := by omega
    have h2 : ¬ r = 2 := by omega
    have h3 : 2 < r := by omega
    simp [rawStep, h3, h1, h2, hl, pure, Except.pure, bind, Except.bind]

/-- with at least two legs of length two, or one and a long leg of length ≥ 3, `Morph.counts` changes
nothing -/
theorem adjustCounts_B {k t r : Nat} (h : (r = 0 ∧ t ≥ 2) ∨ (r ≥ 3 ∧ t ≥ 1)) :
    adjustCounts (k, t, r) = (k, t, r) := by
  rcases h with ⟨rfl, ht⟩ | ⟨hr, ht⟩
  · have e1 : (t == 1) = false := by simp; omega
    have e0 : (t == 0) = false := by simp; omega
    simp [adjustCounts, Id.run, e1, e0]; rfl
  · have e0 : (r == 0) = false := by simp; omega
    have e1 : (t == 0) = false := by simp; omega
    simp [adjustCounts, Id.run, e0, e1]; rfl

theorem multiplicity_pos {k : Nat} (hk1 : k ≥ 1) : multiplicity k = .ok (2 ^ (k - 1)) := by
  unfold multiplicity
  by_cases h1 : k = 1
  · subst h1; rfl
  · have e0 : (k == 0) = false := by simp; omega
    have e1 : (k == 1) = false := by simpa using h1
    simp [e0, e1]

/-- the name of a B-type census -/
def nameB (t r : Nat) : TypeAlgebra × Nat :=
  if r = 0 then (.SP, 2 ^ t) else if r = 3 then (.SU, 2 ^ (t + 2)) else (.SO, 2 ^ (t + 3))

/-- **the table entry of a B-type star** -/
theorem summand_typeB {legs singles twos tail : List (List PS)} {cleg : List PS} {k t r : Nat}
    (hlegs : legs = cleg :: (singles ++ (twos ++ tail))) (hs : ∀ leg ∈ singles, leg.length = 1)
    (ht : ∀ leg ∈ twos, leg.length = 2) (hk : singles.length = k) (htl : twos.length = t) (hr : IsTailB r tail)
    (hk1 : k ≥ 1) (hB : (r = 0 ∧ t ≥ 2) ∨ ((r = 3 ∨ r = 4) ∧ t ≥ 1))
    (deps unapp : List PS) (tags : List String) (complete : Bool) :
    summandOfMorph ⟨legs, deps, unapp, tags, complete⟩ = .ok ⟨(nameB t r).1, (nameB t r).2, 2 ^ (k - 1)⟩ := by
  have hraw := rawCounts_star hlegs hs ht hk htl hr
  have hadj : adjustCounts (k, t, r) = (k, t, r) := by
    apply adjustCounts_B
    rcases hB with h | ⟨h, h'⟩
    · exact Or.inl h
    · exact Or.inr ⟨by omega, h'⟩
  have hc : counts legs = .ok (k, t, r) := by
    unfold counts
    rw [hraw]
    simp only [bind, Except.bind, pure, Except.pure, hadj]
  have hne : legs.isEmpty = false := by rw [hlegs]; rfl
  have hl1 : (legs.length == 1) = false := by
    rw [hlegs]; simp only [List.length_cons, List.length_append, hk]
    simp; omega
  have hm := multiplicity_pos hk1
  have t0 : (t == 0) = false := by
    simp; rcases hB with h | h <;> omega
  unfold summandOfMorph getAlgebraProperties getProperties
  simp only [hne, hl1, hc, bind, Except.bind, pure, Except.pure, propertiesOfCounts, t0]
  rcases hB with ⟨rfl, _⟩ | ⟨rfl | rfl, _⟩
  · simp [algebraOfProperties, nameB, hm]
  · simp [algebraOfProperties, nameB, hm]
  · simp [algebraOfProperties, nameB, hm]

theorem summandsOf_typeB {legs singles twos tail : List (List PS)} {cleg : List PS} {k t r : Nat}
    (hlegs : legs = cleg :: (singles ++ (twos ++ tail))) (hs : ∀ leg ∈ singles, leg.length = 1)
    (ht : ∀ leg ∈ twos, leg.length = 2) (hk : singles.length = k) (htl : twos.length = t) (hr : IsTailB r tail)
    (hk1 : k ≥ 1) (hB : (r = 0 ∧ t ≥ 2) ∨ ((r = 3 ∨ r = 4) ∧ t ≥ 1))
    (deps unapp : List PS) (tags : List String) (complete : Bool) :
    summandsOf [⟨legs, deps, unapp, tags, complete⟩] = .ok [⟨(nameB t r).1, (nameB t r).2, 2 ^ (k - 1)⟩] := by
  unfold summandsOf
  rw [List.mapM_cons, summand_typeB hlegs hs ht hk htl hr hk1 hB]
  rfl

theorem dlaDim_typeB {legs singles twos tail : List (List PS)} {cleg : List PS} {k t r : Nat}
    (hlegs : legs = cleg :: (singles ++ (twos ++ tail))) (hs : ∀ leg ∈ singles, leg.length = 1)
    (ht : ∀ leg ∈ twos, leg.length = 2) (hk : singles.length = k) (htl : twos.length = t) (hr : IsTailB r tail)
    (hk1 : k ≥ 1) (hB : (r = 0 ∧ t ≥ 2) ∨ ((r = 3 ∨ r = 4) ∧ t ≥ 1))
    (deps unapp : List PS) (tags : List String) (complete : Bool) :
    dlaDimOfMorphs [⟨legs, deps, unapp, tags, complete⟩] =
      .ok (Summand.dim ⟨(nameB t r).1, (nameB t r).2, 2 ^ (k - 1)⟩) := by
  unfold dlaDimOfMorphs
  rw [summandsOf_typeB hlegs hs ht hk htl hr hk1 hB]
  simp [bind, Except.bind, pure, Except.pure]

/-- a long leg of length ≥ 5 besides a leg of length two is outside the table: the model (like the code)
raises -/
theorem summand_outside {legs singles twos tail : List (List PS)} {cleg : List PS} {k t r : Nat}
    (hlegs : legs = cleg :: (singles ++ (twos ++ tail))) (hs : ∀ leg ∈ singles, leg.length = 1)
    (ht : ∀ leg ∈ twos, leg.length = 2) (hk : singles.length = k) (htl : twos.length = t) (hr : IsTailB r tail)
    (h5 : r ≥ 5) (ht1 : t ≥ 1) (deps unapp : List PS) (tags : List String) (complete : Bool) :
    summandOfMorph ⟨legs, deps, unapp, tags, complete⟩ = .error .classificationError := by
  have hraw := rawCounts_star hlegs hs ht hk htl hr
  have hadj : adjustCounts (k, t, r) = (k, t, r) := adjustCounts_B (Or.inr ⟨by omega, ht1⟩)
  have hc : counts legs = .ok (k, t, r) := by
    unfold counts
    rw [hraw]
    simp only [bind, Except.bind, pure, Except.pure, hadj]
  have hne : legs.isEmpty = false := by rw [hlegs]; rfl
  have hl1 : (legs.length == 1) = false := by
    rw [hlegs]; simp only [List.length_cons, List.length_append, htl]
    simp; omega
  have t0 : (t == 0) = false := by simp; omega
  have r0 : (r == 0) = false := by simp; omega
  have r3 : (r == 3) = false := by simp; omega
  have r4 : (r == 4) = false := by simp; omega
  unfold summandOfMorph getAlgebraProperties getProperties
  simp [hne, hl1, hc, bind, Except.bind, propertiesOfCounts, t0, r0, r3, r4]

end C01TypeB
end PauLie
