/-
C01, canonical graphs of type B1 (centre, one single leg, `t` legs of length two) - the canonical
realisation on `t + 1` qubits and its closure, for ALL `t` (core Lean only).

Layout of a string: the newest qubit first, the qubit of the centre last.

    centre  c = I…I Z          single leg  a = I…I X
    leg s (s = 1 … t):   b_s = I…I Z_s I…I X   (Z on qubit s, X on the last qubit),   d_s = I…I X_s I…I

`c` anticommutes with `a` and with every `b_s`; `b_s` anticommutes with `d_s`; nothing else: the star with
legs `[a]`, `[b_s, d_s]`.  The `2t + 2` strings are a basis of all strings on `t + 1` qubits.

Quadratic form `QBn t`: the last letter counts iff it is not `I`, every other letter counts iff it is `X`.
**`canon1_full`: the closure is exactly `{QBn t = 1}`**, a set of `2^(2t+1) + 2^t = dim sp(2^t)` strings
(`length_LQ_true`).
-/
import PauLieVerif.Proofs.C01TypeBOrbit

namespace PauLie
namespace C01TypeB
open Closure C01Star

/-- the quadratic form of the canonical realisation on `t + 1` qubits -/
def QBn : Nat → V → Bool
  | 0 => fun v => match v with
    | [x, z] => x || z
    | _ => false
  | t + 1 => extQ (QBn t)

theorem QBn_quad : ∀ t, Quad (2 * (t + 1)) (QBn t)
  | 0 => by
    intro u v hu hv
    match u, v, hu, hv with
    | [x, z], [x', z'], _, _ =>
      cases x <;> cases z <;> cases x' <;> cases z' <;> rfl
  | t + 1 => by
    have := extQ_quad (QBn_quad t)
    simpa [QBn, Nat.mul_add] using this

/-- the single leg `a = I…I X` and the centre `c = I…I Z` -/
def aT : Nat → V
  | 0 => [true, false]
  | t + 1 => pad (aT t)

def cT : Nat → V
  | 0 => [false, true]
  | t + 1 => pad (cT t)

/-- the legs of length two, the newest first: `b_t, d_t, …, b_1, d_1` -/
def pairsB : Nat → List V
  | 0 => []
  | t + 1 => (false :: true :: aT t) :: (true :: false :: zeroV (2 * (t + 1))) :: (pairsB t).map pad

/-- the canonical realisation of the star with one single leg and `t` legs of length two -/
def GB1 (t : Nat) : List V := cT t :: aT t :: pairsB t

theorem length_aT : ∀ t, (aT t).length = 2 * (t + 1)
  | 0 => rfl
  | t + 1 => by simp [aT, pad, length_aT t]; omega

theorem length_cT : ∀ t, (cT t).length = 2 * (t + 1)
  | 0 => rfl
  | t + 1 => by simp [cT, pad, length_cT t]; omega

theorem length_pairsB : ∀ t, ∀ g ∈ pairsB t, g.length = 2 * (t + 1)
  | 0 => by simp [pairsB]
  | t + 1 => by
    intro g hg
    simp only [pairsB, List.mem_cons, List.mem_map] at hg
    rcases hg with rfl | rfl | ⟨h, hh, rfl⟩
    · simp [length_aT t]; omega
    · simp; omega
    · simp [pad, length_pairsB t h hh]; omega

theorem uniform_GB1 (t : Nat) : Uniform (t + 1) (GB1 t) := by
  intro g hg
  simp only [GB1, List.mem_cons] at hg
  rcases hg with rfl | rfl | hg
  · exact length_cT t
  · exact length_aT t
  · exact length_pairsB t g hg

theorem GB1_pad (t : Nat) : ∀ g ∈ GB1 t, pad g ∈ GB1 (t + 1) := by
  intro g hg
  simp only [GB1, List.mem_cons] at hg
  simp only [GB1, List.mem_cons, pairsB, List.mem_map]
  rcases hg with rfl | rfl | hg
  · exact Or.inl rfl
  · exact Or.inr (Or.inl rfl)
  · exact Or.inr (Or.inr (Or.inr (Or.inr ⟨g, hg, rfl⟩)))

theorem GB1_b (t : Nat) : (false :: true :: aT t) ∈ GB1 (t + 1) := by simp [GB1, pairsB]
theorem GB1_d (t : Nat) : (true :: false :: zeroV (2 * (t + 1))) ∈ GB1 (t + 1) := by simp [GB1, pairsB]

theorem GB1_cases (t : Nat) {g : V} (hg : g ∈ GB1 (t + 1)) :
    (∃ h ∈ GB1 t, g = pad h) ∨ g = false :: true :: aT t ∨ g = true :: false :: zeroV (2 * (t + 1)) := by
  simp only [GB1, List.mem_cons, pairsB, List.mem_map] at hg
  rcases hg with rfl | rfl | rfl | rfl | ⟨h, hh, rfl⟩
  · exact Or.inl ⟨cT t, by simp [GB1], rfl⟩
  · exact Or.inl ⟨aT t, by simp [GB1], rfl⟩
  · exact Or.inr (Or.inl rfl)
  · exact Or.inr (Or.inr rfl)
  · exact Or.inl ⟨h, by simp [GB1, hh], rfl⟩

theorem QBn_pad (t : Nat) (y : V) : QBn (t + 1) (pad y) = QBn t y := by simp [QBn, pad, extQ]

theorem QBn_zero (t : Nat) : QBn t (zeroV (2 * (t + 1))) = false := (QBn_quad t).zero

/-- every generator has `Q = 1` -/
theorem QBn_gens : ∀ t, ∀ g ∈ GB1 t, QBn t g = true
  | 0 => by
    intro g hg
    simp only [GB1, pairsB, List.mem_cons, List.not_mem_nil, or_false] at hg
    rcases hg with rfl | rfl <;> rfl
  | t + 1 => by
    intro g hg
    rcases GB1_cases t hg with ⟨h, hh, rfl⟩ | rfl | rfl
    · rw [QBn_pad]; exact QBn_gens t h hh
    · have := QBn_gens t (aT t) (by simp [GB1])
      simp [QBn, extQ] at this ⊢
      exact this
    · have := QBn_zero t
      simp [QBn, extQ] at this ⊢
      exact this

theorem omega_aT_cT : ∀ t, omega (aT t) (cT t) = true
  | 0 => rfl
  | t + 1 => by simpa [aT, cT, pad, omega_cons2] using omega_aT_cT t

/-- every generator is connected to the centre -/
theorem conn_GB1 : ∀ t, ∀ g ∈ GB1 t, Conn (GB1 t) (cT t) g ∧ Conn (GB1 t) g (cT t)
  | 0 => by
    intro g hg
    simp only [GB1, pairsB, List.mem_cons, List.not_mem_nil, or_false] at hg
    have hU := uniform_GB1 0
    have hc : Clo (GB1 0) (cT 0) := Clo.base (by simp [GB1])
    have ha : Clo (GB1 0) (aT 0) := Clo.base (by simp [GB1])
    rcases hg with rfl | rfl
    · exact ⟨Conn.refl _, Conn.refl _⟩
    · exact ⟨conn_adj hU hc ha (by rw [omega_comm]; exact omega_aT_cT 0), conn_adj hU ha hc (omega_aT_cT 0)⟩
  | t + 1 => by
    intro g hg
    have hU := uniform_GB1 (t + 1)
    have hc : Clo (GB1 (t + 1)) (cT (t + 1)) := Clo.base (by simp [GB1])
    have hb : Clo (GB1 (t + 1)) (false :: true :: aT t) := Clo.base (GB1_b t)
    have hd : Clo (GB1 (t + 1)) (true :: false :: zeroV (2 * (t + 1))) := Clo.base (GB1_d t)
    have ocb : omega (cT (t + 1)) (false :: true :: aT t) = true := by
      simp only [cT, pad, omega_cons2]
      rw [omega_comm, omega_aT_cT t]; rfl
    have obd : omega (false :: true :: aT t) (true :: false :: zeroV (2 * (t + 1))) = true := by
      simp [omega_cons2, omega_zero_right]
    have h1 : Conn (GB1 (t + 1)) (cT (t + 1)) (false :: true :: aT t) := conn_adj hU hc hb ocb
    have h1' : Conn (GB1 (t + 1)) (false :: true :: aT t) (cT (t + 1)) :=
      conn_adj hU hb hc (by rw [omega_comm]; exact ocb)
    rcases GB1_cases t hg with ⟨h, hh, rfl⟩ | rfl | rfl
    · obtain ⟨i1, i2⟩ := conn_GB1 t h hh
      exact ⟨conn_pad (GB1_pad t) i1, conn_pad (GB1_pad t) i2⟩
    · exact ⟨h1, h1'⟩
    · exact ⟨h1.trans (conn_adj hU hb hd obd),
        (conn_adj hU hd hb (by rw [omega_comm]; exact obd)).trans h1'⟩

/-- a string with `Q = 1` supported on the last qubit that commutes with `y`: the last letter of `y`, or
`X` if that is `I` -/
def wit : V → V
  | [x, z] => if x || z then [x, z] else [true, false]
  | _ :: _ :: y => false :: false :: wit y
  | _ => []

theorem wit_spec : ∀ t (y : V), y.length = 2 * (t + 1) →
    (wit y).length = 2 * (t + 1) ∧ QBn t (wit y) = true ∧ omega (wit y) y = false
  | 0, y, h => by
    match y, h with
    | [x, z], _ => cases x <;> cases z <;> decide
  | t + 1, y, h => by
    match y, h with
    | _ :: _ :: u :: v :: y', h =>
      have ly : (u :: v :: y').length = 2 * (t + 1) := by simp at h ⊢; omega
      obtain ⟨i1, i2, i3⟩ := wit_spec t (u :: v :: y') ly
      show (false :: false :: wit (u :: v :: y')).length = _ ∧ QBn (t + 1) (false :: false :: wit (u :: v :: y')) = true ∧
        omega (false :: false :: wit (u :: v :: y')) (_ :: _ :: u :: v :: y') = false
      refine ⟨by simp [i1]; omega, ?_, ?_⟩
      · simpa [QBn, extQ] using i2
      · rw [omega_cons2, i3]; simp

/-- **the closure of the canonical B1 star is `{Q = 1}`** (all `t`) -/
theorem canon1_full : ∀ t (y : V), y.length = 2 * (t + 1) → (Clo (GB1 t) y ↔ QBn t y = true)
  | 0, y, h => by
    constructor
    · exact clo_quad (uniform_GB1 0) (QBn_quad 0) (QBn_gens 0)
    · intro hq
      match y, h with
      | [x, z], _ =>
        have hc : Clo (GB1 0) [false, true] := Clo.base (by simp [GB1, cT])
        have ha : Clo (GB1 0) [true, false] := Clo.base (by simp [GB1, aT])
        cases x <;> cases z
        · simp [QBn] at hq
        · exact hc
        · exact ha
        · exact Clo.step ha hc (by rfl)
  | t + 1, y, h => by
    constructor
    · exact clo_quad (uniform_GB1 (t + 1)) (QBn_quad (t + 1)) (QBn_gens (t + 1))
    · intro hq
      match y, h with
      | x :: z :: y', h =>
        have ly : y'.length = 2 * (t + 1) := by simp at h; omega
        exact pairExt_lower (uniform_GB1 t) (QBn_quad t) (fun w lw qw => (canon1_full t w lw).2 qw)
          (a := aT t) (r := cT t) (by simp [GB1]) (conn_GB1 t)
          (fun w lw _ => ⟨wit w, wit_spec t w lw⟩) (GB1_pad t) (GB1_d t) (GB1_b t) x z y' ly hq

/-! ### counting `{Q = q}` -/

/-- all strings on `t + 1` qubits with `QBn t = q` -/
def LQ : Nat → Bool → List V
  | 0, true => [[true, false], [false, true], [true, true]]
  | 0, false => [[false, false]]
  | t + 1, q => (LQ t q).map (fun y => false :: false :: y) ++ ((LQ t q).map (fun y => false :: true :: y) ++
      ((LQ t q).map (fun y => true :: true :: y) ++ (LQ t (!q)).map (fun y => true :: false :: y)))

theorem mem_LQ : ∀ t q (y : V), y ∈ LQ t q ↔ y.length = 2 * (t + 1) ∧ QBn t y = q
  | 0, q, y => by
    constructor
    · intro h
      cases q <;> simp only [LQ, List.mem_cons, List.not_mem_nil, or_false] at h
      · subst h; exact ⟨rfl, rfl⟩
      · rcases h with rfl | rfl | rfl <;> exact ⟨rfl, rfl⟩
    · rintro ⟨hl, hq⟩
      match y, hl with
      | [x, z], _ =>
        subst hq
        cases x <;> cases z <;> simp [LQ, QBn]
  | t + 1, q, y => by
    simp only [LQ, List.mem_append, List.mem_map]
    constructor
    · rintro (⟨w, hw, rfl⟩ | ⟨w, hw, rfl⟩ | ⟨w, hw, rfl⟩ | ⟨w, hw, rfl⟩) <;>
        obtain ⟨l, e⟩ := (mem_LQ t _ w).1 hw <;>
        refine ⟨by simp [l]; omega, ?_⟩ <;> simp [QBn, extQ, e]
    · rintro ⟨hl, hq⟩
      match y, hl with
      | x :: z :: w, hl =>
        have lw : w.length = 2 * (t + 1) := by simp at hl; omega
        simp only [QBn, extQ] at hq
        cases x <;> cases z
        · exact Or.inl ⟨w, (mem_LQ t q w).2 ⟨lw, by simpa using hq⟩, rfl⟩
        · exact Or.inr (Or.inl ⟨w, (mem_LQ t q w).2 ⟨lw, by simpa using hq⟩, rfl⟩)
        · refine Or.inr (Or.inr (Or.inr ⟨w, (mem_LQ t (!q) w).2 ⟨lw, ?_⟩, rfl⟩))
          revert hq
          show ((true && !false) != QBn t w) = q → QBn t w = !q
          cases QBn t w <;> cases q <;> simp
        · exact Or.inr (Or.inr (Or.inl ⟨w, (mem_LQ t q w).2 ⟨lw, by simpa using hq⟩, rfl⟩))

theorem nodup_map_cons2 (x z : Bool) {l : List V} (h : l.Nodup) : (l.map (fun y => x :: z :: y)).Nodup := by
  rw [List.Nodup, List.pairwise_map]
  exact h.imp (fun hne heq => hne (by simpa using heq))

theorem nodup_LQ : ∀ t q, (LQ t q).Nodup
  | 0, true => by decide
  | 0, false => by decide
  | t + 1, q => by
    simp only [LQ]
    have h1 := nodup_LQ t q
    have h2 := nodup_LQ t (!q)
    rw [List.nodup_append]
    refine ⟨nodup_map_cons2 _ _ h1, ?_, ?_⟩
    · rw [List.nodup_append]
      refine ⟨nodup_map_cons2 _ _ h1, ?_, ?_⟩
      · rw [List.nodup_append]
        refine ⟨nodup_map_cons2 _ _ h1, nodup_map_cons2 _ _ h2, ?_⟩
        intro a ha b hb hab
        obtain ⟨w, _, rfl⟩ := List.mem_map.1 ha
        obtain ⟨w', _, rfl⟩ := List.mem_map.1 hb
        simp at hab
      · intro a ha b hb hab
        obtain ⟨w, _, rfl⟩ := List.mem_map.1 ha
        simp only [List.mem_append, List.mem_map] at hb
        rcases hb with ⟨w', _, rfl⟩ | ⟨w', _, rfl⟩ <;> simp at hab
    · intro a ha b hb hab
      obtain ⟨w, _, rfl⟩ := List.mem_map.1 ha
      simp only [List.mem_append, List.mem_map] at hb
      rcases hb with ⟨w', _, rfl⟩ | ⟨w', _, rfl⟩ | ⟨w', _, rfl⟩ <;> simp at hab

/-- `|{Q = 1}| = 2^(2t+1) + 2^t`, `|{Q = 0}| + 2^t = 2^(2t+1)` -/
theorem length_LQ : ∀ t, (LQ t true).length = 2 ^ (2 * t + 1) + 2 ^ t ∧ (LQ t false).length + 2 ^ t = 2 ^ (2 * t + 1)
  | 0 => by decide
  | t + 1 => by
    obtain ⟨h1, h0⟩ := length_LQ t
    simp only [LQ, List.length_append, List.length_map, Bool.not_true, Bool.not_false]
    have e1 : 2 ^ (2 * (t + 1) + 1) = 4 * 2 ^ (2 * t + 1) := by
      rw [show 2 * (t + 1) + 1 = (2 * t + 1) + 2 by omega, Nat.pow_add]; omega
    have e2 : 2 ^ (t + 1) = 2 * 2 ^ t := by rw [Nat.pow_succ]; omega
    rw [e1, e2]
    omega

end C01TypeB
end PauLie
