/-
Helpers for property C19, part 29: family a9 (`XY`,`XZ`), table row `sp(2^(n-2))`, and b2 (`XY`,`XI`,`IX`), row
`sp(2^(n-2)) + u(1)`.

a9.  Closed form `T9`: the strings commuting with `X_0` and `Z_0 X_1` with an odd number of `X`.  Upper bound: two
linear constraints and the quadratic form `qX` (`qX_add`).  Lower bound: peeling of the last three sites with windows
taken from the chain on FIVE sites (on the last three sites of a window of five the two constraints are void, so the
window supplies every string with an odd number of `X`); the tail has at least three sites, so the constraints
concern the tail only and its state is the single bit `qX r`.  n = 3, 4 by kernel evaluation.
Count: `2·4^(n−2) + 2^(n−2) = 2^(n−2) (2^(n−1) + 1) = dim sp(2^(n−2))`.

b2.  `X_{k+1}` and `X_k Y_{k+1}` give `X_k Z_{k+1}`, so the closure contains the closure of a9; `X_k` (k ≥ 1) is in
`T9`; `X_0` commutes with everything: closure = `T9 ∪ {X_0}` (`TB2`).
-/
import PauLieVerif.Proofs.C19LastA9b

namespace PauLie
namespace C19
open Closure Graph C01Star C03

theorem qX_append : ∀ (x y : V), x.length % 2 = 0 → qX (x ++ y) = (qX x != qX y)
  | [], y, _ => by simp [qX]
  | [_], _, h => by simp at h
  | a :: b :: r, y, h => by
    simp only [List.cons_append, qX, qX_append r y (by simp at h; omega)]
    cases (a && !b) <;> cases qX r <;> cases qX y <;> rfl

theorem qX_replicate : ∀ (m : Nat), qX (List.replicate m false) = false
  | 0 => rfl
  | 1 => rfl
  | m + 2 => by simp [List.replicate_succ, qX, qX_replicate m]

theorem qX_zeroV (m : Nat) : qX (zeroV m) = false := qX_replicate m

/-- `qX` is a quadratic form whose polarisation is the symplectic form -/
theorem qX_add : ∀ (x y : V), x.length = y.length → qX (add x y) = ((qX x != qX y) != omega x y)
  | [], [], _ => rfl
  | [], _ :: _, h => by simp at h
  | _ :: _, [], h => by simp at h
  | [a], [b], _ => by simp [add, qX, omega]
  | [_], _ :: _ :: _, h => by simp at h
  | _ :: _ :: _, [_], h => by simp at h
  | a :: b :: s, c :: d :: t, h => by
    simp only [add, qX, omega, qX_add s t (by simpa using h)]
    cases a <;> cases b <;> cases c <;> cases d <;> cases qX s <;> cases qX t <;> cases omega s t <;> rfl

theorem qX_shiftV {n k : Nat} {g : V} (hg : g.length = 4) : qX (shiftV n k g) = qX g := by
  rw [shiftV, qX_append _ _ (by simp), qX_append _ _ (by simp [hg]), qX_replicate, qX_replicate]
  cases qX g <;> rfl

theorem T9_shape {x : V} (h : T9 x = true) : ∃ a0 a1 r, x = a0 :: false :: a1 :: a0 :: r ∧ qX x = true := by
  match x, h with
  | a0 :: b0 :: a1 :: b1 :: r, h =>
    simp only [T9, Bool.and_eq_true, Bool.not_eq_true', beq_iff_eq] at h
    obtain ⟨⟨rfl, rfl⟩, hq⟩ := h
    exact ⟨a0, a1, r, rfl, hq⟩

theorem T9_of_shape (a0 a1 : Bool) (r : V) (h : qX (a0 :: false :: a1 :: a0 :: r) = true) :
    T9 (a0 :: false :: a1 :: a0 :: r) = true := by
  simp [T9, h]

theorem T9_closed (n : Nat) (x y : V) (hx : x.length = 2 * n) (hy : y.length = 2 * n) (h1 : T9 x = true)
    (h2 : T9 y = true) (ho : omega x y = true) : T9 (add x y) = true := by
  obtain ⟨a0, a1, r, rfl, hq1⟩ := T9_shape h1
  obtain ⟨c0, c1, s, rfl, hq2⟩ := T9_shape h2
  have hq := qX_add _ _ (hx.trans hy.symm)
  rw [hq1, hq2, ho] at hq
  simp only [add] at hq ⊢
  simpa using T9_of_shape (a0 != c0) (a1 != c1) (add r s) (by simpa using hq)

/-- `T9 (r ++ b)` when the tail `r` has at least two sites -/
theorem T9_append (a0 b0 a1 b1 : Bool) (r b : V) (hr : r.length % 2 = 0) :
    T9 ((a0 :: b0 :: a1 :: b1 :: r) ++ b) = (!b0 && (a0 == b1) && (qX (a0 :: b0 :: a1 :: b1 :: r) != qX b)) := by
  have := qX_append (a0 :: b0 :: a1 :: b1 :: r) b (by simp; omega)
  simp only [List.cons_append] at this ⊢
  simp only [T9, this]

theorem length_wendQX : ∀ g ∈ wendQX, g.length = 2 * 3 := fun _ hg => mem_allV.1 (List.mem_filter.1 hg).1

theorem step_a9 (N : Nat) (x : V) (hN : 6 ≤ N) (hx : x.length = 2 * N) (hT : T9 x = true) :
    Gen (Good 3 5 T9 wendQX N) x := by
  obtain ⟨a0, b0, a1, b1, r', hr⟩ : ∃ a0 b0 a1 b1 r', x.take (2 * (N - 3)) = a0 :: b0 :: a1 :: b1 :: r' := by
    have hl : (x.take (2 * (N - 3))).length = 2 * (N - 3) := by simp [hx]
    match h : x.take (2 * (N - 3)), hl with
    | [], hl => simp at hl; omega
    | [_], hl => simp at hl; omega
    | [_, _], hl => simp at hl; omega
    | [_, _, _], hl => simp at hl; omega
    | a :: b :: c :: d :: r, _ => exact ⟨a, b, c, d, r, rfl⟩
  have hl : r'.length % 2 = 0 := by
    have := congrArg List.length hr
    simp [hx] at this; omega
  have hc : (!b0 && (a0 == b1)) = true := by
    have := hT
    rw [← List.take_append_drop (2 * (N - 3)) x, hr, T9_append _ _ _ _ _ _ hl, Bool.and_eq_true] at this
    exact this.1
  refine Gen.base (good_of_chk (by omega) length_wendQX (by omega) hx
    (tr := fun b => qX (a0 :: b0 :: a1 :: b1 :: r') != qX b) (t0 := fun b => false != qX b) ?_ ?_ (chk_qX _) hT)
  · intro b; rw [hr, T9_append _ _ _ _ _ _ hl, hc]; rfl
  · intro b
    rw [show 2 * (N - 3) = 2 * (N - 5) + 1 + 1 + 1 + 1 by omega]
    simp only [zeroV, List.replicate_succ]
    rw [T9_append _ _ _ _ _ _ (by simp)]
    have := qX_replicate (2 * (N - 5) + 4)
    simp only [List.replicate_succ] at this
    rw [this]; rfl

theorem T9_of {x : V} (a0 b0 a1 b1 : Bool) (r : V) (e : x = a0 :: b0 :: a1 :: b1 :: r) (h1 : b0 = false) (h2 : a0 = b1)
    (hq : qX x = true) : T9 x = true := by
  subst e; subst h1; subst h2
  simp [T9, hq]

theorem T9_shiftV {n k : Nat} (hk : k + 2 ≤ n) (c : Bool) :
    T9 (shiftV n k [true, false, c, true]) = true := by
  have hq : qX (shiftV n k [true, false, c, true]) = true := by rw [qX_shiftV rfl]; simp [qX]
  match k, hk, hq with
  | 0, _, hq => exact T9_of true false c true (List.replicate (2 * (n - 2 - 0)) false) rfl rfl rfl hq
  | 1, _, hq => exact T9_of false false true false (c :: true :: List.replicate (2 * (n - 2 - 1)) false) rfl rfl rfl hq
  | k + 2, _, hq =>
    exact T9_of false false false false
      (List.replicate (2 * k) false ++ ([true, false, c, true] ++ List.replicate (2 * (n - 2 - (k + 2))) false))
      (by rw [shiftV, show 2 * (k + 2) = 2 * k + 1 + 1 + 1 + 1 by omega]; rfl) rfl rfl hq

theorem qX_siteX (n k : Nat) : qX (siteX n k) = true := by
  rw [siteX, qX_append _ _ (by simp)]
  simp [qX, qX_replicate]

/-- a single `X` on a site other than the first -/
theorem T9_siteX {n k : Nat} (hk : 1 ≤ k) (hn : k + 2 ≤ n) : T9 (siteX n k) = true := by
  have hq := qX_siteX n k
  match k, hk, hn, hq with
  | 1, _, _, hq => exact T9_of false false true false (List.replicate (2 * (n - 1 - 1)) false) rfl rfl rfl hq
  | k + 2, _, _, hq =>
    exact T9_of false false false false
      (List.replicate (2 * k) false ++ (true :: false :: List.replicate (2 * (n - 1 - (k + 2))) false))
      (by rw [siteX, show 2 * (k + 2) = 2 * k + 1 + 1 + 1 + 1 by omega]; rfl) rfl rfl hq

/-- a single `X` on the last site (n ≥ 3) -/
theorem T9_siteX_last {n : Nat} (hn : 3 ≤ n) : T9 (siteX n (n - 1)) = true := by
  have hq := qX_siteX n (n - 1)
  obtain ⟨m, rfl⟩ : ∃ m, n = m + 3 := ⟨n - 3, by omega⟩
  exact T9_of false false false false
    (List.replicate (2 * m) false ++ (true :: false :: List.replicate (2 * (m + 3 - 1 - (m + 3 - 1))) false))
    (by rw [siteX, show 2 * (m + 3 - 1) = 2 * m + 1 + 1 + 1 + 1 by omega]; rfl) rfl rfl hq

theorem clo_a9_big {n : Nat} (hn : 5 ≤ n) (x : V) : Clo (klocalV n gensA9) x ↔ x.length = 2 * n ∧ T9 x = true := by
  have hb : ∀ x, x.length = 2 * 5 → T9 x = true → Clo (klocalV 5 gensA9) x := by
    intro x hx hq
    have := List.all_eq_true.1 base_a9 x (List.mem_filter.2 ⟨mem_allV.2 hx, hq⟩)
    exact (closureList_sound_complete (uniform_klocalV lenA9)).1 (List.contains_iff_mem.1 this)
  refine clo_iff_of_peel lenA9 (k := 3) (w0 := 5) (T := T9) (Wend := wendQX) (by omega) (by omega) ?_ hb
    (fun N x hN hx hT => step_a9 N x (by omega) hx hT) ?_ T9_closed hn x
  · intro g hg
    refine ⟨length_wendQX g hg, hb _ (by simp [zeroV, length_wendQX g hg]) ?_⟩
    have hq : qX g = true := (List.mem_filter.1 hg).2
    show T9 ([false, false, false, false] ++ g) = true
    rw [T9_append _ _ _ _ [] g rfl, hq]; rfl
  · intro n hn g hg
    obtain ⟨g0, hg0, k, hk, rfl⟩ := mem_klocalV.1 hg
    simp only [gensA9, vXY, vXZ, List.mem_cons, List.not_mem_nil, or_false] at hg0
    rcases hg0 with rfl | rfl <;> exact T9_shiftV (by omega) _

/-- **a9**: the closure for every n ≥ 3 -/
theorem clo_a9 {n : Nat} (hn : 3 ≤ n) (x : V) : Clo (klocalV n gensA9) x ↔ x.length = 2 * n ∧ T9 x = true := by
  by_cases h5 : 5 ≤ n
  · exact clo_a9_big h5 x
  · obtain rfl | rfl : n = 3 ∨ n = 4 := by omega
    · exact clo_iff_of_listChk lenA9 base_a9_3 x
    · exact clo_iff_of_listChk lenA9 base_a9_4 x

/-! ### counting -/

theorem count_qX : ∀ (n : Nat), 2 * ((allV (2 * n)).filter qX).length + 2 ^ n = 4 ^ n
  | 0 => by decide
  | n + 1 => by
    have ih := count_qX n
    have hl := length_allV (2 * n)
    rw [show 2 * (n + 1) = 2 * n + 2 by omega, length_filter_allV_add_two]
    have : ∀ v : V, ((if qX (false :: false :: v) then 1 else 0) + (if qX (true :: false :: v) then 1 else 0) +
        (if qX (false :: true :: v) then 1 else 0) + (if qX (true :: true :: v) then 1 else 0)) =
        (if qX v then 3 else 1) := by
      intro v; simp only [qX]; rcases Bool.eq_false_or_eq_true (qX v) with h | h <;> simp [h]
    simp only [this]
    rw [sum_map_ite_add, length_filter_not, hl]
    have h4 : (4 : Nat) ^ n = 2 ^ (2 * n) := by rw [Nat.pow_mul]
    have hle := List.length_filter_le qX (allV (2 * n))
    rw [hl] at hle
    rw [Nat.pow_succ, Nat.pow_succ, ← h4] at *
    omega

/-- the second site onwards: `z₁ ≠ qX` -/
def Q9 : V → Bool
  | a :: b :: r => b != qX (a :: b :: r)
  | _ => false

/-- `|T9| = 2·4^n + 2^n` on `n + 2` sites -/
theorem count_T9 (n : Nat) : ((allV (2 * (n + 2))).filter T9).length = 2 * 4 ^ n + 2 ^ n := by
  have hl := length_allV (2 * n)
  have hle := List.length_filter_le qX (allV (2 * n))
  have hq := count_qX n
  have h4 : (4 : Nat) ^ n = 2 ^ (2 * n) := by rw [Nat.pow_mul]
  rw [show 2 * (n + 2) = (2 * n + 2) + 2 by omega, length_filter_allV_add_two]
  have e1 : ∀ v ∈ allV (2 * n + 2), ((if T9 (false :: false :: v) then 1 else 0) + (if T9 (true :: false :: v) then 1 else 0) +
      (if T9 (false :: true :: v) then 1 else 0) + (if T9 (true :: true :: v) then 1 else 0)) = (if Q9 v then 1 else 0) := by
    intro v hv
    have hlv := mem_allV.1 hv
    match v, hlv with
    | a :: b :: r, _ =>
      simp only [T9, Q9, qX]
      cases a <;> cases b <;> rcases Bool.eq_false_or_eq_true (qX r) with h | h <;> simp [h]
  rw [List.map_congr_left e1]
  have e2 : (List.map (fun v => if Q9 v = true then 1 else 0) (allV (2 * n + 2))).sum = ((allV (2 * n + 2)).filter Q9).length := by
    have := sum_map_ite_add (allV (2 * n + 2)) Q9 1 0
    simpa using this
  rw [e2, length_filter_allV_add_two]
  have e3 : ∀ v : V, ((if Q9 (false :: false :: v) then 1 else 0) + (if Q9 (true :: false :: v) then 1 else 0) +
      (if Q9 (false :: true :: v) then 1 else 0) + (if Q9 (true :: true :: v) then 1 else 0)) = (if qX v then 1 else 3) := by
    intro v; simp only [Q9, qX]; rcases Bool.eq_false_or_eq_true (qX v) with h | h <;> simp [h]
  simp only [e3]
  rw [sum_map_ite_add, length_filter_not, hl, ← h4]
  rw [hl, ← h4] at hle
  omega

/-! ### b2 -/

def gensB2 : List V := [vXY, vXI, vIX]

theorem lenB2 : ∀ g ∈ gensB2, g.length = 4 := by simp [gensB2, vXY, vXI, vIX]

/-- the string `X I … I` -/
def isX0 : V → Bool
  | a :: b :: r => a && !b && isZ r
  | _ => false

/-- closed form of b2: `T9` or the central string `X I … I` -/
def TB2 (x : V) : Bool := T9 x || isX0 x

theorem isX0_iff {x : V} {n : Nat} (hx : x.length = 2 * (n + 1)) : isX0 x = true ↔ x = true :: false :: zeroV (2 * n) := by
  match x, hx with
  | a :: b :: r, hx =>
    have lr : r.length = 2 * n := by simp at hx; omega
    simp only [isX0, Bool.and_eq_true, Bool.not_eq_true', isZ_iff r, lr, List.cons.injEq]
    constructor
    · rintro ⟨⟨h1, h2⟩, h3⟩; exact ⟨h1, h2, h3⟩
    · rintro ⟨h1, h2, h3⟩; exact ⟨⟨h1, h2⟩, h3⟩

theorem T9_not_isX0 {x : V} (h : T9 x = true) : isX0 x = false := by
  obtain ⟨a0, a1, r, rfl, _⟩ := T9_shape h
  cases a0 <;> simp [isX0, isZ_cons]

/-- members of `T9` commute with `X I … I` -/
theorem omega_isX0 {x y : V} (hx : isX0 x = true) (hy : T9 y = true) : omega x y = false := by
  obtain ⟨a0, a1, r, rfl, _⟩ := T9_shape hy
  match x, hx with
  | a :: b :: s, hx =>
    simp only [isX0, Bool.and_eq_true, Bool.not_eq_true'] at hx
    obtain ⟨⟨rfl, rfl⟩, hz⟩ := hx
    rw [(isZ_iff s).1 hz]
    simp [omega, omega_zero_left]

theorem TB2_closed (n : Nat) (x y : V) (hx : x.length = 2 * n) (hy : y.length = 2 * n) (h1 : TB2 x = true)
    (h2 : TB2 y = true) (ho : omega x y = true) : TB2 (add x y) = true := by
  simp only [TB2, Bool.or_eq_true] at h1 h2 ⊢
  rcases h1 with h1 | h1 <;> rcases h2 with h2 | h2
  · exact Or.inl (T9_closed n x y hx hy h1 h2 ho)
  · rw [omega_comm, omega_isX0 h2 h1] at ho; cases ho
  · rw [omega_isX0 h1 h2] at ho; cases ho
  · obtain ⟨m, rfl⟩ : ∃ m, n = m + 1 := by
      cases n with
      | zero => match x, hx, h1 with
        | [], _, h1 => simp [isX0] at h1
      | succ m => exact ⟨m, rfl⟩
    rw [(isX0_iff hx).1 h1, (isX0_iff hy).1 h2, omega_self] at ho; cases ho

theorem add_shiftV {n k : Nat} {g h : V} (hg : g.length = 4) (hh : h.length = 4) :
    add (shiftV n k g) (shiftV n k h) = shiftV n k (add g h) := by
  simp only [shiftV]
  rw [add_append _ _ _ _ rfl, add_append g h _ _ (hg.trans hh.symm), add_replicate_false, add_replicate_false]

theorem omega_shiftV {n k : Nat} {g h : V} (hg : g.length = 4) (hh : h.length = 4) :
    omega (shiftV n k g) (shiftV n k h) = omega g h := by
  simp only [shiftV]
  rw [omega_append _ _ _ _ rfl (by simp), omega_append g h _ _ (hg.trans hh.symm) (by omega), omega_self, omega_self]
  cases omega g h <;> rfl

/-- **b2**: the closure for every n ≥ 3 -/
theorem clo_b2 {n : Nat} (hn : 3 ≤ n) (x : V) : Clo (klocalV n gensB2) x ↔ x.length = 2 * n ∧ TB2 x = true := by
  have hU : Uniform n (klocalV n gensB2) := uniform_klocalV lenB2
  constructor
  · intro hx
    refine ⟨clo_length hU hx, clo_sub_of_closed hU ?_ (TB2_closed n) hx⟩
    intro g hg
    obtain ⟨g0, hg0, k, hk, rfl⟩ := mem_klocalV.1 hg
    simp only [gensB2, List.mem_cons, List.not_mem_nil, or_false] at hg0
    rcases hg0 with rfl | rfl | rfl
    · simp only [TB2, Bool.or_eq_true]; exact Or.inl (T9_shiftV (by omega) _)
    · rw [show vXI = [true, false, false, false] from rfl, shiftV_XI n k (by omega)]
      match k, hk with
      | 0, _ => simp [TB2, siteX, isX0, isZ_replicate]
      | k + 1, hk => simp only [TB2, Bool.or_eq_true]; exact Or.inl (T9_siteX (by omega) (by omega))
    · rw [show vIX = [false, false, true, false] from rfl, shiftV_IX n k (by omega)]
      simp only [TB2, Bool.or_eq_true]; left
      by_cases hk' : k + 3 ≤ n
      · exact T9_siteX (by omega) (by omega)
      · rw [show k + 1 = n - 1 by omega]; exact T9_siteX_last hn
  · rintro ⟨hl, hT⟩
    simp only [TB2, Bool.or_eq_true] at hT
    rcases hT with hT | hT
    · -- the closure of a9 is contained
      refine clo_idem ?_ ((clo_a9 hn x).2 ⟨hl, hT⟩)
      intro g hg
      obtain ⟨g0, hg0, k, hk, rfl⟩ := mem_klocalV.1 hg
      simp only [gensA9, List.mem_cons, List.not_mem_nil, or_false] at hg0
      rcases hg0 with rfl | rfl
      · exact Clo.base (mem_klocalV.2 ⟨vXY, by simp [gensB2], k, hk, rfl⟩)
      · have h1 : Clo (klocalV n gensB2) (shiftV n k vIX) := Clo.base (mem_klocalV.2 ⟨vIX, by simp [gensB2], k, hk, rfl⟩)
        have h2 : Clo (klocalV n gensB2) (shiftV n k vXY) := Clo.base (mem_klocalV.2 ⟨vXY, by simp [gensB2], k, hk, rfl⟩)
        have := Clo.step h1 h2 (by rw [omega_shiftV rfl rfl]; decide)
        rwa [add_shiftV rfl rfl] at this
    · obtain ⟨m, rfl⟩ : ∃ m, n = m + 1 := ⟨n - 1, by omega⟩
      rw [(isX0_iff hl).1 hT]
      refine Clo.base (mem_klocalV.2 ⟨vXI, by simp [gensB2], 0, by omega, ?_⟩)
      simp only [shiftV, vXI, zeroV, Nat.mul_zero, List.replicate_zero, List.nil_append, List.cons_append]
      rw [show 2 * m = 2 * (m + 1 - 2 - 0) + 1 + 1 by omega]
      simp [List.replicate_succ]

theorem count_TB2 (n : Nat) : ((allV (2 * (n + 2))).filter TB2).length = 2 * 4 ^ n + 2 ^ n + 1 := by
  have hx0 : (true :: false :: zeroV (2 * (n + 1))) ∈ allV (2 * (n + 2)) := mem_allV.2 (by simp [zeroV]; omega)
  have hrem := length_filter_remove (nodup_allV (2 * (n + 2))) TB2 [true :: false :: zeroV (2 * (n + 1))] (by simp)
    (by
      intro e he
      simp only [List.mem_singleton] at he
      subst he
      exact ⟨hx0, by simp [TB2, isX0, isZ_zeroV]⟩)
  rw [← count_T9, ← hrem]
  simp only [List.length_singleton]
  congr 2
  apply List.filter_congr
  intro x hx
  have hl := mem_allV.1 hx
  have hi := isX0_iff (n := n + 1) (x := x) hl
  simp only [TB2]
  by_cases h : x = true :: false :: zeroV (2 * (n + 1))
  · have h9 : T9 x = false := by
      cases h9 : T9 x
      · rfl
      · have := T9_not_isX0 h9
        rw [hi.2 h] at this; cases this
    rw [h] at h9 ⊢
    simp [h9]
  · have : isX0 x = false := by
      cases hh : isX0 x
      · rfl
      · exact absurd (hi.1 hh) h
    simp [h, this]

end C19
end PauLie
