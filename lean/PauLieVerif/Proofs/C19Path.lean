/-
Helpers for property C19, part 3: the path family a1 (`XY`).  The translates
`I^k X Y I^(n-2-k)` form a path in the anticommutation graph; with the
Jordan–Wigner vectors `jw n k = Z^k Y I^(n-1-k)` (pairwise anticommuting) every
translate is `jw k + jw (k+1)`, the commutator closure is exactly the set of
"intervals" `jw a + jw b = I^a X Z^(b-a-1) Y I^(n-1-b)` (a < b < n), and there are
n(n-1)/2 of them — the dimension of so(n).  Core Lean only.
-/
import PauLieVerif.Proofs.C19Commuting

namespace PauLie
namespace C19
open TwoLocal Classify Closure Graph

/-! ### F. the path family a1 (`XY`): closure = "intervals" = so(n) -/

/-- Jordan–Wigner vectors on `n` sites: `Z^k Y I^(n-1-k)` -/
def jw : Nat → Nat → V
  | 0, _ => []
  | n + 1, 0 => true :: true :: List.replicate (2 * n) false
  | n + 1, k + 1 => false :: true :: jw n k

theorem length_jw : ∀ (n k : Nat), (jw n k).length = 2 * n
  | 0, _ => rfl
  | n + 1, 0 => by simp [jw]; omega
  | n + 1, k + 1 => by simp [jw, length_jw n k]; omega

theorem omega_zeros_left : ∀ (m : Nat) (y : V), omega (List.replicate m false) y = false
  | 0, _ => by simp [omega]
  | 1, _ => by simp [omega]
  | m + 2, [] => by simp [omega, List.replicate_succ]
  | m + 2, [_] => by simp [omega, List.replicate_succ]
  | m + 2, _ :: _ :: t => by simp [omega, List.replicate_succ, omega_zeros_left m t]

/-- distinct Jordan–Wigner vectors anticommute -/
theorem omega_jw : ∀ (n a b : Nat), a < n → b < n → omega (jw n a) (jw n b) = decide (a ≠ b)
  | 0, _, _, h, _ => by omega
  | n + 1, 0, 0, _, _ => by simp [jw, omega, omega_zeros_left]
  | n + 1, 0, b + 1, _, _ => by simp [jw, omega, omega_zeros_left]
  | n + 1, a + 1, 0, _, _ => by
      rw [omega_comm]; simp [jw, omega, omega_zeros_left]
  | n + 1, a + 1, b + 1, ha, hb => by
      simp [jw, omega, omega_jw n a b (by omega) (by omega)]

/-- the interval / antisymmetric unit `e(a,b) = I^a X Z^(b-a-1) Y I^(n-1-b)` -/
def ev (n a b : Nat) : V := add (jw n a) (jw n b)

theorem length_ev (n a b : Nat) : (ev n a b).length = 2 * n :=
  length_add_eq (length_jw n a) (length_jw n b)

theorem omega_ev {n a b c d : Nat} (ha : a < n) (hb : b < n) (hc : c < n) (hd : d < n) :
    omega (ev n a b) (ev n c d) =
      (((decide (a ≠ c)) != (decide (a ≠ d))) != ((decide (b ≠ c)) != (decide (b ≠ d)))) := by
  unfold ev
  rw [omega_add_left _ _ _ ((length_jw n a).trans (length_jw n b).symm),
    omega_add_right _ _ _ ((length_jw n c).trans (length_jw n d).symm),
    omega_add_right _ _ _ ((length_jw n c).trans (length_jw n d).symm),
    omega_jw n a c ha hc, omega_jw n a d ha hd, omega_jw n b c hb hc, omega_jw n b d hb hd]

/-- `(p+q)+(p+r) = q+r` -/
theorem add_share {p q r : V} {m : Nat} (hp : p.length = m) (_hq : q.length = m) (hr : r.length = m) :
    add (add p q) (add p r) = add q r := by
  rw [add_comm p q, add_assoc, add_add_cancel_left p r (hp.trans hr.symm)]

theorem ev_comm (n a b : Nat) : ev n a b = ev n b a := add_comm _ _

/-- two intervals that anticommute share exactly one end point, and their product is the
interval on the two other end points -/
theorem ev_step {n a b c d : Nat} (hab : a < b) (hb : b < n) (hcd : c < d) (hd : d < n)
    (ho : omega (ev n a b) (ev n c d) = true) :
    ∃ p q, p < q ∧ q < n ∧ add (ev n a b) (ev n c d) = ev n p q := by
  rw [omega_ev (by omega) hb (by omega) hd] at ho
  have L := length_jw n
  by_cases h1 : a = c
  · subst h1
    by_cases h2 : b = d
    · subst h2
      have hne : a ≠ b := by omega
      simp [hne, hne.symm] at ho
    · rcases Nat.lt_or_gt_of_ne h2 with h | h
      · exact ⟨b, d, h, hd, add_share (L a) (L b) (L d)⟩
      · exact ⟨d, b, h, hb, by rw [ev_comm n d b]; exact add_share (L a) (L b) (L d)⟩
  · by_cases h2 : b = d
    · subst h2
      rcases Nat.lt_or_gt_of_ne h1 with h | h
      · exact ⟨a, c, h, by omega, by rw [ev_comm n a b, ev_comm n c b]; exact add_share (L b) (L a) (L c)⟩
      · exact ⟨c, a, h, by omega, by
          rw [ev_comm n a b, ev_comm n c b, ev_comm n c a]; exact add_share (L b) (L a) (L c)⟩
    · by_cases h3 : a = d
      · subst h3
        exact ⟨c, b, by omega, hb, by rw [ev_comm n c a, ev_comm n c b]; exact add_share (L a) (L b) (L c)⟩
      · by_cases h4 : b = c
        · subst h4
          exact ⟨a, d, by omega, hd, by rw [ev_comm n a b]; exact add_share (L b) (L a) (L d)⟩
        · simp [h1, h2, h3, h4] at ho

def vXY : V := [true, false, true, true]

theorem add_zeros : ∀ (m : Nat), add (List.replicate m false) (List.replicate m false) = List.replicate m false
  | 0 => rfl
  | m + 1 => by simp [List.replicate_succ, add_zeros m]

theorem shiftV_succ (n k : Nat) (g : V) : shiftV (n + 1) (k + 1) g = false :: false :: shiftV n k g := by
  unfold shiftV
  rw [show 2 * (k + 1) = 2 * k + 1 + 1 by omega, List.replicate_succ, List.replicate_succ,
    show n + 1 - 2 - (k + 1) = n - 2 - k by omega]
  rfl

theorem shiftV_XY : ∀ (k n : Nat), k + 2 ≤ n → shiftV n k vXY = ev n k (k + 1)
  | 0, n, h => by
    obtain ⟨m, rfl⟩ : ∃ m, n = m + 2 := ⟨n - 2, by omega⟩
    simp [shiftV, vXY, ev, jw, List.replicate_succ, add_zeros, show 2 * (m + 1) = 2 * m + 1 + 1 by omega]
  | k + 1, n, h => by
    obtain ⟨m, rfl⟩ : ∃ m, n = m + 1 := ⟨n - 1, by omega⟩
    rw [shiftV_succ, shiftV_XY k m (by omega)]
    simp [ev, jw]

theorem mem_klocalV_a1 {n : Nat} {x : V} :
    x ∈ klocalV n [vXY] ↔ ∃ k, k + 1 < n ∧ x = ev n k (k + 1) := by
  rw [mem_klocalV]
  constructor
  · rintro ⟨g, hg, k, hk, rfl⟩
    rw [List.mem_singleton] at hg; subst hg
    exact ⟨k, by omega, shiftV_XY k n (by omega)⟩
  · rintro ⟨k, hk, rfl⟩
    exact ⟨vXY, by simp, k, by omega, (shiftV_XY k n (by omega)).symm⟩

theorem ev_chain {n a b d : Nat} (hab : a < b) (hbd : b < d) (hd : d < n) :
    omega (ev n a b) (ev n b d) = true ∧ add (ev n a b) (ev n b d) = ev n a d := by
  constructor
  · rw [omega_ev (by omega) (by omega) (by omega) hd]
    have h1 : a ≠ b := by omega
    have h2 : a ≠ d := by omega
    have h3 : b ≠ d := by omega
    simp [h1, h2, h3]
  · rw [ev_comm n a b]; exact add_share (length_jw n b) (length_jw n a) (length_jw n d)

/-- **a1**: the closure of the translates of `XY` is exactly the set of intervals
`I^a X Z^(b-a-1) Y I^(n-1-b)`, `a < b < n` -/
theorem clo_a1 {n : Nat} (x : V) :
    Clo (klocalV n [vXY]) x ↔ ∃ a b, a < b ∧ b < n ∧ x = ev n a b := by
  constructor
  · intro hx
    induction hx with
    | base hg =>
      obtain ⟨k, hk, rfl⟩ := mem_klocalV_a1.1 hg
      exact ⟨k, k + 1, by omega, hk, rfl⟩
    | step _ _ ho ihx ihy =>
      obtain ⟨a, b, hab, hb, rfl⟩ := ihx
      obtain ⟨c, d, hcd, hd, rfl⟩ := ihy
      obtain ⟨p, q, hpq, hq, h⟩ := ev_step hab hb hcd hd ho
      exact ⟨p, q, hpq, hq, h⟩
  · rintro ⟨a, b, hab, hb, rfl⟩
    obtain ⟨d, rfl⟩ : ∃ d, b = a + d + 1 := ⟨b - a - 1, by omega⟩
    clear hab
    induction d with
    | zero => exact Clo.base (mem_klocalV_a1.2 ⟨a, hb, rfl⟩)
    | succ d ih =>
      have h := ev_chain (n := n) (a := a) (b := a + d + 1) (d := a + (d + 1) + 1) (by omega) (by omega) hb
      rw [← h.2]
      exact Clo.step (ih (by omega)) (Clo.base (mem_klocalV_a1.2 ⟨a + d + 1, hb, rfl⟩)) h.1

theorem omega_jw_ev {n t a b : Nat} (ht : t < n) (ha : a < n) (hb : b < n) :
    omega (jw n t) (ev n a b) = (decide (t ≠ a) != decide (t ≠ b)) := by
  unfold ev
  rw [omega_add_right _ _ _ ((length_jw n a).trans (length_jw n b).symm), omega_jw n t a ht ha,
    omega_jw n t b ht hb]

theorem ev_inj {n a b c d : Nat} (hab : a < b) (hb : b < n) (hcd : c < d) (hd : d < n)
    (h : ev n a b = ev n c d) : a = c ∧ b = d := by
  have h1 := omega_jw_ev (n := n) (t := a) (a := a) (b := b) (by omega) (by omega) hb
  have h2 := omega_jw_ev (n := n) (t := b) (a := a) (b := b) hb (by omega) hb
  rw [h, omega_jw_ev (by omega) (by omega) hd] at h1
  rw [h, omega_jw_ev hb (by omega) hd] at h2
  have ha : a ≠ b := by omega
  simp only [ne_eq, not_true_eq_false, decide_false, ha, ha.symm, not_false_eq_true, decide_true] at h1 h2
  by_cases e1 : a = c <;> by_cases e2 : a = d <;> by_cases e3 : b = c <;> by_cases e4 : b = d <;>
    simp [e1, e2, e3, e4] at h1 h2 <;> omega

/-- all pairs `a < b < n` -/
def pairs : Nat → List (Nat × Nat)
  | 0 => []
  | m + 1 => pairs m ++ (List.range m).map (fun a => (a, m))

theorem mem_pairs : ∀ {n : Nat} {p : Nat × Nat}, p ∈ pairs n ↔ p.1 < p.2 ∧ p.2 < n
  | 0, p => by simp [pairs]
  | m + 1, (a, b) => by
    simp only [pairs, List.mem_append, mem_pairs (n := m), List.mem_map, List.mem_range, Prod.mk.injEq]
    constructor
    · rintro (⟨h1, h2⟩ | ⟨x, hx, rfl, rfl⟩)
      · exact ⟨h1, by omega⟩
      · exact ⟨hx, by omega⟩
    · rintro ⟨h1, h2⟩
      by_cases hb : b < m
      · exact Or.inl ⟨h1, hb⟩
      · exact Or.inr ⟨a, by omega, rfl, by omega⟩

theorem nodup_pairs : ∀ n : Nat, (pairs n).Nodup
  | 0 => List.nodup_nil
  | m + 1 => by
    rw [pairs, List.nodup_append]
    refine ⟨nodup_pairs m, ?_, ?_⟩
    · rw [List.Nodup, List.pairwise_map]
      exact List.nodup_range.imp (fun hne heq => hne (by simpa using heq))
    · intro p hp q hq hpq
      obtain ⟨x, _, rfl⟩ := List.mem_map.1 hq
      have := (mem_pairs.1 hp).2
      subst hpq
      simp at this

theorem length_pairs : ∀ n : Nat, (pairs n).length = n * (n - 1) / 2
  | 0 => rfl
  | m + 1 => by
    rw [pairs, List.length_append, length_pairs m, List.length_map, List.length_range]
    simp only [Nat.add_sub_cancel]
    cases m with
    | zero => rfl
    | succ k =>
      simp only [Nat.add_sub_cancel]
      have : (k + 1 + 1) * (k + 1) = (k + 1) * k + 2 * (k + 1) := by
        rw [Nat.mul_comm (k + 1 + 1) (k + 1), show k + 1 + 1 = k + 2 by rfl, Nat.mul_add, Nat.mul_comm (k + 1) 2]
      rw [this, Nat.add_mul_div_left _ _ (by omega : 0 < 2)]

/-- the duplicate-free list of all intervals -/
def intervals (n : Nat) : List V := (pairs n).map (fun p => ev n p.1 p.2)

theorem nodup_intervals (n : Nat) : (intervals n).Nodup := by
  rw [intervals, List.Nodup, List.pairwise_map]
  refine List.Pairwise.imp_of_mem ?_ (nodup_pairs n)
  intro p q hp hq hne heq
  obtain ⟨h1, h2⟩ := mem_pairs.1 hp
  obtain ⟨h3, h4⟩ := mem_pairs.1 hq
  obtain ⟨e1, e2⟩ := ev_inj h1 h2 h3 h4 heq
  exact hne (Prod.ext e1 e2)

theorem mem_intervals {n : Nat} {x : V} : x ∈ intervals n ↔ ∃ a b, a < b ∧ b < n ∧ x = ev n a b := by
  simp only [intervals, List.mem_map, Prod.exists, mem_pairs]
  constructor
  · rintro ⟨a, b, ⟨h1, h2⟩, rfl⟩; exact ⟨a, b, h1, h2, rfl⟩
  · rintro ⟨a, b, h1, h2, rfl⟩; exact ⟨a, b, ⟨h1, h2⟩, rfl⟩

/-- `|Clo| = n(n-1)/2 = dim so(n)` -/
theorem card_clo_a1 (n : Nat) : (closureList (klocalV n [vXY])).1.length = n * (n - 1) / 2 := by
  have hU : Uniform n (klocalV n [vXY]) := uniform_klocalV (by simp [vXY])
  rw [← clo_card hU (nodup_intervals n) (fun x => by rw [mem_intervals, clo_a1]), intervals,
    List.length_map, length_pairs]

end C19
end PauLie
