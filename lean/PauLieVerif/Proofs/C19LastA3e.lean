/-
Helpers for property C19, part 32e: family a3 - the choice for the exceptional targets, the base case of the peeling
on five sites and the chains on three and four sites (kernel evaluation).
-/
import PauLieVerif.Proofs.C19LastA3a
import PauLieVerif.Proofs.C19LastA9a

namespace PauLie
namespace C19
open Closure Graph C01Star C03

def gensA3 : List V := [vXX, vYZ]

theorem lenA3 : ∀ g ∈ gensA3, g.length = 4 := by simp [gensA3, vXX, vYZ]

theorem chA3 : chkCh a3A a3B a3W 4 = true := by decide +kernel

theorem base_a3 : ((allV 10).filter (TP a3A a3B a3W 0)).all (fun y => (closureList (klocalV 5 gensA3)).1.contains y) = true := by
  decide +kernel

theorem base_a3_3 : listChk gensA3 3 (TP a3A a3B a3W 0) = true := by decide +kernel
theorem base_a3_4 : listChk gensA3 4 (TP a3A a3B a3W 0) = true := by decide +kernel

end C19
end PauLie
