/-
Property C01, disconnected anticommutation graphs, FULL invariants: the invariants add over
mutually commuting blocks.

  * `mergeSimples_append_congr`: `mergeSimples (a ++ b)` depends on `a`, `b` only through
    `mergeSimples a`, `mergeSimples b`;
  * `invOfName_append`: the invariants of a sum of names from those of the parts;
  * `invOfClosure_union`: for two duplicate-free closed sets that commute elementwise and share no
    member, `invOfClosure (S1 ++ S2)` from the parts (the components of the union are the components
    of the parts - `invOfClosure_of_blocks`);
  * `inv_union`, `inv_closure_append`, `inv_closure_flatten`: if each block's closure has the
    invariants of a name, the closure of the union has the invariants of the sum of the names.
-/
import PauLieVerif.Proofs.C19SoInv

namespace PauLie
namespace C01Comp
open Closure Classify C03 Comp C01Names

/-! ### merge algebra -/

theorem sort_eq_of_perm {X Y : List Simple} (hp : X.Perm Y) (hk : KeysNodup X) :
    X.mergeSort cmpSimple = Y.mergeSort cmpSimple := by
  have s1 := List.pairwise_mergeSort (le := cmpSimple) cmp_trans cmp_total X
  have s2 := List.pairwise_mergeSort (le := cmpSimple) cmp_trans cmp_total Y
  have p1 := List.mergeSort_perm X cmpSimple
  have p2 := List.mergeSort_perm Y cmpSimple
  refine eq_of_perm_sorted (r := fun a b => cmpSimple a b = true) (p1.trans (hp.trans p2.symm)) s1 s2 ?_
  intro a ha b hb r1 r2
  have ha' : a ∈ X := p1.subset ha
  have hb' : b ∈ X := p1.subset hb
  have hkey := cmp_antisymm_key r1 r2
  exact Decidable.byContradiction fun hne => by
    have := pairwise_of_ne (R := fun a b => sameKey a b = false)
      (fun a b h => by rw [sameKey_symm]; exact h) hk a ha' b hb' hne
    rw [hkey] at this
    cases this

theorem keysNodup_perm {X Y : List Simple} (hp : X.Perm Y) (hk : KeysNodup X) : KeysNodup Y :=
  (hp.pairwise_iff (fun h => by rw [sameKey_symm]; exact h)).1 hk

theorem foldl_ins_self : ∀ (L acc : List Simple), KeysNodup (acc ++ L) → L.foldl ins acc = acc ++ L
  | [], acc, _ => by simp
  | s :: t, acc, h => by
    have hs : acc.any (fun u => u.1 == s.1 && u.2.1 == s.2.1) = false := by
      rw [Bool.eq_false_iff]
      intro e
      obtain ⟨u, hu, hkey⟩ := List.any_eq_true.1 e
      unfold KeysNodup at h
      rw [List.pairwise_append] at h
      have := h.2.2 u hu s (List.mem_cons_self ..)
      simp only [sameKey] at this
      rw [this] at hkey; cases hkey
    have hins : ins acc s = acc ++ [s] := by simp [ins, hs]
    rw [List.foldl_cons, hins, foldl_ins_self t (acc ++ [s]) (by simpa using h)]
    simp

theorem keysNodup_mergeSimples (a : List Simple) : KeysNodup (mergeSimples a) := by
  rw [mergeSimples_eq]
  exact keysNodup_perm (List.mergeSort_perm _ _).symm (keysNodup_foldl a List.Pairwise.nil)

theorem mergeSimples_append_left (a b : List Simple) :
    mergeSimples (a ++ b) = mergeSimples (mergeSimples a ++ b) := by
  rw [mergeSimples_eq (a ++ b), mergeSimples_eq (mergeSimples a ++ b), List.foldl_append, List.foldl_append]
  have h1 : (mergeSimples a).foldl ins [] = mergeSimples a :=
    (foldl_ins_self _ [] (by simpa using keysNodup_mergeSimples a)).trans (by simp)
  rw [h1]
  apply sort_eq_of_perm
  · apply foldl_ins_perm
    rw [mergeSimples_eq]
    exact (List.mergeSort_perm _ _).symm
  · exact keysNodup_foldl b (keysNodup_foldl a List.Pairwise.nil)

/-- merging a concatenation only needs the merged parts -/
theorem mergeSimples_append_congr {a a' b b' : List Simple} (ha : mergeSimples a = mergeSimples a')
    (hb : mergeSimples b = mergeSimples b') : mergeSimples (a ++ b) = mergeSimples (a' ++ b') := by
  rw [mergeSimples_append_left a b, ha, ← mergeSimples_append_left a' b,
    mergeSimples_perm (List.perm_append_comm (l₁ := a') (l₂ := b)), mergeSimples_append_left b a', hb,
    ← mergeSimples_append_left b' a', mergeSimples_perm (List.perm_append_comm (l₁ := b') (l₂ := a'))]

/-! ### names -/

theorem invOfName_parts (l : List Summand) :
    invOfName l = ⟨(l.map centreOf).sum, mergeSimples (l.flatMap simplesOf)⟩ := by
  rw [invOfName_eq, foldl_invStep]; simp

/-! ### closed sets -/

theorem invOfClosure_parts (S : List V) : invOfClosure S = ⟨centreCount S, mergeSimples ((compsOf S).map inv1)⟩ := rfl

section Union
variable {n : Nat} {S1 S2 : List V}

theorem closedSet_union (h1 : ClosedSet n S1) (h2 : ClosedSet n S2) (hc : Commute S1 S2) : ClosedSet n (S1 ++ S2) := by
  constructor
  · intro x hx
    rcases List.mem_append.1 hx with hx | hx
    · exact h1.len x hx
    · exact h2.len x hx
  · intro x hx y hy ho
    rcases List.mem_append.1 hx with hx | hx <;> rcases List.mem_append.1 hy with hy | hy
    · exact List.mem_append_left _ (h1.add x hx y hy ho)
    · rw [hc x hx y hy] at ho; cases ho
    · rw [omega_comm, hc y hy x hx] at ho; cases ho
    · exact List.mem_append_right _ (h2.add x hx y hy ho)

theorem any_append_commute_left (hc : Commute S1 S2) {x : V} (hx : x ∈ S1) :
    (S1 ++ S2).any (fun y => omega x y) = S1.any (fun y => omega x y) := by
  rw [List.any_append]
  have : S2.any (fun y => omega x y) = false := by
    rw [Bool.eq_false_iff]; intro e
    obtain ⟨y, hy, ho⟩ := List.any_eq_true.1 e
    rw [hc x hx y hy] at ho; cases ho
  rw [this, Bool.or_false]

theorem any_append_commute_right (hc : Commute S1 S2) {x : V} (hx : x ∈ S2) :
    (S1 ++ S2).any (fun y => omega x y) = S2.any (fun y => omega x y) := by
  rw [List.any_append]
  have : S1.any (fun y => omega x y) = false := by
    rw [Bool.eq_false_iff]; intro e
    obtain ⟨y, hy, ho⟩ := List.any_eq_true.1 e
    rw [omega_comm, hc y hy x hx] at ho; cases ho
  rw [this, Bool.false_or]

theorem restOf_union (hc : Commute S1 S2) : restOf (S1 ++ S2) = restOf S1 ++ restOf S2 := by
  unfold restOf
  rw [List.filter_append]
  congr 1
  · exact List.filter_congr (fun x hx => any_append_commute_left hc hx)
  · exact List.filter_congr (fun x hx => any_append_commute_right hc hx)

theorem centreCount_union (hc : Commute S1 S2) : centreCount (S1 ++ S2) = centreCount S1 + centreCount S2 := by
  have key : ∀ (S : List V) (x : V), S.all (fun y => !(omega x y)) = !(S.any (fun y => omega x y)) := by
    intro S x
    induction S with
    | nil => rfl
    | cons a t ih => simp only [List.all_cons, List.any_cons, ih, Bool.not_or]
  unfold centreCount
  rw [List.filter_append, List.length_append]
  congr 1
  · congr 1
    apply List.filter_congr
    intro x hx
    rw [key, key, any_append_commute_left hc hx]
  · congr 1
    apply List.filter_congr
    intro x hx
    rw [key, key, any_append_commute_right hc hx]

theorem isComp_left (hc : Commute S1 S2) {c : List V} (h : IsComp S1 c) : IsComp (S1 ++ S2) c := by
  obtain ⟨x, t, rfl, hr, hcl⟩ := h
  refine ⟨x, t, rfl, fun y hy => (hr y hy).mono (fun z hz => List.mem_append_left _ hz), ?_⟩
  intro y hy z hz ho
  rcases List.mem_append.1 hz with hz | hz
  · exact hcl y hy z hz ho
  · rw [hc y (hr y hy).mem_right z hz] at ho; cases ho

theorem isComp_right (hc : Commute S1 S2) {c : List V} (h : IsComp S2 c) : IsComp (S1 ++ S2) c := by
  obtain ⟨x, t, rfl, hr, hcl⟩ := h
  refine ⟨x, t, rfl, fun y hy => (hr y hy).mono (fun z hz => List.mem_append_right _ hz), ?_⟩
  intro y hy z hz ho
  rcases List.mem_append.1 hz with hz | hz
  · rw [omega_comm, hc z hz y (hr y hy).mem_right] at ho; cases ho
  · exact hcl y hy z hz ho

/-- **the invariants of a union of two commuting closed sets** -/
theorem invOfClosure_union (h1 : ClosedSet n S1) (h2 : ClosedSet n S2) (n1 : S1.Nodup) (n2 : S2.Nodup)
    (hc : Commute S1 S2) (hd : ∀ x, x ∈ S1 → x ∉ S2) :
    invOfClosure (S1 ++ S2) = ⟨centreCount S1 + centreCount S2,
      mergeSimples ((compsOf S1).map inv1 ++ (compsOf S2).map inv1)⟩ := by
  have hnd : (S1 ++ S2).Nodup := by
    rw [List.nodup_append]
    exact ⟨n1, n2, fun a ha b hb e => hd a ha (e ▸ hb)⟩
  obtain ⟨f1, c1⟩ := compsOf_spec (List.Perm.refl S1)
  obtain ⟨f2, c2⟩ := compsOf_spec (List.Perm.refl S2)
  rw [C19.invOfClosure_of_blocks (closedSet_union h1 h2 hc) hnd (bs := compsOf S1 ++ compsOf S2)
    (by
      intro c hc'
      rcases List.mem_append.1 hc' with hc' | hc'
      · exact ⟨isComp_left hc (c1 c hc'), nodup_of_mem_flatten (f1.nodup_iff.2 (n1.filter _)) hc'⟩
      · exact ⟨isComp_right hc (c2 c hc'), nodup_of_mem_flatten (f2.nodup_iff.2 (n2.filter _)) hc'⟩)
    (by rw [restOf_union hc, List.flatten_append]; exact f1.append f2),
    centreCount_union hc, List.map_append]

/-- **the invariants add over commuting closed sets**: if `S1` has the invariants of the name `l1`
and `S2` those of `l2`, the union has the invariants of the sum `l1 ++ l2` -/
theorem inv_union (h1 : ClosedSet n S1) (h2 : ClosedSet n S2) (n1 : S1.Nodup) (n2 : S2.Nodup)
    (hc : Commute S1 S2) (hd : ∀ x, x ∈ S1 → x ∉ S2) {l1 l2 : List Summand}
    (e1 : invOfClosure S1 = invOfName l1) (e2 : invOfClosure S2 = invOfName l2) :
    invOfClosure (S1 ++ S2) = invOfName (l1 ++ l2) := by
  rw [invOfClosure_union h1 h2 n1 n2 hc hd, invOfName_parts (l1 ++ l2), List.map_append, List.sum_append,
    List.flatMap_append]
  rw [invOfClosure_parts, invOfName_parts] at e1 e2
  injection e1 with a1 b1
  injection e2 with a2 b2
  rw [a1, a2, mergeSimples_append_congr b1 b2]

end Union

/-! ### closures of generator lists -/

theorem inv_closure_append {n : Nat} {A B : List V} (hA : Uniform n A) (hB : Uniform n B) (hc : Commute A B)
    (hd : ∀ x, x ∈ A → x ∉ B) {l1 l2 : List Summand}
    (e1 : invOfClosure (closureList A).1 = invOfName l1) (e2 : invOfClosure (closureList B).1 = invOfName l2) :
    invOfClosure (closureList (A ++ B)).1 = invOfName (l1 ++ l2) := by
  have hcc : Commute (closureList A).1 (closureList B).1 := fun x hx y hy =>
    omega_clo_clo hA hB hc ((closureList_sound_complete hA).1 hx) ((closureList_sound_complete hB).1 hy)
  have hdd : ∀ x, x ∈ (closureList A).1 → x ∉ (closureList B).1 := fun x hx hx' =>
    clo_disjoint hA hB hc hd ((closureList_sound_complete hA).1 hx) ((closureList_sound_complete hB).1 hx')
  have hAB := uniform_append hA hB
  rw [invOfClosure_perm_closed (closedSet_closureList hAB) (closureList_nodup _)
    (S' := (closureList A).1 ++ (closureList B).1)
    ((List.perm_ext_iff_of_nodup (closureList_nodup _) (by
      rw [List.nodup_append]
      exact ⟨closureList_nodup A, closureList_nodup B, fun a ha b hb e => hdd a ha (e ▸ hb)⟩)).2 (fun x => by
      rw [closureList_sound_complete hAB, clo_append hA hB hc, List.mem_append,
        closureList_sound_complete hA, closureList_sound_complete hB]))]
  exact inv_union (closedSet_closureList hA) (closedSet_closureList hB) (closureList_nodup A) (closureList_nodup B)
    hcc hdd e1 e2

/-- **n-ary**: mutually commuting blocks without common members, each with the invariants of a
name: the closure of all of them has the invariants of the sum of the names -/
theorem inv_closure_flatten {n : Nat} : ∀ (bs : List (List V)) (ls : List (List Summand)), bs.length = ls.length →
    (∀ A ∈ bs, Uniform n A) → bs.Pairwise Commute → bs.Pairwise (fun A B => ∀ x, x ∈ A → x ∉ B) →
    (∀ A l, (A, l) ∈ bs.zip ls → invOfClosure (closureList A).1 = invOfName l) →
    invOfClosure (closureList bs.flatten).1 = invOfName ls.flatten
  | [], [], _, _, _, _, _ => by decide +kernel
  | [], _ :: _, h, _, _, _, _ => by simp at h
  | _ :: _, [], h, _, _, _, _ => by simp at h
  | A :: bs, l :: ls, hlen, hU, hp, hd, he => by
    rw [List.pairwise_cons] at hp hd
    have hUb : ∀ B ∈ bs, Uniform n B := fun B hB => hU B (List.mem_cons_of_mem _ hB)
    rw [List.flatten_cons, List.flatten_cons]
    apply inv_closure_append (hU A (List.mem_cons_self ..)) (uniform_flatten hUb) (commute_flatten hp.1)
    · intro x hx hx'
      obtain ⟨B, hB, hxB⟩ := List.mem_flatten.1 hx'
      exact hd.1 B hB x hx hxB
    · exact he A l (by simp)
    · exact inv_closure_flatten bs ls (by simpa using hlen) hUb hp.2 hd.2
        (fun A' l' hz => he A' l' (by simp [hz]))

end C01Comp
end PauLie
