/-
Helper lemmas for property C03, part 2 (specification level, all n): maps on
bit lists that are additive, preserve the symplectic form and are injective
carry the commutator closure `Clo` of a set of generators onto the closure of
the image.  Instances: qubit permutations (`reindex`), independent X/Y/Z
relabelling on every qubit (`relabelAll`), appended identity qubits (`padI`).
-/
import PauLieVerif.Proofs.Closure
import PauLieVerif.Model.Classify

namespace PauLie
namespace C03

open Closure

/-- `φ` maps strings on `n` qubits to strings on `m` qubits, is additive (respects
the product up to phase), preserves the symplectic form (commutation) and is
injective. -/
structure FormMap (n m : Nat) (φ : V → V) : Prop where
  len : ∀ x, x.length = 2 * n → (φ x).length = 2 * m
  add : ∀ x y, x.length = 2 * n → y.length = 2 * n → φ (add x y) = add (φ x) (φ y)
  om : ∀ x y, x.length = 2 * n → y.length = 2 * n → omega (φ x) (φ y) = omega x y
  inj : ∀ x y, x.length = 2 * n → y.length = 2 * n → φ x = φ y → x = y

theorem FormMap.comp {n m k : Nat} {φ ψ : V → V} (hφ : FormMap n m φ) (hψ : FormMap m k ψ) :
    FormMap n k (ψ ∘ φ) where
  len x hx := hψ.len _ (hφ.len x hx)
  add x y hx hy := by
    simp only [Function.comp, hφ.add x y hx hy, hψ.add _ _ (hφ.len x hx) (hφ.len y hy)]
  om x y hx hy := by
    simp only [Function.comp, hψ.om _ _ (hφ.len x hx) (hφ.len y hy), hφ.om x y hx hy]
  inj x y hx hy h :=
    hφ.inj x y hx hy (hψ.inj _ _ (hφ.len x hx) (hφ.len y hy) h)

theorem FormMap.id (n : Nat) : FormMap n n (fun x => x) :=
  ⟨fun _ h => h, fun _ _ _ _ => rfl, fun _ _ _ _ => rfl, fun _ _ _ _ h => h⟩

section General
variable {n m : Nat} {φ : V → V}

theorem uniform_map (hφ : FormMap n m φ) {G : List V} (hG : Uniform n G) : Uniform m (G.map φ) := by
  intro g hg
  obtain ⟨x, hx, rfl⟩ := List.mem_map.mp hg
  exact hφ.len x (hG x hx)

theorem clo_map (hφ : FormMap n m φ) {G : List V} (hG : Uniform n G) {x : V} (h : Clo G x) :
    Clo (G.map φ) (φ x) := by
  induction h with
  | base hx => exact Clo.base (List.mem_map.mpr ⟨_, hx, rfl⟩)
  | @step x y hx hy ho ihx ihy =>
    have lx := clo_length hG hx
    have ly := clo_length hG hy
    rw [hφ.add x y lx ly]
    exact Clo.step ihx ihy (by rw [hφ.om x y lx ly, ho])

/-- the closure of the image is the image of the closure -/
theorem clo_image (hφ : FormMap n m φ) {G : List V} (hG : Uniform n G) {z : V} :
    Clo (G.map φ) z ↔ ∃ x, Clo G x ∧ φ x = z := by
  constructor
  · intro h
    induction h with
    | base hz =>
      obtain ⟨x, hx, rfl⟩ := List.mem_map.mp hz
      exact ⟨x, Clo.base hx, rfl⟩
    | step _ _ ho ihx ihy =>
      obtain ⟨x, hx, rfl⟩ := ihx
      obtain ⟨y, hy, rfl⟩ := ihy
      have lx := clo_length hG hx
      have ly := clo_length hG hy
      refine ⟨Closure.add x y, Clo.step hx hy ?_, hφ.add x y lx ly⟩
      rw [← hφ.om x y lx ly, ho]
  · rintro ⟨x, hx, rfl⟩
    exact clo_map hφ hG hx

theorem clo_map_iff (hφ : FormMap n m φ) {G : List V} (hG : Uniform n G) {x : V}
    (hx : x.length = 2 * n) : Clo (G.map φ) (φ x) ↔ Clo G x := by
  constructor
  · intro h
    obtain ⟨y, hy, e⟩ := (clo_image hφ hG).mp h
    rw [← hφ.inj y x (clo_length hG hy) hx e]; exact hy
  · exact clo_map hφ hG

theorem nodup_map_on {α β : Type} {f : α → β} : ∀ {l : List α},
    (∀ x ∈ l, ∀ y ∈ l, f x = f y → x = y) → l.Nodup → (l.map f).Nodup
  | [], _, _ => List.nodup_nil
  | a :: t, h, hn => by
    rw [List.map_cons, List.nodup_cons]
    rw [List.nodup_cons] at hn
    refine ⟨?_, nodup_map_on (fun x hx y hy => h x (by simp [hx]) y (by simp [hy])) hn.2⟩
    intro hm
    obtain ⟨b, hb, e⟩ := List.mem_map.mp hm
    have := h b (by simp [hb]) a (by simp) e
    exact hn.1 (this ▸ hb)

/-- the computed closure of the image is, up to order, the image of the computed closure -/
theorem closure_perm_map (hφ : FormMap n m φ) {G : List V} (hG : Uniform n G) :
    (closureList (G.map φ)).1.Perm ((closureList G).1.map φ) := by
  have hlen : ∀ x ∈ (closureList G).1, x.length = 2 * n :=
    fun x hx => clo_length hG ((closureList_sound_complete hG).mp hx)
  rw [List.perm_ext_iff_of_nodup (closureList_nodup _)
    (nodup_map_on (fun x hx y hy => hφ.inj x y (hlen x hx) (hlen y hy)) (closureList_nodup G))]
  intro z
  rw [closureList_sound_complete (uniform_map hφ hG), clo_image hφ hG, List.mem_map]
  constructor
  · rintro ⟨x, hx, e⟩; exact ⟨x, (closureList_sound_complete hG).mpr hx, e⟩
  · rintro ⟨x, hx, e⟩; exact ⟨x, (closureList_sound_complete hG).mp hx, e⟩

/-- same dimension -/
theorem closure_card (hφ : FormMap n m φ) {G : List V} (hG : Uniform n G) :
    (closureList (G.map φ)).1.length = (closureList G).1.length := by
  rw [(closure_perm_map hφ hG).length_eq, List.length_map]

/-! ### the centre (number of `u(1)` summands) -/

/-- number of members commuting with every member -/
def centreCount (C : List V) : Nat := (C.filter (fun x => C.all (fun y => !(omega x y)))).length

theorem centreCount_eq_inv (C : List V) : (Classify.invOfClosure C).centre = centreCount C := rfl

theorem all_congr_mem {C C' : List V} (h : ∀ x, x ∈ C ↔ x ∈ C') (p : V → Bool) :
    C.all p = C'.all p := by
  rw [Bool.eq_iff_iff, List.all_eq_true, List.all_eq_true]
  exact ⟨fun H x hx => H x ((h x).mpr hx), fun H x hx => H x ((h x).mp hx)⟩

theorem centreCount_perm {C C' : List V} (h : C.Perm C') : centreCount C = centreCount C' := by
  unfold centreCount
  have : (fun x => C.all (fun y => !(omega x y))) = (fun x => C'.all (fun y => !(omega x y))) := by
    funext x; exact all_congr_mem (fun _ => h.mem_iff) _
  rw [this]
  exact (h.filter _).length_eq

theorem centreCount_map {φ : V → V} {C : List V}
    (hom : ∀ x ∈ C, ∀ y ∈ C, omega (φ x) (φ y) = omega x y) :
    centreCount (C.map φ) = centreCount C := by
  unfold centreCount
  rw [List.filter_map, List.length_map]
  congr 1
  apply List.filter_congr
  intro x hx
  simp only [Function.comp, List.all_map]
  rw [Bool.eq_iff_iff, List.all_eq_true, List.all_eq_true]
  constructor
  · intro H y hy; have := H y hy; simpa [Function.comp, hom x hx y hy] using this
  · intro H y hy; have := H y hy; simpa [Function.comp, hom x hx y hy] using this

/-- same centre -/
theorem closure_centre (hφ : FormMap n m φ) {G : List V} (hG : Uniform n G) :
    centreCount (closureList (G.map φ)).1 = centreCount (closureList G).1 := by
  have hlen : ∀ x ∈ (closureList G).1, x.length = 2 * n :=
    fun x hx => clo_length hG ((closureList_sound_complete hG).mp hx)
  rw [centreCount_perm (closure_perm_map hφ hG)]
  exact centreCount_map (fun x hx y hy => hφ.om x y (hlen x hx) (hlen y hy))

end General

/-! ### closures that are equal as sets (contraction, added product) -/

theorem closure_perm_of_clo_iff {n : Nat} {G G' : List V} (hG : Uniform n G) (hG' : Uniform n G')
    (h : ∀ x, Clo G x ↔ Clo G' x) : (closureList G).1.Perm (closureList G').1 := by
  rw [List.perm_ext_iff_of_nodup (closureList_nodup _) (closureList_nodup _)]
  intro x
  rw [closureList_sound_complete hG, closureList_sound_complete hG', h x]

/-! ## Instance 1: appended identity qubits -/

/-- `k` identity qubits appended -/
def padI (k : Nat) (x : V) : V := x ++ List.replicate (2 * k) false

theorem add_append : ∀ (x y a b : V), x.length = y.length →
    Closure.add (x ++ a) (y ++ b) = Closure.add x y ++ Closure.add a b
  | [], [], a, b, _ => by simp
  | [], _ :: _, _, _, h => by simp at h
  | _ :: _, [], _, _, h => by simp at h
  | p :: s, q :: t, a, b, h => by
    simp only [List.cons_append, add_cons]
    rw [add_append s t a b (by simpa using h)]

theorem omega_append : ∀ (x y a b : V), x.length = y.length → x.length % 2 = 0 →
    omega (x ++ a) (y ++ b) = (omega x y != omega a b)
  | [], [], a, b, _, _ => by simp [omega]
  | [], _ :: _, _, _, h, _ => by simp at h
  | _ :: _, [], _, _, h, _ => by simp at h
  | [_], [_], _, _, _, h => by simp at h
  | [_], _ :: _ :: _, _, _, h, _ => by simp at h
  | _ :: _ :: _, [_], _, _, h, _ => by simp at h
  | x1 :: z1 :: s, x2 :: z2 :: t, a, b, h, he => by
    simp only [List.cons_append, omega]
    rw [omega_append s t a b (by simpa using h) (by simp at he; omega)]
    cases ((x1 && z2) != (z1 && x2)) <;> cases omega s t <;> cases omega a b <;> rfl

theorem add_replicate_false (k : Nat) :
    Closure.add (List.replicate k false) (List.replicate k false) = List.replicate k false := by
  induction k with
  | zero => simp
  | succ k ih => simp [List.replicate_succ, ih]

theorem formMap_padI (n k : Nat) : FormMap n (n + k) (padI k) where
  len x hx := by simp [padI, hx]; omega
  add x y hx hy := by
    simp only [padI]
    rw [add_append x y _ _ (hx.trans hy.symm), add_replicate_false]
  om x y hx hy := by
    simp only [padI]
    rw [omega_append x y _ _ (hx.trans hy.symm) (by omega), omega_self]
    cases omega x y <;> rfl
  inj x y _ _ h := List.append_cancel_right h

/-! ## Instance 2: X/Y/Z relabelled independently on every qubit -/

/-- a linear map of `F₂²` (bit pair ↦ bit pair) that preserves the symplectic form
and is injective; the six such maps are exactly the permutations of `X, Y, Z` -/
structure Symp2 (f : Bool → Bool → Bool × Bool) : Prop where
  add : ∀ a b c d, f (a != c) (b != d) = ((f a b).1 != (f c d).1, (f a b).2 != (f c d).2)
  form : ∀ a b c d, (((f a b).1 && (f c d).2) != ((f a b).2 && (f c d).1)) = ((a && d) != (b && c))
  inj : ∀ a b c d, f a b = f c d → a = c ∧ b = d

/-- the site map of a relabelling `σ` of the letters -/
def relabelBits (σ : Letter → Letter) (x z : Bool) : Bool × Bool := (σ (Letter.ofCode x z)).code

/-- `σ` fixes `I` and permutes `X, Y, Z` -/
def IsRelabel (σ : Letter → Letter) : Prop := σ .I = .I ∧ ∀ a b, σ a = σ b → a = b

theorem symp2_of_relabel {σ : Letter → Letter} (h : IsRelabel σ) : Symp2 (relabelBits σ) := by
  obtain ⟨hI, hinj⟩ := h
  have key : (σ .X = .X ∧ σ .Y = .Y ∧ σ .Z = .Z) ∨ (σ .X = .X ∧ σ .Y = .Z ∧ σ .Z = .Y) ∨
      (σ .X = .Y ∧ σ .Y = .X ∧ σ .Z = .Z) ∨ (σ .X = .Y ∧ σ .Y = .Z ∧ σ .Z = .X) ∨
      (σ .X = .Z ∧ σ .Y = .X ∧ σ .Z = .Y) ∨ (σ .X = .Z ∧ σ .Y = .Y ∧ σ .Z = .X) := by
    have hXI : σ .X ≠ .I := fun e => by have := hinj .X .I (e.trans hI.symm); cases this
    have hYI : σ .Y ≠ .I := fun e => by have := hinj .Y .I (e.trans hI.symm); cases this
    have hZI : σ .Z ≠ .I := fun e => by have := hinj .Z .I (e.trans hI.symm); cases this
    have hXY : σ .X ≠ σ .Y := fun e => by have := hinj _ _ e; cases this
    have hXZ : σ .X ≠ σ .Z := fun e => by have := hinj _ _ e; cases this
    have hYZ : σ .Y ≠ σ .Z := fun e => by have := hinj _ _ e; cases this
    revert hXI hYI hZI hXY hXZ hYZ
    cases σ .X <;> cases σ .Y <;> cases σ .Z <;> simp
  rcases key with ⟨hX, hY, hZ⟩ | ⟨hX, hY, hZ⟩ | ⟨hX, hY, hZ⟩ | ⟨hX, hY, hZ⟩ | ⟨hX, hY, hZ⟩ | ⟨hX, hY, hZ⟩ <;>
  · refine ⟨?_, ?_, ?_⟩ <;> intro a b c d <;> cases a <;> cases b <;> cases c <;> cases d <;>
      simp [relabelBits, Letter.ofCode, Letter.code, hI, hX, hY, hZ]

/-- relabel qubit `i` by `fs[i]` (qubits beyond `fs` are left alone) -/
def relabelAll : List (Bool → Bool → Bool × Bool) → V → V
  | f :: fs, x :: z :: t => (f x z).1 :: (f x z).2 :: relabelAll fs t
  | _, l => l

theorem length_relabelAll : ∀ (fs : List (Bool → Bool → Bool × Bool)) (x : V),
    (relabelAll fs x).length = x.length
  | [], _ => by simp [relabelAll]
  | _ :: _, [] => by simp [relabelAll]
  | _ :: _, [_] => by simp [relabelAll]
  | _ :: fs, _ :: _ :: t => by simp [relabelAll, length_relabelAll fs t]

theorem relabelAll_add : ∀ (fs : List (Bool → Bool → Bool × Bool)) (_ : ∀ f ∈ fs, Symp2 f) (x y : V),
    x.length = y.length →
    relabelAll fs (Closure.add x y) = Closure.add (relabelAll fs x) (relabelAll fs y)
  | [], _, _, _, _ => by simp [relabelAll]
  | _ :: _, _, [], y, _ => by simp [relabelAll]
  | _ :: _, _, _ :: _, [], h => by simp at h
  | _ :: _, _, [a], [b], _ => by simp [relabelAll]
  | _ :: _, _, [_], _ :: _ :: _, h => by simp at h
  | _ :: _, _, _ :: _ :: _, [_], h => by simp at h
  | f :: fs, hf, a :: b :: s, c :: d :: t, h => by
    have ih := relabelAll_add fs (fun g hg => hf g (by simp [hg])) s t (by simpa using h)
    have hadd := (hf f (by simp)).add a b c d
    simp only [add_cons, relabelAll, ih, hadd]

theorem relabelAll_omega : ∀ (fs : List (Bool → Bool → Bool × Bool)) (_ : ∀ f ∈ fs, Symp2 f) (x y : V),
    x.length = y.length →
    omega (relabelAll fs x) (relabelAll fs y) = omega x y
  | [], _, _, _, _ => by simp [relabelAll]
  | _ :: _, _, [], y, _ => by simp [relabelAll, omega]
  | _ :: _, _, _ :: _, [], h => by simp at h
  | _ :: _, _, [a], [b], _ => by simp [relabelAll]
  | _ :: _, _, [_], _ :: _ :: _, h => by simp at h
  | _ :: _, _, _ :: _ :: _, [_], h => by simp at h
  | f :: fs, hf, a :: b :: s, c :: d :: t, h => by
    have ih := relabelAll_omega fs (fun g hg => hf g (by simp [hg])) s t (by simpa using h)
    have hform := (hf f (by simp)).form a b c d
    simp only [relabelAll, omega, ih, hform]

theorem relabelAll_inj : ∀ (fs : List (Bool → Bool → Bool × Bool)) (_ : ∀ f ∈ fs, Symp2 f) (x y : V),
    x.length = y.length → relabelAll fs x = relabelAll fs y → x = y
  | [], _, _, _, _, e => by simpa [relabelAll] using e
  | _ :: _, _, [], [], _, _ => rfl
  | _ :: _, _, [], _ :: _, h, _ => by simp at h
  | _ :: _, _, _ :: _, [], h, _ => by simp at h
  | _ :: _, _, [a], [b], _, e => by simpa [relabelAll] using e
  | _ :: _, _, [_], _ :: _ :: _, h, _ => by simp at h
  | _ :: _, _, _ :: _ :: _, [_], h, _ => by simp at h
  | f :: fs, hf, a :: b :: s, c :: d :: t, h, e => by
    simp only [relabelAll, List.cons.injEq] at e
    obtain ⟨e1, e2, e3⟩ := e
    have ih := relabelAll_inj fs (fun g hg => hf g (by simp [hg])) s t (by simpa using h) e3
    obtain ⟨h1, h2⟩ := (hf f (by simp)).inj a b c d (Prod.ext e1 e2)
    rw [h1, h2, ih]

theorem formMap_relabelAll (n : Nat) {fs : List (Bool → Bool → Bool × Bool)}
    (hf : ∀ f ∈ fs, Symp2 f) : FormMap n n (relabelAll fs) where
  len x hx := by rw [length_relabelAll, hx]
  add x y hx hy := relabelAll_add fs hf x y (hx.trans hy.symm)
  om x y hx hy := relabelAll_omega fs hf x y (hx.trans hy.symm)
  inj x y hx hy := relabelAll_inj fs hf x y (hx.trans hy.symm)

/-! ## Instance 3: qubit permutations -/

/-- the two bits of qubit `i` -/
def qubit (x : V) (i : Nat) : List Bool := [x.getD (2 * i) false, x.getD (2 * i + 1) false]

/-- qubit `k` of the result is qubit `p[k]` of `x` -/
def reindex (p : List Nat) (x : V) : V := p.flatMap (qubit x)

theorem reindex_cons (i : Nat) (p : List Nat) (x : V) :
    reindex (i :: p) x = x.getD (2 * i) false :: x.getD (2 * i + 1) false :: reindex p x := rfl

theorem length_reindex (p : List Nat) (x : V) : (reindex p x).length = 2 * p.length := by
  induction p with
  | nil => rfl
  | cons i p ih => rw [reindex_cons]; simp [ih]; omega

theorem getD_add : ∀ (x y : V) (k : Nat), x.length = y.length →
    (Closure.add x y).getD k false = (x.getD k false != y.getD k false)
  | [], [], _, _ => by simp
  | [], _ :: _, _, h => by simp at h
  | _ :: _, [], _, h => by simp at h
  | a :: s, b :: t, 0, _ => by simp
  | a :: s, b :: t, k + 1, h => by
    simpa using getD_add s t k (by simpa using h)

theorem reindex_add (p : List Nat) (x y : V) (h : x.length = y.length) :
    reindex p (Closure.add x y) = Closure.add (reindex p x) (reindex p y) := by
  induction p with
  | nil => rfl
  | cons i p ih => simp only [reindex_cons, add_cons, ih, getD_add x y _ h]

/-- parity of a list of bits -/
def par (l : List Bool) : Bool := l.foldr (fun a r => a != r) false

theorem par_perm {l l' : List Bool} (h : l.Perm l') : par l = par l' := by
  induction h with
  | nil => rfl
  | cons a _ ih => simp only [par, List.foldr_cons] at ih ⊢; rw [ih]
  | swap a b l => simp only [par, List.foldr_cons]; cases a <;> cases b <;> simp
  | trans _ _ ih1 ih2 => exact ih1.trans ih2

/-- the contribution of qubit `i` to the symplectic form -/
def loc (x y : V) (i : Nat) : Bool :=
  (x.getD (2 * i) false && y.getD (2 * i + 1) false) != (x.getD (2 * i + 1) false && y.getD (2 * i) false)

theorem omega_reindex (p : List Nat) (x y : V) :
    omega (reindex p x) (reindex p y) = par (p.map (loc x y)) := by
  induction p with
  | nil => rfl
  | cons i p ih =>
    simp only [reindex_cons, omega, ih, List.map_cons, par, List.foldr_cons, loc]

theorem loc_succ (a b c d : Bool) (s t : V) (i : Nat) :
    loc (a :: b :: s) (c :: d :: t) (i + 1) = loc s t i := by
  simp only [loc, show 2 * (i + 1) = 2 * i + 1 + 1 by omega, List.getD_cons_succ]

theorem omega_eq_par : ∀ (n : Nat) (x y : V), x.length = 2 * n → y.length = 2 * n →
    omega x y = par ((List.range n).map (loc x y))
  | 0, x, y, hx, hy => by
    have hx' : x = [] := List.eq_nil_of_length_eq_zero (by omega)
    subst hx'
    simp [omega, par]
  | n + 1, [], _, hx, _ => by simp at hx
  | n + 1, [_], _, hx, _ => by simp at hx; omega
  | n + 1, _ :: _ :: _, [], _, hy => by simp at hy
  | n + 1, _ :: _ :: _, [_], _, hy => by simp at hy; omega
  | n + 1, a :: b :: s, c :: d :: t, hx, hy => by
    have ih := omega_eq_par n s t (by simp at hx; omega) (by simp at hy; omega)
    rw [List.range_succ_eq_map, List.map_cons, List.map_map]
    have : (loc (a :: b :: s) (c :: d :: t) ∘ Nat.succ) = loc s t := by
      funext i; exact loc_succ a b c d s t i
    rw [this]
    simp only [omega, ih, par, List.foldr_cons, loc, Nat.mul_zero, List.getD_cons_zero,
      Nat.zero_add, List.getD_cons_succ]

theorem reindex_omega {n : Nat} {p : List Nat} (hp : p.Perm (List.range n)) (x y : V)
    (hx : x.length = 2 * n) (hy : y.length = 2 * n) :
    omega (reindex p x) (reindex p y) = omega x y := by
  rw [omega_reindex, omega_eq_par n x y hx hy]
  exact par_perm (hp.map _)

theorem qubit_eq_of_reindex_eq : ∀ (p : List Nat) (x y : V), reindex p x = reindex p y →
    ∀ i ∈ p, qubit x i = qubit y i
  | [], _, _, _, _, hi => by cases hi
  | j :: p, x, y, e, i, hi => by
    simp only [reindex_cons, List.cons.injEq] at e
    obtain ⟨e1, e2, e3⟩ := e
    rcases List.mem_cons.mp hi with rfl | hi
    · simp only [qubit, e1, e2]
    · exact qubit_eq_of_reindex_eq p x y e3 i hi

theorem reindex_inj {n : Nat} {p : List Nat} (hp : p.Perm (List.range n)) (x y : V)
    (hx : x.length = 2 * n) (hy : y.length = 2 * n) (e : reindex p x = reindex p y) : x = y := by
  have hq := qubit_eq_of_reindex_eq p x y e
  apply List.ext_getElem (hx.trans hy.symm)
  intro k h1 h2
  have hi : k / 2 ∈ p := hp.mem_iff.mpr (List.mem_range.mpr (by omega))
  have := hq (k / 2) hi
  simp only [qubit, List.cons.injEq, and_true] at this
  rcases Nat.mod_two_eq_zero_or_one k with hk | hk
  · have e2 : 2 * (k / 2) = k := by omega
    have := this.1
    rw [e2, ← List.getElem_eq_getD (h := h1) false, ← List.getElem_eq_getD (h := h2) false] at this
    exact this
  · have e2 : 2 * (k / 2) + 1 = k := by omega
    have := this.2
    rw [e2, ← List.getElem_eq_getD (h := h1) false, ← List.getElem_eq_getD (h := h2) false] at this
    exact this

theorem formMap_reindex {n : Nat} {p : List Nat} (hp : p.Perm (List.range n)) :
    FormMap n n (reindex p) where
  len x _ := by rw [length_reindex, hp.length_eq, List.length_range]
  add x y hx hy := reindex_add p x y (hx.trans hy.symm)
  om x y hx hy := reindex_omega hp x y hx hy
  inj x y hx hy := reindex_inj hp x y hx hy

/-! ## Invariants of the anticommutation graph of a closed set -/

/-- `I` is a function of the finite set `C` together with its commutation
structure: independent of the order of enumeration and unchanged by any injective
relabelling of the members that preserves the symplectic form on `C` -/
structure GraphInvariant {α : Type} (I : List V → α) : Prop where
  perm : ∀ C C' : List V, C.Perm C' → I C = I C'
  map : ∀ (φ : V → V) (C : List V), (∀ x ∈ C, ∀ y ∈ C, omega (φ x) (φ y) = omega x y) →
    (∀ x ∈ C, ∀ y ∈ C, φ x = φ y → x = y) → I (C.map φ) = I C

theorem graphInvariant_length : GraphInvariant (fun C : List V => C.length) :=
  ⟨fun _ _ h => h.length_eq, fun _ _ _ _ => List.length_map _⟩

theorem graphInvariant_centre : GraphInvariant centreCount :=
  ⟨fun _ _ h => centreCount_perm h, fun _ _ h _ => centreCount_map h⟩

theorem GraphInvariant.prod {α β : Type} {I : List V → α} {J : List V → β}
    (hI : GraphInvariant I) (hJ : GraphInvariant J) : GraphInvariant (fun C => (I C, J C)) :=
  ⟨fun C C' h => by simp only [hI.perm C C' h, hJ.perm C C' h],
   fun φ C h1 h2 => by simp only [hI.map φ C h1 h2, hJ.map φ C h1 h2]⟩

theorem closure_invariant_map {α : Type} {I : List V → α} (hI : GraphInvariant I) {n m : Nat}
    {φ : V → V} (hφ : FormMap n m φ) {G : List V} (hG : Uniform n G) :
    I (closureList (G.map φ)).1 = I (closureList G).1 := by
  have hlen : ∀ x ∈ (closureList G).1, x.length = 2 * n :=
    fun x hx => clo_length hG ((closureList_sound_complete hG).mp hx)
  rw [hI.perm _ _ (closure_perm_map hφ hG)]
  exact hI.map φ _ (fun x hx y hy => hφ.om x y (hlen x hx) (hlen y hy))
    (fun x hx y hy => hφ.inj x y (hlen x hx) (hlen y hy))

theorem closure_invariant_of_clo_iff {α : Type} {I : List V → α} (hI : GraphInvariant I) {n : Nat}
    {G G' : List V} (hG : Uniform n G) (hG' : Uniform n G') (h : ∀ x, Clo G x ↔ Clo G' x) :
    I (closureList G).1 = I (closureList G').1 :=
  hI.perm _ _ (closure_perm_of_clo_iff hG hG' h)

/-! ## Soundness of the repaired dependency test (fixes d8581b3, 9029d24): the product of an odd
number of pairwise commuting generators that all anticommute with one further
generator `c` ("single legs at the centre") lies in the commutator closure -/

/-- product (up to phase) of a non-empty list of strings -/
def prodV : List V → V
  | [] => []
  | [s] => s
  | s :: t => Closure.add s (prodV t)

theorem prodV_cons2 (s s' : V) (t : List V) : prodV (s :: s' :: t) = Closure.add s (prodV (s' :: t)) := rfl

theorem length_prodV {n : Nat} : ∀ (L : List V), L ≠ [] → (∀ s ∈ L, s.length = 2 * n) →
    (prodV L).length = 2 * n
  | [], h, _ => absurd rfl h
  | [s], _, hl => hl s (by simp)
  | s :: s' :: t, _, hl => by
    rw [prodV_cons2]
    exact length_add_eq (hl s (by simp)) (length_prodV (s' :: t) (by simp) (fun x hx => hl x (by simp [hx])))

theorem omega_prodV_of_comm {n : Nat} (x : V) (hx : x.length = 2 * n) : ∀ (L : List V), L ≠ [] →
    (∀ s ∈ L, s.length = 2 * n) → (∀ s ∈ L, omega s x = false) → omega (prodV L) x = false
  | [], h, _, _ => absurd rfl h
  | [s], _, _, hc => hc s (by simp)
  | s :: s' :: t, _, hl, hc => by
    have lt := length_prodV (n := n) (s' :: t) (by simp) (fun y hy => hl y (by simp [hy]))
    rw [prodV_cons2, omega_add_left s _ x ((hl s (by simp)).trans lt.symm), hc s (by simp),
      omega_prodV_of_comm x hx (s' :: t) (by simp) (fun y hy => hl y (by simp [hy]))
        (fun y hy => hc y (by simp [hy]))]
    rfl

/-- an odd product of pairwise commuting generators anticommuting with the generator `c`
is in the closure and anticommutes with `c` -/
theorem clo_odd_product {n : Nat} {G : List V} (hG : Uniform n G) {c : V} (hc : c ∈ G) :
    ∀ (k : Nat) (L : List V), L.length = 2 * k + 1 → (∀ s ∈ L, s ∈ G ∧ omega s c = true) →
      L.Pairwise (fun a b => omega a b = false) →
      Clo G (prodV L) ∧ omega (prodV L) c = true
  | 0, L, hlen, hL, _ => by
    match L, hlen with
    | [s], _ => exact ⟨Clo.base (hL s (by simp)).1, (hL s (by simp)).2⟩
  | k + 1, L, hlen, hL, hp => by
    match L, hlen with
    | s1 :: s2 :: t, hlen =>
      have hlt : t.length = 2 * k + 1 := by simp at hlen; omega
      have hne : t ≠ [] := by intro e; rw [e] at hlt; simp at hlt
      have hp' := hp
      rw [List.pairwise_cons, List.pairwise_cons] at hp'
      obtain ⟨h1, h2, h3⟩ := hp'
      obtain ⟨ihc, iho⟩ := clo_odd_product hG hc k t hlt (fun s hs => hL s (by simp [hs])) h3
      have lc := hG c hc
      have ls1 := hG s1 (hL s1 (by simp)).1
      have ls2 := hG s2 (hL s2 (by simp)).1
      have lt : ∀ s ∈ t, s.length = 2 * n := fun s hs => hG s (hL s (by simp [hs])).1
      have lP := length_prodV (n := n) t hne lt
      have o1c := (hL s1 (by simp)).2
      have o2c := (hL s2 (by simp)).2
      -- the product of the tail commutes with s1 and s2
      have oP1 : omega (prodV t) s1 = false :=
        omega_prodV_of_comm s1 ls1 t hne lt (fun s hs => by rw [omega_comm]; exact h1 s (by simp [hs]))
      have oP2 : omega (prodV t) s2 = false :=
        omega_prodV_of_comm s2 ls2 t hne lt (fun s hs => by rw [omega_comm]; exact h2 s hs)
      have o12 : omega s1 s2 = false := h1 s2 (by simp)
      -- P, P+c, P+c+s2, P+c+s2+s1, P+c+s2+s1+c
      have a1 : Clo G (Closure.add (prodV t) c) := Clo.step ihc (Clo.base hc) iho
      have l1 := length_add_eq lP lc
      have a2 : Clo G (Closure.add (Closure.add (prodV t) c) s2) := by
        refine Clo.step a1 (Clo.base (hL s2 (by simp)).1) ?_
        rw [omega_add_left _ _ _ (lP.trans lc.symm), oP2, omega_comm c s2, o2c]; rfl
      have l2 := length_add_eq l1 ls2
      have a3 : Clo G (Closure.add (Closure.add (Closure.add (prodV t) c) s2) s1) := by
        refine Clo.step a2 (Clo.base (hL s1 (by simp)).1) ?_
        rw [omega_add_left _ _ _ (l1.trans ls2.symm), omega_add_left _ _ _ (lP.trans lc.symm), oP1,
          omega_comm c s1, o1c, omega_comm s2 s1, o12]; rfl
      have l3 := length_add_eq l2 ls1
      have o3c : omega (Closure.add (Closure.add (Closure.add (prodV t) c) s2) s1) c = true := by
        rw [omega_add_left _ _ _ (l2.trans ls1.symm), omega_add_left _ _ _ (l1.trans ls2.symm),
          omega_add_left _ _ _ (lP.trans lc.symm), iho, omega_self, o2c, o1c]; rfl
      have a4 := Clo.step a3 (Clo.base hc) o3c
      -- rearrange: ((((P + c) + s2) + s1) + c) = s1 + (s2 + P)
      have e : Closure.add (Closure.add (Closure.add (Closure.add (prodV t) c) s2) s1) c
          = prodV (s1 :: s2 :: t) := by
        have hP : prodV (s1 :: s2 :: t) = Closure.add s1 (Closure.add s2 (prodV t)) := by
          cases t with
          | nil => exact absurd rfl hne
          | cons x t' => rfl
        rw [hP]
        have c1 : Closure.add (Closure.add (Closure.add (prodV t) c) s2) s1
            = Closure.add (Closure.add s1 (Closure.add s2 (prodV t))) c := by
          rw [add_comm (Closure.add (Closure.add (prodV t) c) s2) s1, add_comm (Closure.add (prodV t) c) s2,
            add_comm (prodV t) c, ← add_assoc s2 c, add_comm s2 c, add_assoc c s2, ← add_assoc s1 c,
            add_comm s1 c, add_assoc c s1, add_comm c]
        rw [c1, add_add_cancel_right _ c ((length_add_eq ls1 (length_add_eq ls2 lP)).trans lc.symm)]
      rw [e] at a4
      refine ⟨a4, ?_⟩
      rw [← e, omega_add_left _ _ _ (l3.trans lc.symm), o3c, omega_self]; rfl

end C03
end PauLie
