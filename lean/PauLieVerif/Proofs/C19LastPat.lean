/-
Helpers for property C19, part 30: closed forms with SITE-PERIODIC symmetry strings (families a5 and a3) -
definitions.

`l : Nat → Bool × Bool` gives the letter of a periodic string at every site (`Lt`).  `omP l i x = ω(x, l_i l_{i+1} …)`,
`isP l i x` = "`x` is `l_i l_{i+1} …`", `qW w i x = #Y(x) + ω(x, w_i w_{i+1} …)` (a quadratic form with polarisation
`omega`).  The closed form is

    `TP A B w 0 x`:  `x` commutes with the strings `A`, `B`, `qW w 0 x = 1`, and `x` is not in the span of `A`, `B`.

`spn A B c1 c2` is the member `c1·A + c2·B` of the span.  `trP`, `t0P`, `tpP`: `TP (r ++ b)` as a function of `b`, of the phase (the position of the first site of `b`) and of
the state of the tail `r`; `t0P` for the zero tail; `tpP`: the targets that do not end in a non-zero block of the span.
Core Lean only.
-/
import PauLieVerif.Proofs.C19LastMap
import PauLieVerif.Proofs.C19RestA16
import PauLieVerif.Proofs.C19LastFast

namespace PauLie
namespace C19
open Closure Graph C01Star C03

abbrev Lt := Nat → Bool × Bool

def lAdd (A B : Lt) : Lt := fun i => ((A i).1 != (B i).1, (A i).2 != (B i).2)

/-- the member `c1·A + c2·B` of the span of `A`, `B` -/
def spn (A B : Lt) (c1 c2 : Bool) : Lt :=
  fun i => ((c1 && (A i).1) != (c2 && (B i).1), (c1 && (A i).2) != (c2 && (B i).2))

/-- `ω(x, l_i l_{i+1} …)` -/
def omP (l : Lt) : Nat → V → Bool
  | i, a :: b :: r => ((a && (l i).2) != (b && (l i).1)) != omP l (i + 1) r
  | _, _ => false

/-- `x = l_i l_{i+1} …` -/
def isP (l : Lt) : Nat → V → Bool
  | i, a :: b :: r => (a == (l i).1) && (b == (l i).2) && isP l (i + 1) r
  | _, [] => true
  | _, [_] => false

/-- the quadratic form `#Y + ω(·, w)` -/
def qW (w : Lt) (i : Nat) (x : V) : Bool := qY x != omP w i x

/-- `TP (r ++ b)` as a function of `b`: `ph` is the position of the first site of `b`; the state of the tail `r` is
`sA = ω(r, A)`, `sB = ω(r, B)`, `sQ = qW r`, `s3 … s6` = "r is the restriction of `0`, `A`, `B`, `A + B`" -/
def trP (A B w : Lt) (ph : Nat) (sA sB sQ s3 s4 s5 s6 : Bool) (b : V) : Bool :=
  !(sA != omP A ph b) && !(sB != omP B ph b) && (sQ != qW w ph b) && !(s3 && isP (spn A B false false) ph b) &&
    !(s4 && isP (spn A B true false) ph b) && !(s5 && isP (spn A B false true) ph b) && !(s6 && isP (spn A B true true) ph b)

/-- the closed form (for strings whose first site is site `i`): commutes with `A` and `B`, `qW = 1`, not in the span -/
def TP (A B w : Lt) (i : Nat) (x : V) : Bool := trP A B w i false false false true true true true x

/-- the zero tail -/
def t0P (A B w : Lt) (ph : Nat) (b : V) : Bool := trP A B w ph false false false true false false false b

/-- targets that do not end in a non-zero block of the span -/
def tpP (A B w : Lt) (ph : Nat) (sA sB sQ s3 s4 s5 s6 : Bool) (p : V) : Bool :=
  trP A B w ph sA sB sQ s3 s4 s5 s6 p && !isP (spn A B true false) ph p && !isP (spn A B false true) ph p &&
    !isP (spn A B true true) ph p

/-- the windows: the last four sites of the chain on five sites -/
def wendP (A B w : Lt) : List V := (allV 8).filter (t0P A B w 1)

/-- the kernel-evaluable check for one phase -/
def chkP (A B w : Lt) (ph : Nat) : Prop :=
  ∀ sA sB sQ s3 s4 s5 s6 : Bool, v7 s3 s4 s5 s6 = true →
    peelChkN (trP A B w ph sA sB sQ s3 s4 s5 s6) (t0P A B w ph) (tpP A B w ph sA sB sQ s3 s4 s5 s6) (wendP A B w) = true

/-! ### the exceptional targets: the choice of `(u, p')` -/

/-- the conditions on the letter `u = (c.1.1, c.1.2)` at a site of phase `i` where the target differs from the span
string by the letter `d = (d1, d2)`, and on the block `p' = c.2` at the last four sites (phase `m`) -/
def condP (A B w : Lt) (i m : Nat) (d1 d2 : Bool) (c : (Bool × Bool) × V) : Bool :=
  ((c.1.1 && d2) != (c.1.2 && d1)) && (c.2.length == 8) &&
  (omP A m c.2 == omP A i [c.1.1, c.1.2]) && (omP B m c.2 == omP B i [c.1.1, c.1.2]) &&
  (qW w m c.2 != qW w i [c.1.1, c.1.2]) &&
  !isP (spn A B false false) m c.2 && !isP (spn A B true false) m c.2 && !isP (spn A B false true) m c.2 &&
  !isP (spn A B true true) m c.2

def chP (A B w : Lt) (i m : Nat) (d1 d2 : Bool) : (Bool × Bool) × V :=
  ((([(true, false), (true, true), (false, true)] : List (Bool × Bool)).flatMap (fun u => (allV 8).map (fun p => (u, p)))).find?
    (condP A B w i m d1 d2)).getD ((false, false), [])

/-- the kernel-evaluable check of the choice -/
def chkCh (A B w : Lt) (P : Nat) : Bool :=
  (List.range P).all (fun i => (List.range P).all (fun m =>
    condP A B w i m true false (chP A B w i m true false) && condP A B w i m false true (chP A B w i m false true) &&
    condP A B w i m true true (chP A B w i m true true)))

end C19
end PauLie
