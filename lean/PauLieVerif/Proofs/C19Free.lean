/-
Helpers for property C19, part 7: the free-fermion families a2, a4, a8, a14 for every chain
length.  Every translated generator is a bilinear of a Majorana family (`Proofs/C19MajSite.lean`):

  a14 (`XX`,`YY`,`XY`): all 2n Majoranas `Z^k X`, `Z^k Y` are linked: closure = all bilinears, so(2n);
  a8  (`XX`,`XZ`): the 2n−1 Majoranas `Y^k Z` (k<n), `Y^k X` (1≤k<n) are linked: so(2n−1);
  a2  (`XY`,`YX`): two mutually commuting paths, on `Z^k Y` and on `Z^k X`: so(n)+so(n);
  a4  (`XX`,`YY`): two mutually commuting paths interleaving both kinds: so(n)+so(n).

The two-block families use the componentwise closure of `Proofs/C19Comp.lean`.  Core Lean only.
-/
import PauLieVerif.Proofs.C19MajSite
import PauLieVerif.Proofs.C19Comp

namespace PauLie
namespace C19
open Closure Comp

/-! ### two mutually commuting paths inside one Majorana family -/

/-- Let `σ`, `τ` be increasing index sequences of length `m` with disjoint ranges in a Majorana
family.  If the members of `G` are exactly the consecutive bilinears along `σ` and along `τ`, then
the closure of `G` is the disjoint union of the two mutually commuting sets of all bilinears along
`σ` and along `τ`, and has `2 · m(m−1)/2` members. -/
theorem two_blocks {n M m : Nat} {w : Nat → V} (h : Maj (2 * n) M w) {σ τ : Nat → Nat}
    (hσ : ∀ i, i < m → σ i < M) (sσ : ∀ i j, i < j → j < m → σ i < σ j)
    (hτ : ∀ i, i < m → τ i < M) (sτ : ∀ i j, i < j → j < m → τ i < τ j)
    (hd : ∀ i j, i < m → j < m → σ i ≠ τ j) {G : List V}
    (hG : ∀ x, x ∈ G ↔ (∃ k, k + 1 < m ∧ x = bil w (σ k) (σ (k + 1))) ∨
      (∃ k, k + 1 < m ∧ x = bil w (τ k) (τ (k + 1)))) :
    (∀ x, Clo G x ↔ (∃ a b, a < b ∧ b < m ∧ x = bil w (σ a) (σ b)) ∨
      (∃ a b, a < b ∧ b < m ∧ x = bil w (τ a) (τ b))) ∧
    (∀ a b c d, a < b → b < m → c < d → d < m →
      omega (bil w (σ a) (σ b)) (bil w (τ c) (τ d)) = false ∧ bil w (σ a) (σ b) ≠ bil w (τ c) (τ d)) ∧
    (closureList G).1.length = m * (m - 1) / 2 + m * (m - 1) / 2 := by
  have inj : ∀ {ρ : Nat → Nat}, (∀ i j, i < j → j < m → ρ i < ρ j) → ∀ i j, i < m → j < m → ρ i = ρ j → i = j := by
    intro ρ hρ i j hi hj e
    rcases Nat.lt_trichotomy i j with hlt | heq | hgt
    · have := hρ i j hlt hj; omega
    · exact heq
    · have := hρ j i hgt hi; omega
  have hMσ : Maj (2 * n) m (fun i => w (σ i)) := h.comp hσ (inj sσ)
  have hMτ : Maj (2 * n) m (fun i => w (τ i)) := h.comp hτ (inj sτ)
  let A : List V := (List.range (m - 1)).map (fun k => bil w (σ k) (σ (k + 1)))
  let B : List V := (List.range (m - 1)).map (fun k => bil w (τ k) (τ (k + 1)))
  have memA : ∀ x, x ∈ A ↔ ∃ k, k + 1 < m ∧ x = bil w (σ k) (σ (k + 1)) := by
    intro x
    simp only [A, List.mem_map, List.mem_range]
    constructor
    · rintro ⟨k, hk, rfl⟩; exact ⟨k, by omega, rfl⟩
    · rintro ⟨k, hk, rfl⟩; exact ⟨k, by omega, rfl⟩
  have memB : ∀ x, x ∈ B ↔ ∃ k, k + 1 < m ∧ x = bil w (τ k) (τ (k + 1)) := by
    intro x
    simp only [B, List.mem_map, List.mem_range]
    constructor
    · rintro ⟨k, hk, rfl⟩; exact ⟨k, by omega, rfl⟩
    · rintro ⟨k, hk, rfl⟩; exact ⟨k, by omega, rfl⟩
  have hA : ∀ g ∈ A, ∃ p q, p < q ∧ q < m ∧ g = bil (fun i => w (σ i)) p q := by
    intro g hg
    obtain ⟨k, hk, rfl⟩ := (memA g).1 hg
    exact ⟨k, k + 1, by omega, hk, rfl⟩
  have hB : ∀ g ∈ B, ∃ p q, p < q ∧ q < m ∧ g = bil (fun i => w (τ i)) p q := by
    intro g hg
    obtain ⟨k, hk, rfl⟩ := (memB g).1 hg
    exact ⟨k, k + 1, by omega, hk, rfl⟩
  have cA : ∀ k, k + 1 < m → Clo A (bil (fun i => w (σ i)) k (k + 1)) :=
    fun k hk => Clo.base ((memA _).2 ⟨k, hk, rfl⟩)
  have cB : ∀ k, k + 1 < m → Clo B (bil (fun i => w (τ i)) k (k + 1)) :=
    fun k hk => Clo.base ((memB _).2 ⟨k, hk, rfl⟩)
  have UA := hMσ.uniform_of hA
  have UB := hMτ.uniform_of hB
  have key : ∀ a b c d, a < b → b < m → c < d → d < m →
      omega (bil w (σ a) (σ b)) (bil w (τ c) (τ d)) = false ∧ bil w (σ a) (σ b) ≠ bil w (τ c) (τ d) := by
    intro a b c d hab hb hcd hd'
    refine ⟨h.omega_bil_disjoint (hσ a (by omega)) (hσ b hb) (hτ c (by omega)) (hτ d hd')
      (hd a c (by omega) (by omega)) (hd a d (by omega) hd') (hd b c hb (by omega)) (hd b d hb hd'), ?_⟩
    intro e
    have := (h.bil_inj (sσ a b hab hb) (hσ b hb) (sτ c d hcd hd') (hτ d hd') e).1
    exact hd a c (by omega) (by omega) this
  have hcomm : Commute A B := by
    intro a ha b hb
    obtain ⟨k, hk, rfl⟩ := (memA a).1 ha
    obtain ⟨j, hj, rfl⟩ := (memB b).1 hb
    exact (key k (k + 1) j (j + 1) (by omega) hk (by omega) hj).1
  have hdis : ∀ x, x ∈ A → x ∉ B := by
    intro x ha hb
    obtain ⟨k, hk, rfl⟩ := (memA x).1 ha
    obtain ⟨j, hj, e⟩ := (memB _).1 hb
    exact (key k (k + 1) j (j + 1) (by omega) hk (by omega) hj).2 e
  have hsame : ∀ x, Clo G x ↔ Clo (A ++ B) x := by
    intro x
    constructor
    · exact clo_mono (fun g hg => by rw [List.mem_append, memA, memB]; exact (hG g).1 hg)
    · exact clo_mono (fun g hg => by rw [List.mem_append, memA, memB] at hg; exact (hG g).2 hg)
  have UG : Uniform n G := by
    intro g hg
    rcases (hG g).1 hg with ⟨k, hk, rfl⟩ | ⟨k, hk, rfl⟩
    · exact h.length_bil (hσ k (by omega)) (hσ (k + 1) hk)
    · exact h.length_bil (hτ k (by omega)) (hτ (k + 1) hk)
  refine ⟨fun x => ?_, key, ?_⟩
  · rw [hsame x, clo_append UA UB hcomm, hMσ.clo_maj hA cA, hMτ.clo_maj hB cB]
    rfl
  · rw [card_clo_congr UG (uniform_append UA UB) hsame, card_clo_append UA UB hcomm hdis,
      hMσ.card_clo_maj hA cA, hMτ.card_clo_maj hB cB]

/-! ### a14 (`XX`, `YY`, `XY`): so(2n) -/

def gensA14 : List V := [vXX, vYY, vXY]

theorem a14_gens {n : Nat} : ∀ g ∈ klocalV n gensA14, ∃ p q, p < q ∧ q < 2 * n ∧ g = bil (mZ n) p q := by
  intro g hg
  obtain ⟨g0, hg0, k, hk, rfl⟩ := mem_klocalV.1 hg
  simp only [gensA14, List.mem_cons, List.not_mem_nil, or_false] at hg0
  rcases hg0 with rfl | rfl | rfl
  · exact ⟨2 * k + 1, 2 * k + 2, by omega, by omega, shiftV_XX_mZ (by omega)⟩
  · exact ⟨2 * k, 2 * k + 3, by omega, by omega, shiftV_YY_mZ (by omega)⟩
  · exact ⟨2 * k + 1, 2 * k + 3, by omega, by omega, shiftV_XY_mZ (by omega)⟩

theorem a14_cons {n : Nat} (hn : 2 ≤ n) :
    ∀ j, j + 1 < 2 * n → Clo (klocalV n gensA14) (bil (mZ n) j (j + 1)) := by
  intro j hj
  have hM := maj_mZ n
  have base : ∀ (g : V) (k : Nat), g ∈ gensA14 → k + 1 < n → Clo (klocalV n gensA14) (shiftV n k g) :=
    fun g k hg hk => Clo.base (mem_klocalV.2 ⟨g, hg, k, by omega, rfl⟩)
  obtain ⟨k, rfl | rfl⟩ : ∃ k, j = 2 * k ∨ j = 2 * k + 1 := ⟨j / 2, by omega⟩
  · -- `Z_k`
    cases k with
    | zero =>
      -- `YY_0 · XY_0`
      have c1 := base vYY 0 (by simp [gensA14]) (by omega)
      have c2 := base vXY 0 (by simp [gensA14]) (by omega)
      rw [shiftV_YY_mZ (by omega), bil_comm] at c1
      rw [shiftV_XY_mZ (by omega), bil_comm] at c2
      exact hM.clo_share (p := 3) (a := 0) (b := 1) (by omega) (by omega) (by omega) (by omega) (by omega)
        (by omega) c1 c2
    | succ k =>
      -- `XX_k · XY_k` gives `Z_(k+1)`
      have c1 := base vXX k (by simp [gensA14]) (by omega)
      have c2 := base vXY k (by simp [gensA14]) (by omega)
      rw [shiftV_XX_mZ (by omega)] at c1
      rw [shiftV_XY_mZ (by omega)] at c2
      have := hM.clo_share (p := 2 * k + 1) (a := 2 * k + 2) (b := 2 * k + 3) (by omega) (by omega) (by omega)
        (by omega) (by omega) (by omega) c1 c2
      rw [show 2 * (k + 1) = 2 * k + 2 by omega]
      exact this
  · have c1 := base vXX k (by simp [gensA14]) (by omega)
    rw [shiftV_XX_mZ (by omega)] at c1
    exact c1

/-- **a14**: the closure of the translates of `XX`, `YY`, `XY` is the set of all bilinears of the
2n Jordan–Wigner Majoranas -/
theorem clo_a14 {n : Nat} (hn : 2 ≤ n) (x : V) :
    Clo (klocalV n gensA14) x ↔ ∃ a b, a < b ∧ b < 2 * n ∧ x = bil (mZ n) a b :=
  (maj_mZ n).clo_maj a14_gens (a14_cons hn) x

theorem card_clo_a14 {n : Nat} (hn : 2 ≤ n) :
    (closureList (klocalV n gensA14)).1.length = 2 * n * (2 * n - 1) / 2 :=
  (maj_mZ n).card_clo_maj a14_gens (a14_cons hn)

/-! ### a8 (`XX`, `XZ`): so(2n−1) -/

def gensA8 : List V := [vXX, vXZ]

/-- the 2n−1 Majoranas `Y^0 Z, Y^1 X, Y^1 Z, …` (all of `mY n` but the first) -/
def mY' (n : Nat) : Nat → V := fun i => mY n (i + 1)

theorem maj_mY' (n : Nat) : Maj (2 * n) (2 * n - 1) (mY' n) :=
  (maj_mY n).comp (σ := fun i => i + 1) (fun i hi => by omega) (fun i j _ _ e => by omega)

theorem bil_mY' (n a b : Nat) : bil (mY' n) a b = bil (mY n) (a + 1) (b + 1) := rfl

theorem a8_gens {n : Nat} : ∀ g ∈ klocalV n gensA8, ∃ p q, p < q ∧ q < 2 * n - 1 ∧ g = bil (mY' n) p q := by
  intro g hg
  obtain ⟨g0, hg0, k, hk, rfl⟩ := mem_klocalV.1 hg
  simp only [gensA8, List.mem_cons, List.not_mem_nil, or_false] at hg0
  rcases hg0 with rfl | rfl
  · exact ⟨2 * k, 2 * k + 1, by omega, by omega, shiftV_XX_mY (by omega)⟩
  · exact ⟨2 * k, 2 * k + 2, by omega, by omega, shiftV_XZ_mY (by omega)⟩

theorem a8_cons {n : Nat} :
    ∀ j, j + 1 < 2 * n - 1 → Clo (klocalV n gensA8) (bil (mY' n) j (j + 1)) := by
  intro j hj
  have hM := maj_mY' n
  have base : ∀ (g : V) (k : Nat), g ∈ gensA8 → k + 1 < n → Clo (klocalV n gensA8) (shiftV n k g) :=
    fun g k hg hk => Clo.base (mem_klocalV.2 ⟨g, hg, k, by omega, rfl⟩)
  obtain ⟨k, rfl | rfl⟩ : ∃ k, j = 2 * k ∨ j = 2 * k + 1 := ⟨j / 2, by omega⟩
  · have c1 := base vXX k (by simp [gensA8]) (by omega)
    rw [shiftV_XX_mY (by omega)] at c1
    exact c1
  · -- `XX_k · XZ_k = Y_(k+1)`
    have c1 : Clo (klocalV n gensA8) (bil (mY' n) (2 * k) (2 * k + 1)) := by
      have := base vXX k (by simp [gensA8]) (by omega)
      rw [shiftV_XX_mY (by omega)] at this
      exact this
    have c2 : Clo (klocalV n gensA8) (bil (mY' n) (2 * k) (2 * k + 2)) := by
      have := base vXZ k (by simp [gensA8]) (by omega)
      rw [shiftV_XZ_mY (by omega)] at this
      exact this
    exact hM.clo_share (p := 2 * k) (a := 2 * k + 1) (b := 2 * k + 2) (by omega) (by omega) (by omega) (by omega)
      (by omega) (by omega) c1 c2

/-- **a8**: the closure of the translates of `XX`, `XZ` is the set of all bilinears of 2n−1
Majoranas -/
theorem clo_a8 {n : Nat} (x : V) :
    Clo (klocalV n gensA8) x ↔ ∃ a b, a < b ∧ b < 2 * n - 1 ∧ x = bil (mY' n) a b :=
  (maj_mY' n).clo_maj a8_gens a8_cons x

theorem card_clo_a8 {n : Nat} :
    (closureList (klocalV n gensA8)).1.length = (2 * n - 1) * (2 * n - 1 - 1) / 2 :=
  (maj_mY' n).card_clo_maj a8_gens a8_cons

/-! ### a2 (`XY`, `YX`): two commuting paths, so(n)+so(n) -/

def gensA2 : List V := [vXY, vYX]

theorem a2_mem {n : Nat} (x : V) : x ∈ klocalV n gensA2 ↔
    (∃ k, k + 1 < n ∧ x = bil (mZ n) (2 * k + 1) (2 * (k + 1) + 1)) ∨
    (∃ k, k + 1 < n ∧ x = bil (mZ n) (2 * k) (2 * (k + 1))) := by
  rw [mem_klocalV]
  constructor
  · rintro ⟨g0, hg0, k, hk, rfl⟩
    simp only [gensA2, List.mem_cons, List.not_mem_nil, or_false] at hg0
    rcases hg0 with rfl | rfl
    · exact Or.inl ⟨k, by omega, shiftV_XY_mZ (by omega)⟩
    · exact Or.inr ⟨k, by omega, shiftV_YX_mZ (by omega)⟩
  · rintro (⟨k, hk, rfl⟩ | ⟨k, hk, rfl⟩)
    · exact ⟨vXY, by simp [gensA2], k, by omega, (shiftV_XY_mZ (by omega)).symm⟩
    · exact ⟨vYX, by simp [gensA2], k, by omega, (shiftV_YX_mZ (by omega)).symm⟩

/-- **a2**: closure = bilinears of the `Z^k Y` ∪ bilinears of the `Z^k X`; the two blocks commute and
are disjoint; n(n−1) members -/
theorem blocks_a2 (n : Nat) :
    (∀ x, Clo (klocalV n gensA2) x ↔
      (∃ a b, a < b ∧ b < n ∧ x = bil (mZ n) (2 * a + 1) (2 * b + 1)) ∨
      (∃ a b, a < b ∧ b < n ∧ x = bil (mZ n) (2 * a) (2 * b))) ∧
    (∀ a b c d, a < b → b < n → c < d → d < n →
      omega (bil (mZ n) (2 * a + 1) (2 * b + 1)) (bil (mZ n) (2 * c) (2 * d)) = false ∧
      bil (mZ n) (2 * a + 1) (2 * b + 1) ≠ bil (mZ n) (2 * c) (2 * d)) ∧
    (closureList (klocalV n gensA2)).1.length = n * (n - 1) / 2 + n * (n - 1) / 2 :=
  two_blocks (maj_mZ n) (σ := fun i => 2 * i + 1) (τ := fun i => 2 * i) (m := n)
    (fun i hi => by omega) (fun i j hij _ => by omega) (fun i hi => by omega) (fun i j hij _ => by omega)
    (fun i j _ _ => by omega) a2_mem

/-! ### a4 (`XX`, `YY`): two commuting paths, so(n)+so(n) -/

def gensA4 : List V := [vXX, vYY]

/-- first path: `XX_0, YY_1, XX_2, …` on the Majoranas `1, 2, 5, 6, 9, …` -/
def sA4 (k : Nat) : Nat := if k % 2 = 0 then 2 * k + 1 else 2 * k
/-- second path: `YY_0, XX_1, YY_2, …` on the Majoranas `0, 3, 4, 7, 8, …` -/
def tA4 (k : Nat) : Nat := if k % 2 = 0 then 2 * k else 2 * k + 1

theorem sA4_succ (k : Nat) : (k % 2 = 0 ∧ sA4 k = 2 * k + 1 ∧ sA4 (k + 1) = 2 * k + 2) ∨
    (k % 2 = 1 ∧ sA4 k = 2 * k ∧ sA4 (k + 1) = 2 * k + 3) := by
  unfold sA4
  by_cases h : k % 2 = 0
  · have : (k + 1) % 2 ≠ 0 := by omega
    simp [h, this]; omega
  · have : (k + 1) % 2 = 0 := by omega
    simp [h, this]; omega

theorem tA4_succ (k : Nat) : (k % 2 = 0 ∧ tA4 k = 2 * k ∧ tA4 (k + 1) = 2 * k + 3) ∨
    (k % 2 = 1 ∧ tA4 k = 2 * k + 1 ∧ tA4 (k + 1) = 2 * k + 2) := by
  unfold tA4
  by_cases h : k % 2 = 0
  · have : (k + 1) % 2 ≠ 0 := by omega
    simp [h, this]; omega
  · have : (k + 1) % 2 = 0 := by omega
    simp [h, this]; omega

theorem sA4_bounds (k : Nat) : 2 * k ≤ sA4 k ∧ sA4 k ≤ 2 * k + 1 ∧ (sA4 k = 2 * k ↔ k % 2 = 1) := by
  unfold sA4; split <;> omega

theorem tA4_bounds (k : Nat) : 2 * k ≤ tA4 k ∧ tA4 k ≤ 2 * k + 1 ∧ (tA4 k = 2 * k ↔ k % 2 = 0) := by
  unfold tA4; split <;> omega

theorem a4_mem {n : Nat} (x : V) : x ∈ klocalV n gensA4 ↔
    (∃ k, k + 1 < n ∧ x = bil (mZ n) (sA4 k) (sA4 (k + 1))) ∨
    (∃ k, k + 1 < n ∧ x = bil (mZ n) (tA4 k) (tA4 (k + 1))) := by
  rw [mem_klocalV]
  constructor
  · rintro ⟨g0, hg0, k, hk, rfl⟩
    simp only [gensA4, List.mem_cons, List.not_mem_nil, or_false] at hg0
    rcases hg0 with rfl | rfl
    · -- `XX_k`: on the first path for even k, on the second for odd k
      rcases sA4_succ k with ⟨hp, e1, e2⟩ | ⟨hp, _, _⟩
      · exact Or.inl ⟨k, by omega, by rw [e1, e2]; exact shiftV_XX_mZ (by omega)⟩
      · rcases tA4_succ k with ⟨hp', _, _⟩ | ⟨_, e1, e2⟩
        · omega
        · exact Or.inr ⟨k, by omega, by rw [e1, e2]; exact shiftV_XX_mZ (by omega)⟩
    · rcases sA4_succ k with ⟨hp, _, _⟩ | ⟨hp, e1, e2⟩
      · rcases tA4_succ k with ⟨_, e1, e2⟩ | ⟨hp', _, _⟩
        · exact Or.inr ⟨k, by omega, by rw [e1, e2]; exact shiftV_YY_mZ (by omega)⟩
        · omega
      · exact Or.inl ⟨k, by omega, by rw [e1, e2]; exact shiftV_YY_mZ (by omega)⟩
  · rintro (⟨k, hk, rfl⟩ | ⟨k, hk, rfl⟩)
    · rcases sA4_succ k with ⟨_, e1, e2⟩ | ⟨_, e1, e2⟩
      · exact ⟨vXX, by simp [gensA4], k, by omega, by rw [e1, e2]; exact (shiftV_XX_mZ (by omega)).symm⟩
      · exact ⟨vYY, by simp [gensA4], k, by omega, by rw [e1, e2]; exact (shiftV_YY_mZ (by omega)).symm⟩
    · rcases tA4_succ k with ⟨_, e1, e2⟩ | ⟨_, e1, e2⟩
      · exact ⟨vYY, by simp [gensA4], k, by omega, by rw [e1, e2]; exact (shiftV_YY_mZ (by omega)).symm⟩
      · exact ⟨vXX, by simp [gensA4], k, by omega, by rw [e1, e2]; exact (shiftV_XX_mZ (by omega)).symm⟩

/-- **a4**: closure = bilinears along `1,2,5,6,…` ∪ bilinears along `0,3,4,7,…`; the two blocks
commute and are disjoint; n(n−1) members -/
theorem blocks_a4 (n : Nat) :
    (∀ x, Clo (klocalV n gensA4) x ↔
      (∃ a b, a < b ∧ b < n ∧ x = bil (mZ n) (sA4 a) (sA4 b)) ∨
      (∃ a b, a < b ∧ b < n ∧ x = bil (mZ n) (tA4 a) (tA4 b))) ∧
    (∀ a b c d, a < b → b < n → c < d → d < n →
      omega (bil (mZ n) (sA4 a) (sA4 b)) (bil (mZ n) (tA4 c) (tA4 d)) = false ∧
      bil (mZ n) (sA4 a) (sA4 b) ≠ bil (mZ n) (tA4 c) (tA4 d)) ∧
    (closureList (klocalV n gensA4)).1.length = n * (n - 1) / 2 + n * (n - 1) / 2 :=
  two_blocks (maj_mZ n) (σ := sA4) (τ := tA4) (m := n)
    (fun i hi => by have := sA4_bounds i; omega)
    (fun i j hij _ => by have := sA4_bounds i; have := sA4_bounds j; omega)
    (fun i hi => by have := tA4_bounds i; omega)
    (fun i j hij _ => by have := tA4_bounds i; have := tA4_bounds j; omega)
    (fun i j _ _ => by have := sA4_bounds i; have := tA4_bounds j; omega) a4_mem

end C19
end PauLie
