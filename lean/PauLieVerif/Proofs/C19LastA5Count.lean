/-
Helpers for property C19, part 34: the number of strings in the closed form of a5 is the dimension of the row `_a5(n)`
for every n ≥ 3 (period 6).

`8·|{x : ω(x,A) = ω(x,B) = 0, #Y odd}| = 4^n + e·2^n` with `e = −4, −2, 0, 2, 0, −2` for `n ≡ 0, …, 5 (mod 6)`
(`cnt_a5`, from the transfer table `tab5`); two non-zero members of the span satisfy the three conditions when
`n ≡ 2, 4 (mod 6)`, none otherwise (`exc5`).
-/
import PauLieVerif.Proofs.C19LastA5
import PauLieVerif.Proofs.C19LastCount

namespace PauLie
namespace C19
open Closure Graph C01Star C03

def tab5 : List (List Int) :=
  [[4, -4, 0, 0, 0, 0, 0, 0], [2, -2, 2, -2, -2, 2, 2, -2], [0, 0, 0, 0, 0, 0, 4, -4], [-2, 2, 2, -2, 2, -2, 2, -2],
   [0, 0, 0, 0, 4, -4, 0, 0], [2, -2, 2, -2, 2, -2, -2, 2]]

/-- `E5 (m mod 6) s = (8·cntS m s − 4^m) / 2^m` -/
def E5 (r : Nat) (sA sB sQ : Bool) : Int :=
  (tab5.getD r []).getD ((if sA then 4 else 0) + (if sB then 2 else 0) + (if sQ then 1 else 0)) 0

def G5tf (r : Nat) : Bool × Bool × Bool :=
  [(false, false, false), (false, true, false), (false, false, true), (false, true, true), (false, false, true),
   (false, true, false)].getD r (false, false, false)
def G5ft (r : Nat) : Bool × Bool × Bool :=
  [(false, false, false), (true, false, true), (false, false, true), (true, false, true), (false, false, false),
   (true, false, false)].getD r (false, false, false)
def G5tt (r : Nat) : Bool × Bool × Bool :=
  [(false, false, false), (true, true, false), (false, false, false), (true, true, true), (false, false, true),
   (true, true, true)].getD r (false, false, false)

theorem per6_a5A : PerP 6 a5A := by intro i; simp only [a5A]; rw [show (i + 6) % 3 = i % 3 by omega]
theorem per6_a5B : PerP 6 a5B := by intro i; simp only [a5B]; rw [show (i + 6) % 3 = i % 3 by omega]
theorem per6_a5W : PerP 6 a5W := by intro i; rfl

theorem cnt_a5 : ∀ m, 1 ≤ m → ∀ sA sB sQ, (8 * (cntS a5A a5B a5W m sA sB sQ : Int)) = 4 ^ m + E5 (m % 6) sA sB sQ * 2 ^ m :=
  cntS_closed a5A a5B a5W (L := 6) (by omega) per6_a5A per6_a5B per6_a5W E5 (by decide +kernel) (by decide +kernel)

theorem st5tf : ∀ n, stP a5A a5B a5W true false n = G5tf (n % 6) :=
  stP_closed a5A a5B a5W (L := 6) (by omega) per6_a5A per6_a5B per6_a5W true false G5tf rfl (by decide +kernel)
theorem st5ft : ∀ n, stP a5A a5B a5W false true n = G5ft (n % 6) :=
  stP_closed a5A a5B a5W (L := 6) (by omega) per6_a5A per6_a5B per6_a5W false true G5ft rfl (by decide +kernel)
theorem st5tt : ∀ n, stP a5A a5B a5W true true n = G5tt (n % 6) :=
  stP_closed a5A a5B a5W (L := 6) (by omega) per6_a5A per6_a5B per6_a5W true true G5tt rfl (by decide +kernel)

/-- the number of excluded members of the span -/
def exc5 (r : Nat) : Nat := indS (G5tf r) + indS (G5ft r) + indS (G5tt r)

/-- `8·(|T5| + exc) = 4^n + e·2^n` -/
theorem count_T5_key (n : Nat) (hn : 1 ≤ n) :
    (8 * ((((allV (2 * n)).filter T5).length + exc5 (n % 6) : Nat) : Int)) = 4 ^ n + E5 (n % 6) false false true * 2 ^ n := by
  obtain ⟨j, rfl⟩ : ∃ j, n = j + 1 := ⟨n - 1, by omega⟩
  have hc := count_TP a5A a5B a5W noId_a5 j
  rw [length_exc, st5tf, st5ft, st5tt] at hc
  rw [← cnt_a5 (j + 1) hn false false true, ← hc]
  rfl

open TwoLocal Classify in
/-- **|T5| is the dimension of the row of a5**, every n ≥ 3 -/
theorem count_T5 (n : Nat) (hn : 3 ≤ n) : ∃ nm, TwoLocal.a5 n = some nm ∧ ((allV (2 * n)).filter T5).length = dimOfName nm := by
  obtain ⟨j, rfl⟩ : ∃ j, n = j + 2 := ⟨n - 2, by omega⟩
  have key := count_T5_key (j + 2) (by omega)
  have hX : (4 : Int) ^ (j + 2) = 16 * ((4 ^ j : Nat) : Int) := by push_cast; ring
  have hY : (2 : Int) ^ (j + 2) = 4 * ((2 ^ j : Nat) : Int) := by push_cast; ring
  have p4 : 1 ≤ 4 ^ j := Nat.pow_pos (by omega)
  have p2 : 1 ≤ 2 ^ j := Nat.pow_pos (by omega)
  have d1 := dimOfName_so_pow (j + 1)
  have d2 := dimOfName_so_pow j
  have d3 := dimOfName_so4 j
  have d4 := dimOfName_su2 j
  have d5 := dimOfName_sp_pow j
  have q2 : 2 ^ (j + 1) = 2 * 2 ^ j := by rw [Nat.pow_succ]; omega
  have q4 : 4 ^ (j + 1) = 4 * 4 ^ j := by rw [Nat.pow_succ]; omega
  rw [hX, hY] at key
  have hr : (j + 2) % 6 = 0 ∨ (j + 2) % 6 = 1 ∨ (j + 2) % 6 = 2 ∨ (j + 2) % 6 = 3 ∨ (j + 2) % 6 = 4 ∨ (j + 2) % 6 = 5 := by omega
  rcases hr with h | h | h | h | h | h <;> rw [h] at key
  · refine ⟨[so (2 ^ j) 4], by simp [TwoLocal.a5, h], ?_⟩
    have e1 : E5 0 false false true = -4 := by decide
    have e2 : exc5 0 = 0 := by decide
    rw [e1, e2] at key
    omega
  · refine ⟨[so (2 ^ (j + 1))], by simp [TwoLocal.a5, h], ?_⟩
    have e1 : E5 1 false false true = -2 := by decide
    have e2 : exc5 1 = 0 := by decide
    rw [e1, e2] at key
    omega
  · refine ⟨[su (2 ^ j) 2], by simp [TwoLocal.a5, h], ?_⟩
    have e1 : E5 2 false false true = 0 := by decide
    have e2 : exc5 2 = 2 := by decide
    rw [e1, e2] at key
    omega
  · refine ⟨[sp (2 ^ j)], by simp [TwoLocal.a5, h], ?_⟩
    have e1 : E5 3 false false true = 2 := by decide
    have e2 : exc5 3 = 0 := by decide
    rw [e1, e2] at key
    omega
  · refine ⟨[su (2 ^ j) 2], by simp [TwoLocal.a5, h], ?_⟩
    have e1 : E5 4 false false true = 0 := by decide
    have e2 : exc5 4 = 2 := by decide
    rw [e1, e2] at key
    omega
  · refine ⟨[so (2 ^ (j + 1))], by simp [TwoLocal.a5, h], ?_⟩
    have e1 : E5 5 false false true = -2 := by decide
    have e2 : exc5 5 = 0 := by decide
    rw [e1, e2] at key
    omega

end C19
end PauLie
