/-
Property C02: soundness of the certificate checks of the guarded model (`Model/MorphG.lean`).
Each executable check implies the hypothesis of the corresponding closure lemma of
`Proofs/C02Spec.lean` on the bit lists of the strings involved.
-/
import PauLieVerif.Proofs.C02Spec
import PauLieVerif.Proofs.Bridge
import PauLieVerif.Model.MorphG

namespace PauLie
namespace C02
open Closure Morph MorphG

/-- the bit lists of a list of strings -/
def bitsOf (l : List PS) : List V := l.map (·.bits)

@[simp] theorem bitsOf_nil : bitsOf [] = [] := rfl
@[simp] theorem bitsOf_cons (a : PS) (l : List PS) : bitsOf (a :: l) = a.bits :: bitsOf l := rfl
@[simp] theorem bitsOf_append (a b : List PS) : bitsOf (a ++ b) = bitsOf a ++ bitsOf b := by
  simp [bitsOf]

theorem mem_bitsOf {l : List PS} {x : V} : x ∈ bitsOf l ↔ ∃ q ∈ l, q.bits = x := by
  simp [bitsOf]

theorem mem_iff (l : List PS) (p : PS) : mem l p = true ↔ p.bits ∈ bitsOf l := by
  unfold mem
  rw [C14.containsPS_iff_bits, mem_bitsOf]

theorem xorB_eq_add (a b : List Bool) : xorB a b = add a b := (Bridge.add_eq_zipWith a b).symm

theorem beq_iff (p q : PS) : p.beq q = true ↔ p.bits = q.bits := by
  unfold PS.beq; exact beq_iff_eq

theorem sameMembers_iff {a b : List PS} (h : sameMembers a b = true) (x : V) :
    x ∈ bitsOf a ↔ x ∈ bitsOf b := by
  unfold sameMembers at h
  rw [Bool.and_eq_true, List.all_eq_true, List.all_eq_true] at h
  constructor
  · intro hx
    obtain ⟨q, hq, rfl⟩ := mem_bitsOf.1 hx
    exact (mem_iff b q).1 (h.1 q hq)
  · intro hx
    obtain ⟨q, hq, rfl⟩ := mem_bitsOf.1 hx
    exact (mem_iff a q).1 (h.2 q hq)

theorem isCand_iff {g : Ghost} {p : PS} (h : isCand g p = true) :
    ∃ c, g.cand = some c ∧ c.bits = p.bits := by
  unfold isCand at h
  cases hc : g.cand with
  | none => rw [hc] at h; cases h
  | some c => rw [hc] at h; exact ⟨c, rfl, (beq_iff c p).1 h⟩

/-! ### connectivity -/

theorem reachLoop_sound (vs : List PS) (p : PS) : ∀ (k : Nat) (seen : List PS),
    (∀ u ∈ seen, Reach (bitsOf vs) p.bits u.bits) →
    ∀ u ∈ reachLoop vs k seen, Reach (bitsOf vs) p.bits u.bits
  | 0, seen, h => by simpa [reachLoop] using h
  | k + 1, seen, h => by
    rw [reachLoop]
    apply reachLoop_sound vs p k
    intro u hu
    rcases List.mem_append.1 hu with hu | hu
    · exact h u hu
    · rw [List.mem_filter, Bool.and_eq_true, List.any_eq_true] at hu
      obtain ⟨huv, _, r, hr, hru⟩ := hu
      exact Reach.step (h r hr) (mem_bitsOf.2 ⟨u, huv, rfl⟩) hru

theorem connectedFrom_sound {vs : List PS} {p : PS} (h : connectedFrom vs p = true) :
    ∀ g ∈ bitsOf vs, Reach (bitsOf vs) p.bits g := by
  intro g hg
  obtain ⟨u, hu, rfl⟩ := mem_bitsOf.1 hg
  unfold connectedFrom at h
  rw [List.all_eq_true] at h
  obtain ⟨w, hw, hwu⟩ := mem_bitsOf.1 ((mem_iff _ u).1 (h u hu))
  rw [← hwu]
  exact reachLoop_sound vs p vs.length [p] (by
    intro x hx
    rw [List.mem_singleton] at hx
    subst hx
    exact Reach.base) w hw

/-- what `twistOk` establishes -/
theorem twistOk_sound {vs : List PS} {z : V} {p q : PS} (h : twistOk vs z p q = true) :
    p.bits ∈ bitsOf vs ∧ add p.bits z ∈ bitsOf vs ∧
    (∀ g ∈ bitsOf vs, omega z g = false ∧ g.length = z.length) ∧
    (∀ g ∈ bitsOf vs, Reach (bitsOf vs) p.bits g) := by
  unfold twistOk at h
  simp only [Bool.and_eq_true, List.all_eq_true, beq_iff_eq, Bool.not_eq_true'] at h
  obtain ⟨⟨⟨⟨hp, hq⟩, hz⟩, hall⟩, hc⟩ := h
  have hp' := (mem_iff _ _).1 hp
  have hq' := (mem_iff _ _).1 hq
  have hall' : ∀ g ∈ bitsOf vs, omega z g = false ∧ g.length = z.length := by
    intro g hg
    obtain ⟨u, hu, rfl⟩ := mem_bitsOf.1 hg
    exact hall u hu
  refine ⟨hp', ?_, hall', connectedFrom_sound hc⟩
  rw [← hz, xorB_eq_add, add_add_cancel_left]
  · exact hq'
  · rw [(hall' _ hp').2, (hall' _ hq').2]

/-- `replace`: the vertex list `vs` becomes `vs'`; any further members `R` are untouched -/
theorem replaceOk_sound {n : Nat} {vs vs' : List PS} {v vNew : PS} (R : List V)
    (hlen : ∀ b ∈ bitsOf vs, b.length = 2 * n)
    (h : replaceOk vs vs' v vNew = true) :
    CloEq (bitsOf vs ++ R) (bitsOf vs' ++ R) ∧ (∀ b ∈ bitsOf vs', b.length = 2 * n) := by
  unfold replaceOk at h
  simp only at h
  split at h
  · cases h
  · rename_i p q _
    simp only [Bool.and_eq_true, List.all_eq_true, Bool.or_eq_true, beq_iff_eq] at h
    obtain ⟨⟨⟨⟨⟨⟨⟨ht, ht'⟩, hv⟩, hvN⟩, heN⟩, heV⟩, hsub'⟩, hsub⟩ := h
    obtain ⟨hpA, hqA, hallA, hcA⟩ := twistOk_sound ht
    obtain ⟨hpB, hqB, hallB, hcB⟩ := twistOk_sound ht'
    have hz : (xorB v.bits vNew.bits).length = 2 * n := by
      rw [← (hallA _ hpA).2]; exact hlen _ hpA
    have hlen' : ∀ b ∈ bitsOf vs', b.length = 2 * n := by
      intro b hb; rw [(hallB b hb).2]; exact hz
    refine ⟨?_, hlen'⟩
    have hv' := (mem_iff _ _).1 hv
    have hvN' := (mem_iff _ _).1 hvN
    apply cloEq_twist_replace (n := n) hlen hlen' hz
      (fun g hg => (hallA g hg).1) hpA hqA hcA (fun g hg => (hallB g hg).1) hpB hqB hcB
    · intro g hg
      obtain ⟨u, hu, rfl⟩ := mem_bitsOf.1 hg
      rcases hsub' u hu with h1 | h1
      · exact Or.inl ((mem_iff _ _).1 h1)
      · exact Or.inr ⟨v.bits, hv', ((beq_iff _ _).1 h1).trans (heN.trans (xorB_eq_add _ _))⟩
    · intro g hg
      obtain ⟨u, hu, rfl⟩ := mem_bitsOf.1 hg
      rcases hsub u hu with h1 | h1
      · exact Or.inl ((mem_iff _ _).1 h1)
      · exact Or.inr ⟨vNew.bits, hvN', ((beq_iff _ _).1 h1).trans (heV.trans (xorB_eq_add _ _))⟩

/-! ### dependency certificates -/

theorem tripleOk_sound {n : Nat} {vs : List PS} {a b d : PS}
    (hlen : ∀ x ∈ bitsOf vs, x.length = 2 * n)
    (ha : a.bits ∈ bitsOf vs) (hb : b.bits ∈ bitsOf vs) (hd : d.bits ∈ bitsOf vs)
    (h : tripleOk vs a b d = true) : Clo (bitsOf vs) (add a.bits (add b.bits d.bits)) := by
  have la := hlen _ ha
  have lb := hlen _ hb
  have ld := hlen _ hd
  unfold tripleOk om at h
  simp only [Bool.or_eq_true, Bool.and_eq_true, Bool.not_eq_true', List.any_eq_true] at h
  rcases h with ((h | h) | h) | h
  · have := clo_triple_chain hlen ha hb hd h.1 h.2
    rwa [add_assoc] at this
  · have := clo_triple_chain hlen ha hd hb h.1 h.2
    rwa [add_assoc, add_comm d.bits b.bits] at this
  · have := clo_triple_chain hlen hb hd ha h.1 h.2
    rwa [add_comm] at this
  · obtain ⟨⟨⟨hab, had⟩, hbd⟩, c, hc, ⟨hac, hbc⟩, hdc⟩ := h
    exact clo_triple_star hlen ha hb hd (mem_bitsOf.2 ⟨c, hc, rfl⟩) hab had hbd hac hbc hdc

theorem tripleCert_sound {n : Nat} {vs : List PS} {x : PS}
    (hlen : ∀ x ∈ bitsOf vs, x.length = 2 * n) (h : tripleCert vs x = true) :
    Clo (bitsOf vs) x.bits := by
  unfold tripleCert at h
  simp only [List.any_eq_true, Bool.and_eq_true, beq_iff_eq] at h
  obtain ⟨a, ha, b, hb, d, hd, hx, hok⟩ := h
  rw [hx, xorB_eq_add, xorB_eq_add]
  exact tripleOk_sound hlen (mem_bitsOf.2 ⟨a, ha, rfl⟩) (mem_bitsOf.2 ⟨b, hb, rfl⟩)
    (mem_bitsOf.2 ⟨d, hd, rfl⟩) hok

theorem prodBits_eq : ∀ (l : List PS), prodBits l = C03.prodV (bitsOf l)
  | [] => rfl
  | [_] => rfl
  | a :: b :: t => by
    show xorB a.bits (prodBits (b :: t)) = _
    rw [bitsOf_cons, bitsOf_cons, C03.prodV_cons2, ← bitsOf_cons, ← prodBits_eq (b :: t), xorB_eq_add]

theorem pairwiseComm_sound : ∀ (l : List PS), pairwiseComm l = true →
    (bitsOf l).Pairwise (fun a b => omega a b = false)
  | [], _ => List.Pairwise.nil
  | a :: t, h => by
    rw [pairwiseComm, Bool.and_eq_true, List.all_eq_true] at h
    rw [bitsOf_cons, List.pairwise_cons]
    refine ⟨?_, pairwiseComm_sound t h.2⟩
    intro y hy
    obtain ⟨u, hu, rfl⟩ := mem_bitsOf.1 hy
    have := h.1 u hu
    simpa [om] using this

theorem oddProductOk_sound {n : Nat} {vs : List PS} {c : PS} {sub : List PS} {x : PS}
    (hlen : ∀ x ∈ bitsOf vs, x.length = 2 * n) (h : oddProductOk vs c sub x = true) :
    Clo (bitsOf vs) x.bits := by
  unfold oddProductOk at h
  simp only [Bool.and_eq_true, beq_iff_eq, List.all_eq_true] at h
  obtain ⟨⟨⟨⟨hodd, hprod⟩, hc⟩, hall⟩, hpw⟩ := h
  rw [← hprod, prodBits_eq]
  apply clo_odd_prod hlen ((mem_iff _ _).1 hc) (bitsOf sub)
  · simpa [bitsOf] using hodd
  · intro s hs
    obtain ⟨u, hu, rfl⟩ := mem_bitsOf.1 hs
    exact ⟨(mem_iff _ _).1 (hall u hu).1, (hall u hu).2⟩
  · exact pairwiseComm_sound sub hpw

/-- `memberCert`: the string is generated by the vertices on the legs -/
theorem memberCert_sound {n : Nat} {legs : List (List PS)} {x : PS}
    (hlen : ∀ b ∈ bitsOf legs.flatten, b.length = 2 * n) (h : memberCert legs x = true) :
    Clo (bitsOf legs.flatten) x.bits := by
  unfold memberCert at h
  simp only [Bool.or_eq_true] at h
  rcases h with (h | h) | h
  · exact Clo.base ((mem_iff _ _).1 h)
  · exact tripleCert_sound hlen h
  · split at h
    · exact oddProductOk_sound hlen h
    · cases h

/-- step VI: `lam = x·a·b` through a generated `x` -/
theorem starTripleCert_sound {n : Nat} {vs : List PS} {x lam : PS}
    (hlen : ∀ b ∈ bitsOf vs, b.length = 2 * n) (hx : Clo (bitsOf vs) x.bits)
    (h : starTripleCert vs x lam = true) : Clo (bitsOf vs) lam.bits := by
  unfold starTripleCert om at h
  simp only [List.any_eq_true, Bool.and_eq_true, beq_iff_eq, Bool.not_eq_true'] at h
  obtain ⟨a, ha, b, hb, ⟨⟨⟨⟨hl, hxa⟩, hxb⟩, hab⟩, _⟩, c, hc, ⟨hxc, hac⟩, hbc⟩ := h
  rw [hl, xorB_eq_add, xorB_eq_add]
  exact clo_star_through hlen hx (mem_bitsOf.2 ⟨a, ha, rfl⟩) (mem_bitsOf.2 ⟨b, hb, rfl⟩)
    (mem_bitsOf.2 ⟨c, hc, rfl⟩) hxa hxb hab hxc hac hbc

end C02
end PauLie
