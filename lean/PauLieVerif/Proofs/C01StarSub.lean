/-
Masks versus sublists: `msum m b vs` is the sum of the sublist of `vs` picked by `b`, every sublist
is picked by a mask of full length, and the parity of the mask is the parity of the length of the
sublist.  Used to state the closed forms of C01 with "∃ S ⊆ ls".  Core Lean only.
-/
import PauLieVerif.Proofs.C01Span

namespace PauLie
namespace C01Star
open Closure

/-- the sum (product up to phase) of a list of strings of length `m` -/
def sumV (m : Nat) : List V → V
  | [] => zeroV m
  | v :: vs => add v (sumV m vs)

/-- the members selected by a mask -/
def pick : List Bool → List V → List V
  | true :: b, v :: vs => v :: pick b vs
  | false :: b, _ :: vs => pick b vs
  | [], _ => []
  | _ :: _, [] => []

theorem msum_eq_sumV (m : Nat) : ∀ (b : List Bool) (vs : List V), msum m b vs = sumV m (pick b vs)
  | [], vs => by simp [pick, sumV]
  | _ :: _, [] => by simp [pick, sumV]
  | true :: b, v :: vs => by simp [pick, sumV, msum_eq_sumV m b vs]
  | false :: b, v :: vs => by simp [pick, msum_eq_sumV m b vs]

theorem pick_sublist : ∀ (b : List Bool) (vs : List V), (pick b vs).Sublist vs
  | [], vs => by simp [pick]
  | _ :: _, [] => by simp [pick]
  | true :: b, v :: vs => by simp only [pick]; exact (pick_sublist b vs).cons_cons v
  | false :: b, v :: vs => by simp only [pick]; exact (pick_sublist b vs).cons v

theorem length_pick : ∀ (b : List Bool) (vs : List V), b.length = vs.length →
    par b = decide ((pick b vs).length % 2 = 1)
  | [], [], _ => by simp [pick]
  | [], _ :: _, h => by simp at h
  | _ :: _, [], h => by simp at h
  | true :: b, v :: vs, h => by
    have := length_pick b vs (by simpa using h)
    simp only [par_cons, pick, List.length_cons, this]
    by_cases hp : (pick b vs).length % 2 = 1
    · have : ((pick b vs).length + 1) % 2 ≠ 1 := by omega
      simp [hp, this]
    · have : ((pick b vs).length + 1) % 2 = 1 := by omega
      simp [hp, this]
  | false :: b, v :: vs, h => by
    have := length_pick b vs (by simpa using h)
    rw [par_cons, Bool.false_bne, this]
    rfl

theorem exists_mask_of_sublist {S vs : List V} (h : S.Sublist vs) :
    ∃ b : List Bool, b.length = vs.length ∧ pick b vs = S := by
  induction h with
  | slnil => exact ⟨[], rfl, rfl⟩
  | cons a _ ih =>
    obtain ⟨b, h1, h2⟩ := ih
    exact ⟨false :: b, by simp [h1], by simp [pick, h2]⟩
  | cons_cons a _ ih =>
    obtain ⟨b, h1, h2⟩ := ih
    exact ⟨true :: b, by simp [h1], by simp [pick, h2]⟩

/-- subset sums, mask form ↔ sublist form -/
theorem exists_mask_iff_sublist {m : Nat} {vs : List V} {P : V → Prop} :
    (∃ b : List Bool, b.length = vs.length ∧ P (msum m b vs)) ↔ ∃ S, S.Sublist vs ∧ P (sumV m S) := by
  constructor
  · rintro ⟨b, _, h⟩
    exact ⟨pick b vs, pick_sublist b vs, by rwa [← msum_eq_sumV]⟩
  · rintro ⟨S, hS, h⟩
    obtain ⟨b, h1, h2⟩ := exists_mask_of_sublist hS
    exact ⟨b, h1, by rwa [msum_eq_sumV, h2]⟩

theorem exists_oddmask_iff_sublist {m : Nat} {vs : List V} {P : V → Prop} :
    (∃ b : List Bool, b.length = vs.length ∧ par b = true ∧ P (msum m b vs)) ↔
      ∃ S, S.Sublist vs ∧ S.length % 2 = 1 ∧ P (sumV m S) := by
  constructor
  · rintro ⟨b, hb, pb, h⟩
    refine ⟨pick b vs, pick_sublist b vs, ?_, by rwa [← msum_eq_sumV]⟩
    rw [length_pick b vs hb] at pb
    simpa using pb
  · rintro ⟨S, hS, hodd, h⟩
    obtain ⟨b, h1, h2⟩ := exists_mask_of_sublist hS
    refine ⟨b, h1, ?_, by rwa [msum_eq_sumV, h2]⟩
    rw [length_pick b vs h1, h2]
    simpa using hodd

end C01Star
end PauLie
