/-
Helpers for property C19, part 24: the families a13 (`XX`,`YY`,`YZ`) and a20 (`XX`,`YY`,`ZZ`,`ZY`), table row
`su(2^(n-1)) + su(2^(n-1))`.

Closed form (`T13`): every translate commutes with `X X … X`; the closure is the set of ALL strings commuting with
`X…X` (an even number of `Y`/`Z`: `parZ x = false`) except the identity and `X…X` itself.  Lower bound: peeling of
the last three sites (state of the tail: `parZ r`, "r is the identity", "r is X…X"); targets ending in `XXX` are
commutators of two other targets (`exc_spec`).  Count: `2^(2n−1) − 2 = 2(4^(n−1) − 1)`.
-/
import PauLieVerif.Proofs.C19RestSym

namespace PauLie
namespace C19
open Closure Graph C01Star C03

/-- commutes with `X…X`, and is neither the identity nor `X…X` -/
def T13 (x : V) : Bool := !parZ x && !isZ x && !isL true false x

def vXXX : V := [true, false, true, false, true, false]

def wend13 : List V := (allV 6).filter T13

theorem length_wend13 : ∀ g ∈ wend13, g.length = 2 * 3 := fun _ hg => mem_allV.1 (List.mem_filter.1 hg).1

theorem T13_closed (n : Nat) (x y : V) (hx : x.length = 2 * n) (hy : y.length = 2 * n) (h1 : T13 x = true)
    (h2 : T13 y = true) (ho : omega x y = true) : T13 (add x y) = true := by
  simp only [T13, Bool.and_eq_true, Bool.not_eq_true'] at h1 h2 ⊢
  have hxy : x.length = y.length := hx.trans hy.symm
  refine ⟨⟨by rw [parZ_add x y hxy, h1.1.1, h2.1.1]; rfl, ?_⟩, ?_⟩
  · cases hz : isZ (add x y)
    · rfl
    · rw [isZ_add x y hxy hz, omega_self] at ho; cases ho
  · cases hz : isL true false (add x y)
    · rfl
    · have h3 := omega_isL true false x (add x y) (by rw [length_add_eq hx hy, hx]) hz
      rw [omega_add_right x x y hxy, omega_self, ho, h1.1.1] at h3
      cases h3

theorem chk13 : ∀ s1 s2 s3 : Bool,
    peelChk 3 (fun b => !(s1 != parZ b) && !(s2 && isZ b) && !(s3 && isL true false b)) (fun b => !parZ b && !isZ b)
      (fun p => (!(s1 != parZ p) && !(s2 && isZ p) && !(s3 && isL true false p)) && p != vXXX) wend13 = true := by
  decide +kernel

/-- targets not ending in `XXX` are reached by the peeling -/
theorem good13 (w0 N : Nat) (x : V) (hN : 4 ≤ N) (hx : x.length = 2 * N) (hT : T13 x = true)
    (hp : x.drop (2 * (N - 3)) ≠ vXXX) : Good 3 w0 T13 wend13 N x := by
  have hr : (x.take (2 * (N - 3))).length % 2 = 0 := by simp [hx] <;> omega
  have h1 : ∀ b, T13 (x.take (2 * (N - 3)) ++ b) =
      (!(parZ (x.take (2 * (N - 3))) != parZ b) && !(isZ (x.take (2 * (N - 3))) && isZ b) &&
        !(isL true false (x.take (2 * (N - 3))) && isL true false b)) := by
    intro b
    simp only [T13, parZ_append _ _ hr, isZ_append, isL_append _ _ _ _ hr]
  refine good_of_chk' (by omega) length_wend13 (by omega) hx h1 (t0 := fun b => !parZ b && !isZ b) ?_ (chk13 _ _ _) ?_
  · intro b
    have hz : (List.replicate (2 * (N - 3)) false).length % 2 = 0 := by simp
    have hl : isL true false (List.replicate (2 * (N - 3)) false) = false := by
      rw [show 2 * (N - 3) = 2 * (N - 4) + 2 by omega]
      exact isL_zero_succ _ _ rfl _
    show T13 (List.replicate (2 * (N - 3)) false ++ b) = _
    simp only [T13, parZ_append _ _ hz, isZ_append, isL_append _ _ _ _ hz, parZ_replicate, isZ_replicate, hl]
    simp
  · show ((!(parZ _ != parZ _) && !(isZ _ && isZ _) && !(isL true false _ && isL true false _)) && _) = true
    rw [← h1, List.take_append_drop, hT]
    simpa using hp

theorem step13 (w0 N : Nat) (x : V) (hN : 4 ≤ N) (hx : x.length = 2 * N) (hT : T13 x = true) :
    Gen (Good 3 w0 T13 wend13 N) x := by
  by_cases hp : x.drop (2 * (N - 3)) = vXXX
  · have hT' := hT
    simp only [T13, Bool.and_eq_true, Bool.not_eq_true'] at hT'
    obtain ⟨l1, ⟨u1, u2, hu, hne, hd⟩, ho, hpz, _⟩ := exc_spec true false rfl x N hx hN hp hT'.2
    generalize exc true false x = y at *
    have hxy : x.length = y.length := hx.trans l1.symm
    have hd2 : (add x y).drop (2 * (N - 3)) = [true, false, true, false, !u1, u2] := by
      rw [drop_add, hp, hd]; simp [vXXX, add]
    have e : add y (add x y) = x := by rw [add_comm x y, add_add_cancel_left y x hxy.symm]
    have ho2 : omega y (add x y) = true := by
      rw [omega_add_right y x y hxy, omega_self, ho]; rfl
    have hy : T13 y = true := by
      simp only [T13, Bool.and_eq_true, Bool.not_eq_true']
      refine ⟨⟨hpz, ?_⟩, ?_⟩
      · cases hz : isZ y
        · rfl
        · have := isZ_drop y (2 * (N - 3)) hz
          rw [hd] at this
          revert hu this; cases u1 <;> cases u2 <;> simp [isZ]
      · cases hz : isL true false y
        · rfl
        · have := isL_drop true false (N - 3) y hz
          rw [hd] at this
          simp [isL] at this
    have hxy2 : T13 (add x y) = true := by
      simp only [T13, Bool.and_eq_true, Bool.not_eq_true']
      refine ⟨⟨by rw [parZ_add x y hxy, hT'.1.1, hpz]; rfl, ?_⟩, ?_⟩
      · cases hz : isZ (add x y)
        · rfl
        · have := isZ_drop _ (2 * (N - 3)) hz
          rw [hd2] at this
          simp [isZ] at this
      · cases hz : isL true false (add x y)
        · rfl
        · have := isL_drop true false (N - 3) _ hz
          rw [hd2] at this
          revert hu hne this; cases u1 <;> cases u2 <;> simp [isL]
    have g1 : Good 3 w0 T13 wend13 N y := good13 w0 N y hN l1 hy (by rw [hd]; simp [vXXX])
    have g2 : Good 3 w0 T13 wend13 N (add x y) := good13 w0 N _ hN (by rw [length_add_eq hx l1]) hxy2 (by
      rw [hd2]; revert hu hne; cases u1 <;> cases u2 <;> simp [vXXX])
    have := Gen.step (Gen.base g1) (Gen.base g2) ho2
    rwa [e] at this
  · exact Gen.base (good13 w0 N x hN hx hT hp)

/-! ### counting -/

theorem count_parZ (n : Nat) : ((allV (2 * (n + 1))).filter (fun x => !parZ x)).length = 2 * 4 ^ n := by
  rw [show 2 * (n + 1) = 2 * n + 2 by omega, length_filter_allV_add_two]
  have : ∀ v : V, ((if (!parZ (false :: false :: v)) then 1 else 0) + (if (!parZ (true :: false :: v)) then 1 else 0) +
      (if (!parZ (false :: true :: v)) then 1 else 0) + (if (!parZ (true :: true :: v)) then 1 else 0)) = 2 := by
    intro v; simp only [parZ]
    rcases Bool.eq_false_or_eq_true (parZ v) with h | h <;> simp [h]
  simp only [this]
  rw [List.map_const', List.sum_replicate_nat, length_allV, Nat.pow_mul]
  simp [Nat.mul_comm]

/-- the all-`X` string -/
def xsV : Nat → V
  | 0 => []
  | n + 1 => true :: false :: xsV n

theorem isL_X_iff : ∀ (x : V) (n : Nat), x.length = 2 * n → (isL true false x = true ↔ x = xsV n)
  | [], 0, _ => by simp [isL, xsV]
  | [], n + 1, h => by simp at h
  | [_], n, h => by simp at h; omega
  | a :: b :: r, 0, h => by simp at h
  | a :: b :: r, n + 1, h => by
    simp only [isL, xsV, Bool.and_eq_true, beq_iff_eq, List.cons.injEq, isL_X_iff r n (by simp at h; omega)]
    constructor
    · rintro ⟨⟨h1, h2⟩, h3⟩; exact ⟨h1, h2, h3⟩
    · rintro ⟨h1, h2, h3⟩; exact ⟨⟨h1, h2⟩, h3⟩

theorem length_xsV : ∀ n, (xsV n).length = 2 * n
  | 0 => rfl
  | n + 1 => by simp [xsV, length_xsV n]; omega

theorem parZ_xsV : ∀ n, parZ (xsV n) = false
  | 0 => rfl
  | n + 1 => by simp [xsV, parZ, parZ_xsV n]

theorem isZ_xsV (n : Nat) : isZ (xsV (n + 1)) = false := by simp [xsV, isZ]

/-- a duplicate-free list whose filter is satisfied by exactly one member -/
theorem length_filter_eq_one {l : List V} (hl : l.Nodup) (P : V → Bool) (e : V) (he : e ∈ l) (hP : ∀ x ∈ l, (P x = true ↔ x = e)) :
    (l.filter P).length = 1 := by
  have : (l.filter P).Perm [e] := by
    rw [List.perm_ext_iff_of_nodup (hl.filter _) (by simp)]
    intro y
    simp only [List.mem_filter, List.mem_singleton]
    constructor
    · rintro ⟨hy, hp⟩; exact (hP y hy).1 hp
    · rintro rfl; exact ⟨he, (hP y he).2 rfl⟩
  rw [this.length_eq]; rfl

theorem count_T13 (n : Nat) : ((allV (2 * (n + 1))).filter T13).length = 2 * (4 ^ n - 1) := by
  have h0 := count_parZ n
  -- split off the identity
  have s1 := length_filter_split (fun x => !isZ x) (fun x => !(!isZ x)) (fun _ => rfl) ((allV (2 * (n + 1))).filter (fun x => !parZ x))
  -- split off X…X
  have s2 := length_filter_split (fun x => !isL true false x) (fun x => !(!isL true false x)) (fun _ => rfl)
    (((allV (2 * (n + 1))).filter (fun x => !parZ x)).filter (fun x => !isZ x))
  have nd := nodup_allV (2 * (n + 1))
  have c1 : (((allV (2 * (n + 1))).filter (fun x => !parZ x)).filter (fun x => !(!isZ x))).length = 1 := by
    rw [List.filter_filter]
    apply length_filter_eq_one nd _ (zeroV (2 * (n + 1))) (mem_allV.2 (by simp [zeroV]))
    intro x hx
    have hl := mem_allV.1 hx
    constructor
    · intro h
      have : isZ x = true := by revert h; cases isZ x <;> simp
      rw [(isZ_iff x).1 this, hl]
    · rintro rfl
      simp [zeroV, isZ_replicate, parZ_replicate]
  have c2 : ((((allV (2 * (n + 1))).filter (fun x => !parZ x)).filter (fun x => !isZ x)).filter
      (fun x => !(!isL true false x))).length = 1 := by
    rw [List.filter_filter, List.filter_filter]
    apply length_filter_eq_one nd _ (xsV (n + 1)) (mem_allV.2 (length_xsV _))
    intro x hx
    have hl := mem_allV.1 hx
    constructor
    · intro h
      have : isL true false x = true := by revert h; cases isL true false x <;> simp
      exact (isL_X_iff x (n + 1) hl).1 this
    · rintro rfl
      simp [parZ_xsV, isZ_xsV, (isL_X_iff _ (n + 1) (length_xsV _)).2 rfl]
  have e : (allV (2 * (n + 1))).filter T13 = (((allV (2 * (n + 1))).filter (fun x => !parZ x)).filter (fun x => !isZ x)).filter
      (fun x => !isL true false x) := by
    rw [List.filter_filter, List.filter_filter]
    apply List.filter_congr
    intro x _
    simp only [T13]
    cases parZ x <;> cases isZ x <;> cases isL true false x <;> rfl
  rw [e]
  have : 1 ≤ 4 ^ n := Nat.pow_pos (by omega)
  omega

/-! ### a13, a20 -/

def gensA13 : List V := [vXX, vYY, vYZ]
def vZZ : V := [false, true, false, true]
def gensA20 : List V := [vXX, vYY, vZZ, vZY]

theorem lenA13 : ∀ g ∈ gensA13, g.length = 4 := by simp [gensA13, vXX, vYY, vYZ]
theorem lenA20 : ∀ g ∈ gensA20, g.length = 4 := by simp [gensA20, vXX, vYY, vZZ, vZY]

theorem base_a13 : wend13.all (fun y => (closureList (klocalV 3 gensA13)).1.contains y) = true := by
  decide +kernel
theorem base_a20 : wend13.all (fun y => (closureList (klocalV 3 gensA20)).1.contains y) = true := by
  decide +kernel

/-- a translate of a two-site word with an even number of `Y`/`Z` is a target (n ≥ 3) -/
theorem T13_shiftV {n k : Nat} (hn : 3 ≤ n) (hk : k + 2 ≤ n) {g : V} (hg : g.length = 4) (hp : parZ g = false)
    (hz : isZ g = false) : T13 (shiftV n k g) = true := by
  simp only [T13, Bool.and_eq_true, Bool.not_eq_true']
  refine ⟨⟨?_, ?_⟩, ?_⟩
  · rw [shiftV, parZ_append _ _ (by simp), parZ_append _ _ (by simp [hg]), parZ_replicate, parZ_replicate, hp]; rfl
  · simp [shiftV, isZ_append, hz]
  · rw [shiftV, isL_append _ _ _ _ (by simp), isL_append _ _ _ _ (by simp [hg])]
    by_cases h0 : k = 0
    · subst h0
      rw [show 2 * (n - 2 - 0) = 2 * (n - 3) + 2 by omega, isL_zero_succ _ _ rfl]; simp
    · rw [show 2 * k = 2 * (k - 1) + 2 by omega, isL_zero_succ _ _ rfl]; simp

theorem clo_T13 {gs : List V} (hg : ∀ g ∈ gs, g.length = 4) (hp : ∀ g ∈ gs, parZ g = false ∧ isZ g = false)
    (hbase : wend13.all (fun y => (closureList (klocalV 3 gs)).1.contains y) = true) {n : Nat} (hn : 3 ≤ n) (x : V) :
    Clo (klocalV n gs) x ↔ x.length = 2 * n ∧ T13 x = true := by
  have hb : ∀ x, x.length = 2 * 3 → T13 x = true → Clo (klocalV 3 gs) x := by
    intro x hx hq
    have := List.all_eq_true.1 hbase x (List.mem_filter.2 ⟨mem_allV.2 hx, hq⟩)
    exact (closureList_sound_complete (uniform_klocalV hg)).1 (List.contains_iff_mem.1 this)
  refine clo_iff_of_peel hg (k := 3) (w0 := 3) (T := T13) (Wend := wend13) (by omega) (by omega) ?_ hb
    (fun N x hN hx hT => step13 3 N x (by omega) hx hT) ?_ T13_closed hn x
  · intro g hg
    refine ⟨length_wend13 g hg, ?_⟩
    simpa [zeroV] using hb g (length_wend13 g hg) (List.mem_filter.1 hg).2
  · intro n hn g hgm
    obtain ⟨g0, hg0, k, hk, rfl⟩ := mem_klocalV.1 hgm
    exact T13_shiftV hn (by omega) (hg g0 hg0) (hp g0 hg0).1 (hp g0 hg0).2

theorem clo_a13 {n : Nat} (hn : 3 ≤ n) (x : V) : Clo (klocalV n gensA13) x ↔ x.length = 2 * n ∧ T13 x = true :=
  clo_T13 lenA13 (by decide) base_a13 hn x

theorem clo_a20 {n : Nat} (hn : 3 ≤ n) (x : V) : Clo (klocalV n gensA20) x ↔ x.length = 2 * n ∧ T13 x = true :=
  clo_T13 lenA20 (by decide) base_a20 hn x

end C19
end PauLie
