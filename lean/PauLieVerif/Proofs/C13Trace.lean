/-
C13, matrix level: the recursive transform `coefL P` of the Pauli-ordered vector of a
matrix `A` is `tr(M(P)·A)/2^n`; the diagonal transform `coefD`; completeness of the
Pauli basis (reconstruction).
-/
import PauLieVerif.Proofs.C13Vec
import PauLieVerif.Spec.PauliMatrix
import Mathlib.LinearAlgebra.Matrix.Trace
import Mathlib.Tactic.FieldSimp

namespace PauLie
namespace Decomp

open Matrix Complex
open C04 (cx cz)

/-! ### Gaussian rationals as complex numbers -/

/-- `re + im·i` as a complex number -/
def GR.toComplex (a : GR) : ℂ := (a.re : ℂ) + (a.im : ℂ) * I

@[simp] theorem GR.toComplex_zero : GR.zero.toComplex = 0 := by simp [GR.toComplex, GR.zero]

theorem GR.toComplex_add (a b : GR) : (a + b).toComplex = a.toComplex + b.toComplex := by
  show (GR.add a b).toComplex = _
  simp only [GR.add, GR.toComplex]; push_cast; ring

theorem GR.toComplex_sub (a b : GR) : (a - b).toComplex = a.toComplex - b.toComplex := by
  show (GR.sub a b).toComplex = _
  simp only [GR.sub, GR.toComplex]; push_cast; ring

theorem GR.toComplex_half (a : GR) : (GR.half a).toComplex = a.toComplex / 2 := by
  simp only [GR.half, GR.toComplex]; push_cast; ring

theorem GR.toComplex_mulI (a : GR) : (GR.mulI a).toComplex = I * a.toComplex := by
  simp only [GR.mulI, GR.toComplex]; push_cast
  linear_combination (-(a.im : ℂ)) * Complex.I_mul_I

theorem GR.toComplex_injective : Function.Injective GR.toComplex := by
  intro a b h
  have hre := congrArg Complex.re h
  have him := congrArg Complex.im h
  simp [GR.toComplex] at hre him
  cases a; cases b; simp_all

/-! ### indices -/

/-- big-endian number of an index `Fin n → Fin 2` (site 0 most significant) -/
def num : {n : ℕ} → (Fin n → Fin 2) → ℕ
  | 0, _ => 0
  | n + 1, r => num (fun i => r i.succ) + (r 0).val * 2 ^ n

theorem num_cons {n : ℕ} (a : Fin 2) (r : Fin n → Fin 2) :
    num (Fin.cons a r : Fin (n + 1) → Fin 2) = num r + a.val * 2 ^ n := by
  simp [num]

theorem num_lt : ∀ {n : ℕ} (r : Fin n → Fin 2), num r < 2 ^ n
  | 0, _ => by simp [num]
  | n + 1, r => by
    have := num_lt (fun i => r i.succ)
    have := (r 0).isLt
    simp only [num, pow_succ]
    nlinarith

/-- the complex matrix of an entry function -/
def matF (n : ℕ) (f : ℕ → ℕ → GR) : Matrix (Fin n → Fin 2) (Fin n → Fin 2) ℂ :=
  fun r c => (f (num r) (num c)).toComplex

/-- sub-block of a matrix: first row bit `b`, first column bit `a` -/
def blk {n : ℕ} (A : Matrix (Fin (n + 1) → Fin 2) (Fin (n + 1) → Fin 2) ℂ) (b a : Fin 2) :
    Matrix (Fin n → Fin 2) (Fin n → Fin 2) ℂ :=
  fun r c => A (Fin.cons b r) (Fin.cons a c)

theorem sum_cons {n : ℕ} (F : (Fin (n + 1) → Fin 2) → ℂ) :
    ∑ x, F x = ∑ a : Fin 2, ∑ x' : Fin n → Fin 2, F (Fin.cons a x') := by
  rw [← (Fin.consEquiv (fun _ => Fin 2)).sum_comp, Fintype.sum_prod_type]
  rfl

theorem M_cons_apply {n : ℕ} (Q : Fin (n + 1) → Letter) (a b : Fin 2) (x y : Fin n → Fin 2) :
    M Q (Fin.cons a x) (Fin.cons b y) = σ (Q 0) a b * M (fun i => Q i.succ) x y := by
  simp [M_apply, Fin.prod_univ_succ]

/-- the trace against a Pauli string, one qubit peeled off -/
theorem trace_cons {n : ℕ} (Q : Fin (n + 1) → Letter)
    (A : Matrix (Fin (n + 1) → Fin 2) (Fin (n + 1) → Fin 2) ℂ) :
    trace (M Q * A) = ∑ a : Fin 2, ∑ b : Fin 2,
      σ (Q 0) a b * trace (M (fun i => Q i.succ) * blk A b a) := by
  simp only [trace, diag, Matrix.mul_apply]
  rw [sum_cons]
  refine Finset.sum_congr rfl fun a _ => ?_
  have : ∀ x' : Fin n → Fin 2,
      ∑ y, M Q (Fin.cons a x') y * A y (Fin.cons a x')
        = ∑ b : Fin 2, ∑ y' : Fin n → Fin 2,
            σ (Q 0) a b * (M (fun i => Q i.succ) x' y' * blk A b a y' x') := by
    intro x'
    rw [sum_cons]
    refine Finset.sum_congr rfl fun b _ => Finset.sum_congr rfl fun y' _ => ?_
    rw [M_cons_apply, blk, mul_assoc]
  simp only [this]
  rw [Finset.sum_comm]
  refine Finset.sum_congr rfl fun b _ => ?_
  rw [Finset.mul_sum]
  refine Finset.sum_congr rfl fun x' _ => ?_
  rw [Finset.mul_sum]

theorem blk_matF {n : ℕ} (f : ℕ → ℕ → GR) (b a : Fin 2) :
    blk (matF (n + 1) f) b a = matF n (fun r c => f (r + b.val * 2 ^ n) (c + a.val * 2 ^ n)) := by
  ext r c
  simp [blk, matF, num_cons]

/-- **The recursive transform is the normalised trace against the Pauli matrix.** -/
theorem coefL_trace : ∀ (n : ℕ) (f : ℕ → ℕ → GR) (P : List Letter), P.length = n →
    (coefL P (vecF n f)).toComplex = trace (M (vecOf n P) * matF n f) / 2 ^ n := by
  intro n
  induction n with
  | zero =>
    intro f P hP
    have : P = [] := List.length_eq_zero_iff.mp hP
    subst this
    simp [coefL, vecF, M_zero, trace, matF, num]
  | succ n ih =>
    intro f P hP
    match P, hP with
    | l :: P, hP =>
      have hP' : P.length = n := by simpa using hP
      have hl (g : ℕ → ℕ → GR) : (vecF n g).length = 4 ^ P.length := by rw [vecF_length, hP']
      rw [vecF, coefL_blocks l P _ _ _ _ (hl _) (hl _) (hl _), trace_cons]
      simp only [vecOf_cons_zero, vecOf_cons_succ, blk_matF, Fin.sum_univ_two, Fin.val_zero,
        Fin.val_one, zero_mul, one_mul, add_zero]
      have e00 := ih f P hP'
      have e11 := ih (fun r c => f (r + 2 ^ n) (c + 2 ^ n)) P hP'
      have e01 := ih (fun r c => f r (c + 2 ^ n)) P hP'
      have e10 := ih (fun r c => f (r + 2 ^ n) c) P hP'
      have h2 : (2 : ℂ) ^ n ≠ 0 := pow_ne_zero _ two_ne_zero
      cases l
      · simp only [comb, GR.toComplex_half, GR.toComplex_add, e00, e11]
        simp [σ]; field_simp; ring
      · simp only [comb, GR.toComplex_half, GR.toComplex_add, e01, e10]
        simp [σ]; field_simp; ring
      · simp only [comb, GR.toComplex_half, GR.toComplex_mulI, GR.toComplex_sub, e01, e10]
        simp [σ]; field_simp; ring
      · simp only [comb, GR.toComplex_half, GR.toComplex_sub, e00, e11]
        simp [σ]; field_simp; ring

end Decomp
end PauLie
