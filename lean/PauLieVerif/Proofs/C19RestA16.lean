/-
Helpers for property C19, part 21: the families a16 (`XY`,`YX`,`YZ`,`ZY`; n ≥ 3) and a11 (`XY`,`YX`,`YZ`; n ≥ 4),
table row `so(2^n)`.

Closed form: the closure of the translates is the set of all strings with an ODD number of `Y` (`qY`) -
the Pauli strings that are antisymmetric matrices.  `qY` is a quadratic form with polarisation `omega`
(`qY_add`), so `{qY = 1}` is closed under the commutator step; the lower bound is the peeling induction of
`Proofs/C19RestPeel.lean` with the last three sites peeled and the single state bit `qY r` of the tail.
Count: `2·|{qY = 1}| + 2^n = 4^n`, i.e. `2^n (2^n − 1)/2 = dim so(2^n)`.
-/
import PauLieVerif.Proofs.C19RestPeel
import PauLieVerif.Proofs.C19SuK3

namespace PauLie
namespace C19
open Closure Graph C01Star C03

/-- parity of the number of `Y` letters -/
def qY : V → Bool
  | a :: b :: r => (a && b) != qY r
  | _ => false

theorem qY_append : ∀ (x y : V), x.length % 2 = 0 → qY (x ++ y) = (qY x != qY y)
  | [], y, _ => by simp [qY]
  | [_], _, h => by simp at h
  | a :: b :: r, y, h => by
    simp only [List.cons_append, qY, qY_append r y (by simp at h; omega)]
    cases (a && b) <;> cases qY r <;> cases qY y <;> rfl

theorem qY_replicate : ∀ (m : Nat), qY (List.replicate m false) = false
  | 0 => rfl
  | 1 => rfl
  | m + 2 => by simp [List.replicate_succ, qY, qY_replicate m]

theorem qY_zeroV (m : Nat) : qY (zeroV m) = false := qY_replicate m

/-- `qY` is a quadratic form whose polarisation is the symplectic form -/
theorem qY_add : ∀ (x y : V), x.length = y.length → qY (add x y) = ((qY x != qY y) != omega x y)
  | [], [], _ => rfl
  | [], _ :: _, h => by simp at h
  | _ :: _, [], h => by simp at h
  | [a], [b], _ => by simp [add, qY, omega]
  | [_], _ :: _ :: _, h => by simp at h
  | _ :: _ :: _, [_], h => by simp at h
  | a :: b :: s, c :: d :: t, h => by
    simp only [add, qY, omega, qY_add s t (by simpa using h)]
    cases a <;> cases b <;> cases c <;> cases d <;> cases qY s <;> cases qY t <;> cases omega s t <;> rfl

theorem qY_shiftV {n k : Nat} {g : V} (hg : g.length = 4) : qY (shiftV n k g) = qY g := by
  rw [shiftV, qY_append _ _ (by simp), qY_append _ _ (by simp [hg]), qY_replicate, qY_replicate]
  cases qY g <;> rfl

theorem qY_closed (n : Nat) (x y : V) (hx : x.length = 2 * n) (hy : y.length = 2 * n) (h1 : qY x = true)
    (h2 : qY y = true) (ho : omega x y = true) : qY (add x y) = true := by
  rw [qY_add x y (hx.trans hy.symm), h1, h2, ho]; rfl

/-! ### the kernel-evaluated checks -/

/-- the strings on three sites with an odd number of `Y` -/
def wendQY : List V := (allV 6).filter qY

theorem chk_qY : ∀ s : Bool, peelChk 3 (fun b => s != qY b) (fun b => false != qY b) (fun p => s != qY p) wendQY = true := by
  decide +kernel

theorem length_wendQY : ∀ g ∈ wendQY, g.length = 2 * 3 := by
  intro g hg
  exact mem_allV.1 (List.mem_filter.1 hg).1

/-- the induction step is the same for every family with this closed form -/
theorem step_qY (w0 N : Nat) (x : V) (hN : 4 ≤ N) (hx : x.length = 2 * N) (hT : qY x = true) :
    Gen (Good 3 w0 qY wendQY N) x := by
  refine Gen.base (good_of_chk (by omega) length_wendQY (by omega) hx (tr := fun b => qY (x.take (2 * (N - 3))) != qY b)
    (t0 := fun b => false != qY b) ?_ ?_ (chk_qY _) hT)
  · intro b; rw [qY_append _ _ (by simp [hx] <;> omega)]
  · intro b; rw [qY_append _ _ (by simp [zeroV]), qY_zeroV]

/-! ### counting -/

theorem count_qY : ∀ (n : Nat), 2 * ((allV (2 * n)).filter qY).length + 2 ^ n = 4 ^ n
  | 0 => by decide
  | n + 1 => by
    have ih := count_qY n
    have hl := length_allV (2 * n)
    rw [show 2 * (n + 1) = 2 * n + 2 by omega, length_filter_allV_add_two]
    have : ∀ v : V, ((if qY (false :: false :: v) then 1 else 0) + (if qY (true :: false :: v) then 1 else 0) +
        (if qY (false :: true :: v) then 1 else 0) + (if qY (true :: true :: v) then 1 else 0)) =
        (if qY v then 3 else 1) := by
      intro v; simp only [qY]; rcases Bool.eq_false_or_eq_true (qY v) with h | h <;> simp [h]
    simp only [this]
    rw [sum_map_ite_add, length_filter_not, hl]
    have h4 : (4 : Nat) ^ n = 2 ^ (2 * n) := by rw [Nat.pow_mul]
    have hle := List.length_filter_le qY (allV (2 * n))
    rw [hl] at hle
    rw [Nat.pow_succ, Nat.pow_succ, ← h4] at *
    omega

theorem dimOfName_so_pow (n : Nat) : 2 * TwoLocal.dimOfName [TwoLocal.so (2 ^ n)] + 2 ^ n = 4 ^ n := by
  have h4 : (4 : Nat) ^ n = 2 ^ n * 2 ^ n := by
    rw [show (4 : Nat) = 2 * 2 from rfl, Nat.mul_pow]
  have hpos : 0 < 2 ^ n := Nat.two_pow_pos n
  have he : 2 ^ n * (2 ^ n - 1) % 2 = 0 := by
    rw [Nat.mul_mod]
    rcases Nat.mod_two_eq_zero_or_one (2 ^ n) with h | h
    · rw [h]; simp
    · have : (2 ^ n - 1) % 2 = 0 := by omega
      rw [this]; simp
  have hs : 2 ^ n * (2 ^ n - 1) + 2 ^ n = 2 ^ n * 2 ^ n := by
    rw [Nat.mul_sub, Nat.mul_one, Nat.sub_add_cancel (Nat.le_mul_of_pos_left _ hpos)]
  simp only [TwoLocal.dimOfName, Classify.Summand.dim, TwoLocal.so, Classify.dimSO, List.map_cons, List.map_nil, List.foldl_cons,
    List.foldl_nil]
  rw [h4]
  omega

/-! ### a16 -/

def gensA16 : List V := [vXY, vYX, vYZ, vZY]

theorem lenA16 : ∀ g ∈ gensA16, g.length = 4 := by simp [gensA16, vXY, vYX, vYZ, vZY]

theorem base_a16 : wendQY.all (fun y => (closureList (klocalV 3 gensA16)).1.contains y) = true := by
  decide +kernel

theorem clo_a16 {n : Nat} (hn : 3 ≤ n) (x : V) :
    Clo (klocalV n gensA16) x ↔ x.length = 2 * n ∧ qY x = true := by
  have hb : ∀ x, x.length = 2 * 3 → qY x = true → Clo (klocalV 3 gensA16) x := by
    intro x hx hq
    have := List.all_eq_true.1 base_a16 x (List.mem_filter.2 ⟨mem_allV.2 hx, hq⟩)
    exact (closureList_sound_complete (uniform_klocalV lenA16)).1 (List.contains_iff_mem.1 this)
  refine clo_iff_of_peel lenA16 (k := 3) (w0 := 3) (T := qY) (Wend := wendQY) (by omega) (by omega) ?_ hb
    (fun N x hN hx hT => step_qY 3 N x (by omega) hx hT) ?_ qY_closed hn x
  · intro g hg
    refine ⟨length_wendQY g hg, ?_⟩
    simpa [zeroV] using hb g (length_wendQY g hg) (List.mem_filter.1 hg).2
  · intro n _ g hg
    obtain ⟨g0, hg0, k, _, rfl⟩ := mem_klocalV.1 hg
    rw [qY_shiftV (lenA16 g0 hg0)]
    have : ∀ g ∈ gensA16, qY g = true := by decide
    exact this g0 hg0

/-! ### a11 -/

def gensA11 : List V := [vXY, vYX, vYZ]

theorem lenA11 : ∀ g ∈ gensA11, g.length = 4 := by simp [gensA11, vXY, vYX, vYZ]

theorem base_a11 : ((allV 8).filter qY).all (fun y => (closureList (klocalV 4 gensA11)).1.contains y) = true := by
  decide +kernel

theorem clo_a11 {n : Nat} (hn : 4 ≤ n) (x : V) :
    Clo (klocalV n gensA11) x ↔ x.length = 2 * n ∧ qY x = true := by
  have hb : ∀ x, x.length = 2 * 4 → qY x = true → Clo (klocalV 4 gensA11) x := by
    intro x hx hq
    have := List.all_eq_true.1 base_a11 x (List.mem_filter.2 ⟨mem_allV.2 hx, hq⟩)
    exact (closureList_sound_complete (uniform_klocalV lenA11)).1 (List.contains_iff_mem.1 this)
  refine clo_iff_of_peel lenA11 (k := 3) (w0 := 4) (T := qY) (Wend := wendQY) (by omega) (by omega) ?_ hb
    (fun N x hN hx hT => step_qY 4 N x (by omega) hx hT) ?_ qY_closed hn x
  · intro g hg
    refine ⟨length_wendQY g hg, ?_⟩
    apply hb
    · simp [zeroV, length_wendQY g hg]
    · rw [qY_append _ _ (by simp [zeroV]), qY_zeroV]
      simpa using (List.mem_filter.1 hg).2
  · intro n _ g hg
    obtain ⟨g0, hg0, k, _, rfl⟩ := mem_klocalV.1 hg
    rw [qY_shiftV (lenA11 g0 hg0)]
    have : ∀ g ∈ gensA11, qY g = true := by decide
    exact this g0 hg0

end C19
end PauLie
