/-
Helpers for property C19, part 9: the FULL invariant of the set of all bilinears of a Majorana
family - `invOfClosure (bils w M) = invOfName [so(M)]` for every M ≥ 5 - and of two mutually
commuting such sets (`so(m)+so(m)`).

Uses the evaluation principle `invOfClosure_of_blocks` (from the order-independence theory of
`Proofs/C03Perm.lean`): on a duplicate-free commutator-closed set, ANY system of components may be
used to evaluate `invOfClosure`, not only the one its breadth-first search happens to find.
-/
import PauLieVerif.Proofs.C03Perm
import PauLieVerif.Proofs.C19Free
import PauLieVerif.Proofs.C19SoArith

namespace PauLie
namespace C19
open Closure Classify C03

/-- **evaluation principle**: on a duplicate-free closed set, `invOfClosure` may be computed from any
system `bs` of components (each `x :: t` connected from `x`, closed under neighbours, duplicate-free,
together a partition of the non-central members) -/
theorem invOfClosure_of_blocks {n : Nat} {S : List V} (hS : ClosedSet n S) (hnd : S.Nodup) {bs : List (List V)}
    (hb : ∀ c ∈ bs, IsComp S c ∧ c.Nodup) (hf : bs.flatten.Perm (restOf S)) :
    invOfClosure S = ⟨centreCount S, mergeSimples (bs.map inv1)⟩ := by
  rw [invOfClosure_eq']
  congr 1
  apply C01Names.mergeSimples_perm
  obtain ⟨f1, c1⟩ := compsOf_spec (List.Perm.refl S)
  have hrnd : (restOf S).Nodup := hnd.filter _
  have n1 : ∀ c ∈ compsOf S, IsComp S c ∧ c.Nodup :=
    fun c hc => ⟨c1 c hc, nodup_of_mem_flatten (f1.nodup_iff.2 hrnd) hc⟩
  have m1 : (compsOf S).map inv1 = ((compsOf S).map (headK S)).map ofRaw := by
    rw [List.map_map]
    exact List.map_congr_left (fun c hc => (inv1_of_isComp hnd (n1 c hc).1 (n1 c hc).2).1)
  have m2 : bs.map inv1 = (bs.map (headK S)).map ofRaw := by
    rw [List.map_map]
    exact List.map_congr_left (fun c hc => (inv1_of_isComp hnd (hb c hc).1 (hb c hc).2).1)
  rw [m1, m2]
  exact (keys_perm hS hnd n1 hb (f1.trans hf.symm)).map _

/-! ### combinatorics of `pairs` -/

theorem pairs_head : ∀ (M : Nat), 2 ≤ M → ∃ t, pairs M = (0, 1) :: t
  | 0, h => by omega
  | 1, h => by omega
  | 2, _ => ⟨[], by decide⟩
  | M + 3, _ => by
    obtain ⟨t, ht⟩ := pairs_head (M + 2) (by omega)
    exact ⟨t ++ (List.range (M + 2)).map (fun a => (a, M + 2)), by rw [pairs, ht]; rfl⟩

theorem length_pairs_succ (k : Nat) : (pairs (k + 1)).length = (pairs k).length + k := by
  rw [pairs, List.length_append, List.length_map, List.length_range]

theorem range_filter_ge : ∀ (m : Nat), ((List.range m).filter (fun a => decide (2 ≤ a))).length = m - 2
  | 0 => rfl
  | m + 1 => by
    rw [List.range_succ, List.filter_append, List.length_append, range_filter_ge m]
    by_cases h : 2 ≤ m
    · simp [h]; omega
    · simp [h]; omega

/-- the pairs commuting with the pair (0,1) as bilinears -/
def qComm (p : Nat × Nat) : Bool :=
  !(((decide (0 ≠ p.1)) != (decide (0 ≠ p.2))) != ((decide (1 ≠ p.1)) != (decide (1 ≠ p.2))))

theorem count_qComm : ∀ (k : Nat), ((pairs (k + 2)).filter qComm).length = 1 + (pairs k).length
  | 0 => by decide
  | k + 1 => by
    rw [show k + 1 + 2 = (k + 2) + 1 by omega, pairs, List.filter_append, List.length_append, count_qComm k,
      length_pairs_succ, List.filter_map, List.length_map]
    have : (List.range (k + 2)).filter (qComm ∘ fun a => (a, k + 2)) =
        (List.range (k + 2)).filter (fun a => decide (2 ≤ a)) := by
      apply List.filter_congr
      intro a ha
      have ha' := List.mem_range.1 ha
      simp only [Function.comp, qComm]
      by_cases h0 : a = 0
      · subst h0; simp
      · by_cases h1 : a = 1
        · subst h1; simp
        · have h2 : 2 ≤ a := by omega
          have e0 : (0 : Nat) ≠ a := fun e => h0 e.symm
          have e1 : (1 : Nat) ≠ a := fun e => h1 e.symm
          simp [e0, e1, h2]
    rw [this, range_filter_ge]
    omega

theorem filter_unique {l : List V} {p : V → Bool} {x : V} (hnd : l.Nodup) (hx : x ∈ l) (hp : p x = true)
    (hu : ∀ y ∈ l, p y = true → y = x) : (l.filter p).length = 1 := by
  have : (l.filter p).Perm [x] := by
    rw [List.perm_ext_iff_of_nodup (hnd.filter _) (by simp)]
    intro y
    rw [List.mem_filter, List.mem_singleton]
    exact ⟨fun h => hu y h.1 h.2, fun h => h ▸ ⟨hx, hp⟩⟩
  rw [this.length_eq]; rfl

/-! ### the set of all bilinears of a Majorana family -/

section Bils
variable {n M : Nat} {w : Nat → V}

theorem mem_bils_ne {a b : Nat} (hab : a ≠ b) (ha : a < M) (hb : b < M) : bil w a b ∈ Maj.bils w M := by
  rw [Maj.mem_bils]
  rcases Nat.lt_or_gt_of_ne hab with h | h
  · exact ⟨a, b, h, hb, rfl⟩
  · exact ⟨b, a, h, ha, bil_comm w a b⟩

theorem closedSet_bils (h : Maj (2 * n) M w) : ClosedSet n (Maj.bils w M) := by
  constructor
  · intro x hx
    obtain ⟨a, b, hab, hb, rfl⟩ := Maj.mem_bils.1 hx
    exact h.length_bil (by omega) hb
  · intro x hx y hy ho
    obtain ⟨a, b, hab, hb, rfl⟩ := Maj.mem_bils.1 hx
    obtain ⟨c, d, hcd, hd, rfl⟩ := Maj.mem_bils.1 hy
    obtain ⟨p, q, hpq, hq, e, _, _⟩ := h.bil_step hab hb hcd hd ho
    rw [e]; exact Maj.mem_bils.2 ⟨p, q, hpq, hq, rfl⟩

theorem bils_partner (h : Maj (2 * n) M w) (hM : 3 ≤ M) :
    ∀ x ∈ Maj.bils w M, ∃ y ∈ Maj.bils w M, omega x y = true := by
  intro x hx
  obtain ⟨a, b, hab, hb, rfl⟩ := Maj.mem_bils.1 hx
  have : ∃ c, c < M ∧ c ≠ a ∧ c ≠ b := by
    by_cases h0 : a ≠ 0 ∧ b ≠ 0
    · exact ⟨0, by omega, by omega, by omega⟩
    · by_cases h1 : a ≠ 1 ∧ b ≠ 1
      · exact ⟨1, by omega, by omega, by omega⟩
      · exact ⟨2, by omega, by omega, by omega⟩
  obtain ⟨c, hc, hca, hcb⟩ := this
  exact ⟨bil w a c, mem_bils_ne (Ne.symm hca) (by omega) hc,
    (h.bil_share (by omega) hb hc (by omega) (Ne.symm hca) (Ne.symm hcb)).1⟩

theorem bils_reach (h : Maj (2 * n) M w) (hM : 3 ≤ M) {a b : Nat} (hab : a < b) (hb : b < M) :
    Reach (Maj.bils w M) (bil w 0 1) (bil w a b) := by
  have h01 : bil w 0 1 ∈ Maj.bils w M := Maj.mem_bils.2 ⟨0, 1, by omega, by omega, rfl⟩
  have r0 : Reach (Maj.bils w M) (bil w 0 1) (bil w 0 1) := Reach.refl h01
  -- from `e_01` to `e_0c`, c ≥ 2
  have step0 : ∀ c, 2 ≤ c → c < M → Reach (Maj.bils w M) (bil w 0 1) (bil w 0 c) := fun c hc hcM =>
    Reach.step r0 (mem_bils_ne (by omega) (by omega) hcM)
      (h.bil_share (p := 0) (a := 1) (b := c) (by omega) (by omega) hcM (by omega) (by omega) (by omega)).1
  by_cases ha0 : a = 0
  · subst ha0
    by_cases hb1 : b = 1
    · subst hb1; exact r0
    · exact step0 b (by omega) hb
  · by_cases ha1 : a = 1
    · subst ha1
      -- `e_01 = e_10` and `e_1b` share the index 1
      have := (h.bil_share (p := 1) (a := 0) (b := b) (by omega) (by omega) hb (by omega) (by omega) (by omega)).1
      rw [bil_comm w 1 0] at this
      exact Reach.step r0 (mem_bils_ne (by omega) (by omega) hb) this
    · -- `e_0a = e_a0` and `e_ab` share the index a
      have := (h.bil_share (p := a) (a := 0) (b := b) (by omega) (by omega) hb (by omega) (by omega) (by omega)).1
      rw [bil_comm w a 0] at this
      exact Reach.step (step0 a (by omega) (by omega)) (mem_bils_ne (by omega) (by omega) hb) this

/-- the raw data of the block: `M(M−1)/2` members, one with the pattern of `e_01`, `1 + (M−2)(M−3)/2`
commuting with `e_01` -/
theorem raw_bils (h : Maj (2 * n) M w) (hM : 5 ≤ M) :
    raw (Maj.bils w M) (bil w 0 1) = (M * (M - 1) / 2, 1, 1 + (M - 2) * (M - 3) / 2) := by
  have h01 : bil w 0 1 ∈ Maj.bils w M := Maj.mem_bils.2 ⟨0, 1, by omega, by omega, rfl⟩
  unfold raw
  refine Prod.ext ?_ (Prod.ext ?_ ?_)
  · show (Maj.bils w M).length = _
    rw [Maj.bils, List.length_map, length_pairs]
  · show ((Maj.bils w M).filter _).length = 1
    apply filter_unique h.nodup_bils h01
    · simp
    · intro y hy hP
      rw [List.all_eq_true] at hP
      obtain ⟨c, d, hcd, hd, rfl⟩ := Maj.mem_bils.1 hy
      have t1 := hP _ h01
      rw [omega_self, h.omega_bil (by omega) hd (by omega) (by omega)] at t1
      by_cases hc0 : c = 0
      · subst hc0
        by_cases hd1 : d = 1
        · subst hd1; rfl
        · exfalso
          have e1 : d ≠ 0 := by omega
          simp [hd1, e1] at t1
      · by_cases hc1 : c = 1
        · subst hc1
          exfalso
          have e1 : d ≠ 0 := by omega
          have e2 : d ≠ 1 := by omega
          simp [e1, e2] at t1
        · exfalso
          -- a fifth index separates `e_cd` from `e_01`
          have : ∃ f, f < M ∧ 2 ≤ f ∧ f ≠ c ∧ f ≠ d := by
            by_cases h2 : c ≠ 2 ∧ d ≠ 2
            · exact ⟨2, by omega, by omega, by omega, by omega⟩
            · by_cases h3 : c ≠ 3 ∧ d ≠ 3
              · exact ⟨3, by omega, by omega, by omega, by omega⟩
              · exact ⟨4, by omega, by omega, by omega, by omega⟩
          obtain ⟨f, hf, hf2, hfc, hfd⟩ := this
          have t2 := hP _ (mem_bils_ne (w := w) (a := 0) (b := f) (by omega) (by omega) hf)
          rw [h.omega_bil_disjoint (by omega) hd (by omega) hf (by omega) (Ne.symm hfc) (by omega) (Ne.symm hfd),
            (h.bil_share (p := 0) (a := 1) (b := f) (by omega) (by omega) hf (by omega) (by omega) (by omega)).1] at t2
          simp at t2
  · show ((Maj.bils w M).filter _).length = _
    rw [Maj.bils, List.filter_map, List.length_map]
    have : (pairs M).filter ((fun y => !(omega (bil w 0 1) y)) ∘ fun p => bil w p.1 p.2) = (pairs M).filter qComm := by
      apply List.filter_congr
      intro p hp
      obtain ⟨h1, h2⟩ := mem_pairs.1 hp
      simp only [Function.comp, qComm]
      rw [h.omega_bil (by omega) (by omega) (by omega) h2]
    obtain ⟨k, rfl⟩ : ∃ k, M = k + 2 := ⟨M - 2, by omega⟩
    rw [this, count_qComm, length_pairs]
    simp only [Nat.add_sub_cancel]
    rw [show k + 2 - 3 = k - 1 by omega]

/-- the per-block entry of `invOfClosure` for an so(M) block, M ≥ 5 -/
theorem inv1_bils (h : Maj (2 * n) M w) (hM : 5 ≤ M) :
    inv1 (Maj.bils w M) = (dimSO M, labelOfName .SO M, 1) := by
  obtain ⟨t, ht⟩ := pairs_head M (by omega)
  have hl : Maj.bils w M = bil w 0 1 :: t.map (fun p => bil w p.1 p.2) := by
    rw [Maj.bils, ht]; rfl
  have hr := raw_bils h hM
  rw [hl] at hr ⊢
  rw [inv1_eq_raw, hr]
  simp only [ofRaw, Nat.div_one]
  rw [labelOfBlock_so M hM]
  rfl

theorem isComp_bils (h : Maj (2 * n) M w) (hM : 3 ≤ M) {S : List V} (hsub : ∀ x ∈ Maj.bils w M, x ∈ S)
    (hcl : ∀ y ∈ Maj.bils w M, ∀ z ∈ S, omega y z = true → z ∈ Maj.bils w M) : IsComp S (Maj.bils w M) := by
  obtain ⟨t, ht⟩ := pairs_head M (by omega)
  refine ⟨bil w 0 1, t.map (fun p => bil w p.1 p.2), by rw [Maj.bils, ht]; rfl, ?_, hcl⟩
  intro y hy
  obtain ⟨a, b, hab, hb, rfl⟩ := Maj.mem_bils.1 hy
  exact (bils_reach h hM hab hb).mono hsub

end Bils

theorem restOf_eq_self {S : List V} (hp : ∀ x ∈ S, ∃ y ∈ S, omega x y = true) : restOf S = S := by
  unfold restOf
  rw [List.filter_eq_self]
  intro x hx
  rw [List.any_eq_true]
  exact hp x hx

theorem centreCount_zero {S : List V} (hp : ∀ x ∈ S, ∃ y ∈ S, omega x y = true) : centreCount S = 0 := by
  unfold centreCount
  rw [List.length_eq_zero_iff, List.filter_eq_nil_iff]
  intro x hx hall
  rw [List.all_eq_true] at hall
  obtain ⟨y, hy, ho⟩ := hp x hx
  have := hall y hy
  rw [ho] at this
  cases this

theorem invOfName_so (M : Nat) (hM : 5 ≤ M) :
    invOfName [TwoLocal.so M] = ⟨0, mergeSimples [(dimSO M, labelOfName .SO M, 1)]⟩ := by
  obtain ⟨k, rfl⟩ : ∃ k, M = k + 5 := ⟨M - 5, by omega⟩
  rfl

theorem invOfName_so_so (M : Nat) (hM : 5 ≤ M) :
    invOfName [TwoLocal.so M, TwoLocal.so M] =
      ⟨0, mergeSimples [(dimSO M, labelOfName .SO M, 1), (dimSO M, labelOfName .SO M, 1)]⟩ := by
  obtain ⟨k, rfl⟩ : ∃ k, M = k + 5 := ⟨M - 5, by omega⟩
  rfl

/-- **the full invariant of the set of all bilinears of M ≥ 5 Majoranas is that of `so(M)`** -/
theorem invOfClosure_bils {n M : Nat} {w : Nat → V} (h : Maj (2 * n) M w) (hM : 5 ≤ M) :
    invOfClosure (Maj.bils w M) = invOfName [TwoLocal.so M] := by
  have hp := bils_partner h (by omega)
  rw [invOfClosure_of_blocks (closedSet_bils h) h.nodup_bils (bs := [Maj.bils w M])
    (by
      intro c hc
      simp only [List.mem_singleton] at hc
      subst hc
      exact ⟨isComp_bils h (by omega) (fun x hx => hx) (fun _ _ z hz _ => hz), h.nodup_bils⟩)
    (by rw [restOf_eq_self hp]; simp),
    centreCount_zero hp, invOfName_so M hM]
  simp only [List.map_cons, List.map_nil, inv1_bils h hM]

/-- **two mutually commuting so(m) blocks inside one Majorana family**: the full invariant is that
of `so(m)+so(m)` -/
theorem invOfClosure_two_blocks {n M m : Nat} {w : Nat → V} (h : Maj (2 * n) M w) {σ τ : Nat → Nat}
    (hσ : ∀ i, i < m → σ i < M) (sσ : ∀ i j, i < j → j < m → σ i < σ j)
    (hτ : ∀ i, i < m → τ i < M) (sτ : ∀ i j, i < j → j < m → τ i < τ j)
    (hd : ∀ i j, i < m → j < m → σ i ≠ τ j) (hm : 5 ≤ m) :
    ClosedSet n (Maj.bils (fun i => w (σ i)) m ++ Maj.bils (fun i => w (τ i)) m) ∧
    (Maj.bils (fun i => w (σ i)) m ++ Maj.bils (fun i => w (τ i)) m).Nodup ∧
    invOfClosure (Maj.bils (fun i => w (σ i)) m ++ Maj.bils (fun i => w (τ i)) m) =
      invOfName [TwoLocal.so m, TwoLocal.so m] := by
  have inj : ∀ {ρ : Nat → Nat}, (∀ i j, i < j → j < m → ρ i < ρ j) → ∀ i j, i < m → j < m → ρ i = ρ j → i = j := by
    intro ρ hρ i j hi hj e
    rcases Nat.lt_trichotomy i j with hlt | heq | hgt
    · have := hρ i j hlt hj; omega
    · exact heq
    · have := hρ j i hgt hi; omega
  have hMσ : Maj (2 * n) m (fun i => w (σ i)) := h.comp hσ (inj sσ)
  have hMτ : Maj (2 * n) m (fun i => w (τ i)) := h.comp hτ (inj sτ)
  have cross : ∀ x ∈ Maj.bils (fun i => w (σ i)) m, ∀ y ∈ Maj.bils (fun i => w (τ i)) m,
      omega x y = false ∧ x ≠ y := by
    intro x hx y hy
    obtain ⟨a, b, hab, hb, rfl⟩ := Maj.mem_bils.1 hx
    obtain ⟨c, d, hcd, hd', rfl⟩ := Maj.mem_bils.1 hy
    refine ⟨h.omega_bil_disjoint (hσ a (by omega)) (hσ b hb) (hτ c (by omega)) (hτ d hd')
      (hd a c (by omega) (by omega)) (hd a d (by omega) hd') (hd b c hb (by omega)) (hd b d hb hd'), ?_⟩
    intro e
    have := (h.bil_inj (sσ a b hab hb) (hσ b hb) (sτ c d hcd hd') (hτ d hd') e).1
    exact hd a c (by omega) (by omega) this
  have cA := closedSet_bils hMσ
  have cB := closedSet_bils hMτ
  have hS : ClosedSet n (Maj.bils (fun i => w (σ i)) m ++ Maj.bils (fun i => w (τ i)) m) := by
    constructor
    · intro x hx
      rcases List.mem_append.1 hx with hx | hx
      · exact cA.len x hx
      · exact cB.len x hx
    · intro x hx y hy ho
      rcases List.mem_append.1 hx with hx | hx <;> rcases List.mem_append.1 hy with hy | hy
      · exact List.mem_append_left _ (cA.add x hx y hy ho)
      · rw [(cross x hx y hy).1] at ho; cases ho
      · rw [omega_comm, (cross y hy x hx).1] at ho; cases ho
      · exact List.mem_append_right _ (cB.add x hx y hy ho)
  have hnd : (Maj.bils (fun i => w (σ i)) m ++ Maj.bils (fun i => w (τ i)) m).Nodup := by
    rw [List.nodup_append]
    exact ⟨hMσ.nodup_bils, hMτ.nodup_bils, fun x hx y hy => (cross x hx y hy).2⟩
  have hp : ∀ x ∈ Maj.bils (fun i => w (σ i)) m ++ Maj.bils (fun i => w (τ i)) m,
      ∃ y ∈ Maj.bils (fun i => w (σ i)) m ++ Maj.bils (fun i => w (τ i)) m, omega x y = true := by
    intro x hx
    rcases List.mem_append.1 hx with hx | hx
    · obtain ⟨y, hy, ho⟩ := bils_partner hMσ (by omega) x hx
      exact ⟨y, List.mem_append_left _ hy, ho⟩
    · obtain ⟨y, hy, ho⟩ := bils_partner hMτ (by omega) x hx
      exact ⟨y, List.mem_append_right _ hy, ho⟩
  refine ⟨hS, hnd, ?_⟩
  rw [invOfClosure_of_blocks hS hnd (bs := [Maj.bils (fun i => w (σ i)) m, Maj.bils (fun i => w (τ i)) m])
    (by
      intro c hc
      simp only [List.mem_cons, List.not_mem_nil, or_false] at hc
      rcases hc with rfl | rfl
      · refine ⟨isComp_bils hMσ (by omega) (fun x hx => List.mem_append_left _ hx) ?_, hMσ.nodup_bils⟩
        intro y hy z hz ho
        rcases List.mem_append.1 hz with hz | hz
        · exact hz
        · rw [(cross y hy z hz).1] at ho; cases ho
      · refine ⟨isComp_bils hMτ (by omega) (fun x hx => List.mem_append_right _ hx) ?_, hMτ.nodup_bils⟩
        intro y hy z hz ho
        rcases List.mem_append.1 hz with hz | hz
        · rw [omega_comm, (cross z hz y hy).1] at ho; cases ho
        · exact hz)
    (by rw [restOf_eq_self hp]; simp),
    centreCount_zero hp, invOfName_so_so m hm]
  simp only [List.map_cons, List.map_nil, inv1_bils hMσ hm, inv1_bils hMτ hm]

end C19
end PauLie
