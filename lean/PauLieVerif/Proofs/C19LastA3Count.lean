/-
Helpers for property C19, part 35: the number of strings in the closed form of a3 is the dimension of the row `_a3(n)`
for every n ≥ 3 (period 8).

`8·|{x : ω(x,A) = ω(x,B) = 0, qW x = 1}| = 4^n + e·2^n` with `e = −4, −2, 0, 2, 4, 2, 0, −2` for `n ≡ 0, …, 7 (mod 8)`
(`cnt_a3`, from the transfer table `tab3`); two non-zero members of the span satisfy the three conditions when
`n ≡ 2, 6 (mod 8)`, none otherwise (`exc3`).
-/
import PauLieVerif.Proofs.C19LastA3
import PauLieVerif.Proofs.C19LastCount

namespace PauLie
namespace C19
open Closure Graph C01Star C03

def tab3 : List (List Int) :=
  [[4, -4, 0, 0, 0, 0, 0, 0], [2, -2, 2, -2, -2, 2, 2, -2], [0, 0, 0, 0, 0, 0, 4, -4], [-2, 2, 2, -2, 2, -2, 2, -2],
   [-4, 4, 0, 0, 0, 0, 0, 0], [-2, 2, -2, 2, 2, -2, -2, 2], [0, 0, 0, 0, 0, 0, -4, 4], [2, -2, -2, 2, -2, 2, -2, 2]]

/-- `E3 (m mod 8) s = (8·cntS m s − 4^m) / 2^m` -/
def E3 (r : Nat) (sA sB sQ : Bool) : Int :=
  (tab3.getD r []).getD ((if sA then 4 else 0) + (if sB then 2 else 0) + (if sQ then 1 else 0)) 0

def G3tf (r : Nat) : Bool × Bool × Bool :=
  [(false, false, false), (false, true, false), (false, false, true), (false, true, true), (false, false, false),
   (false, true, false), (false, false, true), (false, true, true)].getD r (false, false, false)
def G3ft (r : Nat) : Bool × Bool × Bool :=
  [(false, false, false), (true, false, true), (false, false, true), (true, false, true), (false, false, false),
   (true, false, true), (false, false, true), (true, false, true)].getD r (false, false, false)
def G3tt (r : Nat) : Bool × Bool × Bool :=
  [(false, false, false), (true, true, false), (false, false, false), (true, true, true), (false, false, false),
   (true, true, false), (false, false, false), (true, true, true)].getD r (false, false, false)

theorem per8_a3A : PerP 8 a3A := by intro i; rfl
theorem per8_a3B : PerP 8 a3B := by intro i; simp only [a3B]; rw [show (i + 8) % 2 = i % 2 by omega]
theorem per8_a3W : PerP 8 a3W := by intro i; simp only [a3W]; rw [show (i + 8) % 4 = i % 4 by omega]

theorem cnt_a3 : ∀ m, 1 ≤ m → ∀ sA sB sQ, (8 * (cntS a3A a3B a3W m sA sB sQ : Int)) = 4 ^ m + E3 (m % 8) sA sB sQ * 2 ^ m :=
  cntS_closed a3A a3B a3W (L := 8) (by omega) per8_a3A per8_a3B per8_a3W E3 (by decide +kernel) (by decide +kernel)

theorem st3tf : ∀ n, stP a3A a3B a3W true false n = G3tf (n % 8) :=
  stP_closed a3A a3B a3W (L := 8) (by omega) per8_a3A per8_a3B per8_a3W true false G3tf rfl (by decide +kernel)
theorem st3ft : ∀ n, stP a3A a3B a3W false true n = G3ft (n % 8) :=
  stP_closed a3A a3B a3W (L := 8) (by omega) per8_a3A per8_a3B per8_a3W false true G3ft rfl (by decide +kernel)
theorem st3tt : ∀ n, stP a3A a3B a3W true true n = G3tt (n % 8) :=
  stP_closed a3A a3B a3W (L := 8) (by omega) per8_a3A per8_a3B per8_a3W true true G3tt rfl (by decide +kernel)

/-- the number of excluded members of the span -/
def exc3 (r : Nat) : Nat := indS (G3tf r) + indS (G3ft r) + indS (G3tt r)

/-- `8·(|T3| + exc) = 4^n + e·2^n` -/
theorem count_T3_key (n : Nat) (hn : 1 ≤ n) :
    (8 * ((((allV (2 * n)).filter T3).length + exc3 (n % 8) : Nat) : Int)) = 4 ^ n + E3 (n % 8) false false true * 2 ^ n := by
  obtain ⟨j, rfl⟩ : ∃ j, n = j + 1 := ⟨n - 1, by omega⟩
  have hc := count_TP a3A a3B a3W noId_a3 j
  rw [length_exc, st3tf, st3ft, st3tt] at hc
  rw [← cnt_a3 (j + 1) hn false false true, ← hc]
  rfl

open TwoLocal Classify in
/-- **|T3| is the dimension of the row of a3**, every n ≥ 3 -/
theorem count_T3 (n : Nat) (hn : 3 ≤ n) : ∃ nm, TwoLocal.a3 n = some nm ∧ ((allV (2 * n)).filter T3).length = dimOfName nm := by
  obtain ⟨j, rfl⟩ : ∃ j, n = j + 2 := ⟨n - 2, by omega⟩
  have key := count_T3_key (j + 2) (by omega)
  have hX : (4 : Int) ^ (j + 2) = 16 * ((4 ^ j : Nat) : Int) := by push_cast; ring
  have hY : (2 : Int) ^ (j + 2) = 4 * ((2 ^ j : Nat) : Int) := by push_cast; ring
  have p4 : 1 ≤ 4 ^ j := Nat.pow_pos (by omega)
  have p2 : 1 ≤ 2 ^ j := Nat.pow_pos (by omega)
  have d1 := dimOfName_so_pow (j + 1)
  have d2 := dimOfName_so_pow j
  have d3 := dimOfName_so4 j
  have d4 := dimOfName_su2 j
  have d5 := dimOfName_sp_pow j
  have q2 : 2 ^ (j + 1) = 2 * 2 ^ j := by rw [Nat.pow_succ]; omega
  have q4 : 4 ^ (j + 1) = 4 * 4 ^ j := by rw [Nat.pow_succ]; omega
  rw [hX, hY] at key
  have hr : (j + 2) % 8 = 0 ∨ (j + 2) % 8 = 1 ∨ (j + 2) % 8 = 2 ∨ (j + 2) % 8 = 3 ∨ (j + 2) % 8 = 4 ∨ (j + 2) % 8 = 5 ∨
      (j + 2) % 8 = 6 ∨ (j + 2) % 8 = 7 := by omega
  rcases hr with h | h | h | h | h | h | h | h <;> rw [h] at key
  · refine ⟨[so (2 ^ j) 4], by simp [TwoLocal.a3, h], ?_⟩
    have e1 : E3 0 false false true = -4 := by decide
    have e2 : exc3 0 = 0 := by decide
    rw [e1, e2] at key
    omega
  · refine ⟨[so (2 ^ (j + 1))], by simp [TwoLocal.a3, h], ?_⟩
    have e1 : E3 1 false false true = -2 := by decide
    have e2 : exc3 1 = 0 := by decide
    rw [e1, e2] at key
    omega
  · refine ⟨[su (2 ^ j) 2], by simp [TwoLocal.a3, h], ?_⟩
    have e1 : E3 2 false false true = 0 := by decide
    have e2 : exc3 2 = 2 := by decide
    rw [e1, e2] at key
    omega
  · refine ⟨[sp (2 ^ j)], by simp [TwoLocal.a3, h], ?_⟩
    have e1 : E3 3 false false true = 2 := by decide
    have e2 : exc3 3 = 0 := by decide
    rw [e1, e2] at key
    omega
  · obtain ⟨i, rfl⟩ : ∃ i, j = i + 1 := ⟨j - 1, by omega⟩
    refine ⟨[sp (2 ^ i) 4], by simp [TwoLocal.a3, h], ?_⟩
    have e1 : E3 4 false false true = 4 := by decide
    have e2 : exc3 4 = 0 := by decide
    have d6 := dimOfName_sp4 i
    have r2 : 2 ^ (i + 1) = 2 * 2 ^ i := by rw [Nat.pow_succ]; omega
    have r4 : 4 ^ (i + 1) = 4 * 4 ^ i := by rw [Nat.pow_succ]; omega
    rw [e1, e2] at key
    omega
  · refine ⟨[sp (2 ^ j)], by simp [TwoLocal.a3, h], ?_⟩
    have e1 : E3 5 false false true = 2 := by decide
    have e2 : exc3 5 = 0 := by decide
    rw [e1, e2] at key
    omega
  · refine ⟨[su (2 ^ j) 2], by simp [TwoLocal.a3, h], ?_⟩
    have e1 : E3 6 false false true = 0 := by decide
    have e2 : exc3 6 = 2 := by decide
    rw [e1, e2] at key
    omega
  · refine ⟨[so (2 ^ (j + 1))], by simp [TwoLocal.a3, h], ?_⟩
    have e1 : E3 7 false false true = -2 := by decide
    have e2 : exc3 7 = 0 := by decide
    rw [e1, e2] at key
    omega

end C19
end PauLie
