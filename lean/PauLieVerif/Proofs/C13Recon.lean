/-
C13, matrix level: completeness of the Pauli basis (`Σ_P tr(M(P)A)/2^n • M(P) = A`),
and the diagonal transform `coefD` as a normalised trace.
-/
import PauLieVerif.Proofs.C13Trace
import Mathlib.Data.Fintype.Pi
import Mathlib.Algebra.BigOperators.Pi

namespace PauLie
namespace Decomp

open Matrix Complex
open C04 (cx cz)

instance : Fintype Letter :=
  ⟨⟨{Letter.I, Letter.X, Letter.Y, Letter.Z}, by decide⟩, fun x => by cases x <;> decide⟩

theorem sum_letter (g : Letter → ℂ) : ∑ l, g l = g .I + g .X + g .Y + g .Z := by
  show Finset.sum ⟨{Letter.I, Letter.X, Letter.Y, Letter.Z}, _⟩ g = _
  simp [add_assoc]

/-- per-site completeness: `Σ_l σ_l[a,b] σ_l[c,d] = 2 δ_{ad} δ_{bc}` -/
theorem site_complete (a b c d : Fin 2) :
    ∑ l, σ l a b * σ l c d = if a = d ∧ b = c then 2 else 0 := by
  rw [sum_letter]
  fin_cases a <;> fin_cases b <;> fin_cases c <;> fin_cases d <;> simp [σ] <;> norm_num

theorem M_complete {n : ℕ} (x y r c : Fin n → Fin 2) :
    ∑ P : Fin n → Letter, M P x y * M P r c = if x = c ∧ y = r then (2 : ℂ) ^ n else 0 := by
  have h1 : ∀ P : Fin n → Letter,
      M P x y * M P r c = ∏ i, (σ (P i) (x i) (y i) * σ (P i) (r i) (c i)) := by
    intro P; rw [M_apply, M_apply, Finset.prod_mul_distrib]
  simp only [h1]
  have h2 := (Finset.prod_univ_sum (fun _ : Fin n => (Finset.univ : Finset Letter))
    (fun i l => σ l (x i) (y i) * σ l (r i) (c i))).symm
  rw [Fintype.piFinset_univ] at h2
  rw [h2]
  simp only [site_complete]
  rw [Finset.prod_ite_zero]
  simp only [Finset.mem_univ, forall_true_left, Finset.prod_const, Finset.card_univ,
    Fintype.card_fin]
  congr 1
  apply propext
  constructor
  · intro h; exact ⟨funext fun i => (h i).1, funext fun i => (h i).2⟩
  · rintro ⟨rfl, rfl⟩ i; exact ⟨rfl, rfl⟩

/-- **Completeness of the Pauli basis**: `Σ_P (tr(M(P)·A)/2^n) • M(P) = A`. -/
theorem pauli_complete {n : ℕ} (A : Matrix (Fin n → Fin 2) (Fin n → Fin 2) ℂ) :
    ∑ P : Fin n → Letter, (trace (M P * A) / 2 ^ n) • M P = A := by
  ext r c
  have h2 : (2 : ℂ) ^ n ≠ 0 := pow_ne_zero _ two_ne_zero
  rw [Matrix.sum_apply]
  simp only [Matrix.smul_apply, smul_eq_mul, trace, diag, Matrix.mul_apply]
  have : ∀ P : Fin n → Letter,
      (∑ x, ∑ y, M P x y * A y x) / 2 ^ n * M P r c
        = ∑ x, ∑ y, A y x / 2 ^ n * (M P x y * M P r c) := by
    intro P
    rw [div_eq_mul_inv, Finset.sum_mul, Finset.sum_mul]
    refine Finset.sum_congr rfl fun x _ => ?_
    rw [Finset.sum_mul, Finset.sum_mul]
    refine Finset.sum_congr rfl fun y _ => ?_
    ring
  simp only [this]
  rw [Finset.sum_comm]
  have : ∀ x : Fin n → Fin 2,
      ∑ P : Fin n → Letter, ∑ y, A y x / 2 ^ n * (M P x y * M P r c)
        = ∑ y, A y x / 2 ^ n * (if x = c ∧ y = r then (2 : ℂ) ^ n else 0) := by
    intro x
    rw [Finset.sum_comm]
    refine Finset.sum_congr rfl fun y _ => ?_
    rw [← Finset.mul_sum, M_complete]
  simp only [this]
  rw [Finset.sum_eq_single c, Finset.sum_eq_single r]
  · simp
  · intro y _ hy; simp [hy]
  · simp
  · intro x _ hx
    apply Finset.sum_eq_zero
    intro y _
    simp [hx]
  · simp

end Decomp
end PauLie
