/-
Why the left search fails for odd `k`: the quadratic form `Q` of C07 is constant along every walk over
`left_a_minimal(k)`; hence `left_map_over_a` cannot join strings of different `Q`, and the `W = I`
branch of `compile` returns nothing for a left block with an even number of non-identity letters.
-/
import PauLieVerif.Proofs.CompilerSearchSound
import PauLieVerif.Properties.C06

namespace PauLie
namespace CompilerSearch
open Compiler C07 Closure

theorem adjointMap_of_step {a p q : PS} (hc : PS.commutesWith a p = .ok false) (hm : PS.multiply a p = .ok q) :
    PS.adjointMap a p = .ok (some q) := by
  unfold PS.adjointMap
  unfold PS.multiply at hm
  simp only [hc, bind, Except.bind, Bool.false_eq_true, if_false] at hm ⊢
  by_cases hl : a.bits.length ≠ p.bits.length
  · simp [hl, throw, throwThe, MonadExceptOf.throw] at hm
  · simp only [hl, if_false] at hm ⊢
    cases hx : PS.xorBits a.bits p.bits with
    | error e => simp [hx] at hm
    | ok x =>
      simp only [hx, pure, Except.pure] at hm ⊢
      cases hm
      rfl

theorem aset_mem {k : Nat} {a : PS} (ha : a ∈ aset k) : ∃ l ∈ leftLetters k, a = PS.ofLetters l := by
  obtain ⟨l, hl, rfl⟩ := List.mem_map.mp ha
  exact ⟨l, hl, rfl⟩

/-- for odd `k` the form `Q` is constant along every walk over the left generators -/
theorem walk_Q_odd {k : Nat} (hodd : k % 2 = 1) {p r : PS} {l : List PS} (hw : Walk (aset k) p l r) :
    p.WF → p.len = k → r.WF ∧ r.len = k ∧ Q k r.bits = Q k p.bits := by
  induction hw with
  | nil p => intro h1 h2; exact ⟨h1, h2, rfl⟩
  | cons hst _ ih =>
    rename_i p a q l r
    intro hp hpk
    obtain ⟨ha, hc, hm⟩ := hst
    obtain ⟨la, hla, rfl⟩ := aset_mem ha
    have haw : (PS.ofLetters la).WF := C18.wf_ofLetters la
    have hak : (PS.ofLetters la).len = k := by rw [C18.len_ofLetters, length_of_mem_leftLetters hla]
    obtain ⟨hqb, hom, hqw, hqk⟩ := C06.adjointMap_bits haw hp hak hpk (adjointMap_of_step hc hm)
    obtain ⟨i1, i2, i3⟩ := ih hqw hqk
    refine ⟨i1, i2, ?_⟩
    rw [i3, hqb, Q_add k _ _ (by rw [C04.WF_bits_length haw, C04.WF_bits_length hp, hak, hpk]), hom]
    have hqa : Q k (PS.ofLetters la).bits = true := by
      show Q k (encode la) = true
      rw [Q_encode]; exact QL_leftLetters hodd hla
    rw [hqa]
    generalize Q k _ = b
    cases b <;> rfl

theorem Q_bits_of_WF {k : Nat} {p : PS} (hp : p.WF) : Q k p.bits = QL k p.letters := by
  have hb : p.bits = encode p.letters := by
    conv_lhs => rw [C04.WF_eq_ofLetters hp]
    rfl
  rw [hb, Q_encode]

/-- **why the left search fails for odd `k`** (every odd `k`, all strings of length `k`): if start and
goal differ in the parity `Q` of their number of non-identity letters, `left_map_over_a` over
`left_a_minimal(k)` cannot return — no walk joins them (each generator has `Q = 1` and
anticommutes with the current string, so `Q` never changes) -/
theorem leftMapOverA_odd_obstruction (k : Nat) (hodd : k % 2 = 1) (f t : PS) (hf : f.WF) (hfk : f.len = k)
    (hq : QL k f.letters ≠ QL k t.letters) (path : List PS) :
    leftMapOverA f t (aset k) ≠ .ok path := by
  intro h
  obtain ⟨r, hw, hkey⟩ := leftMapOverA_sound _ _ _ _ h
  obtain ⟨hrw, _, hQ⟩ := walk_Q_odd hodd hw hf hfk
  rw [Q_bits_of_WF hrw, Q_bits_of_WF hf] at hQ
  have : r.letters = t.letters := hkey
  rw [this] at hQ
  exact hq hQ.symm


/-- **C06 fails for every odd `k`, every `N`** (model of `compile_target`): a target whose right block
is the identity and whose left block has an EVEN number of non-identity letters is never compiled —
every one of the `2k+1` left searches of the `W = I` branch is obstructed, so no sequence is returned -/
theorem compileTarget_odd_wI_never_returns (t : PS) (k n : Nat) (hn : t.len = n) (hk : 2 ≤ k) (hkn : k < n)
    (hodd : k % 2 = 1)
    (hW : (t.getSubstring (k : Int) ((n : Int) - (k : Int))).isIdentity = true)
    (hQ : QL k (t.letters.take k) = false) (s : List PS) :
    compileTarget t (k : Int) ≠ .ok s := by
  intro h
  unfold compileTarget at h
  cases hB : compileTargetB t (k : Int) with
  | error e => rw [hB] at h; cases h
  | ok bs =>
    obtain ⟨b, s'⟩ := bs
    rw [compileTargetB_eq t k n hn hk hkn] at hB
    unfold compileWith at hB
    split at hB
    · simp [throw, throwThe, MonadExceptOf.throw] at hB
    · obtain ⟨_, a0, seqA, g0, gs, ha0, hlm, _⟩ := compileWI_sound _ _ _ _ _ _ _ hB
      obtain ⟨la, hla, rfl⟩ := aset_mem ha0
      refine leftMapOverA_odd_obstruction k hodd _ _ (C18.wf_ofLetters la)
        (by rw [C18.len_ofLetters, length_of_mem_leftLetters hla]) ?_ _ hlm
      rw [C18.letters_ofLetters, QL_leftLetters hodd hla]
      have : (t.getSubstring 0 (k : Int)).letters = t.letters.take k := leftPart_letters t k
      rw [this, hQ]
      decide

end CompilerSearch
end PauLie
