/-
Helpers for property C19, part 26: the number of strings in the closed form `T7` of family a7:
`4^(n−1) − 1` for odd n, `4^(n−1) − 4` for even n (n ≥ 1) - the dimensions of `su(2^(n−1))` and `4·su(2^(n−2))`.
-/
import PauLieVerif.Proofs.C19RestA7
import PauLieVerif.Proofs.C19RestA13

namespace PauLie
namespace C19
open Closure Graph C01Star C03

/-- commuting with `X…X` and `Z…Z` -/
def P7 (x : V) : Bool := !parZ x && !parX x

theorem count_P7 (n : Nat) : ((allV (2 * (n + 1))).filter P7).length = 4 ^ n := by
  rw [show 2 * (n + 1) = 2 * n + 2 by omega, length_filter_allV_add_two]
  have : ∀ v : V, ((if P7 (false :: false :: v) then 1 else 0) + (if P7 (true :: false :: v) then 1 else 0) +
      (if P7 (false :: true :: v) then 1 else 0) + (if P7 (true :: true :: v) then 1 else 0)) = 1 := by
    intro v; simp only [P7, parZ, parX]
    rcases Bool.eq_false_or_eq_true (parZ v) with h | h <;> rcases Bool.eq_false_or_eq_true (parX v) with h' | h' <;>
      simp [h, h']
  simp only [this]
  rw [List.map_const', List.sum_replicate_nat, length_allV, Nat.pow_mul]
  simp

/-- the uniform string `L L … L` -/
def lsV (l1 l2 : Bool) : Nat → V
  | 0 => []
  | n + 1 => l1 :: l2 :: lsV l1 l2 n

theorem isL_iff (l1 l2 : Bool) : ∀ (x : V) (n : Nat), x.length = 2 * n → (isL l1 l2 x = true ↔ x = lsV l1 l2 n)
  | [], 0, _ => by simp [isL, lsV]
  | [], n + 1, h => by simp at h
  | [_], n, h => by simp at h; omega
  | a :: b :: r, 0, h => by simp at h
  | a :: b :: r, n + 1, h => by
    simp only [isL, lsV, Bool.and_eq_true, beq_iff_eq, List.cons.injEq, isL_iff l1 l2 r n (by simp at h; omega)]
    constructor
    · rintro ⟨⟨h1, h2⟩, h3⟩; exact ⟨h1, h2, h3⟩
    · rintro ⟨h1, h2, h3⟩; exact ⟨⟨h1, h2⟩, h3⟩

theorem length_lsV (l1 l2 : Bool) : ∀ n, (lsV l1 l2 n).length = 2 * n
  | 0 => rfl
  | n + 1 => by simp [lsV, length_lsV l1 l2 n]; omega

theorem parZ_lsV (l1 l2 : Bool) : ∀ n, parZ (lsV l1 l2 n) = (l2 && (n % 2 == 1))
  | 0 => by simp [lsV, parZ]
  | n + 1 => by
    simp only [lsV, parZ, parZ_lsV l1 l2 n]
    rcases Nat.mod_two_eq_zero_or_one n with h | h <;> cases l2 <;> simp [h, Nat.add_mod]

theorem parX_lsV (l1 l2 : Bool) : ∀ n, parX (lsV l1 l2 n) = (l1 && (n % 2 == 1))
  | 0 => by simp [lsV, parX]
  | n + 1 => by
    simp only [lsV, parX, parX_lsV l1 l2 n]
    rcases Nat.mod_two_eq_zero_or_one n with h | h <;> cases l1 <;> simp [h, Nat.add_mod]

/-- removing a duplicate-free list `E` of members satisfying `P` from the filter -/
theorem length_filter_remove {l : List V} (hl : l.Nodup) (P : V → Bool) (E : List V) (hE : E.Nodup)
    (hin : ∀ e ∈ E, e ∈ l ∧ P e = true) :
    (l.filter (fun x => P x && !E.contains x)).length + E.length = (l.filter P).length := by
  have s := length_filter_split (fun x => !E.contains x) (fun x => !(!E.contains x)) (fun _ => rfl) (l.filter P)
  rw [List.filter_filter, List.filter_filter] at s
  have : (l.filter (fun x => P x && !(!E.contains x))).Perm E := by
    rw [List.perm_ext_iff_of_nodup (hl.filter _) hE]
    intro y
    simp only [List.mem_filter, Bool.not_not, Bool.and_eq_true, List.contains_iff_mem]
    exact ⟨fun h => h.2.2, fun h => ⟨(hin y h).1, (hin y h).2, h⟩⟩
  have e : (fun x => !E.contains x && P x) = (fun x => P x && !E.contains x) := by
    funext x; rw [Bool.and_comm]
  have e2 : (fun x => !(!E.contains x) && P x) = (fun x => P x && !(!E.contains x)) := by
    funext x; rw [Bool.and_comm]
  rw [e, e2] at s
  rw [this.length_eq] at s
  omega

def exc7L (n : Nat) : List V := [zeroV (2 * n), lsV true false n, lsV true true n, lsV false true n]

theorem T7_eq (n : Nat) (x : V) (hx : x.length = 2 * n) :
    T7 x = (P7 x && !((exc7L n).filter P7).contains x) := by
  have hc : ((exc7L n).filter P7).contains x = (P7 x && (isZ x || isL true false x || isL true true x || isL false true x)) := by
    rw [Bool.eq_iff_iff]
    simp only [List.contains_iff_mem, List.mem_filter, exc7L, List.mem_cons, List.not_mem_nil, or_false, Bool.and_eq_true,
      Bool.or_eq_true, isL_iff _ _ x n hx]
    have hz : isZ x = true ↔ x = zeroV (2 * n) := by rw [isZ_iff, hx]
    rw [hz]
    constructor
    · rintro ⟨h, hp⟩; exact ⟨hp, by rcases h with h | h | h | h <;> simp [h]⟩
    · rintro ⟨hp, h⟩; exact ⟨by rcases h with ((h | h) | h) | h <;> simp [h], hp⟩
  rw [hc]
  simp only [T7, P7]
  cases parZ x <;> cases parX x <;> cases isZ x <;> cases isL true false x <;> cases isL true true x <;>
    cases isL false true x <;> rfl

theorem count_T7 (n : Nat) :
    ((allV (2 * (n + 1))).filter T7).length + (if (n + 1) % 2 = 1 then 1 else 4) = 4 ^ n := by
  have e : (allV (2 * (n + 1))).filter T7 = (allV (2 * (n + 1))).filter (fun x => P7 x && !((exc7L (n + 1)).filter P7).contains x) := by
    apply List.filter_congr
    intro x hx
    exact T7_eq (n + 1) x (mem_allV.1 hx)
  have nd : (exc7L (n + 1)).Nodup := by
    simp [exc7L, lsV, zeroV, List.replicate_succ, Nat.mul_succ]
  have hrem := length_filter_remove (nodup_allV (2 * (n + 1))) P7 ((exc7L (n + 1)).filter P7) (nd.filter _) (by
    intro y hy
    obtain ⟨hy1, hy2⟩ := List.mem_filter.1 hy
    refine ⟨mem_allV.2 ?_, hy2⟩
    simp only [exc7L, List.mem_cons, List.not_mem_nil, or_false] at hy1
    rcases hy1 with rfl | rfl | rfl | rfl <;> simp [zeroV, length_lsV])
  rw [e, ← count_P7 n, ← hrem]
  congr 1
  have hz : P7 (zeroV (2 * (n + 1))) = true := by simp [P7, zeroV, parZ_replicate, parX_replicate]
  rcases Nat.mod_two_eq_zero_or_one (n + 1) with h | h
  · have : ∀ l1 l2, P7 (lsV l1 l2 (n + 1)) = true := by
      intro l1 l2; simp [P7, parZ_lsV, parX_lsV, h]
    simp [exc7L, List.filter, hz, this, h]
  · have : ∀ l1 l2, (l1 || l2) = true → P7 (lsV l1 l2 (n + 1)) = false := by
      intro l1 l2; cases l1 <;> cases l2 <;> simp [P7, parZ_lsV, parX_lsV, h]
    simp [exc7L, List.filter, hz, this true false rfl, this true true rfl, this false true rfl, h]

end C19
end PauLie
