/-
Helpers for property C19, part 30a: a SOUND (not complete) closure routine on strings encoded as natural numbers,
for kernel evaluation.

The verified enumerator `closureList` works on lists of Booleans; evaluated by the kernel its cost is dominated by the
membership tests on lists of lists.  Here a string of `m` bits is the number with these binary digits (`encN`,
`decN`), the sum of two strings is `^^^` (`decN_xor`), and the set of strings seen so far is a list of numbers, so the
kernel's accelerated arithmetic does the membership tests.  Only soundness is needed: every number in `closeN … gens gens`
decodes to a member of `Clo (gens.map decN)` (`closeN_sound`).

`peelChkN` is the variant of `peelChk` (`Proofs/C19RestPeel.lean`) evaluated this way, with the same consequence
(`clo_of_peelChkN`, `good_of_chkN`).  Core Lean only.
-/
import PauLieVerif.Proofs.C19RestSym

namespace PauLie
namespace C19
open Closure Graph C01Star C03

/-- the `m` lowest binary digits, lowest first -/
def decN : Nat → Nat → V
  | 0, _ => []
  | m + 1, n => (n % 2 == 1) :: decN m (n / 2)

def encN : V → Nat
  | [] => 0
  | b :: v => (if b then 1 else 0) + 2 * encN v

theorem decN_encN : ∀ (v : V), decN v.length (encN v) = v
  | [] => rfl
  | b :: v => by
    have ih := decN_encN v
    simp only [List.length_cons, decN, encN]
    have h1 : ((if b then 1 else 0) + 2 * encN v) / 2 = encN v := by cases b <;> simp <;> omega
    have h2 : (((if b then 1 else 0) + 2 * encN v) % 2 == 1) = b := by cases b <;> simp <;> omega
    rw [h1, h2, ih]

theorem decN_xor : ∀ (m a b : Nat), decN m (a ^^^ b) = add (decN m a) (decN m b)
  | 0, _, _ => rfl
  | m + 1, a, b => by
    simp only [decN, add, Nat.xor_div_two, decN_xor m]
    congr 1
    have h := @Nat.xor_mod_two_eq_one a b
    rcases Nat.mod_two_eq_zero_or_one a with ha | ha <;> rcases Nat.mod_two_eq_zero_or_one b with hb | hb <;>
      rcases Nat.mod_two_eq_zero_or_one (a ^^^ b) with hc | hc <;> simp [ha, hb, hc] at h ⊢

theorem length_decN : ∀ (m n : Nat), (decN m n).length = m
  | 0, _ => rfl
  | m + 1, n => by simp [decN, length_decN m]

/-- "decodes to a member of the closure" -/
def SN (m : Nat) (gens : List Nat) (n : Nat) : Prop := Clo (gens.map (decN m)) (decN m n)

/-- forces the kernel to evaluate `n` before continuing (`forceN n f = f n`) -/
def forceN {α : Type} (n : Nat) (f : Nat → α) : α :=
  match n with
  | 0 => f 0
  | k + 1 => f (k + 1)

theorem forceN_eq {α : Type} (n : Nat) (f : Nat → α) : forceN n f = f n := by
  cases n <;> rfl

theorem beq_one_testBit (n : Nat) : (n % 2 == 1) = n.testBit 0 := by
  rw [Nat.testBit_zero]
  rcases Nat.mod_two_eq_zero_or_one n with h | h <;> simp [h]

theorem decN_eq_map : ∀ (m n : Nat), decN m n = (List.range m).map (fun i => n.testBit i)
  | 0, _ => rfl
  | m + 1, n => by
    rw [decN, decN_eq_map m, List.range_succ_eq_map, List.map_cons, List.map_map, beq_one_testBit]
    congr 1
    apply List.map_congr_left
    intro i _
    simp [Nat.testBit_succ]

theorem decN10 (n : Nat) : decN 10 n = [n.testBit 0, n.testBit 1, n.testBit 2, n.testBit 3, n.testBit 4, n.testBit 5,
    n.testBit 6, n.testBit 7, n.testBit 8, n.testBit 9] := by
  rw [decN_eq_map]; rfl

/-- bit `2i` of `tN a g` is the contribution of site `i` to `ω(a, g)` -/
def tN (a g : Nat) : Nat := (a &&& (g >>> 1)) ^^^ ((a >>> 1) &&& g)

/-- the symplectic form of two strings on five sites, by accelerated arithmetic -/
def omegaN5 (a g : Nat) : Bool :=
  forceN (tN a g) (fun t => t.testBit 0 != (t.testBit 2 != (t.testBit 4 != (t.testBit 6 != t.testBit 8))))

theorem omegaN5_eq (a g : Nat) : omegaN5 a g = omega (decN 10 a) (decN 10 g) := by
  rw [decN10, decN10]
  simp only [omegaN5, forceN_eq, tN, omega, Nat.testBit_xor, Nat.testBit_and, Nat.testBit_shiftRight]
  simp

/-- one pass over the generators for the frontier element `a`; `sb` is the set of strings seen so far as a BIT SET
(bit `c` of `sb` = "the string with code `c` has been seen"), `nf` the new frontier.  The conditional is at the head of
every step and new values are forced, so that the kernel evaluates the accumulators eagerly. -/
def expandN (om : Nat → Nat → Bool) (a : Nat) : List Nat → Nat → List Nat → Nat × List Nat
  | [], sb, nf => (sb, nf)
  | g :: gs, sb, nf =>
    forceN (a ^^^ g) (fun c =>
      if om a g && !sb.testBit c then forceN (sb ||| 2 ^ c) (fun sb' => expandN om a gs sb' (c :: nf))
      else expandN om a gs sb nf)

/-- one round: every frontier element against every generator -/
def roundN (om : Nat → Nat → Bool) (gens : List Nat) : List Nat → Nat → List Nat → Nat × List Nat
  | [], sb, nf => (sb, nf)
  | a :: fr, sb, nf =>
    match expandN om a gens sb nf with
    | (s', n') => roundN om gens fr s' n'

def closeN (om : Nat → Nat → Bool) (gens : List Nat) : Nat → Nat → List Nat → Nat
  | 0, sb, _ => sb
  | f + 1, sb, fr =>
    match roundN om gens fr sb [] with
    | (s', n') => closeN om gens f s' n'

/-- the bit set of a list of codes -/
def bitsOf : List Nat → Nat → Nat
  | [], sb => sb
  | g :: gs, sb => forceN (sb ||| 2 ^ g) (fun sb' => bitsOf gs sb')

section Sound
variable {m : Nat} {gens : List Nat} {om : Nat → Nat → Bool}

theorem testBit_ins {sb c i : Nat} (h : (sb ||| 2 ^ c).testBit i = true) : sb.testBit i = true ∨ i = c := by
  rw [Nat.testBit_or, Nat.testBit_two_pow, Bool.or_eq_true, decide_eq_true_eq] at h
  rcases h with h | h
  · exact Or.inl h
  · exact Or.inr h.symm

theorem bitsOf_sound : ∀ (gs : List Nat) (sb : Nat), (∀ g ∈ gs, SN m gens g) → (∀ c, sb.testBit c = true → SN m gens c) →
    ∀ c, (bitsOf gs sb).testBit c = true → SN m gens c
  | [], _, _, h => h
  | g :: gs, sb, hg, h => by
    unfold bitsOf
    rw [forceN_eq]
    refine bitsOf_sound gs _ (fun g' hg' => hg g' (by simp [hg'])) ?_
    intro c hc
    rcases testBit_ins hc with hc | rfl
    · exact h c hc
    · exact hg c (by simp)

theorem expandN_sound (hom : ∀ a g, om a g = omega (decN m a) (decN m g)) {a : Nat} (ha : SN m gens a) : ∀ (gs : List Nat) (sb : Nat) (nf : List Nat), (∀ g ∈ gs, g ∈ gens) →
    (∀ c, sb.testBit c = true → SN m gens c) → (∀ n ∈ nf, SN m gens n) →
    (∀ c, (expandN om a gs sb nf).1.testBit c = true → SN m gens c) ∧ (∀ n ∈ (expandN om a gs sb nf).2, SN m gens n)
  | [], _, _, _, h1, h2 => ⟨h1, h2⟩
  | g :: gs, sb, nf, hg, h1, h2 => by
    unfold expandN
    rw [forceN_eq]
    by_cases hc : (om a g && !sb.testBit (a ^^^ g)) = true
    · rw [if_pos hc, forceN_eq]
      rw [Bool.and_eq_true, hom] at hc
      have hs : SN m gens (a ^^^ g) := by
        unfold SN
        rw [decN_xor]
        exact Clo.step ha (Clo.base (List.mem_map.2 ⟨g, hg g (by simp), rfl⟩)) hc.1
      refine expandN_sound hom ha gs _ _ (fun g' hg' => hg g' (by simp [hg'])) ?_ ?_
      · intro c hc'
        rcases testBit_ins hc' with hc' | rfl
        · exact h1 c hc'
        · exact hs
      · intro n hn
        rcases List.mem_cons.1 hn with rfl | hn
        · exact hs
        · exact h2 n hn
    · rw [if_neg hc]
      exact expandN_sound hom ha gs _ _ (fun g' hg' => hg g' (by simp [hg'])) h1 h2

theorem roundN_sound (hom : ∀ a g, om a g = omega (decN m a) (decN m g)) : ∀ (fr : List Nat) (sb : Nat) (nf : List Nat), (∀ n ∈ fr, SN m gens n) →
    (∀ c, sb.testBit c = true → SN m gens c) → (∀ n ∈ nf, SN m gens n) →
    (∀ c, (roundN om gens fr sb nf).1.testBit c = true → SN m gens c) ∧ (∀ n ∈ (roundN om gens fr sb nf).2, SN m gens n)
  | [], _, _, _, h1, h2 => ⟨h1, h2⟩
  | a :: fr, sb, nf, hf, h1, h2 => by
    unfold roundN
    have key := expandN_sound hom (hf a (by simp)) gens sb nf (fun _ h => h) h1 h2
    exact roundN_sound hom fr _ _ (fun n hn => hf n (by simp [hn])) key.1 key.2

theorem closeN_sound (hom : ∀ a g, om a g = omega (decN m a) (decN m g)) : ∀ (f : Nat) (sb : Nat) (fr : List Nat), (∀ c, sb.testBit c = true → SN m gens c) →
    (∀ n ∈ fr, SN m gens n) → ∀ c, (closeN om gens f sb fr).testBit c = true → SN m gens c
  | 0, _, _, h1, _ => h1
  | f + 1, sb, fr, h1, h2 => by
    unfold closeN
    have key := roundN_sound hom fr sb [] h2 h1 (fun _ h => by simp at h)
    exact closeN_sound hom f _ _ key.1 key.2

end Sound

/-- the check of `peelChk` for `k = 4` (strings on five sites), evaluated on numbers -/
def peelChkN (tr t0 tp : V → Bool) (Wend : List V) : Bool :=
  ((allV 8).filter tp).all (fun p =>
    (closeN omegaN5 ((absL 4 tr t0 Wend).map encN) 32 (bitsOf ((absL 4 tr t0 Wend).map encN) 0)
      ((absL 4 tr t0 Wend).map encN)).testBit (encN (true :: false :: p)))

theorem clo_of_peelChkN {tr t0 tp : V → Bool} {Wend : List V}
    (hW : ∀ g ∈ Wend, g.length = 2 * 4) (h : peelChkN tr t0 tp Wend = true) {p : V}
    (hp : p.length = 2 * 4) (ht : tp p = true) : Clo (absL 4 tr t0 Wend) (true :: false :: p) := by
  rw [peelChkN, List.all_eq_true] at h
  have hc := h p (List.mem_filter.2 ⟨mem_allV.2 hp, ht⟩)
  have hU := uniform_absL (k := 4) (tr := tr) (t0 := t0) (by omega) hW
  have hmap : ((absL 4 tr t0 Wend).map encN).map (decN 10) = absL 4 tr t0 Wend := by
    rw [List.map_map]
    conv => rhs; rw [← List.map_id (absL 4 tr t0 Wend)]
    apply List.map_congr_left
    intro v hv
    have := decN_encN v
    rw [hU v hv] at this
    exact this
  have hb : ∀ n ∈ (absL 4 tr t0 Wend).map encN, SN 10 ((absL 4 tr t0 Wend).map encN) n :=
    fun n hn => Clo.base (List.mem_map.2 ⟨n, hn, rfl⟩)
  have hs := closeN_sound (m := 10) (gens := (absL 4 tr t0 Wend).map encN) omegaN5_eq 32 _ _
    (bitsOf_sound _ 0 hb (fun c hc => by rw [Nat.zero_testBit] at hc; cases hc)) hb _ hc
  unfold SN at hs
  rw [hmap] at hs
  have := decN_encN (true :: false :: p)
  rw [show (true :: false :: p).length = 10 by simp [hp]] at this
  rwa [this] at hs

/-- the variant of `good_of_chk'` for `peelChkN` -/
theorem good_of_chkN {w0 : Nat} {T : V → Bool} {Wend : List V} {N : Nat} {x : V}
    (hW : ∀ g ∈ Wend, g.length = 2 * 4) (hN : 5 ≤ N) (hx : x.length = 2 * N) {tr t0 tp : V → Bool}
    (h1 : ∀ b, T (x.take (2 * (N - 4)) ++ b) = tr b) (h0 : ∀ b, T (zeroV (2 * (N - 4)) ++ b) = t0 b)
    (hchk : peelChkN tr t0 tp Wend = true) (hT : tp (x.drop (2 * (N - 4))) = true) : Good 4 w0 T Wend N x := by
  refine ⟨hx, N - 4, x.take (2 * (N - 4)), x.drop (2 * (N - 4)), by omega, by omega, by simp [hx],
    by simp [hx]; omega, (List.take_append_drop _ _).symm, ?_⟩
  rw [show (fun b => T (x.take (2 * (N - 4)) ++ b)) = tr from funext h1,
    show (fun b => T (zeroV (2 * (N - 4)) ++ b)) = t0 from funext h0]
  exact clo_of_peelChkN hW hchk (by simp [hx]; omega) hT

end C19
end PauLie
