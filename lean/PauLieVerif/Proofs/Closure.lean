import PauLieVerif.Spec.Clo

namespace PauLie
namespace Closure

/-! ## Algebra of `add` and `omega` -/

@[simp] theorem add_nil_left (y : V) : add [] y = [] := by simp [add]
@[simp] theorem add_nil_right (x : V) : add x [] = [] := by cases x <;> simp [add]
@[simp] theorem add_cons (a b : Bool) (s t : V) : add (a :: s) (b :: t) = (a != b) :: add s t := by
  simp [add]

theorem length_add : ∀ (x y : V), (add x y).length = min x.length y.length
  | [], y => by simp
  | _ :: _, [] => by simp
  | a :: s, b :: t => by simp [length_add s t, Nat.succ_min_succ]

theorem length_add_eq {x y : V} {m : Nat} (hx : x.length = m) (hy : y.length = m) :
    (add x y).length = m := by
  simp [length_add, hx, hy]

theorem add_comm : ∀ (x y : V), add x y = add y x
  | [], y => by simp
  | _ :: _, [] => by simp
  | a :: s, b :: t => by simp [add_comm s t]; cases a <;> cases b <;> rfl

theorem add_assoc : ∀ (x y z : V), add (add x y) z = add x (add y z)
  | [], y, z => by simp
  | _ :: _, [], z => by simp
  | _ :: _, _ :: _, [] => by simp
  | a :: s, b :: t, c :: u => by simp [add_assoc s t u]

theorem add_add_cancel_right : ∀ (x y : V), x.length = y.length → add (add x y) y = x
  | [], y, _ => by simp
  | _ :: _, [], h => by simp at h
  | a :: s, b :: t, h => by
    have := add_add_cancel_right s t (by simpa using h)
    simp [this]

theorem add_add_cancel_left (x y : V) (h : x.length = y.length) : add x (add x y) = y := by
  rw [add_comm x y, add_comm, add_add_cancel_right y x h.symm]

theorem omega_comm : ∀ (x y : V), omega x y = omega y x
  | x1 :: z1 :: t1, x2 :: z2 :: t2 => by
    simp only [omega, omega_comm t1 t2]
    cases x1 <;> cases z1 <;> cases x2 <;> cases z2 <;> rfl
  | [], [] => by simp [omega]
  | [], _ :: _ => by simp [omega]
  | [_], [] => by simp [omega]
  | [_], _ :: _ => by simp [omega]
  | _ :: _ :: _, [] => by simp [omega]
  | _ :: _ :: _, [_] => by simp [omega]

theorem omega_self : ∀ (x : V), omega x x = false
  | x1 :: z1 :: t => by
    simp only [omega, omega_self t]
    cases x1 <;> cases z1 <;> rfl
  | [] => by simp [omega]
  | [_] => by simp [omega]

theorem omega_add_left : ∀ (x y z : V), x.length = y.length →
    omega (add x y) z = (omega x z != omega y z)
  | x1 :: z1 :: t1, x2 :: z2 :: t2, x3 :: z3 :: t3, h => by
    have ih := omega_add_left t1 t2 t3 (by simpa using h)
    simp only [add_cons, omega, ih]
    cases x1 <;> cases z1 <;> cases x2 <;> cases z2 <;> cases x3 <;> cases z3 <;>
      cases omega t1 t3 <;> cases omega t2 t3 <;> rfl
  | [], [], z, _ => by simp [omega]
  | [_], [_], z, _ => by simp [omega]
  | _ :: _ :: _, _ :: _ :: _, [], _ => by simp [omega]
  | _ :: _ :: _, _ :: _ :: _, [_], _ => by simp [omega]
  | [], _ :: _, _, h => by simp at h
  | _ :: _, [], _, h => by simp at h
  | [_], _ :: _ :: _, _, h => by simp at h
  | _ :: _ :: _, [_], _, h => by simp at h

theorem omega_add_right (x y z : V) (h : y.length = z.length) :
    omega x (add y z) = (omega x y != omega x z) := by
  rw [omega_comm, omega_add_left y z x h, omega_comm y x, omega_comm z x]

/-! ## `Clo = Nest` -/

theorem Uniform.mono {n : Nat} {G G' : List V} (h : ∀ g ∈ G, g ∈ G') (hG' : Uniform n G') :
    Uniform n G := fun g hg => hG' g (h g hg)

theorem nest_length {n : Nat} {G : List V} (hG : Uniform n G) {x : V} (h : Nest G x) :
    x.length = 2 * n := by
  induction h with
  | base hx => exact hG _ hx
  | step _ hg _ ih => exact length_add_eq ih (hG _ hg)

theorem clo_length {n : Nat} {G : List V} (hG : Uniform n G) {x : V} (h : Clo G x) :
    x.length = 2 * n := by
  induction h with
  | base hx => exact hG _ hx
  | step _ _ _ ihx ihy => exact length_add_eq ihx ihy

theorem orbit_length {n : Nat} {G : List V} (hG : Uniform n G) {v : V} (hv : v.length = 2 * n)
    {x : V} (h : Orbit G v x) : x.length = 2 * n := by
  induction h with
  | base => exact hv
  | step _ hg _ ih => exact length_add_eq ih (hG _ hg)

theorem nest_to_clo {G : List V} {x : V} (h : Nest G x) : Clo G x := by
  induction h with
  | base hx => exact Clo.base hx
  | step _ hg ho ih => exact Clo.step ih (Clo.base hg) ho

/-- The Jacobi-style decomposition: a set `P` of strings of length `2n` that is
closed under moves by anticommuting *generators* is closed under moves by
anticommuting right-nested commutators. -/
theorem closed_under_nest {n : Nat} {G : List V} (hG : Uniform n G) (P : V → Prop)
    (hlen : ∀ x, P x → x.length = 2 * n)
    (hstep : ∀ x g, P x → g ∈ G → omega x g = true → P (add x g))
    {y : V} (hy : Nest G y) : ∀ {x : V}, P x → omega x y = true → P (add x y) := by
  induction hy with
  | base hg => intro x hx ho; exact hstep x _ hx hg ho
  | @step y' g hy' hg hyg ih =>
    intro x hx ho
    have lx := hlen x hx
    have ly' := nest_length hG hy'
    have lg := hG g hg
    rw [omega_add_right x y' g (by omega)] at ho
    cases hxy : omega x y' with
    | true =>
      have hxg : omega x g = false := by rw [hxy] at ho; revert ho; cases omega x g <;> simp
      have h1 := ih hx hxy
      have h2 : omega (add x y') g = true := by
        rw [omega_add_left x y' g (by omega), hxg, hyg]; rfl
      have h3 := hstep _ g h1 hg h2
      rwa [add_assoc] at h3
    | false =>
      have hxg : omega x g = true := by rw [hxy] at ho; revert ho; cases omega x g <;> simp
      have h1 := hstep x g hx hg hxg
      have h2 : omega (add x g) y' = true := by
        rw [omega_add_left x g y' (by omega), hxy, omega_comm g y', hyg]; rfl
      have h3 := ih h1 h2
      rwa [add_assoc, add_comm g y'] at h3

theorem nest_step_nest {n : Nat} {G : List V} (hG : Uniform n G) {x y : V}
    (hx : Nest G x) (hy : Nest G y) (ho : omega x y = true) : Nest G (add x y) :=
  closed_under_nest hG (Nest G) (fun _ h => nest_length hG h)
    (fun _ _ h hg ho => Nest.step h hg ho) hy hx ho

theorem clo_to_nest {n : Nat} {G : List V} (hG : Uniform n G) {x : V} (h : Clo G x) :
    Nest G x := by
  induction h with
  | base hx => exact Nest.base hx
  | step _ _ ho ihx ihy => exact nest_step_nest hG ihx ihy ho

theorem clo_iff_nest {n : Nat} {G : List V} (hG : Uniform n G) {x : V} :
    Clo G x ↔ Nest G x :=
  ⟨clo_to_nest hG, nest_to_clo⟩

/-! ## Counting -/

theorem length_filter_split {α : Type} (p q : α → Bool) (h : ∀ x, q x = !p x) (l : List α) :
    l.length = (l.filter p).length + (l.filter q).length := by
  induction l with
  | nil => rfl
  | cons a t ih =>
    simp only [List.filter_cons, h a, List.length_cons]
    cases p a <;> simp <;> omega

theorem length_le_of_nodup_bits : ∀ (m : Nat) (l : List V), l.Nodup →
    (∀ x ∈ l, x.length = m) → l.length ≤ 2 ^ m
  | 0, l, hnd, hl => by
    match l, hnd, hl with
    | [], _, _ => simp
    | [_], _, _ => simp
    | a :: b :: t, hnd, hl =>
      have ha : a = [] := List.eq_nil_of_length_eq_zero (hl a (by simp))
      have hb : b = [] := List.eq_nil_of_length_eq_zero (hl b (by simp))
      subst ha hb
      simp at hnd
  | m + 1, l, hnd, hl => by
    have key : ∀ (c : Bool), (l.filter (fun x => x.headD false == c)).length ≤ 2 ^ m := by
      intro c
      have h1 := length_le_of_nodup_bits m ((l.filter (fun x => x.headD false == c)).map List.tail) ?_ ?_
      · simpa using h1
      · rw [List.Nodup, List.pairwise_map]
        refine List.Pairwise.imp_of_mem ?_ (List.Pairwise.filter _ hnd)
        intro a b ha hb hab htl
        apply hab
        simp only [List.mem_filter, beq_iff_eq] at ha hb
        have la := hl a ha.1
        have lb := hl b hb.1
        match a, b, la, lb, ha, hb, htl with
        | a0 :: ta, b0 :: tb, _, _, ha, hb, htl =>
          simp at ha hb htl
          rw [ha.2, hb.2, htl]
      · intro x hx
        simp only [List.mem_map, List.mem_filter] at hx
        obtain ⟨y, ⟨hy, _⟩, rfl⟩ := hx
        simp [hl y hy]
    have hsplit := length_filter_split (fun x => x.headD false == true)
      (fun x => x.headD false == false) (fun x => by cases x.headD false <;> rfl) l
    have k1 := key true
    have k2 := key false
    rw [Nat.pow_succ]; omega

/-! ## The executable worklist closure -/

theorem mem_expand {gens : List V} {x y : V} :
    y ∈ expand gens x ↔ ∃ g, g ∈ gens ∧ omega x g = true ∧ y = add x g := by
  simp only [expand, List.mem_map, List.mem_filter]
  constructor
  · rintro ⟨g, ⟨hg, ho⟩, rfl⟩; exact ⟨g, hg, ho, rfl⟩
  · rintro ⟨g, hg, ho, rfl⟩; exact ⟨g, ⟨hg, ho⟩, rfl⟩

theorem insertNew_aux (seen : List V) : ∀ (cands nw : List V),
    ∃ d, cands.foldl (fun (acc : List V × List V) c =>
        if acc.1.contains c then acc else (c :: acc.1, c :: acc.2)) (nw ++ seen, nw) = (d ++ seen, d)
      ∧ (∀ x, x ∈ d → x ∈ nw ∨ x ∈ cands)
      ∧ (∀ x, x ∈ nw ∨ x ∈ cands → x ∈ d ∨ x ∈ seen)
      ∧ ((nw ++ seen).Nodup → (d ++ seen).Nodup)
  | [], nw => ⟨nw, rfl, fun _ h => Or.inl h,
      fun x h => by rcases h with h | h; exact Or.inl h; simp at h, fun h => h⟩
  | c :: t, nw => by
    by_cases hc : (nw ++ seen).contains c = true
    · obtain ⟨d, h1, h2, h3, h4⟩ := insertNew_aux seen t nw
      refine ⟨d, ?_, ?_, ?_, h4⟩
      · simp only [List.foldl_cons, hc, if_true]; exact h1
      · intro x hx; rcases h2 x hx with h | h
        · exact Or.inl h
        · exact Or.inr (List.mem_cons_of_mem _ h)
      · intro x hx
        rcases hx with h | h
        · exact h3 x (Or.inl h)
        · rcases List.mem_cons.1 h with rfl | h
          · have : x ∈ nw ++ seen := by simpa using hc
            rcases List.mem_append.1 this with h' | h'
            · exact h3 x (Or.inl h')
            · exact Or.inr h'
          · exact h3 x (Or.inr h)
    · obtain ⟨d, h1, h2, h3, h4⟩ := insertNew_aux seen t (c :: nw)
      refine ⟨d, ?_, ?_, ?_, ?_⟩
      · have hc' := Bool.not_eq_true _ ▸ hc
        simp only [List.foldl_cons, hc', Bool.false_eq_true, if_false]; exact h1
      · intro x hx; rcases h2 x hx with h | h
        · rcases List.mem_cons.1 h with rfl | h
          · exact Or.inr (List.mem_cons_self ..)
          · exact Or.inl h
        · exact Or.inr (List.mem_cons_of_mem _ h)
      · intro x hx
        rcases hx with h | h
        · exact h3 x (Or.inl (List.mem_cons_of_mem _ h))
        · rcases List.mem_cons.1 h with rfl | h
          · exact h3 x (Or.inl (List.mem_cons_self ..))
          · exact h3 x (Or.inr h)
      · intro hnd
        apply h4
        have : c ∉ nw ++ seen := by simpa using hc
        exact List.nodup_cons.2 ⟨this, hnd⟩

theorem insertNew_spec (seen cands : List V) :
    ∃ d, insertNew seen cands = (d ++ seen, d)
      ∧ (∀ x, x ∈ d → x ∈ cands)
      ∧ (∀ x, x ∈ cands → x ∈ d ∨ x ∈ seen)
      ∧ (seen.Nodup → (d ++ seen).Nodup) := by
  obtain ⟨d, h1, h2, h3, h4⟩ := insertNew_aux seen cands []
  refine ⟨d, by simpa [insertNew] using h1, ?_, ?_, by simpa using h4⟩
  · intro x hx; simpa using h2 x hx
  · intro x hx; exact h3 x (Or.inr hx)

theorem dedup_aux : ∀ (l acc : List V), acc.Nodup →
    (l.foldl (fun acc x => if acc.contains x then acc else acc ++ [x]) acc).Nodup ∧
    ∀ x, x ∈ l.foldl (fun acc x => if acc.contains x then acc else acc ++ [x]) acc ↔
      x ∈ acc ∨ x ∈ l
  | [], acc, h => ⟨h, by simp⟩
  | c :: t, acc, h => by
    by_cases hc : acc.contains c = true
    · obtain ⟨h1, h2⟩ := dedup_aux t acc h
      simp only [List.foldl_cons, hc, if_true]
      refine ⟨h1, fun x => ?_⟩
      rw [h2 x]
      have : c ∈ acc := by simpa using hc
      constructor
      · rintro (h | h); exact Or.inl h; exact Or.inr (List.mem_cons_of_mem _ h)
      · rintro (h | h)
        · exact Or.inl h
        · rcases List.mem_cons.1 h with rfl | h
          · exact Or.inl this
          · exact Or.inr h
    · have hc' : c ∉ acc := by simpa using hc
      have hnd : (acc ++ [c]).Nodup := by
        rw [List.nodup_append]
        refine ⟨h, by simp, ?_⟩
        intro a ha b hb; simp at hb; subst hb; intro hab; subst hab; exact hc' ha
      obtain ⟨h1, h2⟩ := dedup_aux t (acc ++ [c]) hnd
      have hc'' := Bool.not_eq_true _ ▸ hc
      simp only [List.foldl_cons, hc'', Bool.false_eq_true, if_false]
      refine ⟨h1, fun x => ?_⟩
      rw [h2 x]; simp only [List.mem_append, List.mem_cons, List.not_mem_nil, or_false]
      constructor
      · rintro ((h | h) | h); exact Or.inl h; exact Or.inr (Or.inl h); exact Or.inr (Or.inr h)
      · rintro (h | h | h); exact Or.inl (Or.inl h); exact Or.inl (Or.inr h); exact Or.inr h

theorem nodup_dedup (l : List V) : (dedup l).Nodup := (dedup_aux l [] List.nodup_nil).1

theorem mem_dedup {l : List V} {x : V} : x ∈ dedup l ↔ x ∈ l := by
  have := (dedup_aux l [] List.nodup_nil).2 x
  simpa [dedup] using this

theorem closeLoop_zero (gens seen frontier : List V) :
    closeLoop gens 0 seen frontier = (seen, frontier.isEmpty) := rfl

theorem closeLoop_nil (gens : List V) (fuel : Nat) (seen : List V) :
    closeLoop gens (fuel + 1) seen [] = (seen, true) := rfl

theorem closeLoop_cons (gens : List V) (fuel : Nat) (seen : List V) (x : V) (rest : List V) :
    closeLoop gens (fuel + 1) seen (x :: rest) =
      closeLoop gens fuel (insertNew seen (expand gens x)).1
        (rest ++ (insertNew seen (expand gens x)).2) := rfl

/-- soundness invariant: everything seen is a right-nested commutator -/
theorem closeLoop_sound (gens : List V) : ∀ (fuel : Nat) (seen frontier : List V),
    (∀ y, y ∈ seen → Nest gens y) → (∀ y, y ∈ frontier → y ∈ seen) →
    ∀ y, y ∈ (closeLoop gens fuel seen frontier).1 → Nest gens y
  | 0, seen, frontier, hs, _ => by simpa [closeLoop_zero] using hs
  | fuel + 1, seen, [], hs, _ => by simpa [closeLoop_nil] using hs
  | fuel + 1, seen, x :: rest, hs, hf => by
    rw [closeLoop_cons]
    obtain ⟨d, h1, h2, _, _⟩ := insertNew_spec seen (expand gens x)
    rw [h1]
    have hx : Nest gens x := hs x (hf x (List.mem_cons_self ..))
    apply closeLoop_sound gens fuel
    · intro y hy
      rcases List.mem_append.1 hy with h | h
      · obtain ⟨g, hg, ho, rfl⟩ := mem_expand.1 (h2 y h)
        exact Nest.step hx hg ho
      · exact hs y h
    · intro y hy
      rcases List.mem_append.1 hy with h | h
      · exact List.mem_append_right _ (hf y (List.mem_cons_of_mem _ h))
      · exact List.mem_append_left _ h

theorem closeLoop_nodup (gens : List V) : ∀ (fuel : Nat) (seen frontier : List V),
    seen.Nodup → (closeLoop gens fuel seen frontier).1.Nodup
  | 0, seen, frontier, hs => by simpa [closeLoop_zero] using hs
  | fuel + 1, seen, [], hs => by simpa [closeLoop_nil] using hs
  | fuel + 1, seen, x :: rest, hs => by
    rw [closeLoop_cons]
    obtain ⟨d, h1, _, _, h4⟩ := insertNew_spec seen (expand gens x)
    rw [h1]
    exact closeLoop_nodup gens fuel _ _ (h4 hs)

theorem closeLoop_superset (gens : List V) : ∀ (fuel : Nat) (seen frontier : List V),
    ∀ y, y ∈ seen → y ∈ (closeLoop gens fuel seen frontier).1
  | 0, seen, frontier => by simp [closeLoop_zero]
  | fuel + 1, seen, [] => by simp [closeLoop_nil]
  | fuel + 1, seen, x :: rest => by
    intro y hy
    rw [closeLoop_cons]
    obtain ⟨d, h1, _, _, _⟩ := insertNew_spec seen (expand gens x)
    rw [h1]
    exact closeLoop_superset gens fuel _ _ y (List.mem_append_right _ hy)

/-- completeness invariant: every seen element outside the frontier has all its
one-step successors seen; on exhaustion the result is closed under steps -/
theorem closeLoop_closed (gens : List V) : ∀ (fuel : Nat) (seen frontier : List V),
    (∀ y, y ∈ seen → y ∉ frontier → ∀ g, g ∈ gens → omega y g = true → add y g ∈ seen) →
    (closeLoop gens fuel seen frontier).2 = true →
    ∀ y, y ∈ (closeLoop gens fuel seen frontier).1 → ∀ g, g ∈ gens → omega y g = true →
      add y g ∈ (closeLoop gens fuel seen frontier).1
  | 0, seen, frontier, hinv, hflag => by
    simp only [closeLoop_zero] at hflag ⊢
    have : frontier = [] := by simpa using hflag
    subst this
    intro y hy; exact hinv y hy (by simp)
  | fuel + 1, seen, [], hinv, _ => by
    simp only [closeLoop_nil]
    intro y hy; exact hinv y hy (by simp)
  | fuel + 1, seen, x :: rest, hinv, hflag => by
    rw [closeLoop_cons] at hflag ⊢
    obtain ⟨d, h1, h2, h3, _⟩ := insertNew_spec seen (expand gens x)
    rw [h1] at hflag ⊢
    refine closeLoop_closed gens fuel _ _ ?_ hflag
    intro y hy hyf g hg ho
    have hyd : y ∉ d := fun h => hyf (List.mem_append_right _ h)
    have hyr : y ∉ rest := fun h => hyf (List.mem_append_left _ h)
    have hys : y ∈ seen := by
      rcases List.mem_append.1 hy with h | h
      · exact absurd h hyd
      · exact h
    by_cases hyx : y = x
    · subst hyx
      have : add y g ∈ expand gens y := mem_expand.2 ⟨g, hg, ho, rfl⟩
      rcases h3 _ this with h | h
      · exact List.mem_append_left _ h
      · exact List.mem_append_right _ h
    · have : y ∉ x :: rest := by
        intro h; rcases List.mem_cons.1 h with h | h
        · exact hyx h
        · exact hyr h
      exact List.mem_append_right _ (hinv y hys this g hg ho)

/-- the fuel bound: a duplicate-free `seen` of strings of length `2n` has at
most `4^n` members, and every iteration moves one element out of the frontier -/
theorem closeLoop_exhausted {n : Nat} {gens : List V} (hG : Uniform n gens) :
    ∀ (fuel : Nat) (seen frontier : List V),
    seen.Nodup → (∀ y, y ∈ seen → y.length = 2 * n) → (∀ y, y ∈ frontier → y ∈ seen) →
    frontier.length + 4 ^ n ≤ fuel + seen.length →
    (closeLoop gens fuel seen frontier).2 = true
  | 0, seen, frontier, hnd, hlen, _, hfuel => by
    have := length_le_of_nodup_bits (2 * n) seen hnd hlen
    rw [Nat.pow_mul] at this
    have h4 : (2 : Nat) ^ 2 = 4 := rfl
    rw [h4] at this
    have : frontier.length = 0 := by omega
    simp [closeLoop_zero, List.eq_nil_of_length_eq_zero this]
  | fuel + 1, seen, [], _, _, _, _ => rfl
  | fuel + 1, seen, x :: rest, hnd, hlen, hf, hfuel => by
    rw [closeLoop_cons]
    obtain ⟨d, h1, h2, _, h4⟩ := insertNew_spec seen (expand gens x)
    rw [h1]
    have hx : x.length = 2 * n := hlen x (hf x (List.mem_cons_self ..))
    apply closeLoop_exhausted hG fuel _ _ (h4 hnd)
    · intro y hy
      rcases List.mem_append.1 hy with h | h
      · obtain ⟨g, hg, _, rfl⟩ := mem_expand.1 (h2 y h)
        exact length_add_eq hx (hG g hg)
      · exact hlen y h
    · intro y hy
      rcases List.mem_append.1 hy with h | h
      · exact List.mem_append_right _ (hf y (List.mem_cons_of_mem _ h))
      · exact List.mem_append_left _ h
    · simp only [List.length_append, List.length_cons] at hfuel ⊢
      omega

/-! ### `closureList` -/

theorem nest_mono {G G' : List V} (h : ∀ g, g ∈ G → g ∈ G') {x : V} (hx : Nest G x) :
    Nest G' x := by
  induction hx with
  | base hg => exact Nest.base (h _ hg)
  | step _ hg ho ih => exact Nest.step ih (h _ hg) ho

theorem nest_dedup {G : List V} {x : V} : Nest (dedup G) x ↔ Nest G x :=
  ⟨nest_mono fun _ h => mem_dedup.1 h, nest_mono fun _ h => mem_dedup.2 h⟩

theorem closureList_eq (G : List V) :
    closureList G = closeLoop (dedup G)
      (4 ^ (match dedup G with | [] => 0 | x :: _ => x.length / 2) + (dedup G).length + 1)
      (dedup G) (dedup G) := rfl

theorem closureList_nodup (G : List V) : ((closureList G).1).Nodup := by
  rw [closureList_eq]; exact closeLoop_nodup _ _ _ _ (nodup_dedup G)

/-- the fuel of `closureList` always suffices on strings of a common length -/
theorem closureList_exhausted {n : Nat} {G : List V} (hG : Uniform n G) :
    (closureList G).2 = true := by
  rw [closureList_eq]
  have hU : Uniform n (dedup G) := fun g hg => hG g (mem_dedup.1 hg)
  cases hd : dedup G with
  | nil => rfl
  | cons a t =>
    have ha : a.length = 2 * n := hU a (by rw [hd]; exact List.mem_cons_self ..)
    have hn : a.length / 2 = n := by omega
    rw [← hd]
    apply closeLoop_exhausted hU _ _ _ (nodup_dedup G) hU (fun _ h => h)
    simp only [hd, hn]; omega

/-- membership in the result is exactly being a right-nested commutator
(no length hypothesis needed) -/
theorem closureList_mem_nest {G : List V} (hflag : (closureList G).2 = true) {x : V} :
    x ∈ (closureList G).1 ↔ Nest G x := by
  rw [closureList_eq] at hflag ⊢
  constructor
  · intro hx
    exact nest_dedup.1 (closeLoop_sound _ _ _ _ (fun y hy => Nest.base hy) (fun _ h => h) x hx)
  · intro hx
    have hx' := nest_dedup.2 hx
    induction hx' with
    | base hg => exact closeLoop_superset _ _ _ _ _ hg
    | step _ hg ho ih =>
      exact closeLoop_closed _ _ _ _ (fun y _ hyf => absurd ‹_› hyf) hflag _ (ih (nest_dedup.1 ‹_›)) _ hg ho

theorem closureList_mem {n : Nat} {G : List V} (hG : Uniform n G)
    (hflag : (closureList G).2 = true) {x : V} :
    x ∈ (closureList G).1 ↔ Clo G x := by
  rw [closureList_mem_nest hflag, clo_iff_nest hG]

/-- unconditional form -/
theorem closureList_sound_complete {n : Nat} {G : List V} (hG : Uniform n G) {x : V} :
    x ∈ (closureList G).1 ↔ Clo G x :=
  closureList_mem hG (closureList_exhausted hG)

/-- `|Clo G|`: every duplicate-free enumeration of the closure has the length of
the computed list -/
theorem clo_card {n : Nat} {G : List V} (hG : Uniform n G) {l : List V} (hnd : l.Nodup)
    (hl : ∀ x, x ∈ l ↔ Clo G x) : l.length = (closureList G).1.length := by
  apply List.Perm.length_eq
  rw [List.perm_ext_iff_of_nodup hnd (closureList_nodup G)]
  intro x; rw [hl x, closureList_sound_complete hG]

/-! ## Corollaries -/

theorem clo_mono {G G' : List V} (h : ∀ g, g ∈ G → g ∈ G') {x : V} (hx : Clo G x) : Clo G' x := by
  induction hx with
  | base hg => exact Clo.base (h _ hg)
  | step _ _ ho ihx ihy => exact Clo.step ihx ihy ho

theorem clo_idem {G G' : List V} (h : ∀ g, g ∈ G' → Clo G g) {x : V} (hx : Clo G' x) :
    Clo G x := by
  induction hx with
  | base hg => exact h _ hg
  | step _ _ ho ihx ihy => exact Clo.step ihx ihy ho

theorem clo_eq_of_mutual {G G' : List V} (h : ∀ g, g ∈ G → Clo G' g)
    (h' : ∀ g, g ∈ G' → Clo G g) {x : V} : Clo G x ↔ Clo G' x :=
  ⟨clo_idem h, clo_idem h'⟩

theorem clo_dedup {G : List V} {x : V} : Clo (dedup G) x ↔ Clo G x :=
  ⟨clo_mono fun _ h => mem_dedup.1 h, clo_mono fun _ h => mem_dedup.2 h⟩

/-- adjoining a member of the closure does not change the closure -/
theorem clo_cons_of_clo {G : List V} {c : V} (hc : Clo G c) {x : V} :
    Clo (c :: G) x ↔ Clo G x := by
  apply clo_eq_of_mutual
  · intro g hg
    rcases List.mem_cons.1 hg with rfl | hg
    · exact hc
    · exact Clo.base hg
  · intro g hg; exact Clo.base (List.mem_cons_of_mem _ hg)

/-- adjoining the product of two anticommuting generators does not change the closure -/
theorem clo_add_product {G : List V} {a b : V} (ha : a ∈ G) (hb : b ∈ G)
    (ho : omega a b = true) {x : V} : Clo (add a b :: G) x ↔ Clo G x :=
  clo_cons_of_clo (Clo.step (Clo.base ha) (Clo.base hb) ho)

theorem ne_of_omega {a b : V} (ho : omega a b = true) : b ≠ a := by
  intro h; subst h; rw [omega_self] at ho; cases ho

/-- contraction, abstract form: `G'` arises from `G` by replacing the generator `a`
by `a + b` for an anticommuting generator `b` (in whatever list order, with or
without the other occurrences). -/
theorem clo_contract {n : Nat} {G G' : List V} (hG : Uniform n G) {a b : V}
    (ha : a ∈ G) (hb : b ∈ G) (ho : omega a b = true)
    (hab : add a b ∈ G') (hkeep : ∀ g, g ∈ G → g ≠ a → g ∈ G')
    (hsub : ∀ g, g ∈ G' → g = add a b ∨ g ∈ G) {x : V} : Clo G x ↔ Clo G' x := by
  have hb' : b ∈ G' := hkeep b hb (ne_of_omega ho)
  have hlen : a.length = b.length := by rw [hG a ha, hG b hb]
  apply clo_eq_of_mutual
  · intro g hg
    by_cases hga : g = a
    · subst hga
      have h1 : omega (add g b) b = true := by
        rw [omega_add_left g b b hlen, omega_self, ho]; rfl
      have := Clo.step (Clo.base hab) (Clo.base hb') h1
      rwa [add_add_cancel_right g b hlen] at this
    · exact Clo.base (hkeep g hg hga)
  · intro g hg
    rcases hsub g hg with rfl | hg
    · exact Clo.step (Clo.base ha) (Clo.base hb) ho
    · exact Clo.base hg

theorem mem_replaceGen {G : List V} {a c g : V} :
    g ∈ replaceGen G a c ↔ (a ∈ G ∧ g = c) ∨ (g ∈ G ∧ g ≠ a) := by
  simp only [replaceGen, List.mem_map]
  constructor
  · rintro ⟨h, hh, rfl⟩
    by_cases hha : h = a
    · subst hha; simp [hh]
    · simp [hha, hh]
  · rintro (⟨ha, rfl⟩ | ⟨hg, hga⟩)
    · exact ⟨a, ha, by simp⟩
    · exact ⟨g, hg, by simp [hga]⟩

/-- contraction, concrete form: replace (every occurrence of) `a` by `a + b` -/
theorem clo_replaceGen {n : Nat} {G : List V} (hG : Uniform n G) {a b : V}
    (ha : a ∈ G) (hb : b ∈ G) (ho : omega a b = true) {x : V} :
    Clo G x ↔ Clo (replaceGen G a (add a b)) x := by
  apply clo_contract hG ha hb ho
  · exact mem_replaceGen.2 (Or.inl ⟨ha, rfl⟩)
  · intro g hg hga; exact mem_replaceGen.2 (Or.inr ⟨hg, hga⟩)
  · intro g hg
    rcases mem_replaceGen.1 hg with ⟨_, h⟩ | ⟨h, _⟩
    · exact Or.inl h
    · exact Or.inr h

/-! ## Orbits -/

theorem orbit_mono_clo {n : Nat} {G G' : List V} (hG' : Uniform n G') {v : V}
    (hv : v.length = 2 * n) (h : ∀ g, g ∈ G → Clo G' g) {x : V} (hx : Orbit G v x) :
    Orbit G' v x := by
  induction hx with
  | base => exact Orbit.base
  | step _ hg ho ih =>
    exact closed_under_nest hG' (Orbit G' v) (fun _ h => orbit_length hG' hv h)
      (fun _ _ h hg ho => Orbit.step h hg ho) (clo_to_nest hG' (h _ hg)) ih ho

/-- the orbit depends only on the closure: a move by a closure element
decomposes into moves by generators -/
theorem orbit_of_clo {n : Nat} {G G' : List V} (hG : Uniform n G) (hG' : Uniform n G')
    {v : V} (hv : v.length = 2 * n) (h : ∀ x, Clo G x ↔ Clo G' x) {x : V} :
    Orbit G v x ↔ Orbit G' v x :=
  ⟨orbit_mono_clo hG' hv fun g hg => (h g).1 (Clo.base hg),
   orbit_mono_clo hG hv fun g hg => (h g).2 (Clo.base hg)⟩

/-- moves by arbitrary anticommuting closure elements stay in the orbit -/
theorem orbit_step_clo {n : Nat} {G : List V} (hG : Uniform n G) {v : V}
    (hv : v.length = 2 * n) {x y : V} (hx : Orbit G v x) (hy : Clo G y)
    (ho : omega x y = true) : Orbit G v (add x y) :=
  closed_under_nest hG (Orbit G v) (fun _ h => orbit_length hG hv h)
    (fun _ _ h hg ho => Orbit.step h hg ho) (clo_to_nest hG hy) hx ho

/-! ## Non-vacuity: a concrete 2-qubit instance (`XI`, `ZZ`, `IX`) -/

section Example
private def XI : V := [true, false, false, false]
private def ZZ : V := [false, true, false, true]
private def IX : V := [false, false, true, false]
private def YY : V := [true, true, true, true]
private def II : V := [false, false, false, false]
private def exG : List V := [XI, ZZ, IX, XI]

example : (closureList exG).2 = true := by decide
example : (closureList exG).1.length = 6 := by decide
example : Uniform 2 exG := by decide
example : YY ∈ (closureList exG).1 := by decide
example : Clo exG YY :=
  (closureList_sound_complete (n := 2) (by decide)).1 (by decide)
example : ¬ Clo exG II := fun h =>
  absurd ((closureList_sound_complete (n := 2) (by decide)).2 h) (by decide)
/-- the same fact derived by hand from the inductive definition -/
example : Clo exG YY := by
  have h1 : Clo exG (add XI ZZ) := Clo.step (Clo.base (by decide)) (Clo.base (by decide)) (by decide)
  have h2 : Clo exG (add IX ZZ) := Clo.step (Clo.base (by decide)) (Clo.base (by decide)) (by decide)
  have h3 : Clo exG (add (add XI ZZ) IX) := Clo.step h1 (Clo.base (by decide)) (by decide)
  exact h3
end Example

end Closure
end PauLie
