/-
Helpers for property C19, part 25: family a7 (`XX`,`YY`,`ZZ`), table row `su(2^(n-1))` (n odd),
`4·su(2^(n-2))` (n even).

Closed form (`T7`): the closure is the set of ALL strings commuting with `X…X` and `Z…Z` (hence `Y…Y`) other than
the identity and these three strings (for odd n the three do not commute with each other and are excluded by the
two parities already).  Lower bound: peeling of the last three sites; the state of the tail is (`parZ r`, `parX r`,
"r is the identity / all X / all Y / all Z"); a target ending in `LLL` is the commutator of two targets that do
not (`exc_spec`).
-/
import PauLieVerif.Proofs.C19RestA7b

namespace PauLie
namespace C19
open Closure Graph C01Star C03

theorem length_wend7 : ∀ g ∈ wend7, g.length = 2 * 3 := fun _ hg => mem_allV.1 (List.mem_filter.1 hg).1

theorem T7_iff (x : V) : T7 x = true ↔ parZ x = false ∧ parX x = false ∧ isZ x = false ∧ isL true false x = false ∧
    isL true true x = false ∧ isL false true x = false := by
  simp only [T7, Bool.and_eq_true, Bool.not_eq_true']
  constructor
  · rintro ⟨⟨⟨⟨⟨a, b⟩, c⟩, d⟩, e⟩, f⟩; exact ⟨a, b, c, d, e, f⟩
  · rintro ⟨a, b, c, d, e, f⟩; exact ⟨⟨⟨⟨⟨a, b⟩, c⟩, d⟩, e⟩, f⟩

theorem T7_closed (n : Nat) (x y : V) (hx : x.length = 2 * n) (hy : y.length = 2 * n) (h1 : T7 x = true)
    (h2 : T7 y = true) (ho : omega x y = true) : T7 (add x y) = true := by
  rw [T7_iff] at h1 h2 ⊢
  have hxy : x.length = y.length := hx.trans hy.symm
  have hl : x.length = (add x y).length := by rw [length_add_eq hx hy, hx]
  have hoz : omega x (add x y) = true := by rw [omega_add_right x x y hxy, omega_self, ho]; rfl
  refine ⟨by rw [parZ_add x y hxy, h1.1, h2.1]; rfl, by rw [parX_add x y hxy, h1.2.1, h2.2.1]; rfl, ?_, ?_, ?_, ?_⟩
  · cases hz : isZ (add x y)
    · rfl
    · rw [isZ_add x y hxy hz, omega_self] at ho; cases ho
  all_goals
    cases hz : isL _ _ (add x y)
    · rfl
    · have h3 := omega_isL _ _ x (add x y) hl hz
      rw [hoz, h1.1, h1.2.1] at h3
      cases h3

theorem v7_tail : ∀ (r : V), 2 ≤ r.length → v7 (isZ r) (isL true false r) (isL true true r) (isL false true r) = true
  | [], h => by simp at h
  | [_], h => by simp at h
  | a :: b :: r, _ => by
    simp only [isZ_cons, isL, v7]
    cases a <;> cases b <;> simp

/-- targets not ending in three equal letters are reached by the peeling -/
theorem good7 (w0 N : Nat) (x : V) (hN : 4 ≤ N) (hx : x.length = 2 * N) (hT : T7 x = true)
    (hp : isL true false (x.drop (2 * (N - 3))) = false ∧ isL true true (x.drop (2 * (N - 3))) = false ∧
      isL false true (x.drop (2 * (N - 3))) = false) : Good 3 w0 T7 wend7 N x := by
  have hr : (x.take (2 * (N - 3))).length % 2 = 0 := by simp [hx] <;> omega
  have hr2 : 2 ≤ (x.take (2 * (N - 3))).length := by simp [hx]; omega
  generalize hrr : x.take (2 * (N - 3)) = r at *
  have h1 : ∀ b, T7 (r ++ b) = tr7 (parZ r) (parX r) (isZ r) (isL true false r) (isL true true r) (isL false true r) b := by
    intro b
    simp only [T7, tr7, parZ_append _ _ hr, parX_append _ _ hr, isZ_append, isL_append _ _ _ _ hr]
  have h0 : ∀ b, T7 (zeroV (2 * (N - 3)) ++ b) = t07 b := by
    intro b
    have hz : (List.replicate (2 * (N - 3)) false).length % 2 = 0 := by simp
    have hl : ∀ l1 l2, (l1 || l2) = true → isL l1 l2 (List.replicate (2 * (N - 3)) false) = false := by
      intro l1 l2 h
      rw [show 2 * (N - 3) = 2 * (N - 4) + 2 by omega]
      exact isL_zero_succ _ _ h _
    show T7 (List.replicate (2 * (N - 3)) false ++ b) = _
    simp only [T7, t07, parZ_append _ _ hz, parX_append _ _ hz, isZ_append, isL_append _ _ _ _ hz, parZ_replicate,
      parX_replicate, isZ_replicate, hl true false rfl, hl true true rfl, hl false true rfl]
    simp
  have hv := v7_tail r hr2
  have hchk : peelChk 3 (tr7 (parZ r) (parX r) (isZ r) (isL true false r) (isL true true r) (isL false true r)) t07
      (tp7 (parZ r) (parX r) (isZ r) (isL true false r) (isL true true r) (isL false true r)) wend7 = true := by
    rcases Bool.eq_false_or_eq_true (parZ r) with h | h <;> rw [h]
    · exact chk7b _ _ _ _ _ hv
    · exact chk7a _ _ _ _ _ hv
  refine ⟨hx, N - 3, r, x.drop (2 * (N - 3)), by omega, by omega, by rw [← hrr]; simp [hx],
    by simp [hx]; omega, by rw [← hrr, List.take_append_drop], ?_⟩
  rw [show (fun b => T7 (r ++ b)) = _ from funext h1, show (fun b => T7 (zeroV (2 * (N - 3)) ++ b)) = t07 from funext h0]
  apply clo_of_peelChk (by omega) length_wend7 hchk (by simp [hx]; omega)
  simp only [tp7, Bool.and_eq_true, Bool.not_eq_true']
  refine ⟨⟨⟨?_, hp.1⟩, hp.2.1⟩, hp.2.2⟩
  rw [← h1, ← hrr, List.take_append_drop, hT]

/-- a target ending in `LLL` is the commutator of two targets that do not end in three equal letters -/
theorem exc7 (l1 l2 : Bool) (hL : (l1 || l2) = true) (w0 N : Nat) (x : V) (hN : 4 ≤ N) (hx : x.length = 2 * N)
    (hT : T7 x = true) (hp : x.drop (2 * (N - 3)) = [l1, l2, l1, l2, l1, l2]) : Gen (Good 3 w0 T7 wend7 N) x := by
  have hT' := (T7_iff x).1 hT
  have hLx : isL l1 l2 x = false := by
    revert hL; cases l1 <;> cases l2 <;> simp [hT'.2.2.2.1, hT'.2.2.2.2.1, hT'.2.2.2.2.2]
  obtain ⟨ly, ⟨u1, u2, hu, hne, hd⟩, ho, hpz, hpx⟩ := exc_spec l1 l2 hL x N hx hN hp hLx
  generalize exc l1 l2 x = y at *
  have hxy : x.length = y.length := hx.trans ly.symm
  have hd2 : (add x y).drop (2 * (N - 3)) = [l1, l2, l1, l2, l1 != u1, l2 != u2] := by
    rw [drop_add, hp, hd]; simp [add]
  have e : add y (add x y) = x := by rw [add_comm x y, add_add_cancel_left y x hxy.symm]
  have ho2 : omega y (add x y) = true := by
    rw [omega_add_right y x y hxy, omega_self, ho]; rfl
  -- neither summand ends in three equal letters, is the identity, or is uniform
  have n1 : ∀ m1 m2, (m1 || m2) = true → isL m1 m2 [false, false, false, false, u1, u2] = false := by
    intro m1 m2; cases m1 <;> cases m2 <;> simp [isL]
  have n2 : ∀ m1 m2, isL m1 m2 [l1, l2, l1, l2, l1 != u1, l2 != u2] = false := by
    intro m1 m2
    revert hu hne hL
    cases m1 <;> cases m2 <;> cases l1 <;> cases l2 <;> cases u1 <;> cases u2 <;> simp [isL]
  have hy : T7 y = true := by
    rw [T7_iff]
    refine ⟨hpz, hpx, ?_, ?_, ?_, ?_⟩
    · cases hz : isZ y
      · rfl
      · have := isZ_drop y (2 * (N - 3)) hz
        rw [hd] at this
        revert hu this; cases u1 <;> cases u2 <;> simp [isZ]
    all_goals
      cases hz : isL _ _ y
      · rfl
      · have := isL_drop _ _ (N - 3) y hz
        rw [hd, n1 _ _ rfl] at this
        cases this
  have hxy2 : T7 (add x y) = true := by
    rw [T7_iff]
    refine ⟨by rw [parZ_add x y hxy, hT'.1, hpz]; rfl, by rw [parX_add x y hxy, hT'.2.1, hpx]; rfl, ?_, ?_, ?_, ?_⟩
    · cases hz : isZ (add x y)
      · rfl
      · have := isZ_drop _ (2 * (N - 3)) hz
        rw [hd2] at this
        revert hL this; cases l1 <;> cases l2 <;> simp [isZ]
    all_goals
      cases hz : isL _ _ (add x y)
      · rfl
      · have := isL_drop _ _ (N - 3) _ hz
        rw [hd2, n2] at this
        cases this
  have g1 : Good 3 w0 T7 wend7 N y := good7 w0 N y hN ly hy (by rw [hd]; exact ⟨n1 _ _ rfl, n1 _ _ rfl, n1 _ _ rfl⟩)
  have g2 : Good 3 w0 T7 wend7 N (add x y) := good7 w0 N _ hN (by rw [length_add_eq hx ly]) hxy2
    (by rw [hd2]; exact ⟨n2 _ _, n2 _ _, n2 _ _⟩)
  have := Gen.step (Gen.base g1) (Gen.base g2) ho2
  rwa [e] at this

theorem isL_six (l1 l2 : Bool) : ∀ (p : V), p.length = 6 → isL l1 l2 p = true → p = [l1, l2, l1, l2, l1, l2]
  | [a, b, c, d, e, f], _, h => by
    simp only [isL, Bool.and_eq_true, beq_iff_eq] at h
    obtain ⟨⟨rfl, rfl⟩, ⟨rfl, rfl⟩, ⟨rfl, rfl⟩, _⟩ := h
    rfl
  | [], h, _ => by simp at h
  | [_], h, _ => by simp at h
  | [_, _], h, _ => by simp at h
  | [_, _, _], h, _ => by simp at h
  | [_, _, _, _], h, _ => by simp at h
  | [_, _, _, _, _], h, _ => by simp at h
  | _ :: _ :: _ :: _ :: _ :: _ :: _ :: _, h, _ => by simp at h

theorem step7 (w0 N : Nat) (x : V) (hN : 4 ≤ N) (hx : x.length = 2 * N) (hT : T7 x = true) :
    Gen (Good 3 w0 T7 wend7 N) x := by
  have hl : (x.drop (2 * (N - 3))).length = 6 := by simp [hx]; omega
  rcases Bool.eq_false_or_eq_true (isL true false (x.drop (2 * (N - 3)))) with h1 | h1
  · exact exc7 true false rfl w0 N x hN hx hT (isL_six _ _ _ hl h1)
  rcases Bool.eq_false_or_eq_true (isL true true (x.drop (2 * (N - 3)))) with h2 | h2
  · exact exc7 true true rfl w0 N x hN hx hT (isL_six _ _ _ hl h2)
  rcases Bool.eq_false_or_eq_true (isL false true (x.drop (2 * (N - 3)))) with h3 | h3
  · exact exc7 false true rfl w0 N x hN hx hT (isL_six _ _ _ hl h3)
  exact Gen.base (good7 w0 N x hN hx hT ⟨h1, h2, h3⟩)

/-! ### a7 -/

def vZZ' : V := [false, true, false, true]
def gensA7 : List V := [vXX, vYY, vZZ']

theorem lenA7 : ∀ g ∈ gensA7, g.length = 4 := by simp [gensA7, vXX, vYY, vZZ']

theorem base_a7 : wend7.all (fun y => (closureList (klocalV 3 gensA7)).1.contains y) = true := by
  decide +kernel

theorem T7_shiftV {n k : Nat} (hn : 3 ≤ n) (hk : k + 2 ≤ n) {g : V} (hg : g.length = 4) (hp : parZ g = false)
    (hq : parX g = false) (hz : isZ g = false) : T7 (shiftV n k g) = true := by
  rw [T7_iff]
  have hl : ∀ l1 l2, (l1 || l2) = true → isL l1 l2 (shiftV n k g) = false := by
    intro l1 l2 h
    rw [shiftV, isL_append _ _ _ _ (by simp), isL_append _ _ _ _ (by simp [hg])]
    by_cases h0 : k = 0
    · subst h0
      rw [show 2 * (n - 2 - 0) = 2 * (n - 3) + 2 by omega, isL_zero_succ _ _ h]; simp
    · rw [show 2 * k = 2 * (k - 1) + 2 by omega, isL_zero_succ _ _ h]; simp
  refine ⟨?_, ?_, ?_, hl _ _ rfl, hl _ _ rfl, hl _ _ rfl⟩
  · rw [shiftV, parZ_append _ _ (by simp), parZ_append _ _ (by simp [hg]), parZ_replicate, parZ_replicate, hp]; rfl
  · rw [shiftV, parX_append _ _ (by simp), parX_append _ _ (by simp [hg]), parX_replicate, parX_replicate, hq]; rfl
  · simp [shiftV, isZ_append, hz]

theorem clo_a7 {n : Nat} (hn : 3 ≤ n) (x : V) : Clo (klocalV n gensA7) x ↔ x.length = 2 * n ∧ T7 x = true := by
  have hb : ∀ x, x.length = 2 * 3 → T7 x = true → Clo (klocalV 3 gensA7) x := by
    intro x hx hq
    have := List.all_eq_true.1 base_a7 x (List.mem_filter.2 ⟨mem_allV.2 hx, hq⟩)
    exact (closureList_sound_complete (uniform_klocalV lenA7)).1 (List.contains_iff_mem.1 this)
  refine clo_iff_of_peel lenA7 (k := 3) (w0 := 3) (T := T7) (Wend := wend7) (by omega) (by omega) ?_ hb
    (fun N x hN hx hT => step7 3 N x (by omega) hx hT) ?_ T7_closed hn x
  · intro g hg
    refine ⟨length_wend7 g hg, ?_⟩
    simpa [zeroV] using hb g (length_wend7 g hg) (List.mem_filter.1 hg).2
  · intro n hn g hgm
    obtain ⟨g0, hg0, k, hk, rfl⟩ := mem_klocalV.1 hgm
    have : ∀ g ∈ gensA7, parZ g = false ∧ parX g = false ∧ isZ g = false := by decide
    exact T7_shiftV hn (by omega) (lenA7 g0 hg0) (this g0 hg0).1 (this g0 hg0).2.1 (this g0 hg0).2.2

end C19
end PauLie
