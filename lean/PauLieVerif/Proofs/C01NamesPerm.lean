/-
`invOfName` does not depend on the order of the summands.
(`mergeSimples` merges equal keys by a left fold and sorts: the fold respects
permutations up to permutation, keeps the keys distinct, and a list sorted by a
relation that is antisymmetric on its members is determined by its members.)
-/
import PauLieVerif.Model.Classify

namespace PauLie
namespace C01Names
open Classify

abbrev Simple := Nat × Nat × Nat

def sameKey (t s : Simple) : Bool := t.1 == s.1 && t.2.1 == s.2.1

/-- the insertion step of `mergeSimples` -/
def ins (acc : List Simple) (s : Simple) : List Simple :=
  if acc.any (fun t => t.1 == s.1 && t.2.1 == s.2.1) then
    acc.map (fun t => if t.1 == s.1 && t.2.1 == s.2.1 then (t.1, t.2.1, t.2.2 + s.2.2) else t)
  else acc ++ [s]

/-- adding the copies of `s` to an entry with the key of `s` -/
def bump (s : Simple) : Simple → Simple :=
  fun t => if t.1 == s.1 && t.2.1 == s.2.1 then (t.1, t.2.1, t.2.2 + s.2.2) else t

def cmpSimple (a b : Simple) : Bool := a.1 < b.1 || (a.1 == b.1 && a.2.1 ≤ b.2.1)

theorem mergeSimples_eq (l : List Simple) :
    mergeSimples l = (l.foldl ins []).mergeSort cmpSimple := rfl

/-- distinct keys -/
def KeysNodup (l : List Simple) : Prop := l.Pairwise (fun a b => sameKey a b = false)

theorem sameKey_iff {a b : Simple} : sameKey a b = true ↔ a.1 = b.1 ∧ a.2.1 = b.2.1 := by
  simp [sameKey]

theorem ins_perm {acc acc' : List Simple} (h : acc.Perm acc') (s : Simple) : (ins acc s).Perm (ins acc' s) := by
  unfold ins
  rw [h.any_eq]
  split
  · exact h.map _
  · exact h.append_right _

theorem foldl_ins_perm {acc acc' : List Simple} (h : acc.Perm acc') (l : List Simple) :
    (l.foldl ins acc).Perm (l.foldl ins acc') := by
  induction l generalizing acc acc' with
  | nil => exact h
  | cons s l ih => exact ih (ins_perm h s)

theorem any_map_key (acc : List Simple) (s x : Simple) :
    (acc.map (fun t => if t.1 == x.1 && t.2.1 == x.2.1 then (t.1, t.2.1, t.2.2 + x.2.2) else t)).any
        (fun t => t.1 == s.1 && t.2.1 == s.2.1)
      = acc.any (fun t => t.1 == s.1 && t.2.1 == s.2.1) := by
  induction acc with
  | nil => rfl
  | cons a acc ih =>
    simp only [List.map_cons, List.any_cons, ih]
    congr 1
    split <;> rfl

theorem map_id_of_absent (acc : List Simple) (x : Simple)
    (h : acc.any (fun t => t.1 == x.1 && t.2.1 == x.2.1) = false) :
    acc.map (fun t => if t.1 == x.1 && t.2.1 == x.2.1 then (t.1, t.2.1, t.2.2 + x.2.2) else t) = acc := by
  induction acc with
  | nil => rfl
  | cons a acc ih =>
    simp only [List.any_cons, Bool.or_eq_false_iff] at h
    simp only [List.map_cons, ih h.2, h.1]
    rfl

/-- two insertions commute up to permutation -/
theorem ins_swap (acc : List Simple) (x y : Simple) : (ins (ins acc x) y).Perm (ins (ins acc y) x) := by
  by_cases hx : acc.any (fun t => t.1 == x.1 && t.2.1 == x.2.1) = true
  · by_cases hy : acc.any (fun t => t.1 == y.1 && t.2.1 == y.2.1) = true
    · -- both present: two maps, which commute
      have e1 : ins (ins acc x) y = (acc.map (bump x)).map (bump y) := by
        simp only [ins, hx, if_true, any_map_key, hy]
        rfl
      have e2 : ins (ins acc y) x = (acc.map (bump y)).map (bump x) := by
        simp only [ins, hy, if_true, any_map_key, hx]
        rfl
      rw [e1, e2, List.map_map, List.map_map]
      apply List.Perm.of_eq
      apply List.map_congr_left
      intro t _
      simp only [Function.comp, bump]
      by_cases a : (t.1 == x.1 && t.2.1 == x.2.1) = true <;> by_cases b : (t.1 == y.1 && t.2.1 == y.2.1) = true <;>
        simp [a, b, Nat.add_right_comm]
    · -- x present, y new
      have hy' : acc.any (fun t => t.1 == y.1 && t.2.1 == y.2.1) = false := (Bool.not_eq_true _).mp hy
      have hxy : (y.1 == x.1 && y.2.1 == x.2.1) = false := by
        rw [Bool.eq_false_iff]
        intro e
        simp only [Bool.and_eq_true, beq_iff_eq] at e
        apply hy
        obtain ⟨t, ht, hk⟩ := List.any_eq_true.mp hx
        simp only [Bool.and_eq_true, beq_iff_eq] at hk
        exact List.any_eq_true.mpr ⟨t, ht, by simp [hk.1, hk.2, e.1, e.2]⟩
      have e1 : ins (ins acc x) y = acc.map (bump x) ++ [y] := by
        simp only [ins, hx, if_true, any_map_key, hy', Bool.false_eq_true, if_false]
        rfl
      have e2 : ins (ins acc y) x = acc.map (bump x) ++ [y] := by
        simp only [ins, hy', Bool.false_eq_true, if_false, List.any_append, hx, Bool.true_or, if_true,
          List.map_append, List.map_cons, List.map_nil, hxy]
        rfl
      rw [e1, e2]
  · have hx' : acc.any (fun t => t.1 == x.1 && t.2.1 == x.2.1) = false := (Bool.not_eq_true _).mp hx
    by_cases hy : acc.any (fun t => t.1 == y.1 && t.2.1 == y.2.1) = true
    · have hyx : (x.1 == y.1 && x.2.1 == y.2.1) = false := by
        rw [Bool.eq_false_iff]
        intro e
        simp only [Bool.and_eq_true, beq_iff_eq] at e
        apply hx
        obtain ⟨t, ht, hk⟩ := List.any_eq_true.mp hy
        simp only [Bool.and_eq_true, beq_iff_eq] at hk
        exact List.any_eq_true.mpr ⟨t, ht, by simp [hk.1, hk.2, e.1, e.2]⟩
      have e1 : ins (ins acc x) y = acc.map (bump y) ++ [x] := by
        simp only [ins, hx', Bool.false_eq_true, if_false, List.any_append, hy, Bool.true_or, if_true,
          List.map_append, List.map_cons, List.map_nil, hyx]
        rfl
      have e2 : ins (ins acc y) x = acc.map (bump y) ++ [x] := by
        simp only [ins, hy, if_true, any_map_key, hx', Bool.false_eq_true, if_false]
        rfl
      rw [e1, e2]
    · have hy' : acc.any (fun t => t.1 == y.1 && t.2.1 == y.2.1) = false := (Bool.not_eq_true _).mp hy
      by_cases k : (x.1 == y.1 && x.2.1 == y.2.1) = true
      · -- both new, same key: merged into one entry either way
        have k' : (y.1 == x.1 && y.2.1 == x.2.1) = true := by
          simp only [Bool.and_eq_true, beq_iff_eq] at k ⊢; exact ⟨k.1.symm, k.2.symm⟩
        have e1 : ins (ins acc x) y = acc ++ [(x.1, x.2.1, x.2.2 + y.2.2)] := by
          simp only [ins, hx', Bool.false_eq_true, if_false, List.any_append, hy', List.any_cons, k,
            List.any_nil, Bool.or_false, Bool.false_or, if_true, List.map_append, map_id_of_absent acc y hy',
            List.map_cons, List.map_nil]
        have e2 : ins (ins acc y) x = acc ++ [(y.1, y.2.1, y.2.2 + x.2.2)] := by
          simp only [ins, hy', Bool.false_eq_true, if_false, List.any_append, hx', List.any_cons, k',
            List.any_nil, Bool.or_false, Bool.false_or, if_true, List.map_append, map_id_of_absent acc x hx',
            List.map_cons, List.map_nil]
        simp only [Bool.and_eq_true, beq_iff_eq] at k
        rw [e1, e2, k.1, k.2, Nat.add_comm]
      · have k1 : (x.1 == y.1 && x.2.1 == y.2.1) = false := (Bool.not_eq_true _).mp k
        have k2 : (y.1 == x.1 && y.2.1 == x.2.1) = false := by
          rw [Bool.eq_false_iff]; intro e; apply k
          simp only [Bool.and_eq_true, beq_iff_eq] at e ⊢; exact ⟨e.1.symm, e.2.symm⟩
        have e1 : ins (ins acc x) y = acc ++ [x] ++ [y] := by
          simp only [ins, hx', Bool.false_eq_true, if_false, List.any_append, hy', List.any_cons, k1,
            List.any_nil, Bool.or_false]
        have e2 : ins (ins acc y) x = acc ++ [y] ++ [x] := by
          simp only [ins, hy', Bool.false_eq_true, if_false, List.any_append, hx', List.any_cons, k2,
            List.any_nil, Bool.or_false]
        rw [e1, e2, List.append_assoc, List.append_assoc]
        exact List.Perm.append_left _ (List.Perm.swap _ _ _)

/-- the merging fold respects permutations of its input, up to permutation -/
theorem foldl_ins_perm_input {l l' : List Simple} (h : l.Perm l') (acc : List Simple) :
    (l.foldl ins acc).Perm (l'.foldl ins acc) := by
  induction h generalizing acc with
  | nil => exact .refl _
  | cons x _ ih => exact ih (ins acc x)
  | swap x y l => exact foldl_ins_perm (ins_swap acc y x) l
  | trans _ _ ih1 ih2 => exact (ih1 acc).trans (ih2 acc)

theorem keysNodup_ins {acc : List Simple} (h : KeysNodup acc) (s : Simple) : KeysNodup (ins acc s) := by
  unfold ins
  split
  · unfold KeysNodup
    rw [List.pairwise_map]
    refine h.imp ?_
    intro a b hab
    have ka : ∀ t : Simple, sameKey (if t.1 == s.1 && t.2.1 == s.2.1 then (t.1, t.2.1, t.2.2 + s.2.2) else t) b
        = sameKey t b := by
      intro t; split <;> rfl
    have kb : ∀ (u t : Simple), sameKey u (if t.1 == s.1 && t.2.1 == s.2.1 then (t.1, t.2.1, t.2.2 + s.2.2) else t)
        = sameKey u t := by
      intro u t; split <;> rfl
    rw [kb, ka]; exact hab
  · rename_i hn
    unfold KeysNodup
    rw [List.pairwise_append]
    refine ⟨h, List.pairwise_singleton _ _, ?_⟩
    intro a ha b hb
    simp only [List.mem_singleton] at hb
    subst hb
    rw [Bool.eq_false_iff]
    intro e
    apply hn
    exact List.any_eq_true.mpr ⟨a, ha, e⟩

theorem keysNodup_foldl (l : List Simple) {acc : List Simple} (h : KeysNodup acc) : KeysNodup (l.foldl ins acc) := by
  induction l generalizing acc with
  | nil => exact h
  | cons s l ih => exact ih (keysNodup_ins h s)

theorem cmp_total (a b : Simple) : (cmpSimple a b || cmpSimple b a) = true := by
  simp only [cmpSimple, Bool.or_eq_true, decide_eq_true_eq, Bool.and_eq_true, beq_iff_eq]
  omega

theorem cmp_trans (a b c : Simple) (h1 : cmpSimple a b = true) (h2 : cmpSimple b c = true) : cmpSimple a c = true := by
  simp only [cmpSimple, Bool.or_eq_true, decide_eq_true_eq, Bool.and_eq_true, beq_iff_eq] at *
  omega

theorem cmp_antisymm_key {a b : Simple} (h1 : cmpSimple a b = true) (h2 : cmpSimple b a = true) : sameKey a b = true := by
  simp only [cmpSimple, Bool.or_eq_true, decide_eq_true_eq, Bool.and_eq_true, beq_iff_eq, sameKey] at *
  omega

/-- two lists sorted by a relation that is antisymmetric across them, with the same members up to
permutation, are equal -/
theorem eq_of_perm_sorted {α : Type} {r : α → α → Prop} :
    ∀ {l l' : List α}, l.Perm l' → l.Pairwise r → l'.Pairwise r →
      (∀ a ∈ l, ∀ b ∈ l, r a b → r b a → a = b) → l = l'
  | [], l', hp, _, _, _ => by simpa using hp.symm.eq_nil
  | a :: l, [], hp, _, _, _ => by simpa using hp.eq_nil
  | a :: l, b :: l', hp, h1, h2, ha => by
    have hab : a = b := by
      have ha' : a ∈ b :: l' := hp.subset (by simp)
      have hb' : b ∈ a :: l := hp.symm.subset (by simp)
      rcases List.mem_cons.mp ha' with e | e
      · exact e
      · rcases List.mem_cons.mp hb' with e' | e'
        · exact e'.symm
        · have r1 : r a b := (List.pairwise_cons.mp h1).1 b e'
          have r2 : r b a := (List.pairwise_cons.mp h2).1 a e
          exact ha a (by simp) b (List.mem_cons_of_mem _ e') r1 r2
    subst hab
    have hp' : l.Perm l' := (List.perm_cons a).mp hp
    rw [eq_of_perm_sorted hp' (List.pairwise_cons.mp h1).2 (List.pairwise_cons.mp h2).2
      (fun x hx y hy => ha x (List.mem_cons_of_mem _ hx) y (List.mem_cons_of_mem _ hy))]

theorem pairwise_of_ne {α : Type} {R : α → α → Prop} (hs : ∀ a b, R a b → R b a) :
    ∀ {l : List α}, l.Pairwise R → ∀ a ∈ l, ∀ b ∈ l, a ≠ b → R a b
  | [], _, a, ha, _, _, _ => by simp at ha
  | x :: l, h, a, ha, b, hb, hne => by
    obtain ⟨hx, hl⟩ := List.pairwise_cons.mp h
    rcases List.mem_cons.mp ha with rfl | ha'
    · rcases List.mem_cons.mp hb with rfl | hb'
      · exact absurd rfl hne
      · exact hx b hb'
    · rcases List.mem_cons.mp hb with rfl | hb'
      · exact hs _ _ (hx a ha')
      · exact pairwise_of_ne hs hl a ha' b hb' hne

theorem sameKey_symm (a b : Simple) : sameKey a b = sameKey b a := by
  simp only [sameKey]
  rw [Bool.eq_iff_iff]
  simp only [Bool.and_eq_true, beq_iff_eq]
  constructor <;> (intro h; exact ⟨h.1.symm, h.2.symm⟩)

theorem mergeSimples_perm {l l' : List Simple} (h : l.Perm l') : mergeSimples l = mergeSimples l' := by
  rw [mergeSimples_eq, mergeSimples_eq]
  have hp : (l.foldl ins []).Perm (l'.foldl ins []) := foldl_ins_perm_input h []
  have hk : KeysNodup (l.foldl ins []) := keysNodup_foldl l List.Pairwise.nil
  have s1 := List.pairwise_mergeSort (le := cmpSimple) cmp_trans cmp_total (l.foldl ins [])
  have s2 := List.pairwise_mergeSort (le := cmpSimple) cmp_trans cmp_total (l'.foldl ins [])
  have p1 := List.mergeSort_perm (l.foldl ins []) cmpSimple
  have p2 := List.mergeSort_perm (l'.foldl ins []) cmpSimple
  refine eq_of_perm_sorted (r := fun a b => cmpSimple a b = true) (p1.trans (hp.trans p2.symm)) s1 s2 ?_
  intro a ha b hb r1 r2
  have ha' : a ∈ l.foldl ins [] := p1.subset ha
  have hb' : b ∈ l.foldl ins [] := p1.subset hb
  have hkey := cmp_antisymm_key r1 r2
  -- distinct members have distinct keys
  exact Decidable.byContradiction fun hne => by
    have := pairwise_of_ne (R := fun a b => sameKey a b = false)
      (fun a b h => by rw [sameKey_symm]; exact h) hk a ha' b hb' hne
    rw [hkey] at this
    cases this

/-! ### `invOfName` -/

/-- the folding step of `invOfName` -/
def invStep (acc : Nat × List Simple) (s : Summand) : Nat × List Simple :=
  match s.ty, s.size with
  | .U, _ => (acc.1 + s.mult, acc.2)
  | .SO, 0 => acc
  | .SO, 1 => acc
  | .SO, 2 => (acc.1 + s.mult, acc.2)
  | .SO, 4 => (acc.1, acc.2 ++ [(3, 0, 2 * s.mult)])
  | ty, m => (acc.1, acc.2 ++ [(simpleDim ty m, labelOfName ty m, s.mult)])

theorem invOfName_eq (l : List Summand) :
    invOfName l = ⟨(l.foldl invStep (0, [])).1, mergeSimples (l.foldl invStep (0, [])).2⟩ := rfl

/-- what a summand adds to the centre count -/
def centreOf (s : Summand) : Nat := (invStep (0, []) s).1
/-- the simple blocks a summand contributes -/
def simplesOf (s : Summand) : List Simple := (invStep (0, []) s).2

theorem invStep_eq (acc : Nat × List Simple) (s : Summand) :
    invStep acc s = (acc.1 + centreOf s, acc.2 ++ simplesOf s) := by
  unfold centreOf simplesOf invStep
  split <;> simp

theorem foldl_invStep (l : List Summand) (acc : Nat × List Simple) :
    l.foldl invStep acc = (acc.1 + (l.map centreOf).sum, acc.2 ++ l.flatMap simplesOf) := by
  induction l generalizing acc with
  | nil => simp
  | cons s l ih =>
    rw [List.foldl_cons, ih, invStep_eq]
    simp [Nat.add_assoc]

/-- **the invariants of a name do not depend on the order of its summands** -/
theorem invOfName_perm {l l' : List Summand} (h : l.Perm l') : invOfName l = invOfName l' := by
  rw [invOfName_eq, invOfName_eq, foldl_invStep, foldl_invStep]
  simp only [Nat.zero_add, List.nil_append]
  rw [(h.map centreOf).sum_nat, mergeSimples_perm (h.flatMap_right simplesOf)]

end C01Names
end PauLie
