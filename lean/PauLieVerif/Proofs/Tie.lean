/-
Tie theorems: the constants of the hand-written model equal the tables
regenerated from /repo on every run (Generated/Tables.lean).  A change of
`CODEC`, `SI..SZ`, the parser alphabet, or of the interpreter's `int()` digit
set makes one of these fail to elaborate.
-/
import PauLieVerif.Generated.Tables
import PauLieVerif.Model.Parser

namespace PauLie
namespace Tie

theorem codec_tie :
    Generated.codec = [Letter.I, .X, .Y, .Z].map (fun l => (l, l.code))
    ∧ Generated.codecExtraKeys = 0 := by decide

theorem sigma_tie :
    Generated.sigmaTable =
      [Letter.I, .X, .Y, .Z].map
        (fun l => (l, [sigma l false false, sigma l false true, sigma l true false, sigma l true true])) := by
  decide

theorem alphabet_tie :
    Generated.gates = Parser.GATES ∧ Generated.lowcase = Parser.LOWCASE
    ∧ Generated.sizeMark = Parser.SIZE := by decide

theorem int_tie :
    Generated.ndZeros = Parser.ndZeros ∧ Generated.intSpaces = Parser.intSpaces
    ∧ Generated.maxStrDigits = Parser.maxStrDigits := by decide

end Tie
end PauLie
