/-
Soundness of the certificate of `Model/Cert.lean` on one component: accepted legs are `Good`
(`certLegs_sound`), and an accepted component is classified with the dimension of its commutator closure
(`certComp_sound`).
-/
import PauLieVerif.Proofs.C09CertDep

namespace PauLie
namespace C09Cert
open Closure Classify C01Star C01TypeB

theorem verdictIf_ok {b : Bool} {c r : String} (h : (Cert.verdictIf b c r).isOk = true) : b = true := by
  cases b
  · simp [Cert.verdictIf, Cert.Verdict.isOk] at h
  · rfl

theorem certLegs_sound {n : Nat} {legs : List (List PS)} (h : (Cert.certLegs (2 * n) legs).isOk = true) :
    Good n legs := by
  unfold Cert.certLegs at h
  split at h
  · simp [Cert.Verdict.isOk] at h
  · split at h
    · have := verdictIf_ok h
      exact point_sound (by simpa using this)
    · simp only at h
      split at h
      · exact certA_sound (verdictIf_ok h)
      · exact certA_sound (verdictIf_ok h)
      · split at h
        · next hA => exact certA_sound hA
        · exact certAdep_sound (verdictIf_ok h)
      · exact certB1_sound (verdictIf_ok h)
      · split at h
        · split at h
          · next hB => exact certB3_sound hB
          · exact certB3dep_sound (verdictIf_ok h)
        · split at h
          · exact certB2_sound (verdictIf_ok h)
          · simp [Cert.Verdict.isOk] at h
      · simp [Cert.Verdict.isOk] at h
  · simp [Cert.Verdict.isOk] at h

/-- **an accepted component**: the model of `classify` answers on it, and the model of `get_dla_dim()` on
that answer is the number of Pauli strings in the commutator closure of the component -/
theorem certComp_sound {n : Nat} {c : List PS} (hc : C14.Uniform n c)
    (h : (Cert.certComp n c).isOk = true) :
    ∃ m, C02.morphOf c = .ok m ∧ dlaDimOfMorphs [m] = .ok (closureList (C02.bitsOf c)).1.length := by
  unfold Cert.certComp at h
  split at h
  · simp [Cert.Verdict.isOk] at h
  · next rg hb =>
    split at h
    · simp [Cert.Verdict.isOk] at h
    · next hg =>
      split at h
      · simp [Cert.Verdict.isOk] at h
      · next hcp =>
        split at h
        · simp [Cert.Verdict.isOk] at h
        · next hun =>
          have hgd : rg.guardsOk = true := by simpa using hg
          have hcomp : rg.res.complete = true := by simpa using hcp
          have hu : rg.res.unappended = [] := by simpa using hun
          have hbuild := C02.buildG_ok_build hb
          have hgh : C02.guardsHold c = true := by unfold C02.guardsHold; rw [hb]; exact hgd
          obtain ⟨d, hvl, hclo, hdim⟩ := certLegs_sound h
          refine ⟨⟨rg.res.legs, rg.res.dependents, rg.res.unappended, rg.res.tags, rg.res.complete⟩, ?_, ?_⟩
          · unfold C02.morphOf; rw [hbuild]; rfl
          · exact C01_from_C02 (C01Comp.bits_length_of hc) hbuild hgh hcomp hu hvl hclo (hdim _ _ _ _)

end C09Cert
end PauLie
