/-
Property C03 / C01, full invariant: specification of the component search inside
`Classify.invOfClosure` (`grow`, a breadth-first search with fuel, and `comps`, which peels one
component after the other off the pool).

`Reach S x y`: `y` can be reached from `x` through members of `S`, consecutive ones anticommuting.
`comps_spec`: with the fuel `invOfClosure` provides, the components returned partition the pool;
each is `x :: t` with every member reachable from `x`, and is closed under anticommuting
neighbours in `S`.  Core Lean only.
-/
import PauLieVerif.Proofs.C03Full

namespace PauLie
namespace C03
open Closure Classify

/-- reachability in the anticommutation graph on `S` -/
inductive Reach (S : List V) : V → V → Prop
  | refl {x : V} : x ∈ S → Reach S x x
  | step {x y z : V} : Reach S x y → z ∈ S → omega y z = true → Reach S x z

namespace Reach
variable {S : List V}

theorem mem_left {x y : V} (h : Reach S x y) : x ∈ S := by
  induction h with
  | refl hx => exact hx
  | step _ _ _ ih => exact ih

theorem mem_right {x y : V} (h : Reach S x y) : y ∈ S := by
  cases h with
  | refl hx => exact hx
  | step _ hz _ => exact hz

theorem trans {x y z : V} (h1 : Reach S x y) (h2 : Reach S y z) : Reach S x z := by
  induction h2 with
  | refl _ => exact h1
  | step _ hz ho ih => exact Reach.step ih hz ho

theorem symm {x y : V} (h : Reach S x y) : Reach S y x := by
  induction h with
  | refl hx => exact Reach.refl hx
  | @step y z hxy hz ho ih =>
    have : Reach S z y := Reach.step (Reach.refl hz) hxy.mem_right (by rw [omega_comm]; exact ho)
    exact this.trans ih

theorem mono {S' : List V} (hS : ∀ x ∈ S, x ∈ S') {x y : V} (h : Reach S x y) : Reach S' x y := by
  induction h with
  | refl hx => exact Reach.refl (hS _ hx)
  | step _ hz ho ih => exact Reach.step ih (hS _ hz) ho

end Reach

theorem length_filter_not (p : V → Bool) (l : List V) :
    (l.filter p).length + (l.filter (not ∘ p)).length = l.length := by
  have := (List.filter_append_perm p l).length_eq
  rw [List.length_append] at this
  exact this

/-- the breadth-first search `grow`, with enough fuel -/
theorem grow_spec (S : List V) : ∀ (fuel : Nat) (comp frontier pool : List V),
    (∀ y ∈ frontier, y ∈ comp) → frontier.length + pool.length ≤ fuel →
    (∀ y ∈ comp, y ∉ frontier → ∀ z ∈ pool, omega y z = false) →
    (∀ y ∈ comp, y ∈ S) → (∀ y ∈ pool, y ∈ S) →
    ((invOfClosure.grow fuel comp frontier pool).1 ++ (invOfClosure.grow fuel comp frontier pool).2).Perm
        (comp ++ pool) ∧
    (∀ y ∈ (invOfClosure.grow fuel comp frontier pool).1, ∀ z ∈ (invOfClosure.grow fuel comp frontier pool).2,
        omega y z = false) ∧
    (∀ y ∈ (invOfClosure.grow fuel comp frontier pool).1, ∃ x ∈ comp, Reach S x y) ∧
    (∃ t, (invOfClosure.grow fuel comp frontier pool).1 = comp ++ t)
  | 0, comp, frontier, pool, _, hfuel, _, hcS, _ => by
    have hf : frontier = [] := List.eq_nil_of_length_eq_zero (by omega)
    have hp : pool = [] := List.eq_nil_of_length_eq_zero (by omega)
    subst hf; subst hp
    simp only [invOfClosure.grow]
    exact ⟨List.Perm.refl _, fun _ _ _ hz => by simp at hz,
      fun y hy => ⟨y, hy, Reach.refl (hcS y hy)⟩, [], by simp⟩
  | fuel + 1, comp, [], pool, _, _, hproc, hcS, _ => by
    simp only [invOfClosure.grow]
    exact ⟨List.Perm.refl _, fun y hy z hz => hproc y hy (by simp) z hz,
      fun y hy => ⟨y, hy, Reach.refl (hcS y hy)⟩, [], by simp⟩
  | fuel + 1, comp, x :: fr, pool, hfc, hfuel, hproc, hcS, hpS => by
    simp only [invOfClosure.grow, List.partition_eq_filter_filter]
    have hx : x ∈ comp := hfc x (List.mem_cons_self ..)
    have hsplit := length_filter_not (fun y => omega x y) pool
    obtain ⟨r1, r2, r3, r4⟩ := grow_spec S fuel (comp ++ pool.filter (fun y => omega x y))
      (fr ++ pool.filter (fun y => omega x y)) (pool.filter (not ∘ fun y => omega x y))
      (by
        intro y hy
        rcases List.mem_append.1 hy with hy | hy
        · exact List.mem_append_left _ (hfc y (List.mem_cons_of_mem _ hy))
        · exact List.mem_append_right _ hy)
      (by simp only [List.length_append, List.length_cons] at hfuel ⊢; omega)
      (by
        intro y hy hnf z hz
        have hz' := List.mem_filter.1 hz
        rcases List.mem_append.1 hy with hy | hy
        · by_cases e : y = x
          · subst e; simpa using hz'.2
          · exact hproc y hy (by
              intro hmem
              rcases List.mem_cons.1 hmem with h | h
              · exact e h
              · exact hnf (List.mem_append_left _ h)) z hz'.1
        · exact absurd (List.mem_append_right _ hy) hnf)
      (by
        intro y hy
        rcases List.mem_append.1 hy with hy | hy
        · exact hcS y hy
        · exact hpS y (mem_of_filter hy))
      (fun y hy => hpS y (mem_of_filter hy))
    refine ⟨?_, r2, ?_, ?_⟩
    · refine r1.trans ?_
      rw [List.append_assoc]
      exact List.Perm.append_left _ (List.filter_append_perm _ _)
    · intro y hy
      obtain ⟨x', hx', hr⟩ := r3 y hy
      rcases List.mem_append.1 hx' with h | h
      · exact ⟨x', h, hr⟩
      · have h' := List.mem_filter.1 h
        exact ⟨x, hx, (Reach.step (Reach.refl (hcS x hx)) (hpS x' h'.1) h'.2).trans hr⟩
    · obtain ⟨t, ht⟩ := r4
      exact ⟨pool.filter (fun y => omega x y) ++ t, by rw [ht, List.append_assoc]⟩

theorem comps_acc (fuel : Nat) : ∀ (pool : List V) (acc : List (List V)),
    invOfClosure.comps fuel pool acc = acc ++ invOfClosure.comps fuel pool [] := by
  induction fuel with
  | zero => intro pool acc; simp [invOfClosure.comps]
  | succ fuel ih =>
    intro pool acc
    cases pool with
    | nil => simp [invOfClosure.comps]
    | cons x pool' =>
      simp only [invOfClosure.comps]
      rw [ih _ (acc ++ _), ih _ ([] ++ _)]
      simp

/-- a component: `x :: t`, everything reachable from `x`, closed under neighbours in `S` -/
def IsComp (S : List V) (c : List V) : Prop :=
  ∃ x t, c = x :: t ∧ (∀ y ∈ c, Reach S x y) ∧ (∀ y ∈ c, ∀ z ∈ S, omega y z = true → z ∈ c)

/-- **the component search**, with enough fuel: the components partition the pool -/
theorem comps_spec (S : List V) : ∀ (fuel : Nat) (pool : List V), pool.length ≤ fuel →
    (∀ y ∈ pool, y ∈ S) → (∀ y ∈ pool, ∀ z ∈ S, z ∉ pool → omega y z = false) →
    (invOfClosure.comps fuel pool []).flatten.Perm pool ∧ ∀ c ∈ invOfClosure.comps fuel pool [], IsComp S c
  | 0, pool, hfuel, _, _ => by
    have hp : pool = [] := List.eq_nil_of_length_eq_zero (by omega)
    subst hp
    simp [invOfClosure.comps]
  | fuel + 1, [], _, _, _ => by simp [invOfClosure.comps]
  | fuel + 1, x :: pool', hfuel, hpS, hinv => by
    simp only [invOfClosure.comps]
    rw [comps_acc]
    have hxS : x ∈ S := hpS x (List.mem_cons_self ..)
    have hp'S : ∀ y ∈ pool', y ∈ S := fun y hy => hpS y (List.mem_cons_of_mem _ hy)
    obtain ⟨g1, g2, g3, t, g4⟩ := grow_spec S (pool'.length + 1) [x] [x] pool' (fun y hy => hy)
      (by simp; omega) (fun y hy hn => absurd hy hn) (by intro y hy; simp at hy; subst hy; exact hxS) hp'S
    have hmem : ∀ z, z ∈ x :: pool' ↔ z ∈ (invOfClosure.grow (pool'.length + 1) [x] [x] pool').1 ∨
        z ∈ (invOfClosure.grow (pool'.length + 1) [x] [x] pool').2 := by
      intro z
      rw [← List.mem_append, g1.mem_iff]; simp
    have hlen : (invOfClosure.grow (pool'.length + 1) [x] [x] pool').2.length ≤ fuel := by
      have := g1.length_eq
      rw [List.length_append, g4] at this
      simp only [List.length_append, List.length_cons, List.length_nil] at this hfuel
      omega
    obtain ⟨c1, c2⟩ := comps_spec S fuel (invOfClosure.grow (pool'.length + 1) [x] [x] pool').2 hlen
      (fun y hy => hpS y ((hmem y).2 (Or.inr hy)))
      (by
        intro y hy z hz hzn
        by_cases hzc : z ∈ (invOfClosure.grow (pool'.length + 1) [x] [x] pool').1
        · rw [omega_comm]; exact g2 z hzc y hy
        · exact hinv y ((hmem y).2 (Or.inr hy)) z hz (fun hzp => by
            rcases (hmem z).1 hzp with h | h
            · exact hzc h
            · exact hzn h))
    constructor
    · simp only [List.nil_append, List.singleton_append, List.flatten_cons]
      exact (List.Perm.append_left _ c1).trans (g1.trans (by simp))
    · intro c hc
      simp only [List.nil_append, List.singleton_append, List.mem_cons] at hc
      rcases hc with rfl | hc
      · refine ⟨x, t, by simpa using g4, ?_, ?_⟩
        · intro y hy
          obtain ⟨x', hx', hr⟩ := g3 y hy
          simp at hx'; subst hx'; exact hr
        · intro y hy z hz ho
          by_cases hzp : z ∈ x :: pool'
          · rcases (hmem z).1 hzp with h | h
            · exact h
            · rw [g2 y hy z h] at ho; cases ho
          · have := hinv y ((hmem y).2 (Or.inl hy)) z hz hzp
            rw [this] at ho; cases ho
      · exact c2 c hc

end C03
end PauLie
