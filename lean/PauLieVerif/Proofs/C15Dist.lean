/-
C15, part 2: walks, shortest-path distance, and the level-synchronous BFS
`layers` (= networkx `shortest_path_length`): the distance assigned to `x` is
the inductively defined shortest-path length.  Core Lean only.
-/
import PauLieVerif.Proofs.C15Lemmas

namespace PauLie
namespace Otoc
open Closure

/-! ## Walks and distance -/

theorem walk_orbit {G : List V} {v x : V} {k : Nat} (h : Walk G v k x) : Orbit G v x := by
  induction h with
  | zero => exact Orbit.base
  | succ _ hg ho ih => exact Orbit.step ih hg ho

theorem orbit_walk {G : List V} {v x : V} (h : Orbit G v x) : ∃ k, Walk G v k x := by
  induction h with
  | base => exact ⟨0, Walk.zero⟩
  | step _ hg ho ih => obtain ⟨k, hk⟩ := ih; exact ⟨k + 1, Walk.succ hk hg ho⟩

theorem walk_length {n : Nat} {G : List V} (hG : Uniform n G) {v : V} (hv : v.length = 2 * n)
    {x : V} {k : Nat} (h : Walk G v k x) : x.length = 2 * n :=
  orbit_length hG hv (walk_orbit h)

theorem walk_zero {G : List V} {v x : V} (h : Walk G v 0 x) : x = v := by
  cases h; rfl

theorem walk_succ_inv {G : List V} {v x : V} {k : Nat} (h : Walk G v (k + 1) x) :
    ∃ y g, Walk G v k y ∧ g ∈ G ∧ omega y g = true ∧ x = add y g := by
  cases h with
  | succ hw hg ho => exact ⟨_, _, hw, hg, ho, rfl⟩

/-- every reachable string has a distance -/
theorem dist_of_walk {G : List V} {v x : V} : ∀ k, Walk G v k x → ∃ m, m ≤ k ∧ Dist G v x m := by
  intro k
  induction k using Nat.strongRecOn with
  | _ k ih =>
    intro hw
    by_cases h : ∃ j, j < k ∧ Walk G v j x
    · obtain ⟨j, hj, hwj⟩ := h
      obtain ⟨m, hm, hd⟩ := ih j hj hwj
      exact ⟨m, by omega, hd⟩
    · exact ⟨k, Nat.le_refl _, hw, fun j hj hwj => h ⟨j, hj, hwj⟩⟩

theorem dist_of_orbit {G : List V} {v x : V} (h : Orbit G v x) : ∃ k, Dist G v x k := by
  obtain ⟨k, hk⟩ := orbit_walk h
  obtain ⟨m, _, hm⟩ := dist_of_walk k hk
  exact ⟨m, hm⟩

theorem dist_unique {G : List V} {v x : V} {k m : Nat} (h1 : Dist G v x k) (h2 : Dist G v x m) :
    k = m := by
  rcases Nat.lt_trichotomy k m with h | h | h
  · exact absurd h1.1 (h2.2 k h)
  · exact h
  · exact absurd h2.1 (h1.2 m h)

theorem dist_zero_iff {G : List V} {v x : V} : Dist G v x 0 ↔ x = v :=
  ⟨fun h => walk_zero h.1, fun h => h ▸ ⟨Walk.zero, fun j hj => absurd hj (Nat.not_lt_zero j)⟩⟩

/-- the last step of a shortest walk starts at a string of distance one less -/
theorem dist_pred {G : List V} {v x : V} {k : Nat} (h : Dist G v x (k + 1)) :
    ∃ y g, Dist G v y k ∧ g ∈ G ∧ omega y g = true ∧ x = add y g := by
  obtain ⟨y, g, hw, hg, ho, rfl⟩ := walk_succ_inv h.1
  refine ⟨y, g, ⟨hw, fun j hj hwj => ?_⟩, hg, ho, rfl⟩
  exact h.2 (j + 1) (by omega) (Walk.succ hwj hg ho)

/-- all smaller distances are realised -/
theorem dist_level {G : List V} {v : V} : ∀ (k : Nat) {x : V}, Dist G v x k →
    ∀ j, j ≤ k → ∃ y, Dist G v y j
  | 0, x, h, j, hj => by
    have : j = 0 := by omega
    subst this; exact ⟨x, h⟩
  | k + 1, x, h, j, hj => by
    by_cases hjk : j = k + 1
    · subst hjk; exact ⟨x, h⟩
    · obtain ⟨y, _, hy, _, _, _⟩ := dist_pred h
      exact dist_level k hy j (by omega)

/-! ## The level-synchronous BFS -/

structure LInv (G : List V) (v : V) (spl : List (V × Nat)) (fr : List V) (d : Nat) : Prop where
  spl_iff : ∀ x k, (x, k) ∈ spl ↔ (Dist G v x k ∧ k ≤ d)
  fr_iff : ∀ x, x ∈ fr ↔ Dist G v x d
  nodup : (spl.map Prod.fst).Nodup

theorem linv_init (G : List V) (v : V) : LInv G v [(v, 0)] [v] 0 := by
  refine ⟨fun x k => ?_, fun x => by simp [dist_zero_iff], by simp⟩
  simp only [List.mem_singleton, Prod.mk.injEq]
  constructor
  · rintro ⟨rfl, rfl⟩; exact ⟨dist_zero_iff.2 rfl, Nat.le_refl _⟩
  · rintro ⟨hd, hk⟩
    have : k = 0 := by omega
    subst this
    exact ⟨dist_zero_iff.1 hd, rfl⟩

theorem linv_final {G : List V} {v : V} {spl : List (V × Nat)} {d : Nat}
    (h : LInv G v spl [] d) : ∀ x k, (x, k) ∈ spl ↔ Dist G v x k := by
  intro x k
  rw [h.spl_iff]
  refine ⟨fun hh => hh.1, fun hd => ⟨hd, ?_⟩⟩
  apply Nat.le_of_not_lt
  intro hlt
  obtain ⟨y, hy⟩ := dist_level k hd d (by omega)
  have := (h.fr_iff y).2 hy
  simp at this

/-- the nodes of the next level -/
def nextLevel (nbrs : V → List V) (spl : List (V × Nat)) (fr : List V) : List V :=
  dedup ((fr.flatMap nbrs).filter (fun y => !(spl.map Prod.fst).contains y))

theorem layers_zero (nbrs : V → List V) (spl : List (V × Nat)) (fr : List V) (d : Nat) :
    layers nbrs 0 spl fr d = (spl, fr.isEmpty) := rfl
theorem layers_nil (nbrs : V → List V) (fuel : Nat) (spl : List (V × Nat)) (d : Nat) :
    layers nbrs (fuel + 1) spl [] d = (spl, true) := rfl
theorem layers_cons (nbrs : V → List V) (fuel : Nat) (spl : List (V × Nat)) (x : V) (fr : List V)
    (d : Nat) :
    layers nbrs (fuel + 1) spl (x :: fr) d =
      layers nbrs fuel (spl ++ (nextLevel nbrs spl (x :: fr)).map (fun y => (y, d + 1)))
        (nextLevel nbrs spl (x :: fr)) (d + 1) := rfl

theorem mem_keys {spl : List (V × Nat)} {x : V} : x ∈ spl.map Prod.fst ↔ ∃ k, (x, k) ∈ spl := by
  simp

theorem mem_nextLevel {n : Nat} {G : List V} (hG : Uniform n G) {v : V} (hv : v.length = 2 * n)
    {nbrs : V → List V} (hn : ∀ z, z.length = 2 * n → ∀ y, y ∈ nbrs z ↔ y ∈ expand G z)
    {spl : List (V × Nat)} {fr : List V} {d : Nat} (h : LInv G v spl fr d) (x : V) :
    x ∈ nextLevel nbrs spl fr ↔ Dist G v x (d + 1) := by
  unfold nextLevel
  rw [mem_dedup, List.mem_filter, List.mem_flatMap]
  simp only [Bool.not_eq_eq_eq_not, Bool.not_true, List.contains_eq_mem, decide_eq_false_iff_not]
  constructor
  · rintro ⟨⟨z, hz, hxz⟩, hnot⟩
    have hzd := (h.fr_iff z).1 hz
    have hzl := walk_length hG hv hzd.1
    obtain ⟨g, hg, ho, rfl⟩ := mem_expand.1 ((hn z hzl x).1 hxz)
    refine ⟨Walk.succ hzd.1 hg ho, fun j hj hwj => hnot ?_⟩
    obtain ⟨m, hm, hdm⟩ := dist_of_walk j hwj
    exact mem_keys.2 ⟨m, (h.spl_iff _ m).2 ⟨hdm, by omega⟩⟩
  · intro hd
    obtain ⟨z, g, hz, hg, ho, rfl⟩ := dist_pred hd
    have hzl := walk_length hG hv hz.1
    refine ⟨⟨z, (h.fr_iff z).2 hz, (hn z hzl _).2 (mem_expand.2 ⟨g, hg, ho, rfl⟩)⟩, fun hin => ?_⟩
    obtain ⟨k, hk⟩ := mem_keys.1 hin
    obtain ⟨hdk, hkd⟩ := (h.spl_iff _ k).1 hk
    have := dist_unique hd hdk
    omega

theorem linv_step {n : Nat} {G : List V} (hG : Uniform n G) {v : V} (hv : v.length = 2 * n)
    {nbrs : V → List V} (hn : ∀ z, z.length = 2 * n → ∀ y, y ∈ nbrs z ↔ y ∈ expand G z)
    {spl : List (V × Nat)} {fr : List V} {d : Nat} (h : LInv G v spl fr d) :
    LInv G v (spl ++ (nextLevel nbrs spl fr).map (fun y => (y, d + 1)))
      (nextLevel nbrs spl fr) (d + 1) := by
  have hm := mem_nextLevel hG hv hn h
  refine ⟨fun x k => ?_, hm, ?_⟩
  · rw [List.mem_append, h.spl_iff]
    simp only [List.mem_map, Prod.mk.injEq]
    constructor
    · rintro (⟨hd, hk⟩ | ⟨y, hy, rfl, rfl⟩)
      · exact ⟨hd, by omega⟩
      · exact ⟨(hm y).1 hy, Nat.le_refl _⟩
    · rintro ⟨hd, hk⟩
      by_cases hkd : k ≤ d
      · exact Or.inl ⟨hd, hkd⟩
      · have : k = d + 1 := by omega
        subst this
        exact Or.inr ⟨x, (hm x).2 hd, rfl, rfl⟩
  · rw [List.map_append, List.map_map]
    have e : (Prod.fst ∘ fun y : V => (y, d + 1)) = id := rfl
    rw [e, List.map_id, List.nodup_append]
    refine ⟨h.nodup, nodup_dedup _, ?_⟩
    intro a ha b hb hab
    subst hab
    obtain ⟨k, hk⟩ := mem_keys.1 ha
    obtain ⟨hdk, hkd⟩ := (h.spl_iff _ k).1 hk
    have := dist_unique ((hm a).1 hb) hdk
    omega

theorem keys_bound {n : Nat} {G : List V} (hG : Uniform n G) {v : V} (hv : v.length = 2 * n)
    {spl : List (V × Nat)} {fr : List V} {d : Nat} (h : LInv G v spl fr d) :
    spl.length ≤ 4 ^ n := by
  have := length_le_of_nodup_bits (2 * n) (spl.map Prod.fst) h.nodup (by
    intro y hy
    obtain ⟨k, hk⟩ := mem_keys.1 hy
    exact walk_length hG hv ((h.spl_iff _ k).1 hk).1.1)
  rwa [Nat.pow_mul, List.length_map] at this

/-- the BFS run from a state satisfying the invariant, with enough fuel,
terminates by exhausting the frontier; its pairs are exactly `(x, d(v,x))` -/
theorem layers_spec {n : Nat} {G : List V} (hG : Uniform n G) {v : V} (hv : v.length = 2 * n)
    {nbrs : V → List V} (hn : ∀ z, z.length = 2 * n → ∀ y, y ∈ nbrs z ↔ y ∈ expand G z) :
    ∀ (fuel : Nat) (spl : List (V × Nat)) (fr : List V) (d : Nat), LInv G v spl fr d →
      (fr = [] ∨ 4 ^ n + 1 ≤ fuel + spl.length) →
      (layers nbrs fuel spl fr d).2 = true ∧
      (∀ x k, (x, k) ∈ (layers nbrs fuel spl fr d).1 ↔ Dist G v x k) ∧
      ((layers nbrs fuel spl fr d).1.map Prod.fst).Nodup
  | 0, spl, fr, d, h, hf => by
    have hb := keys_bound hG hv h
    have : fr = [] := by
      rcases hf with hf | hf
      · exact hf
      · omega
    subst this
    exact ⟨rfl, linv_final h, h.nodup⟩
  | fuel + 1, spl, [], d, h, _ => ⟨rfl, linv_final h, h.nodup⟩
  | fuel + 1, spl, x :: fr, d, h, hf => by
    rw [layers_cons]
    apply layers_spec hG hv hn fuel _ _ _ (linv_step hG hv hn h)
    rcases hf with hf | hf
    · simp at hf
    · cases hnx : nextLevel nbrs spl (x :: fr) with
      | nil => exact Or.inl rfl
      | cons a t =>
        right
        simp only [List.length_append, List.length_map, List.length_cons]
        omega

theorem splCore_spec {n : Nat} {G : List V} (hG : Uniform n G) {v : V} (hv : v.length = 2 * n)
    {nbrs : V → List V} (hn : ∀ z, z.length = 2 * n → ∀ y, y ∈ nbrs z ↔ y ∈ expand G z) :
    (splCore nbrs v).2 = true ∧
    (∀ x k, (x, k) ∈ (splCore nbrs v).1 ↔ Dist G v x k) ∧
    ((splCore nbrs v).1.map Prod.fst).Nodup := by
  unfold splCore
  have hn2 : v.length / 2 = n := by omega
  rw [hn2]
  exact layers_spec hG hv hn _ _ _ _ (linv_init G v) (Or.inr (by simp))

/-- sum of the assigned distances and number of nodes, against any duplicate-free
enumeration `L` of the orbit and any function `δ` giving the distance on `L` -/
theorem spl_sum {G : List V} {v : V} {spl : List (V × Nat)}
    (hs : ∀ x k, (x, k) ∈ spl ↔ Dist G v x k) (hnd : (spl.map Prod.fst).Nodup)
    {L : List V} (hL : L.Nodup) (hmem : ∀ x, x ∈ L ↔ Orbit G v x)
    (δ : V → Nat) (hδ : ∀ x, x ∈ L → Dist G v x (δ x)) :
    (spl.map Prod.snd).sum = (L.map δ).sum ∧ spl.length = L.length := by
  have hp : (spl.map Prod.fst).Perm L := by
    rw [List.perm_ext_iff_of_nodup hnd hL]
    intro x
    rw [mem_keys, hmem]
    constructor
    · rintro ⟨k, hk⟩; exact walk_orbit ((hs x k).1 hk).1
    · intro ho; obtain ⟨k, hk⟩ := dist_of_orbit ho; exact ⟨k, (hs x k).2 hk⟩
  have he : spl.map Prod.snd = (spl.map Prod.fst).map δ := by
    rw [List.map_map]
    apply List.map_congr_left
    rintro ⟨x, k⟩ hxk
    have hd := (hs x k).1 hxk
    have hx : x ∈ L := (hmem x).2 (walk_orbit hd.1)
    exact dist_unique hd (hδ x hx)
  refine ⟨?_, ?_⟩
  · rw [he]; exact (hp.map δ).sum_nat
  · have := hp.length_eq
    rwa [List.length_map] at this

end Otoc
end PauLie
