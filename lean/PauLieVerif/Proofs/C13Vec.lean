/-
C13, list level: `_pauli_ord` / `_mat_to_vec` produce the block-recursive Pauli
ordering `vecF`; the guards (`bit_count`, `bit_length`); what the two public
functions return on valid input and what a string then looks up.
-/
import PauLieVerif.Proofs.C13Index

namespace PauLie
namespace Decomp

open C04 (cx cz)

/-! ### `bit_length`, `bit_count` -/

theorem bitLength_two_pow (n : ℕ) : bitLength (2 ^ n) - 1 = n := by
  unfold bitLength
  rw [if_neg (by positivity), Nat.log2_two_pow]
  rfl

theorem bitCountAux_zero (f : ℕ) : bitCountAux f 0 = 0 := by
  cases f <;> simp [bitCountAux]

theorem bitCountAux_two_pow : ∀ (n f : ℕ), n < f → bitCountAux f (2 ^ n) = 1 := by
  intro n
  induction n with
  | zero =>
    intro f hf
    cases f with
    | zero => omega
    | succ f => simp [bitCountAux, bitCountAux_zero]
  | succ n ih =>
    intro f hf
    cases f with
    | zero => omega
    | succ f =>
      have h0 : 2 ^ (n + 1) ≠ 0 := by positivity
      have h1 : 2 ^ (n + 1) % 2 = 0 := by rw [pow_succ]; omega
      have h2 : 2 ^ (n + 1) / 2 = 2 ^ n := by rw [pow_succ]; omega
      rw [bitCountAux, if_neg h0, h1, h2, ih f (by omega)]

theorem bitCount_two_pow (n : ℕ) : bitCount (2 ^ n) = 1 :=
  bitCountAux_two_pow n _ (Nat.lt_pow_self (by norm_num))

theorem bitCountAux_eq_zero : ∀ (f m : ℕ), m ≤ f → bitCountAux f m = 0 → m = 0 := by
  intro f
  induction f with
  | zero => intro m hm _; omega
  | succ f ih =>
    intro m hm h
    by_contra h0
    rw [bitCountAux, if_neg h0] at h
    have := ih (m / 2) (by omega) (by omega)
    omega

theorem bitCountAux_eq_one : ∀ (f m : ℕ), m ≤ f → bitCountAux f m = 1 → ∃ k, m = 2 ^ k := by
  intro f
  induction f with
  | zero => intro m _ h; simp [bitCountAux] at h
  | succ f ih =>
    intro m hm h
    by_cases h0 : m = 0
    · subst h0; simp [bitCountAux] at h
    rw [bitCountAux, if_neg h0] at h
    rcases Nat.mod_two_eq_zero_or_one m with hp | hp
    · rw [hp, zero_add] at h
      obtain ⟨k, hk⟩ := ih (m / 2) (by omega) h
      exact ⟨k + 1, by rw [pow_succ]; omega⟩
    · rw [hp] at h
      have := bitCountAux_eq_zero f (m / 2) (by omega) (by omega)
      exact ⟨0, by simp; omega⟩

/-- `int.bit_count() == 1` exactly for the powers of two -/
theorem bitCount_eq_one_iff (m : ℕ) : bitCount m = 1 ↔ ∃ k, m = 2 ^ k :=
  ⟨bitCountAux_eq_one m m (le_refl _), fun ⟨k, hk⟩ => hk ▸ bitCount_two_pow k⟩

/-! ### the Pauli ordering, block-recursively -/

/-- the entries `f row col` of a `2^n × 2^n` array in Pauli order:
`vec [[A,B],[C,D]] = vec A ++ vec D ++ vec B ++ vec C` -/
def vecF {α : Type} : ℕ → (ℕ → ℕ → α) → List α
  | 0, f => [f 0 0]
  | n + 1, f => vecF n f ++ (vecF n (fun r c => f (r + 2 ^ n) (c + 2 ^ n))
      ++ (vecF n (fun r c => f r (c + 2 ^ n)) ++ vecF n (fun r c => f (r + 2 ^ n) c)))

theorem vecF_length {α : Type} : ∀ (n : ℕ) (f : ℕ → ℕ → α), (vecF n f).length = 4 ^ n
  | 0, _ => rfl
  | n + 1, f => by
    simp only [vecF, List.length_append, vecF_length n, pow_succ]; ring

theorem vecF_map {α β : Type} (φ : α → β) : ∀ (n : ℕ) (f : ℕ → ℕ → α),
    (vecF n f).map φ = vecF n (fun r c => φ (f r c))
  | 0, _ => rfl
  | n + 1, f => by simp only [vecF, List.map_append, vecF_map φ n]

theorem mem_vecF {α : Type} : ∀ (n : ℕ) (f : ℕ → ℕ → α) (x : α), x ∈ vecF n f →
    ∃ r c, r < 2 ^ n ∧ c < 2 ^ n ∧ x = f r c
  | 0, f, x, h => ⟨0, 0, by simp, by simp, by simpa [vecF] using h⟩
  | n + 1, f, x, h => by
    simp only [vecF, List.mem_append] at h
    rcases h with h | h | h | h
    · obtain ⟨r, c, hr, hc, e⟩ := mem_vecF n _ x h
      exact ⟨r, c, by rw [pow_succ]; omega, by rw [pow_succ]; omega, e⟩
    · obtain ⟨r, c, hr, hc, e⟩ := mem_vecF n _ x h
      exact ⟨r + 2 ^ n, c + 2 ^ n, by rw [pow_succ]; omega, by rw [pow_succ]; omega, e⟩
    · obtain ⟨r, c, hr, hc, e⟩ := mem_vecF n _ x h
      exact ⟨r, c + 2 ^ n, by rw [pow_succ]; omega, by rw [pow_succ]; omega, e⟩
    · obtain ⟨r, c, hr, hc, e⟩ := mem_vecF n _ x h
      exact ⟨r + 2 ^ n, c, by rw [pow_succ]; omega, by rw [pow_succ]; omega, e⟩

/-- `_pauli_ord(row, col, n)` for `n ≥ 1` enumerates (row, col) in the order of `vecF` -/
theorem pauliOrd_spec : ∀ n : ℕ, ∃ row col : List ℕ, pauliOrd (n + 1) = .ok (row, col) ∧
    row.length = col.length ∧
    ∀ g : ℕ → ℕ → ℕ, List.zipWith g row col = vecF (n + 1) g := by
  intro n
  induction n with
  | zero =>
    exact ⟨[0, 1, 0, 1], [0, 1, 1, 0], rfl, rfl, fun g => by simp [vecF]⟩
  | succ n ih =>
    obtain ⟨row, col, h, hl, hz⟩ := ih
    refine ⟨_, _, by rw [pauliOrd, h], ?_, ?_⟩
    · simp [hl]
    · intro g
      have hs : 1 <<< (n + 1) = 2 ^ (n + 1) := Nat.one_shiftLeft _
      rw [hs]
      rw [List.zipWith_append (by simp [hl]), List.zipWith_append (by simp [hl]),
        List.zipWith_append (by simp [hl])]
      simp only [List.zipWith_map_left, List.zipWith_map_right]
      rw [vecF, ← hz, ← hz, ← hz, ← hz]
      simp only [List.append_assoc]

theorem gather_ok (flat : List GR) : ∀ idxs : List ℕ, (∀ i ∈ idxs, i < flat.length) →
    gather flat idxs = .ok (idxs.map (fun i => flat.getD i GR.zero))
  | [], _ => rfl
  | i :: t, h => by
    have hi : i < flat.length := h i (by simp)
    have ht := gather_ok flat t (fun j hj => h j (by simp [hj]))
    simp [gather, ht, List.getElem?_eq_getElem hi, List.getD_eq_getElem?_getD]

/-- the matrix entry the data hold at `(row, col)` -/
def entryOf (n : ℕ) (flat : List GR) (r c : ℕ) : GR := flat.getD (2 ^ n * r + c) GR.zero

/-- **`_mat_to_vec`** of a `2^n × 2^n` matrix (`n ≥ 1`) is the Pauli-ordered vector -/
theorem matToVec_spec (n : ℕ) (hn : 1 ≤ n) (flat : List GR) (hf : flat.length = 2 ^ n * 2 ^ n) :
    matToVec (2 ^ n) flat = .ok (vecF n (entryOf n flat)) := by
  obtain ⟨m, rfl⟩ : ∃ m, n = m + 1 := ⟨n - 1, by omega⟩
  obtain ⟨row, col, h, _, hz⟩ := pauliOrd_spec m
  unfold matToVec
  simp only [bitLength_two_pow, h, Nat.one_shiftLeft]
  rw [hz, gather_ok, vecF_map]
  · rfl
  · intro i hi
    obtain ⟨r, c, hr, hc, rfl⟩ := mem_vecF _ _ _ hi
    rw [hf]
    have : 2 ^ (m + 1) * r + 2 ^ (m + 1) ≤ 2 ^ (m + 1) * 2 ^ (m + 1) := by
      have := Nat.mul_le_mul_left (2 ^ (m + 1)) (Nat.succ_le_of_lt hr)
      simpa [Nat.mul_succ] using this
    omega

/-! ### the two public functions on valid input -/

theorem two_pow_ne_one (n : ℕ) (hn : 1 ≤ n) : 2 ^ n ≠ 1 := by
  have : 2 ^ 1 ≤ 2 ^ n := Nat.pow_le_pow_right (by norm_num) hn
  omega

theorem matrixDecomposition_spec (n : ℕ) (hn : 1 ≤ n) (flat : List GR)
    (hf : flat.length = 2 ^ n * 2 ^ n) :
    matrixDecomposition ⟨[2 ^ n, 2 ^ n], flat⟩ = .ok (passes4 n (vecF n (entryOf n flat))) := by
  unfold matrixDecomposition
  simp only [ne_eq, not_true_eq_false, if_false, two_pow_ne_one n hn, bitCount_two_pow,
    matToVec_spec n hn flat hf]
  rw [whileLoop4 n _ (vecF_length n _)]

theorem matrixDecompositionDiagonal_spec (n : ℕ) (hn : 1 ≤ n) (d : List GR) (hd : d.length = 2 ^ n) :
    matrixDecompositionDiagonal ⟨[2 ^ n], d⟩ = .ok (passes2 n d) := by
  unfold matrixDecompositionDiagonal
  simp only [ne_eq, not_true_eq_false, if_false, two_pow_ne_one n hn, bitCount_two_pow]
  rw [whileLoop2 n _ hd]

theorem two_pow_ne_four_pow (n : ℕ) (hn : 1 ≤ n) : (4 : ℕ) ^ n ≠ 2 ^ n :=
  ne_of_gt (Nat.pow_lt_pow_left (by norm_num) (by omega))

/-- what a string of length `n ≥ 1` looks up in a vector of length `4^n` -/
theorem getWeight_general (P : List Letter) (hP : 1 ≤ P.length) (w : List GR)
    (hw : w.length = 4 ^ P.length) (x : GR) (hx : w[idx4 P]? = some x) :
    getWeightInMatrix (PS.ofLetters P) w = .ok x := by
  have hne : P ≠ [] := by intro h; simp [h] at hP
  unfold getWeightInMatrix
  simp only [C04.len_ofLetters, hw, two_pow_ne_four_pow _ hP, ne_eq, not_true_eq_false,
    and_false, if_false, getIndex_ofLetters P hne, hx]

/-- what an `I/Z` string of length `n ≥ 1` looks up in a vector of length `2^n` -/
theorem getWeight_diagonal (P : List Letter) (hP : 1 ≤ P.length) (w : List GR)
    (hw : w.length = 2 ^ P.length) (h : ∀ l ∈ P, cx l = false) (x : GR)
    (hx : w[idx2 (P.map cz)]? = some x) :
    getWeightInMatrix (PS.ofLetters P) w = .ok x := by
  have hne : P ≠ [] := by intro h; simp [h] at hP
  unfold getWeightInMatrix
  simp only [C04.len_ofLetters, hw, ne_eq, not_true_eq_false, false_and, if_false, if_true,
    getDiagonalIndex_ofLetters P hne]
  rw [if_pos h]
  have : ((idx2 (P.map cz) : ℤ) > -1) := by omega
  simp only [this, if_true, Int.toNat_natCast, hx]

/-- a string with an `X` or `Y` letter looks up `0` in a vector of length `2^n` -/
theorem getWeight_diagonal_zero (P : List Letter) (hP : 1 ≤ P.length) (w : List GR)
    (hw : w.length = 2 ^ P.length) (h : ¬ ∀ l ∈ P, cx l = false) :
    getWeightInMatrix (PS.ofLetters P) w = .ok GR.zero := by
  have hne : P ≠ [] := by intro h; simp [h] at hP
  unfold getWeightInMatrix
  simp only [C04.len_ofLetters, hw, ne_eq, not_true_eq_false, false_and, if_false, if_true,
    getDiagonalIndex_ofLetters P hne]
  rw [if_neg h]
  simp

end Decomp
end PauLie
