/-
C01, type B - transfer between realisations (core Lean only).

Two families of Pauli strings `vs`, `ws` of the same size with the same anticommutation pattern
(`samePatB vs ws`: `vs[i]`, `vs[j]` anticommute iff `ws[i]`, `ws[j]` do), both linearly independent
over F2: the linear map `Σ_S vs ↦ Σ_S ws` carries the commutator closure of `vs` onto that of `ws`
(`clo_transfer`), so the closures have the same number of elements (`transfer_card`).  This reduces a
statement about EVERY independent realisation of a graph to one canonical realisation.
-/
import PauLieVerif.Proofs.C01StarCount

namespace PauLie
namespace C01TypeB
open Closure C01Star

/-- `omega x v_i = omega y w_i` for all `i` (and equal lengths) -/
def patRow (x y : V) : List V → List V → Bool
  | [], [] => true
  | v :: vs, w :: ws => (omega x v == omega y w) && patRow x y vs ws
  | _, _ => false

/-- `omega v_i v'_j = omega w_i w'_j` for all `i`, `j` -/
def samePat : List V → List V → List V → List V → Bool
  | [], [], _, _ => true
  | v :: vs, w :: ws, vs', ws' => patRow v w vs' ws' && samePat vs ws vs' ws'
  | _, _, _, _ => false

/-- the two families have the same anticommutation pattern (executable) -/
def samePatB (vs ws : List V) : Bool := samePat vs ws vs ws

theorem patRow_length {x y : V} : ∀ {vs ws : List V}, patRow x y vs ws = true → vs.length = ws.length
  | [], [], _ => rfl
  | _ :: vs, _ :: ws, h => by
    simp only [patRow, Bool.and_eq_true] at h
    simp [patRow_length h.2]
  | [], _ :: _, h => by simp [patRow] at h
  | _ :: _, [], h => by simp [patRow] at h

theorem samePat_length : ∀ {vs ws vs' ws' : List V}, samePat vs ws vs' ws' = true → vs.length = ws.length
  | [], [], _, _, _ => rfl
  | _ :: vs, _ :: ws, _, _, h => by
    simp only [samePat, Bool.and_eq_true] at h
    simp [samePat_length h.2]
  | [], _ :: _, _, _, h => by simp [samePat] at h
  | _ :: _, [], _, _, h => by simp [samePat] at h

theorem omega_row {L L' : Nat} {x y : V} : ∀ (b : List Bool) (vs ws : List V), patRow x y vs ws = true →
    (∀ v ∈ vs, v.length = L) → (∀ w ∈ ws, w.length = L') →
    omega x (msum L b vs) = omega y (msum L' b ws)
  | [], _, _, _, _, _ => by simp [omega_zero_right]
  | _ :: _, [], [], _, _, _ => by simp [omega_zero_right]
  | _ :: _, [], _ :: _, h, _, _ => by simp [patRow] at h
  | _ :: _, _ :: _, [], h, _, _ => by simp [patRow] at h
  | t :: b, v :: vs, w :: ws, h, hv, hw => by
    simp only [patRow, Bool.and_eq_true, beq_iff_eq] at h
    have hv' : ∀ u ∈ vs, u.length = L := fun u hu => hv u (by simp [hu])
    have hw' : ∀ u ∈ ws, u.length = L' := fun u hu => hw u (by simp [hu])
    have ih := omega_row b vs ws h.2 hv' hw'
    cases t
    · simpa using ih
    · rw [msum_true, msum_true, omega_add_right x v _ ((hv v (by simp)).trans (length_msum b vs hv').symm),
        omega_add_right y w _ ((hw w (by simp)).trans (length_msum b ws hw').symm), ih, h.1]

theorem omega_mat {L L' : Nat} {vs' ws' : List V} (hv' : ∀ v ∈ vs', v.length = L) (hw' : ∀ w ∈ ws', w.length = L')
    (b : List Bool) : ∀ (a : List Bool) (vs ws : List V), samePat vs ws vs' ws' = true →
    (∀ v ∈ vs, v.length = L) → (∀ w ∈ ws, w.length = L') →
    omega (msum L a vs) (msum L b vs') = omega (msum L' a ws) (msum L' b ws')
  | [], _, _, _, _, _ => by simp [omega_zero_left]
  | _ :: _, [], [], _, _, _ => by simp [omega_zero_left]
  | _ :: _, [], _ :: _, h, _, _ => by simp [samePat] at h
  | _ :: _, _ :: _, [], h, _, _ => by simp [samePat] at h
  | t :: a, v :: vs, w :: ws, h, hv, hw => by
    simp only [samePat, Bool.and_eq_true] at h
    have hvt : ∀ u ∈ vs, u.length = L := fun u hu => hv u (by simp [hu])
    have hwt : ∀ u ∈ ws, u.length = L' := fun u hu => hw u (by simp [hu])
    have ih := omega_mat hv' hw' b a vs ws h.2 hvt hwt
    cases t
    · simpa using ih
    · rw [msum_true, msum_true, omega_add_left v _ _ ((hv v (by simp)).trans (length_msum a vs hvt).symm),
        omega_add_left w _ _ ((hw w (by simp)).trans (length_msum a ws hwt).symm), ih,
        omega_row b vs' ws' h.1 hv' hw']

/-- a member of `vs` is a unit selection, and the same selection of `ws` is a member of `ws` -/
theorem unit_mask {L L' : Nat} : ∀ (vs ws : List V) (x : V), vs.length = ws.length → x ∈ vs →
    (∀ v ∈ vs, v.length = L) → (∀ w ∈ ws, w.length = L') →
    ∃ b : List Bool, b.length = vs.length ∧ msum L b vs = x ∧ msum L' b ws ∈ ws
  | [], _, _, _, h, _, _ => by simp at h
  | _ :: _, [], _, h, _, _, _ => by simp at h
  | v :: vs, w :: ws, x, hl, hx, hv, hw => by
    rcases List.mem_cons.1 hx with rfl | hx
    · refine ⟨true :: noneMask vs.length, by simp, ?_, ?_⟩
      · rw [msum_true, msum_noneMask, add_zero_right L _ (hv _ (by simp))]
      · rw [msum_true, msum_noneMask, add_zero_right L' _ (hw _ (by simp))]; simp
    · obtain ⟨b, h1, h2, h3⟩ := unit_mask vs ws x (by simpa using hl) hx (fun u hu => hv u (by simp [hu]))
        (fun u hu => hw u (by simp [hu]))
      exact ⟨false :: b, by simp [h1], by simpa using h2, by simp [h3]⟩

/-- **transfer of the closure** along the linear map given by the two families -/
theorem clo_transfer {L L' : Nat} {vs ws : List V} (hp : samePatB vs ws = true)
    (hv : ∀ v ∈ vs, v.length = L) (hw : ∀ w ∈ ws, w.length = L') {x : V} (hx : Clo vs x) :
    ∃ b : List Bool, b.length = vs.length ∧ x = msum L b vs ∧ Clo ws (msum L' b ws) := by
  have hl : vs.length = ws.length := samePat_length hp
  induction hx with
  | base hg =>
    obtain ⟨b, h1, h2, h3⟩ := unit_mask vs ws _ hl hg hv hw
    exact ⟨b, h1, h2.symm, Clo.base h3⟩
  | step _ _ ho ihx ihy =>
    obtain ⟨a, la, rfl, ca⟩ := ihx
    obtain ⟨b, lb, rfl, cb⟩ := ihy
    refine ⟨mxor a b, by rw [length_mxor a b (la.trans lb.symm), la], (msum_mxor a b vs hv la lb).symm, ?_⟩
    rw [msum_mxor a b ws hw (la.trans hl) (lb.trans hl)]
    refine Clo.step ca cb ?_
    rw [← omega_mat hv hw b a vs ws hp hv hw]
    exact ho

theorem patRow_symm {x y : V} : ∀ {vs ws : List V}, patRow x y vs ws = true → patRow y x ws vs = true
  | [], [], _ => rfl
  | _ :: _, _ :: _, h => by
    simp only [patRow, Bool.and_eq_true, beq_iff_eq] at h ⊢
    exact ⟨h.1.symm, patRow_symm h.2⟩
  | [], _ :: _, h => by simp [patRow] at h
  | _ :: _, [], h => by simp [patRow] at h

theorem samePat_symm : ∀ {vs ws vs' ws' : List V}, samePat vs ws vs' ws' = true → samePat ws vs ws' vs' = true
  | [], [], _, _, _ => rfl
  | _ :: _, _ :: _, _, _, h => by
    simp only [samePat, Bool.and_eq_true] at h ⊢
    exact ⟨patRow_symm h.1, samePat_symm h.2⟩
  | [], _ :: _, _, _, h => by simp [samePat] at h
  | _ :: _, [], _, _, h => by simp [samePat] at h

theorem samePatB_symm {vs ws : List V} (h : samePatB vs ws = true) : samePatB ws vs = true := samePat_symm h

/-- with independence the selection is determined: membership is carried both ways -/
theorem clo_transfer_iff {L L' : Nat} {vs ws : List V} (hp : samePatB vs ws = true)
    (hv : ∀ v ∈ vs, v.length = L) (hw : ∀ w ∈ ws, w.length = L') (hIv : Indep L vs) (hIw : Indep L' ws)
    (b : List Bool) (hb : b.length = vs.length) : Clo vs (msum L b vs) ↔ Clo ws (msum L' b ws) := by
  have hl : vs.length = ws.length := samePat_length hp
  constructor
  · intro h
    obtain ⟨b', lb', e, c⟩ := clo_transfer hp hv hw h
    rwa [← hIv.inj hv hb lb' e] at c
  · intro h
    obtain ⟨b', lb', e, c⟩ := clo_transfer (samePatB_symm hp) hw hv h
    rwa [← hIw.inj hw (hb.trans hl) lb' e] at c

/-- **equal pattern, both independent: the closures have the same size** -/
theorem transfer_card {n n' : Nat} {vs ws : List V} (hp : samePatB vs ws = true)
    (hv : Uniform n vs) (hw : Uniform n' ws) (hIv : Indep (2 * n) vs) (hIw : Indep (2 * n') ws) :
    (closureList vs).1.length = (closureList ws).1.length := by
  have hl : vs.length = ws.length := samePat_length hp
  let M := (allMasks vs.length).filter (fun b => (closureList ws).1.contains (msum (2 * n') b ws))
  have hM : ∀ b, b ∈ M ↔ b.length = vs.length ∧ Clo ws (msum (2 * n') b ws) := by
    intro b
    simp only [M, List.mem_filter, mem_allMasks, List.contains_iff_mem, closureList_sound_complete hw]
  have hMnd : M.Nodup := (nodup_allMasks _).filter _
  have e1 : (M.map (fun b => msum (2 * n) b vs)).length = (closureList vs).1.length := by
    apply clo_card hv
    · exact nodup_map_of_inj_on hMnd (fun a ha b hb e => hIv.inj hv ((hM a).1 ha).1 ((hM b).1 hb).1 e)
    · intro x
      simp only [List.mem_map]
      constructor
      · rintro ⟨b, hb, rfl⟩
        exact (clo_transfer_iff hp hv hw hIv hIw b ((hM b).1 hb).1).2 ((hM b).1 hb).2
      · intro hx
        obtain ⟨b, lb, rfl, c⟩ := clo_transfer hp hv hw hx
        exact ⟨b, (hM b).2 ⟨lb, c⟩, rfl⟩
  have e2 : (M.map (fun b => msum (2 * n') b ws)).length = (closureList ws).1.length := by
    apply clo_card hw
    · exact nodup_map_of_inj_on hMnd (fun a ha b hb e =>
        hIw.inj hw (((hM a).1 ha).1.trans hl) (((hM b).1 hb).1.trans hl) e)
    · intro x
      simp only [List.mem_map]
      constructor
      · rintro ⟨b, hb, rfl⟩
        exact ((hM b).1 hb).2
      · intro hx
        obtain ⟨b, lb, rfl, _⟩ := clo_transfer (samePatB_symm hp) hw hv hx
        exact ⟨b, (hM b).2 ⟨lb.trans hl.symm, hx⟩, rfl⟩
  rw [← e1, ← e2, List.length_map, List.length_map]

end C01TypeB
end PauLie
