/-
C15, part 1: the BFS of `average_otoc` (core on bit lists) enumerates exactly the
orbit; the counters are the orbit size and the number of orbit elements
anticommuting with `w`; the fuel always suffices.  Core Lean only.
-/
import PauLieVerif.Model.Otoc
import PauLieVerif.Spec.OrbitDist
import PauLieVerif.Proofs.Closure

namespace PauLie
namespace Otoc
open Closure

/-! ## The worklist invariant of `otocLoop` -/

structure Inv (gens : List V) (v w : V) (vis q : List V) (a s : Nat) : Prop where
  vis_orbit : ∀ y, y ∈ vis → Orbit gens v y
  q_orbit : ∀ y, y ∈ q → Orbit gens v y
  nodup : vis.Nodup
  anti_eq : a = vis.countP (fun x => omega w x)
  size_eq : s = vis.length
  closed : ∀ y, y ∈ vis → ∀ g, g ∈ gens → omega y g = true → add y g ∈ vis ∨ add y g ∈ q
  root : v ∈ vis ∨ v ∈ q

/-- what the result satisfies: a duplicate-free enumeration of the orbit with
the right counters -/
structure Final (gens : List V) (v w : V) (R : Res) : Prop where
  nodup : R.visited.Nodup
  mem : ∀ y, y ∈ R.visited ↔ Orbit gens v y
  anti_eq : R.anti = R.visited.countP (fun x => omega w x)
  size_eq : R.size = R.visited.length

theorem final_of_inv_nil {gens : List V} {v w : V} {vis : List V} {a s : Nat} {d : Bool}
    (h : Inv gens v w vis [] a s) : Final gens v w ⟨vis, a, s, d⟩ := by
  refine ⟨h.nodup, fun y => ⟨h.vis_orbit y, fun hy => ?_⟩, h.anti_eq, h.size_eq⟩
  induction hy with
  | base => rcases h.root with h | h; exact h; simp at h
  | step _ hg ho ih => rcases h.closed _ ih _ hg ho with h | h; exact h; simp at h

theorem inv_init (gens : List V) (v w : V) : Inv gens v w [] [v] 0 0 :=
  ⟨by simp, by intro y hy; simp at hy; subst hy; exact Orbit.base, List.nodup_nil, rfl, rfl,
   by simp, Or.inr (by simp)⟩

theorem inv_skip {gens : List V} {v w : V} {vis rest : List V} {t : V} {a s : Nat}
    (h : Inv gens v w vis (t :: rest) a s) (ht : t ∈ vis) : Inv gens v w vis rest a s := by
  refine ⟨h.vis_orbit, fun y hy => h.q_orbit y (List.mem_cons_of_mem _ hy), h.nodup, h.anti_eq,
    h.size_eq, ?_, ?_⟩
  · intro y hy g hg ho
    rcases h.closed y hy g hg ho with h1 | h1
    · exact Or.inl h1
    · rcases List.mem_cons.1 h1 with h2 | h2
      · exact Or.inl (h2 ▸ ht)
      · exact Or.inr h2
  · rcases h.root with h1 | h1
    · exact Or.inl h1
    · rcases List.mem_cons.1 h1 with h2 | h2
      · exact Or.inl (h2 ▸ ht)
      · exact Or.inr h2

theorem mem_children {gens vis : List V} {t y : V} :
    y ∈ children gens vis t ↔ y ∈ expand gens t ∧ y ∉ vis := by
  simp [children]

theorem inv_push {gens : List V} {v w : V} {vis rest : List V} {t : V} {a s : Nat}
    (h : Inv gens v w vis (t :: rest) a s) (ht : t ∉ vis) :
    Inv gens v w (t :: vis) (rest ++ children gens (t :: vis) t)
      (if omega w t then a + 1 else a) (s + 1) := by
  have hto : Orbit gens v t := h.q_orbit t (List.mem_cons_self ..)
  refine ⟨?_, ?_, List.nodup_cons.2 ⟨ht, h.nodup⟩, ?_, by simp [h.size_eq], ?_, ?_⟩
  · intro y hy
    rcases List.mem_cons.1 hy with rfl | hy
    · exact hto
    · exact h.vis_orbit y hy
  · intro y hy
    rcases List.mem_append.1 hy with hy | hy
    · exact h.q_orbit y (List.mem_cons_of_mem _ hy)
    · obtain ⟨g, hg, ho, rfl⟩ := mem_expand.1 (mem_children.1 hy).1
      exact Orbit.step hto hg ho
  · rw [List.countP_cons, h.anti_eq]; cases omega w t <;> simp
  · intro y hy g hg ho
    rcases List.mem_cons.1 hy with rfl | hy
    · by_cases hin : add y g ∈ y :: vis
      · exact Or.inl hin
      · exact Or.inr (List.mem_append_right _
          (mem_children.2 ⟨mem_expand.2 ⟨g, hg, ho, rfl⟩, hin⟩))
    · rcases h.closed y hy g hg ho with h1 | h1
      · exact Or.inl (List.mem_cons_of_mem _ h1)
      · rcases List.mem_cons.1 h1 with h2 | h2
        · exact Or.inl (h2 ▸ List.mem_cons_self ..)
        · exact Or.inr (List.mem_append_left _ h2)
  · rcases h.root with h1 | h1
    · exact Or.inl (List.mem_cons_of_mem _ h1)
    · rcases List.mem_cons.1 h1 with h2 | h2
      · exact Or.inl (h2 ▸ List.mem_cons_self ..)
      · exact Or.inr (List.mem_append_left _ h2)

theorem length_children_le (gens vis : List V) (t : V) :
    (children gens vis t).length ≤ gens.length := by
  unfold children expand
  exact Nat.le_trans (List.length_filter_le ..)
    (by rw [List.length_map]; exact List.length_filter_le ..)

theorem otocLoop_zero (gens : List V) (w : V) (vis q : List V) (a s : Nat) :
    otocLoop gens w 0 vis q a s = ⟨vis, a, s, q.isEmpty⟩ := rfl
theorem otocLoop_nil (gens : List V) (w : V) (fuel : Nat) (vis : List V) (a s : Nat) :
    otocLoop gens w (fuel + 1) vis [] a s = ⟨vis, a, s, true⟩ := rfl
theorem otocLoop_cons (gens : List V) (w : V) (fuel : Nat) (vis rest : List V) (t : V) (a s : Nat) :
    otocLoop gens w (fuel + 1) vis (t :: rest) a s =
      if vis.contains t then otocLoop gens w fuel vis rest a s
      else otocLoop gens w fuel (t :: vis) (rest ++ children gens (t :: vis) t)
        (if omega w t then a + 1 else a) (s + 1) := rfl

/-- number of visited strings is at most `4^n` -/
theorem vis_bound {n : Nat} {gens : List V} (hG : Uniform n gens) {v : V} (hv : v.length = 2 * n)
    {vis : List V} (hnd : vis.Nodup) (ho : ∀ y, y ∈ vis → Orbit gens v y) : vis.length ≤ 4 ^ n := by
  have := length_le_of_nodup_bits (2 * n) vis hnd (fun y hy => orbit_length hG hv (ho y hy))
  rwa [Nat.pow_mul] at this

/-- the loop, run from a state satisfying the invariant with enough fuel, ends
with an empty queue in a state enumerating the orbit -/
theorem otocLoop_spec {n : Nat} {gens : List V} (hG : Uniform n gens) {v : V}
    (hv : v.length = 2 * n) (w : V) :
    ∀ (fuel : Nat) (vis q : List V) (a s : Nat), Inv gens v w vis q a s →
      q.length + 4 ^ n * gens.length ≤ fuel + vis.length * gens.length →
      (otocLoop gens w fuel vis q a s).done = true ∧
        Final gens v w (otocLoop gens w fuel vis q a s)
  | 0, vis, q, a, s, h, hf => by
    have hb := vis_bound hG hv h.nodup h.vis_orbit
    have : vis.length * gens.length ≤ 4 ^ n * gens.length := Nat.mul_le_mul_right _ hb
    have hq : q = [] := List.eq_nil_of_length_eq_zero (by omega)
    subst hq
    exact ⟨rfl, final_of_inv_nil h⟩
  | fuel + 1, vis, [], a, s, h, _ => ⟨rfl, final_of_inv_nil h⟩
  | fuel + 1, vis, t :: rest, a, s, h, hf => by
    rw [otocLoop_cons]
    by_cases ht : t ∈ vis
    · have : vis.contains t = true := by simpa using ht
      rw [if_pos this]
      apply otocLoop_spec hG hv w fuel _ _ _ _ (inv_skip h ht)
      simp only [List.length_cons] at hf; omega
    · have : ¬ (vis.contains t = true) := by simpa using ht
      rw [if_neg this]
      apply otocLoop_spec hG hv w fuel _ _ _ _ (inv_push h ht)
      have hc := length_children_le gens (t :: vis) t
      simp only [List.length_cons, List.length_append, Nat.succ_mul] at hf ⊢
      omega

/-- **core theorem**: the BFS of `average_otoc` never runs out of fuel and its
visited list is a duplicate-free enumeration of the orbit, with the counters
equal to the orbit size and the number of members anticommuting with `w` -/
theorem otocCore_spec {n : Nat} {gens : List V} (hG : Uniform n gens) {v : V}
    (hv : v.length = 2 * n) (w : V) :
    (otocCore gens v w).done = true ∧ Final gens v w (otocCore gens v w) := by
  unfold otocCore otocFuel
  have hn : v.length / 2 = n := by omega
  rw [hn]
  apply otocLoop_spec hG hv w _ _ _ _ _ (inv_init gens v w)
  simp; omega

/-- counters against *any* duplicate-free enumeration of the orbit -/
theorem otocCore_counts {n : Nat} {gens : List V} (hG : Uniform n gens) {v : V}
    (hv : v.length = 2 * n) (w : V) {L : List V} (hnd : L.Nodup)
    (hL : ∀ x, x ∈ L ↔ Orbit gens v x) :
    (otocCore gens v w).anti = L.countP (fun x => omega w x) ∧
    (otocCore gens v w).size = L.length := by
  obtain ⟨_, hF⟩ := otocCore_spec hG hv w
  have hp : (otocCore gens v w).visited.Perm L := by
    rw [List.perm_ext_iff_of_nodup hF.nodup hnd]
    intro x; rw [hF.mem, hL]
  exact ⟨hF.anti_eq.trans (hp.countP_eq _), hF.size_eq.trans hp.length_eq⟩

end Otoc
end PauLie
