/-
Helpers for property C19, part 25a: family a7 (`XX`,`YY`,`ZZ`) - definitions and the first half of the
kernel-evaluated peeling checks (tail commuting with `X…X`).
-/
import PauLieVerif.Proofs.C19RestSym

namespace PauLie
namespace C19
open Closure Graph C01Star C03

/-- commutes with `X…X` and `Z…Z` (hence `Y…Y`), and is none of the identity, `X…X`, `Y…Y`, `Z…Z` -/
def T7 (x : V) : Bool :=
  !parZ x && !parX x && !isZ x && !isL true false x && !isL true true x && !isL false true x

def wend7 : List V := (allV 6).filter T7

/-- `T7 (r ++ b)` as a function of `b` and the state of the tail `r` -/
def tr7 (s1 s2 s3 s4 s5 s6 : Bool) (b : V) : Bool :=
  !(s1 != parZ b) && !(s2 != parX b) && !(s3 && isZ b) && !(s4 && isL true false b) && !(s5 && isL true true b) &&
    !(s6 && isL false true b)

def t07 (b : V) : Bool := !parZ b && !parX b && !isZ b

/-- targets not ending in three equal letters -/
def tp7 (s1 s2 s3 s4 s5 s6 : Bool) (p : V) : Bool :=
  tr7 s1 s2 s3 s4 s5 s6 p && !isL true false p && !isL true true p && !isL false true p

/-- at most one of "identity", "all X", "all Y", "all Z" -/
def v7 (s3 s4 s5 s6 : Bool) : Bool :=
  (!s3 || (!s4 && !s5 && !s6)) && (!s4 || (!s5 && !s6)) && (!s5 || !s6)

theorem chk7a : ∀ s2 s3 s4 s5 s6 : Bool, v7 s3 s4 s5 s6 = true →
    peelChk 3 (tr7 false s2 s3 s4 s5 s6) t07 (tp7 false s2 s3 s4 s5 s6) wend7 = true := by
  decide +kernel

end C19
end PauLie
