/-
C01, second half of the classification theorem, case "pure single-leg star" K_{1,k}:
a centre `c` and `k` pairwise commuting leaves `ls` that all anticommute with `c`, the `k+1`
strings linearly independent over F2.  The commutator closure is

    { c + ΣS : S ⊆ ls }  ∪  { ΣS : S ⊆ ls, |S| odd }                       (`clo_star`)

Subsets are masks (`msum m b ls`, `Proofs/C01Span.lean`).  Core Lean only.
-/
import PauLieVerif.Proofs.C01Span

namespace PauLie
namespace C01Star
open Closure

/-- a pure single-leg star on strings of length `m`: centre `c`, leaves `ls` -/
structure Star (m : Nat) (c : V) (ls : List V) : Prop where
  lc : c.length = m
  ll : ∀ l ∈ ls, l.length = m
  anti : ∀ l ∈ ls, omega c l = true
  comm : ∀ l ∈ ls, ∀ l' ∈ ls, omega l l' = false
  indep : Indep m (c :: ls)

/-- first family: the centre times any subset of the leaves -/
def InA (m : Nat) (c : V) (ls : List V) (x : V) : Prop :=
  ∃ b : List Bool, b.length = ls.length ∧ x = add c (msum m b ls)

/-- second family: the product of an odd number of leaves -/
def InB (m : Nat) (ls : List V) (x : V) : Prop :=
  ∃ b : List Bool, b.length = ls.length ∧ par b = true ∧ x = msum m b ls

/-- every member is the sum of a one-element selection -/
theorem exists_unit_mask (m : Nat) : ∀ (ls : List V) (l : V), l ∈ ls → (∀ x ∈ ls, x.length = m) →
    ∃ b : List Bool, b.length = ls.length ∧ par b = true ∧ msum m b ls = l
  | [], _, h, _ => by simp at h
  | v :: vs, l, h, hl => by
    rcases List.mem_cons.1 h with rfl | h
    · refine ⟨true :: noneMask vs.length, by simp, by simp [par_noneMask], ?_⟩
      rw [msum_true, msum_noneMask, add_zero_right m l (hl l (by simp))]
    · obtain ⟨b, h1, h2, h3⟩ := exists_unit_mask m vs l h (fun x hx => hl x (by simp [hx]))
      exact ⟨false :: b, by simp [h1], by simpa using h2, by simpa using h3⟩

theorem add_share {p q r : V} {m : Nat} (hp : p.length = m) (hr : r.length = m) :
    add (add p q) (add p r) = add q r := by
  rw [add_comm p q, add_assoc, add_add_cancel_left p r (hp.trans hr.symm)]

namespace Star
variable {m : Nat} {c : V} {ls : List V}

theorem uniform {n : Nat} (h : Star (2 * n) c ls) : Uniform n (c :: ls) := by
  intro g hg
  rcases List.mem_cons.1 hg with rfl | hg
  · exact h.lc
  · exact h.ll g hg

theorem omega_c_msum (h : Star m c ls) (b : List Bool) (hb : b.length = ls.length) :
    omega c (msum m b ls) = par b :=
  omega_msum_anti c b ls h.ll h.anti hb

theorem omega_msum_msum (h : Star m c ls) (a b : List Bool) :
    omega (msum m a ls) (msum m b ls) = false :=
  omega_msum_msum_comm ls ls h.ll h.ll h.comm a b

theorem omega_AA (h : Star m c ls) (a b : List Bool) (ha : a.length = ls.length)
    (hb : b.length = ls.length) :
    omega (add c (msum m a ls)) (add c (msum m b ls)) = (par a != par b) := by
  have la := length_msum (m := m) a ls h.ll
  have lb := length_msum (m := m) b ls h.ll
  rw [omega_add_left _ _ _ (h.lc.trans la.symm), omega_add_right _ _ _ (h.lc.trans lb.symm),
    omega_add_right _ _ _ (h.lc.trans lb.symm), omega_self, h.omega_c_msum b hb,
    omega_comm (msum m a ls) c, h.omega_c_msum a ha, h.omega_msum_msum]
  cases par a <;> cases par b <;> rfl

theorem omega_AB (h : Star m c ls) (a b : List Bool) (hb : b.length = ls.length) :
    omega (add c (msum m a ls)) (msum m b ls) = par b := by
  have la := length_msum (m := m) a ls h.ll
  rw [omega_add_left _ _ _ (h.lc.trans la.symm), h.omega_c_msum b hb, h.omega_msum_msum]
  cases par b <;> rfl

/-- the two families are closed under products of anticommuting members -/
theorem closed (h : Star m c ls) {x y : V} (hx : InA m c ls x ∨ InB m ls x)
    (hy : InA m c ls y ∨ InB m ls y) (ho : omega x y = true) :
    InA m c ls (add x y) ∨ InB m ls (add x y) := by
  rcases hx with ⟨a, ha, rfl⟩ | ⟨a, ha, pa, rfl⟩ <;> rcases hy with ⟨b, hb, rfl⟩ | ⟨b, hb, pb, rfl⟩
  · right
    rw [h.omega_AA a b ha hb] at ho
    refine ⟨mxor a b, by rw [length_mxor a b (ha.trans hb.symm), ha], ?_, ?_⟩
    · rw [par_mxor a b (ha.trans hb.symm)]; exact ho
    · rw [add_share h.lc (length_msum b ls h.ll), msum_mxor a b ls h.ll ha hb]
  · left
    refine ⟨mxor a b, by rw [length_mxor a b (ha.trans hb.symm), ha], ?_⟩
    rw [add_assoc, msum_mxor a b ls h.ll ha hb]
  · left
    refine ⟨mxor a b, by rw [length_mxor a b (ha.trans hb.symm), ha], ?_⟩
    rw [add_comm, add_assoc, msum_mxor a b ls h.ll ha hb, add_comm (msum m b ls)]
  · rw [h.omega_msum_msum] at ho; cases ho

/-- from a closure element anticommuting with all of a commuting family of generators, every
product with a subset of the family is in the closure -/
theorem clo_add_msum {G : List V} {m : Nat} : ∀ (ws : List V) (b : List Bool) (x : V),
    Clo G x → x.length = m → (∀ w ∈ ws, w ∈ G ∧ w.length = m ∧ omega x w = true) →
    ws.Pairwise (fun a b => omega a b = false) → Clo G (add x (msum m b ws))
  | _, [], x, hx, lx, _, _ => by simpa [add_zero_right m x lx] using hx
  | [], _ :: _, x, hx, lx, _, _ => by simpa [add_zero_right m x lx] using hx
  | w :: ws, false :: b, x, hx, lx, hw, hp => by
    rw [msum_false]
    exact clo_add_msum ws b x hx lx (fun y hy => hw y (by simp [hy])) (List.pairwise_cons.1 hp).2
  | w :: ws, true :: b, x, hx, lx, hw, hp => by
    obtain ⟨wG, lw, ow⟩ := hw w (by simp)
    rw [msum_true, ← add_assoc]
    apply clo_add_msum ws b (add x w) (Clo.step hx (Clo.base wG) ow) (length_add_eq lx lw)
    · intro y hy
      obtain ⟨yG, ly, oy⟩ := hw y (by simp [hy])
      refine ⟨yG, ly, ?_⟩
      rw [omega_add_left x w y (lx.trans lw.symm), oy, (List.pairwise_cons.1 hp).1 y hy]; rfl
    · exact (List.pairwise_cons.1 hp).2

theorem pairwise_comm (h : Star m c ls) : ls.Pairwise (fun a b => omega a b = false) := by
  rw [List.pairwise_iff_forall_sublist]
  intro a b hab
  have := hab.subset
  exact h.comm a (this (by simp)) b (this (by simp))

theorem clo_A (h : Star m c ls) (b : List Bool) : Clo (c :: ls) (add c (msum m b ls)) :=
  clo_add_msum ls b c (Clo.base (by simp)) h.lc
    (fun w hw => ⟨by simp [hw], h.ll w hw, h.anti w hw⟩) h.pairwise_comm

theorem clo_B (h : Star m c ls) (b : List Bool) (hb : b.length = ls.length) (pb : par b = true) :
    Clo (c :: ls) (msum m b ls) := by
  have h1 := h.clo_A b
  have lb := length_msum (m := m) b ls h.ll
  have ho : omega (add c (msum m b ls)) c = true := by
    rw [omega_add_left _ _ _ (h.lc.trans lb.symm), omega_self, omega_comm, h.omega_c_msum b hb, pb]; rfl
  have := Clo.step h1 (Clo.base (by simp)) ho
  rwa [add_comm c, add_add_cancel_right _ c (lb.trans h.lc.symm)] at this

/-- **closed form of the closure of a pure single-leg star** -/
theorem clo_star (h : Star m c ls) (x : V) :
    Clo (c :: ls) x ↔ InA m c ls x ∨ InB m ls x := by
  constructor
  · intro hx
    induction hx with
    | base hg =>
      rcases List.mem_cons.1 hg with rfl | hg
      · left
        refine ⟨noneMask ls.length, by simp, ?_⟩
        rw [msum_noneMask, add_zero_right m _ h.lc]
      · right
        obtain ⟨b, h1, h2, h3⟩ := exists_unit_mask m ls _ hg h.ll
        exact ⟨b, h1, h2, h3.symm⟩
    | step _ _ ho ihx ihy => exact h.closed ihx ihy ho
  · rintro (⟨b, _, rfl⟩ | ⟨b, hb, pb, rfl⟩)
    · exact h.clo_A b
    · exact h.clo_B b hb pb

/-- the two families are disjoint -/
theorem disjoint (h : Star m c ls) {x : V} (hA : InA m c ls x) (hB : InB m ls x) : False := by
  obtain ⟨a, ha, rfl⟩ := hA
  obtain ⟨b, hb, _, e⟩ := hB
  -- c = msum (a xor b)
  have la := length_msum (m := m) a ls h.ll
  have lb := length_msum (m := m) b ls h.ll
  have e2 : c = msum m (mxor a b) ls := by
    rw [msum_mxor a b ls h.ll ha hb, ← e, add_comm c, add_add_cancel_left _ c (la.trans h.lc.symm)]
  exact h.indep.head_not_span h.lc (mxor a b) (by rw [length_mxor a b (ha.trans hb.symm), ha]) e2

/-- the selection of a member of the first family is unique -/
theorem injA (h : Star m c ls) {a b : List Bool} (ha : a.length = ls.length) (hb : b.length = ls.length)
    (e : add c (msum m a ls) = add c (msum m b ls)) : a = b :=
  h.indep.tail.inj h.ll ha hb
    (add_left_cancel h.lc (length_msum a ls h.ll) (length_msum b ls h.ll) e)

theorem injB (h : Star m c ls) {a b : List Bool} (ha : a.length = ls.length) (hb : b.length = ls.length)
    (e : msum m a ls = msum m b ls) : a = b :=
  h.indep.tail.inj h.ll ha hb e

end Star
end C01Star
end PauLie
