/-
Helper lemmas for property C16, part 4: what `get_full_quadratic_basis` returns
(structure of the components and of the linear symmetries, the matrix
`quadMat c l = Σ_{s ∈ c} M(s) ⊗ (M(l) M(s))` a symmetry denotes) and clause (b):
symmetries of different components, or of the same component with different linear
symmetries, are trace-orthogonal.
-/
import PauLieVerif.Proofs.C16Tens
import PauLieVerif.Proofs.C16Twirl
import PauLieVerif.Properties.C14
import PauLieVerif.Properties.C12

namespace PauLie
namespace C16

open Matrix Complex C12 C04 C14 Graph SecondMoment

/-! ## strings versus letter vectors -/

theorem vec_injective {n : ℕ} {p q : PS} (hp : p.WF ∧ p.len = n) (hq : q.WF ∧ q.len = n)
    (h : p.vec n = q.vec n) : p = q := by
  have hl : p.letters = q.letters :=
    vecOf_injective ((length_letters p).trans hp.2) ((length_letters q).trans hq.2) h
  rw [WF_eq_ofLetters hp.1, WF_eq_ofLetters hq.1, hl]

/-! ## the components of the commutator graph and the commutant -/

/-- a list of synchronised strings on `n` qubits -/
def VList (n : ℕ) (c : List PS) : Prop := ∀ s ∈ c, s.WF ∧ s.len = n

/-- closed under the moves `s ↦ s·g` for members `g` anticommuting with `s` -/
def MoveClosed (G c : List PS) : Prop :=
  ∀ s ∈ c, ∀ g ∈ G, anti g s → ∀ q, PS.multiply s g = .ok q → q ∈ c

theorem comps_spec {n : ℕ} {G : List PS} (hG : Uniform n G) (hne : G ≠ []) :
    ∃ cs, getGraphComponents G true = .ok cs ∧
      (∀ c ∈ cs, c ≠ [] ∧ c.Nodup ∧ VList n c ∧ MoveClosed G c) ∧ cs.Pairwise Disj := by
  obtain ⟨E, hE, ⟨hall, _, _⟩, hedge⟩ := C14_commutator_graph hG hne
  have hmemE : ∀ e ∈ E, e.1 ∈ PS.genAll n ∧ e.2 ∈ PS.genAll n := by
    rintro ⟨P, Q⟩ he
    obtain ⟨⟨i, j, _, hi, hj⟩, _⟩ := (hedge P Q).mp he
    exact ⟨List.mem_of_getElem? hi, List.mem_of_getElem? hj⟩
  have hEv : ∀ e ∈ E, containsPS (PS.genAll n) e.1 = true ∧ containsPS (PS.genAll n) e.2 = true :=
    fun e he => ⟨containsPS_of_mem (hmemE e he).1, containsPS_of_mem (hmemE e he).2⟩
  obtain ⟨h1, h2, _⟩ := components_spec (PS.genAll n) E hEv
  have hemp : G.isEmpty = false := by cases G with
    | nil => exact absurd rfl hne
    | cons _ _ => rfl
  refine ⟨components (PS.genAll n) E, ?_, ?_, h2⟩
  · simp [getGraphComponents, hE, hemp, bind, Except.bind, pure, Except.pure]
  · intro c hc
    obtain ⟨r, hr, hrc, hbn, hnode, hconn⟩ := h1 c hc
    have hV : VList n c := by
      intro y hy
      rcases (hnode y hy).2 with h | ⟨e, he, h | h⟩
      · exact (hall y).mp h
      · exact (hall y).mp (h ▸ (hmemE e he).1)
      · exact (hall y).mp (h ▸ (hmemE e he).2)
    refine ⟨List.ne_nil_of_mem hrc,
      List.nodup_iff_pairwise_ne.mpr (hbn.imp (fun h e => h (by rw [e]))), hV, ?_⟩
    intro s hs g hg hanti q hq
    have hsv := hV s hs
    obtain ⟨hgw, hgl⟩ := hG g hg
    obtain ⟨q', hq', hqw, hql⟩ := multiply_ok hsv.1 hgw (hsv.2.trans hgl.symm)
    obtain rfl : q' = q := by rw [hq'] at hq; exact Except.ok.inj hq
    have hqv : q'.WF ∧ q'.len = n := ⟨hqw, hql.trans hsv.2⟩
    obtain ⟨E', hE', hiff⟩ := C14_commutator_graph_undirected hG hne s q' hsv hqv
    obtain rfl : E' = E := by
      rw [hE] at hE'
      exact (Prod.mk.inj (Except.ok.inj hE')).2.symm
    have hed := hiff.mpr ⟨g, hg, hanti, hq⟩
    have hcs : Conn E' r s := (hconn s).mp (containsPS_of_mem hs)
    have hcq : Conn E' r q' := Conn.tail hcs rfl hed rfl
    exact (containsPS_iff_mem (fun x hx => (hV x hx).1) hqw).mp ((hconn q').mpr hcq)

theorem commutants_spec {n : ℕ} {G : List PS} (hG : Uniform n G) (hne : G ≠ []) :
    ∃ L, getCommutants G = .ok L ∧ VList n L ∧ L.Nodup ∧
      (∀ l ∈ L, ∀ g ∈ G, PS.commutesWith g l = .ok true) := by
  obtain ⟨L, hL, hmem, hnd, _⟩ := C14_commutants hG hne
  exact ⟨L, hL, fun l hl => ⟨((hmem l).mp hl).1, ((hmem l).mp hl).2.1⟩, hnd,
    fun l hl => ((hmem l).mp hl).2.2⟩

/-! ## one symmetry -/

/-- the matrix of `Q_{c,l}`: `Σ_{s ∈ c} M(s) ⊗ (M(l) M(s))` -/
noncomputable def quadMat (n : ℕ) (c : List PS) (l : PS) : Mat (n + n) :=
  (c.map (fun s => tens (M (s.vec n)) (M (l.vec n) * M (s.vec n)))).sum

/-- `quadratic` as a total function (the empty list where the source would raise; it never
does on a component and a linear symmetry, `quadOf_spec`) -/
def quadOf (c : List PS) (l : PS) : Lin :=
  match Lin.quadratic (componentAsLinear c) l with
  | .ok q => q
  | .error _ => []

theorem list_sum_apply {ι : Type} {α : Type} (l : List α) (f : α → Matrix ι ι ℂ) (r c : ι) :
    (l.map f).sum r c = (l.map (fun a => f a r c)).sum := by
  induction l with
  | nil => simp
  | cons a l ih => simp [Matrix.add_apply, ih]

theorem quadOf_spec {n : ℕ} {c : List PS} {l : PS} (hc : VList n c) (hl : l.WF ∧ l.len = n) :
    Lin.quadratic (componentAsLinear c) l = .ok (quadOf c l) ∧ Valid (n + n) (quadOf c l) ∧
      den (n + n) (quadOf c l) = quadMat n c l := by
  have hval : Valid n (componentAsLinear c) := by
    apply valid_mk
    intro t ht
    obtain ⟨s, hs, rfl⟩ := List.mem_map.mp ht
    exact (hc s hs).2
  obtain ⟨q, hq, hv, hd⟩ := quadratic_spec hl hval
  have hqo : quadOf c l = q := by simp [quadOf, hq]
  rw [hqo]
  refine ⟨hq, hv, ?_⟩
  apply ext_append
  intro r c' r' c''
  rw [hd, quadMat, list_sum_apply, quadSum, componentAsLinear, Lin.mk, List.map_map, List.map_map]
  congr 1
  apply List.map_congr_left
  intro s _
  simp [tens_apply, PS.vec, letters_ofLetters, toC_one]

theorem mapM_ok {α β : Type} (f : α → Except Err β) (g : α → β) (l : List α)
    (h : ∀ x ∈ l, f x = .ok (g x)) : l.mapM f = .ok (l.map g) := by
  induction l with
  | nil => rfl
  | cons a l ih =>
    simp [List.mapM_cons, h a (List.mem_cons_self ..),
      ih (fun x hx => h x (List.mem_cons_of_mem _ hx)), bind, Except.bind, pure, Except.pure]

/-- the unfiltered list of symmetries: component by component, linear symmetry by linear symmetry -/
def fullList (cs : List (List PS)) (L : List PS) : List Lin :=
  (cs.map (fun c => L.map (quadOf c))).flatten

/-- **what `get_full_quadratic_basis` returns** -/
theorem basis_spec {n : ℕ} {G : List PS} (hG : Uniform n G) (hne : G ≠ []) :
    ∃ cs L, getCommutants G = .ok L ∧ getGraphComponents G true = .ok cs ∧
      (∀ c ∈ cs, c ≠ [] ∧ c.Nodup ∧ VList n c ∧ MoveClosed G c) ∧ cs.Pairwise Disj ∧
      VList n L ∧ L.Nodup ∧ (∀ l ∈ L, ∀ g ∈ G, PS.commutesWith g l = .ok true) ∧
      getFullQuadraticBasis G = .ok ((fullList cs L).filter (fun q => !Lin.isZero q)) := by
  obtain ⟨cs, hcs, hcomp, hdisj⟩ := comps_spec hG hne
  obtain ⟨L, hL, hLv, hLnd, hLc⟩ := commutants_spec hG hne
  refine ⟨cs, L, hL, hcs, hcomp, hdisj, hLv, hLnd, hLc, ?_⟩
  have h1 : cs.mapM (fun c => getSymmetriesForComponent c L) = .ok (cs.map (fun c => L.map (quadOf c))) := by
    apply mapM_ok
    intro c hc
    apply mapM_ok
    intro l hl
    exact (quadOf_spec (hcomp c hc).2.2.1 (hLv l hl)).1
  simp [getFullQuadraticBasis, hL, hcs, h1, fullList, bind, Except.bind, pure, Except.pure]

theorem mem_fullList {cs : List (List PS)} {L : List PS} {q : Lin} :
    q ∈ fullList cs L ↔ ∃ c ∈ cs, ∃ l ∈ L, q = quadOf c l := by
  simp only [fullList, List.mem_flatten, List.mem_map]
  constructor
  · rintro ⟨ql, ⟨c, hc, rfl⟩, hq⟩
    obtain ⟨l, hl, rfl⟩ := List.mem_map.mp hq
    exact ⟨c, hc, l, hl, rfl⟩
  · rintro ⟨c, hc, l, hl, rfl⟩
    exact ⟨_, ⟨c, hc, rfl⟩, List.mem_map.mpr ⟨l, hl, rfl⟩⟩

/-! ## (b) trace orthogonality -/

theorem ip_add_left {ι : Type} [Fintype ι] (A B C : Matrix ι ι ℂ) : ip (A + B) C = ip A C + ip B C := by
  simp [ip, Matrix.conjTranspose_add, Matrix.add_mul, Matrix.trace_add]

theorem ip_list_sum_left {ι : Type} [Fintype ι] (l : List (Matrix ι ι ℂ)) (C : Matrix ι ι ℂ) :
    ip l.sum C = (l.map (fun A => ip A C)).sum := by
  induction l with
  | nil => simp [ip]
  | cons B l ih => simp [ip_add_left, ih]

theorem list_sum_eq_zero {α : Type} (l : List α) (f : α → ℂ) (h : ∀ a ∈ l, f a = 0) :
    (l.map f).sum = 0 := by
  induction l with
  | nil => rfl
  | cons a l ih =>
    simp [h a (List.mem_cons_self ..), ih (fun x hx => h x (List.mem_cons_of_mem _ hx))]

theorem ip_M {n : ℕ} (P Q : Fin n → Letter) : ip (M P) (M Q) = if P = Q then (2 : ℂ) ^ n else 0 := by
  rw [ip, M_conjTranspose, trace_M_mul]

/-- `tr((M(l) M(s))† (M(l') M(s))) = tr(M(l) M(l'))` -/
theorem ip_mul_same {n : ℕ} (l l' s : Fin n → Letter) :
    ip (M l * M s) (M l' * M s) = ip (M l) (M l') := by
  have h : (M l * M s)ᴴ * (M l' * M s) = M s * M l * (M l' * M s) := by
    rw [Matrix.conjTranspose_mul, M_conjTranspose, M_conjTranspose]
  rw [ip, h, Matrix.trace_mul_comm, Matrix.mul_assoc, ← Matrix.mul_assoc (M s) (M s), M_mul_self,
    Matrix.one_mul, Matrix.trace_mul_comm, ip, M_conjTranspose]

theorem ip_quadMat_eq_zero {n : ℕ} (c d : List PS) (l l' : PS)
    (h : ∀ s ∈ c, ∀ s' ∈ d, ip (M (s.vec n)) (M (s'.vec n)) *
      ip (M (l.vec n) * M (s.vec n)) (M (l'.vec n) * M (s'.vec n)) = 0) :
    ip (quadMat n c l) (quadMat n d l') = 0 := by
  unfold quadMat
  rw [ip_list_sum_left, List.map_map]
  apply list_sum_eq_zero
  intro s hs
  simp only [Function.comp]
  rw [ip_list_sum, List.map_map]
  apply list_sum_eq_zero
  intro s' hs'
  simp only [Function.comp]
  rw [ip_tens]
  exact h s hs s' hs'

/-- different components: the first tensor factors never coincide -/
theorem quad_orth_comp {n : ℕ} {c d : List PS} (hc : VList n c) (hd : VList n d) (hdis : Disj c d)
    (l l' : PS) : ip (quadMat n c l) (quadMat n d l') = 0 := by
  apply ip_quadMat_eq_zero
  intro s hs s' hs'
  have hne : s.vec n ≠ s'.vec n := by
    intro h
    exact hdis s hs s' hs' (by rw [vec_injective (hc s hs) (hd s' hs') h])
  rw [ip_M, if_neg hne, zero_mul]

/-- the same component, different linear symmetries: the second factors differ -/
theorem quad_orth_lin {n : ℕ} (c : List PS) {l l' : PS} (hl : l.WF ∧ l.len = n)
    (hl' : l'.WF ∧ l'.len = n) (hne : l ≠ l') : ip (quadMat n c l) (quadMat n c l') = 0 := by
  apply ip_quadMat_eq_zero
  intro s _ s' _
  by_cases h : s.vec n = s'.vec n
  · have hv : l.vec n ≠ l'.vec n := fun e => hne (vec_injective hl hl' e)
    rw [h, ip_mul_same, ip_M (l.vec n), if_neg hv, mul_zero]
  · rw [ip_M, if_neg h, zero_mul]

/-- **(b)**: the denoted matrices of the returned basis are pairwise trace-orthogonal, each
of non-zero norm -/
theorem basis_orthogonal {n : ℕ} {cs : List (List PS)} {L : List PS}
    (hcomp : ∀ c ∈ cs, VList n c) (hdisj : cs.Pairwise Disj) (hLv : VList n L) (hLnd : L.Nodup) :
    Orthogonal (((fullList cs L).filter (fun q => !Lin.isZero q)).map (den (n + n))) := by
  have hden : ∀ c ∈ cs, ∀ l ∈ L, den (n + n) (quadOf c l) = quadMat n c l :=
    fun c hc l hl => (quadOf_spec (hcomp c hc) (hLv l hl)).2.2
  constructor
  · rw [List.pairwise_map]
    apply List.Pairwise.filter
    rw [fullList, List.pairwise_flatten]
    constructor
    · intro ql hql
      obtain ⟨c, hc, rfl⟩ := List.mem_map.mp hql
      rw [List.pairwise_map]
      refine (List.nodup_iff_pairwise_ne.mp hLnd).imp_of_mem ?_
      intro l l' hl hl' hne
      rw [hden c hc l hl, hden c hc l' hl']
      exact quad_orth_lin c (hLv l hl) (hLv l' hl') hne
    · rw [List.pairwise_map]
      refine hdisj.imp_of_mem ?_
      intro c d hc hd hdis q hq q' hq'
      obtain ⟨l, hl, rfl⟩ := List.mem_map.mp hq
      obtain ⟨l', hl', rfl⟩ := List.mem_map.mp hq'
      rw [hden c hc l hl, hden d hd l' hl']
      exact quad_orth_comp (hcomp c hc) (hcomp d hd) hdis l l'
  · intro Q hQ
    obtain ⟨q, hq, rfl⟩ := List.mem_map.mp hQ
    obtain ⟨hq1, hq2⟩ := List.mem_filter.mp hq
    obtain ⟨c, hc, l, hl, rfl⟩ := mem_fullList.mp hq1
    have hv := (quadOf_spec (hcomp c hc) (hLv l hl)).2.1
    intro h0
    have hz : den (n + n) (quadOf c l) = 0 := (ip_self_eq_zero_iff _).mp h0
    have : Lin.isZero (quadOf c l) = true := (C12_isZero (n + n) _ hv).mpr hz
    simp [this] at hq2

end C16
end PauLie
