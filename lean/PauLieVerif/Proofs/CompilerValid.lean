/-
Every VERIFIED return of the model of `compile` lies inside the universal set.

`subsystem_compiler` inserts helper operators from outside the universal set (the first one is always
`Y_1`) as soon as the right block has two single-site factors — but then it also drops the first
factor, so the elements cannot multiply to the right block, and the self-check
`_nested_commutator_result(G) == target` of `compile` fails, in EVERY arrangement the code tries.  So a
sequence that passes the self-check was built from a right block (`V ≠ I`), or from two halves of a right
block (`V = I`), with at most one factor each; there `subsystem_compiler` returns `[]` or one element
`X_1 ⊗ X_j` / `X_1 ⊗ Z_j` of the universal set, and the rest of the sequence is a walk over
`left_a_minimal(k) ⊗ I…I`.
-/
import PauLieVerif.Proofs.CompilerCase3

namespace PauLie
namespace CompilerSearch
open Compiler C07

theorem target_split (t : PS) (k n : Nat) (ht : t.WF) (hn : t.len = n) (hk : 2 ≤ k) (hkn : k < n) :
    t.getSubstring 0 (k : Int) = PS.ofLetters (t.letters.take k) ∧
    t.getSubstring (k : Int) ((n : Int) - (k : Int)) = PS.ofLetters (t.letters.drop k) := by
  have h := C06.compileTargetFront_admissible n k t ht hn hk hkn
  unfold compileTargetFront compilerInit at h
  have h2 : ¬ ((k : Int) < 2) := by omega
  simp only [h2, if_false, bind, Except.bind, pure, Except.pure, hn] at h
  have hg' : ¬ ¬ ((1 : Int) ≤ (k : Int) ∧ (k : Int) < (n : Int)) := by omega
  rw [if_neg hg'] at h
  simp only [Except.ok.injEq, Prod.mk.injEq] at h
  exact h

theorem firstOk_post (chk : List PS → Except Fail Bool) (l : List (List PS)) (i : Nat) :
    Post (fun o => ∀ j s, o = some (j, s) → chk s = .ok true ∧ s ∈ l) (firstOk chk l i) :=
  ⟨fun o h j s ho => by subst ho; exact firstOk_sound chk l i j s h⟩

theorem mem_toPublic {G : List PS} {x : PS} (h : x ∈ toPublic G) : x ∈ G := by
  cases G with
  | nil => simp [toPublic] at h
  | cons g rest =>
    simp only [toPublic, List.mem_append, List.mem_reverse, List.mem_singleton] at h
    rcases h with h | rfl
    · exact List.mem_cons_of_mem _ h
    · exact List.mem_cons_self ..

/-- the extended left walk: every element is `a ⊗ I…I` with `a` a left generator -/
theorem ext_form (k n : Nat) (hkn : k < n) (f t : PS) (seq ext : List PS)
    (hseq : leftMapOverA f t (aset k) = .ok seq) (hext : extendAll (closedCtx k n) seq = .ok ext) :
    ∀ x ∈ ext, ∃ l ∈ leftLetters k, x = PS.ofLetters (l ++ ident (n - k)) := by
  obtain ⟨r, hwalk, _⟩ := leftMapOverA_sound _ _ _ _ hseq
  intro x hx
  obtain ⟨a, ha, hxa⟩ := extendAll_mem _ _ _ hext x hx
  obtain ⟨l, hl, rfl⟩ := aset_mem (hwalk.mem a ha)
  rw [extendLeft_closed k n hkn] at hxa
  cases hxa
  exact ⟨l, hl, rfl⟩

theorem ext_inside (k n : Nat) {x : PS} (h : ∃ l ∈ leftLetters k, x = PS.ofLetters (l ++ ident (n - k))) :
    x ∈ (uLetters n k).map PS.ofLetters := by
  obtain ⟨l, hl, rfl⟩ := h
  refine List.mem_map.mpr ⟨l ++ ident (n - k), ?_, rfl⟩
  unfold uLetters
  exact List.mem_append_left _ (List.mem_map.mpr ⟨l, hl, rfl⟩)

theorem ext_bit (k n p : Nat) {x : PS} (h : ∃ l ∈ leftLetters k, x = PS.ofLetters (l ++ ident (n - k))) :
    bitOf (2 * k + p) x = false := by
  obtain ⟨l, hl, rfl⟩ := h
  exact bitOf_ext_right l k (n - k) p (length_of_mem_leftLetters hl)

/-- **the verified candidates of the branch `V ≠ I` lie inside the universal set** -/
theorem compileVNeI_inside (k n : Nat) (hkn : k < n) (v w : PS) (hw : w.WF) (hwl : w.len = n - k) :
    Post (fun r => r.1.verified = true → ∀ x ∈ r.2, x ∈ (uLetters n k).map PS.ofLetters)
      (compileVNeI (closedCtx k n) v w (aset k)) := by
  unfold compileVNeI
  apply Post.of_bind (Post.self _); intro gp hgp
  apply Post.of_bind_any; intro vp
  apply Post.of_bind (Post.self _); intro seq hseq
  apply Post.of_bind (Post.self _); intro ext hext
  apply Post.of_bind (firstOk_post _ _ _); intro o ho
  split
  · rename_i i G
    apply Post.of_pure
    intro _ x hx
    obtain ⟨hchk, hG⟩ := ho i G rfl
    have hxG := mem_toPublic hx
    have hform := ext_form k n hkn _ _ _ _ hseq hext
    have hsub : ∀ y ∈ G, y ∈ gp ∨ y ∈ ext := by
      intro y hy
      simp only [List.mem_cons, List.mem_nil_iff, or_false] at hG
      rcases hG with rfl | rfl | rfl <;>
        simp only [List.mem_append, List.mem_reverse] at hy <;> tauto
    rcases subsystemCompiler_closed k n hkn w hw hwl gp hgp with hin | ⟨p, hp, hbit, hfree⟩
    · rcases hsub x hxG with h1 | h1
      · exact hin x h1
      · exact ext_inside k n (hform x h1)
    · exfalso
      have hc := checkRes_right_bits (closedCtx k n) k rfl _ w G hchk p (by rw [C04.length_letters, hwl]; exact hp)
      rw [hbit, par_false] at hc
      · cases hc
      · intro g hg
        rcases hsub g hg with h1 | h1
        · exact hfree g h1
        · exact ext_bit k n p (hform g h1)
  · apply Post.of_pure
    intro hb
    simp [Branch.verified] at hb

/-! ### the branch `V = I` -/

/-- a candidate decomposition `W = W1 · W2`: `W1` a single `X_j` / `Z_j` -/
def CandOK (m : Nat) (w : PS) (pr : PS × PS) : Prop :=
  ∃ j l, j < m ∧ (l = Letter.X ∨ l = Letter.Z) ∧ pr.1 = PS.ofLetters (single m j l) ∧ PS.multiply pr.1 w = .ok pr.2

theorem candLabels_post (c : Ctx) (w : PS) (j : Nat) (hj : j < w.letters.length) :
    ∀ (labs : List Letter), (∀ l ∈ labs, l = Letter.X ∨ l = Letter.Z) →
      Post (fun res => ∀ pr ∈ res, CandOK w.letters.length w pr) (candLabels c w j labs) := by
  intro labs
  induction labs with
  | nil => intro _; unfold candLabels; exact Post.of_pure (fun pr h => by cases h)
  | cons lab rest ih =>
    intro hl
    have ih' := ih (fun l h => hl l (List.mem_cons_of_mem _ h))
    unfold candLabels
    rw [getSingle_eq _ _ _ hj]
    apply Post.of_bind (Post.self _); intro w1 hw1
    have hw1' : w1 = PS.ofLetters (single w.letters.length j lab) := by
      simp [liftAt] at hw1; exact hw1.symm
    apply Post.of_bind (Post.self _); intro w2 hw2
    apply Post.of_bind ih'; intro more hmore
    apply Post.of_bind_any; intro b
    split
    · exact Post.of_pure hmore
    · apply Post.of_pure
      intro pr hpr
      rcases List.mem_cons.mp hpr with rfl | hpr
      · exact ⟨j, lab, hj, hl lab (List.mem_cons_self ..), hw1', liftAt_ok.mp hw2⟩
      · exact hmore pr hpr

theorem decompLabels_XZ (ch l : Letter) (h : l ∈ decompLabels ch) : l = Letter.X ∨ l = Letter.Z := by
  cases ch <;> simp [decompLabels] at h <;> tauto

theorem candSites_post (c : Ctx) (w : PS) :
    ∀ (ls : List Letter) (j : Nat), j + ls.length ≤ w.letters.length →
      Post (fun res => ∀ pr ∈ res, CandOK w.letters.length w pr) (candSites c w j ls) := by
  intro ls
  induction ls with
  | nil => intro j _; unfold candSites; exact Post.of_pure (fun pr h => by cases h)
  | cons ch rest ih =>
    intro j hj
    simp only [List.length_cons] at hj
    unfold candSites
    apply Post.of_bind (candLabels_post c w j (by omega) _ (decompLabels_XZ ch)); intro here hhere
    apply Post.of_bind (ih (j + 1) (by omega)); intro more hmore
    apply Post.of_pure
    intro pr hpr
    rcases List.mem_append.mp hpr with h | h
    · exact hhere pr h
    · exact hmore pr h

theorem dedupPairs_subset : ∀ (l : List (PS × PS)) (seen : List (List Letter × List Letter)),
    ∀ pr ∈ dedupPairs l seen, pr ∈ l := by
  intro l
  induction l with
  | nil => intro seen pr h; simp [dedupPairs] at h
  | cons x rest ih =>
    intro seen pr h
    obtain ⟨a, b⟩ := x
    unfold dedupPairs at h
    split at h
    · exact List.mem_cons_of_mem _ (ih _ pr h)
    · rcases List.mem_cons.mp h with rfl | h
      · exact List.mem_cons_self ..
      · exact List.mem_cons_of_mem _ (ih _ pr h)

theorem candidateDecompositions_post (c : Ctx) (w : PS) :
    Post (fun res => ∀ pr ∈ res, CandOK w.letters.length w pr) (candidateDecompositions c w) := by
  unfold candidateDecompositions
  apply Post.of_bind (candSites_post c w w.letters 0 (by omega)); intro cand hcand
  exact Post.of_pure (fun pr hpr => hcand pr (dedupPairs_subset _ _ pr hpr))

theorem tryDecomps_inside (k n : Nat) (hkn : k < n) (w : PS) (hw : w.WF) (hwl : w.len = n - k) :
    ∀ (l : List (PS × PS)), (∀ pr ∈ l, CandOK (n - k) w pr) →
      Post (fun o => ∀ b s, o = some (b, s) → ∀ x ∈ s, x ∈ (uLetters n k).map PS.ofLetters)
        (tryDecomps (closedCtx k n) w (aset k) l) := by
  intro l
  induction l with
  | nil => intro _; unfold tryDecomps; exact Post.of_pure (fun b s h => by cases h)
  | cons pr rest ih =>
    intro hl
    obtain ⟨w1, w2⟩ := pr
    obtain ⟨j, lab, hj, hlab, hw1, hmul⟩ := hl (w1, w2) (List.mem_cons_self ..)
    simp only at hw1 hmul
    subst hw1
    unfold tryDecomps
    apply Post.of_bind (Post.self _); intro g1 hg1
    apply Post.of_bind (Post.self _); intro g2 hg2
    apply Post.of_bind_any; intro v1p
    apply Post.of_bind_any; intro v2p
    apply Post.of_bind (Post.self _); intro aseq haseq
    apply Post.of_bind (Post.self _); intro aext haext
    apply Post.of_bind (Post.self _); intro o ho
    split
    · rename_i ph s
      apply Post.of_pure
      intro b s' hbs x hx
      simp only [Option.some.injEq, Prod.mk.injEq] at hbs
      obtain ⟨_, rfl⟩ := hbs
      have hxs := mem_toPublic hx
      have hg1' := subsystemCompiler_single k n j hkn lab hlab hj g1 hg1
      subst hg1'
      have hform := ext_form k n hkn _ _ _ _ haseq haext
      obtain ⟨hmem, hpar⟩ := (case3_arr _ _ _ _ _ _ _ ho).spec
      have hchk := case3_sound _ _ _ _ _ _ _ ho
      have hw1wf : (PS.ofLetters (single (n - k) j lab)).WF := C18.wf_ofLetters _
      have hw1l : (PS.ofLetters (single (n - k) j lab)).len = w.len := by
        rw [C18.len_ofLetters, length_single, hwl]
      obtain ⟨r, hr, hrw, hrl⟩ := C14.multiply_ok hw1wf hw hw1l
      rw [hmul] at hr
      cases hr
      rcases subsystemCompiler_closed k n hkn w2 hrw (by rw [hrl, hw1l, hwl]) g2 hg2 with hin | ⟨p, hp, hbit, hfree⟩
      · rcases hmem x hxs with h1 | h1 | h1
        · simp only [List.mem_singleton] at h1
          subst h1
          exact pair_in_uset k n j lab hlab hj
        · exact hin x h1
        · exact ext_inside k n (hform x h1)
      · exfalso
        have hc := checkRes_right_bits (closedCtx k n) k rfl _ w s hchk p (by rw [C04.length_letters, hwl]; exact hp)
        rw [hpar (2 * k + p) (par_false _ _ (fun g hg => ext_bit k n p (hform g hg))),
          par_false _ g2 hfree] at hc
        simp only [par] at hc
        rw [bitOf_tensor_right _ _ k p (uTag_bits_length k)] at hc
        have hmb := multiply_bit hmul p
        simp only [bitOf] at hmb
        rw [hbit, hc] at hmb
        revert hmb
        cases (PS.ofLetters (single (n - k) j lab)).bits.getD p false <;> decide
    · exact ih (fun pr h => hl pr (List.mem_cons_of_mem _ h))

/-- **the verified returns of the branch `V = I` (`_case3_best_reordering`) lie inside the universal set** -/
theorem compileVI_inside (k n : Nat) (hkn : k < n) (w : PS) (hw : w.WF) (hwl : w.len = n - k) :
    Post (fun r => r.1.verified = true → ∀ x ∈ r.2, x ∈ (uLetters n k).map PS.ofLetters)
      (compileVI (closedCtx k n) w (aset k)) := by
  unfold compileVI
  have hlen : w.letters.length = n - k := by rw [C04.length_letters, hwl]
  apply Post.of_bind (candidateDecompositions_post _ w); intro cands hc
  rw [hlen] at hc
  apply Post.of_bind (tryDecomps_inside k n hkn w hw hwl cands hc); intro o ho
  split
  · rename_i r
    apply Post.of_pure
    intro _
    exact ho r.1 r.2 rfl
  · repeat (first
      | exact Post.of_throw _
      | (apply Post.of_pure; intro hb; simp [Branch.verified] at hb)
      | (apply Post.of_bind_any; intro _)
      | split
      | dsimp only)

/-- **every verified return of `compile_target` lies inside the universal set** (all `N`, `2 ≤ k < N`, every
well-formed target) -/
theorem verified_return_inside (t : PS) (k n : Nat) (ht : t.WF) (hn : t.len = n) (hk : 2 ≤ k) (hkn : k < n)
    (b : Branch) (s : List PS) (h : compileTargetB t (k : Int) = .ok (b, s)) (hb : b.verified = true) :
    ∀ x ∈ s, x ∈ (uLetters n k).map PS.ofLetters := by
  have h0 := h
  obtain ⟨_, hwe⟩ := target_split t k n ht hn hk hkn
  have hww : (t.getSubstring (k : Int) ((n : Int) - (k : Int))).WF := by rw [hwe]; exact C18.wf_ofLetters _
  have hwl := getSubstring_right_len t k n hn
  rw [compileTargetB_eq t k n hn hk hkn] at h
  unfold compileWith at h
  split at h
  · simp [throw, throwThe, MonadExceptOf.throw] at h
  · split at h
    · rename_i hW
      have hv := (wI_return_valid t k n ht hn hk hkn hW b s h0).2
      exact ((C05.validSeq_iff n k (by omega) hkn t s).mp hv).2.1
    · split at h
      · exact (compileVNeI_inside k n hkn _ _ hww hwl).out _ h hb
      · exact (compileVI_inside k n hkn _ hww hwl).out _ h hb

/-- **every verified return of `compile_target` passes the validator** -/
theorem verified_return_valid (t : PS) (k n : Nat) (ht : t.WF) (hn : t.len = n) (hk : 2 ≤ k) (hkn : k < n)
    (b : Branch) (s : List PS) (h : compileTargetB t (k : Int) = .ok (b, s)) (hb : b.verified = true) :
    validSeq (n : Int) (k : Int) t s = true := by
  have hS := verified_return_inside t k n ht hn hk hkn b s h hb
  obtain ⟨hne, r, hr, _, hwf⟩ := verified_return t k n ht hn hk hkn b s h hb
  have hrw : r.WF := by
    rcases C05.nestedPublic_matrix n _ hne (fun x hx => C05.mem_uset_wf (by omega) (hS x hx)) with
      ⟨r2, hr2, hw2, _⟩ | ⟨hr2, _⟩
    · rw [hr] at hr2; cases hr2; exact hw2
    · rw [hr] at hr2; cases hr2
  rw [hwf hrw] at hr
  exact (C05.validSeq_iff n k (by omega) hkn t _).mpr ⟨hne, hS, hr⟩

end CompilerSearch
end PauLie
