/-
Bit parities of sequences.  When the nested commutator of a list of strings does not vanish it is, as a
string, the product of ALL the elements (in any order): bit `q` of the result is the parity of the
number of elements whose bit `q` is set.  This is what makes the self-check of `compile` informative
about the CONTENT of a sequence: a sequence whose elements, taken together, do not multiply to the
target cannot pass it, whatever the order.
-/
import PauLieVerif.Proofs.CompilerSearchSound

namespace PauLie
namespace CompilerSearch
open Compiler C07

/-- bit `q` of a string -/
def bitOf (q : Nat) (g : PS) : Bool := g.bits.getD q false

/-- parity of the number of elements with bit `q` set -/
def par (q : Nat) : List PS → Bool
  | [] => false
  | g :: l => bitOf q g != par q l

theorem par_append (q : Nat) (l1 l2 : List PS) : par q (l1 ++ l2) = (par q l1 != par q l2) := by
  induction l1 with
  | nil => simp [par]
  | cons g l ih =>
    simp only [List.cons_append, par, ih]
    cases bitOf q g <;> cases par q l <;> cases par q l2 <;> rfl

theorem par_reverse (q : Nat) (l : List PS) : par q l.reverse = par q l := by
  induction l with
  | nil => rfl
  | cons g l ih =>
    rw [List.reverse_cons, par_append, ih]
    simp only [par]
    cases bitOf q g <;> cases par q l <;> rfl

theorem par_perm (q : Nat) {l1 l2 : List PS} (h : l1.Perm l2) : par q l1 = par q l2 := by
  induction h with
  | nil => rfl
  | cons x _ ih => simp only [par, ih]
  | swap x y l =>
    simp only [par]
    cases bitOf q x <;> cases bitOf q y <;> cases par q l <;> rfl
  | trans _ _ ih1 ih2 => exact ih1.trans ih2

theorem par_false (q : Nat) (l : List PS) (h : ∀ g ∈ l, bitOf q g = false) : par q l = false := by
  induction l with
  | nil => rfl
  | cons g l ih =>
    simp only [par, h g (List.mem_cons_self ..), ih (fun x hx => h x (List.mem_cons_of_mem _ hx))]
    rfl

theorem getD_zipWith_bne (a b : List Bool) (h : a.length = b.length) (q : Nat) :
    (List.zipWith (fun x y => x != y) a b).getD q false = (a.getD q false != b.getD q false) := by
  induction a generalizing b q with
  | nil =>
    cases b with
    | nil => simp
    | cons y t => simp at h
  | cons x s ih =>
    cases b with
    | nil => simp at h
    | cons y t =>
      cases q with
      | zero => simp
      | succ q =>
        have := ih t (by simpa using h) q
        simpa using this

theorem multiply_bit {a c r : PS} (h : PS.multiply a c = .ok r) (q : Nat) :
    bitOf q r = (bitOf q a != bitOf q c) := by
  unfold PS.multiply PS.xorBits at h
  by_cases hl : a.bits.length ≠ c.bits.length
  · simp [hl, throw, throwThe, MonadExceptOf.throw, bind, Except.bind] at h
  · simp only [hl, if_false, bind, Except.bind, pure, Except.pure] at h
    cases h
    exact getD_zipWith_bne _ _ (by omega) q

theorem nestedLoop_bit (q : Nat) : ∀ (l : List PS) (cur r : PS), nestedLoop cur l = .ok (some r) →
    bitOf q r = (par q l != bitOf q cur) := by
  intro l
  induction l with
  | nil =>
    intro cur r h
    simp [nestedLoop, pure, Except.pure] at h
    subst h
    simp [par]
  | cons a rest ih =>
    intro cur r h
    unfold nestedLoop adApply at h
    cases hc : PS.commutesWith a cur with
    | error e => simp [hc, bind, Except.bind] at h
    | ok b =>
      cases b with
      | true => simp [hc, bind, Except.bind, pure, Except.pure] at h
      | false =>
        cases hm : PS.multiply a cur with
        | error e => simp [hc, hm, bind, Except.bind] at h
        | ok c =>
          simp [hc, hm, bind, Except.bind, pure, Except.pure] at h
          rw [ih c r h, multiply_bit hm q]
          simp only [par]
          cases bitOf q a <;> cases bitOf q cur <;> cases par q rest <;> rfl

/-- **a non-vanishing nested commutator is the product of all its elements**: bit by bit -/
theorem nested_bit (G : List PS) (r : PS) (h : nestedCommutatorResult G = .ok (some r)) (q : Nat) :
    bitOf q r = par q G := by
  cases G with
  | nil => simp [nestedCommutatorResult, pure, Except.pure] at h
  | cons g rest =>
    rw [nestedCommutatorResult] at h
    rw [nestedLoop_bit q rest g r h]
    simp only [par]
    cases bitOf q g <;> cases par q rest <;> rfl

/-- equal decodings: equal bits on the decoded range -/
theorem decode_eq_getD : ∀ (a b : List Bool), decode a = decode b → ∀ p, p < 2 * (decode b).length →
    a.getD p false = b.getD p false
  | _, [], _, p, hp => by simp [decode] at hp
  | _, [y], _, p, hp => by simp [decode] at hp
  | [], _ :: _ :: _, h, _, _ => by simp [decode] at h
  | [x], _ :: _ :: _, h, _, _ => by simp [decode] at h
  | x1 :: x2 :: s, y1 :: y2 :: t, h, p, hp => by
    simp only [decode, List.cons.injEq] at h
    have hxy : x1 = y1 ∧ x2 = y2 := by
      have := h.1
      revert this
      cases x1 <;> cases x2 <;> cases y1 <;> cases y2 <;> simp [Letter.ofCode]
    match p with
    | 0 => simp [hxy.1]
    | 1 => simp [hxy.2]
    | p + 2 =>
      have := decode_eq_getD s t h.2 p (by simp only [decode, List.length_cons] at hp; omega)
      simpa using this

/-- what a passed self-check says about the right block, bit by bit: bit `p` of `W` is the parity of the
bits `2k + p` of the elements -/
theorem checkRes_right_bits (c : Ctx) (k : Nat) (hk : c.k = (k : Int)) (v : List Letter) (w : PS) (G : List PS)
    (h : checkRes c v (key w) G = .ok true) :
    ∀ p, p < 2 * w.letters.length → w.bits.getD p false = par (2 * k + p) G := by
  obtain ⟨r, hn, _, hr⟩ := checkRes_true h
  rw [hk, rightPart_letters] at hr
  intro p hp
  have hd : decode (r.bits.drop (2 * k)) = decode w.bits := by
    rw [decode_drop]; exact hr
  have := decode_eq_getD _ _ hd p hp
  rw [← this, ← nested_bit G r hn (2 * k + p)]
  simp [bitOf]

end CompilerSearch
end PauLie
