/-
Helper lemmas for C05: the nested-commutator evaluations of `Model/Compiler.lean`
(internal and public orientation) against each other and against the nested
commutator of the `2^n × 2^n` matrices.
-/
import PauLieVerif.Properties.C04
import PauLieVerif.Proofs.C07Size

namespace PauLie
namespace C05

open Compiler Matrix

/-! ### string level -/

/-- `_ad_apply(A, B)` is `A ^ B` (`adjoint_map`) -/
theorem adApply_some (a b : PS) : adApply a (some b) = PS.adjointMap a b := by
  simp only [adApply, PS.adjointMap, PS.multiply, bind, Except.bind, pure, Except.pure]
  cases PS.commutesWith a b with
  | error e => rfl
  | ok c =>
    cases c
    · by_cases hl : a.bits.length = b.bits.length
      · simp [hl]
        cases PS.xorBits a.bits b.bits <;> rfl
      · simp [hl, throw, throwThe, MonadExceptOf.throw]
    · rfl

/-- one step of the public evaluation: `r ↦ [a, r]` on results -/
def step (a : PS) (r : Except Err (Option PS)) : Except Err (Option PS) := do
  match (← r) with
  | none => return none
  | some c => PS.adjointMap a c

theorem nestedPublic_cons (a : PS) {rest : List PS} (h : rest ≠ []) :
    nestedPublic (a :: rest) = step a (nestedPublic rest) := by
  cases rest with
  | nil => exact absurd rfl h
  | cons b t => rfl

theorem nestedPublic_append (p : List PS) {q : List PS} (hq : q ≠ []) :
    nestedPublic (p ++ q) = p.foldr step (nestedPublic q) := by
  induction p with
  | nil => rfl
  | cons a p ih =>
    rw [List.cons_append, nestedPublic_cons a (by simp [hq]), ih, List.foldr_cons]

theorem foldl_step_none (l : List PS) :
    l.foldl (fun r a => step a r) (.ok none) = .ok none := by
  induction l with
  | nil => rfl
  | cons a t ih => rw [List.foldl_cons]; exact ih

theorem foldl_step_error (l : List PS) (e : Err) :
    l.foldl (fun r a => step a r) (.error e) = .error e := by
  induction l with
  | nil => rfl
  | cons a t ih => rw [List.foldl_cons]; exact ih

theorem nestedLoop_eq_foldl (g : PS) (l : List PS) :
    nestedLoop g l = l.foldl (fun r a => step a r) (.ok (some g)) := by
  induction l generalizing g with
  | nil => rfl
  | cons a t ih =>
    rw [List.foldl_cons, nestedLoop, adApply_some]
    have hs : step a (.ok (some g)) = PS.adjointMap a g := rfl
    rw [hs]
    cases h : PS.adjointMap a g with
    | error e => rw [foldl_step_error]; rfl
    | ok r =>
      cases r with
      | none => rw [foldl_step_none]; rfl
      | some c => exact ih c

/-- **orientation**: evaluating `_sequence_to_paulie_orientation(G)` in the public
(documented) way is evaluating `G` in the internal way. -/
theorem nestedPublic_toPublic (G : List PS) :
    nestedPublic (toPublic G) = nestedCommutatorResult G := by
  cases G with
  | nil => rfl
  | cons g rest =>
    rw [toPublic, nestedPublic_append _ (by simp), nestedCommutatorResult, nestedLoop_eq_foldl,
      List.foldr_reverse]
    rfl

/-! ### matrix level -/

variable {ι : Type} [Fintype ι]

/-- the nested commutator `[A_1, [A_2, [… [A_{n-1}, A_n]]]]`; `0` for the empty list -/
def nestM : List (Matrix ι ι ℂ) → Matrix ι ι ℂ
  | [] => 0
  | [A] => A
  | A :: rest => A * nestM rest - nestM rest * A

theorem nestM_cons (A : Matrix ι ι ℂ) {rest : List (Matrix ι ι ℂ)} (h : rest ≠ []) :
    nestM (A :: rest) = A * nestM rest - nestM rest * A := by
  cases rest with
  | nil => exact absurd rfl h
  | cons b t => rfl

/-- the matrices of a sequence of model strings -/
def mats (n : ℕ) (s : List PS) : List (Matrix (Fin n → Fin 2) (Fin n → Fin 2) ℂ) :=
  s.map (fun p => M (p.vec n))

/-- **public evaluation vs. matrices**: on well-formed strings of length `n` the
public evaluation never raises; it answers `some r` exactly when the nested
matrix commutator is a non-zero multiple of `M r`, and `None` exactly when it
vanishes. -/
theorem nestedPublic_matrix_aux (n : ℕ) : ∀ (s : List PS), s ≠ [] → (∀ x ∈ s, x.WF ∧ x.len = n) →
    (∃ r, nestedPublic s = .ok (some r) ∧ r.WF ∧ r.len = n ∧
        ∃ c : ℂ, c ≠ 0 ∧ nestM (mats n s) = c • M (r.vec n))
    ∨ (nestedPublic s = .ok none ∧ nestM (mats n s) = 0)
  | [], h, _ => absurd rfl h
  | [x], _, hx => by
    left
    exact ⟨x, rfl, (hx x (by simp)).1, (hx x (by simp)).2, 1, one_ne_zero, by simp [mats, nestM]⟩
  | a :: b :: t, _, hx => by
    have ha := hx a (by simp)
    have ih := nestedPublic_matrix_aux n (b :: t) (by simp) (fun x h => hx x (List.mem_cons_of_mem _ h))
    have hm : mats n (a :: b :: t) = M (a.vec n) :: mats n (b :: t) := rfl
    have hne : mats n (b :: t) ≠ [] := by simp [mats]
    rw [hm, nestM_cons _ hne, nestedPublic_cons a (by simp)]
    rcases ih with ⟨r, hr, hrw, hrn, c, hc, hM⟩ | ⟨hr, hM⟩
    · rw [hr, hM]
      have hstep : step a (.ok (some r)) = PS.adjointMap a r := rfl
      rw [hstep]
      obtain ⟨h1, h2, h3⟩ := C04.C04_adjoint n a r ha.1 hrw ha.2 hrn
      by_cases hcm : Commute (M (a.vec n)) (M (r.vec n))
      · right
        refine ⟨h1.mpr hcm, ?_⟩
        rw [mul_smul_comm, smul_mul_assoc, hcm.eq, sub_self]
      · left
        obtain ⟨r2, hr2⟩ := h2 hcm
        obtain ⟨hmul, k, _, hcomm, _⟩ := h3 r2 hr2
        obtain ⟨k', r', _, hmul', _, hw', hn', _⟩ := C04.C04_mul n a r ha.1 hrw ha.2 hrn
        rw [hmul] at hmul'
        cases hmul'
        refine ⟨r2, hr2, hw', hn', c * (2 * (-Complex.I) ^ k), ?_, ?_⟩
        · exact mul_ne_zero hc (mul_ne_zero two_ne_zero (pow_ne_zero _ C04.negI_ne_zero))
        · rw [mul_smul_comm, smul_mul_assoc, ← smul_sub, hcomm, smul_smul]
    · right
      rw [hr, hM]
      exact ⟨rfl, by simp⟩

/-! ### Pauli matrices of different strings are not proportional -/

theorem lmul_eq_I {a b : Letter} (h : C04.lmul a b = .I) : a = b := by
  cases a <;> cases b <;> first | rfl | (exact absurd h (by decide))

theorem M_scalar_imp_I {n : ℕ} (R : Fin n → Letter) (d : ℂ)
    (h : M R = d • (1 : Matrix (Fin n → Fin 2) (Fin n → Fin 2) ℂ)) : ∀ i, R i = .I := by
  intro i
  by_contra hi
  have hd : d = 0 := by
    have hzero : ∀ (r : Fin n → Fin 2), σ (R i) (r i) (r i) = 0 → d = 0 := by
      intro r hr
      have e := congrFun (congrFun h r) r
      rw [M_apply, Finset.prod_eq_zero (Finset.mem_univ i) hr] at e
      simpa using e.symm
    cases hR : R i with
    | I => exact absurd hR hi
    | X => exact hzero (fun _ => 0) (by simp [hR, σ])
    | Y => exact hzero (fun _ => 0) (by simp [hR, σ])
    | Z =>
      have e0 := congrFun (congrFun h (fun _ => 0)) (fun _ => 0)
      have e1 := congrFun (congrFun h (Function.update (fun _ => 0) i 1))
        (Function.update (fun _ => 0) i 1)
      rw [M_apply, ← Finset.mul_prod_erase _ _ (Finset.mem_univ i)] at e0 e1
      have hE : ∏ j ∈ Finset.univ.erase i,
            σ (R j) ((Function.update (fun _ => (0 : Fin 2)) i 1) j) ((Function.update (fun _ => (0 : Fin 2)) i 1) j)
          = ∏ j ∈ Finset.univ.erase i, σ (R j) 0 0 := by
        apply Finset.prod_congr rfl
        intro j hj
        rw [Function.update_of_ne (Finset.ne_of_mem_erase hj)]
      rw [hE] at e1
      generalize (∏ j ∈ Finset.univ.erase i, σ (R j) 0 0) = E at e0 e1
      simp only [Function.update_self, hR, Matrix.smul_apply, Matrix.one_apply_eq, smul_eq_mul, mul_one] at e0 e1
      simp [σ] at e0 e1
      linear_combination (-(1:ℂ)/2) * e0 + (-(1:ℂ)/2) * e1
  exact C04.M_ne_zero R (by rw [h, hd, zero_smul])

theorem M_smul_inj {n : ℕ} (P Q : Fin n → Letter) (c₁ c₂ : ℂ) (h1 : c₁ ≠ 0)
    (h : c₁ • M P = c₂ • M Q) : P = Q := by
  have hmul : c₁ • (M P * M Q) = c₂ • (1 : Matrix (Fin n → Fin 2) (Fin n → Fin 2) ℂ) := by
    rw [← smul_mul_assoc, h, smul_mul_assoc, C04.M_mul_self]
  rw [C04.M_mul, smul_smul] at hmul
  have hφ : (∏ i, C04.ph (P i) (Q i)) ≠ 0 := Finset.prod_ne_zero_iff.mpr (fun i _ => C04.ph_ne_zero _ _)
  have hne : c₁ * ∏ i, C04.ph (P i) (Q i) ≠ 0 := mul_ne_zero h1 hφ
  have hR : M (fun i => C04.lmul (P i) (Q i)) = ((c₁ * ∏ i, C04.ph (P i) (Q i))⁻¹ * c₂) • (1 : Matrix (Fin n → Fin 2) (Fin n → Fin 2) ℂ) := by
    rw [← smul_smul, ← hmul, smul_smul, inv_mul_cancel₀ hne, one_smul]
  funext i
  exact lmul_eq_I (M_scalar_imp_I _ _ hR i)

end C05
end PauLie
