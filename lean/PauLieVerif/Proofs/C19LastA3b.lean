/-
Helpers for property C19, part 32b: family a3 - the kernel-evaluated peeling checks, phase 1.
-/
import PauLieVerif.Proofs.C19LastA3a

namespace PauLie
namespace C19
open Closure Graph C01Star C03

theorem chkA3_1 : chkP a3A a3B a3W 1 := by
  unfold chkP; decide +kernel

end C19
end PauLie
