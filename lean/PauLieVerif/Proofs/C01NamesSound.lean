/-
Soundness of `is_algebra` with respect to `invOfName`; `_parse_algebra` on printed sums and
its error exits.
-/
import PauLieVerif.Proofs.C01NamesIso
import PauLieVerif.Proofs.C01NamesPerm

namespace PauLie
namespace C01Names
open Classify AlgebraNames

/-! ### matched lists have equal invariants -/

/-- the query summand a matched item stands for -/
def MatchSummand (q s : Summand) : Prop :=
  q = s ∨ (s.ty = .SO ∧ s.size = 3 ∧ q = ⟨.SU, 2, s.mult⟩) ∨ (s.ty = .SO ∧ s.size = 4 ∧ q = ⟨.SU, 2, 2 * s.mult⟩)

theorem invStep_match {q s : Summand} (h : MatchSummand q s) (acc : Nat × List Simple) :
    invStep acc q = invStep acc s := by
  rcases h with rfl | ⟨h1, h2, rfl⟩ | ⟨h1, h2, rfl⟩
  · rfl
  · obtain ⟨ty, size, mult⟩ := s
    simp only at h1 h2; subst h1; subst h2
    simp only [invStep]
    have : labelOfBlockFast 3 1 = 0 := by decide
    simp [simpleDim, dimSU, dimSO, labelOfName, this]
  · obtain ⟨ty, size, mult⟩ := s
    simp only at h1 h2; subst h1; subst h2
    simp only [invStep]
    have : labelOfBlockFast 3 1 = 0 := by decide
    simp [simpleDim, dimSU, labelOfName, this]

/-- items matched position by position are the texts of summands with the same invariants -/
theorem matched_inv : ∀ {as : List Text} {rs : List Summand}, Matched as rs →
    ∃ q : List Summand, as = q.map summandText ∧ ∀ acc, q.foldl invStep acc = rs.foldl invStep acc
  | _, _, .nil => ⟨[], rfl, fun _ => rfl⟩
  | _, _, .cons (a := a) (s := s) hm h => by
    obtain ⟨q, hq, hf⟩ := matched_inv h
    have : ∃ q0 : Summand, a = summandText q0 ∧ MatchSummand q0 s := by
      rcases hm with e | ⟨h1, h2, e⟩ | ⟨h1, h2, e⟩
      · exact ⟨s, e, .inl rfl⟩
      · exact ⟨_, e, .inr (.inl ⟨h1, h2, rfl⟩)⟩
      · exact ⟨_, e, .inr (.inr ⟨h1, h2, rfl⟩)⟩
    obtain ⟨q0, e0, m0⟩ := this
    refine ⟨q0 :: q, by simp [e0, hq], fun acc => ?_⟩
    simp only [List.foldl_cons, invStep_match m0, hf]

/-! ### `is_algebra` -/

/-- unfolding `is_algebra` on a reported text that is the print of a non-empty summand list -/
theorem isAlgebra_ok {l : List Summand} (hne : l ≠ []) {t : Text} (h : isAlgebra (algebraText l) t = .ok true) :
    ∃ items, parseAlgebra t = .ok items ∧ items.length = l.length ∧
      matchLoop (sortTexts items) (sortTexts (l.map summandText)) = .ok true := by
  unfold isAlgebra at h
  cases hp : parseAlgebra t with
  | error e => rw [hp] at h; cases h
  | ok items =>
    rw [hp, splitOn_algebraText hne] at h
    simp only [bind, Except.bind, pure, Except.pure] at h
    by_cases hl : items.length = l.length
    · refine ⟨items, rfl, hl, ?_⟩
      simpa [hl] using h
    · have : (items.length != (l.map summandText).length) = true := by simpa using hl
      rw [if_pos this] at h
      cases h

/-- **soundness of the library's comparison**: if the reported algebra is the print of the summands
`l`, none of them the summand `2*so(2)`, and `is_algebra(t)` answers True, then the query text is read by
`_parse_algebra` as (a permutation of) the texts of summands `q` with the invariants of `l`. -/
theorem isAlgebra_sound {l : List Summand} (hne : l ≠ []) (h2 : so2x2 ∉ l) {t : Text}
    (h : isAlgebra (algebraText l) t = .ok true) :
    ∃ (q : List Summand) (items : List Text), parseAlgebra t = .ok items ∧ items.Perm (q.map summandText) ∧
      invOfName q = invOfName l := by
  obtain ⟨items, hp, hl, hm⟩ := isAlgebra_ok hne h
  -- the sorted reported texts are the texts of a permutation of `l`
  let le' : Summand → Summand → Bool := fun a b => textLe (summandText a) (summandText b)
  have hsort : sortTexts (l.map summandText) = (sortBy le' l).map summandText :=
    (map_sortBy (r := le') (s := textLe) (f := summandText) (fun _ _ => rfl) l).symm
  have hperm : (sortBy le' l).Perm l := sortBy_perm le' l
  rw [hsort] at hm
  have hlen : (sortTexts items).length = (sortBy le' l).length := by
    unfold sortTexts
    rw [(sortBy_perm textLe items).length_eq, hperm.length_eq, hl]
  have hno : ∀ s ∈ sortBy le' l, s ≠ so2x2 := fun s hs e => h2 (e ▸ hperm.subset hs)
  obtain ⟨q, hq, hf⟩ := matched_inv (matchLoop_sound _ _ hlen hno hm)
  refine ⟨q, items, hp, ?_, ?_⟩
  · rw [← hq]; exact (sortBy_perm textLe items).symm
  · rw [invOfName_eq, invOfName_eq, hf, ← invOfName_eq, ← invOfName_eq]
    exact invOfName_perm hperm

/-! ### error exits of `_parse_algebra` -/

theorem pyInt_error {t : Text} {e : Err} (h : AlgebraNames.pyInt t = .error e) : e = .valueError := by
  unfold AlgebraNames.pyInt at h
  split at h
  · cases h
  · cases h; rfl

theorem strInt_error {v : Int} {e : Err} (h : strInt v = .error e) : e = .valueError := by
  unfold strInt at h
  split at h
  · cases h; rfl
  · cases h

theorem parseStep_error {d : Dict} {a : Text} {e : Err} (h : parseStep d a = .error e) : e = .valueError := by
  unfold parseStep at h
  by_cases hc : a.contains '*' = true
  · obtain ⟨a0, a1, r, hs⟩ := splitOn_two_of_mem (contains_iff.mp hc)
    simp only [hc, if_true, hs, bind, Except.bind, pure, Except.pure] at h
    cases hi : AlgebraNames.pyInt a0 with
    | error e' => rw [hi] at h; simp at h; rw [← h]; exact pyInt_error hi
    | ok v => rw [hi] at h; simp at h
  · have hm : '*' ∉ a := fun m => hc (contains_iff.mpr m)
    simp [hm, bind, Except.bind, pure, Except.pure] at h

theorem foldlM_error {α β : Type} {f : β → α → Except Err β} (hf : ∀ b a e, f b a = .error e → e = .valueError) :
    ∀ (l : List α) (b : β) (e : Err), l.foldlM f b = .error e → e = .valueError
  | [], b, e, h => by simp [pure, Except.pure] at h
  | a :: l, b, e, h => by
    simp only [List.foldlM_cons, bind, Except.bind] at h
    cases hfa : f b a with
    | error e' => rw [hfa] at h; simp at h; rw [← h]; exact hf b a e' hfa
    | ok b' => rw [hfa] at h; exact foldlM_error hf l b' e h

theorem mapM_error {α β : Type} {f : α → Except Err β} (hf : ∀ a e, f a = .error e → e = .valueError) :
    ∀ (l : List α) (e : Err), l.mapM f = .error e → e = .valueError
  | [], e, h => by simp [pure, Except.pure] at h
  | a :: l, e, h => by
    rw [List.mapM_cons] at h
    simp only [bind, Except.bind, pure, Except.pure] at h
    cases hfa : f a with
    | error e' => rw [hfa] at h; simp at h; rw [← h]; exact hf a e' hfa
    | ok b =>
      rw [hfa] at h
      cases hl : l.mapM f with
      | error e' => rw [hl] at h; simp at h; rw [← h]; exact mapM_error hf l e' hl
      | ok bs => rw [hl] at h; simp at h

theorem render_error {x : Text × Int} {e : Err} (h : render x = .error e) : e = .valueError := by
  unfold render at h
  split at h
  · cases h
  · simp only [bind, Except.bind] at h
    cases hs : strInt x.2 with
    | error e' => rw [hs] at h; simp at h; rw [← h]; exact strInt_error hs
    | ok s => rw [hs] at h; simp [pure, Except.pure] at h

/-- `_parse_algebra` returns a non-empty list or raises ValueError — never the IndexError of `a[1]` -/
theorem parseAlgebra_total (t : Text) :
    (∃ items, parseAlgebra t = .ok items ∧ items ≠ []) ∨ parseAlgebra t = .error .valueError := by
  unfold parseAlgebra
  cases hd : parseDict t with
  | error e =>
    right
    have := foldlM_error (fun b a e h => parseStep_error h) _ _ _ hd
    subst this
    simp [bind, Except.bind]
  | ok d =>
    cases hr : d.mapM render with
    | error e =>
      right
      have := mapM_error (fun a e h => render_error h) _ _ hr
      subst this
      simp [hr, bind, Except.bind]
    | ok r =>
      left
      exact ⟨splitOn '+' (join '+' r), by simp [hr, bind, Except.bind, pure, Except.pure], splitOn_ne_nil _ _⟩

/-! ### round trip -/

/-- the dictionary built from the summands processed so far -/
def dictOf (l : List Summand) : Dict := l.map (fun s => (nameText s.ty s.size, (s.mult : Int)))

/-- distinct names -/
def NamesNodup (l : List Summand) : Prop := l.Pairwise (fun a b => ¬ (a.ty = b.ty ∧ a.size = b.size))

theorem dictGet_none {d : List Summand} {s : Summand} (h : ∀ x ∈ d, ¬ (x.ty = s.ty ∧ x.size = s.size)) :
    dictGet? (dictOf d) (nameText s.ty s.size) = none := by
  unfold dictGet? dictOf
  rw [List.find?_eq_none.mpr]
  · rfl
  · intro e he
    obtain ⟨x, hx, rfl⟩ := List.mem_map.mp he
    simp only [beq_iff_eq]
    intro hn
    exact h x hx (nameText_inj hn)

theorem dictSet_new {d : List Summand} {s : Summand} (h : ∀ x ∈ d, ¬ (x.ty = s.ty ∧ x.size = s.size)) :
    dictSet (dictOf d) (nameText s.ty s.size) s.mult = dictOf (d ++ [s]) := by
  induction d with
  | nil => rfl
  | cons x d ih =>
    have hx : ¬ (nameText x.ty x.size = nameText s.ty s.size) := fun e => h x (by simp) (nameText_inj e)
    have := ih (fun y hy => h y (List.mem_cons_of_mem _ hy))
    simp only [dictOf, List.map_cons, List.cons_append, dictSet] at this ⊢
    rw [if_neg (by simpa using hx), this]

theorem parseStep_summand {d : List Summand} {s : Summand} (h : ∀ x ∈ d, ¬ (x.ty = s.ty ∧ x.size = s.size))
    (hb : s.mult < 10 ^ Parser.maxStrDigits) :
    parseStep (dictOf d) (summandText s) = .ok (dictOf (d ++ [s])) := by
  unfold parseStep
  by_cases h1 : s.mult = 1
  · have : (summandText s).contains '*' = false := by
      rw [Bool.eq_false_iff, Ne, contains_iff, star_mem_summandText]; simp [h1]
    simp only [this, Bool.false_eq_true, if_false, bind, Except.bind, pure, Except.pure]
    rw [summandText_one h1, dictGet_none h]
    simp only []
    have := dictSet_new h
    rw [h1] at this
    exact congrArg Except.ok this
  · have : (summandText s).contains '*' = true := by
      rw [contains_iff, star_mem_summandText]; exact h1
    simp only [this, if_true, splitOn_star_summandText h1, pyInt_natText hb, bind, Except.bind, pure, Except.pure]
    rw [dictGet_none h]
    exact congrArg Except.ok (dictSet_new h)

theorem foldlM_parseStep : ∀ (l d : List Summand), NamesNodup (d ++ l) →
    (∀ s ∈ l, s.mult < 10 ^ Parser.maxStrDigits) →
    (l.map summandText).foldlM parseStep (dictOf d) = .ok (dictOf (d ++ l))
  | [], d, _, _ => by simp [pure, Except.pure]
  | s :: l, d, hn, hb => by
    have hs : ∀ x ∈ d, ¬ (x.ty = s.ty ∧ x.size = s.size) := by
      intro x hx
      have := List.pairwise_append.mp hn
      exact this.2.2 x hx s (by simp)
    simp only [List.map_cons, List.foldlM_cons, bind, Except.bind]
    rw [parseStep_summand hs (hb s (by simp))]
    have := foldlM_parseStep l (d ++ [s]) (by simpa using hn) (fun x hx => hb x (List.mem_cons_of_mem _ hx))
    simpa using this

theorem render_summand {s : Summand} (hb : s.mult < 10 ^ Parser.maxStrDigits) :
    render (nameText s.ty s.size, (s.mult : Int)) = .ok (summandText s) := by
  unfold render
  by_cases h1 : s.mult = 1
  · simp [h1, summandText]
  · have : ((s.mult : Int) == 1) = false := by rw [Bool.eq_false_iff]; simp; omega
    simp only [this, Bool.false_eq_true, if_false, strInt_ofNat hb, bind, Except.bind, pure, Except.pure]
    rw [summandText_mul h1]

theorem mapM_render : ∀ (l : List Summand), (∀ s ∈ l, s.mult < 10 ^ Parser.maxStrDigits) →
    (dictOf l).mapM render = .ok (l.map summandText)
  | [], _ => by simp [dictOf, pure, Except.pure]
  | s :: l, hb => by
    have ih := mapM_render l (fun x hx => hb x (List.mem_cons_of_mem _ hx))
    simp only [dictOf, List.map_cons, List.mapM_cons, bind, Except.bind, pure, Except.pure] at ih ⊢
    rw [render_summand (hb s (by simp)), ih]

theorem space_not_summandText (s : Summand) : ' ' ∉ summandText s := by
  have hn : ∀ ty m, ' ' ∉ nameText ty m := by
    intro ty m
    rw [mem_nameText]
    rintro (h | h | h | h)
    · cases ty <;> simp [tyText] at h
    · exact absurd h (by decide)
    · exact not_digit_of (by decide) _ h
    · exact absurd h (by decide)
  unfold summandText
  split
  · exact hn _ _
  · intro h
    simp only [List.mem_append, List.mem_cons] at h
    rcases h with h | h | h
    · exact not_digit_of (by decide) _ h
    · exact absurd h (by decide)
    · exact hn _ _ h

theorem mem_join {sep c : Char} : ∀ {l : List Text}, c ∈ join sep l → c = sep ∨ ∃ a ∈ l, c ∈ a
  | [], h => by simp [join] at h
  | [a], h => .inr ⟨a, by simp, by simpa [join] using h⟩
  | a :: b :: r, h => by
    simp only [join, List.mem_append, List.mem_cons] at h
    rcases h with h | h | h
    · exact .inr ⟨a, by simp, h⟩
    · exact .inl h
    · rcases mem_join h with e | ⟨x, hx, hc⟩
      · exact .inl e
      · exact .inr ⟨x, List.mem_cons_of_mem _ hx, hc⟩

theorem removeSpaces_algebraText (l : List Summand) : removeSpaces (algebraText l) = algebraText l := by
  unfold removeSpaces
  rw [List.filter_eq_self]
  intro c hc
  rcases mem_join hc with e | ⟨a, ha, hca⟩
  · subst e; decide
  · obtain ⟨s, _, rfl⟩ := List.mem_map.mp ha
    have : c ≠ ' ' := fun e => space_not_summandText s (e ▸ hca)
    simpa using this

/-- **round trip**: `_parse_algebra(print l) = l` for a non-empty list of summands with distinct names
(multiplicities below CPython's 4300-digit limit) -/
theorem parseAlgebra_roundtrip {l : List Summand} (hne : l ≠ []) (hn : NamesNodup l)
    (hb : ∀ s ∈ l, s.mult < 10 ^ Parser.maxStrDigits) :
    parseAlgebra (algebraText l) = .ok (l.map summandText) := by
  unfold parseAlgebra parseDict
  rw [removeSpaces_algebraText, splitOn_algebraText hne]
  have h1 := foldlM_parseStep l [] (by simpa using hn) hb
  simp only [dictOf, List.map_nil, List.nil_append] at h1
  rw [h1]
  simp only [bind, Except.bind, pure, Except.pure]
  have h2 := mapM_render l hb
  simp only [dictOf] at h2
  rw [h2]
  simp only []
  exact congrArg Except.ok (splitOn_algebraText hne)

end C01Names
end PauLie
