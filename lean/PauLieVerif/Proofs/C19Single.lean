/-
Helpers for property C19, part 4: the single-site family b3 (`XI`, `YI`, `IX`, `IY`).
The translates are the single-site `X` and `Y` strings; the commutator closure is
the set of all 3n single-site Pauli strings (n commuting copies of su(2)).
Core Lean only.
-/
import PauLieVerif.Proofs.C19Path

namespace PauLie
namespace C19
open TwoLocal Classify Closure Graph

/-! ### G. the single-site family b3 (`XI`, `YI`, `IX`, `IY`): closure = all single-site strings = n·su(2) -/

/-- the letter with bits `(a, b)` at site `k` of `n`, identity elsewhere -/
def sv : Nat → Nat → Bool → Bool → V
  | 0, _, _, _ => []
  | n + 1, 0, a, b => a :: b :: List.replicate (2 * n) false
  | n + 1, k + 1, a, b => false :: false :: sv n k a b

theorem length_sv : ∀ (n k : Nat) (a b : Bool), (sv n k a b).length = 2 * n
  | 0, _, _, _ => rfl
  | n + 1, 0, _, _ => by simp [sv]; omega
  | n + 1, k + 1, a, b => by simp [sv, length_sv n k a b]; omega

/-- single-site strings anticommute iff they sit on the same site and their letters anticommute -/
theorem omega_sv : ∀ (n j k : Nat) (a b c d : Bool), j < n → k < n →
    omega (sv n j a b) (sv n k c d) = (decide (j = k) && ((a && d) != (b && c)))
  | 0, _, _, _, _, _, _, h, _ => by omega
  | n + 1, 0, 0, a, b, c, d, _, _ => by simp [sv, omega, omega_zeros_left]
  | n + 1, 0, k + 1, a, b, c, d, _, _ => by simp [sv, omega, omega_zeros_left]
  | n + 1, j + 1, 0, a, b, c, d, _, _ => by
      rw [omega_comm]; simp [sv, omega, omega_zeros_left]
  | n + 1, j + 1, k + 1, a, b, c, d, hj, hk => by
      simp [sv, omega, omega_sv n j k a b c d (by omega) (by omega)]

theorem add_sv : ∀ (n k : Nat) (a b c d : Bool), k < n →
    add (sv n k a b) (sv n k c d) = sv n k (a != c) (b != d)
  | 0, _, _, _, _, _, h => by omega
  | n + 1, 0, a, b, c, d, _ => by simp [sv, add_zeros]
  | n + 1, k + 1, a, b, c, d, h => by simp [sv, add_sv n k a b c d (by omega)]

theorem shiftV_left : ∀ (k n : Nat) (a b : Bool), k + 2 ≤ n → shiftV n k [a, b, false, false] = sv n k a b
  | 0, n, a, b, h => by
    obtain ⟨m, rfl⟩ : ∃ m, n = m + 2 := ⟨n - 2, by omega⟩
    simp [shiftV, sv, List.replicate_succ, show 2 * (m + 1) = 2 * m + 1 + 1 by omega]
  | k + 1, n, a, b, h => by
    obtain ⟨m, rfl⟩ : ∃ m, n = m + 1 := ⟨n - 1, by omega⟩
    rw [shiftV_succ, shiftV_left k m a b (by omega)]; rfl

theorem shiftV_right : ∀ (k n : Nat) (a b : Bool), k + 2 ≤ n → shiftV n k [false, false, a, b] = sv n (k + 1) a b
  | 0, n, a, b, h => by
    obtain ⟨m, rfl⟩ : ∃ m, n = m + 2 := ⟨n - 2, by omega⟩
    simp [shiftV, sv]
  | k + 1, n, a, b, h => by
    obtain ⟨m, rfl⟩ : ∃ m, n = m + 1 := ⟨n - 1, by omega⟩
    rw [shiftV_succ, shiftV_right k m a b (by omega)]; rfl

def vYI : V := [true, true, false, false]
def vIY : V := [false, false, true, true]
def gensB3 : List V := [vXI, vYI, vIX, vIY]

theorem mem_klocalV_b3 {n : Nat} (hn : 2 ≤ n) {x : V} :
    x ∈ klocalV n gensB3 ↔ ∃ k, k < n ∧ (x = sv n k true false ∨ x = sv n k true true) := by
  rw [mem_klocalV]
  constructor
  · rintro ⟨g, hg, k, hk, rfl⟩
    simp only [gensB3, List.mem_cons, List.not_mem_nil, or_false] at hg
    rcases hg with rfl | rfl | rfl | rfl
    · exact ⟨k, by omega, Or.inl (shiftV_left k n true false (by omega))⟩
    · exact ⟨k, by omega, Or.inr (shiftV_left k n true true (by omega))⟩
    · exact ⟨k + 1, by omega, Or.inl (shiftV_right k n true false (by omega))⟩
    · exact ⟨k + 1, by omega, Or.inr (shiftV_right k n true true (by omega))⟩
  · rintro ⟨k, hk, h⟩
    by_cases h0 : k < n - 1
    · rcases h with rfl | rfl
      · exact ⟨vXI, by simp [gensB3], k, h0, (shiftV_left k n true false (by omega)).symm⟩
      · exact ⟨vYI, by simp [gensB3], k, h0, (shiftV_left k n true true (by omega)).symm⟩
    · have e : k - 1 + 1 = k := by omega
      rcases h with rfl | rfl
      · exact ⟨vIX, by simp [gensB3], k - 1, by omega, by
          have := shiftV_right (k - 1) n true false (by omega); rw [e] at this; exact this.symm⟩
      · exact ⟨vIY, by simp [gensB3], k - 1, by omega, by
          have := shiftV_right (k - 1) n true true (by omega); rw [e] at this; exact this.symm⟩

/-- **b3**: the closure is the set of all single-site Pauli strings -/
theorem clo_b3 {n : Nat} (hn : 2 ≤ n) (x : V) :
    Clo (klocalV n gensB3) x ↔ ∃ k a b, k < n ∧ (a || b) = true ∧ x = sv n k a b := by
  constructor
  · intro hx
    induction hx with
    | base hg =>
      obtain ⟨k, hk, h | h⟩ := (mem_klocalV_b3 hn).1 hg
      · exact ⟨k, true, false, hk, rfl, h⟩
      · exact ⟨k, true, true, hk, rfl, h⟩
    | step _ _ ho ihx ihy =>
      obtain ⟨j, a, b, hj, hab, rfl⟩ := ihx
      obtain ⟨k, c, d, hk, hcd, rfl⟩ := ihy
      rw [omega_sv n j k a b c d hj hk] at ho
      simp only [Bool.and_eq_true, decide_eq_true_eq] at ho
      obtain ⟨rfl, h2⟩ := ho
      refine ⟨j, (a != c), (b != d), hj, ?_, add_sv n j a b c d hj⟩
      revert hab hcd h2; cases a <;> cases b <;> cases c <;> cases d <;> decide
  · rintro ⟨k, a, b, hk, hab, rfl⟩
    have hX : Clo (klocalV n gensB3) (sv n k true false) :=
      Clo.base ((mem_klocalV_b3 hn).2 ⟨k, hk, Or.inl rfl⟩)
    have hY : Clo (klocalV n gensB3) (sv n k true true) :=
      Clo.base ((mem_klocalV_b3 hn).2 ⟨k, hk, Or.inr rfl⟩)
    cases a <;> cases b
    · cases hab
    · have := Clo.step hX hY (by rw [omega_sv n k k _ _ _ _ hk hk]; simp)
      rwa [add_sv n k _ _ _ _ hk] at this
    · exact hX
    · exact hY

theorem sv_inj {n j k : Nat} {a b c d : Bool} (hj : j < n) (hk : k < n) (hab : (a || b) = true)
    (h : sv n j a b = sv n k c d) : j = k ∧ a = c ∧ b = d := by
  have h1 := congrArg (fun v => omega v (sv n j true false)) h
  have h2 := congrArg (fun v => omega v (sv n j false true)) h
  simp only [omega_sv n j j _ _ _ _ hj hj, omega_sv n k j _ _ _ _ hk hj] at h1 h2
  by_cases e : k = j
  · subst e
    revert h1 h2 hab; cases a <;> cases b <;> cases c <;> cases d <;> simp
  · revert h1 h2 hab; cases a <;> cases b <;> simp [e]

/-- (site, letter) for the three non-identity letters -/
def letters3 (n : Nat) : List (Nat × Bool × Bool) :=
  (List.range n).map (fun k => (k, true, false)) ++
  ((List.range n).map (fun k => (k, true, true)) ++ (List.range n).map (fun k => (k, false, true)))

theorem mem_letters3 {n : Nat} {t : Nat × Bool × Bool} :
    t ∈ letters3 n ↔ t.1 < n ∧ (t.2.1 || t.2.2) = true := by
  obtain ⟨k, a, b⟩ := t
  simp only [letters3, List.mem_append, List.mem_map, List.mem_range, Prod.mk.injEq]
  constructor
  · rintro (⟨x, hx, rfl, rfl, rfl⟩ | ⟨x, hx, rfl, rfl, rfl⟩ | ⟨x, hx, rfl, rfl, rfl⟩) <;> exact ⟨hx, rfl⟩
  · rintro ⟨hk, hab⟩
    cases a <;> cases b
    · cases hab
    · exact Or.inr (Or.inr ⟨k, hk, rfl, rfl, rfl⟩)
    · exact Or.inl ⟨k, hk, rfl, rfl, rfl⟩
    · exact Or.inr (Or.inl ⟨k, hk, rfl, rfl, rfl⟩)

theorem nodup_letters3 (n : Nat) : (letters3 n).Nodup := by
  have inj : ∀ (a b : Bool), ((List.range n).map (fun k => (k, a, b))).Nodup := by
    intro a b
    rw [List.Nodup, List.pairwise_map]
    exact List.nodup_range.imp (fun hne heq => hne (by simpa using heq))
  rw [letters3, List.nodup_append]
  refine ⟨inj _ _, ?_, ?_⟩
  · rw [List.nodup_append]
    refine ⟨inj _ _, inj _ _, ?_⟩
    intro p hp q hq hpq
    obtain ⟨x, _, rfl⟩ := List.mem_map.1 hp
    obtain ⟨y, _, rfl⟩ := List.mem_map.1 hq
    simp at hpq
  · intro p hp q hq hpq
    obtain ⟨x, _, rfl⟩ := List.mem_map.1 hp
    rcases List.mem_append.1 hq with hq | hq <;> obtain ⟨y, _, rfl⟩ := List.mem_map.1 hq <;> simp at hpq

theorem length_letters3 (n : Nat) : (letters3 n).length = 3 * n := by
  simp [letters3]; omega

def singles (n : Nat) : List V := (letters3 n).map (fun t => sv n t.1 t.2.1 t.2.2)

theorem nodup_singles (n : Nat) : (singles n).Nodup := by
  rw [singles, List.Nodup, List.pairwise_map]
  refine List.Pairwise.imp_of_mem ?_ (nodup_letters3 n)
  intro p q hp hq hne heq
  obtain ⟨h1, h2⟩ := mem_letters3.1 hp
  obtain ⟨h3, _⟩ := mem_letters3.1 hq
  obtain ⟨e1, e2, e3⟩ := sv_inj h1 h3 h2 heq
  exact hne (Prod.ext e1 (Prod.ext e2 e3))

theorem mem_singles {n : Nat} {x : V} :
    x ∈ singles n ↔ ∃ k a b, k < n ∧ (a || b) = true ∧ x = sv n k a b := by
  simp only [singles, List.mem_map, Prod.exists, mem_letters3]
  constructor
  · rintro ⟨k, a, b, ⟨h1, h2⟩, rfl⟩; exact ⟨k, a, b, h1, h2, rfl⟩
  · rintro ⟨k, a, b, h1, h2, rfl⟩; exact ⟨k, a, b, ⟨h1, h2⟩, rfl⟩

/-- `|Clo| = 3n = dim (n·su(2))` -/
theorem card_clo_b3 {n : Nat} (hn : 2 ≤ n) : (closureList (klocalV n gensB3)).1.length = 3 * n := by
  have hU : Uniform n (klocalV n gensB3) := uniform_klocalV (by simp [gensB3, vXI, vYI, vIX, vIY])
  rw [← clo_card hU (nodup_singles n) (fun x => by rw [mem_singles, clo_b3 hn]), singles,
    List.length_map, length_letters3]

end C19
end PauLie
