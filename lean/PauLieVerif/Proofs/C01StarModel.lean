/-
C01, connection of the closed forms to the model of the classifier: the census of a type-A star
(`k ≥ 1` single legs and, optionally, one leg of length `r ≥ 2`) and the name the table gives it:
`2^(k-1) * so(r+3)` (`r = 0`: no long leg).  The `for` loop of `Morph.counts` (`Classify.rawCounts`)
is first rewritten as a fold of a pure step function, for ALL leg lists.  Core Lean only.
-/
import PauLieVerif.Model.Classify

namespace PauLie
namespace C01Star
open Classify

/-- one iteration of the census loop of `Morph.counts` -/

def rawStep (s : Nat × Nat × Nat) (leg : List PS) : Except Err (Nat × Nat × Nat) :=
  let one := if leg.length == 1 then s.1 + 1 else s.1
  let two := if leg.length == 2 then s.2.1 + 1 else s.2.1
  if leg.length > 2 then
    if s.2.2 > 0 then .error .classificationError else .ok (one, two, s.2.2 + leg.length)
  else .ok (one, two, s.2.2)

def rawBody (leg : List PS) (__s : Nat × Nat × Nat) : Except Err (ForInStep (Nat × Nat × Nat)) :=
          if (leg.length == 1) = true then
            if (leg.length == 2) = true then
              if leg.length > 2 then
                if __s.snd.snd > 0 then
                  (throw Err.classificationError : Except Err PUnit.{1}).bind fun __r =>
                    Except.pure (ForInStep.yield (__s.fst + 1, __s.snd.fst + 1, __s.snd.snd + leg.length))
                else Except.pure (ForInStep.yield (__s.fst + 1, __s.snd.fst + 1, __s.snd.snd + leg.length))
              else Except.pure (ForInStep.yield (__s.fst + 1, __s.snd.fst + 1, __s.snd.snd))
            else
              if leg.length > 2 then
                if __s.snd.snd > 0 then
                  (throw Err.classificationError : Except Err PUnit.{1}).bind fun __r =>
                    Except.pure (ForInStep.yield (__s.fst + 1, __s.snd.fst, __s.snd.snd + leg.length))
                else Except.pure (ForInStep.yield (__s.fst + 1, __s.snd.fst, __s.snd.snd + leg.length))
              else Except.pure (ForInStep.yield (__s.fst + 1, __s.snd.fst, __s.snd.snd))
          else
            if (leg.length == 2) = true then
              if leg.length > 2 then
                if __s.snd.snd > 0 then
                  (throw Err.classificationError : Except Err PUnit.{1}).bind fun __r =>
                    Except.pure (ForInStep.yield (__s.fst, __s.snd.fst + 1, __s.snd.snd + leg.length))
                else Except.pure (ForInStep.yield (__s.fst, __s.snd.fst + 1, __s.snd.snd + leg.length))
              else Except.pure (ForInStep.yield (__s.fst, __s.snd.fst + 1, __s.snd.snd))
            else
              if leg.length > 2 then
                if __s.snd.snd > 0 then
                  (throw Err.classificationError : Except Err PUnit.{1}).bind fun __r =>
                    Except.pure (ForInStep.yield (__s.fst, __s.snd.fst, __s.snd.snd + leg.length))
                else Except.pure (ForInStep.yield (__s.fst, __s.snd.fst, __s.snd.snd + leg.length))
              else Except.pure (ForInStep.yield (__s.fst, __s.snd.fst, __s.snd.snd))

theorem rawBody_eq (leg : List PS) (s : Nat × Nat × Nat) :
    rawBody leg s = (match rawStep s leg with | .ok r => .ok (ForInStep.yield r) | .error e => .error e) := by
  simp only [rawBody, rawStep]
  by_cases h1 : leg.length = 1
  · simp [h1, Except.pure]
  · by_cases h2 : leg.length = 2
    · simp [h2, Except.pure]
    · by_cases h3 : leg.length > 2
      · by_cases h4 : s.2.2 > 0
        · simp [h1, h2, h3, h4, Except.bind, throw, throwThe, MonadExceptOf.throw]
        · simp [h1, h2, h3, h4, Except.pure]
      · simp [h1, h2, h3, Except.pure]

theorem rawLoop_eq (L : List (List PS)) (s : Nat × Nat × Nat) :
    forIn L s rawBody = L.foldlM rawStep s := by
  induction L generalizing s with
  | nil => rfl
  | cons leg L ih =>
    rw [List.forIn_cons, List.foldlM_cons, rawBody_eq]
    cases h : rawStep s leg with
    | error e => rfl
    | ok r => simp only [bind, Except.bind]; exact ih r

theorem rawCounts_eq (legs : List (List PS)) : rawCounts legs = (legs.drop 1).foldlM rawStep (0,0,0) := by
  have : rawCounts legs = (forIn (legs.drop 1) (0,0,0) rawBody).bind fun s => Except.pure (s.1, s.2.1, s.2.2) := rfl
  rw [this, rawLoop_eq]
  cases (legs.drop 1).foldlM rawStep (0,0,0) <;> rfl

/-! ### the census of a type-A star -/

theorem rawFold_singles : ∀ (L rest : List (List PS)) (s : Nat × Nat × Nat), (∀ leg ∈ L, leg.length = 1) →
    (L ++ rest).foldlM rawStep s = rest.foldlM rawStep (s.1 + L.length, s.2.1, s.2.2)
  | [], rest, s, _ => by simp
  | leg :: L, rest, s, h => by
    have h1 : leg.length = 1 := h leg (by simp)
    rw [List.cons_append, List.foldlM_cons]
    have : rawStep s leg = .ok (s.1 + 1, s.2.1, s.2.2) := by simp [rawStep, h1]
    rw [this]
    simp only [bind, Except.bind]
    rw [rawFold_singles L rest _ (fun l hl => h l (by simp [hl]))]
    simp only [List.length_cons]
    congr 2; omega

/-- the optional long leg of a type-A star: nothing (`r = 0`) or one leg of length `r ≥ 2` -/
def IsTail (r : Nat) (tail : List (List PS)) : Prop :=
  (r = 0 ∧ tail = []) ∨ (r ≥ 2 ∧ ∃ leg, tail = [leg] ∧ leg.length = r)

theorem counts_typeA {legs singles tail : List (List PS)} {cleg : List PS} {k r : Nat}
    (hlegs : legs = cleg :: (singles ++ tail)) (hs : ∀ leg ∈ singles, leg.length = 1)
    (hk : singles.length = k) (hk1 : k ≥ 1) (ht : IsTail r tail) :
    counts legs = .ok (k, 0, r + 1) := by
  have hraw : rawCounts legs = .ok (if r = 2 then (k, 1, 0) else (k, 0, r)) := by
    rw [rawCounts_eq, hlegs, List.drop_one, List.tail_cons, rawFold_singles singles tail _ hs, hk]
    rcases ht with ⟨rfl, rfl⟩ | ⟨hr, leg, rfl, hl⟩
    · simp [pure, Except.pure]
    · by_cases h2 : r = 2
      · subst h2; simp [rawStep, hl, pure, Except.pure, bind, Except.bind]
      · have h3 : 2 < r := by omega
        have h1 : ¬ r = 1 := by omega
        simp [rawStep, h3, h1, h2, hl, pure, Except.pure, bind, Except.bind]
  unfold counts
  rw [hraw]
  simp only [bind, Except.bind, pure, Except.pure]
  congr 1
  by_cases h2 : r = 2
  · subst h2; simp [adjustCounts, Id.run]; rfl
  · simp only [h2, if_false]
    by_cases h0 : r = 0
    · subst h0
      have : (decide (k ≥ 1)) = true := by simpa using hk1
      simp [adjustCounts, Id.run, this]; rfl
    · have hr : r ≥ 3 := by
        rcases ht with ⟨h, _⟩ | ⟨h, _⟩ <;> omega
      have e1 : (r == 0) = false := by simpa using h0
      have e2 : decide (r > 0) = true := by simp; omega
      simp [adjustCounts, Id.run, e1, e2]; rfl

/-- **the table entry of a type-A star**: `k ≥ 1` single legs and a long leg of length `r`
(`r = 0`: none) are named `2^(k-1) * so(r+3)` -/
theorem summand_typeA {legs singles tail : List (List PS)} {cleg : List PS} {k r : Nat}
    (hlegs : legs = cleg :: (singles ++ tail)) (hs : ∀ leg ∈ singles, leg.length = 1)
    (hk : singles.length = k) (hk1 : k ≥ 1) (ht : IsTail r tail)
    (deps unapp : List PS) (tags : List String) (complete : Bool) :
    summandOfMorph ⟨legs, deps, unapp, tags, complete⟩ = .ok ⟨.SO, r + 3, 2 ^ (k - 1)⟩ := by
  have hc := counts_typeA hlegs hs hk hk1 ht
  have hne : legs.isEmpty = false := by rw [hlegs]; rfl
  have hl1 : (legs.length == 1) = false := by
    rw [hlegs]; simp only [List.length_cons, List.length_append, hk]
    simp; omega
  have hm : multiplicity k = .ok (2 ^ (k - 1)) := by
    unfold multiplicity
    by_cases h1 : k = 1
    · subst h1; rfl
    · have e0 : (k == 0) = false := by simp; omega
      have e1 : (k == 1) = false := by simpa using h1
      simp [e0, e1]
  unfold summandOfMorph getAlgebraProperties getProperties
  simp only [hne, hl1, hc, bind, Except.bind, pure, Except.pure, propertiesOfCounts, algebraOfProperties]
  simp only [Bool.false_eq_true, if_false, beq_self_eq_true, if_true]
  rw [hm]

theorem summandsOf_typeA {legs singles tail : List (List PS)} {cleg : List PS} {k r : Nat}
    (hlegs : legs = cleg :: (singles ++ tail)) (hs : ∀ leg ∈ singles, leg.length = 1)
    (hk : singles.length = k) (hk1 : k ≥ 1) (ht : IsTail r tail)
    (deps unapp : List PS) (tags : List String) (complete : Bool) :
    summandsOf [⟨legs, deps, unapp, tags, complete⟩] = .ok [⟨.SO, r + 3, 2 ^ (k - 1)⟩] := by
  unfold summandsOf
  rw [List.mapM_cons, summand_typeA hlegs hs hk hk1 ht]
  rfl

theorem dlaDim_typeA {legs singles tail : List (List PS)} {cleg : List PS} {k r : Nat}
    (hlegs : legs = cleg :: (singles ++ tail)) (hs : ∀ leg ∈ singles, leg.length = 1)
    (hk : singles.length = k) (hk1 : k ≥ 1) (ht : IsTail r tail)
    (deps unapp : List PS) (tags : List String) (complete : Bool) :
    dlaDimOfMorphs [⟨legs, deps, unapp, tags, complete⟩] = .ok (2 ^ (k - 1) * dimSO (r + 3)) := by
  unfold dlaDimOfMorphs
  rw [summandsOf_typeA hlegs hs hk hk1 ht]
  simp [bind, Except.bind, pure, Except.pure, Summand.dim]

end C01Star
end PauLie
